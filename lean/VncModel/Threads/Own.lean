import VncModel.Threads.Prim
import VncModel.Threads.Tactics
/-! Generic invariant 1: the owner field of every mutex agrees with the ghost `held` lists. -/
namespace VncModel.Threads

/-- owner fields and ghost held-lists agree; no mutex is recorded twice -/
structure OwnInv (s : State) : Prop where
  own_iff : ∀ t m c, own s m c = some t ↔ mkey m c ∈ (getG s t).held
  nodup : ∀ t, (getG s t).held.Nodup
  keyed : ∀ t x, x ∈ (getG s t).held → x = mkey x.1 x.2

theorem mkey_idem (m : MCls) (c : Nat) : mkey (mkey m c).1 (mkey m c).2 = mkey m c := by
  cases m <;> simp [mkey, MCls.perClient]

theorem own_mkey (s : State) (m : MCls) (c : Nat) : own s (mkey m c).1 (mkey m c).2 = own s m c := by
  cases m <;> simp [mkey, MCls.perClient, own]

theorem own_congr_key (s : State) {m m' : MCls} {c c' : Nat} (h : mkey m c = mkey m' c') :
    own s m c = own s m' c' := by
  rw [← own_mkey s m c, ← own_mkey s m' c', h]

theorem ownInv_frame {s s' : State} (h : OwnInv s) (ho : ∀ m c, own s' m c = own s m c)
    (hg : ∀ t, (getG s' t).held = (getG s t).held) : OwnInv s' where
  own_iff t m c := by rw [ho, hg]; exact h.own_iff t m c
  nodup t := by rw [hg]; exact h.nodup t
  keyed t x := by rw [hg]; exact h.keyed t x

theorem ownInv_init : OwnInv State.init where
  own_iff t m c := by cases t <;> cases m <;> simp [State.init, own, getG]
  nodup t := by cases t <;> simp [State.init, getG]
  keyed t x := by cases t <;> simp [State.init, getG]

theorem ownInv_doLock {s s1 : State} {t : Tid} {m : MCls} {c : Nat} (h : OwnInv s)
    (hl : doLock s t m c = some s1) : OwnInv s1 := by
  unfold doLock at hl
  split at hl
  · rename_i hfree
    simp only [Option.some.injEq] at hl
    subst hl
    have hnot : ∀ t', mkey m c ∉ (getG s t').held := by
      intro t' hmem
      have := (h.own_iff t' m c).2 hmem
      rw [hfree] at this; cases this
    constructor
    · intro t' m' c'
      simp only [own_setG, own_setOwn, own_touchM, getG_setG, getG_setOwn, getG_touchM]
      by_cases hk : mkey m' c' = mkey m c
      · simp only [hk, if_true]
        by_cases ht : t' = t
        · subst ht; simp
        · simp only [ht, if_false]
          constructor
          · intro e; cases e; exact absurd rfl ht
          · intro hmem; exact absurd hmem (hnot t')
      · simp only [hk, if_false]
        by_cases ht : t' = t
        · subst ht
          simp only [if_true, List.mem_cons, hk, false_or]
          exact h.own_iff t' m' c'
        · simp only [ht, if_false]; exact h.own_iff t' m' c'
    · intro t'
      simp only [getG_setG, getG_setOwn, getG_touchM]
      by_cases ht : t' = t
      · subst ht; simp only [if_true, List.nodup_cons]; exact ⟨hnot t', h.nodup t'⟩
      · simp only [ht, if_false]; exact h.nodup t'
    · intro t' x
      simp only [getG_setG, getG_setOwn, getG_touchM]
      by_cases ht : t' = t
      · subst ht
        simp only [if_true, List.mem_cons]
        rintro (rfl | hx)
        · exact (mkey_idem m c).symm
        · exact h.keyed t' x hx
      · simp only [ht, if_false]; exact h.keyed t' x
  · cases hl

theorem ownInv_doUnlock {s : State} (t : Tid) (m : MCls) (c : Nat) (h : OwnInv s) : OwnInv (doUnlock s t m c) := by
  unfold doUnlock
  simp only [own_touchM]
  split
  · rename_i hown
    have hmem : mkey m c ∈ (getG s t).held := (h.own_iff t m c).1 hown
    constructor
    · intro t' m' c'
      simp only [own_setG, own_setOwn, own_touchM, getG_setG, getG_setOwn, getG_touchM]
      by_cases hk : mkey m' c' = mkey m c
      · simp only [hk, if_true]
        constructor
        · intro e; cases e
        · intro hm
          by_cases ht : t' = t
          · subst ht
            simp only [if_true] at hm
            exact absurd hm (by
              intro hm'
              exact (List.Nodup.not_mem_erase (h.nodup t')) hm')
          · simp only [ht, if_false] at hm
            have h1 := (h.own_iff t' m c).2 hm
            rw [hown] at h1; cases h1; exact absurd rfl ht
      · simp only [hk, if_false]
        by_cases ht : t' = t
        · subst ht
          simp only [if_true]
          rw [List.mem_erase_of_ne hk]
          exact h.own_iff t' m' c'
        · simp only [ht, if_false]; exact h.own_iff t' m' c'
    · intro t'
      simp only [getG_setG, getG_setOwn, getG_touchM]
      by_cases ht : t' = t
      · subst ht; simp only [if_true]; exact (h.nodup t').erase _
      · simp only [ht, if_false]; exact h.nodup t'
    · intro t' x
      simp only [getG_setG, getG_setOwn, getG_touchM]
      by_cases ht : t' = t
      · subst ht; simp only [if_true]; intro hx; exact h.keyed t' x (List.mem_of_mem_erase hx)
      · simp only [ht, if_false]; exact h.keyed t' x
  · refine ownInv_frame h (fun m' c' => ?_) (fun t' => ?_)
    · have : own (raise (touchM s m c) .badUnlock) m' c' = own (touchM s m c) m' c' := by
        cases m' <;> rfl
      rw [this, own_touchM]
    · have : getG (raise (touchM s m c) .badUnlock) t' = getG (touchM s m c) t' := by
        cases t' <;> rfl
      rw [this, getG_touchM]

theorem ownInv_congr {s s' : State} (ho : ∀ m c, own s' m c = own s m c)
    (hg : ∀ t, (getG s' t).held = (getG s t).held) : OwnInv s' ↔ OwnInv s :=
  ⟨fun h => ownInv_frame h (fun m c => (ho m c).symm) (fun t => (hg t).symm), fun h => ownInv_frame h ho hg⟩

@[simp] theorem ownInv_setC (s : State) (t : Tid) (pc : CPc) : OwnInv (setC s t pc) ↔ OwnInv s :=
  ownInv_congr (by simp) (by simp)
@[simp] theorem ownInv_setI (s : State) (c : Nat) (pc : IPc) : OwnInv (setI s c pc) ↔ OwnInv s :=
  ownInv_congr (by simp) (by simp)
@[simp] theorem ownInv_setO (s : State) (c : Nat) (pc : OPc) : OwnInv (setO s c pc) ↔ OwnInv s :=
  ownInv_congr (by simp) (by simp)
@[simp] theorem ownInv_touch (s : State) (c : Nat) : OwnInv (touch s c) ↔ OwnInv s :=
  ownInv_congr (by simp) (by simp)

theorem ownInv_updCl (s : State) (c : Nat) (f : Client → Client) (hf : Benign f) :
    OwnInv (updCl s c f) ↔ OwnInv s :=
  ownInv_congr (fun m c' => own_updCl s c f hf m c') (fun t => by rw [getG_updCl s c f hf])

theorem benign_refCount (g : Nat → Nat) : Benign (fun x => { x with refCount := g x.refCount }) := by
  intro x; simp

@[simp] theorem ownInv_incRef (s : State) (t : Tid) (c : Nat) : OwnInv (incRef s t c) ↔ OwnInv s := by
  unfold incRef
  refine ownInv_congr (fun m c' => ?_) (fun t' => ?_)
  · rw [own_setG, own_updCl _ _ _ (benign_refCount (· + 1))]
  · rw [getG_setG]; split
    · rename_i h; subst h; simp [getG_updCl _ _ _ (benign_refCount (· + 1))]
    · rw [getG_updCl _ _ _ (benign_refCount (· + 1))]

@[simp] theorem ownInv_decRef (s : State) (t : Tid) (c : Nat) : OwnInv (decRef s t c) ↔ OwnInv s := by
  unfold decRef
  split
  · refine ownInv_congr (fun m c' => ?_) (fun t' => ?_)
    · rw [own_setG, own_updCl _ _ _ (benign_refCount (· - 1))]
    · rw [getG_setG]; split
      · rename_i h; subst h; simp [getG_updCl _ _ _ (benign_refCount (· - 1))]
      · rw [getG_updCl _ _ _ (benign_refCount (· - 1))]
  · refine ownInv_congr (fun m c' => ?_) (fun t' => ?_)
    · have : own (raise (updCl s c (fun x => { x with refCount := x.refCount - 1 })) .badRef) m c' =
          own (updCl s c (fun x => { x with refCount := x.refCount - 1 })) m c' := by cases m <;> rfl
      rw [this, own_updCl _ _ _ (benign_refCount (· - 1))]
    · have : getG (raise (updCl s c (fun x => { x with refCount := x.refCount - 1 })) .badRef) t' =
          getG (updCl s c (fun x => { x with refCount := x.refCount - 1 })) t' := by cases t' <;> rfl
      rw [this, getG_updCl _ _ _ (benign_refCount (· - 1))]

@[simp] theorem ownInv_signalU (s : State) (c : Nat) : OwnInv (signalU s c) ↔ OwnInv s := by
  unfold signalU; split <;> simp

@[simp] theorem ownInv_signalD (s : State) (c : Nat) : OwnInv (signalD s c) ↔ OwnInv s := by
  unfold signalD
  simp only []
  split <;> split <;> split <;> simp

/-- an update of top-level fields other than the client table, the global owners and the ghosts -/
def TopUpd (s s' : State) : Prop :=
  s'.cl = s.cl ∧ s'.ownL = s.ownL ∧ s'.ownC = s.ownC ∧ s'.ga = s.ga ∧ s'.gl = s.gl

theorem own_top {s s' : State} (h : TopUpd s s') (m : MCls) (c : Nat) : own s' m c = own s m c := by
  obtain ⟨h1, h2, h3, _, _⟩ := h
  cases m <;> simp [own, h1, h2, h3]

theorem getG_top {s s' : State} (h : TopUpd s s') (t : Tid) : getG s' t = getG s t := by
  obtain ⟨h1, _, _, h4, h5⟩ := h
  cases t <;> simp [getG, h1, h4, h5]

theorem ownInv_top {s s' : State} (h : TopUpd s s') : OwnInv s' ↔ OwnInv s :=
  ownInv_congr (own_top h) (fun t => by rw [getG_top h])

/-! ### the record updates used by the model are benign -/
theorem benign_st (v : CSt) : Benign (fun x => { x with st := v }) := by intro x; simp
theorem benign_pipe (b : Bool) : Benign (fun x => { x with pipeNote := b }) := by intro x; simp
theorem benign_linked (b : Bool) : Benign (fun x => { x with linked := b }) := by intro x; simp
theorem benign_alive (b : Bool) : Benign (fun x => { x with alive := b }) := by intro x; simp
theorem benign_sock (b : Bool) : Benign (fun x => { x with sockOpen := b }) := by intro x; simp
theorem benign_gone : Benign (fun x => { x with goneCnt := x.goneCnt + 1 }) := by intro x; simp
theorem benign_ijoined (b : Bool) : Benign (fun x => { x with ijoined := b }) := by intro x; simp
theorem benign_ojoined (b : Bool) : Benign (fun x => { x with ojoined := b }) := by intro x; simp

@[simp] theorem ownInv_upd_st (s : State) (c : Nat) (v : CSt) :
    OwnInv (updCl s c (fun x => { x with st := v })) ↔ OwnInv s := ownInv_updCl s c _ (benign_st v)
@[simp] theorem ownInv_upd_pipe (s : State) (c : Nat) (b : Bool) :
    OwnInv (updCl s c (fun x => { x with pipeNote := b })) ↔ OwnInv s := ownInv_updCl s c _ (benign_pipe b)
@[simp] theorem ownInv_upd_linked (s : State) (c : Nat) (b : Bool) :
    OwnInv (updCl s c (fun x => { x with linked := b })) ↔ OwnInv s := ownInv_updCl s c _ (benign_linked b)
@[simp] theorem ownInv_upd_alive (s : State) (c : Nat) (b : Bool) :
    OwnInv (updCl s c (fun x => { x with alive := b })) ↔ OwnInv s := ownInv_updCl s c _ (benign_alive b)
@[simp] theorem ownInv_upd_sock (s : State) (c : Nat) (b : Bool) :
    OwnInv (updCl s c (fun x => { x with sockOpen := b })) ↔ OwnInv s := ownInv_updCl s c _ (benign_sock b)
@[simp] theorem ownInv_upd_gone (s : State) (c : Nat) :
    OwnInv (updCl s c (fun x => { x with goneCnt := x.goneCnt + 1 })) ↔ OwnInv s := ownInv_updCl s c _ benign_gone
@[simp] theorem ownInv_upd_ijoined (s : State) (c : Nat) (b : Bool) :
    OwnInv (updCl s c (fun x => { x with ijoined := b })) ↔ OwnInv s := ownInv_updCl s c _ (benign_ijoined b)
@[simp] theorem ownInv_upd_ojoined (s : State) (c : Nat) (b : Bool) :
    OwnInv (updCl s c (fun x => { x with ojoined := b })) ↔ OwnInv s := ownInv_updCl s c _ (benign_ojoined b)

theorem benign_fresh : Benign Client.fresh := by intro x; simp [Client.fresh]
@[simp] theorem ownInv_upd_fresh (s : State) (c : Nat) : OwnInv (updCl s c Client.fresh) ↔ OwnInv s :=
  ownInv_updCl s c _ benign_fresh

theorem topUpd_raise (s : State) (f : Flag) : TopUpd s (raise s f) := by cases f <;> exact ⟨rfl, rfl, rfl, rfl, rfl⟩
theorem topUpd_raiseIf (s : State) (f : Flag) (b : Bool) : TopUpd s (raiseIf s f b) := by
  unfold raiseIf; split
  · exact topUpd_raise s f
  · exact ⟨rfl, rfl, rfl, rfl, rfl⟩
theorem topUpd_setAlk (s : State) (l : List Nat) : TopUpd s (setAlk s l) := ⟨rfl, rfl, rfl, rfl, rfl⟩
theorem topUpd_setN (s : State) (n : Nat) : TopUpd s (setN s n) := ⟨rfl, rfl, rfl, rfl, rfl⟩
theorem topUpd_setAapi (s : State) (a : Api) : TopUpd s (setAapi s a) := ⟨rfl, rfl, rfl, rfl, rfl⟩
theorem topUpd_setLisDown (s : State) : TopUpd s (setLisDown s) := ⟨rfl, rfl, rfl, rfl, rfl⟩
theorem topUpd_setLjoined (s : State) : TopUpd s (setLjoined s) := ⟨rfl, rfl, rfl, rfl, rfl⟩

@[simp] theorem ownInv_raise (s : State) (f : Flag) : OwnInv (raise s f) ↔ OwnInv s := ownInv_top (topUpd_raise s f)
@[simp] theorem ownInv_raiseIf (s : State) (f : Flag) (b : Bool) : OwnInv (raiseIf s f b) ↔ OwnInv s :=
  ownInv_top (topUpd_raiseIf s f b)
@[simp] theorem ownInv_setAlk (s : State) (l : List Nat) : OwnInv (setAlk s l) ↔ OwnInv s := ownInv_top (topUpd_setAlk s l)
@[simp] theorem ownInv_setAlkT (s : State) (t : Tid) (l : List Nat) : OwnInv (setAlkT s t l) ↔ OwnInv s := by
  unfold setAlkT; split <;> simp
@[simp] theorem ownInv_setN (s : State) (n : Nat) : OwnInv (setN s n) ↔ OwnInv s := ownInv_top (topUpd_setN s n)
@[simp] theorem ownInv_setAapi (s : State) (a : Api) : OwnInv (setAapi s a) ↔ OwnInv s := ownInv_top (topUpd_setAapi s a)
@[simp] theorem ownInv_setLisDown (s : State) : OwnInv (setLisDown s) ↔ OwnInv s := ownInv_top (topUpd_setLisDown s)
@[simp] theorem ownInv_setLjoined (s : State) : OwnInv (setLjoined s) ↔ OwnInv s := ownInv_top (topUpd_setLjoined s)

macro "own_fin" : tactic => `(tactic| (
  subst_vars
  try simp only [ownInv_setC, ownInv_setI, ownInv_setO, ownInv_touch, ownInv_incRef, ownInv_decRef,
    ownInv_signalU, ownInv_signalD, ownInv_upd_st, ownInv_upd_pipe, ownInv_upd_linked, ownInv_upd_alive,
    ownInv_upd_sock, ownInv_upd_gone, ownInv_upd_ijoined, ownInv_upd_ojoined, ownInv_upd_fresh, ownInv_raise, ownInv_raiseIf, ownInv_setAlk,
    ownInv_setAlkT, ownInv_setN, ownInv_setAapi, ownInv_setLisDown, ownInv_setLjoined]
  first
  | assumption
  | exact ownInv_doUnlock _ _ _ ‹OwnInv _›
  | exact ownInv_doLock ‹OwnInv _› ‹doLock _ _ _ _ = some _›))

theorem ownInv_storeSt {s : State} {c : Nat} {v : CSt} {k : State → State} {l : Lbl} {s' : State}
    (hk : ∀ s1, OwnInv s1 → OwnInv (k s1)) (h : OwnInv s) (hs : (l, s') ∈ storeSt s c v k) : OwnInv s' := by
  unfold storeSt at hs
  simp only [] at hs
  split at hs <;> simp at hs <;> obtain ⟨_, rfl⟩ := hs
  · exact hk _ ((ownInv_touch s c).2 h)
  · exact hk _ ((ownInv_upd_st _ c v).2 ((ownInv_touch s c).2 h))

theorem ownInv_out {s : State} {c : Nat} {l : Lbl} {s' : State} (h : OwnInv s)
    (hs : (l, s') ∈ outSucc s c) : OwnInv s' := by
  unfold outSucc at hs
  split at hs
  all_goals first
    | (simp at hs; done)
    | exact ownInv_storeSt (fun s1 h1 => (ownInv_setO _ _ _).2 h1) h hs
    | (simp at hs; crack_hyps; all_goals own_fin)

theorem ownInv_goneSucc {s : State} {t : Tid} {g : GSt} {c : Nat} {setG : State → GSt → State}
    {ret : State → State} {l : Lbl} {s' : State}
    (hset : ∀ s1 g1, OwnInv (setG s1 g1) ↔ OwnInv s1) (hret : ∀ s1, OwnInv (ret s1) ↔ OwnInv s1)
    (h : OwnInv s) (hs : (l, s') ∈ goneSucc s t g c setG ret) : OwnInv s' := by
  unfold goneSucc at hs
  split at hs
  all_goals first
    | (simp at hs; done)
    | (simp at hs; crack_hyps; all_goals (subst_vars; simp only [hset, hret]; try split); all_goals own_fin)

theorem ownInv_inp {s : State} {c : Nat} {l : Lbl} {s' : State} (h : OwnInv s)
    (hs : (l, s') ∈ inpSucc s c) : OwnInv s' := by
  unfold inpSucc at hs
  split at hs
  all_goals try split at hs
  all_goals first
    | (simp at hs; done)
    | exact ownInv_storeSt (fun s1 h1 => (ownInv_setI _ _ _).2 h1) h hs
    | exact ownInv_goneSucc (fun s1 g1 => ownInv_setI _ _ _) (fun s1 => ownInv_setI _ _ _) h hs
    | (simp at hs; crack_hyps; all_goals own_fin)

theorem ownInv_iter {s : State} {t : Tid} {p : Proc} {st : ISt} {prev nxt : Option Nat} {l : Lbl} {s' : State}
    (h : OwnInv s) (hs : (l, s') ∈ iterSucc s t p st prev nxt) : OwnInv s' := by
  unfold iterSucc at hs
  repeat' (split at hs)
  all_goals first
    | (simp at hs; done)
    | (simp at hs; crack_hyps; all_goals own_fin)

theorem ownInv_body {s : State} {t : Tid} {p : Proc} {k c : Nat} {l : Lbl} {s' : State}
    (h : OwnInv s) (hs : (l, s') ∈ bodySucc s t p k c) : OwnInv s' := by
  unfold bodySucc at hs
  split at hs
  all_goals first
    | (simp at hs; done)
    | (simp at hs; crack_hyps; all_goals own_fin)

theorem ownInv_close {s : State} {t : Tid} {p : Proc} {k : KSt} {c : Nat} {l : Lbl} {s' : State}
    (h : OwnInv s) (hs : (l, s') ∈ closeSucc s t p k c) : OwnInv s' := by
  unfold closeSucc at hs
  split at hs
  all_goals first
    | (simp at hs; done)
    | exact ownInv_storeSt (fun s1 h1 => (ownInv_setC _ _ _).2 h1) h hs
    | (simp at hs; crack_hyps; all_goals own_fin)

theorem ownInv_nf {s : State} {t : Tid} {st : NSt} {i : Nat} {l : Lbl} {s' : State}
    (h : OwnInv s) (hs : (l, s') ∈ nfSucc s t st i) : OwnInv s' := by
  unfold nfSucc at hs
  repeat' (split at hs)
  all_goals first
    | (simp at hs; done)
    | (simp at hs; crack_hyps; all_goals own_fin)

theorem ownInv_cr {s : State} {t : Tid} {st : CrSt} {c : Nat} {l : Lbl} {s' : State}
    (h : OwnInv s) (hs : (l, s') ∈ crSucc s t st c) : OwnInv s' := by
  unfold crSucc at hs
  split at hs
  all_goals try split at hs
  all_goals first
    | (simp at hs; done)
    | (simp only [List.mem_singleton, Prod.mk.injEq] at hs; obtain ⟨_, rfl⟩ := hs
       simp only [ownInv_setC, ownInv_setN, ownInv_upd_fresh]; exact h)
    | exact ownInv_storeSt (fun s1 h1 => (ownInv_setC _ _ _).2 h1) h hs
    | (simp at hs; crack_hyps; all_goals own_fin)

theorem ownInv_caller {s : State} {t : Tid} {l : Lbl} {s' : State}
    (h : OwnInv s) (hs : (l, s') ∈ callerSucc s t) : OwnInv s' := by
  unfold callerSucc at hs
  split at hs
  all_goals first
    | (simp at hs; done)
    | exact ownInv_iter h hs
    | exact ownInv_body h hs
    | exact ownInv_close h hs
    | exact ownInv_nf h hs
    | exact ownInv_cr h hs
    | exact ownInv_goneSucc (fun s1 g1 => ownInv_setC _ _ _) (fun s1 => ownInv_setC _ _ _) h hs
    | (repeat' (split at hs)
       all_goals first
        | (simp at hs; done)
        | (simp at hs; crack_hyps; all_goals own_fin))

/-- generic invariant 1 is inductive -/
theorem ownInv_step {s s' : State} (h : OwnInv s) (hs : Step s s') : OwnInv s' := by
  obtain ⟨t, l, hm⟩ := hs
  cases t with
  | app => exact ownInv_caller h hm
  | lis =>
    simp only [succ] at hm
    split at hm
    · exact ownInv_caller h hm
    · simp at hm
  | inp c => exact ownInv_inp h hm
  | out c => exact ownInv_out h hm

theorem ownInv_reach {s : State} (h : Reach s) : OwnInv s := by
  induction h with
  | init => exact ownInv_init
  | step _ hs ih => exact ownInv_step ih hs

end VncModel.Threads
