import VncModel.Threads.Refs
/-! Life cycle of a client record: who may touch it when. -/
namespace VncModel.Threads

def gPre : GSt → Bool
  | .lockL | .lockR | .unlockLw | .waitD | .blocked | .wakeD | .unlockRw | .unlockR => true
  | _ => false

def ipcAlive : IPc → Bool
  | .notStarted | .exiting | .exited => false
  | _ => true

def ipcLinked : IPc → Bool
  | .createO | .sel | .w1 | .f1 | .f2 | .e1 | .k _ | .x0 | .x0s | .x1 | .x2 | .x3 | .x4 => true
  | .g st => gPre st
  | _ => false

def ipcHasOut : IPc → Bool
  | .sel | .w1 | .f1 | .f2 | .e1 | .k _ | .x0 | .x0s | .x1 | .x2 | .x3 => true
  | _ => false

def opcRun : OPc → Bool
  | .notStarted | .exited => false
  | _ => true

/-- the client a calling thread is creating / tearing down after a failed creation, and whether the
record is in the list at that stage -/
def crOf : CPc → Option (Nat × Bool)
  | .cr st c => (match st with | .alloc => none | .insLock => some (c, false) | _ => some (c, true))
  | .gone g c => some (c, gPre g)
  | _ => none

structure Life (s : State) : Prop where
  linked_alive : ∀ c, (s.cl c).linked = true → (s.cl c).alive = true
  inp_alive : ∀ c, ipcAlive (s.cl c).ipc = true → (s.cl c).alive = true
  inp_linked : ∀ c, ipcAlive (s.cl c).ipc = true → (s.cl c).linked = ipcLinked (s.cl c).ipc
  inp_dead : ∀ c, (s.cl c).ipc = .exiting ∨ (s.cl c).ipc = .exited → (s.cl c).alive = false ∧ (s.cl c).linked = false
  out_inp : ∀ c, opcRun (s.cl c).opc = true → ipcHasOut (s.cl c).ipc = true
  out_ns : ∀ c, (s.cl c).ipc = .notStarted ∨ (s.cl c).ipc = .createO → (s.cl c).opc = .notStarted
  cr_app : ∀ c b, crOf s.apc = some (c, b) → (s.cl c).alive = true ∧ (s.cl c).ipc = .notStarted ∧ (s.cl c).linked = b
  cr_lis : ∀ c b, crOf s.lpc = some (c, b) → (s.cl c).alive = true ∧ (s.cl c).ipc = .notStarted ∧ (s.cl c).linked = b
  cr_excl : ∀ c b b', crOf s.apc = some (c, b) → crOf s.lpc = some (c, b') → False
  refs_linked : ∀ t x, x ∈ refsOf s t → (s.cl x).linked = true
  pend_app : ∀ p prev c, s.apc = .iter p .incLock prev (some c) → (s.cl c).linked = true
  pend_lis : ∀ p prev c, s.lpc = .iter p .incLock prev (some c) → (s.cl c).linked = true
  zero_inp : ∀ c, (s.cl c).ipc = .g .unlockR → (s.cl c).refCount = 0
  zero_app : ∀ c, s.apc = .gone .unlockR c → (s.cl c).refCount = 0
  zero_lis : ∀ c, s.lpc = .gone .unlockR c → (s.cl c).refCount = 0
  nouaf : s.uaf = false ∧ s.dfree = false

theorem life_init : Life State.init := by
  constructor <;> simp [State.init, ipcAlive, opcRun, crOf, refsOf, refsC, refsO]
  intro t x; cases t <;> simp [refsOf, refsC, refsO]

/-- `Life` only reads these parts of the state -/
structure LSame (s s' : State) : Prop where
  cl : ∀ c, (s'.cl c).alive = (s.cl c).alive ∧ (s'.cl c).linked = (s.cl c).linked ∧
        (s'.cl c).refCount = (s.cl c).refCount ∧ (s'.cl c).ipc = (s.cl c).ipc ∧ (s'.cl c).opc = (s.cl c).opc
  apc : s'.apc = s.apc
  lpc : s'.lpc = s.lpc
  alk : s'.alk = s.alk
  uaf : s'.uaf = s.uaf
  dfree : s'.dfree = s.dfree

theorem refsOf_lsame {s s' : State} (h : LSame s s') (t : Tid) : refsOf s' t = refsOf s t := by
  cases t <;> simp [refsOf, h.apc, h.lpc, h.alk, (h.cl _).2.2.2.2]

theorem life_lsame {s s' : State} (h : LSame s s') (hl : Life s) : Life s' := by
  have e := h.cl
  constructor
  · intro c; rw [(e c).1, (e c).2.1]; exact hl.linked_alive c
  · intro c; rw [(e c).1, (e c).2.2.2.1]; exact hl.inp_alive c
  · intro c; rw [(e c).2.1, (e c).2.2.2.1]; exact hl.inp_linked c
  · intro c; rw [(e c).1, (e c).2.1, (e c).2.2.2.1]; exact hl.inp_dead c
  · intro c; rw [(e c).2.2.2.1, (e c).2.2.2.2]; exact hl.out_inp c
  · intro c; rw [(e c).2.2.2.1, (e c).2.2.2.2]; exact hl.out_ns c
  · intro c b; rw [h.apc, (e c).1, (e c).2.1, (e c).2.2.2.1]; exact hl.cr_app c b
  · intro c b; rw [h.lpc, (e c).1, (e c).2.1, (e c).2.2.2.1]; exact hl.cr_lis c b
  · intro c b b'; rw [h.apc, h.lpc]; exact hl.cr_excl c b b'
  · intro t x; rw [refsOf_lsame h, (e x).2.1]; exact hl.refs_linked t x
  · intro p prev c; rw [h.apc, (e c).2.1]; exact hl.pend_app p prev c
  · intro p prev c; rw [h.lpc, (e c).2.1]; exact hl.pend_lis p prev c
  · intro c; rw [(e c).2.2.2.1, (e c).2.2.1]; exact hl.zero_inp c
  · intro c; rw [h.apc, (e c).2.2.1]; exact hl.zero_app c
  · intro c; rw [h.lpc, (e c).2.2.1]; exact hl.zero_lis c
  · rw [h.uaf, h.dfree]; exact hl.nouaf

theorem LSame.refl (s : State) : LSame s s := ⟨fun _ => ⟨rfl, rfl, rfl, rfl, rfl⟩, rfl, rfl, rfl, rfl, rfl⟩
theorem LSame.trans {a b c : State} (h1 : LSame a b) (h2 : LSame b c) : LSame a c :=
  ⟨fun x => ⟨(h2.cl x).1.trans (h1.cl x).1, (h2.cl x).2.1.trans (h1.cl x).2.1, (h2.cl x).2.2.1.trans (h1.cl x).2.2.1,
            (h2.cl x).2.2.2.1.trans (h1.cl x).2.2.2.1, (h2.cl x).2.2.2.2.trans (h1.cl x).2.2.2.2⟩,
   h2.apc.trans h1.apc, h2.lpc.trans h1.lpc, h2.alk.trans h1.alk, h2.uaf.trans h1.uaf, h2.dfree.trans h1.dfree⟩

theorem lsame_touch {s : State} {c : Nat} (ha : (s.cl c).alive = true) : LSame s (touch s c) := by
  unfold touch; rw [if_pos ha]; exact LSame.refl s

theorem uaf_setOwn (s : State) (m : MCls) (c : Nat) (o : Option Tid) :
    (setOwn s m c o).uaf = s.uaf ∧ (setOwn s m c o).dfree = s.dfree := by cases m <;> exact ⟨rfl, rfl⟩
theorem uaf_setG (s : State) (t : Tid) (g : Ghost) : (setG s t g).uaf = s.uaf ∧ (setG s t g).dfree = s.dfree := by
  cases t <;> exact ⟨rfl, rfl⟩

theorem lsame_setOwn (s : State) (m : MCls) (c : Nat) (o : Option Tid) : LSame s (setOwn s m c o) := by
  have h := coreEq_setOwn s m c o
  have t := top_setOwn s m c o
  refine ⟨fun x => ?_, t.1, t.2.1, t.2.2.2.1, (uaf_setOwn s m c o).1, (uaf_setOwn s m c o).2⟩
  have := h x; unfold CoreEq at this
  exact ⟨this.1, this.2.1, this.2.2.2.2.2.1, this.2.2.2.2.2.2.2.1, this.2.2.2.2.2.2.2.2.1⟩

theorem lsame_setG (s : State) (t : Tid) (g : Ghost) : LSame s (setG s t g) := by
  have h := coreEq_setG s t g
  have tp := top_setG s t g
  refine ⟨fun x => ?_, tp.1, tp.2.1, tp.2.2.2.1, (uaf_setG s t g).1, (uaf_setG s t g).2⟩
  have := h x; unfold CoreEq at this
  exact ⟨this.1, this.2.1, this.2.2.2.2.2.1, this.2.2.2.2.2.2.2.1, this.2.2.2.2.2.2.2.2.1⟩

theorem lsame_touchM {s : State} {m : MCls} {c : Nat} (ha : m.perClient = true → (s.cl c).alive = true) :
    LSame s (touchM s m c) := by
  unfold touchM; split
  · rename_i h; exact lsame_touch (ha h)
  · exact LSame.refl s

theorem lsame_doLock {s a : State} {t : Tid} {m : MCls} {c : Nat} (h : doLock s t m c = some a)
    (ha : m.perClient = true → (s.cl c).alive = true) : LSame s a := by
  unfold doLock at h
  split at h
  · simp only [Option.some.injEq] at h; subst h
    exact ((lsame_touchM ha).trans (lsame_setOwn _ m c _)).trans (lsame_setG _ t _)
  · cases h

/-- UNLOCK by the owner -/
theorem lsame_doUnlock {s : State} {t : Tid} {m : MCls} {c : Nat} (ho : own s m c = some t)
    (ha : m.perClient = true → (s.cl c).alive = true) : LSame s (doUnlock s t m c) := by
  unfold doUnlock
  simp only [own_touchM, ho, if_true]
  exact ((lsame_touchM ha).trans (lsame_setOwn _ m c _)).trans (lsame_setG _ t _)

/-- record updates `Life` does not look at -/
def LifeNeutral (f : Client → Client) : Prop :=
  ∀ x, (f x).alive = x.alive ∧ (f x).linked = x.linked ∧ (f x).refCount = x.refCount ∧ (f x).ipc = x.ipc ∧ (f x).opc = x.opc

theorem lsame_updCl (s : State) (c : Nat) (f : Client → Client) (hf : LifeNeutral f) : LSame s (updCl s c f) := by
  refine ⟨fun x => ?_, rfl, rfl, rfl, rfl, rfl⟩
  rw [updCl_cl]; split
  · rename_i h; subst h; exact hf _
  · exact ⟨rfl, rfl, rfl, rfl, rfl⟩

theorem lsame_raise (s : State) (f : Flag) (h1 : f ≠ .uaf) (h2 : f ≠ .dfree) : LSame s (raise s f) := by
  cases f <;> first | exact absurd rfl h1 | exact absurd rfl h2 | exact ⟨fun _ => ⟨rfl, rfl, rfl, rfl, rfl⟩, rfl, rfl, rfl, rfl, rfl⟩

end VncModel.Threads
