import VncModel.Threads.Refs
/-! Life cycle of a client record: allocated → linked → (threads) → unlinked → freed, and who may
touch it when.  `Life` is the inductive invariant; the consequences (`no_uaf`, no double free) are
in NoUaf.lean. -/
set_option linter.unusedSimpArgs false
namespace VncModel.Threads

/-- stages of rfbClientConnectionGone before the record is taken out of the list -/
def gPre : GSt → Bool
  | .lockL | .lockR | .unlockLw | .waitD | .blocked | .wakeD | .unlockRw | .unlockR => true
  | _ => false

/-- the input thread exists and its record is allocated -/
def ipcAlive : IPc → Bool
  | .notStarted | .exiting | .exited => false
  | _ => true

/-- ... and still in the client list -/
def ipcLinked : IPc → Bool
  | .createO | .sel | .w1 | .f1 | .f2 | .e1 | .k _ | .x0 | .x0s | .x1 | .x2 | .x3 | .x4 | .x4s | .x4u => true
  | .g st => gPre st
  | _ => false

/-- the input thread has created and not yet joined the output thread -/
def ipcHasOut : IPc → Bool
  | .sel | .w1 | .f1 | .f2 | .e1 | .k _ | .x0 | .x0s | .x1 | .x2 | .x3 => true
  | _ => false

/-- after the join, up to the unlink -/
def ipcPre : IPc → Bool
  | .x4 | .x4s | .x4u => true
  | .g st => gPre st
  | _ => false

def opcRun : OPc → Bool
  | .notStarted | .exited => false
  | _ => true

/-- the client a calling thread is creating / tearing down after a failed creation, and whether the
record is in the list at that stage -/
def crOf : CPc → Option (Nat × Bool)
  | .cr st c => (match st with | .alloc => none | .insLock => some (c, false) | _ => some (c, true))
  | .gone g c => some (c, gPre g)
  | _ => none

/-- rfbNewFramebuffer's list of remembered clients is a local of the application thread -/
def alkOf (s : State) (t : Tid) : List Nat :=
  match t with
  | .app => s.alk
  | _ => []

/-- the clients a calling thread relies on being in the list (besides the one it is creating): the
ones it holds a counted reference on, the one the iterator found under the list mutex and is about to
reference, the one whose reference it has just dropped while it still holds that client's
refCountMutex -/
def knownC (pc : CPc) (alk : List Nat) : List Nat :=
  refsC pc alk ++
  (match pc with
   | .iter _ .incLock _ (some c) => [c]
   | .iter _ .decSignal (some q) _ | .iter _ .decUnlock (some q) _ => [q]
   | .nf .decSignal i | .nf .decUnlock i => (alk[i]?).toList
   | _ => [])

structure Life (s : State) : Prop where
  linked_alive : ∀ c, (s.cl c).linked = true → (s.cl c).alive = true
  fresh : ∀ c, s.n ≤ c → (s.cl c).linked = false ∧ (s.cl c).alive = false
  inp_alive : ∀ c, ipcAlive (s.cl c).ipc = true → (s.cl c).alive = true
  inp_linked : ∀ c, ipcAlive (s.cl c).ipc = true → (s.cl c).linked = ipcLinked (s.cl c).ipc
  out_inp : ∀ c, opcRun (s.cl c).opc = true → ipcHasOut (s.cl c).ipc = true
  out_ns : ∀ c, (s.cl c).ipc = .notStarted ∨ (s.cl c).ipc = .createO → (s.cl c).opc = .notStarted
  cr : ∀ t c b, crOf (getC s t) = some (c, b) →
        (s.cl c).alive = true ∧ (s.cl c).ipc = .notStarted ∧ (s.cl c).linked = b
  cr_excl : ∀ c b b', crOf s.apc = some (c, b) → crOf s.lpc = some (c, b') → False
  known : ∀ t x, x ∈ knownC (getC s t) (alkOf s t) → (s.cl x).linked = true
  zero_inp : ∀ c, (s.cl c).ipc = .g .unlockR → (s.cl c).refCount = 0
  zero_c : ∀ t c, getC s t = .gone .unlockR c → (s.cl c).refCount = 0

theorem life_init : Life State.init := by
  constructor
  · intro c; simp [State.init]
  · intro c; simp [State.init]
  · intro c; simp [State.init, ipcAlive]
  · intro c; simp [State.init, ipcAlive]
  · intro c; simp [State.init, opcRun]
  · intro c; simp [State.init]
  · intro t c b; cases t <;> simp [State.init, getC, crOf]
  · intro c b b'; simp [State.init, crOf]
  · intro t x; cases t <;> simp [State.init, getC, alkOf, knownC, refsC]
  · intro c; simp [State.init]
  · intro t c; cases t <;> simp [State.init, getC]

/-! ### the part of the state `Life` reads -/

structure LSame (s s' : State) : Prop where
  cl : ∀ c, (s'.cl c).alive = (s.cl c).alive ∧ (s'.cl c).linked = (s.cl c).linked ∧
        (s'.cl c).refCount = (s.cl c).refCount ∧ (s'.cl c).ipc = (s.cl c).ipc ∧ (s'.cl c).opc = (s.cl c).opc
  apc : s'.apc = s.apc
  lpc : s'.lpc = s.lpc
  alk : s'.alk = s.alk
  n : s'.n = s.n

theorem getC_lsame {s s' : State} (h : LSame s s') (t : Tid) : getC s' t = getC s t := by
  cases t <;> simp [getC, h.apc, h.lpc]
theorem alkOf_lsame {s s' : State} (h : LSame s s') (t : Tid) : alkOf s' t = alkOf s t := by
  cases t <;> simp [alkOf, h.alk]

theorem life_of_lsame {s s' : State} (h : LSame s s') (hl : Life s) : Life s' := by
  have e := h.cl
  constructor
  · intro c; rw [(e c).1, (e c).2.1]; exact hl.linked_alive c
  · intro c; rw [(e c).1, (e c).2.1, h.n]; exact hl.fresh c
  · intro c; rw [(e c).1, (e c).2.2.2.1]; exact hl.inp_alive c
  · intro c; rw [(e c).2.1, (e c).2.2.2.1]; exact hl.inp_linked c
  · intro c; rw [(e c).2.2.2.1, (e c).2.2.2.2]; exact hl.out_inp c
  · intro c; rw [(e c).2.2.2.1, (e c).2.2.2.2]; exact hl.out_ns c
  · intro t c b; rw [getC_lsame h, (e c).1, (e c).2.1, (e c).2.2.2.1]; exact hl.cr t c b
  · intro c b b'; rw [h.apc, h.lpc]; exact hl.cr_excl c b b'
  · intro t x; rw [getC_lsame h, alkOf_lsame h, (e x).2.1]; exact hl.known t x
  · intro c; rw [(e c).2.2.2.1, (e c).2.2.1]; exact hl.zero_inp c
  · intro t c; rw [getC_lsame h, (e c).2.2.1]; exact hl.zero_c t c

theorem LSame.refl (s : State) : LSame s s := ⟨fun _ => ⟨rfl, rfl, rfl, rfl, rfl⟩, rfl, rfl, rfl, rfl⟩
theorem LSame.symm {a b : State} (h : LSame a b) : LSame b a :=
  ⟨fun x => ⟨(h.cl x).1.symm, (h.cl x).2.1.symm, (h.cl x).2.2.1.symm, (h.cl x).2.2.2.1.symm, (h.cl x).2.2.2.2.symm⟩,
   h.apc.symm, h.lpc.symm, h.alk.symm, h.n.symm⟩
theorem LSame.trans {a b c : State} (h1 : LSame a b) (h2 : LSame b c) : LSame a c :=
  ⟨fun x => ⟨(h2.cl x).1.trans (h1.cl x).1, (h2.cl x).2.1.trans (h1.cl x).2.1, (h2.cl x).2.2.1.trans (h1.cl x).2.2.1,
            (h2.cl x).2.2.2.1.trans (h1.cl x).2.2.2.1, (h2.cl x).2.2.2.2.trans (h1.cl x).2.2.2.2⟩,
   h2.apc.trans h1.apc, h2.lpc.trans h1.lpc, h2.alk.trans h1.alk, h2.n.trans h1.n⟩

theorem life_iff_of_lsame {s s' : State} (h : LSame s s') : Life s' ↔ Life s :=
  ⟨life_of_lsame h.symm, life_of_lsame h⟩

theorem lsame_of_core {s s' : State} (hc : ∀ c, CoreEq (s'.cl c) (s.cl c))
    (ht : s'.apc = s.apc ∧ s'.lpc = s.lpc ∧ s'.n = s.n ∧ s'.alk = s.alk ∧ s'.lisDown = s.lisDown ∧ s'.ljoined = s.ljoined ∧
      s'.aapi = s.aapi) : LSame s s' := by
  refine ⟨fun x => ?_, ht.1, ht.2.1, ht.2.2.2.1, ht.2.2.1⟩
  have := hc x; unfold CoreEq at this
  exact ⟨this.1, this.2.1, this.2.2.2.2.2.1, this.2.2.2.2.2.2.2.1, this.2.2.2.2.2.2.2.2.1⟩

theorem lsame_doLock {s a : State} {t : Tid} {m : MCls} {c : Nat} (h : doLock s t m c = some a) : LSame s a :=
  lsame_of_core (coreEq_doLock h) (top_doLock h)
theorem lsame_doUnlock (s : State) (t : Tid) (m : MCls) (c : Nat) : LSame s (doUnlock s t m c) :=
  lsame_of_core (coreEq_doUnlock s t m c) (top_doUnlock s t m c)
theorem lsame_touch (s : State) (c : Nat) : LSame s (touch s c) :=
  lsame_of_core (fun c' => by rw [touch_cl]; exact CoreEq.rfl' _) (top_touch s c)

/-- record updates `Life` does not look at -/
def LifeNeutral (f : Client → Client) : Prop :=
  ∀ x, (f x).alive = x.alive ∧ (f x).linked = x.linked ∧ (f x).refCount = x.refCount ∧ (f x).ipc = x.ipc ∧ (f x).opc = x.opc

theorem lsame_updCl (s : State) (c : Nat) (f : Client → Client) (hf : LifeNeutral f) : LSame s (updCl s c f) := by
  refine ⟨fun x => ?_, rfl, rfl, rfl, rfl⟩
  rw [updCl_cl]; split
  · rename_i h; subst h; exact hf _
  · exact ⟨rfl, rfl, rfl, rfl, rfl⟩

theorem lsame_raise (s : State) (f : Flag) : LSame s (raise s f) := by
  cases f <;> exact ⟨fun _ => ⟨rfl, rfl, rfl, rfl, rfl⟩, rfl, rfl, rfl, rfl⟩
theorem lsame_raiseIf (s : State) (f : Flag) (b : Bool) : LSame s (raiseIf s f b) := by
  unfold raiseIf; split
  · exact lsame_raise s f
  · exact LSame.refl s

@[simp] theorem life_doUnlock (s : State) (t : Tid) (m : MCls) (c : Nat) : Life (doUnlock s t m c) ↔ Life s :=
  life_iff_of_lsame (lsame_doUnlock s t m c)
theorem life_doLock {s a : State} {t : Tid} {m : MCls} {c : Nat} (h : doLock s t m c = some a) : Life a ↔ Life s :=
  life_iff_of_lsame (lsame_doLock h)
@[simp] theorem life_touch (s : State) (c : Nat) : Life (touch s c) ↔ Life s := life_iff_of_lsame (lsame_touch s c)
@[simp] theorem life_raise (s : State) (f : Flag) : Life (raise s f) ↔ Life s := life_iff_of_lsame (lsame_raise s f)
@[simp] theorem life_raiseIf (s : State) (f : Flag) (b : Bool) : Life (raiseIf s f b) ↔ Life s :=
  life_iff_of_lsame (lsame_raiseIf s f b)
theorem life_updCl (s : State) (c : Nat) (f : Client → Client) (hf : LifeNeutral f) : Life (updCl s c f) ↔ Life s :=
  life_iff_of_lsame (lsame_updCl s c f hf)
@[simp] theorem life_setAapi (s : State) (a : Api) : Life (setAapi s a) ↔ Life s :=
  life_iff_of_lsame ⟨fun _ => ⟨rfl, rfl, rfl, rfl, rfl⟩, rfl, rfl, rfl, rfl⟩
@[simp] theorem life_setLisDown (s : State) : Life (setLisDown s) ↔ Life s :=
  life_iff_of_lsame ⟨fun _ => ⟨rfl, rfl, rfl, rfl, rfl⟩, rfl, rfl, rfl, rfl⟩
@[simp] theorem life_setLjoined (s : State) : Life (setLjoined s) ↔ Life s :=
  life_iff_of_lsame ⟨fun _ => ⟨rfl, rfl, rfl, rfl, rfl⟩, rfl, rfl, rfl, rfl⟩

/-! ### observables under the program-counter setters -/

@[simp] theorem getC_setO (s : State) (c : Nat) (pc : OPc) (t : Tid) : getC (setO s c pc) t = getC s t := by
  cases t <;> rfl
@[simp] theorem getC_setI (s : State) (c : Nat) (pc : IPc) (t : Tid) : getC (setI s c pc) t = getC s t := by
  cases t <;> rfl
@[simp] theorem getC_updCl (s : State) (c : Nat) (f) (t : Tid) : getC (updCl s c f) t = getC s t := by
  cases t <;> rfl
@[simp] theorem alkOf_setO (s : State) (c : Nat) (pc : OPc) (t : Tid) : alkOf (setO s c pc) t = alkOf s t := by
  cases t <;> rfl
@[simp] theorem alkOf_setI (s : State) (c : Nat) (pc : IPc) (t : Tid) : alkOf (setI s c pc) t = alkOf s t := by
  cases t <;> rfl
@[simp] theorem alkOf_updCl (s : State) (c : Nat) (f) (t : Tid) : alkOf (updCl s c f) t = alkOf s t := by
  cases t <;> rfl
@[simp] theorem alkOf_setC (s : State) (t0 : Tid) (pc : CPc) (t : Tid) : alkOf (setC s t0 pc) t = alkOf s t := by
  cases t <;> simp [alkOf]
theorem getC_setC (s : State) (t0 : Tid) (pc : CPc) (h0 : t0 = .app ∨ t0 = .lis) (t : Tid) :
    getC (setC s t0 pc) t = if t = t0 then pc else getC s t := by
  rcases h0 with rfl | rfl <;> cases t <;> simp [getC, setC]

/-! ### generic update lemmas -/

/-- an update of the record / thread program counters of client `c` alone -/
theorem life_upd {X : State} {c : Nat} {f : Client → Client} (hl : Life X)
    (h_la : (f (X.cl c)).linked = true → (f (X.cl c)).alive = true)
    (h_fr : X.n ≤ c → (f (X.cl c)).linked = false ∧ (f (X.cl c)).alive = false)
    (h_ia : ipcAlive (f (X.cl c)).ipc = true → (f (X.cl c)).alive = true)
    (h_il : ipcAlive (f (X.cl c)).ipc = true → (f (X.cl c)).linked = ipcLinked (f (X.cl c)).ipc)
    (h_oi : opcRun (f (X.cl c)).opc = true → ipcHasOut (f (X.cl c)).ipc = true)
    (h_on : (f (X.cl c)).ipc = .notStarted ∨ (f (X.cl c)).ipc = .createO → (f (X.cl c)).opc = .notStarted)
    (h_cr : ∀ t b, crOf (getC X t) = some (c, b) →
        (f (X.cl c)).alive = true ∧ (f (X.cl c)).ipc = .notStarted ∧ (f (X.cl c)).linked = b)
    (h_kn : ∀ t, c ∈ knownC (getC X t) (alkOf X t) → (f (X.cl c)).linked = true)
    (h_zi : (f (X.cl c)).ipc = .g .unlockR → (f (X.cl c)).refCount = 0)
    (h_zc : ∀ t, getC X t = .gone .unlockR c → (f (X.cl c)).refCount = 0) :
    Life (updCl X c f) := by
  constructor
  · intro c'; rw [updCl_cl]; split
    · rename_i e; subst e; exact h_la
    · exact hl.linked_alive _
  · intro c'; rw [updCl_cl, updCl_n]; split
    · rename_i e; subst e; exact h_fr
    · exact hl.fresh _
  · intro c'; rw [updCl_cl]; split
    · rename_i e; subst e; exact h_ia
    · exact hl.inp_alive _
  · intro c'; rw [updCl_cl]; split
    · rename_i e; subst e; exact h_il
    · exact hl.inp_linked _
  · intro c'; rw [updCl_cl]; split
    · rename_i e; subst e; exact h_oi
    · exact hl.out_inp _
  · intro c'; rw [updCl_cl]; split
    · rename_i e; subst e; exact h_on
    · exact hl.out_ns _
  · intro t c' b; rw [updCl_cl, getC_updCl]; split
    · rename_i e; subst e; exact h_cr t b
    · exact hl.cr t _ b
  · exact hl.cr_excl
  · intro t x; rw [updCl_cl, getC_updCl, alkOf_updCl]; split
    · rename_i e; subst e; exact h_kn t
    · exact hl.known t _
  · intro c'; rw [updCl_cl]; split
    · rename_i e; subst e; exact h_zi
    · exact hl.zero_inp _
  · intro t c'; rw [updCl_cl, getC_updCl]; split
    · rename_i e; subst e; exact h_zc t
    · exact hl.zero_c t _

/-- a calling thread `t` updates the record of client `c` and moves to `pc'` in one step -/
theorem life_upd_setC {X : State} {c : Nat} {f : Client → Client} {t : Tid} {pc' : CPc}
    (ht : t = .app ∨ t = .lis) (hl : Life X)
    (h_la : (f (X.cl c)).linked = true → (f (X.cl c)).alive = true)
    (h_fr : X.n ≤ c → (f (X.cl c)).linked = false ∧ (f (X.cl c)).alive = false)
    (h_ia : ipcAlive (f (X.cl c)).ipc = true → (f (X.cl c)).alive = true)
    (h_il : ipcAlive (f (X.cl c)).ipc = true → (f (X.cl c)).linked = ipcLinked (f (X.cl c)).ipc)
    (h_oi : opcRun (f (X.cl c)).opc = true → ipcHasOut (f (X.cl c)).ipc = true)
    (h_on : (f (X.cl c)).ipc = .notStarted ∨ (f (X.cl c)).ipc = .createO → (f (X.cl c)).opc = .notStarted)
    (h_cr_o : ∀ t' b, t' ≠ t → crOf (getC X t') = some (c, b) →
        (f (X.cl c)).alive = true ∧ (f (X.cl c)).ipc = .notStarted ∧ (f (X.cl c)).linked = b)
    (h_cr_n : ∀ c' b, crOf pc' = some (c', b) →
        ((updCl X c f).cl c').alive = true ∧ ((updCl X c f).cl c').ipc = .notStarted ∧ ((updCl X c f).cl c').linked = b)
    (h_ex : ∀ t' c' b b', t' ≠ t → crOf pc' = some (c', b) → crOf (getC X t') = some (c', b') → False)
    (h_kn_o : ∀ t', t' ≠ t → c ∈ knownC (getC X t') (alkOf X t') → (f (X.cl c)).linked = true)
    (h_kn_n : ∀ y, y ∈ knownC pc' (alkOf X t) → ((updCl X c f).cl y).linked = true)
    (h_zi : (f (X.cl c)).ipc = .g .unlockR → (f (X.cl c)).refCount = 0)
    (h_zc_o : ∀ t', t' ≠ t → getC X t' = .gone .unlockR c → (f (X.cl c)).refCount = 0)
    (h_zc_n : ∀ c', pc' = .gone .unlockR c' → ((updCl X c f).cl c').refCount = 0) :
    Life (setC (updCl X c f) t pc') := by
  have hg : ∀ t', getC (setC (updCl X c f) t pc') t' = if t' = t then pc' else getC X t' := by
    intro t'; rw [getC_setC _ _ _ ht, getC_updCl]
  constructor
  · intro c'; rw [setC_cl, updCl_cl]; split
    · rename_i e; subst e; exact h_la
    · exact hl.linked_alive _
  · intro c'; rw [setC_cl, updCl_cl, setC_n, updCl_n]; split
    · rename_i e; subst e; exact h_fr
    · exact hl.fresh _
  · intro c'; rw [setC_cl, updCl_cl]; split
    · rename_i e; subst e; exact h_ia
    · exact hl.inp_alive _
  · intro c'; rw [setC_cl, updCl_cl]; split
    · rename_i e; subst e; exact h_il
    · exact hl.inp_linked _
  · intro c'; rw [setC_cl, updCl_cl]; split
    · rename_i e; subst e; exact h_oi
    · exact hl.out_inp _
  · intro c'; rw [setC_cl, updCl_cl]; split
    · rename_i e; subst e; exact h_on
    · exact hl.out_ns _
  · intro t' c' b; rw [hg, setC_cl]; split
    · exact h_cr_n c' b
    · rename_i hne; rw [updCl_cl]; split
      · rename_i e; subst e; exact h_cr_o t' b hne
      · exact hl.cr t' _ b
  · intro c' b b' h1 h2
    rcases ht with rfl | rfl
    · have e1 := hg .app; have e2 := hg .lis
      simp only [getC, if_true, reduceCtorEq, if_false] at e1 e2
      rw [e1] at h1; rw [e2] at h2
      exact h_ex .lis c' b b' (by simp) h1 h2
    · have e1 := hg .app; have e2 := hg .lis
      simp only [getC, if_true, reduceCtorEq, if_false] at e1 e2
      rw [e1] at h1; rw [e2] at h2
      exact h_ex .app c' b' b (by simp) h2 h1
  · intro t' x; rw [hg, alkOf_setC, alkOf_updCl, setC_cl]; split
    · rename_i e; subst e; exact h_kn_n x
    · rename_i hne; rw [updCl_cl]; split
      · rename_i e; subst e; exact h_kn_o t' hne
      · exact hl.known t' _
  · intro c'; rw [setC_cl, updCl_cl]; split
    · rename_i e; subst e; exact h_zi
    · exact hl.zero_inp _
  · intro t' c'; rw [hg, setC_cl]; split
    · exact h_zc_n c'
    · rename_i hne; rw [updCl_cl]; split
      · rename_i e; subst e; exact h_zc_o t' hne
      · exact hl.zero_c t' _

/-- only the program counter / local list of the calling thread `t` changes -/
theorem life_core {X Y : State} {t : Tid} (ht : t = .app ∨ t = .lis) (hl : Life X)
    (hcl : Y.cl = X.cl) (hn : Y.n = X.n)
    (hget : ∀ t', t' ≠ t → getC Y t' = getC X t' ∧ alkOf Y t' = alkOf X t')
    (h_cr : ∀ c b, crOf (getC Y t) = some (c, b) →
        (X.cl c).alive = true ∧ (X.cl c).ipc = .notStarted ∧ (X.cl c).linked = b)
    (h_ex : ∀ t' c b b', t' ≠ t → crOf (getC Y t) = some (c, b) → crOf (getC X t') = some (c, b') → False)
    (h_kn : ∀ y, y ∈ knownC (getC Y t) (alkOf Y t) → (X.cl y).linked = true)
    (h_zc : ∀ c, getC Y t = .gone .unlockR c → (X.cl c).refCount = 0) : Life Y := by
  constructor
  · intro c; rw [hcl]; exact hl.linked_alive c
  · intro c; rw [hcl, hn]; exact hl.fresh c
  · intro c; rw [hcl]; exact hl.inp_alive c
  · intro c; rw [hcl]; exact hl.inp_linked c
  · intro c; rw [hcl]; exact hl.out_inp c
  · intro c; rw [hcl]; exact hl.out_ns c
  · intro t' c b; rw [hcl]
    by_cases e : t' = t
    · subst e; exact h_cr c b
    · rw [(hget t' e).1]; exact hl.cr t' c b
  · intro c b b' h1 h2
    rcases ht with rfl | rfl
    · have := (hget .lis (by simp)).1; simp only [getC] at this
      rw [this] at h2; exact h_ex .lis c b b' (by simp) h1 h2
    · have := (hget .app (by simp)).1; simp only [getC] at this
      rw [this] at h1; exact h_ex .app c b' b (by simp) h2 h1
  · intro t' x; rw [hcl]
    by_cases e : t' = t
    · subst e; exact h_kn x
    · rw [(hget t' e).1, (hget t' e).2]; exact hl.known t' x
  · intro c; rw [hcl]; exact hl.zero_inp c
  · intro t' c; rw [hcl]
    by_cases e : t' = t
    · subst e; exact h_zc c
    · rw [(hget t' e).1]; exact hl.zero_c t' c

theorem life_setC {X : State} {t : Tid} {pc' : CPc} (ht : t = .app ∨ t = .lis) (hl : Life X)
    (h_cr : ∀ c b, crOf pc' = some (c, b) → (X.cl c).alive = true ∧ (X.cl c).ipc = .notStarted ∧ (X.cl c).linked = b)
    (h_ex : ∀ t' c b b', t' ≠ t → crOf pc' = some (c, b) → crOf (getC X t') = some (c, b') → False)
    (h_kn : ∀ y, y ∈ knownC pc' (alkOf X t) → (X.cl y).linked = true)
    (h_zc : ∀ c, pc' = .gone .unlockR c → (X.cl c).refCount = 0) : Life (setC X t pc') := by
  have hg : getC (setC X t pc') t = pc' := by rw [getC_setC _ _ _ ht]; simp
  apply life_core ht hl (setC_cl X t pc') (setC_n X t pc')
  · intro t' hne; rw [getC_setC _ _ _ ht, if_neg hne, alkOf_setC]; exact ⟨rfl, rfl⟩
  · rw [hg]; exact h_cr
  · rw [hg]; exact h_ex
  · rw [hg, alkOf_setC]; exact h_kn
  · rw [hg]; exact h_zc

/-- ... and the list of remembered clients (a local of the application thread) -/
theorem life_setAlkT_setC {X : State} {t : Tid} {pc' : CPc} {l : List Nat} (ht : t = .app ∨ t = .lis) (hl : Life X)
    (h_cr : ∀ c b, crOf pc' = some (c, b) → (X.cl c).alive = true ∧ (X.cl c).ipc = .notStarted ∧ (X.cl c).linked = b)
    (h_ex : ∀ t' c b b', t' ≠ t → crOf pc' = some (c, b) → crOf (getC X t') = some (c, b') → False)
    (h_kn : ∀ y, y ∈ knownC pc' (if t = .app then l else []) → (X.cl y).linked = true)
    (h_zc : ∀ c, pc' = .gone .unlockR c → (X.cl c).refCount = 0) : Life (setC (setAlkT X t l) t pc') := by
  have hg : getC (setC (setAlkT X t l) t pc') t = pc' := by rw [getC_setC _ _ _ ht]; simp
  have ha : alkOf (setAlkT X t l) t = if t = .app then l else [] := by
    rcases ht with rfl | rfl <;> simp [alkOf, setAlkT, setAlk]
  apply life_core ht hl
  · rw [setC_cl, cl_setAlkT]
  · rw [setC_n, n_setAlkT]
  · intro t' hne; rw [getC_setC _ _ _ ht, if_neg hne, alkOf_setC]
    refine ⟨?_, ?_⟩
    · cases t' <;> simp [getC]
    · rcases ht with rfl | rfl <;> cases t' <;> simp [alkOf, setAlkT, setAlk] at hne ⊢
  · rw [hg]; exact h_cr
  · rw [hg]; exact h_ex
  · rw [hg, alkOf_setC, ha]; exact h_kn
  · rw [hg]; exact h_zc

/-- a move that creates no new obligations: the clients the thread relies on afterwards are among
those it relied on before (or known to be linked), the client under construction (if any) stays in
the same condition -/
theorem life_move {X : State} {t : Tid} {pc' : CPc} (ht : t = .app ∨ t = .lis) (hl : Life X)
    (h_cr : crOf pc' = none ∨ crOf pc' = crOf (getC X t))
    (h_kn : ∀ y, y ∈ knownC pc' (alkOf X t) → y ∈ knownC (getC X t) (alkOf X t) ∨ (X.cl y).linked = true)
    (h_zc : ∀ c, pc' = .gone .unlockR c → (X.cl c).refCount = 0) : Life (setC X t pc') := by
  apply life_setC ht hl
  · intro c b h; rcases h_cr with e | e
    · rw [e] at h; cases h
    · rw [e] at h; exact hl.cr t c b h
  · intro t' c b b' hne h h'; rcases h_cr with e | e
    · rw [e] at h; cases h
    · rw [e] at h
      rcases ht with rfl | rfl
      · cases t' <;> simp [getC, crOf] at h' hne
        exact hl.cr_excl c b b' h h'
      · cases t' <;> simp [getC, crOf] at h' hne
        exact hl.cr_excl c b' b h' h
  · intro y hy; rcases h_kn y hy with h | h
    · exact hl.known t y h
    · exact h
  · exact h_zc

/-- two different threads are never constructing / tearing down the same record -/
theorem cr_excl' {X : State} (hl : Life X) {t t' : Tid} (hne : t' ≠ t) {c : Nat} {b b' : Bool}
    (h : crOf (getC X t) = some (c, b)) (h' : crOf (getC X t') = some (c, b')) : False := by
  cases t <;> cases t' <;> simp [getC, crOf] at h h' hne
  · exact hl.cr_excl c b b' h h'
  · exact hl.cr_excl c b' b h' h

/-- the calling thread `t` updates the record it is constructing / tearing down -/
theorem life_cr_upd {X : State} {c : Nat} {f : Client → Client} {t : Tid} {pc' : CPc} {b : Bool}
    (ht : t = .app ∨ t = .lis) (hl : Life X) (hcur : crOf (getC X t) = some (c, b))
    (hf : (f (X.cl c)).ipc = .notStarted ∧ (f (X.cl c)).opc = (X.cl c).opc)
    (h_la : (f (X.cl c)).linked = true → (f (X.cl c)).alive = true)
    (h_new : crOf pc' = none ∨ ∃ b', crOf pc' = some (c, b') ∧ (f (X.cl c)).alive = true ∧ (f (X.cl c)).linked = b')
    (h_kn_o : ∀ t', t' ≠ t → c ∈ knownC (getC X t') (alkOf X t') → (f (X.cl c)).linked = true)
    (h_kn_n : knownC pc' (alkOf X t) = [])
    (h_zc_n : ∀ c', pc' ≠ .gone .unlockR c') : Life (setC (updCl X c f) t pc') := by
  obtain ⟨ha, hi, _⟩ := hl.cr t c b hcur
  have ho := hl.out_ns c (Or.inl hi)
  apply life_upd_setC ht hl
  · exact h_la
  · intro hn; have := (hl.fresh c hn).2; rw [ha] at this; cases this
  · intro e; rw [hf.1] at e; simp [ipcAlive] at e
  · intro e; rw [hf.1] at e; simp [ipcAlive] at e
  · intro e; rw [hf.2, ho] at e; simp [opcRun] at e
  · intro _; rw [hf.2]; exact ho
  · intro t' b' hne h'; exact (cr_excl' hl hne hcur h').elim
  · intro c' b' h'
    rcases h_new with e | ⟨b'', e, h1, h2⟩
    · rw [e] at h'; cases h'
    · rw [e] at h'; simp only [Option.some.injEq, Prod.mk.injEq] at h'
      obtain ⟨rfl, rfl⟩ := h'
      rw [updCl_cl_same]; exact ⟨h1, hf.1, h2⟩
  · intro t' c' b' b'' hne h h'
    rcases h_new with e | ⟨b3, e, _, _⟩
    · rw [e] at h; cases h
    · rw [e] at h; simp only [Option.some.injEq, Prod.mk.injEq] at h
      obtain ⟨rfl, rfl⟩ := h
      exact cr_excl' hl hne hcur h'
  · exact h_kn_o
  · intro y hy; rw [h_kn_n] at hy; cases hy
  · intro e; rw [hf.1] at e; cases e
  · intro t' hne h'; exact (cr_excl' hl hne hcur (b' := true) (by rw [h']; simp [crOf, gPre])).elim
  · intro c' e; exact absurd e (h_zc_n c')

/-! ### output thread -/

/-- any move of a running output thread -/
theorem life_setO {X : State} {c : Nat} {pc' : OPc} (hl : Life X) (hrun : opcRun (X.cl c).opc = true) :
    Life (setO X c pc') := by
  have hho := hl.out_inp c hrun
  unfold setO
  apply life_upd hl
  · exact hl.linked_alive c
  · exact hl.fresh c
  · exact hl.inp_alive c
  · exact hl.inp_linked c
  · intro _; exact hho
  · intro h; simp only [] at h; rcases h with h | h <;> (rw [h] at hho; simp [ipcHasOut] at hho)
  · exact fun t b => hl.cr t c b
  · exact fun t => hl.known t c
  · exact hl.zero_inp c
  · exact fun t => hl.zero_c t c

theorem life_signalU {X : State} (c : Nat) (hl : Life X) : Life (signalU X c) := by
  unfold signalU; split
  · rename_i h; exact life_setO hl (by simp [h, opcRun])
  · exact hl

/-! ### reference count -/

theorem life_refCount {X : State} {c : Nat} (g : Nat → Nat) (hl : Life X) (hnp : (X.cl c).ipc ≠ .g .unlockR)
    (hnc : ∀ t, getC X t ≠ .gone .unlockR c) : Life (updCl X c (fun x => { x with refCount := g x.refCount })) := by
  apply life_upd hl
  · exact hl.linked_alive c
  · exact hl.fresh c
  · exact hl.inp_alive c
  · exact hl.inp_linked c
  · exact hl.out_inp c
  · exact hl.out_ns c
  · exact fun t b => hl.cr t c b
  · exact fun t => hl.known t c
  · intro h; exact absurd h hnp
  · intro t h; exact absurd h (hnc t)

theorem lsame_setG (s : State) (t : Tid) (g : Ghost) : LSame s (setG s t g) :=
  lsame_of_core (coreEq_setG s t g) (by have := top_setG s t g; exact this)

theorem life_incRef {X : State} {t : Tid} {c : Nat} (hl : Life X) (hnp : (X.cl c).ipc ≠ .g .unlockR)
    (hnc : ∀ t, getC X t ≠ .gone .unlockR c) : Life (incRef X t c) := by
  unfold incRef
  exact (life_iff_of_lsame (lsame_setG _ t _)).2 (life_refCount (· + 1) hl hnp hnc)

theorem life_decRef {X : State} {t : Tid} {c : Nat} (hl : Life X) (hnp : (X.cl c).ipc ≠ .g .unlockR)
    (hnc : ∀ t, getC X t ≠ .gone .unlockR c) : Life (decRef X t c) := by
  unfold decRef
  split
  · exact (life_iff_of_lsame (lsame_setG _ t _)).2 (life_refCount (· - 1) hl hnp hnc)
  · exact (life_raise _ _).2 (life_refCount (· - 1) hl hnp hnc)

/-- whoever has just locked refCountMutex(c) knows that nobody is at the point of unlinking c -/
theorem not_pinned_of_lock {s s1 : State} {t : Tid} {c : Nat} (hr : Reach s) (h : doLock s t .R c = some s1) :
    (s1.cl c).ipc ≠ .g .unlockR ∧ ∀ t', getC s1 t' ≠ .gone .unlockR c := by
  have hfree : own s .R c = none := by
    unfold doLock at h; split at h
    · assumption
    · cases h
  have hno : ∀ t', (MCls.R, c) ∈ heldOf s t' → False := by
    intro t' hm
    have := (own_iff_table hr t' .R c).2 (by simpa [mkey, MCls.perClient] using hm)
    rw [hfree] at this; cases this
  refine ⟨?_, ?_⟩
  · rw [ipc_doLock h]; intro e
    exact hno (.inp c) (by simp [heldOf, e, heldI, heldG])
  · intro t'; rw [getC_lsame (lsame_doLock h)]; intro e
    cases t' with
    | app => exact hno .app (by simp [getC] at e; simp [heldOf, e, heldC, heldG])
    | lis => exact hno .lis (by simp [getC] at e; simp [heldOf, e, heldC, heldG])
    | inp _ => simp [getC] at e
    | out _ => simp [getC] at e

theorem life_incRef_locked {s s1 : State} {t : Tid} {c : Nat} (hr : Reach s) (hl : Life s)
    (h : doLock s t .R c = some s1) : Life (incRef s1 t c) :=
  life_incRef ((life_doLock h).2 hl) (not_pinned_of_lock hr h).1 (not_pinned_of_lock hr h).2

theorem life_decRef_locked {s s1 : State} {t : Tid} {c : Nat} (hr : Reach s) (hl : Life s)
    (h : doLock s t .R c = some s1) : Life (decRef s1 t c) :=
  life_decRef ((life_doLock h).2 hl) (not_pinned_of_lock hr h).1 (not_pinned_of_lock hr h).2

/-! ### input thread -/

/-- a move of the input thread that keeps "alive" and "linked" -/
theorem life_setI {X : State} {c : Nat} {pc' : IPc} (hl : Life X) (h0 : ipcAlive (X.cl c).ipc = true)
    (ha : ipcAlive pc' = true) (hlk : ipcLinked pc' = ipcLinked (X.cl c).ipc)
    (hho : ipcHasOut pc' = true ∨ ipcHasOut (X.cl c).ipc = false ∨ opcRun (X.cl c).opc = false) (hns : pc' ≠ .createO)
    (hz : pc' = .g .unlockR → (X.cl c).refCount = 0) : Life (setI X c pc') := by
  unfold setI
  apply life_upd hl
  · exact hl.linked_alive c
  · exact hl.fresh c
  · intro _; exact hl.inp_alive c h0
  · intro _; simp only []; rw [hlk]; exact hl.inp_linked c h0
  · intro ho; simp only [] at ho ⊢
    rcases hho with h | h | h
    · exact h
    · have := hl.out_inp c ho; rw [h] at this; cases this
    · rw [h] at ho; cases ho
  · intro h; simp only [] at h; rcases h with h | h
    · rw [h] at ha; simp [ipcAlive] at ha
    · exact absurd h hns
  · intro t b h; have := (hl.cr t c b h).2.1; rw [this] at h0; simp [ipcAlive] at h0
  · exact fun t => hl.known t c
  · exact hz
  · exact fun t => hl.zero_c t c

theorem life_signalD {X : State} (c : Nat) (hl : Life X) : Life (signalD X c) := by
  unfold signalD
  simp only []
  have h1 : Life (if (X.cl c).ipc = .g .blocked then setI X c (.g .wakeD) else X) := by
    split
    · rename_i h
      exact life_setI hl (by simp [h, ipcAlive]) (by simp [ipcAlive]) (by simp [h, ipcLinked, gPre])
        (by simp [h, ipcHasOut]) (by simp) (by simp)
    · exact hl
  generalize (if (X.cl c).ipc = .g .blocked then setI X c (.g .wakeD) else X) = Y at h1
  have h2 : Life (if Y.apc = .gone .blocked c then setC Y .app (.gone .wakeD c) else Y) := by
    split
    · rename_i h
      exact life_move (Or.inl rfl) h1 (Or.inr (by simp [getC, h, crOf, gPre])) (by simp [knownC, refsC]) (by simp)
    · exact h1
  generalize (if Y.apc = .gone .blocked c then setC Y .app (.gone .wakeD c) else Y) = Z at h2
  split
  · rename_i h
    exact life_move (Or.inr rfl) h2 (Or.inr (by simp [getC, h, crOf, gPre])) (by simp [knownC, refsC]) (by simp)
  · exact h2

theorem updCl_updCl (X : State) (c : Nat) (f g : Client → Client) :
    updCl (updCl X c f) c g = updCl X c (fun x => g (f x)) := by
  unfold updCl; simp only [State.mk.injEq, and_true, true_and]
  funext j; by_cases h : j = c <;> simp [h]

/-- pthread_create of the output thread -/
theorem life_startOut {X : State} {c : Nat} (hl : Life X) (h : (X.cl c).ipc = .createO) :
    Life (setI (setO X c .top) c .sel) := by
  have ha := hl.inp_alive c (by simp [h, ipcAlive])
  have hk := hl.inp_linked c (by simp [h, ipcAlive])
  unfold setI setO; rw [updCl_updCl]
  apply life_upd hl
  · intro _; exact ha
  · exact hl.fresh c
  · intro _; exact ha
  · intro _; simp only []; rw [hk, h]; simp [ipcLinked]
  · intro _; simp [ipcHasOut]
  · intro e; simp at e
  · intro t b e; have := (hl.cr t c b e).2.1; rw [this] at h; cases h
  · exact fun t => hl.known t c
  · intro e; simp at e
  · exact fun t => hl.zero_c t c

/-- the record leaves the client list (rfbClientConnectionGone in the input thread) -/
theorem life_unlink_inp {X : State} {c : Nat} (hl : Life X) (h : (X.cl c).ipc = .g .unlockR)
    (hex : ∀ t, c ∉ knownC (getC X t) (alkOf X t)) :
    Life (setI (updCl X c (fun x => { x with linked := false })) c (.g .unlockL)) := by
  have ha := hl.inp_alive c (by simp [h, ipcAlive])
  unfold setI; rw [updCl_updCl]
  apply life_upd hl
  · intro e; simp at e
  · intro hn; have := (hl.fresh c hn).2; rw [ha] at this; cases this
  · intro _; exact ha
  · intro _; simp [ipcLinked, gPre]
  · intro ho; have := hl.out_inp c ho; rw [h] at this; simp [ipcHasOut] at this
  · intro e; simp at e
  · intro t b e; have := (hl.cr t c b e).2.1; rw [this] at h; cases h
  · intro t e; exact absurd e (hex t)
  · intro e; simp at e
  · intro t e; have := (hl.cr t c true (by rw [e]; simp [crOf, gPre])).2.1; rw [this] at h; cases h

/-- free(cl) at the end of rfbClientConnectionGone in the input thread -/
theorem life_free_inp {X : State} {c : Nat} (hl : Life X) (h : (X.cl c).ipc = .g .unlockS) :
    Life (setI (updCl X c (fun x => { x with alive := false })) c .exiting) := by
  have hk := hl.inp_linked c (by simp [h, ipcAlive])
  rw [h] at hk; simp only [ipcLinked, gPre] at hk
  unfold setI; rw [updCl_updCl]
  apply life_upd hl
  · intro e; simp only [] at e; rw [hk] at e; cases e
  · intro _; exact ⟨hk, rfl⟩
  · intro e; simp [ipcAlive] at e
  · intro e; simp [ipcAlive] at e
  · intro ho; have := hl.out_inp c ho; rw [h] at this; simp [ipcHasOut] at this
  · intro e; simp at e
  · intro t b e; have := (hl.cr t c b e).2.1; rw [this] at h; cases h
  · intro t e; have := hl.known t c e; rw [hk] at this; cases this
  · intro e; simp at e
  · intro t e; have := (hl.cr t c true (by rw [e]; simp [crOf, gPre])).2.1; rw [this] at h; cases h

/-- the thread function returns -/
theorem life_exit_inp {X : State} {c : Nat} (hl : Life X) (h : (X.cl c).ipc = .exiting) : Life (setI X c .exited) := by
  unfold setI
  apply life_upd hl
  · exact hl.linked_alive c
  · exact hl.fresh c
  · intro e; simp [ipcAlive] at e
  · intro e; simp [ipcAlive] at e
  · intro ho; have := hl.out_inp c ho; rw [h] at this; simp [ipcHasOut] at this
  · intro e; simp at e
  · intro t b e; have := (hl.cr t c b e).2.1; rw [this] at h; cases h
  · exact fun t => hl.known t c
  · intro e; simp at e
  · exact fun t => hl.zero_c t c

/-! ### nobody else relies on a record that is being unlinked -/

theorem known_cases {pc : CPc} {alk : List Nat} {x : Nat} (h : x ∈ knownC pc alk) :
    x ∈ refsC pc alk ∨ (MCls.R, x) ∈ heldC pc alk ∨ mL ∈ heldC pc alk := by
  unfold knownC at h
  rw [List.mem_append] at h
  rcases h with h | h
  · exact Or.inl h
  · right
    split at h
    · simp at h; subst h; right; simp [heldC, heldIt]
    · simp at h; subst h; left; simp [heldC, heldIt]
    · simp at h; subst h; left; simp [heldC, heldIt]
    · simp at h; left; simp [heldC, h]
    · simp at h; left; simp [heldC, h]
    · simp at h

theorem unlink_excl {s : State} {me : Tid} {c : Nat} (hr : Reach s) (hz : (s.cl c).refCount = 0)
    (hR : (MCls.R, c) ∈ heldOf s me) (hL : mL ∈ heldOf s me) (t : Tid) (hne : t ≠ me) :
    c ∉ knownC (getC s t) (alkOf s t) := by
  intro hk
  have hRo : own s .R c = some me := (own_iff_table hr me .R c).2 (by simpa [mkey, MCls.perClient] using hR)
  have hLo : own s .L 0 = some me := (own_iff_table hr me .L 0).2 (by simpa [mkey, MCls.perClient, mL] using hL)
  have hcnt := refCount_exact hr c
  rw [hz] at hcnt
  have key : ∀ t', (t' = .app ∨ t' = .lis) → t' ≠ me → c ∈ knownC (getC s t') (alkOf s t') →
      heldOf s t' = heldC (getC s t') (alkOf s t') → refsOf s t' = refsC (getC s t') (alkOf s t') →
      (refsOf s t').count c = 0 → False := by
    intro t' _ hne' hk' hh hrf hc0
    rcases known_cases hk' with h | h | h
    · rw [← hrf] at h; have := List.count_pos_iff.2 h; omega
    · rw [← hh] at h
      have := (own_iff_table hr t' .R c).2 (by simpa [mkey, MCls.perClient] using h)
      rw [hRo] at this; exact hne' (Option.some.inj this).symm
    · rw [← hh] at h
      have := (own_iff_table hr t' .L 0).2 (by simpa [mkey, MCls.perClient, mL] using h)
      rw [hLo] at this; exact hne' (Option.some.inj this).symm
  cases t with
  | app => exact key .app (Or.inl rfl) hne hk rfl rfl (by omega)
  | lis => exact key .lis (Or.inr rfl) hne hk rfl rfl (by omega)
  | inp _ => simp [getC, knownC, refsC] at hk
  | out _ => simp [getC, knownC, refsC] at hk

/-! ### calling threads: creation and teardown of a record -/

theorem crOf_finished (t : Tid) : crOf (finished t) = none := by cases t <;> rfl
theorem knownC_finished (t : Tid) (alk : List Nat) : knownC (finished t) alk = [] := by cases t <;> rfl
theorem finished_ne_gone (t : Tid) (g : GSt) (c : Nat) : finished t ≠ .gone g c := by cases t <;> simp [finished]

/-- the record enters the client list (rfbNewClient) -/
theorem life_link {X : State} {c : Nat} {t : Tid} (ht : t = .app ∨ t = .lis) (hl : Life X)
    (h : getC X t = .cr .insLock c) :
    Life (setC (updCl X c (fun x => { x with linked := true })) t (.cr .insUnlock c)) := by
  have hcur : crOf (getC X t) = some (c, false) := by rw [h]; rfl
  obtain ⟨ha, _, _⟩ := hl.cr t c false hcur
  exact life_cr_upd ht hl hcur ⟨(hl.cr t c false hcur).2.1, rfl⟩ (fun _ => ha)
    (Or.inr ⟨true, rfl, ha, rfl⟩) (fun _ _ _ => rfl) (by simp [knownC, refsC]) (by simp)

/-- the record leaves the client list (rfbClientConnectionGone after a failed creation) -/
theorem life_unlink_c {X : State} {c : Nat} {t : Tid} (ht : t = .app ∨ t = .lis) (hl : Life X)
    (h : getC X t = .gone .unlockR c) (hex : ∀ t', t' ≠ t → c ∉ knownC (getC X t') (alkOf X t')) :
    Life (setC (updCl X c (fun x => { x with linked := false })) t (.gone .unlockL c)) := by
  have hcur : crOf (getC X t) = some (c, true) := by rw [h]; rfl
  obtain ⟨ha, _, _⟩ := hl.cr t c true hcur
  exact life_cr_upd ht hl hcur ⟨(hl.cr t c true hcur).2.1, rfl⟩ (by intro e; simp at e)
    (Or.inr ⟨false, rfl, ha, rfl⟩) (fun t' hne e => absurd e (hex t' hne)) (by simp [knownC, refsC]) (by simp)

/-- free(cl) at the end of rfbClientConnectionGone after a failed creation -/
theorem life_free_c {X : State} {c : Nat} {t : Tid} (ht : t = .app ∨ t = .lis) (hl : Life X)
    (h : getC X t = .gone .unlockS c) :
    Life (setC (updCl X c (fun x => { x with alive := false })) t (finished t)) := by
  have hcur : crOf (getC X t) = some (c, false) := by rw [h]; rfl
  obtain ⟨_, _, hk⟩ := hl.cr t c false hcur
  exact life_cr_upd ht hl hcur ⟨(hl.cr t c false hcur).2.1, rfl⟩ (by intro e; simp only [] at e; rw [hk] at e; cases e)
    (Or.inl (crOf_finished t)) (fun t' _ e => by have := hl.known t' c e; rw [hk] at this; cases this)
    (knownC_finished t _) (fun c' => finished_ne_gone t _ c')

/-- pthread_create of the input thread -/
theorem life_startInp {X : State} {c : Nat} {t : Tid} (ht : t = .app ∨ t = .lis) (hl : Life X)
    (h : getC X t = .cr .create c) : Life (setC (setI X c .createO) t (finished t)) := by
  have hcur : crOf (getC X t) = some (c, true) := by rw [h]; rfl
  obtain ⟨ha, hi, hk⟩ := hl.cr t c true hcur
  have ho := hl.out_ns c (Or.inl hi)
  unfold setI
  apply life_upd_setC ht hl
  · exact hl.linked_alive c
  · exact hl.fresh c
  · intro _; exact ha
  · intro _; simp only []; rw [hk]; rfl
  · intro e; simp only [] at e; rw [ho] at e; simp [opcRun] at e
  · intro _; exact ho
  · intro t' b' hne h'; exact (cr_excl' hl hne hcur h').elim
  · intro c' b' h'; rw [crOf_finished] at h'; cases h'
  · intro t' c' b' b'' _ h'; rw [crOf_finished] at h'; cases h'
  · exact fun t' _ => hl.known t' c
  · intro y hy; rw [knownC_finished] at hy; cases hy
  · intro e; simp at e
  · exact fun t' _ => hl.zero_c t' c
  · intro c' e; exact absurd e (finished_ne_gone t _ c')

/-- calloc of a new record: its index has never been used -/
theorem life_alloc {s : State} {t : Tid} (ht : t = .app ∨ t = .lis) (hl : Life s) (hb : Bnd s) :
    Life (setC (setN (updCl s s.n Client.fresh) (s.n + 1)) t (.cr .insLock s.n)) := by
  have hfr := hl.fresh s.n (Nat.le_refl _)
  have hi : (s.cl s.n).ipc = .notStarted := by
    apply Classical.byContradiction; intro e; have := hb.thr s.n (Or.inl e); omega
  have ho : (s.cl s.n).opc = .notStarted := by
    apply Classical.byContradiction; intro e; have := hb.thr s.n (Or.inr e); omega
  have hg : ∀ t', getC (setC (setN (updCl s s.n Client.fresh) (s.n + 1)) t (.cr .insLock s.n)) t' =
      if t' = t then .cr .insLock s.n else getC s t' := by
    intro t'; rw [getC_setC _ _ _ ht]; split
    · rfl
    · cases t' <;> rfl
  have hcl : ∀ c', (setC (setN (updCl s s.n Client.fresh) (s.n + 1)) t (.cr .insLock s.n)).cl c' =
      if c' = s.n then Client.fresh (s.cl s.n) else s.cl c' := by
    intro c'; rw [setC_cl, cl_setN, updCl_cl]
  have hnocr : ∀ t' b, crOf (getC s t') = some (s.n, b) → False := by
    intro t' b e; have := (hl.cr t' _ b e).1; rw [hfr.2] at this; cases this
  constructor
  · intro c'; rw [hcl]; split
    · intro e; simp [Client.fresh] at e
    · exact hl.linked_alive c'
  · intro c'; rw [hcl, setC_n]; simp only [setN]; intro hn; split
    · omega
    · exact hl.fresh c' (by omega)
  · intro c'; rw [hcl]; split
    · simp [Client.fresh, hi, ipcAlive]
    · exact hl.inp_alive c'
  · intro c'; rw [hcl]; split
    · simp [Client.fresh, hi, ipcAlive]
    · exact hl.inp_linked c'
  · intro c'; rw [hcl]; split
    · simp [Client.fresh, ho, opcRun]
    · exact hl.out_inp c'
  · intro c'; rw [hcl]; split
    · simp [Client.fresh, ho]
    · exact hl.out_ns c'
  · intro t' c' b; rw [hg, hcl]; split
    · intro e; simp only [crOf, Option.some.injEq, Prod.mk.injEq] at e
      obtain ⟨rfl, rfl⟩ := e
      simp [Client.fresh, hi]
    · intro e; split
      · rename_i e2; subst e2; exact (hnocr t' b e).elim
      · exact hl.cr t' c' b e
  · intro c' b b' h1 h2
    have e1 := hg .app; have e2 := hg .lis
    simp only [getC] at e1 e2
    rw [e1] at h1; rw [e2] at h2
    rcases ht with rfl | rfl
    · simp only [if_true, reduceCtorEq, if_false, crOf, Option.some.injEq, Prod.mk.injEq] at h1 h2
      obtain ⟨rfl, rfl⟩ := h1
      exact hnocr .lis b' h2
    · simp only [if_true, reduceCtorEq, if_false, crOf, Option.some.injEq, Prod.mk.injEq] at h1 h2
      obtain ⟨rfl, rfl⟩ := h2
      exact hnocr .app b h1
  · intro t' x; rw [hg, hcl]
    have ha : alkOf (setC (setN (updCl s s.n Client.fresh) (s.n + 1)) t (.cr .insLock s.n)) t' = alkOf s t' := by
      cases t' <;> simp [alkOf, setN]
    rw [ha]; split
    · intro e; simp [knownC, refsC] at e
    · intro e; split
      · rename_i e2; subst e2; have := hl.known t' _ e; rw [hfr.1] at this; cases this
      · exact hl.known t' x e
  · intro c'; rw [hcl]; split
    · simp [Client.fresh, hi]
    · exact hl.zero_inp c'
  · intro t' c'; rw [hg, hcl]; split
    · intro e; cases e
    · intro e; split
      · rename_i e2; subst e2; exact (hnocr t' true (by rw [e]; rfl)).elim
      · exact hl.zero_c t' c' e

/-- the iterator only ever finds clients that are in the list -/
theorem pickBelow_linked (s : State) (b : Bool) : ∀ k c, pickBelow s b k = some c → (s.cl c).linked = true := by
  intro k; induction k with
  | zero => intro c h; simp [pickBelow] at h
  | succ k ih =>
    intro c h; simp only [pickBelow] at h; split at h
    · rename_i hc; simp only [Option.some.injEq] at h; subst h
      simp only [Bool.and_eq_true] at hc; exact hc.1
    · exact ih c h

theorem pick_linked {s : State} {b : Bool} {prev : Option Nat} {c : Nat} (h : pick s b prev = some c) :
    (s.cl c).linked = true := pickBelow_linked s b _ c h

end VncModel.Threads
