import VncModel.Threads.Local
/-! How the primitives act on the observables of the thread-local invariant: the ghost of each
thread and the program counters (through `heldOf` / `refsOf`). -/
namespace VncModel.Threads

/-- same program counters (and remembered-client list) -/
def PcSame (s s' : State) : Prop :=
  s'.apc = s.apc ∧ s'.lpc = s.lpc ∧ s'.alk = s.alk ∧
  ∀ c, (s'.cl c).ipc = (s.cl c).ipc ∧ (s'.cl c).opc = (s.cl c).opc

theorem PcSame.refl (s : State) : PcSame s s := ⟨rfl, rfl, rfl, fun _ => ⟨rfl, rfl⟩⟩
theorem PcSame.trans {a b c : State} (h1 : PcSame a b) (h2 : PcSame b c) : PcSame a c :=
  ⟨h2.1.trans h1.1, h2.2.1.trans h1.2.1, h2.2.2.1.trans h1.2.2.1,
   fun x => ⟨(h2.2.2.2 x).1.trans (h1.2.2.2 x).1, (h2.2.2.2 x).2.trans (h1.2.2.2 x).2⟩⟩

theorem heldOf_pcSame {s s' : State} (h : PcSame s s') (t : Tid) : heldOf s' t = heldOf s t := by
  obtain ⟨h1, h2, h3, h4⟩ := h
  cases t <;> simp [heldOf, h1, h2, h3, (h4 _).1, (h4 _).2]
theorem refsOf_pcSame {s s' : State} (h : PcSame s s') (t : Tid) : refsOf s' t = refsOf s t := by
  obtain ⟨h1, h2, h3, h4⟩ := h
  cases t <;> simp [refsOf, h1, h2, h3, (h4 _).2]

/-- a client-record update that leaves the thread program counters alone -/
def KeepsPc (f : Client → Client) : Prop := ∀ x, (f x).ipc = x.ipc ∧ (f x).opc = x.opc

theorem pcSame_updCl (s : State) (c : Nat) (f : Client → Client) (hf : KeepsPc f) : PcSame s (updCl s c f) := by
  refine ⟨rfl, rfl, rfl, fun c' => ?_⟩
  rw [updCl_cl]; split
  · rename_i h; subst h; exact hf _
  · exact ⟨rfl, rfl⟩

theorem pcSame_touch (s : State) (c : Nat) : PcSame s (touch s c) := by
  unfold touch; split
  · exact PcSame.refl s
  · exact ⟨rfl, rfl, rfl, fun _ => ⟨rfl, rfl⟩⟩

theorem pcSame_touchM (s : State) (m : MCls) (c : Nat) : PcSame s (touchM s m c) := by
  unfold touchM; split
  · exact pcSame_touch s c
  · exact PcSame.refl s

theorem pcSame_setOwn (s : State) (m : MCls) (c : Nat) (o : Option Tid) : PcSame s (setOwn s m c o) := by
  cases m
  · exact ⟨rfl, rfl, rfl, fun _ => ⟨rfl, rfl⟩⟩
  · exact ⟨rfl, rfl, rfl, fun _ => ⟨rfl, rfl⟩⟩
  all_goals exact pcSame_updCl s c _ (by intro x; simp)

theorem pcSame_setG (s : State) (t : Tid) (g : Ghost) : PcSame s (setG s t g) := by
  cases t
  · exact ⟨rfl, rfl, rfl, fun _ => ⟨rfl, rfl⟩⟩
  · exact ⟨rfl, rfl, rfl, fun _ => ⟨rfl, rfl⟩⟩
  all_goals exact pcSame_updCl s _ _ (by intro x; simp)

theorem pcSame_doLock {s a : State} {t : Tid} {m : MCls} {c : Nat} (h : doLock s t m c = some a) : PcSame s a := by
  unfold doLock at h
  split at h
  · simp only [Option.some.injEq] at h; subst h
    exact ((pcSame_touchM s m c).trans (pcSame_setOwn _ m c _)).trans (pcSame_setG _ t _)
  · cases h

theorem pcSame_doUnlock (s : State) (t : Tid) (m : MCls) (c : Nat) : PcSame s (doUnlock s t m c) := by
  unfold doUnlock
  simp only []
  split
  · exact ((pcSame_touchM s m c).trans (pcSame_setOwn _ m c _)).trans (pcSame_setG _ t _)
  · exact (pcSame_touchM s m c).trans ⟨rfl, rfl, rfl, fun _ => ⟨rfl, rfl⟩⟩

theorem pcSame_incRef (s : State) (t : Tid) (c : Nat) : PcSame s (incRef s t c) := by
  unfold incRef
  exact (pcSame_updCl s c _ (by intro x; simp)).trans (pcSame_setG _ t _)

theorem pcSame_decRef (s : State) (t : Tid) (c : Nat) : PcSame s (decRef s t c) := by
  have h1 : PcSame s (updCl s c (fun x => { x with refCount := x.refCount - 1 })) :=
    pcSame_updCl s c _ (by intro x; simp)
  unfold decRef
  split
  · exact h1.trans (pcSame_setG _ t _)
  · exact h1.trans ⟨rfl, rfl, rfl, fun _ => ⟨rfl, rfl⟩⟩

/-! ghosts -/
theorem getG_doLock {s a : State} {t : Tid} {m : MCls} {c : Nat} (h : doLock s t m c = some a) (t' : Tid) :
    getG a t' = if t' = t then { (getG s t) with held := mkey m c :: (getG s t).held } else getG s t' := by
  unfold doLock at h
  split at h
  · simp only [Option.some.injEq] at h; subst h
    rw [getG_setG]; split
    · simp
    · simp
  · cases h

theorem getG_doUnlock {s : State} {t : Tid} {m : MCls} {c : Nat} (h : own s m c = some t) (t' : Tid) :
    getG (doUnlock s t m c) t' =
      if t' = t then { (getG s t) with held := (getG s t).held.erase (mkey m c) } else getG s t' := by
  unfold doUnlock
  simp only [own_touchM, h, if_true]
  rw [getG_setG]; split
  · simp
  · simp

theorem getG_incRef (s : State) (t : Tid) (c : Nat) (t' : Tid) :
    getG (incRef s t c) t' = if t' = t then { (getG s t) with refs := c :: (getG s t).refs } else getG s t' := by
  unfold incRef
  rw [getG_setG]; split
  · simp [getG_updCl _ _ _ (benign_refCount (· + 1))]
  · simp [getG_updCl _ _ _ (benign_refCount (· + 1))]

theorem getG_decRef {s : State} {t : Tid} {c : Nat} (h : c ∈ (getG s t).refs) (t' : Tid) :
    getG (decRef s t c) t' = if t' = t then { (getG s t) with refs := (getG s t).refs.erase c } else getG s t' := by
  unfold decRef
  simp only [h, if_true]
  rw [getG_setG]; split
  · simp [getG_updCl _ _ _ (benign_refCount (· - 1))]
  · simp [getG_updCl _ _ _ (benign_refCount (· - 1))]

@[simp] theorem getG_signalU (s : State) (c : Nat) (t : Tid) : getG (signalU s c) t = getG s t := by
  unfold signalU; split <;> simp
@[simp] theorem getG_signalD (s : State) (c : Nat) (t : Tid) : getG (signalD s c) t = getG s t := by
  unfold signalD; simp only []; split <;> split <;> split <;> simp

/-! program counters under the pc setters and the signals -/
theorem heldOf_setO (s : State) (c : Nat) (pc : OPc) (t : Tid) :
    heldOf (setO s c pc) t = if t = .out c then heldO pc c else heldOf s t := by
  cases t with
  | app => simp [heldOf, setO]
  | lis => simp [heldOf, setO]
  | inp d => simp only [heldOf, setO, updCl_cl]; split <;> simp_all
  | out d =>
    simp only [heldOf, setO, updCl_cl]
    by_cases h : d = c
    · subst h; simp
    · simp [h]

theorem refsOf_setO (s : State) (c : Nat) (pc : OPc) (t : Tid) :
    refsOf (setO s c pc) t = if t = .out c then refsO pc c else refsOf s t := by
  cases t with
  | app => simp [refsOf, setO]
  | lis => simp [refsOf, setO]
  | inp d => simp [refsOf]
  | out d =>
    simp only [refsOf, setO, updCl_cl]
    by_cases h : d = c
    · subst h; simp
    · simp [h]

theorem heldOf_setI (s : State) (c : Nat) (pc : IPc) (t : Tid) :
    heldOf (setI s c pc) t = if t = .inp c then heldI pc c else heldOf s t := by
  cases t with
  | app => simp [heldOf, setI]
  | lis => simp [heldOf, setI]
  | out d => simp only [heldOf, setI, updCl_cl]; split <;> simp_all
  | inp d =>
    simp only [heldOf, setI, updCl_cl]
    by_cases h : d = c
    · subst h; simp
    · simp [h]

theorem refsOf_setI (s : State) (c : Nat) (pc : IPc) (t : Tid) : refsOf (setI s c pc) t = refsOf s t := by
  cases t with
  | app => simp [refsOf, setI]
  | lis => simp [refsOf, setI]
  | inp d => simp [refsOf]
  | out d => simp only [refsOf, setI, updCl_cl]; split <;> simp_all

theorem heldOf_setC (s : State) (t0 : Tid) (pc : CPc) (t : Tid) :
    heldOf (setC s t0 pc) t =
      match t0 with
      | .app => if t = .app then heldC pc s.alk else heldOf s t
      | .lis => if t = .lis then heldC pc [] else heldOf s t
      | _ => heldOf s t := by
  cases t0 <;> cases t <;> simp [heldOf, setC]

theorem refsOf_setC (s : State) (t0 : Tid) (pc : CPc) (t : Tid) :
    refsOf (setC s t0 pc) t =
      match t0 with
      | .app => if t = .app then refsC pc s.alk else refsOf s t
      | .lis => if t = .lis then refsC pc [] else refsOf s t
      | _ => refsOf s t := by
  cases t0 <;> cases t <;> simp [refsOf, setC]

@[simp] theorem heldOf_signalU (s : State) (c : Nat) (t : Tid) : heldOf (signalU s c) t = heldOf s t := by
  unfold signalU; split
  · rename_i h; rw [heldOf_setO]; split
    · rename_i ht; subst ht; simp [heldOf, h, heldO]
    · rfl
  · rfl
@[simp] theorem refsOf_signalU (s : State) (c : Nat) (t : Tid) : refsOf (signalU s c) t = refsOf s t := by
  unfold signalU; split
  · rename_i h; rw [refsOf_setO]; split
    · rename_i ht; subst ht; simp [refsOf, h, refsO]
    · rfl
  · rfl

end VncModel.Threads
