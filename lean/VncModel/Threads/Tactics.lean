import Lean
/-! Small proof automation for the threads model: `crack_hyps` case-splits every hypothesis whose
type is (syntactically) a disjunction, conjunction or existential, repeatedly, in all goals. -/
namespace VncModel.Threads
open Lean Elab Tactic Meta

partial def crackLoop (fuel : Nat) : TacticM Unit := do
  if fuel = 0 then return
  let gs ← getGoals
  let mut progress := false
  let mut newGoals : List MVarId := []
  for g in gs do
    if ← g.isAssigned then continue
    let r : Option (List MVarId) ← g.withContext do
      let lctx ← getLCtx
      for d in lctx do
        if d.isImplementationDetail then continue
        let ty ← instantiateMVars d.type
        if ty.isAppOf ``Or || ty.isAppOf ``And || ty.isAppOf ``Exists then
          let subs ← g.cases d.fvarId
          return some (subs.toList.map (·.mvarId))
      return none
    match r with
    | some gs' => progress := true; newGoals := newGoals ++ gs'
    | none => newGoals := newGoals ++ [g]
  setGoals newGoals
  if progress then crackLoop (fuel - 1)

elab "crack_hyps" : tactic => crackLoop 400

end VncModel.Threads
