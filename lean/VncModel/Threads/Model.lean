/-
Interleaving model of LibVNCServer's background (threaded) event loop — property C13.

Threads            application (`app`: the thread that calls the API), listener (`lis`: listenerRun),
                   per client `c` the input thread `inp c` (clientInput) and the output thread
                   `out c` (clientOutput).
Shared objects     per client: refCount / refCountMutex (R) / deleteCond (d), updateMutex (U) /
                   updateCond (u), sendMutex (S), outputMutex (O), `state` (collapsed to
                   hs | normal | shutdown), `sock` open or -1, the notify pipe, `linked` (in
                   screen->clientHead list), `alive` (record allocated and not freed);
                   global: rfbClientListMutex (L), screen->cursorMutex (C).
Atomic steps       exactly the LOCK / UNLOCK / WAIT / TSIGNAL / pthread_create / pthread_join points of
                   the code (these are the scheduling points of the harness, and the labels of the
                   event trace); the plain code between two such points is executed together with
                   the preceding point, except that reads of racy plain fields that steer control
                   (`sock`, `state`) are separate silent (`tau`) steps, so the model has all the
                   interleavings of the scheduler and more.
The model follows the code WITH fixes/C13-01 … C13-06 applied (see docs/C13.md):
  rfbClientIteratorNext   LOCK L; step (skipping closed clients); rfbIncrClientRef(next); UNLOCK L;
                          rfbDecrClientRef(prev)
  rfbClientConnectionGone LOCK L; LOCK R; while refCount>0 {UNLOCK L; WAIT d,R; UNLOCK R; LOCK L;
                          LOCK R}; UNLOCK R; unlink; UNLOCK L; ...; clientGoneHook; ...;
                          LOCK O; UNLOCK O; LOCK S; UNLOCK S; free
  rfbCloseClient          LOCK U; TSIGNAL u; UNLOCK U; state = SHUTDOWN; write(notify pipe)
  rfbWriteExact           LOCK O; read cl->sock; ...; UNLOCK O on every path
  clientInput             create output thread; loop {test state/sock; select; pipe => break;
                          messages}; LOCK U; state = SHUTDOWN; TSIGNAL u; UNLOCK U; join output;
                          LOCK O; close; sock = -1; UNLOCK O; rfbClientConnectionGone
  clientOutput            loop {test; LOCK U; state==SHUTDOWN => UNLOCK U, return; WAIT u,U | have
                          update; UNLOCK U}; LOCK U; UNLOCK U; ref++; LOCK S;
                          rfbSendFramebufferUpdate; UNLOCK S; ref--
  rfbSendBell/CutText*    per client: skip unless NORMAL; LOCK S; writes; on failure rfbCloseClient;
                          UNLOCK S
  rfbNewFramebuffer       per client: ref++, LOCK S (remembered); LOCK C; per remembered client:
                          LOCK U; TSIGNAL u; UNLOCK U; UNLOCK S; ref--; UNLOCK C; then the loop of
                          rfbMarkRectAsModified (per client: LOCK U; TSIGNAL u; UNLOCK U)
  rfbShutdownServer       stop + join listener; per client: rfbCloseClient if open; advance iterator;
                          join its input thread
Over-approximations (more behaviours than the code, never fewer): message processing in the input
thread and rfbSendFramebufferUpdate in the output thread are arbitrary sequences of the atoms
"LOCK U; UNLOCK U", "LOCK U; TSIGNAL u; UNLOCK U", "LOCK O; UNLOCK O", "LOCK C; UNLOCK C",
rfbCloseClient; whether a write fails, whether an update is pending, what select returns are
non-deterministic; the handshake may assign `state` at any time (also over SHUTDOWN, as the code does).
Core Lean only.
-/
namespace VncModel.Threads

inductive MCls where | L | C | U | S | O | R
  deriving DecidableEq, Repr
inductive CCls where | u | d
  deriving DecidableEq, Repr
inductive Tid where | app | lis | inp (c : Nat) | out (c : Nat)
  deriving DecidableEq, Repr
inductive Proc where | count | mark | send | iter | newfb | shutdown | cleanup
  deriving DecidableEq, Repr
inductive Api where
  | runloop | newclient | mark | copy | bell | cut | cututf8 | iter | newfb | shutdown | cleanup
  deriving DecidableEq, Repr
inductive CSt where | hs | normal | shutdown
  deriving DecidableEq, Repr

/-- trace alphabet -/
inductive Lbl where
  | lock (m : MCls) (c : Nat) | unlock (m : MCls) (c : Nat)
  | wait (v : CCls) (c : Nat) | wake (v : CCls) (c : Nat) | signal (v : CCls) (c : Nat)
  | create (t : Tid) | join (t : Tid) | exit
  | call (a : Api) | ret (a : Api)
  | alloc (c : Nat) | newcl (c : Nat) | gone (c : Nat) | pipew (c : Nat)
  | st (c : Nat) (v : CSt)       -- cl->state changed class (plain store, observed by the harness)
  | sock (c : Nat)               -- cl->sock = -1
  | tau
  deriving DecidableEq, Repr

/-- stages of rfbClientIteratorNext -/
inductive ISt where | lockL | incLock | incUnlock | unlockL | decLock | decSignal | decUnlock
  deriving DecidableEq, Repr
/-- stages of rfbCloseClient -/
inductive KSt where | sigU | unlockU | setSt | pipe
  deriving DecidableEq, Repr
/-- stages of rfbClientConnectionGone -/
inductive GSt where
  | lockL | lockR | unlockLw | waitD | blocked | wakeD | unlockRw | unlockR | unlockL | gone
  | lockO | unlockO | lockS | unlockS
  deriving DecidableEq, Repr
/-- second phase of rfbNewFramebuffer -/
inductive NSt where
  | lockC | lockU | sigU | unlockU | unlockS | decLock | decSignal | decUnlock | unlockC
  deriving DecidableEq, Repr
/-- rfbNewClient after the counting loop -/
inductive CrSt where
  | alloc | insLock | insUnlock | wLock | wUnlock | hook | create | kLockU | kSigU | kUnlockU | kSetSt
  deriving DecidableEq, Repr

/-- program counter of a thread that calls the API (application, listener) -/
inductive CPc where
  | notStarted | idle | done
  | rl                                                     -- rfbRunEventLoop: about to create the listener
  | iter (p : Proc) (st : ISt) (prev nxt : Option Nat)     -- inside rfbClientIteratorNext
  | body (p : Proc) (k : Nat) (c : Nat)                    -- loop body of `p` on client `c` (referenced)
  | close (p : Proc) (k : KSt) (c : Nat)                   -- rfbCloseClient(c) inside the body of `p`
  | nf (st : NSt) (i : Nat)                                -- rfbNewFramebuffer, second phase, i-th remembered client
  | sd0                                                    -- rfbShutdownServer: rfbShutdownSockets (socketState = SHUTDOWN)
  | sdJoinL                                                -- rfbShutdownServer: join the listener
  | sdJoin (c : Nat) (nxt : Option Nat)                    -- rfbShutdownServer: join input thread of c
  | cr (st : CrSt) (c : Nat)                               -- rfbNewClient on the new record c
  | gone (g : GSt) (c : Nat)                               -- rfbClientConnectionGone(c) after a failed creation
  | retp                                                   -- application: about to return from the API call
  deriving DecidableEq, Repr

inductive IPc where
  | notStarted | createO | sel
  | w1 | f1 | f2 | e1 | k (st : KSt)
  | x0 | x0s | x1 | x2 | x3 | x4 | x4s | x4u | g (st : GSt) | exiting | exited
  deriving DecidableEq, Repr

inductive OPc where
  | notStarted | top | inU | blocked | woken | unlockUw | unlockUx
  | snapLock | snapUnlock | incLock | incUnlock | lockS | sfu
  | e1 | c1 | w1 | k (st : KSt) | decLock | decSignal | decUnlock | exiting | exited
  deriving DecidableEq, Repr

/-- ghost bookkeeping of one thread: the mutexes it has locked and not yet unlocked, the counted
client references (rfbIncrClientRef) it has taken and not yet dropped.  Written only by the
primitives `doLock`/`doUnlock`/`incRef`/`decRef`; never read by a guard. -/
structure Ghost where
  held : List (MCls × Nat) := []
  refs : List Nat := []
  deriving DecidableEq, Repr

structure Client where
  alive : Bool := false
  linked : Bool := false
  sockOpen : Bool := false
  st : CSt := .hs
  pipeNote : Bool := false
  refCount : Nat := 0
  goneCnt : Nat := 0
  ownU : Option Tid := none
  ownS : Option Tid := none
  ownO : Option Tid := none
  ownR : Option Tid := none
  ipc : IPc := .notStarted
  opc : OPc := .notStarted
  ijoined : Bool := false
  ojoined : Bool := false
  gi : Ghost := {}          -- ghost of the input thread
  go : Ghost := {}          -- ghost of the output thread
  deriving DecidableEq, Repr

structure State where
  n : Nat := 0
  cl : Nat → Client := fun _ => {}
  ownL : Option Tid := none
  ownC : Option Tid := none
  apc : CPc := .idle
  lpc : CPc := .notStarted
  aapi : Api := .runloop
  alk : List Nat := []
  lisDown : Bool := false
  ljoined : Bool := false
  ga : Ghost := {}            -- ghost of the application thread
  gl : Ghost := {}            -- ghost of the listener thread
  -- ghost error flags
  uaf : Bool := false         -- a freed (or never allocated) client record was dereferenced
  dfree : Bool := false       -- a client record was freed twice
  badUnlock : Bool := false   -- UNLOCK by a thread that does not own the mutex
  badJoin : Bool := false     -- join of a thread that was never created or already joined
  conflict : Bool := false    -- rfbScreenCleanup found a client still in the list
  badRef : Bool := false      -- rfbDecrClientRef without a matching rfbIncrClientRef by this thread
  badCreate : Bool := false   -- a second input / output thread was created for the same client record

/-- calloc + INIT_MUTEX: every field of the record is reset; the mutex owners, thread ghosts and thread
program counters of an index that was never used are pristine already and are carried over unchanged -/
def Client.fresh (x : Client) : Client :=
  { alive := true, sockOpen := true, ownU := x.ownU, ownS := x.ownS, ownO := x.ownO, ownR := x.ownR,
    gi := x.gi, go := x.go, ipc := x.ipc, opc := x.opc }

def State.init : State := {}

/-! ### helpers -/

def updCl (s : State) (c : Nat) (f : Client → Client) : State :=
  { s with cl := fun j => if j = c then f (s.cl j) else s.cl j }

def own (s : State) (m : MCls) (c : Nat) : Option Tid :=
  match m with
  | .L => s.ownL | .C => s.ownC
  | .U => (s.cl c).ownU | .S => (s.cl c).ownS | .O => (s.cl c).ownO | .R => (s.cl c).ownR

def setOwn (s : State) (m : MCls) (c : Nat) (o : Option Tid) : State :=
  match m with
  | .L => { s with ownL := o } | .C => { s with ownC := o }
  | .U => updCl s c (fun x => { x with ownU := o })
  | .S => updCl s c (fun x => { x with ownS := o })
  | .O => updCl s c (fun x => { x with ownO := o })
  | .R => updCl s c (fun x => { x with ownR := o })

def MCls.perClient : MCls → Bool
  | .L | .C => false
  | _ => true

/-- the ghost error flags -/
inductive Flag where | uaf | dfree | badUnlock | badJoin | conflict | badRef | badCreate
  deriving DecidableEq, Repr

def raise (s : State) (f : Flag) : State :=
  match f with
  | .uaf => { s with uaf := true } | .dfree => { s with dfree := true }
  | .badUnlock => { s with badUnlock := true } | .badJoin => { s with badJoin := true }
  | .conflict => { s with conflict := true } | .badRef => { s with badRef := true }
  | .badCreate => { s with badCreate := true }

def raiseIf (s : State) (f : Flag) (b : Bool) : State := if b then raise s f else s

def setAlk (s : State) (l : List Nat) : State := { s with alk := l }
/-- the list of clients remembered by rfbNewFramebuffer is a local of the calling thread; only the
application thread calls it -/
def setAlkT (s : State) (t : Tid) (l : List Nat) : State := if t = .app then setAlk s l else s
def setN (s : State) (n : Nat) : State := { s with n := n }
def setAapi (s : State) (a : Api) : State := { s with aapi := a }
def setLisDown (s : State) : State := { s with lisDown := true }
def setLjoined (s : State) : State := { s with ljoined := true }

/-- dereference of client record `c` -/
def touch (s : State) (c : Nat) : State :=
  if (s.cl c).alive then s else raise s .uaf

def touchM (s : State) (m : MCls) (c : Nat) : State :=
  if m.perClient then touch s c else s

def getG (s : State) (t : Tid) : Ghost :=
  match t with
  | .app => s.ga | .lis => s.gl | .inp c => (s.cl c).gi | .out c => (s.cl c).go

def setG (s : State) (t : Tid) (g : Ghost) : State :=
  match t with
  | .app => { s with ga := g } | .lis => { s with gl := g }
  | .inp c => updCl s c (fun x => { x with gi := g })
  | .out c => updCl s c (fun x => { x with go := g })

/-- the global mutexes have no client index: it is normalised to 0 -/
def mkey (m : MCls) (c : Nat) : MCls × Nat := (m, if m.perClient then c else 0)

/-- LOCK(m): enabled iff the mutex is free -/
def doLock (s : State) (t : Tid) (m : MCls) (c : Nat) : Option State :=
  if own s m c = none then
    let s1 := setOwn (touchM s m c) m c (some t)
    some (setG s1 t { (getG s1 t) with held := mkey m c :: (getG s1 t).held })
  else none

/-- UNLOCK(m) -/
def doUnlock (s : State) (t : Tid) (m : MCls) (c : Nat) : State :=
  let s1 := touchM s m c
  if own s1 m c = some t then
    let s2 := setOwn s1 m c none
    setG s2 t { (getG s2 t) with held := (getG s2 t).held.erase (mkey m c) }
  else raise s1 .badUnlock

/-- `cl->refCount++` (inside rfbIncrClientRef, refCountMutex held) -/
def incRef (s : State) (t : Tid) (c : Nat) : State :=
  let s1 := updCl s c (fun x => { x with refCount := x.refCount + 1 })
  setG s1 t { (getG s1 t) with refs := c :: (getG s1 t).refs }

/-- `cl->refCount--` (inside rfbDecrClientRef, refCountMutex held) -/
def decRef (s : State) (t : Tid) (c : Nat) : State :=
  if c ∈ (getG s t).refs then
    let s1 := updCl s c (fun x => { x with refCount := x.refCount - 1 })
    setG s1 t { (getG s1 t) with refs := (getG s1 t).refs.erase c }
  else raise (updCl s c (fun x => { x with refCount := x.refCount - 1 })) .badRef

def getC (s : State) (t : Tid) : CPc :=
  match t with
  | .app => s.apc | .lis => s.lpc | _ => .done

def setC (s : State) (t : Tid) (pc : CPc) : State :=
  match t with
  | .app => { s with apc := pc } | .lis => { s with lpc := pc } | _ => s

def setI (s : State) (c : Nat) (pc : IPc) : State := updCl s c (fun x => { x with ipc := pc })
def setO (s : State) (c : Nat) (pc : OPc) : State := updCl s c (fun x => { x with opc := pc })

/-- plain store `cl->state = v`: visible (label `st`) only when the class changes -/
def storeSt (s : State) (c : Nat) (v : CSt) (k : State → State) : List (Lbl × State) :=
  let s1 := touch s c
  if (s1.cl c).st = v then [(.tau, k s1)] else [(.st c v, k (updCl s1 c (fun x => { x with st := v })))]

/-- TSIGNAL(updateCond of c): the only possible waiter is the output thread of c -/
def signalU (s : State) (c : Nat) : State :=
  if (s.cl c).opc = .blocked then setO s c .woken else s

/-- TSIGNAL(deleteCond of c): the waiter is whoever runs rfbClientConnectionGone(c) -/
def signalD (s : State) (c : Nat) : State :=
  let s1 := if (s.cl c).ipc = .g .blocked then setI s c (.g .wakeD) else s
  let s2 := if s1.apc = .gone .blocked c then setC s1 .app (.gone .wakeD c) else s1
  if s2.lpc = .gone .blocked c then setC s2 .lis (.gone .wakeD c) else s2

/-- the client the iterator steps to: the first linked client below `bound` (the list is ordered by
decreasing id: rfbNewClient inserts at the head); rfbGetClientIterator skips the clients whose socket
is closed already, rfbGetClientIteratorWithClosed (`closedToo`) does not -/
def pickBelow (s : State) (closedToo : Bool) : Nat → Option Nat
  | 0 => none
  | k + 1 => if (s.cl k).linked && (closedToo || (s.cl k).sockOpen) then some k else pickBelow s closedToo k

def pick (s : State) (closedToo : Bool) (prev : Option Nat) : Option Nat :=
  pickBelow s closedToo (match prev with | some p => p | none => s.n)

/-- rfbShutdownServer and rfbScreenCleanup walk the list with rfbGetClientIteratorWithClosed -/
def Proc.closedToo : Proc → Bool
  | .shutdown | .cleanup => true
  | _ => false

def procOfApi : Api → Proc
  | .mark | .copy => .mark
  | .bell | .cut | .cututf8 => .send
  | .iter => .iter
  | .newfb => .newfb
  | .shutdown => .shutdown
  | .cleanup => .cleanup
  | _ => .count

/-- where a calling thread goes when its current procedure is finished -/
def finished (t : Tid) : CPc :=
  match t with
  | .app => .retp
  | _ => .idle

/-- continuation after rfbClientIteratorNext returned `nxt` in procedure `p` (previous client `prev`) -/
def afterNext (t : Tid) (p : Proc) (prev nxt : Option Nat) : CPc :=
  match p, prev, nxt with
  | .shutdown, some c, nx => .sdJoin c nx
  | .newfb, _, none => .nf .lockC 0
  | .count, _, none => .cr .alloc 0
  | _, _, some c => .body p 0 c
  | _, _, none => finished t

/-! ### steps of a calling thread (application, listener) -/

/-- rfbClientIteratorNext -/
def iterSucc (s : State) (t : Tid) (p : Proc) (st : ISt) (prev nxt : Option Nat) : List (Lbl × State) :=
  match st with
  | .lockL =>
    match doLock s t .L 0 with
    | none => []
    | some s1 =>
      let s2 := match prev with | some q => touch s1 q | none => s1
      let nx := pick s2 p.closedToo prev
      [(.lock .L 0, setC s2 t (.iter p (match nx with | some _ => .incLock | none => .unlockL) prev nx))]
  | .incLock =>
    match nxt with
    | some c =>
      match doLock s t .R c with
      | none => []
      | some s1 => [(.lock .R c, setC (incRef s1 t c) t (.iter p .incUnlock prev nxt))]
    | none => []
  | .incUnlock =>
    match nxt with
    | some c => [(.unlock .R c, setC (doUnlock s t .R c) t (.iter p .unlockL prev nxt))]
    | none => []
  | .unlockL =>
    [(.unlock .L 0, setC (doUnlock s t .L 0) t
        (match prev with | some _ => .iter p .decLock prev nxt | none => afterNext t p prev nxt))]
  | .decLock =>
    match prev with
    | some q =>
      match doLock s t .R q with
      | none => []
      | some s1 =>
        let s2 := decRef s1 t q
        [(.lock .R q, setC s2 t (.iter p (if (s2.cl q).refCount = 0 then .decSignal else .decUnlock) prev nxt))]
    | none => []
  | .decSignal =>
    match prev with
    | some q => [(.signal .d q, setC (signalD (touch s q) q) t (.iter p .decUnlock prev nxt))]
    | none => []
  | .decUnlock =>
    match prev with
    | some q => [(.unlock .R q, setC (doUnlock s t .R q) t (afterNext t p prev nxt))]
    | none => []

/-- next iteration of the loop of `p` after the body on `c` -/
def nextIter (p : Proc) (c : Nat) : CPc := .iter p .lockL (some c) none

/-- loop bodies -/
def bodySucc (s : State) (t : Tid) (p : Proc) (k : Nat) (c : Nat) : List (Lbl × State) :=
  match p, k with
  | .count, _ => [(.tau, setC s t (nextIter p c))]
  | .iter, _ => [(.tau, setC (touch s c) t (nextIter p c))]
  | .mark, 0 => (doLock s t .U c).toList.map fun s1 => (.lock .U c, setC s1 t (.body p 1 c))
  | .mark, 1 => [(.signal .u c, setC (signalU (touch s c) c) t (.body p 2 c))]
  | .mark, _ => [(.unlock .U c, setC (doUnlock s t .U c) t (nextIter p c))]
  | .send, 0 =>
    let s1 := touch s c
    [(.tau, setC s1 t (if (s1.cl c).st = .normal then .body p 1 c else nextIter p c))]
  | .send, 1 => (doLock s t .S c).toList.map fun s1 => (.lock .S c, setC s1 t (.body p 2 c))
  | .send, 2 =>
    ((doLock s t .O c).toList.map fun s1 => (.lock .O c, setC s1 t (.body p 3 c))) ++
    -- rfbSendServerCutTextUTF8 without extended clipboard and without Latin-1 fallback: nothing to write
    [(.unlock .S c, setC (doUnlock s t .S c) t (nextIter p c))]
  | .send, 3 =>
    let s1 := doUnlock s t .O c
    [(.unlock .O c, setC s1 t (.body p 2 c)),      -- another rfbWriteExact
     (.unlock .O c, setC s1 t (.body p 4 c)),      -- all written
     (.unlock .O c, setC s1 t (.body p 5 c))]      -- write failed: rfbCloseClient
  | .send, 4 => [(.unlock .S c, setC (doUnlock s t .S c) t (nextIter p c))]
  | .send, _ => (doLock s t .U c).toList.map fun s1 => (.lock .U c, setC s1 t (.close p .sigU c))
  | .newfb, 0 =>
    (doLock s t .R c).toList.map fun s1 =>
      (.lock .R c, setC (incRef s1 t c) t (.body p 1 c))
  | .newfb, 1 => [(.unlock .R c, setC (doUnlock s t .R c) t (.body p 2 c))]
  | .newfb, _ =>
    (doLock s t .S c).toList.map fun s1 => (.lock .S c, setC (setAlkT s1 t (s1.alk ++ [c])) t (nextIter p c))
  | .shutdown, 0 =>
    let s1 := touch s c
    [(.tau, setC s1 t (if (s1.cl c).sockOpen then .body p 1 c else nextIter p c))]
  | .shutdown, _ => (doLock s t .U c).toList.map fun s1 => (.lock .U c, setC s1 t (.close p .sigU c))
  | .cleanup, _ => [(.tau, setC (raise s .conflict) t (nextIter p c))]

/-- rfbCloseClient(c) after its LOCK(updateMutex) -/
def closeSucc (s : State) (t : Tid) (p : Proc) (k : KSt) (c : Nat) : List (Lbl × State) :=
  match k with
  | .sigU => [(.signal .u c, setC (signalU (touch s c) c) t (.close p .unlockU c))]
  | .unlockU => [(.unlock .U c, setC (doUnlock s t .U c) t (.close p .setSt c))]
  | .setSt => storeSt s c .shutdown fun s1 => setC s1 t (.close p .pipe c)
  | .pipe =>
    [(.pipew c, setC (updCl (touch s c) c (fun x => { x with pipeNote := true })) t
        (match p with | .send => .body p 4 c | _ => nextIter p c))]

/-- second phase of rfbNewFramebuffer -/
def nfSucc (s : State) (t : Tid) (st : NSt) (i : Nat) : List (Lbl × State) :=
  match st with
  | .lockC =>
    (doLock s t .C 0).toList.map fun s1 =>
      (.lock .C 0, setC s1 t (if s1.alk.length = 0 then .nf .unlockC 0 else .nf .lockU 0))
  -- ... and finally rfbMarkRectAsModified(whole screen): clients that connected meanwhile are refreshed too
  | .unlockC => [(.unlock .C 0, setC (setAlkT (doUnlock s t .C 0) t []) t (.iter .mark .lockL none none))]
  | _ =>
    match s.alk[i]? with
    | none => []
    | some c =>
      match st with
      | .lockU => (doLock s t .U c).toList.map fun s1 => (.lock .U c, setC s1 t (.nf .sigU i))
      | .sigU => [(.signal .u c, setC (signalU (touch s c) c) t (.nf .unlockU i))]
      | .unlockU => [(.unlock .U c, setC (doUnlock s t .U c) t (.nf .unlockS i))]
      | .unlockS => [(.unlock .S c, setC (doUnlock s t .S c) t (.nf .decLock i))]
      | .decLock =>
        (doLock s t .R c).toList.map fun s1 =>
          let s2 := decRef s1 t c
          (.lock .R c, setC s2 t (.nf (if (s2.cl c).refCount = 0 then .decSignal else .decUnlock) i))
      | .decSignal => [(.signal .d c, setC (signalD (touch s c) c) t (.nf .decUnlock i))]
      | .decUnlock =>
        [(.unlock .R c, setC (doUnlock s t .R c) t (if i + 1 < s.alk.length then .nf .lockU (i + 1) else .nf .unlockC 0))]
      | _ => []

/-- rfbClientConnectionGone(c) run by thread `t`; `setG` writes the stage back, `ret` is the
continuation after the record has been freed -/
def goneSucc (s : State) (t : Tid) (g : GSt) (c : Nat) (setG : State → GSt → State) (ret : State → State) :
    List (Lbl × State) :=
  match g with
  | .lockL => (doLock s t .L 0).toList.map fun s1 => (.lock .L 0, setG s1 .lockR)
  | .lockR =>
    (doLock s t .R c).toList.map fun s1 =>
      (.lock .R c, setG s1 (if (s1.cl c).refCount > 0 then .unlockLw else .unlockR))
  | .unlockLw => [(.unlock .L 0, setG (doUnlock s t .L 0) .waitD)]
  | .waitD => [(.wait .d c, setG (doUnlock s t .R c) .blocked)]
  | .blocked => []
  | .wakeD => (doLock s t .R c).toList.map fun s1 => (.wake .d c, setG s1 .unlockRw)
  | .unlockRw => [(.unlock .R c, setG (doUnlock s t .R c) .lockL)]
  | .unlockR => [(.unlock .R c, setG (updCl (doUnlock s t .R c) c (fun x => { x with linked := false })) .unlockL)]
  | .unlockL => [(.unlock .L 0, setG (doUnlock s t .L 0) .gone)]
  | .gone => [(.gone c, setG (updCl (touch s c) c (fun x => { x with goneCnt := x.goneCnt + 1 })) .lockO)]
  | .lockO => (doLock s t .O c).toList.map fun s1 => (.lock .O c, setG s1 .unlockO)
  | .unlockO => [(.unlock .O c, setG (doUnlock s t .O c) .lockS)]
  | .lockS => (doLock s t .S c).toList.map fun s1 => (.lock .S c, setG s1 .unlockS)
  | .unlockS =>
    let s1 := doUnlock s t .S c
    let s2 := if (s1.cl c).alive then updCl s1 c (fun x => { x with alive := false }) else raise s1 .dfree
    [(.unlock .S c, ret s2)]

/-- rfbNewClient after the counting loop (`c` is meaningful from `insLock` on) -/
def crSucc (s : State) (t : Tid) (st : CrSt) (c : Nat) : List (Lbl × State) :=
  match st with
  | .alloc =>
    let c := s.n
    [(.alloc c, setC (setN (updCl s c Client.fresh) (s.n + 1)) t (.cr .insLock c))]
  | .insLock =>
    (doLock s t .L 0).toList.map fun s1 =>
      (.lock .L 0, setC (updCl s1 c (fun x => { x with linked := true })) t (.cr .insUnlock c))
  | .insUnlock =>
    let s1 := doUnlock s t .L 0
    [(.unlock .L 0, setC s1 t (.cr .wLock c)),       -- continue with the version message
     (.unlock .L 0, setC s1 t (.cr .kLockU c))]      -- webSocketsCheck failed: close + gone
  | .wLock => (doLock s t .O c).toList.map fun s1 => (.lock .O c, setC s1 t (.cr .wUnlock c))
  | .wUnlock =>
    let s1 := doUnlock s t .O c
    [(.unlock .O c, setC s1 t (.cr .hook c)),
     (.unlock .O c, setC s1 t (.cr .kLockU c))]      -- write failed
  | .hook => [(.newcl c, setC (touch s c) t (.cr .create c))]
  | .create =>
    if (s.cl c).ipc = .notStarted then [(.create (.inp c), setC (setI (touch s c) c .createO) t (finished t))]
    else [(.create (.inp c), setC (raise s .badCreate) t (finished t))]
  | .kLockU => (doLock s t .U c).toList.map fun s1 => (.lock .U c, setC s1 t (.cr .kSigU c))
  | .kSigU => [(.signal .u c, setC (signalU (touch s c) c) t (.cr .kUnlockU c))]
  | .kUnlockU => [(.unlock .U c, setC (doUnlock s t .U c) t (.cr .kSetSt c))]
  | .kSetSt => storeSt s c .shutdown fun s1 => setC s1 t (.gone .lockL c)

def callerSucc (s : State) (t : Tid) : List (Lbl × State) :=
  match getC s t with
  | .notStarted | .done => []
  | .idle =>
    match t with
    | .app =>
      (if s.lpc = .notStarted then [(Lbl.call .runloop, setC (setAapi s .runloop) .app .rl)] else
        (if s.lisDown || s.ljoined then [] else
          [(Lbl.call .newclient, setC (setAapi s .newclient) .app (.iter .count .lockL none none)),
           (Lbl.call .shutdown, setC (setAapi s .shutdown) .app .sd0)]) ++
        ([Api.mark, .copy, .bell, .cut, .cututf8, .iter, .newfb].map fun a =>
          -- (the list of remembered clients of rfbNewFramebuffer is a fresh local of the call)
          (Lbl.call a, setC (setAlkT (setAapi s a) .app []) .app (.iter (procOfApi a) .lockL none none))) ++
        (if s.lisDown then [(Lbl.call .cleanup, setC (setAapi s .cleanup) .app (.iter .cleanup .lockL none none))] else []))
    | .lis =>
      -- socketState is read at the top of the loop only: a connection may still be accepted after
      -- rfbShutdownSockets has set it
      (if s.lisDown then [(.exit, setC s .lis .done)] else []) ++
      [(.tau, setC s .lis (.iter .count .lockL none none))]                -- accept()ed a connection
    | _ => []
  | .rl =>
    if s.lpc = .notStarted then [(.create .lis, setC (setC s .lis .idle) .app .retp)]
    else [(.create .lis, setC (raise s .badCreate) .app .retp)]
  | .retp => [(.ret s.aapi, setC s .app (if s.aapi = .cleanup then .done else .idle))]
  | .iter p st prev nxt => iterSucc s t p st prev nxt
  | .body p k c => bodySucc s t p k c
  | .close p k c => closeSucc s t p k c
  | .nf st i => nfSucc s t st i
  | .sd0 => [(.tau, setC (setLisDown s) .app .sdJoinL)]
  | .sdJoinL =>
    if s.lpc = .done then
      [(.join .lis, setC (setLjoined (raiseIf s .badJoin s.ljoined)) .app (.iter .shutdown .lockL none none))]
    else []
  | .sdJoin c nxt =>
    if (s.cl c).ipc = .exited then
      [(.join (.inp c), setC (updCl (raiseIf s .badJoin (s.cl c).ijoined) c (fun x => { x with ijoined := true })) t
          (match nxt with | some n => .body .shutdown 0 n | none => finished t))]
    else if (s.cl c).ipc = .notStarted then
      [(.join (.inp c), setC (raise s .badJoin) t (match nxt with | some n => .body .shutdown 0 n | none => finished t))]
    else []
  | .cr st c => crSucc s t st c
  | .gone g c => goneSucc s t g c (fun s1 g1 => setC s1 t (.gone g1 c)) (fun s1 => setC s1 t (finished t))

/-! ### input thread of client c -/

def inpSucc (s : State) (c : Nat) : List (Lbl × State) :=
  let t := Tid.inp c
  match (s.cl c).ipc with
  | .notStarted | .exited => []
  | .createO =>
    if (s.cl c).opc = .notStarted then [(.create (.out c), setI (setO (touch s c) c .top) c .sel)]
    else [(.create (.out c), setI (raise s .badCreate) c .sel)]
  | .sel =>
    -- `while (cl->state != RFB_SHUTDOWN) { if (cl->sock == -1) break; select ... pipe => break`
    (if (s.cl c).st = .shutdown || !(s.cl c).sockOpen || (s.cl c).pipeNote then [(.tau, setI (touch s c) c .x0)] else []) ++
    -- the handshake code stores the next protocol state (whatever the current one is)
    (if (s.cl c).st = .hs then [] else [(.st c .hs, setI (updCl (touch s c) c (fun x => { x with st := .hs })) c .sel)]) ++
    (if (s.cl c).st = .normal then [] else
      [(.st c .normal, setI (updCl (touch s c) c (fun x => { x with st := .normal })) c .sel)]) ++
    ((doLock s t .O c).toList.map fun s1 => (.lock .O c, setI s1 c .w1)) ++
    ((doLock s t .U c).toList.flatMap fun s1 =>
      [(.lock .U c, setI s1 c .f1), (.lock .U c, setI s1 c .e1), (.lock .U c, setI s1 c (.k .sigU))])
  | .w1 => [(.unlock .O c, setI (doUnlock s t .O c) c .sel)]
  | .f1 => [(.signal .u c, setI (signalU (touch s c) c) c .f2)]
  | .f2 => [(.unlock .U c, setI (doUnlock s t .U c) c .sel)]
  | .e1 => [(.unlock .U c, setI (doUnlock s t .U c) c .sel)]
  | .k .sigU => [(.signal .u c, setI (signalU (touch s c) c) c (.k .unlockU))]
  | .k .unlockU => [(.unlock .U c, setI (doUnlock s t .U c) c (.k .setSt))]
  | .k .setSt => storeSt s c .shutdown fun s1 => setI s1 c (.k .pipe)
  | .k .pipe => [(.pipew c, setI (updCl (touch s c) c (fun x => { x with pipeNote := true })) c .sel)]
  | .x0 => (doLock s t .U c).toList.map fun s1 => (.lock .U c, setI s1 c .x0s)
  | .x0s => storeSt s c .shutdown fun s1 => setI s1 c .x1
  | .x1 => [(.signal .u c, setI (signalU (touch s c) c) c .x2)]
  | .x2 => [(.unlock .U c, setI (doUnlock s t .U c) c .x3)]
  | .x3 =>
    if (s.cl c).opc = .exited then
      [(.join (.out c), setI (updCl (raiseIf s .badJoin (s.cl c).ojoined) c (fun x => { x with ojoined := true })) c .x4)]
    else []
  -- the socket is closed under outputMutex: no writer of another thread is between reading cl->sock and write()
  | .x4 => (doLock s t .O c).toList.map fun s1 => (.lock .O c, setI s1 c .x4s)
  | .x4s => [(.sock c, setI (updCl (touch s c) c (fun x => { x with sockOpen := false })) c .x4u)]
  | .x4u => [(.unlock .O c, setI (doUnlock s t .O c) c (.g .lockL))]
  | .g st => goneSucc s t st c (fun s1 g1 => setI s1 c (.g g1)) (fun s1 => setI s1 c .exiting)
  | .exiting => [(.exit, setI s c .exited)]

/-! ### output thread of client c -/

def outSucc (s : State) (c : Nat) : List (Lbl × State) :=
  let t := Tid.out c
  match (s.cl c).opc with
  | .notStarted | .exited | .blocked => []
  | .top =>
    -- `if (cl->sock == -1 || cl->state == RFB_SHUTDOWN) return; if (cl->state != RFB_NORMAL) { sleep; continue; }`
    -- are racy reads: the thread may leave whenever the exit condition holds, and may go on to
    -- LOCK(updateMutex) whatever the state is by then; the re-check under the mutex is exact
    (if !(s.cl c).sockOpen || (s.cl c).st = .shutdown then [(.tau, setO (touch s c) c .exiting)] else []) ++
    ((doLock s t .U c).toList.map fun s1 =>
      (.lock .U c, setO s1 c (if (s1.cl c).st = .shutdown then .unlockUx else .inU)))
  | .inU =>
    [(.wait .u c, setO (doUnlock s t .U c) c .blocked),
     (.unlock .U c, setO (doUnlock s t .U c) c .snapLock)]
  | .woken => (doLock s t .U c).toList.map fun s1 => (.wake .u c, setO s1 c .unlockUw)
  | .unlockUw => [(.unlock .U c, setO (doUnlock s t .U c) c .top)]
  | .unlockUx => [(.unlock .U c, setO (doUnlock s t .U c) c .exiting)]
  | .snapLock => (doLock s t .U c).toList.map fun s1 => (.lock .U c, setO s1 c .snapUnlock)
  | .snapUnlock => [(.unlock .U c, setO (doUnlock s t .U c) c .incLock)]
  | .incLock =>
    (doLock s t .R c).toList.map fun s1 =>
      (.lock .R c, setO (incRef s1 t c) c .incUnlock)
  | .incUnlock => [(.unlock .R c, setO (doUnlock s t .R c) c .lockS)]
  | .lockS => (doLock s t .S c).toList.map fun s1 => (.lock .S c, setO s1 c .sfu)
  | .sfu =>
    ((doLock s t .U c).toList.flatMap fun s1 => [(.lock .U c, setO s1 c .e1), (.lock .U c, setO s1 c (.k .sigU))]) ++
    ((doLock s t .C 0).toList.map fun s1 => (.lock .C 0, setO s1 c .c1)) ++
    ((doLock s t .O c).toList.map fun s1 => (.lock .O c, setO s1 c .w1)) ++
    [(.unlock .S c, setO (doUnlock s t .S c) c .decLock)]
  | .e1 => [(.unlock .U c, setO (doUnlock s t .U c) c .sfu)]
  | .c1 => [(.unlock .C 0, setO (doUnlock s t .C 0) c .sfu)]
  | .w1 => [(.unlock .O c, setO (doUnlock s t .O c) c .sfu)]
  | .k .sigU => [(.signal .u c, setO (signalU (touch s c) c) c (.k .unlockU))]
  | .k .unlockU => [(.unlock .U c, setO (doUnlock s t .U c) c (.k .setSt))]
  | .k .setSt => storeSt s c .shutdown fun s1 => setO s1 c (.k .pipe)
  | .k .pipe => [(.pipew c, setO (updCl (touch s c) c (fun x => { x with pipeNote := true })) c .sfu)]
  | .decLock =>
    (doLock s t .R c).toList.map fun s1 =>
      let s2 := decRef s1 t c
      (.lock .R c, setO s2 c (if (s2.cl c).refCount = 0 then .decSignal else .decUnlock))
  | .decSignal => [(.signal .d c, setO (signalD (touch s c) c) c .decUnlock)]
  | .decUnlock => [(.unlock .R c, setO (doUnlock s t .R c) c .top)]
  | .exiting => [(.exit, setO s c .exited)]

/-- the listener thread only ever runs rfbNewClient (counting loop, creation, failed creation) -/
def lisPc : CPc → Bool
  | .notStarted | .idle | .done => true
  | .iter p _ _ _ => p == .count
  | .body p _ _ => p == .count
  | .cr _ _ | .gone _ _ => true
  | _ => false

/-- all successors of thread `t` in state `s` (empty: the thread is blocked or has terminated) -/
def succ (s : State) (t : Tid) : List (Lbl × State) :=
  match t with
  | .app => callerSucc s .app
  | .lis => if lisPc s.lpc then callerSucc s .lis else []
  | .inp c => inpSucc s c
  | .out c => outSucc s c

/-- `step s t i`: the i-th alternative of thread t; `none` when t is not enabled (or has fewer
alternatives).  A schedule is a list of such choices. -/
def step (s : State) (t : Tid) (i : Nat) : Option State := ((succ s t)[i]?).map (·.2)

def run (s : State) : List (Tid × Nat) → State
  | [] => s
  | (t, i) :: rest => match step s t i with
    | some s' => run s' rest
    | none => run s rest

/-- one transition of the system -/
def Step (s s' : State) : Prop := ∃ t l, (l, s') ∈ succ s t

inductive Reach : State → Prop where
  | init : Reach State.init
  | step {s s'} : Reach s → Step s s' → Reach s'

end VncModel.Threads
