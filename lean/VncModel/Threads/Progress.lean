import VncModel.Threads.Gone
/-! Mutex waits always resolve: in every reachable state, whoever owns a mutex can take a step or is
itself waiting for a mutex that is higher in the lock order; following the owners therefore leads to
a thread that can run.  Together with the lock order this is freedom from deadlocks among mutexes,
including the degenerate ones (a mutex left locked by a thread that has ended or sleeps in a
condition wait / join). -/
set_option linter.unusedSimpArgs false
namespace VncModel.Threads

/-- the iterator stages that work on `nxt` / `prev` have one -/
def WfC : CPc → Prop
  | .iter _ .incLock _ none | .iter _ .incUnlock _ none => False
  | .iter _ .decLock none _ | .iter _ .decSignal none _ | .iter _ .decUnlock none _ => False
  | _ => True

/-- ... and the listener thread only ever runs rfbNewClient -/
def Wf (s : State) : Prop := WfC s.apc ∧ WfC s.lpc ∧ lisPc s.lpc = true

theorem wf_init : Wf State.init := ⟨trivial, trivial, rfl⟩

theorem wf_congr {s s' : State} (h1 : s'.apc = s.apc) (h2 : s'.lpc = s.lpc) : Wf s' ↔ Wf s := by
  unfold Wf; rw [h1, h2]

theorem wf_pcSame {s s' : State} (h : PcSame s s') : Wf s' ↔ Wf s := wf_congr h.1 h.2.1

theorem wf_setApp {X : State} {pc : CPc} (h : Wf X) (hp : WfC pc) : Wf (setC X .app pc) := ⟨hp, h.2⟩
theorem wf_setLis {X : State} {pc : CPc} (h : Wf X) (hp : WfC pc) (hl : lisPc pc = true) : Wf (setC X .lis pc) := ⟨h.1, hp, hl⟩

@[simp] theorem wf_doUnlock (s : State) (t : Tid) (m : MCls) (c : Nat) : Wf (doUnlock s t m c) ↔ Wf s :=
  wf_pcSame (pcSame_doUnlock s t m c)
theorem wf_doLock {s a : State} {t : Tid} {m : MCls} {c : Nat} (h : doLock s t m c = some a) : Wf a ↔ Wf s :=
  wf_pcSame (pcSame_doLock h)
@[simp] theorem wf_touch (s : State) (c : Nat) : Wf (touch s c) ↔ Wf s := wf_pcSame (pcSame_touch s c)
@[simp] theorem wf_incRef (s : State) (t : Tid) (c : Nat) : Wf (incRef s t c) ↔ Wf s := wf_pcSame (pcSame_incRef s t c)
@[simp] theorem wf_decRef (s : State) (t : Tid) (c : Nat) : Wf (decRef s t c) ↔ Wf s := wf_pcSame (pcSame_decRef s t c)
@[simp] theorem wf_updCl (s : State) (c : Nat) (f) : Wf (updCl s c f) ↔ Wf s := wf_congr rfl rfl
@[simp] theorem wf_setI (s : State) (c : Nat) (pc : IPc) : Wf (setI s c pc) ↔ Wf s := wf_congr rfl rfl
@[simp] theorem wf_setO (s : State) (c : Nat) (pc : OPc) : Wf (setO s c pc) ↔ Wf s := wf_congr rfl rfl
@[simp] theorem wf_raise (s : State) (f : Flag) : Wf (raise s f) ↔ Wf s := wf_congr (apc_raise s f) (lpc_raise s f)
@[simp] theorem wf_raiseIf (s : State) (f : Flag) (b : Bool) : Wf (raiseIf s f b) ↔ Wf s :=
  wf_congr (apc_raiseIf s f b) (lpc_raiseIf s f b)
@[simp] theorem wf_setAapi (s : State) (a : Api) : Wf (setAapi s a) ↔ Wf s := wf_congr rfl rfl
@[simp] theorem wf_setLisDown (s : State) : Wf (setLisDown s) ↔ Wf s := wf_congr rfl rfl
@[simp] theorem wf_setLjoined (s : State) : Wf (setLjoined s) ↔ Wf s := wf_congr rfl rfl
@[simp] theorem wf_setN (s : State) (n : Nat) : Wf (setN s n) ↔ Wf s := wf_congr rfl rfl
@[simp] theorem wf_setAlkT (s : State) (t : Tid) (l : List Nat) : Wf (setAlkT s t l) ↔ Wf s :=
  wf_congr (apc_setAlkT s t l) (lpc_setAlkT s t l)
@[simp] theorem wf_signalU (s : State) (c : Nat) : Wf (signalU s c) ↔ Wf s := wf_congr (apc_signalU s c) (lpc_signalU s c)
theorem wf_signalD {s : State} (c : Nat) (h : Wf s) : Wf (signalD s c) := by
  unfold Wf; rw [apc_signalD', lpc_signalD']
  refine ⟨?_, ?_, ?_⟩
  · split
    · trivial
    · exact h.1
  · split
    · trivial
    · exact h.2.1
  · split
    · rfl
    · exact h.2.2

theorem wfC_finished (t : Tid) : WfC (finished t) := by cases t <;> trivial
theorem wfC_afterNext (t : Tid) (p : Proc) (prev nxt : Option Nat) : WfC (afterNext t p prev nxt) := by
  unfold afterNext; split <;> first | trivial | exact wfC_finished t

theorem lisPc_afterNext_count (prev nxt : Option Nat) : lisPc (afterNext .lis .count prev nxt) = true := by
  cases prev <;> cases nxt <;> rfl

macro "wf_solve" h:ident : tactic => `(tactic| repeat' (first
  | exact $h
  | (rw [wf_doLock ‹doLock _ _ _ _ = some _›])
  | (simp only [wf_doUnlock, wf_touch, wf_incRef, wf_decRef, wf_updCl, wf_setI, wf_setO, wf_raise, wf_raiseIf, wf_setAapi,
      wf_setLisDown, wf_setLjoined, wf_setN, wf_setAlkT, wf_signalU])
  | (with_reducible refine wf_signalD _ ?_)
  | (with_reducible refine wf_setApp ?_ ?_)
  | (with_reducible refine wf_setLis ?_ ?_ ?_)
  | (exact wfC_afterNext _ _ _ _)
  | (exact wfC_finished _)
  | (simp only [WfC, finished, nextIter, afterNext]; done)
  | (simp [WfC, finished, nextIter, afterNext]; done)
  | (simp [WfC, finished, nextIter, afterNext, *]; done)
  | (split <;> simp_all [WfC, finished, nextIter, afterNext]; done)
  | (simp_all [lisPc, finished, nextIter, afterNext]; done)
  | (simp_all [lisPc]; exact lisPc_afterNext_count _ _)
  | (simp_all [lisPc, finished, nextIter, afterNext]; split <;> simp_all [lisPc]; done)))

theorem wf_out {s : State} {c : Nat} {l : Lbl} {s' : State} (h : Wf s) (hs : (l, s') ∈ outSucc s c) : Wf s' := by
  unfold outSucc at hs
  split at hs
  all_goals (try unfold storeSt at hs)
  all_goals (try simp only [] at hs)
  all_goals (try split at hs)
  all_goals first
    | (simp at hs; done)
    | (simp at hs; crack_hyps; all_goals (subst_vars; wf_solve h))

theorem wf_inp {s : State} {c : Nat} {l : Lbl} {s' : State} (h : Wf s) (hs : (l, s') ∈ inpSucc s c) : Wf s' := by
  unfold inpSucc at hs
  split at hs
  all_goals (try unfold storeSt at hs)
  all_goals (try unfold goneSucc at hs)
  all_goals (try simp only [] at hs)
  all_goals (try split at hs)
  all_goals (try split at hs)
  all_goals first
    | (simp at hs; done)
    | (simp at hs; crack_hyps; all_goals (subst_vars; wf_solve h))

theorem wf_caller {s : State} {t : Tid} (ht : t = .app ∨ t = .lis) (hp : t = .lis → lisPc s.lpc = true)
    {l : Lbl} {s' : State} (h : Wf s) (hs : (l, s') ∈ callerSucc s t) : Wf s' := by
  unfold callerSucc at hs
  rcases ht with rfl | rfl
  all_goals (
    simp only [getC] at hs
    split at hs
    all_goals (try unfold iterSucc at hs)
    all_goals (try unfold bodySucc at hs)
    all_goals (try unfold closeSucc at hs)
    all_goals (try unfold nfSucc at hs)
    all_goals (try unfold crSucc at hs)
    all_goals (try unfold goneSucc at hs)
    all_goals (try unfold storeSt at hs)
    all_goals (try simp only [] at hs)
    all_goals (repeat' (split at hs))
    all_goals first
      | (simp at hs; done)
      | (exfalso; have := hp rfl; simp [lisPc, *] at this; done)
      | (simp at hs; crack_hyps; all_goals (subst_vars; have hlp := hp; simp only [true_implies, reduceCtorEq, false_implies] at hlp; wf_solve h)))

theorem wf_step {s s' : State} (h : Wf s) (hs : Step s s') : Wf s' := by
  obtain ⟨t, l, hm⟩ := hs
  cases t with
  | app => exact wf_caller (Or.inl rfl) (fun e => by cases e) h hm
  | lis =>
    simp only [succ] at hm
    split at hm
    · exact wf_caller (Or.inr rfl) (fun _ => ‹_›) h hm
    · simp at hm
  | inp c => exact wf_inp h hm
  | out c => exact wf_out h hm

theorem wf_reach {s : State} (h : Reach s) : Wf s := by
  induction h with
  | init => exact wf_init
  | step _ hs ih => exact wf_step ih hs

/-! ### who owns a mutex can run, or waits for a higher mutex -/

def Enabled (s : State) (t : Tid) : Prop := ∃ x, x ∈ succ s t
/-- `t` requests a mutex that somebody owns -/
def WaitsMutex (s : State) (t : Tid) : Prop := ∃ k, k ∈ pendOf s t ∧ own s k.1 k.2 ≠ none

theorem doLock_dich (s : State) (t : Tid) (m : MCls) (c : Nat) :
    (∃ a, doLock s t m c = some a) ∨ own s m c ≠ none := by
  unfold doLock
  by_cases h : own s m c = none
  · left; rw [if_pos h]; exact ⟨_, rfl⟩
  · right; exact h

theorem storeSt_nonempty (s : State) (c : Nat) (v : CSt) (k : State → State) : ∃ x, x ∈ storeSt s c v k := by
  unfold storeSt; simp only []; split
  · exact ⟨_, List.mem_singleton.2 rfl⟩
  · exact ⟨_, List.mem_singleton.2 rfl⟩

theorem storeSt_nonempty' (s : State) (c : Nat) (v : CSt) (k : State → State) : ∃ a b, (a, b) ∈ storeSt s c v k := by
  obtain ⟨x, hx⟩ := storeSt_nonempty s c v k; exact ⟨x.1, x.2, hx⟩

theorem holder_out (s : State) (c : Nat) (hh : heldOf s (.out c) ≠ []) : Enabled s (.out c) := by
  unfold Enabled
  simp only [heldOf] at hh; simp only [succ, outSucc]
  cases hpc : (s.cl c).opc <;> simp [hpc, heldO] at hh ⊢
  all_goals first
    | (exact ⟨_, _, Or.inr (Or.inr (Or.inr ⟨rfl, rfl⟩))⟩)
    | (rename_i st; cases st <;> first | (simp; done) | (obtain ⟨x, hx⟩ := storeSt_nonempty s c .shutdown (fun s1 => setO s1 c (.k .pipe)); exact ⟨x.1, x.2, hx⟩))

theorem own_of_doLock_none {s : State} {t : Tid} {m : MCls} {c : Nat} (h : doLock s t m c = none) :
    own s (mkey m c).1 (mkey m c).2 ≠ none := by
  rw [own_mkey]
  unfold doLock at h
  split at h
  · cases h
  · assumption

/-- one program counter: either a successor exists, or the step is a LOCK of an owned mutex -/
macro "prog" : tactic => `(tactic| first
  | (left; simp; done)
  | (left; exact storeSt_nonempty _ _ _ _)
  | (left; exact storeSt_nonempty' _ _ _ _)
  | (generalize hd : doLock _ _ _ _ = d at *
     cases d with
     | none => right; refine ⟨_, ?_, own_of_doLock_none hd⟩; simp [mkey, MCls.perClient, mL, mC, pendG, pendI, pendO, pendC, pendBody, *]; done
     | some a => left; simp; done))

theorem holder_gone (s : State) (t : Tid) (g : GSt) (c : Nat) (sg : State → GSt → State) (ret : State → State)
    (hh : heldG g c ≠ []) :
    (∃ x, x ∈ goneSucc s t g c sg ret) ∨ (∃ k, k ∈ pendG g c ∧ own s k.1 k.2 ≠ none) := by
  unfold goneSucc
  cases g <;> simp [heldG] at hh <;> simp only []
  all_goals prog

theorem holder_inp (s : State) (c : Nat) (hh : heldOf s (.inp c) ≠ []) :
    Enabled s (.inp c) ∨ WaitsMutex s (.inp c) := by
  unfold Enabled WaitsMutex
  simp only [heldOf] at hh; simp only [succ, inpSucc, pendOf]
  cases hpc : (s.cl c).ipc <;> simp only [hpc, heldI] at hh ⊢
  all_goals first
    | (exact absurd rfl hh)
    | (exact holder_gone s _ _ c _ _ hh)
    | (rename_i st; cases st <;> first | (exact absurd rfl hh) | prog)
    | prog

theorem holder_iter (s : State) (t : Tid) (p : Proc) (st : ISt) (prev nxt : Option Nat) (alk : List Nat)
    (hw : WfC (.iter p st prev nxt)) :
    (∃ x, x ∈ iterSucc s t p st prev nxt) ∨ (∃ k, k ∈ pendC (.iter p st prev nxt) alk ∧ own s k.1 k.2 ≠ none) := by
  unfold iterSucc
  cases st <;> cases prev <;> cases nxt <;> simp only [WfC] at hw <;> simp only []
  all_goals first
    | (exact hw.elim)
    | prog
    | (generalize hd : doLock _ _ _ _ = d at *
       cases d with
       | none => right; refine ⟨_, ?_, own_of_doLock_none hd⟩; simp [mkey, MCls.perClient, mL, mC, pendC]; done
       | some a => left; simp)

theorem holder_body (s : State) (t : Tid) (p : Proc) (k c : Nat) :
    (∃ x, x ∈ bodySucc s t p k c) ∨ (∃ m, m ∈ pendBody p k c ∧ own s m.1 m.2 ≠ none) := by
  unfold bodySucc
  cases p <;> (try simp only [])
  all_goals (match k with
    | 0 | 1 | 2 | 3 | 4 | k + 5 => ((try simp only []); prog))

theorem holder_nf (s : State) (t : Tid) (st : NSt) (i : Nat) (hh : heldC (.nf st i) s.alk ≠ []) :
    (∃ x, x ∈ nfSucc s t st i) ∨ (∃ m, m ∈ pendC (.nf st i) s.alk ∧ own s m.1 m.2 ≠ none) := by
  unfold nfSucc
  cases st <;> simp only []
  case lockC => prog
  case unlockC => prog
  all_goals (
    cases ha : s.alk[i]? with
    | none => simp [heldC, ha] at hh
    | some a => simp only []; prog)

theorem holder_cr (s : State) (t : Tid) (st : CrSt) (c : Nat) (alk : List Nat) (hh : heldC (.cr st c) alk ≠ []) :
    ∃ x, x ∈ crSucc s t st c := by
  unfold crSucc
  cases st <;> simp [heldC] at hh <;> simp only [] <;> simp

theorem holder_close (s : State) (t : Tid) (p : Proc) (k : KSt) (c : Nat) : ∃ x, x ∈ closeSucc s t p k c := by
  unfold closeSucc
  cases k <;> simp only []
  · simp
  · simp
  · exact storeSt_nonempty _ _ _ _
  · simp

theorem holder_callerSucc (s : State) (t : Tid) (alk : List Nat) (halk : alk = s.alk ∨ (t = .lis ∧ alk = []))
    (hnf : ∀ st i, getC s t = .nf st i → t = .app) (hw : WfC (getC s t))
    (hh : heldC (getC s t) alk ≠ []) :
    (∃ x, x ∈ callerSucc s t) ∨ (∃ k, k ∈ pendC (getC s t) alk ∧ own s k.1 k.2 ≠ none) := by
  unfold callerSucc
  cases hpc : getC s t with
  | notStarted => simp [hpc, heldC] at hh
  | idle => simp [hpc, heldC] at hh
  | done => simp [hpc, heldC] at hh
  | rl => simp [hpc, heldC] at hh
  | sd0 => simp [hpc, heldC] at hh
  | sdJoinL => simp [hpc, heldC] at hh
  | sdJoin c n => simp [hpc, heldC] at hh
  | retp => simp [hpc, heldC] at hh
  | iter p st prev nxt => simp only []; rw [hpc] at hw; exact holder_iter s t p st prev nxt alk hw
  | body p k c => simp only [pendC]; exact holder_body s t p k c
  | close p k c => left; exact holder_close s t p k c
  | nf st i =>
    simp only []
    have ht := hnf st i hpc
    subst ht
    have : alk = s.alk := by rcases halk with h | ⟨h, _⟩ <;> first | exact h | cases h
    subst this
    rw [hpc] at hh
    exact holder_nf s .app st i hh
  | cr st c => left; rw [hpc] at hh; exact holder_cr s t st c alk hh
  | gone g c => simp only [pendC]; rw [hpc] at hh; exact holder_gone s t g c _ _ hh

/-- **who owns a mutex can run, or waits for another mutex that somebody owns** -/
theorem holder_progress {s : State} (h : Reach s) (t : Tid) (hh : heldOf s t ≠ []) :
    Enabled s t ∨ WaitsMutex s t := by
  have hw := wf_reach h
  cases t with
  | out c => exact Or.inl (holder_out s c hh)
  | inp c => exact holder_inp s c hh
  | app =>
    unfold Enabled WaitsMutex
    simp only [succ, pendOf]
    exact holder_callerSucc s .app s.alk (Or.inl rfl) (fun _ _ _ => rfl) hw.1 hh
  | lis =>
    unfold Enabled WaitsMutex
    simp only [succ, pendOf]
    by_cases hp : lisPc s.lpc = true
    · rw [if_pos hp]
      refine holder_callerSucc s .lis [] (Or.inr ⟨rfl, rfl⟩) (fun st i e => ?_) hw.2.1 hh
      simp only [getC] at e; rw [e] at hp; simp [lisPc] at hp
    · exact absurd hw.2.2 hp

theorem rank_le (m : MCls) : rank m ≤ 5 := by cases m <;> simp [rank]

/-- **mutex waits resolve**: if a thread requests a mutex that is owned, then some thread of the system
can take a step — the owner, or (following the chain of owners, which climbs in the lock order and is
therefore finite) a thread further up.  So no set of threads is ever stuck on mutexes alone: no lock
cycle, no mutex left locked by a thread that has ended or that sleeps in a condition wait or a join. -/
theorem mutex_wait_resolves {s : State} (h : Reach s) (k : Mx) (t t' : Tid)
    (hk : k ∈ pendOf s t) (ho : own s k.1 k.2 = some t') : ∃ t'', Enabled s t'' := by
  have hheld : k ∈ heldOf s t' := by
    have := (own_iff_table h t' k.1 k.2).1 ho
    rwa [pend_keyed s t k hk] at this
  rcases holder_progress h t' (List.ne_nil_of_mem hheld) with he | ⟨k', hk', ho'⟩
  · exact ⟨t', he⟩
  · obtain ⟨t2, ht2⟩ := Option.ne_none_iff_exists'.1 ho'
    have hlt := held_lt_pending h t' k' hk' k hheld
    exact mutex_wait_resolves h k' t' t2 hk' ht2
termination_by (5 - rank k.1, if k.1 = MCls.S then k.2 else 0)
decreasing_by
  have h1 := rank_le k.1
  have h2 := rank_le k'.1
  unfold mlt at hlt
  rcases hlt with hr | ⟨e1, e2, e3⟩
  · exact Prod.Lex.left _ _ (by omega)
  · rw [e1, e2]; simp only [if_true]
    exact Prod.Lex.right _ e3

end VncModel.Threads
