import VncModel.Threads.LifeStep
/-! No use-after-free, no double free: every dereference of a client record the model performs
(`touch`, LOCK/UNLOCK of a per-client mutex) hits an allocated record, and `free` is reached with the
record still allocated — in every reachable state, i.e. under every schedule. -/
set_option linter.unusedSimpArgs false
namespace VncModel.Threads

def Safe (s : State) : Prop := s.uaf = false ∧ s.dfree = false

theorem safe_init : Safe State.init := ⟨rfl, rfl⟩

theorem safe_congr {s s' : State} (h1 : s'.uaf = s.uaf) (h2 : s'.dfree = s.dfree) : Safe s' ↔ Safe s := by
  unfold Safe; rw [h1, h2]

@[simp] theorem safe_updCl (s : State) (c : Nat) (f) : Safe (updCl s c f) ↔ Safe s := safe_congr rfl rfl
@[simp] theorem safe_setI (s : State) (c : Nat) (pc : IPc) : Safe (setI s c pc) ↔ Safe s := safe_congr rfl rfl
@[simp] theorem safe_setO (s : State) (c : Nat) (pc : OPc) : Safe (setO s c pc) ↔ Safe s := safe_congr rfl rfl
@[simp] theorem safe_setC (s : State) (t : Tid) (pc : CPc) : Safe (setC s t pc) ↔ Safe s := by
  cases t <;> exact safe_congr rfl rfl
@[simp] theorem safe_setAlkT (s : State) (t : Tid) (l : List Nat) : Safe (setAlkT s t l) ↔ Safe s := by
  unfold setAlkT; split
  · exact safe_congr rfl rfl
  · exact Iff.rfl
@[simp] theorem safe_setN (s : State) (n : Nat) : Safe (setN s n) ↔ Safe s := safe_congr rfl rfl
@[simp] theorem safe_setAapi (s : State) (a : Api) : Safe (setAapi s a) ↔ Safe s := safe_congr rfl rfl
@[simp] theorem safe_setLisDown (s : State) : Safe (setLisDown s) ↔ Safe s := safe_congr rfl rfl
@[simp] theorem safe_setLjoined (s : State) : Safe (setLjoined s) ↔ Safe s := safe_congr rfl rfl
theorem safe_setG (s : State) (t : Tid) (g : Ghost) : Safe (setG s t g) ↔ Safe s := by
  cases t <;> exact safe_congr rfl rfl
theorem safe_setOwn (s : State) (m : MCls) (c : Nat) (o : Option Tid) : Safe (setOwn s m c o) ↔ Safe s := by
  cases m <;> exact safe_congr rfl rfl
@[simp] theorem safe_signalU (s : State) (c : Nat) : Safe (signalU s c) ↔ Safe s := by
  unfold signalU; split <;> simp
@[simp] theorem safe_signalD (s : State) (c : Nat) : Safe (signalD s c) ↔ Safe s := by
  unfold signalD; simp only []; split <;> split <;> split <;> simp
@[simp] theorem safe_incRef (s : State) (t : Tid) (c : Nat) : Safe (incRef s t c) ↔ Safe s := by
  unfold incRef; simp only []; rw [safe_setG]; simp

theorem safe_raise (s : State) (f : Flag) (h1 : f ≠ .uaf) (h2 : f ≠ .dfree) : Safe (raise s f) ↔ Safe s := by
  cases f <;> first | exact absurd rfl h1 | exact absurd rfl h2 | exact safe_congr rfl rfl
@[simp] theorem safe_raise_badUnlock (s : State) : Safe (raise s .badUnlock) ↔ Safe s := safe_raise s _ (by simp) (by simp)
@[simp] theorem safe_raise_badJoin (s : State) : Safe (raise s .badJoin) ↔ Safe s := safe_raise s _ (by simp) (by simp)
@[simp] theorem safe_raise_conflict (s : State) : Safe (raise s .conflict) ↔ Safe s := safe_raise s _ (by simp) (by simp)
@[simp] theorem safe_raise_badRef (s : State) : Safe (raise s .badRef) ↔ Safe s := safe_raise s _ (by simp) (by simp)
@[simp] theorem safe_raise_badCreate (s : State) : Safe (raise s .badCreate) ↔ Safe s := safe_raise s _ (by simp) (by simp)
@[simp] theorem safe_raiseIf_badJoin (s : State) (b : Bool) : Safe (raiseIf s .badJoin b) ↔ Safe s := by
  unfold raiseIf; split <;> simp

@[simp] theorem safe_decRef (s : State) (t : Tid) (c : Nat) : Safe (decRef s t c) ↔ Safe s := by
  unfold decRef; split
  · simp only []; rw [safe_setG]; simp
  · simp

/-- a dereference of an allocated record is harmless -/
theorem safe_touch {X : State} {c : Nat} (h : Safe X) (ha : (X.cl c).alive = true) : Safe (touch X c) := by
  unfold touch; rw [if_pos ha]; exact h

theorem safe_touchM {X : State} {m : MCls} {c : Nat} (h : Safe X) (ha : m.perClient = true → (X.cl c).alive = true) :
    Safe (touchM X m c) := by
  unfold touchM; split
  · rename_i e; exact safe_touch h (ha e)
  · exact h

theorem safe_doUnlock {X : State} {t : Tid} {m : MCls} {c : Nat} (h : Safe X)
    (ha : m.perClient = true → (X.cl c).alive = true) : Safe (doUnlock X t m c) := by
  unfold doUnlock; simp only []; split
  · rw [safe_setG, safe_setOwn]; exact safe_touchM h ha
  · rw [safe_raise_badUnlock]; exact safe_touchM h ha

theorem safe_doLock {s a : State} {t : Tid} {m : MCls} {c : Nat} (hd : doLock s t m c = some a) (h : Safe s)
    (ha : m.perClient = true → (s.cl c).alive = true) : Safe a := by
  unfold doLock at hd; split at hd
  · simp only [Option.some.injEq] at hd; subst hd
    rw [safe_setG, safe_setOwn]; exact safe_touchM h ha
  · cases hd

/-! ### who may dereference what -/

theorem alive_known {s : State} (hl : Life s) (t : Tid) (x : Nat) (h : x ∈ knownC (getC s t) (alkOf s t)) :
    (s.cl x).alive = true := hl.linked_alive x (hl.known t x h)
theorem alive_cr {s : State} (hl : Life s) (t : Tid) (x : Nat) (b : Bool) (h : crOf (getC s t) = some (x, b)) :
    (s.cl x).alive = true := (hl.cr t x b h).1
theorem alive_inp {s : State} (hl : Life s) (c : Nat) (h : ipcAlive (s.cl c).ipc = true) : (s.cl c).alive = true :=
  hl.inp_alive c h
theorem alive_out {s : State} (hl : Life s) (c : Nat) (h : opcRun (s.cl c).opc = true) : (s.cl c).alive = true :=
  hl.inp_alive c (by have := hl.out_inp c h; revert this; cases (s.cl c).ipc <;> simp [ipcHasOut, ipcAlive])

theorem alive_cr_app {s : State} (hl : Life s) {st : CrSt} {c : Nat} (h : s.apc = .cr st c) (hst : st ≠ .alloc) :
    (s.cl c).alive = true := by
  cases st <;> first | exact absurd rfl hst | exact alive_cr hl .app c _ (by simp only [getC, h, crOf]; rfl)
theorem alive_cr_lis {s : State} (hl : Life s) {st : CrSt} {c : Nat} (h : s.lpc = .cr st c) (hst : st ≠ .alloc) :
    (s.cl c).alive = true := by
  cases st <;> first | exact absurd rfl hst | exact alive_cr hl .lis c _ (by simp only [getC, h, crOf]; rfl)
theorem alive_gone_app {s : State} (hl : Life s) {g : GSt} {c : Nat} (h : s.apc = .gone g c) : (s.cl c).alive = true :=
  alive_cr hl .app c _ (by simp only [getC, h, crOf]; rfl)
theorem alive_gone_lis {s : State} (hl : Life s) {g : GSt} {c : Nat} (h : s.lpc = .gone g c) : (s.cl c).alive = true :=
  alive_cr hl .lis c _ (by simp only [getC, h, crOf]; rfl)

/-- "the record is allocated": from the facts in the context, or because the thread relies on the
client being in the list, or because it is the record the thread is constructing / tearing down -/
macro "safe_alv" hl:ident : tactic => `(tactic| first
  | (simp [*]; done)
  | (try simp only [touch_cl, alive_doUnlock, alive_incRef, alive_decRef, cl_raise, cl_raiseIf, cl_setAapi, cl_setLisDown,
       cl_setLjoined, *]
     first
     | (refine alive_known $hl Tid.app _ ?_; life_side)
     | (refine alive_known $hl Tid.lis _ ?_; life_side)
     | (exact alive_cr_app $hl ‹State.apc _ = CPc.cr _ _› (by simp))
     | (exact alive_cr_lis $hl ‹State.lpc _ = CPc.cr _ _› (by simp))
     | (exact alive_gone_app $hl ‹State.apc _ = CPc.gone _ _›)
     | (exact alive_gone_lis $hl ‹State.lpc _ = CPc.gone _ _›)))

/-- peel the primitives off a successor state -/
macro "safe_strip" h:ident hl:ident : tactic => `(tactic| repeat' (first
  | exact $h
  | (simp only [safe_updCl, safe_setI, safe_setO, safe_setC, safe_setAlkT, safe_setN, safe_setAapi, safe_setLisDown,
      safe_setLjoined, safe_signalU, safe_signalD, safe_incRef, safe_decRef, safe_raise_badUnlock, safe_raise_badJoin,
      safe_raise_conflict, safe_raise_badRef, safe_raise_badCreate, safe_raiseIf_badJoin])
  | (refine safe_touch ?_ ?_)
  | (refine safe_doUnlock ?_ ?_)
  | (refine safe_doLock ‹doLock _ _ _ _ = some _› ?_ ?_)
  | (intro e; simp [MCls.perClient] at e; done)
  | (intro _; safe_alv $hl)
  | safe_alv $hl))

theorem safe_out {s : State} {c : Nat} {l : Lbl} {s' : State} (hl : Life s) (h : Safe s)
    (hs : (l, s') ∈ outSucc s c) : Safe s' := by
  unfold outSucc at hs
  split at hs
  all_goals (try unfold storeSt at hs)
  all_goals (try simp only [] at hs)
  all_goals (try split at hs)
  all_goals first
    | (simp at hs; done)
    | (simp at hs; crack_hyps
       all_goals (
         subst_vars
         dl_facts
         have ha : (s.cl c).alive = true := alive_out hl c (by simp [opcRun, *])
         safe_strip h hl))

theorem safe_inp {s : State} {c : Nat} {l : Lbl} {s' : State} (hl : Life s) (h : Safe s)
    (hs : (l, s') ∈ inpSucc s c) : Safe s' := by
  unfold inpSucc at hs
  split at hs
  all_goals (try unfold storeSt at hs)
  all_goals (try unfold goneSucc at hs)
  all_goals (try simp only [] at hs)
  all_goals (try split at hs)
  all_goals (try split at hs)
  all_goals first
    | (simp at hs; done)
    | (simp at hs; crack_hyps
       all_goals (
         subst_vars
         dl_facts
         have ha : (s.cl c).alive = true ∨ ipcAlive (s.cl c).ipc = false := by
           cases hq : ipcAlive (s.cl c).ipc
           · exact Or.inr rfl
           · exact Or.inl (alive_inp hl c hq)
         simp [ipcAlive, *] at ha
         first
         | (safe_strip h hl; done)
         | (exfalso; simp_all; done)))

macro "safe_ctac" h:ident hl:ident : tactic => `(tactic| (
  subst_vars
  dl_facts
  try (have hdrop := drop_of_getElem? ‹(_ : List Nat)[_]? = some _›)
  first
  | (safe_strip $h $hl; done)
  | (exfalso
     first
     | (have hcr := alive_gone_app $hl ‹State.apc _ = CPc.gone _ _›; simp_all; done)
     | (have hcr := alive_gone_lis $hl ‹State.lpc _ = CPc.gone _ _›; simp_all; done))))

theorem safe_iter {s : State} {t : Tid} (ht : t = .app ∨ t = .lis) {p : Proc} {st : ISt} {prev nxt : Option Nat}
    {l : Lbl} {s' : State} (hl : Life s) (h : Safe s) (hpc : getC s t = .iter p st prev nxt)
    (hs : (l, s') ∈ iterSucc s t p st prev nxt) : Safe s' := by
  unfold iterSucc at hs
  rcases ht with rfl | rfl
  all_goals (
    simp only [getC] at hpc
    split at hs
    all_goals (try simp only [] at hs)
    all_goals (repeat' (split at hs))
    all_goals first
      | (simp at hs; done)
      | (simp at hs; crack_hyps
         all_goals safe_ctac h hl))

theorem safe_body_app {s : State} {p : Proc} {k c : Nat}
    {l : Lbl} {s' : State} (hl : Life s) (h : Safe s) (hpc : getC s Tid.app = .body p k c)
    (hs : (l, s') ∈ bodySucc s Tid.app p k c) : Safe s' := by
  unfold bodySucc at hs
  simp only [getC] at hpc
  split at hs
  all_goals (try simp only [] at hs)
  all_goals (repeat' (split at hs))
  all_goals first
    | (simp at hs; done)
    | (simp at hs; crack_hyps
       all_goals safe_ctac h hl)

theorem safe_body_lis {s : State} {p : Proc} {k c : Nat}
    {l : Lbl} {s' : State} (hl : Life s) (h : Safe s) (hpc : getC s Tid.lis = .body p k c)
    (hs : (l, s') ∈ bodySucc s Tid.lis p k c) : Safe s' := by
  unfold bodySucc at hs
  simp only [getC] at hpc
  split at hs
  all_goals (try simp only [] at hs)
  all_goals (repeat' (split at hs))
  all_goals first
    | (simp at hs; done)
    | (simp at hs; crack_hyps
       all_goals safe_ctac h hl)

theorem safe_body {s : State} {t : Tid} (ht : t = .app ∨ t = .lis) {p : Proc} {k c : Nat}
    {l : Lbl} {s' : State} (hl : Life s) (h : Safe s) (hpc : getC s t = .body p k c)
    (hs : (l, s') ∈ bodySucc s t p k c) : Safe s' := by
  rcases ht with rfl | rfl
  · exact safe_body_app hl h hpc hs
  · exact safe_body_lis hl h hpc hs

theorem safe_close {s : State} {t : Tid} (ht : t = .app ∨ t = .lis) {p : Proc} {k : KSt} {c : Nat}
    {l : Lbl} {s' : State} (hl : Life s) (h : Safe s) (hpc : getC s t = .close p k c)
    (hs : (l, s') ∈ closeSucc s t p k c) : Safe s' := by
  unfold closeSucc at hs
  rcases ht with rfl | rfl
  all_goals (
    simp only [getC] at hpc
    split at hs
    all_goals (try unfold storeSt at hs)
    all_goals (try simp only [] at hs)
    all_goals (repeat' (split at hs))
    all_goals first
      | (simp at hs; done)
      | (simp at hs; crack_hyps
         all_goals safe_ctac h hl))

theorem safe_nf {s : State} {st : NSt} {i : Nat}
    {l : Lbl} {s' : State} (hl : Life s) (h : Safe s) (hpc : s.apc = .nf st i)
    (hs : (l, s') ∈ nfSucc s .app st i) : Safe s' := by
  unfold nfSucc at hs
  split at hs
  all_goals (try simp only [] at hs)
  all_goals (repeat' (split at hs))
  all_goals first
    | (simp at hs; done)
    | (simp at hs; crack_hyps
       all_goals safe_ctac h hl)

theorem safe_cr {s : State} {t : Tid} (ht : t = .app ∨ t = .lis) {st : CrSt} {c : Nat}
    {l : Lbl} {s' : State} (hl : Life s) (h : Safe s) (hpc : getC s t = .cr st c)
    (hs : (l, s') ∈ crSucc s t st c) : Safe s' := by
  unfold crSucc at hs
  rcases ht with rfl | rfl
  all_goals (
    simp only [getC] at hpc
    split at hs
    all_goals (try unfold storeSt at hs)
    all_goals (try simp only [] at hs)
    all_goals (repeat' (split at hs))
    all_goals first
      | (simp at hs; done)
      | (simp at hs; crack_hyps
         all_goals safe_ctac h hl))

theorem safe_gone_c_app {s : State} {g : GSt} {c : Nat}
    {l : Lbl} {s' : State} (hl : Life s) (h : Safe s) (hpc : getC s Tid.app = .gone g c)
    (hs : (l, s') ∈ goneSucc s Tid.app g c (fun s1 g1 => setC s1 Tid.app (.gone g1 c)) (fun s1 => setC s1 Tid.app (finished Tid.app))) :
    Safe s' := by
  unfold goneSucc at hs
  simp only [getC] at hpc
  split at hs
  all_goals (try simp only [] at hs)
  all_goals (repeat' (split at hs))
  all_goals first
    | (simp at hs; done)
    | (simp at hs; crack_hyps
       all_goals safe_ctac h hl)

theorem safe_gone_c_lis {s : State} {g : GSt} {c : Nat}
    {l : Lbl} {s' : State} (hl : Life s) (h : Safe s) (hpc : getC s Tid.lis = .gone g c)
    (hs : (l, s') ∈ goneSucc s Tid.lis g c (fun s1 g1 => setC s1 Tid.lis (.gone g1 c)) (fun s1 => setC s1 Tid.lis (finished Tid.lis))) :
    Safe s' := by
  unfold goneSucc at hs
  simp only [getC] at hpc
  split at hs
  all_goals (try simp only [] at hs)
  all_goals (repeat' (split at hs))
  all_goals first
    | (simp at hs; done)
    | (simp at hs; crack_hyps
       all_goals safe_ctac h hl)

theorem safe_gone_c {s : State} {t : Tid} (ht : t = .app ∨ t = .lis) {g : GSt} {c : Nat}
    {l : Lbl} {s' : State} (hl : Life s) (h : Safe s) (hpc : getC s t = .gone g c)
    (hs : (l, s') ∈ goneSucc s t g c (fun s1 g1 => setC s1 t (.gone g1 c)) (fun s1 => setC s1 t (finished t))) :
    Safe s' := by
  rcases ht with rfl | rfl
  · exact safe_gone_c_app hl h hpc hs
  · exact safe_gone_c_lis hl h hpc hs

theorem safe_caller {s : State} {t : Tid} (ht : t = .app ∨ t = .lis) (hp : t = .lis → lisPc s.lpc = true)
    {l : Lbl} {s' : State} (hl : Life s) (h : Safe s) (hs : (l, s') ∈ callerSucc s t) : Safe s' := by
  unfold callerSucc at hs
  split at hs
  all_goals first
    | exact safe_iter ht hl h ‹_› hs
    | exact safe_body ht hl h ‹_› hs
    | exact safe_close ht hl h ‹_› hs
    | exact safe_cr ht hl h ‹_› hs
    | exact safe_gone_c ht hl h ‹_› hs
    | (rcases ht with rfl | rfl
       · exact safe_nf hl h ‹_› hs
       · exfalso; have := hp rfl; simp only [getC] at *; simp_all [lisPc])
    | (rcases ht with rfl | rfl
       all_goals (
         simp only [getC] at *
         try simp only [] at hs
         repeat' (split at hs)
         all_goals first
           | (simp at hs; done)
           | (exfalso; have := hp rfl; simp_all [lisPc]; done)
           | (simp at hs; crack_hyps
              all_goals safe_ctac h hl)))

theorem safe_step {s s' : State} (hl : Life s) (h : Safe s) (hs : Step s s') : Safe s' := by
  obtain ⟨t, l, hm⟩ := hs
  cases t with
  | app => exact safe_caller (Or.inl rfl) (fun e => by cases e) hl h hm
  | lis =>
    simp only [succ] at hm
    split at hm
    · exact safe_caller (Or.inr rfl) (fun _ => ‹_›) hl h hm
    · simp at hm
  | inp c => exact safe_inp hl h hm
  | out c => exact safe_out hl h hm

/-- **no use-after-free, no double free**: whatever the schedule, no thread of the model ever
dereferences a client record that is not allocated (LOCK/UNLOCK/TSIGNAL of its mutexes and condition
variables, reads and writes of its fields, its reference count), and `free` is only ever reached for
a record that is still allocated -/
theorem safe_reach {s : State} (h : Reach s) : s.uaf = false ∧ s.dfree = false := by
  induction h with
  | init => exact safe_init
  | step hr hs ih => exact safe_step (life_reach hr) ih hs

/-! ### consequences of the life-cycle invariant -/

/-- a client some thread holds a counted reference on is in the client list and allocated -/
theorem referenced_linked {s : State} (h : Reach s) (t : Tid) (c : Nat) (hc : c ∈ refsOf s t) :
    (s.cl c).linked = true ∧ (s.cl c).alive = true := by
  have hl := life_reach h
  have key : (s.cl c).linked = true := by
    cases t with
    | app => exact hl.known .app c (by simp only [getC, alkOf, knownC]; exact List.mem_append_left _ hc)
    | lis => exact hl.known .lis c (by simp only [getC, alkOf, knownC]; exact List.mem_append_left _ hc)
    | inp _ => simp [refsOf] at hc
    | out c' =>
      have hc' : c = c' ∧ opcRun (s.cl c').opc = true := by
        simp only [refsOf] at hc
        revert hc; cases (s.cl c').opc <;> simp [refsO, opcRun]
      obtain ⟨rfl, hrun⟩ := hc'
      have hho := hl.out_inp c hrun
      have ha : ipcAlive (s.cl c).ipc = true := by revert hho; cases (s.cl c).ipc <;> simp [ipcHasOut, ipcAlive]
      rw [hl.inp_linked c ha]
      revert hho; cases (s.cl c).ipc <;> simp [ipcHasOut, ipcLinked]
  exact ⟨key, hl.linked_alive c key⟩

/-- a record that is not in the client list (not yet inserted, or already taken out by
rfbClientConnectionGone) has reference count 0: in particular the record that is freed -/
theorem unlinked_unreferenced {s : State} (h : Reach s) (c : Nat) (hc : (s.cl c).linked = false) :
    (s.cl c).refCount = 0 := by
  rw [refCount_exact h c]
  have z : ∀ t, (refsOf s t).count c = 0 := by
    intro t
    apply List.count_eq_zero.2
    intro hm
    have := (referenced_linked h t c hm).1
    rw [hc] at this; cases this
  rw [z, z, z]

/-- when a record has been freed, neither of its threads is running any more -/
theorem freed_has_no_threads {s : State} (h : Reach s) (c : Nat) (hc : (s.cl c).alive = false) :
    ipcAlive (s.cl c).ipc = false ∧ opcRun (s.cl c).opc = false := by
  have hl := life_reach h
  have h1 : ipcAlive (s.cl c).ipc = false := by
    cases hq : ipcAlive (s.cl c).ipc
    · rfl
    · have := hl.inp_alive c hq; rw [hc] at this; cases this
  refine ⟨h1, ?_⟩
  cases hq : opcRun (s.cl c).opc
  · rfl
  · have := hl.out_inp c hq
    revert h1 this; cases (s.cl c).ipc <;> simp [ipcHasOut, ipcAlive]

/-- the thread that is about to free record c (last stage of rfbClientConnectionGone) finds it
allocated, out of the list, unreferenced, and its output thread joined or never started -/
theorem free_is_safe {s : State} (h : Reach s) (c : Nat)
    (hc : (s.cl c).ipc = .g .unlockS ∨ s.apc = .gone .unlockS c ∨ s.lpc = .gone .unlockS c) :
    (s.cl c).alive = true ∧ (s.cl c).linked = false ∧ (s.cl c).refCount = 0 ∧ opcRun (s.cl c).opc = false := by
  have hl := life_reach h
  have h12 : (s.cl c).alive = true ∧ (s.cl c).linked = false ∧ opcRun (s.cl c).opc = false := by
    rcases hc with e | e | e
    · have ha : ipcAlive (s.cl c).ipc = true := by rw [e]; rfl
      refine ⟨hl.inp_alive c ha, ?_, ?_⟩
      · rw [hl.inp_linked c ha, e]; rfl
      · cases hq : opcRun (s.cl c).opc
        · rfl
        · have := hl.out_inp c hq; rw [e] at this; cases this
    · obtain ⟨a, i, k⟩ := hl.cr .app c false (by simp only [getC, e, crOf]; rfl)
      exact ⟨a, k, by rw [hl.out_ns c (Or.inl i)]; rfl⟩
    · obtain ⟨a, i, k⟩ := hl.cr .lis c false (by simp only [getC, e, crOf]; rfl)
      exact ⟨a, k, by rw [hl.out_ns c (Or.inl i)]; rfl⟩
  exact ⟨h12.1, h12.2.1, unlinked_unreferenced h c h12.2.1, h12.2.2⟩

end VncModel.Threads
