import VncModel.Threads.Obs
/-! The thread-local invariant `Local` is inductive. -/
namespace VncModel.Threads

/-- `X` is obtained from `s` by steps of thread `t` that change t's ghost by `fh` / `fr` and nothing
that the thread-local invariant of the other threads depends on -/
structure GRel (t : Tid) (s X : State) (fh : List Mx → List Mx) (fr : List Nat → List Nat) : Prop where
  others : ∀ t', t' ≠ t → getG X t' = getG s t' ∧ heldOf X t' = heldOf s t' ∧ refsOf X t' = refsOf s t'
  held : (getG X t).held = fh (getG s t).held
  refs : (getG X t).refs = fr (getG s t).refs

theorem GRel.refl (t : Tid) (s : State) : GRel t s s id id :=
  ⟨fun _ _ => ⟨rfl, rfl, rfl⟩, rfl, rfl⟩

/-- a further step that changes neither ghosts nor program-counter tables -/
theorem GRel.neutral {t : Tid} {s X Y : State} {fh fr} (h : GRel t s X fh fr)
    (hg : ∀ t', getG Y t' = getG X t') (hh : ∀ t', heldOf Y t' = heldOf X t') (hr : ∀ t', refsOf Y t' = refsOf X t') :
    GRel t s Y fh fr :=
  ⟨fun t' ht => by rw [hg, hh, hr]; exact h.others t' ht, by rw [hg]; exact h.held, by rw [hg]; exact h.refs⟩

theorem GRel.touch {t s X fh fr} (h : GRel t s X fh fr) (c : Nat) : GRel t s (touch X c) fh fr :=
  h.neutral (fun _ => getG_touch _ _ _) (fun t' => heldOf_pcSame (pcSame_touch X c) t') (fun t' => refsOf_pcSame (pcSame_touch X c) t')

theorem GRel.updCl {t s X fh fr} (h : GRel t s X fh fr) (c : Nat) (f : Client → Client) (hb : Benign f) (hk : KeepsPc f) :
    GRel t s (updCl X c f) fh fr :=
  h.neutral (fun t' => getG_updCl X c f hb t') (fun t' => heldOf_pcSame (pcSame_updCl X c f hk) t')
    (fun t' => refsOf_pcSame (pcSame_updCl X c f hk) t')

theorem GRel.signalU {t s X fh fr} (h : GRel t s X fh fr) (c : Nat) : GRel t s (signalU X c) fh fr :=
  h.neutral (fun _ => getG_signalU _ _ _) (fun _ => heldOf_signalU _ _ _) (fun _ => refsOf_signalU _ _ _)

theorem heldC_wake (c : Nat) (alk : List Nat) : heldC (.gone .wakeD c) alk = heldC (.gone .blocked c) alk := rfl
theorem refsC_wake (c : Nat) (alk : List Nat) : refsC (.gone .wakeD c) alk = refsC (.gone .blocked c) alk := rfl

@[simp] theorem heldOf_signalD (s : State) (c : Nat) (t : Tid) : heldOf (signalD s c) t = heldOf s t := by
  unfold signalD
  simp only []
  have e1 : ∀ X : State, (X.cl c).ipc = .g .blocked → heldOf (setI X c (.g .wakeD)) t = heldOf X t := by
    intro X hX; rw [heldOf_setI]; split
    · rename_i ht; subst ht; simp [heldOf, hX, heldI, heldG]
    · rfl
  have e2 : ∀ X : State, X.apc = .gone .blocked c → heldOf (setC X .app (.gone .wakeD c)) t = heldOf X t := by
    intro X hX; rw [heldOf_setC]; simp only []; split
    · rename_i ht; subst ht; simp [heldOf, hX, heldC, heldG]
    · rfl
  have e3 : ∀ X : State, X.lpc = .gone .blocked c → heldOf (setC X .lis (.gone .wakeD c)) t = heldOf X t := by
    intro X hX; rw [heldOf_setC]; simp only []; split
    · rename_i ht; subst ht; simp [heldOf, hX, heldC, heldG]
    · rfl
  split <;> split <;> split <;> simp_all

@[simp] theorem refsOf_signalD (s : State) (c : Nat) (t : Tid) : refsOf (signalD s c) t = refsOf s t := by
  unfold signalD
  simp only []
  have e1 : ∀ X : State, refsOf (setI X c (.g .wakeD)) t = refsOf X t := fun X => refsOf_setI X c _ t
  have e2 : ∀ X : State, X.apc = .gone .blocked c → refsOf (setC X .app (.gone .wakeD c)) t = refsOf X t := by
    intro X hX; rw [refsOf_setC]; simp only []; split
    · rename_i ht; subst ht; simp [refsOf, hX, refsC]
    · rfl
  have e3 : ∀ X : State, X.lpc = .gone .blocked c → refsOf (setC X .lis (.gone .wakeD c)) t = refsOf X t := by
    intro X hX; rw [refsOf_setC]; simp only []; split
    · rename_i ht; subst ht; simp [refsOf, hX, refsC]
    · rfl
  split <;> split <;> split <;> simp_all

theorem GRel.signalD {t s X fh fr} (h : GRel t s X fh fr) (c : Nat) : GRel t s (signalD X c) fh fr :=
  h.neutral (fun _ => getG_signalD _ _ _) (fun _ => heldOf_signalD _ _ _) (fun _ => refsOf_signalD _ _ _)

theorem GRel.lock {t s X a fh fr} {m : MCls} {c : Nat} (h : GRel t s X fh fr) (hl : doLock X t m c = some a) :
    GRel t s a (fun l => mkey m c :: fh l) fr := by
  refine ⟨fun t' ht => ?_, ?_, ?_⟩
  · rw [getG_doLock hl, if_neg ht, heldOf_pcSame (pcSame_doLock hl), refsOf_pcSame (pcSame_doLock hl)]
    exact h.others t' ht
  · rw [getG_doLock hl, if_pos rfl]; simp [h.held]
  · rw [getG_doLock hl, if_pos rfl]; simp [h.refs]

theorem GRel.unlock {t s X fh fr} {m : MCls} {c : Nat} (h : GRel t s X fh fr) (ho : own X m c = some t) :
    GRel t s (doUnlock X t m c) (fun l => (fh l).erase (mkey m c)) fr := by
  refine ⟨fun t' ht => ?_, ?_, ?_⟩
  · rw [getG_doUnlock ho, if_neg ht, heldOf_pcSame (pcSame_doUnlock X t m c), refsOf_pcSame (pcSame_doUnlock X t m c)]
    exact h.others t' ht
  · rw [getG_doUnlock ho, if_pos rfl]; simp [h.held]
  · rw [getG_doUnlock ho, if_pos rfl]; simp [h.refs]

theorem GRel.inc {t s X fh fr} (h : GRel t s X fh fr) (c : Nat) :
    GRel t s (incRef X t c) fh (fun l => c :: fr l) := by
  refine ⟨fun t' ht => ?_, ?_, ?_⟩
  · rw [getG_incRef, if_neg ht, heldOf_pcSame (pcSame_incRef X t c), refsOf_pcSame (pcSame_incRef X t c)]
    exact h.others t' ht
  · rw [getG_incRef, if_pos rfl]; simp [h.held]
  · rw [getG_incRef, if_pos rfl]; simp [h.refs]

theorem GRel.dec {t s X fh fr} {c : Nat} (h : GRel t s X fh fr) (hc : c ∈ (getG X t).refs) :
    GRel t s (decRef X t c) fh (fun l => (fr l).erase c) := by
  refine ⟨fun t' ht => ?_, ?_, ?_⟩
  · rw [getG_decRef hc, if_neg ht, heldOf_pcSame (pcSame_decRef X t c), refsOf_pcSame (pcSame_decRef X t c)]
    exact h.others t' ht
  · rw [getG_decRef hc, if_pos rfl]; simp [h.held]
  · rw [getG_decRef hc, if_pos rfl]; simp [h.refs]

theorem GRel.raise {t s X fh fr} (h : GRel t s X fh fr) (f : Flag) : GRel t s (raise X f) fh fr :=
  h.neutral (fun t' => by cases f <;> cases t' <;> rfl) (fun t' => by cases f <;> cases t' <;> rfl)
    (fun t' => by cases f <;> cases t' <;> rfl)
theorem GRel.raiseIf {t s X fh fr} (h : GRel t s X fh fr) (f : Flag) (b : Bool) : GRel t s (raiseIf X f b) fh fr := by
  unfold VncModel.Threads.raiseIf; split
  · exact h.raise f
  · exact h
theorem GRel.setN {t s X fh fr} (h : GRel t s X fh fr) (n : Nat) : GRel t s (setN X n) fh fr :=
  h.neutral (fun t' => by cases t' <;> rfl) (fun t' => by cases t' <;> rfl) (fun t' => by cases t' <;> rfl)
theorem GRel.setAapi {t s X fh fr} (h : GRel t s X fh fr) (a : Api) : GRel t s (setAapi X a) fh fr :=
  h.neutral (fun t' => by cases t' <;> rfl) (fun t' => by cases t' <;> rfl) (fun t' => by cases t' <;> rfl)
theorem GRel.setLisDown {t s X fh fr} (h : GRel t s X fh fr) : GRel t s (setLisDown X) fh fr :=
  h.neutral (fun t' => by cases t' <;> rfl) (fun t' => by cases t' <;> rfl) (fun t' => by cases t' <;> rfl)
theorem GRel.setLjoined {t s X fh fr} (h : GRel t s X fh fr) : GRel t s (setLjoined X) fh fr :=
  h.neutral (fun t' => by cases t' <;> rfl) (fun t' => by cases t' <;> rfl) (fun t' => by cases t' <;> rfl)
/-- the remembered-client list belongs to the application thread -/
theorem GRel.setAlk {s X fh fr} (h : GRel .app s X fh fr) (l : List Nat) : GRel .app s (setAlk X l) fh fr :=
  ⟨fun t' ht => by
      have := h.others t' ht
      cases t' with
      | app => exact absurd rfl ht
      | lis => exact this
      | inp d => exact this
      | out d => exact this,
   h.held, h.refs⟩

/-- the thread-local invariant after a step of thread `t`: the rest of the state was produced by
`GRel`, the last action sets t's program counter -/
theorem local_of {t : Tid} {s X s' : State} {fh fr} {H' : List Mx} {R' : List Nat}
    (hL : Local s) (hX : GRel t s X fh fr)
    (hg : ∀ t', getG s' t' = getG X t')
    (hn : ∀ t', t' ≠ t → heldOf s' t' = heldOf X t' ∧ refsOf s' t' = refsOf X t')
    (hH : heldOf s' t = H') (hR : refsOf s' t = R')
    (h1 : ∀ x, x ∈ fh (getG s t).held ↔ x ∈ H')
    (h2 : ∀ x, (fr (getG s t).refs).count x = R'.count x) : Local s' := by
  intro t'
  by_cases ht : t' = t
  · subst ht
    refine ⟨fun x => ?_, fun x => ?_⟩
    · rw [hg, hX.held, hH]; exact h1 x
    · rw [hg, hX.refs, hR]; exact h2 x
  · obtain ⟨e1, e2, e3⟩ := hX.others t' ht
    obtain ⟨e4, e5⟩ := hn t' ht
    refine ⟨fun x => ?_, fun x => ?_⟩
    · rw [hg, e1, e4, e2]; exact (hL t').1 x
    · rw [hg, e1, e5, e3]; exact (hL t').2 x

end VncModel.Threads
