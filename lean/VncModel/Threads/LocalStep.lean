import VncModel.Threads.Obs
/-! The thread-local invariant `Local` is inductive. -/
namespace VncModel.Threads

/-- `X` is obtained from `s` by steps of thread `t` that change t's ghost by `fh` / `fr` and nothing
that the thread-local invariant of the other threads depends on -/
structure GRel (t : Tid) (s X : State) (fh : List Mx → List Mx) (fr : List Nat → List Nat) : Prop where
  others : ∀ t', t' ≠ t → getG X t' = getG s t' ∧ heldOf X t' = heldOf s t' ∧ refsOf X t' = refsOf s t'
  held : (getG X t).held = fh (getG s t).held
  refs : (getG X t).refs = fr (getG s t).refs

theorem GRel.refl (t : Tid) (s : State) : GRel t s s id id :=
  ⟨fun _ _ => ⟨rfl, rfl, rfl⟩, rfl, rfl⟩

/-- a further step that changes neither ghosts nor program-counter tables -/
theorem GRel.neutral {t : Tid} {s X Y : State} {fh fr} (h : GRel t s X fh fr)
    (hg : ∀ t', getG Y t' = getG X t') (hh : ∀ t', heldOf Y t' = heldOf X t') (hr : ∀ t', refsOf Y t' = refsOf X t') :
    GRel t s Y fh fr :=
  ⟨fun t' ht => by rw [hg, hh, hr]; exact h.others t' ht, by rw [hg]; exact h.held, by rw [hg]; exact h.refs⟩

theorem GRel.touch {t s X fh fr} (h : GRel t s X fh fr) (c : Nat) : GRel t s (touch X c) fh fr :=
  h.neutral (fun _ => getG_touch _ _ _) (fun t' => heldOf_pcSame (pcSame_touch X c) t') (fun t' => refsOf_pcSame (pcSame_touch X c) t')

theorem GRel.updCl {t s X fh fr} (h : GRel t s X fh fr) (c : Nat) (f : Client → Client) (hb : Benign f) (hk : KeepsPc f) :
    GRel t s (updCl X c f) fh fr :=
  h.neutral (fun t' => getG_updCl X c f hb t') (fun t' => heldOf_pcSame (pcSame_updCl X c f hk) t')
    (fun t' => refsOf_pcSame (pcSame_updCl X c f hk) t')

theorem GRel.signalU {t s X fh fr} (h : GRel t s X fh fr) (c : Nat) : GRel t s (signalU X c) fh fr :=
  h.neutral (fun _ => getG_signalU _ _ _) (fun _ => heldOf_signalU _ _ _) (fun _ => refsOf_signalU _ _ _)

theorem heldC_wake (c : Nat) (alk : List Nat) : heldC (.gone .wakeD c) alk = heldC (.gone .blocked c) alk := rfl
theorem refsC_wake (c : Nat) (alk : List Nat) : refsC (.gone .wakeD c) alk = refsC (.gone .blocked c) alk := rfl

@[simp] theorem heldOf_signalD (s : State) (c : Nat) (t : Tid) : heldOf (signalD s c) t = heldOf s t := by
  unfold signalD
  simp only []
  have e1 : ∀ X : State, (X.cl c).ipc = .g .blocked → heldOf (setI X c (.g .wakeD)) t = heldOf X t := by
    intro X hX; rw [heldOf_setI]; split
    · rename_i ht; subst ht; simp [heldOf, hX, heldI, heldG]
    · rfl
  have e2 : ∀ X : State, X.apc = .gone .blocked c → heldOf (setC X .app (.gone .wakeD c)) t = heldOf X t := by
    intro X hX; rw [heldOf_setC]; simp only []; split
    · rename_i ht; subst ht; simp [heldOf, hX, heldC, heldG]
    · rfl
  have e3 : ∀ X : State, X.lpc = .gone .blocked c → heldOf (setC X .lis (.gone .wakeD c)) t = heldOf X t := by
    intro X hX; rw [heldOf_setC]; simp only []; split
    · rename_i ht; subst ht; simp [heldOf, hX, heldC, heldG]
    · rfl
  split <;> split <;> split <;> simp_all

@[simp] theorem refsOf_signalD (s : State) (c : Nat) (t : Tid) : refsOf (signalD s c) t = refsOf s t := by
  unfold signalD
  simp only []
  have e1 : ∀ X : State, refsOf (setI X c (.g .wakeD)) t = refsOf X t := fun X => refsOf_setI X c _ t
  have e2 : ∀ X : State, X.apc = .gone .blocked c → refsOf (setC X .app (.gone .wakeD c)) t = refsOf X t := by
    intro X hX; rw [refsOf_setC]; simp only []; split
    · rename_i ht; subst ht; simp [refsOf, hX, refsC]
    · rfl
  have e3 : ∀ X : State, X.lpc = .gone .blocked c → refsOf (setC X .lis (.gone .wakeD c)) t = refsOf X t := by
    intro X hX; rw [refsOf_setC]; simp only []; split
    · rename_i ht; subst ht; simp [refsOf, hX, refsC]
    · rfl
  split <;> split <;> split <;> simp_all

theorem GRel.signalD {t s X fh fr} (h : GRel t s X fh fr) (c : Nat) : GRel t s (signalD X c) fh fr :=
  h.neutral (fun _ => getG_signalD _ _ _) (fun _ => heldOf_signalD _ _ _) (fun _ => refsOf_signalD _ _ _)

theorem GRel.lock {t s X a fh fr} {m : MCls} {c : Nat} (h : GRel t s X fh fr) (hl : doLock X t m c = some a) :
    GRel t s a (fun l => mkey m c :: fh l) fr := by
  refine ⟨fun t' ht => ?_, ?_, ?_⟩
  · rw [getG_doLock hl, if_neg ht, heldOf_pcSame (pcSame_doLock hl), refsOf_pcSame (pcSame_doLock hl)]
    exact h.others t' ht
  · rw [getG_doLock hl, if_pos rfl]; simp [h.held]
  · rw [getG_doLock hl, if_pos rfl]; simp [h.refs]

theorem GRel.unlock {t s X fh fr} {m : MCls} {c : Nat} (h : GRel t s X fh fr) (ho : own X m c = some t) :
    GRel t s (doUnlock X t m c) (fun l => (fh l).erase (mkey m c)) fr := by
  refine ⟨fun t' ht => ?_, ?_, ?_⟩
  · rw [getG_doUnlock ho, if_neg ht, heldOf_pcSame (pcSame_doUnlock X t m c), refsOf_pcSame (pcSame_doUnlock X t m c)]
    exact h.others t' ht
  · rw [getG_doUnlock ho, if_pos rfl]; simp [h.held]
  · rw [getG_doUnlock ho, if_pos rfl]; simp [h.refs]

theorem GRel.inc {t s X fh fr} (h : GRel t s X fh fr) (c : Nat) :
    GRel t s (incRef X t c) fh (fun l => c :: fr l) := by
  refine ⟨fun t' ht => ?_, ?_, ?_⟩
  · rw [getG_incRef, if_neg ht, heldOf_pcSame (pcSame_incRef X t c), refsOf_pcSame (pcSame_incRef X t c)]
    exact h.others t' ht
  · rw [getG_incRef, if_pos rfl]; simp [h.held]
  · rw [getG_incRef, if_pos rfl]; simp [h.refs]

theorem GRel.dec {t s X fh fr} {c : Nat} (h : GRel t s X fh fr) (hc : c ∈ (getG X t).refs) :
    GRel t s (decRef X t c) fh (fun l => (fr l).erase c) := by
  refine ⟨fun t' ht => ?_, ?_, ?_⟩
  · rw [getG_decRef hc, if_neg ht, heldOf_pcSame (pcSame_decRef X t c), refsOf_pcSame (pcSame_decRef X t c)]
    exact h.others t' ht
  · rw [getG_decRef hc, if_pos rfl]; simp [h.held]
  · rw [getG_decRef hc, if_pos rfl]; simp [h.refs]

theorem GRel.raise {t s X fh fr} (h : GRel t s X fh fr) (f : Flag) : GRel t s (raise X f) fh fr :=
  h.neutral (fun t' => by cases f <;> cases t' <;> rfl) (fun t' => by cases f <;> cases t' <;> rfl)
    (fun t' => by cases f <;> cases t' <;> rfl)
theorem GRel.raiseIf {t s X fh fr} (h : GRel t s X fh fr) (f : Flag) (b : Bool) : GRel t s (raiseIf X f b) fh fr := by
  unfold VncModel.Threads.raiseIf; split
  · exact h.raise f
  · exact h
theorem GRel.setN {t s X fh fr} (h : GRel t s X fh fr) (n : Nat) : GRel t s (setN X n) fh fr :=
  h.neutral (fun t' => by cases t' <;> rfl) (fun t' => by cases t' <;> rfl) (fun t' => by cases t' <;> rfl)
theorem GRel.setAapi {t s X fh fr} (h : GRel t s X fh fr) (a : Api) : GRel t s (setAapi X a) fh fr :=
  h.neutral (fun t' => by cases t' <;> rfl) (fun t' => by cases t' <;> rfl) (fun t' => by cases t' <;> rfl)
theorem GRel.setLisDown {t s X fh fr} (h : GRel t s X fh fr) : GRel t s (setLisDown X) fh fr :=
  h.neutral (fun t' => by cases t' <;> rfl) (fun t' => by cases t' <;> rfl) (fun t' => by cases t' <;> rfl)
theorem GRel.setLjoined {t s X fh fr} (h : GRel t s X fh fr) : GRel t s (setLjoined X) fh fr :=
  h.neutral (fun t' => by cases t' <;> rfl) (fun t' => by cases t' <;> rfl) (fun t' => by cases t' <;> rfl)
/-- the remembered-client list belongs to the application thread -/
theorem GRel.setAlk {s X fh fr} (h : GRel .app s X fh fr) (l : List Nat) : GRel .app s (setAlk X l) fh fr :=
  ⟨fun t' ht => by
      have := h.others t' ht
      cases t' with
      | app => exact absurd rfl ht
      | lis => exact this
      | inp d => exact this
      | out d => exact this,
   h.held, h.refs⟩

/-- the thread-local invariant after a step of thread `t`: the rest of the state was produced by
`GRel`, the last action sets t's program counter -/
theorem local_of {t : Tid} {s X s' : State} {fh fr} {H' : List Mx} {R' : List Nat}
    (hL : Local s) (hX : GRel t s X fh fr)
    (hg : ∀ t', getG s' t' = getG X t')
    (hn : ∀ t', t' ≠ t → heldOf s' t' = heldOf X t' ∧ refsOf s' t' = refsOf X t')
    (hH : heldOf s' t = H') (hR : refsOf s' t = R')
    (h1 : ∀ x, (fh (getG s t).held).count x = H'.count x)
    (h2 : ∀ x, (fr (getG s t).refs).count x = R'.count x) : Local s' := by
  intro t'
  by_cases ht : t' = t
  · subst ht
    refine ⟨fun x => ?_, fun x => ?_⟩
    · rw [hg, hX.held, hH]; exact h1 x
    · rw [hg, hX.refs, hR]; exact h2 x
  · obtain ⟨e1, e2, e3⟩ := hX.others t' ht
    obtain ⟨e4, e5⟩ := hn t' ht
    refine ⟨fun x => ?_, fun x => ?_⟩
    · rw [hg, e1, e4, e2]; exact (hL t').1 x
    · rw [hg, e1, e5, e3]; exact (hL t').2 x

/-! ### more `GRel` steps: a thread's program counter is set by another thread only when the thread
is created or woken; its tables do not change then -/
theorem GRel.setAlkT {s X fh fr} {t : Tid} (h : GRel t s X fh fr) (l : List Nat) : GRel t s (setAlkT X t l) fh fr := by
  unfold VncModel.Threads.setAlkT; split
  · rename_i ht; subst ht; exact h.setAlk l
  · exact h

theorem GRel.setO_idle {t s X fh fr} (h : GRel t s X fh fr) (c : Nat) (pc : OPc)
    (h1 : heldO pc c = heldO (X.cl c).opc c) (h2 : refsO pc c = refsO (X.cl c).opc c) :
    GRel t s (setO X c pc) fh fr :=
  h.neutral (fun _ => getG_setO _ _ _ _)
    (fun t' => by rw [heldOf_setO]; split
                  · rename_i ht; subst ht; simp [heldOf, h1]
                  · rfl)
    (fun t' => by rw [refsOf_setO]; split
                  · rename_i ht; subst ht; simp [refsOf, h2]
                  · rfl)

theorem GRel.setI_idle {t s X fh fr} (h : GRel t s X fh fr) (c : Nat) (pc : IPc)
    (h1 : heldI pc c = heldI (X.cl c).ipc c) : GRel t s (setI X c pc) fh fr :=
  h.neutral (fun _ => getG_setI _ _ _ _)
    (fun t' => by rw [heldOf_setI]; split
                  · rename_i ht; subst ht; simp [heldOf, h1]
                  · rfl)
    (fun t' => refsOf_setI _ _ _ _)

theorem GRel.setLis_idle {t s X fh fr} (h : GRel t s X fh fr) (pc : CPc)
    (h1 : heldC pc [] = heldC X.lpc []) (h2 : refsC pc [] = refsC X.lpc []) :
    GRel t s (setC X .lis pc) fh fr :=
  h.neutral (fun _ => getG_setC _ _ _ _)
    (fun t' => by cases t' <;> simp [heldOf, setC, h1])
    (fun t' => by cases t' <;> simp [refsOf, setC, h2])

/-! the remembered-client list under the primitives -/
@[simp] theorem alk_doUnlock (s : State) (t : Tid) (m : MCls) (c : Nat) : (doUnlock s t m c).alk = s.alk :=
  (pcSame_doUnlock s t m c).2.2.1
theorem alk_doLock {s a : State} {t : Tid} {m : MCls} {c : Nat} (h : doLock s t m c = some a) : a.alk = s.alk :=
  (pcSame_doLock h).2.2.1
@[simp] theorem alk_incRef (s : State) (t : Tid) (c : Nat) : (incRef s t c).alk = s.alk := (pcSame_incRef s t c).2.2.1
@[simp] theorem alk_decRef (s : State) (t : Tid) (c : Nat) : (decRef s t c).alk = s.alk := (pcSame_decRef s t c).2.2.1
@[simp] theorem alk_setAlkT_app (s : State) (l : List Nat) : (setAlkT s .app l).alk = l := rfl
@[simp] theorem alk_setAlkT_lis (s : State) (l : List Nat) : (setAlkT s .lis l).alk = s.alk := rfl
@[simp] theorem alk_raise (s : State) (f : Flag) : (raise s f).alk = s.alk := by cases f <;> rfl
@[simp] theorem alk_raiseIf (s : State) (f : Flag) (b : Bool) : (raiseIf s f b).alk = s.alk := by
  unfold raiseIf; split <;> simp
@[simp] theorem alk_setN (s : State) (n : Nat) : (setN s n).alk = s.alk := rfl
@[simp] theorem alk_setAapi (s : State) (a : Api) : (setAapi s a).alk = s.alk := rfl
@[simp] theorem alk_setLisDown (s : State) : (setLisDown s).alk = s.alk := rfl
@[simp] theorem alk_setLjoined (s : State) : (setLjoined s).alk = s.alk := rfl
@[simp] theorem alk_setI (s : State) (c : Nat) (pc : IPc) : (setI s c pc).alk = s.alk := rfl
@[simp] theorem alk_setO (s : State) (c : Nat) (pc : OPc) : (setO s c pc).alk = s.alk := rfl
@[simp] theorem alk_signalU (s : State) (c : Nat) : (signalU s c).alk = s.alk := by unfold signalU; split <;> simp
@[simp] theorem alk_signalD (s : State) (c : Nat) : (signalD s c).alk = s.alk := by
  unfold signalD; simp only []; split <;> split <;> split <;> simp

/-! ### legitimacy of unlock / decrement sites -/
theorem own_of_local {s : State} (hO : OwnInv s) (hL : Local s) {t : Tid} {m : MCls} {c : Nat}
    (h : mkey m c ∈ heldOf s t) : own s m c = some t := by
  refine (hO.own_iff t m c).2 ?_
  have := (hL t).1 (mkey m c)
  have hp : 0 < (heldOf s t).count (mkey m c) := List.count_pos_iff.2 h
  exact List.count_pos_iff.1 (by omega)

theorem drop_of_getElem? {l : List Nat} {i c : Nat} (h : l[i]? = some c) : l.drop i = c :: l.drop (i + 1) := by
  obtain ⟨hi, rfl⟩ := List.getElem?_eq_some_iff.1 h
  exact List.drop_eq_getElem_cons hi

theorem mem_refs_of_local {s : State} (hL : Local s) {t : Tid} {c : Nat} (h : c ∈ refsOf s t) :
    c ∈ (getG s t).refs := by
  have := (hL t).2 c
  have hp : 0 < (refsOf s t).count c := List.count_pos_iff.2 h
  exact List.count_pos_iff.1 (by omega)

theorem refs_doLock {s a : State} {t : Tid} {m : MCls} {c : Nat} (hl : doLock s t m c = some a) (t' : Tid) :
    (getG a t').refs = (getG s t').refs := by
  rw [getG_doLock hl]; split
  · rename_i h; subst h; rfl
  · rfl

/-- build the `GRel` for the inner state of a transition -/
macro "grel" hO:ident hL:ident : tactic => `(tactic| repeat' (first
  | (with_reducible exact GRel.refl _ _)
  | (with_reducible apply GRel.touch)
  | (with_reducible apply GRel.signalU)
  | (with_reducible apply GRel.signalD)
  | (with_reducible apply GRel.inc)
  | (with_reducible apply GRel.raise)
  | (with_reducible apply GRel.raiseIf)
  | (with_reducible apply GRel.setN)
  | (with_reducible apply GRel.setAapi)
  | (with_reducible apply GRel.setLisDown)
  | (with_reducible apply GRel.setLjoined)
  | (with_reducible apply GRel.setAlkT)
  | (with_reducible apply GRel.lock (hl := ‹doLock _ _ _ _ = some _›))
  | (with_reducible apply GRel.unlock)
  | (with_reducible apply GRel.dec)
  | (with_reducible apply GRel.updCl)
  | (with_reducible apply GRel.setO_idle)
  | (with_reducible apply GRel.setI_idle)
  | (with_reducible apply GRel.setLis_idle)
  | (intro x; simp; done)
  | (intro x; simp [Client.fresh]; done)
  | exact own_of_local $hO $hL (by simp [heldOf, heldO, heldI, heldC, heldG, heldIt, bodyHeld, procHeld, mkey, MCls.perClient, mL, mC, getC, *])
  | (rw [refs_doLock ‹doLock _ _ _ _ = some _›]; exact mem_refs_of_local $hL (by simp [refsOf, refsO, refsC, refsIt, bodyRefs, procRefs, getC, *]))
  | (simp [heldO, refsO, heldI, heldC, refsC, heldG, *]; done)))

macro "tablesH" hO:ident hL:ident : tactic => `(tactic| (
  intro x
  simp only [id, List.count_cons, List.count_erase,
    (($hL) _).1 x, heldOf, heldO, heldI, heldG, heldC, heldIt, bodyHeld, procHeld, mkey, MCls.perClient, mL, mC, getC,
    finished, nextIter, afterNext, alk_doUnlock, alk_incRef, alk_decRef, alk_setAlkT_app, alk_setAlkT_lis, alk_raise,
    alk_raiseIf, alk_setN, alk_setAapi, alk_setLisDown, alk_setLjoined, alk_setI, alk_setO, alk_signalU, alk_signalD,
    touch_alk, updCl_alk, *]
  first | done | (simp; done) | grind | (repeat' split) <;> (first | done | (simp; done) | grind)))

macro "tablesR" hL:ident : tactic => `(tactic| (
  intro x
  simp only [id, List.count_cons, List.count_erase,
    (($hL) _).2 x, refsOf, refsO, refsC, refsIt, bodyRefs, procRefs, getC, finished, nextIter, afterNext,
    alk_doUnlock, alk_incRef, alk_decRef, alk_setAlkT_app, alk_setAlkT_lis, alk_raise,
    alk_raiseIf, alk_setN, alk_setAapi, alk_setLisDown, alk_setLjoined, alk_setI, alk_setO, alk_signalU, alk_signalD,
    touch_alk, updCl_alk, *]
  first | done | (simp; done) | grind | (repeat' split) <;> (first | done | (simp; done) | grind)))

macro "local_step_out" hO:ident hL:ident : tactic => `(tactic| (
  subst_vars
  apply local_of (t := Tid.out _) $hL
  case hg => exact fun t' => getG_setO _ _ _ _
  case hn => exact fun t' ht => ⟨by rw [heldOf_setO, if_neg ht], by rw [refsOf_setO, if_neg ht]⟩
  case hH => rw [heldOf_setO, if_pos rfl]
  case hR => rw [refsOf_setO, if_pos rfl]
  case hX => grel $hO $hL
  case h1 => tablesH $hO $hL
  case h2 => tablesR $hL))

theorem local_out {s : State} {c : Nat} {l : Lbl} {s' : State} (hO : OwnInv s) (hL : Local s)
    (hs : (l, s') ∈ outSucc s c) : Local s' := by
  unfold outSucc at hs
  split at hs
  all_goals (try unfold storeSt at hs)
  all_goals (try simp only [] at hs)
  all_goals (try split at hs)
  all_goals first
    | (simp at hs; done)
    | (simp at hs; crack_hyps; all_goals (local_step_out hO hL))

macro "local_step_inp" hO:ident hL:ident : tactic => `(tactic| (
  subst_vars
  apply local_of (t := Tid.inp _) $hL
  case hg => exact fun t' => getG_setI _ _ _ _
  case hn => exact fun t' ht => ⟨by rw [heldOf_setI, if_neg ht], by rw [refsOf_setI]⟩
  case hH => rw [heldOf_setI, if_pos rfl]
  case hR => rfl
  case hX => grel $hO $hL
  case h1 => tablesH $hO $hL
  case h2 => tablesR $hL))

theorem local_inp {s : State} {c : Nat} {l : Lbl} {s' : State} (hO : OwnInv s) (hL : Local s)
    (hs : (l, s') ∈ inpSucc s c) : Local s' := by
  unfold inpSucc at hs
  split at hs
  all_goals (try unfold storeSt at hs)
  all_goals (try unfold goneSucc at hs)
  all_goals (try simp only [] at hs)
  all_goals (try split at hs)
  all_goals (try split at hs)
  all_goals first
    | (simp at hs; done)
    | (simp at hs; crack_hyps; all_goals (local_step_inp hO hL))

theorem heldOf_setC_app_ne (X : State) (pc : CPc) (t' : Tid) (h : t' ≠ .app) :
    heldOf (setC X .app pc) t' = heldOf X t' ∧ refsOf (setC X .app pc) t' = refsOf X t' := by
  cases t' with
  | app => exact absurd rfl h
  | _ => exact ⟨rfl, rfl⟩
theorem heldOf_setC_lis_ne (X : State) (pc : CPc) (t' : Tid) (h : t' ≠ .lis) :
    heldOf (setC X .lis pc) t' = heldOf X t' ∧ refsOf (setC X .lis pc) t' = refsOf X t' := by
  cases t' with
  | lis => exact absurd rfl h
  | _ => exact ⟨rfl, rfl⟩

theorem heldOf_setC_app (X : State) (pc : CPc) : heldOf (setC X .app pc) .app = heldC pc X.alk := rfl
theorem refsOf_setC_app (X : State) (pc : CPc) : refsOf (setC X .app pc) .app = refsC pc X.alk := rfl
theorem heldOf_setC_lis (X : State) (pc : CPc) : heldOf (setC X .lis pc) .lis = heldC pc [] := rfl
theorem refsOf_setC_lis (X : State) (pc : CPc) : refsOf (setC X .lis pc) .lis = refsC pc [] := rfl

macro "local_step_app" hO:ident hL:ident : tactic => `(tactic| (
  subst_vars
  try (have halk := alk_doLock ‹doLock _ _ _ _ = some _›)
  try (have hdrop := drop_of_getElem? ‹(_ : List Nat)[_]? = some _›)
  apply local_of (t := Tid.app) $hL
  case hg => exact fun t' => getG_setC _ _ _ _
  case hn => exact fun t' ht => heldOf_setC_app_ne _ _ t' ht
  case hH => exact heldOf_setC_app _ _
  case hR => exact refsOf_setC_app _ _
  case hX => grel $hO $hL
  case h1 => tablesH $hO $hL
  case h2 => tablesR $hL))

macro "local_step_lis" hO:ident hL:ident : tactic => `(tactic| (
  subst_vars
  apply local_of (t := Tid.lis) $hL
  case hg => exact fun t' => getG_setC _ _ _ _
  case hn => exact fun t' ht => heldOf_setC_lis_ne _ _ t' ht
  case hH => exact heldOf_setC_lis _ _
  case hR => exact refsOf_setC_lis _ _
  case hX => grel $hO $hL
  case h1 => tablesH $hO $hL
  case h2 => tablesR $hL))


theorem local_iter_app_lockL {s : State} {p : Proc} {prev nxt : Option Nat} {l : Lbl} {s' : State}
    (hO : OwnInv s) (hL : Local s) (hpc : s.apc = .iter p .lockL prev nxt)
    (hs : (l, s') ∈ iterSucc s .app p .lockL prev nxt) : Local s' := by
  simp only [iterSucc] at hs
  repeat' (split at hs)
  all_goals (try simp only [] at hs)
  all_goals first
    | (simp at hs; done)
    | (simp at hs; crack_hyps; all_goals (local_step_app hO hL))
    | (cases p <;> cases nxt <;> simp [afterNext, finished] at hs <;> crack_hyps <;> local_step_app hO hL)

theorem local_iter_app_incLock {s : State} {p : Proc} {prev nxt : Option Nat} {l : Lbl} {s' : State}
    (hO : OwnInv s) (hL : Local s) (hpc : s.apc = .iter p .incLock prev nxt)
    (hs : (l, s') ∈ iterSucc s .app p .incLock prev nxt) : Local s' := by
  simp only [iterSucc] at hs
  repeat' (split at hs)
  all_goals (try simp only [] at hs)
  all_goals first
    | (simp at hs; done)
    | (simp at hs; crack_hyps; all_goals (local_step_app hO hL))
    | (cases p <;> cases nxt <;> simp [afterNext, finished] at hs <;> crack_hyps <;> local_step_app hO hL)

theorem local_iter_app_incUnlock {s : State} {p : Proc} {prev nxt : Option Nat} {l : Lbl} {s' : State}
    (hO : OwnInv s) (hL : Local s) (hpc : s.apc = .iter p .incUnlock prev nxt)
    (hs : (l, s') ∈ iterSucc s .app p .incUnlock prev nxt) : Local s' := by
  simp only [iterSucc] at hs
  repeat' (split at hs)
  all_goals (try simp only [] at hs)
  all_goals first
    | (simp at hs; done)
    | (simp at hs; crack_hyps; all_goals (local_step_app hO hL))
    | (cases p <;> cases nxt <;> simp [afterNext, finished] at hs <;> crack_hyps <;> local_step_app hO hL)

theorem local_iter_app_unlockL {s : State} {p : Proc} {prev nxt : Option Nat} {l : Lbl} {s' : State}
    (hO : OwnInv s) (hL : Local s) (hpc : s.apc = .iter p .unlockL prev nxt)
    (hs : (l, s') ∈ iterSucc s .app p .unlockL prev nxt) : Local s' := by
  simp only [iterSucc] at hs
  repeat' (split at hs)
  all_goals (try simp only [] at hs)
  all_goals first
    | (simp at hs; done)
    | (simp at hs; crack_hyps; all_goals (local_step_app hO hL))
    | (cases p <;> cases nxt <;> simp [afterNext, finished] at hs <;> crack_hyps <;> local_step_app hO hL)

theorem local_iter_app_decLock {s : State} {p : Proc} {prev nxt : Option Nat} {l : Lbl} {s' : State}
    (hO : OwnInv s) (hL : Local s) (hpc : s.apc = .iter p .decLock prev nxt)
    (hs : (l, s') ∈ iterSucc s .app p .decLock prev nxt) : Local s' := by
  simp only [iterSucc] at hs
  repeat' (split at hs)
  all_goals (try simp only [] at hs)
  all_goals first
    | (simp at hs; done)
    | (simp at hs; crack_hyps; all_goals (local_step_app hO hL))
    | (cases p <;> cases nxt <;> simp [afterNext, finished] at hs <;> crack_hyps <;> local_step_app hO hL)

theorem local_iter_app_decSignal {s : State} {p : Proc} {prev nxt : Option Nat} {l : Lbl} {s' : State}
    (hO : OwnInv s) (hL : Local s) (hpc : s.apc = .iter p .decSignal prev nxt)
    (hs : (l, s') ∈ iterSucc s .app p .decSignal prev nxt) : Local s' := by
  simp only [iterSucc] at hs
  repeat' (split at hs)
  all_goals (try simp only [] at hs)
  all_goals first
    | (simp at hs; done)
    | (simp at hs; crack_hyps; all_goals (local_step_app hO hL))
    | (cases p <;> cases nxt <;> simp [afterNext, finished] at hs <;> crack_hyps <;> local_step_app hO hL)

theorem local_iter_app_decUnlock {s : State} {p : Proc} {prev nxt : Option Nat} {l : Lbl} {s' : State}
    (hO : OwnInv s) (hL : Local s) (hpc : s.apc = .iter p .decUnlock prev nxt)
    (hs : (l, s') ∈ iterSucc s .app p .decUnlock prev nxt) : Local s' := by
  simp only [iterSucc] at hs
  repeat' (split at hs)
  all_goals (try simp only [] at hs)
  all_goals first
    | (simp at hs; done)
    | (simp at hs; crack_hyps; all_goals (local_step_app hO hL))
    | (cases p <;> cases nxt <;> simp [afterNext, finished] at hs <;> crack_hyps <;> local_step_app hO hL)

theorem local_iter_app {s : State} {p : Proc} {st : ISt} {prev nxt : Option Nat} {l : Lbl} {s' : State}
    (hO : OwnInv s) (hL : Local s) (hpc : s.apc = .iter p st prev nxt)
    (hs : (l, s') ∈ iterSucc s .app p st prev nxt) : Local s' := by
  cases st
  · exact local_iter_app_lockL hO hL hpc hs
  · exact local_iter_app_incLock hO hL hpc hs
  · exact local_iter_app_incUnlock hO hL hpc hs
  · exact local_iter_app_unlockL hO hL hpc hs
  · exact local_iter_app_decLock hO hL hpc hs
  · exact local_iter_app_decSignal hO hL hpc hs
  · exact local_iter_app_decUnlock hO hL hpc hs

theorem local_body_app {s : State} {p : Proc} {k c : Nat} {l : Lbl} {s' : State}
    (hO : OwnInv s) (hL : Local s) (hpc : s.apc = .body p k c)
    (hs : (l, s') ∈ bodySucc s .app p k c) : Local s' := by
  unfold bodySucc at hs
  split at hs
  all_goals (try simp only [] at hs)
  all_goals first
    | (simp at hs; done)
    | (simp at hs; crack_hyps; all_goals (local_step_app hO hL))

theorem local_close_app {s : State} {p : Proc} {k : KSt} {c : Nat} {l : Lbl} {s' : State}
    (hO : OwnInv s) (hL : Local s) (hpc : s.apc = .close p k c)
    (hs : (l, s') ∈ closeSucc s .app p k c) : Local s' := by
  unfold closeSucc at hs
  split at hs
  all_goals (try unfold storeSt at hs)
  all_goals (try simp only [] at hs)
  all_goals (try split at hs)
  all_goals first
    | (simp at hs; done)
    | (simp at hs; crack_hyps; all_goals (local_step_app hO hL))

theorem local_cr_app {s : State} {st : CrSt} {c : Nat} {l : Lbl} {s' : State}
    (hO : OwnInv s) (hL : Local s) (hpc : s.apc = .cr st c)
    (hs : (l, s') ∈ crSucc s .app st c) : Local s' := by
  unfold crSucc at hs
  split at hs
  all_goals (try unfold storeSt at hs)
  all_goals (try simp only [] at hs)
  all_goals (try split at hs)
  all_goals first
    | (simp at hs; done)
    | (simp at hs; crack_hyps; all_goals (local_step_app hO hL))

theorem local_gone_app {s : State} {g : GSt} {c : Nat} {l : Lbl} {s' : State}
    (hO : OwnInv s) (hL : Local s) (hpc : s.apc = .gone g c)
    (hs : (l, s') ∈ goneSucc s .app g c (fun s1 g1 => setC s1 .app (.gone g1 c)) (fun s1 => setC s1 .app (finished .app))) :
    Local s' := by
  unfold goneSucc at hs
  split at hs
  all_goals (try simp only [] at hs)
  all_goals (try split at hs)
  all_goals first
    | (simp at hs; done)
    | (simp at hs; crack_hyps; all_goals (local_step_app hO hL))

theorem local_iter_lis {s : State} {p : Proc} {st : ISt} {prev nxt : Option Nat} {l : Lbl} {s' : State}
    (hO : OwnInv s) (hL : Local s) (hpc : s.lpc = .iter p st prev nxt) (hp : p = .count)
    (hs : (l, s') ∈ iterSucc s .lis p st prev nxt) : Local s' := by
  subst hp
  unfold iterSucc at hs
  repeat' (split at hs)
  all_goals (try simp only [] at hs)
  all_goals first
    | (simp at hs; done)
    | (simp at hs; crack_hyps; all_goals (local_step_lis hO hL))
    | (cases nxt <;> simp [afterNext, finished] at hs <;> crack_hyps <;> local_step_lis hO hL)

theorem local_body_lis {s : State} {p : Proc} {k c : Nat} {l : Lbl} {s' : State}
    (hO : OwnInv s) (hL : Local s) (hpc : s.lpc = .body p k c) (hp : p = .count)
    (hs : (l, s') ∈ bodySucc s .lis p k c) : Local s' := by
  subst hp
  unfold bodySucc at hs
  split at hs
  all_goals (try simp only [] at hs)
  all_goals first
    | (simp at hs; done)
    | (simp at hs; crack_hyps; all_goals (local_step_lis hO hL))

theorem local_cr_lis {s : State} {st : CrSt} {c : Nat} {l : Lbl} {s' : State}
    (hO : OwnInv s) (hL : Local s) (hpc : s.lpc = .cr st c)
    (hs : (l, s') ∈ crSucc s .lis st c) : Local s' := by
  unfold crSucc at hs
  split at hs
  all_goals (try unfold storeSt at hs)
  all_goals (try simp only [] at hs)
  all_goals (try split at hs)
  all_goals first
    | (simp at hs; done)
    | (simp at hs; crack_hyps; all_goals (local_step_lis hO hL))

theorem local_gone_lis {s : State} {g : GSt} {c : Nat} {l : Lbl} {s' : State}
    (hO : OwnInv s) (hL : Local s) (hpc : s.lpc = .gone g c)
    (hs : (l, s') ∈ goneSucc s .lis g c (fun s1 g1 => setC s1 .lis (.gone g1 c)) (fun s1 => setC s1 .lis (finished .lis))) :
    Local s' := by
  unfold goneSucc at hs
  split at hs
  all_goals (try simp only [] at hs)
  all_goals (try split at hs)
  all_goals first
    | (simp at hs; done)
    | (simp at hs; crack_hyps; all_goals (local_step_lis hO hL))

theorem local_nf_lockC {s : State} {i : Nat} {l : Lbl} {s' : State}
    (hO : OwnInv s) (hL : Local s) (hpc : s.apc = .nf .lockC i)
    (hs : (l, s') ∈ nfSucc s .app .lockC i) : Local s' := by
  simp only [nfSucc] at hs
  simp at hs
  obtain ⟨a, hl, _, rfl⟩ := hs
  have halk := alk_doLock hl
  cases hk : s.alk with
  | nil =>
    have e : (if a.alk = [] then CPc.nf NSt.unlockC 0 else CPc.nf NSt.lockU 0) = CPc.nf NSt.unlockC 0 := by
      simp [halk, hk]
    rw [e]
    local_step_app hO hL
  | cons c r =>
    have h0 : s.alk[0]? = some c := by simp [hk]
    have e : (if a.alk = [] then CPc.nf NSt.unlockC 0 else CPc.nf NSt.lockU 0) = CPc.nf NSt.lockU 0 := by
      simp [halk, hk]
    rw [e]
    local_step_app hO hL

theorem local_nf_app {s : State} {st : NSt} {i : Nat} {l : Lbl} {s' : State}
    (hO : OwnInv s) (hL : Local s) (hpc : s.apc = .nf st i)
    (hs : (l, s') ∈ nfSucc s .app st i) : Local s' := by
  by_cases hst : st = .lockC
  · subst hst; exact local_nf_lockC hO hL hpc hs
  unfold nfSucc at hs
  repeat' (split at hs)
  all_goals (try simp only [] at hs)
  all_goals first
    | (simp at hs; done)
    | (exact absurd rfl hst)
    | (simp at hs; crack_hyps; all_goals (local_step_app hO hL))

theorem local_caller_app {s : State} {l : Lbl} {s' : State} (hO : OwnInv s) (hL : Local s)
    (hs : (l, s') ∈ callerSucc s .app) : Local s' := by
  unfold callerSucc at hs
  simp only [getC] at hs
  split at hs
  all_goals first
    | exact local_iter_app hO hL ‹_› hs
    | exact local_body_app hO hL ‹_› hs
    | exact local_close_app hO hL ‹_› hs
    | exact local_nf_app hO hL ‹_› hs
    | exact local_cr_app hO hL ‹_› hs
    | exact local_gone_app hO hL ‹_› hs
    | skip
  all_goals (try simp only [] at hs)
  all_goals (repeat' (split at hs))
  all_goals first
    | (simp at hs; done)
    | (simp at hs; crack_hyps; all_goals (local_step_app hO hL))

theorem local_caller_lis {s : State} {l : Lbl} {s' : State} (hO : OwnInv s) (hL : Local s)
    (hp : lisPc s.lpc = true) (hs : (l, s') ∈ callerSucc s .lis) : Local s' := by
  unfold callerSucc at hs
  simp only [getC] at hs
  split at hs
  all_goals first
    | exact local_iter_lis hO hL ‹_› (by simpa [lisPc, *] using hp) hs
    | exact local_body_lis hO hL ‹_› (by simpa [lisPc, *] using hp) hs
    | exact local_cr_lis hO hL ‹_› hs
    | exact local_gone_lis hO hL ‹_› hs
    | (exfalso; simp [lisPc, *] at hp; done)
    | skip
  all_goals (try simp only [] at hs)
  all_goals (repeat' (split at hs))
  all_goals first
    | (simp at hs; done)
    | (simp at hs; crack_hyps; all_goals (local_step_lis hO hL))

theorem local_init : Local State.init := by
  intro t; cases t <;> exact ⟨fun _ => rfl, fun _ => rfl⟩

/-- the thread-local invariant is inductive (given generic invariant 1) -/
theorem local_step {s s' : State} (hO : OwnInv s) (hL : Local s) (hs : Step s s') : Local s' := by
  obtain ⟨t, l, hm⟩ := hs
  cases t with
  | app => exact local_caller_app hO hL hm
  | lis =>
    simp only [succ] at hm
    split at hm
    · exact local_caller_lis hO hL ‹_› hm
    · simp at hm
  | inp c => exact local_inp hO hL hm
  | out c => exact local_out hO hL hm

theorem local_reach {s : State} (h : Reach s) : Local s := by
  induction h with
  | init => exact local_init
  | step hr hs ih => exact local_step (ownInv_reach hr) ih hs

end VncModel.Threads
