/-
C19 — lemmas: every effect of the file-transfer model happens under a permission test that has
just succeeded.  `Safe s`: the trace of `s` is guarded; `Hot s`: guarded and the most recent
permission test of this invocation succeeded.  One `Safe`/`Hot` transfer lemma per model function
(projection form, used by `grind`).
-/
import VncModel.FileXfer.Model

namespace VncModel.FileXfer

/-- result of the most recent permission test of the current invocation (trace newest first) -/
def lastChk : List Ev → Bool
  | [] => false
  | .chk b :: _ => b
  | .start :: _ => false
  | _ :: t => lastChk t

/-- every guarded event (file-system call other than a release, message to the client, zlib call on
transfer data) was emitted while the most recent permission test of its invocation had succeeded -/
def guardedB : List Ev → Bool
  | [] => true
  | e :: t => (!e.isGuarded || lastChk t) && guardedB t

def Safe (s : S) : Prop := guardedB s.evs = true
def Hot (s : S) : Prop := guardedB s.evs = true ∧ lastChk s.evs = true

@[grind →] theorem hot_imp_safe (s : S) : Hot s → Safe s := fun h => h.1

@[simp, grind =] theorem safe_setCl (f) (s : S) : Safe (setCl f s) ↔ Safe s := Iff.rfl
@[simp, grind =] theorem hot_setCl (f) (s : S) : Hot (setCl f s) ↔ Hot s := Iff.rfl
@[simp, grind =] theorem safe_setNextFd (k) (s : S) : Safe (setNextFd k s) ↔ Safe s := Iff.rfl
@[simp, grind =] theorem hot_setNextFd (k) (s : S) : Hot (setNextFd k s) ↔ Hot s := Iff.rfl
@[simp, grind =] theorem safe_bumpCalls (s : S) : Safe (bumpCalls s) ↔ Safe s := Iff.rfl
@[simp, grind =] theorem hot_bumpCalls (s : S) : Hot (bumpCalls s) ↔ Hot s := Iff.rfl
@[simp, grind =] theorem safe_setTight (f) (s : S) : Safe (setTight f s) ↔ Safe s := Iff.rfl
@[simp, grind =] theorem safe_setUp (f) (s : S) : Safe (setUp f s) ↔ Safe s := Iff.rfl
@[simp, grind =] theorem safe_setDn (f) (s : S) : Safe (setDn f s) ↔ Safe s := Iff.rfl
@[simp, grind =] theorem hot_setTight (f) (s : S) : Hot (setTight f s) ↔ Hot s := Iff.rfl
@[simp, grind =] theorem hot_setUp (f) (s : S) : Hot (setUp f s) ↔ Hot s := Iff.rfl
@[simp, grind =] theorem hot_setDn (f) (s : S) : Hot (setDn f s) ↔ Hot s := Iff.rfl
@[simp, grind =] theorem safe_endTransfer (s : S) : Safe (endTransfer s) ↔ Safe s := Iff.rfl
@[simp, grind =] theorem hot_endTransfer (s : S) : Hot (endTransfer s) ↔ Hot s := Iff.rfl

/-! emit -/
@[simp, grind =] theorem safe_emit_chk (b) (s : S) : Safe (emit (.chk b) s) ↔ Safe s := by
  simp [Safe, emit, guardedB, Ev.isGuarded]
@[simp, grind =] theorem hot_emit_chk (b) (s : S) : Hot (emit (.chk b) s) ↔ (b = true ∧ Safe s) := by
  simp [Safe, Hot, emit, guardedB, Ev.isGuarded, lastChk, and_comm]
@[simp, grind =] theorem safe_emit_start (s : S) : Safe (emit .start s) ↔ Safe s := by
  simp [Safe, emit, guardedB, Ev.isGuarded]
@[simp, grind =] theorem hot_emit_start (s : S) : Hot (emit .start s) ↔ False := by
  simp [Hot, emit, guardedB, Ev.isGuarded, lastChk]
@[simp, grind =] theorem safe_emit_q (b) (s : S) : Safe (emit (.q b) s) ↔ Safe s := by
  simp [Safe, emit, guardedB, Ev.isGuarded]
@[simp, grind =] theorem hot_emit_q (b) (s : S) : Hot (emit (.q b) s) ↔ Hot s := by
  simp [Hot, emit, guardedB, Ev.isGuarded, lastChk]
@[simp, grind =] theorem safe_emit_got (k) (s : S) : Safe (emit (.got k) s) ↔ Safe s := by
  simp [Safe, emit, guardedB, Ev.isGuarded]
@[simp, grind =] theorem hot_emit_got (k) (s : S) : Hot (emit (.got k) s) ↔ Hot s := by
  simp [Hot, emit, guardedB, Ev.isGuarded, lastChk]
@[simp, grind =] theorem safe_emit_dirOpened (s : S) : Safe (emit .dirOpened s) ↔ Safe s := by
  simp [Safe, emit, guardedB, Ev.isGuarded]
@[simp, grind =] theorem hot_emit_dirOpened (s : S) : Hot (emit .dirOpened s) ↔ Hot s := by
  simp [Hot, emit, guardedB, Ev.isGuarded, lastChk]
@[simp, grind =] theorem safe_emit_cc (s : S) : Safe (emit .closeConn s) ↔ Safe s := by
  simp [Safe, emit, guardedB, Ev.isGuarded]
@[simp, grind =] theorem hot_emit_cc (s : S) : Hot (emit .closeConn s) ↔ Hot s := by
  simp [Hot, emit, guardedB, Ev.isGuarded, lastChk]
@[simp, grind =] theorem safe_emit_envBad (w) (s : S) : Safe (emit (.envBad w) s) ↔ Safe s := by
  simp [Safe, emit, guardedB, Ev.isGuarded]
@[simp, grind =] theorem hot_emit_envBad (w) (s : S) : Hot (emit (.envBad w) s) ↔ Hot s := by
  simp [Hot, emit, guardedB, Ev.isGuarded, lastChk]
@[simp, grind =] theorem safe_emit_nonft (w) (s : S) : Safe (emit (.nonft w) s) ↔ Safe s := by
  simp [Safe, emit, guardedB, Ev.isGuarded]
@[simp, grind =] theorem safe_emit_cleanup (e r) (s : S) : Safe (emit (.cleanup e r) s) ↔ Safe s := by
  simp [Safe, emit, guardedB, Ev.isGuarded]
@[simp, grind =] theorem hot_emit_cleanup (e r) (s : S) : Hot (emit (.cleanup e r) s) ↔ Hot s := by
  simp [Hot, emit, guardedB, Ev.isGuarded, lastChk]
@[simp, grind =] theorem safe_emit_wire (w) (s : S) : Safe (emit (.wire w) s) ↔ Hot s := by
  simp [Safe, Hot, emit, guardedB, Ev.isGuarded, and_comm]
@[simp, grind =] theorem hot_emit_wire (w) (s : S) : Hot (emit (.wire w) s) ↔ Hot s := by
  simp only [Hot, emit, guardedB, Ev.isGuarded, lastChk]
  constructor
  · intro ⟨h1, h2⟩; simp_all
  · intro ⟨h1, h2⟩; simp_all
@[simp, grind =] theorem safe_emit_x (a b c) (s : S) : Safe (emit (.x a b c) s) ↔ Hot s := by
  simp [Safe, Hot, emit, guardedB, Ev.isGuarded, and_comm]
@[simp, grind =] theorem hot_emit_x (a b c) (s : S) : Hot (emit (.x a b c) s) ↔ Hot s := by
  simp only [Hot, emit, guardedB, Ev.isGuarded, lastChk]
  constructor
  · intro ⟨h1, h2⟩; simp_all
  · intro ⟨h1, h2⟩; simp_all
/-- a file-system call: a release needs nothing, anything else needs a hot state -/
@[simp, grind =] theorem safe_emit_fs (e r) (s : S) :
    Safe (emit (.fs e r) s) ↔ (if e.isRelease then Safe s else Hot s) := by
  cases h : e.isRelease <;> simp [Safe, Hot, emit, guardedB, Ev.isGuarded, h, and_comm]
@[simp, grind =] theorem hot_emit_fs (e r) (s : S) : Hot (emit (.fs e r) s) ↔ Hot s := by
  simp only [Hot, emit, guardedB, Ev.isGuarded, lastChk]
  constructor
  · intro ⟨h1, h2⟩; simp_all
  · intro ⟨h1, h2⟩; simp_all

@[simp, grind =] theorem twire_safe (w) (s : S) : Safe (twire w s) ↔ Hot s := by simp [twire]
@[simp, grind =] theorem twire_hot (w) (s : S) : Hot (twire w s) ↔ Hot s := by simp [twire]

/-! popTok and the scripted libc calls -/
@[simp, grind =] theorem popTok_safe (s : S) : Safe (popTok s).2 ↔ Safe s := by
  unfold popTok; split <;> rfl
@[simp, grind =] theorem popTok_hot (s : S) : Hot (popTok s).2 ↔ Hot s := by
  unfold popTok; split <;> rfl

@[simp, grind =] theorem doClose_safe (t k) (s : S) : Safe (doClose t k s) ↔ Safe s := by
  unfold doClose; split <;> simp [FsEffect.isRelease]
@[simp, grind =] theorem doClose_hot (t k) (s : S) : Hot (doClose t k s) ↔ Hot s := by
  unfold doClose; split <;> simp

@[simp, grind =] theorem doSimple_hot (t e) (s : S) : Hot (doSimple t e s).2 ↔ Hot s := by
  unfold doSimple; grind
/-- teardown calls are `cleanup` events: no permission needed -/
@[simp, grind =] theorem doSimple_safe_td (e) (s : S) : Safe (doSimple true e s).2 ↔ Safe s := by
  unfold doSimple; grind
@[simp] theorem doSimple_safe (e) (s : S) :
    Safe (doSimple false e s).2 ↔ (if e.isRelease then Safe s else Hot s) := by
  unfold doSimple; cases h : e.isRelease <;> grind

@[simp, grind =] theorem doOpen_safe (p m) (s : S) : Safe (doOpen p m s).2 ↔ Hot s := by
  unfold doOpen; grind [FsEffect.isRelease]
@[simp, grind =] theorem doOpen_hot (p m) (s : S) : Hot (doOpen p m s).2 ↔ Hot s := by
  unfold doOpen; grind
@[simp, grind =] theorem doFstat_safe (k) (s : S) : Safe (doFstat k s).2 ↔ Hot s := by
  unfold doFstat; grind [FsEffect.isRelease]
@[simp, grind =] theorem doFstat_hot (k) (s : S) : Hot (doFstat k s).2 ↔ Hot s := by
  unfold doFstat; grind
@[simp, grind =] theorem doRead_safe (k) (s : S) : Safe (doRead k s).2 ↔ Hot s := by
  unfold doRead; grind [FsEffect.isRelease]
@[simp, grind =] theorem doRead_hot (k) (s : S) : Hot (doRead k s).2 ↔ Hot s := by
  unfold doRead; grind
@[simp, grind =] theorem doWrite_safe (k n h) (s : S) : Safe (doWrite k n h s).2 ↔ Hot s := by
  unfold doWrite; grind [FsEffect.isRelease]
@[simp, grind =] theorem doWrite_hot (k n h) (s : S) : Hot (doWrite k n h s).2 ↔ Hot s := by
  unfold doWrite; grind
@[simp, grind =] theorem doOpendir_safe (p) (s : S) : Safe (doOpendir p s).2 ↔ Hot s := by
  unfold doOpendir; simp only []; (repeat' split) <;> simp [FsEffect.isRelease]
@[simp, grind =] theorem doOpendir_hot (p) (s : S) : Hot (doOpendir p s).2 ↔ Hot s := by
  unfold doOpendir; simp only []; (repeat' split) <;> simp
@[simp, grind =] theorem doStat_safe (p) (s : S) : Safe (doStat p s).2 ↔ Hot s := by
  unfold doStat; grind [FsEffect.isRelease]
@[simp, grind =] theorem doStat_hot (p) (s : S) : Hot (doStat p s).2 ↔ Hot s := by
  unfold doStat; grind
@[simp, grind =] theorem doCompress_safe (n) (s : S) : Safe (doCompress n s).2 ↔ Hot s := by
  unfold doCompress; grind
@[simp, grind =] theorem doCompress_hot (n) (s : S) : Hot (doCompress n s).2 ↔ Hot s := by
  unfold doCompress; grind
@[simp, grind =] theorem doUncompress_safe (n) (s : S) : Safe (doUncompress n s).2 ↔ Hot s := by
  unfold doUncompress; grind
@[simp, grind =] theorem doUncompress_hot (n) (s : S) : Hot (doUncompress n s).2 ↔ Hot s := by
  unfold doUncompress; grind

/-! ### teardown and permission tests -/
@[simp, grind =] theorem closeUndoneUpload_hot (t) (s : S) : Hot (closeUndoneUpload t s) ↔ Hot s := by
  unfold closeUndoneUpload; grind
@[simp, grind =] theorem closeUndoneUpload_safe_td (s : S) : Safe (closeUndoneUpload true s) ↔ Safe s := by
  unfold closeUndoneUpload; grind
theorem closeUndoneUpload_safe (s : S) (h : Hot s) : Safe (closeUndoneUpload false s) :=
  ((closeUndoneUpload_hot false s).mpr h).1
@[simp, grind =] theorem closeUndoneDownload_hot (t) (s : S) : Hot (closeUndoneDownload t s) ↔ Hot s := by
  unfold closeUndoneDownload; grind
@[simp, grind =] theorem closeUndoneDownload_safe (t) (s : S) : Safe (closeUndoneDownload t s) ↔ Safe s := by
  unfold closeUndoneDownload; grind
@[simp, grind =] theorem closeClient_safe (s : S) : Safe (closeClient s) ↔ Safe s := by
  unfold closeClient; grind
@[simp, grind =] theorem closeClient_hot (s : S) : Hot (closeClient s) ↔ Hot s := by
  unfold closeClient; grind
@[simp, grind =] theorem consult_safe (f) (s : S) : Safe (consult f s).2 ↔ Safe s := by
  unfold consult; grind
@[simp, grind =] theorem consult_hot (f) (s : S) : Hot (consult f s).2 ↔ Hot s := by
  unfold consult; grind

@[simp, grind =] theorem macroCheck_safe (cfg) (s : S) : Safe (macroCheck cfg s).2 ↔ Safe s := by
  unfold macroCheck; grind
@[simp, grind =] theorem macroCheck_hot (cfg) (s : S) :
    Hot (macroCheck cfg s).2 ↔ ((macroCheck cfg s).1 = true ∧ Safe s) := by
  unfold macroCheck; grind
@[simp, grind =] theorem chunkCheck_safe (cfg) (s : S) : Safe (chunkCheck cfg s).2 ↔ Safe s := by
  unfold chunkCheck; grind
@[simp, grind =] theorem chunkCheck_hot (cfg) (s : S) :
    Hot (chunkCheck cfg s).2 ↔ ((chunkCheck cfg s).1 = true ∧ Safe s) := by
  unfold chunkCheck; grind

@[simp, grind =] theorem translate_safe (cfg p n) (s : S) : Safe (translate cfg p n s).2 ↔ Safe s := by
  unfold translate; grind
@[simp, grind =] theorem translate_hot (cfg p n) (s : S) :
    Hot (translate cfg p n s).2 ↔ ((macroCheck cfg s).1 = true ∧ Safe s) := by
  unfold translate; grind
/-- the translated name is returned exactly when the permission test passed and the pure
translation succeeded -/
@[simp] theorem translate_fst (cfg p n) (s : S) (r) :
    (translate cfg p n s).1 = some r ↔ ((macroCheck cfg s).1 = true ∧ translatePure cfg.home p n = some r) := by
  unfold translate; grind

@[simp, grind =] theorem sendMsg_safe (cfg ct cp size len pl) (s : S) :
    Safe (sendMsg cfg ct cp size len pl s).2 ↔ Safe s := by
  unfold sendMsg; grind
@[simp, grind =] theorem sendMsg_hot (cfg ct cp size len pl) (s : S) :
    Hot (sendMsg cfg ct cp size len pl s).2 ↔ ((macroCheck cfg s).1 = true ∧ Safe s) := by
  unfold sendMsg; grind
@[simp] theorem sendMsg_fst (cfg ct cp size len pl) (s : S) :
    (sendMsg cfg ct cp size len pl s).1 = true ↔
      ((macroCheck cfg s).1 = true ∧ (macroCheck cfg s).2.cl.isOpen = true) := by
  unfold sendMsg; grind

@[simp, grind =] theorem readExact_safe (n) (s : S) : Safe (readExact n s).2 ↔ Safe s := by
  unfold readExact; grind
@[simp, grind =] theorem readExact_hot (n) (s : S) : Hot (readExact n s).2 ↔ Hot s := by
  unfold readExact; grind
@[simp, grind =] theorem readBuffer_safe (cfg n) (s : S) : Safe (readBuffer cfg n s).2 ↔ Safe s := by
  unfold readBuffer; grind
@[simp, grind =] theorem readBuffer_hot (cfg n) (s : S) :
    Hot (readBuffer cfg n s).2 ↔ ((macroCheck cfg s).1 = true ∧ Safe s) := by
  unfold readBuffer; grind
@[simp] theorem readBuffer_fst (cfg n) (s : S) (b) :
    (readBuffer cfg n s).1 = some b ↔
      ((macroCheck cfg s).1 = true ∧ n ≤ Gen.C19.intMax ∧ n ≠ 0 ∧ (readExact n (macroCheck cfg s).2).1 = some b) := by
  unfold readBuffer; grind

/-- unfold the control flow completely, then let the `Safe`/`Hot` transfer lemmas rewrite -/
syntax "ftsplit" (" [" Lean.Parser.Tactic.simpLemma,* "]")? : tactic
macro_rules
  | `(tactic| ftsplit) => `(tactic| ((try simp only []); (repeat' split); all_goals (try simp_all)))
  | `(tactic| ftsplit [$ls,*]) => `(tactic| ((try simp only []); (repeat' split); all_goals (try simp_all [$ls,*])))

/-! ### UltraVNC entry points -/
theorem dirLoop_safe (cfg path) (names : List Path) (s : S) (h : Hot s) : Safe (dirLoop cfg path names s) := by
  induction names generalizing s with
  | nil => have hs : Safe s := h.1; unfold dirLoop; ftsplit [FsEffect.isRelease]
  | cons name rest ih => have hs : Safe s := h.1; unfold dirLoop; ftsplit [FsEffect.isRelease]

theorem sendDirContent_safe (cfg len buf) (s : S) (h : Safe s) : Safe (sendDirContent cfg len buf s) := by
  unfold sendDirContent; ftsplit [dirLoop_safe, FsEffect.isRelease]

theorem chunk_safe (cfg) (s : S) (h : Safe s) : Safe (chunk cfg s).2 := by
  unfold chunk; ftsplit

@[simp, grind =] theorem closeOld_safe (s : S) : Safe (closeOld s) ↔ Safe s := by
  unfold closeOld; grind
@[simp, grind =] theorem closeOld_hot (s : S) : Hot (closeOld s) ↔ Hot s := by
  unfold closeOld; grind

@[simp, grind =] theorem openForRead_safe (f) (s : S) : Safe (openForRead f s).2 ↔ Hot s := by
  unfold openForRead; grind
@[simp, grind =] theorem openForRead_hot (f) (s : S) : Hot (openForRead f s).2 ↔ Hot s := by
  unfold openForRead; grind
theorem ftRequest_safe (cfg size len) (s : S) (h : Safe s) : Safe (ftRequest cfg size len s) := by
  unfold ftRequest; ftsplit
theorem ftHeader_safe (cfg size) (s : S) (h : Safe s) : Safe (ftHeader cfg size s) := by
  unfold ftHeader; ftsplit [chunk_safe]
theorem ftOffer_safe (cfg len) (s : S) (h : Safe s) : Safe (ftOffer cfg len s) := by
  unfold ftOffer; ftsplit
@[simp, grind =] theorem packetWrite_safe (fd size len buf) (s : S) : Safe (packetWrite fd size len buf s).2 ↔ Hot s := by
  unfold packetWrite; grind
@[simp, grind =] theorem packetWrite_hot (fd size len buf) (s : S) : Hot (packetWrite fd size len buf s).2 ↔ Hot s := by
  unfold packetWrite; grind
theorem ftPacket_safe (cfg size len) (s : S) (h : Safe s) : Safe (ftPacket cfg size len s) := by
  unfold ftPacket; ftsplit
theorem ftEof_safe (s : S) (h : Safe s) : Safe (ftEof s) := by
  unfold ftEof; ftsplit
theorem ftAbort_safe (cfg cp) (s : S) (h : Safe s) : Safe (ftAbort cfg cp s) := by
  unfold ftAbort; ftsplit
@[simp, grind =] theorem deletePath_safe (p) (s : S) : Safe (deletePath p s).2 ↔ Hot s := by
  unfold deletePath; simp only []; split <;> simp [FsEffect.isRelease]
@[simp, grind =] theorem deletePath_hot (p) (s : S) : Hot (deletePath p s).2 ↔ Hot s := by
  unfold deletePath; grind
theorem ftCommand_safe (cfg cp len) (s : S) (h : Safe s) : Safe (ftCommand cfg cp len s) := by
  unfold ftCommand; ftsplit [doSimple_safe, FsEffect.isRelease]

theorem processFT_safe (cfg ct cp size len) (s : S) (h : Safe s) : Safe (processFT cfg ct cp size len s) := by
  unfold processFT
  ftsplit [sendDirContent_safe, ftRequest_safe, ftHeader_safe, ftOffer_safe, ftPacket_safe, ftEof_safe,
    ftAbort_safe, ftCommand_safe]

/-! ### TightVNC extension: everything runs under the gate's successful test -/
theorem tListLoop_hot (path wf) (names : List Path) (acc) (s : S) : Hot (tListLoop path wf names acc s).2 ↔ Hot s := by
  induction names generalizing s acc with
  | nil => unfold tListLoop; rfl
  | cons name rest ih => unfold tListLoop; ftsplit
theorem tListDir_safe (flags path) (s : S) (h : Hot s) : Safe (tListDir flags path s) := by
  have hs : Safe s := h.1
  unfold tListDir; ftsplit [tListLoop_hot, FsEffect.isRelease]
theorem tList_safe (cfg) (s : S) (h : Hot s) : Safe (tList cfg s) := by
  have hs : Safe s := h.1
  unfold tList; ftsplit [tListDir_safe]
theorem tLengthError_safe (n w) (s : S) (h : Hot s) : Safe (tLengthError n w s) := by
  have hs : Safe s := h.1
  unfold tLengthError; ftsplit [hs]
theorem tDownloadEnd_safe (fd w) (s : S) (h : Hot s) : Safe (tDownloadEnd fd w s) := by
  have hs : Safe s := h.1
  unfold tDownloadEnd; ftsplit
theorem tDownloadLoop_safe (fd fuel) (s : S) (h : Hot s) : Safe (tDownloadLoop fd fuel s) := by
  induction fuel generalizing s with
  | zero => unfold tDownloadLoop; exact h.1
  | succ n ih => unfold tDownloadLoop; ftsplit [tDownloadEnd_safe]
theorem tDownloadRun_safe (path) (s : S) (h : Hot s) : Safe (tDownloadRun path s) := by
  have hs : Safe s := h.1
  unfold tDownloadRun; ftsplit [tDownloadLoop_safe]
theorem tDownloadPath_safe (path) (s : S) (h : Hot s) : Safe (tDownloadPath path s) := by
  have hs : Safe s := h.1
  unfold tDownloadPath; ftsplit [tDownloadRun_safe]
theorem tDownload_safe (cfg) (s : S) (h : Hot s) : Safe (tDownload cfg s) := by
  have hs : Safe s := h.1
  unfold tDownload; ftsplit [tDownloadPath_safe, tLengthError_safe]
theorem tUploadPath_safe (path) (s : S) (h : Hot s) : Safe (tUploadPath path s) := by
  have hs : Safe s := h.1
  unfold tUploadPath; ftsplit [hs]
theorem tUpload_safe (cfg) (s : S) (h : Hot s) : Safe (tUpload cfg s) := by
  have hs : Safe s := h.1
  unfold tUpload; ftsplit [tUploadPath_safe, tLengthError_safe]
theorem tUploadComplete_safe (s : S) (h : Hot s) : Safe (tUploadComplete s) := by
  have hs : Safe s := h.1
  unfold tUploadComplete; ftsplit [doSimple_safe, FsEffect.isRelease]
theorem tUploadWrite_safe (c b) (s : S) (h : Hot s) : Safe (tUploadWrite c b s) := by
  have hs : Safe s := h.1
  unfold tUploadWrite; ftsplit [closeUndoneUpload_safe, hs]
theorem tUploadData_safe (s : S) (h : Hot s) : Safe (tUploadData s) := by
  have hs : Safe s := h.1
  unfold tUploadData; ftsplit [tUploadComplete_safe, tUploadWrite_safe]
  exact closeUndoneUpload_safe _ (by simp_all)
theorem tReason_safe (u) (s : S) (h : Hot s) : Safe (tReason u s) := by
  have hs : Safe s := h.1
  unfold tReason; ftsplit [closeUndoneUpload_safe, hs]
theorem tMkdir_safe (cfg) (s : S) (h : Hot s) : Safe (tMkdir cfg s) := by
  have hs : Safe s := h.1
  unfold tMkdir; ftsplit [doSimple_safe, FsEffect.isRelease]
theorem tightMsg_safe (cfg ty) (s : S) (h : Safe s) : Safe (tightMsg cfg ty s) := by
  unfold tightMsg
  ftsplit [tList_safe, tDownload_safe, tUpload_safe, tUploadData_safe, tReason_safe, tMkdir_safe]

/-! ### entry points -/
theorem stepMsg_safe (cfg) (s : S) (h : Safe s) : Safe (stepMsg cfg s) := by
  unfold stepMsg; ftsplit [processFT_safe, tightMsg_safe]
theorem chunkEntry_safe (cfg) (s : S) (h : Safe s) : Safe (chunkEntry cfg s).2 := by
  unfold chunkEntry; simp_all [chunk_safe]
theorem peerGone_safe (s : S) (h : Safe s) : Safe (peerGone s) := by
  unfold peerGone; simp_all
theorem reapClient_safe (s : S) (h : Safe s) : Safe (reapClient s) := by
  unfold reapClient; ftsplit

end VncModel.FileXfer
