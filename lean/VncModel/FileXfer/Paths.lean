/-
C19 — lemmas: which paths the file-system calls of the model name.
`PathsFs A s`: every path named by a handler's file-system call in the trace of `s` satisfies `A`.
`PathsAll A s`: the same including teardown (`cleanup`) calls.
-/
import VncModel.FileXfer.Quiet

namespace VncModel.FileXfer

def PathsFs (A : Path → Prop) (s : S) : Prop :=
  ∀ e r, Ev.fs e r ∈ s.evs → ∀ p ∈ e.paths, A p

/-- what one more event demands -/
def evPathsOk (A : Path → Prop) : Ev → Prop
  | .fs f _ => ∀ p ∈ f.paths, A p
  | _ => True

@[simp] theorem pathsFs_emit (A e) (s : S) : PathsFs A (emit e s) ↔ (evPathsOk A e ∧ PathsFs A s) := by
  unfold PathsFs emit
  constructor
  · intro h
    refine ⟨?_, fun f r hm => h f r (List.mem_cons_of_mem _ hm)⟩
    cases e <;> simp [evPathsOk]
    rename_i f r
    exact fun p hp => h f r (List.mem_cons_self ..) p hp
  · intro ⟨h1, h2⟩ f r hm p hp
    rcases List.mem_cons.mp hm with h | h
    · subst h; exact h1 p hp
    · exact h2 f r h p hp

@[simp] theorem pathsFs_setCl (A f) (s : S) : PathsFs A (setCl f s) ↔ PathsFs A s := Iff.rfl
@[simp] theorem pathsFs_setNextFd (A k) (s : S) : PathsFs A (setNextFd k s) ↔ PathsFs A s := Iff.rfl
@[simp] theorem pathsFs_bumpCalls (A) (s : S) : PathsFs A (bumpCalls s) ↔ PathsFs A s := Iff.rfl
@[simp] theorem pathsFs_setTight (A f) (s : S) : PathsFs A (setTight f s) ↔ PathsFs A s := Iff.rfl
@[simp] theorem pathsFs_setUp (A f) (s : S) : PathsFs A (setUp f s) ↔ PathsFs A s := Iff.rfl
@[simp] theorem pathsFs_setDn (A f) (s : S) : PathsFs A (setDn f s) ↔ PathsFs A s := Iff.rfl
@[simp] theorem pathsFs_endTransfer (A) (s : S) : PathsFs A (endTransfer s) ↔ PathsFs A s := Iff.rfl
@[simp] theorem pathsFs_popTok (A) (s : S) : PathsFs A (popTok s).2 ↔ PathsFs A s := by
  unfold popTok; split <;> rfl
@[simp] theorem pathsFs_twire (A w) (s : S) : PathsFs A (twire w s) ↔ PathsFs A s := by
  simp [twire, evPathsOk]

@[simp] theorem doClose_paths (A t k) (s : S) : PathsFs A (doClose t k s) ↔ PathsFs A s := by
  unfold doClose; split <;> simp [evPathsOk, FsEffect.paths]
@[simp] theorem doSimple_paths_td (A e) (s : S) : PathsFs A (doSimple true e s).2 ↔ PathsFs A s := by
  unfold doSimple; ftsplit [evPathsOk]
@[simp] theorem doSimple_paths (A e) (s : S) :
    PathsFs A (doSimple false e s).2 ↔ ((∀ p ∈ e.paths, A p) ∧ PathsFs A s) := by
  unfold doSimple; ftsplit [evPathsOk]
@[simp] theorem doOpen_paths (A p m) (s : S) : PathsFs A (doOpen p m s).2 ↔ (A p ∧ PathsFs A s) := by
  unfold doOpen; ftsplit [evPathsOk, FsEffect.paths]
@[simp] theorem doFstat_paths (A k) (s : S) : PathsFs A (doFstat k s).2 ↔ PathsFs A s := by
  unfold doFstat; ftsplit [evPathsOk, FsEffect.paths]
@[simp] theorem doRead_paths (A k) (s : S) : PathsFs A (doRead k s).2 ↔ PathsFs A s := by
  unfold doRead; ftsplit [evPathsOk, FsEffect.paths]
@[simp] theorem doWrite_paths (A k n h) (s : S) : PathsFs A (doWrite k n h s).2 ↔ PathsFs A s := by
  unfold doWrite; ftsplit [evPathsOk, FsEffect.paths]
@[simp] theorem doOpendir_paths (A p) (s : S) : PathsFs A (doOpendir p s).2 ↔ (A p ∧ PathsFs A s) := by
  unfold doOpendir; ftsplit [evPathsOk, FsEffect.paths]
@[simp] theorem doStat_paths (A p) (s : S) : PathsFs A (doStat p s).2 ↔ (A p ∧ PathsFs A s) := by
  unfold doStat; ftsplit [evPathsOk, FsEffect.paths]
@[simp] theorem doCompress_paths (A n) (s : S) : PathsFs A (doCompress n s).2 ↔ PathsFs A s := by
  unfold doCompress; ftsplit [evPathsOk]
@[simp] theorem doUncompress_paths (A n) (s : S) : PathsFs A (doUncompress n s).2 ↔ PathsFs A s := by
  unfold doUncompress; ftsplit [evPathsOk]

@[simp] theorem closeUndoneUpload_paths_td (A) (s : S) : PathsFs A (closeUndoneUpload true s) ↔ PathsFs A s := by
  unfold closeUndoneUpload; ftsplit
@[simp] theorem closeUndoneDownload_paths (A t) (s : S) : PathsFs A (closeUndoneDownload t s) ↔ PathsFs A s := by
  unfold closeUndoneDownload; ftsplit
@[simp] theorem closeClient_paths (A) (s : S) : PathsFs A (closeClient s) ↔ PathsFs A s := by
  unfold closeClient; ftsplit [evPathsOk]
@[simp] theorem consult_paths (A f) (s : S) : PathsFs A (consult f s).2 ↔ PathsFs A s := by
  unfold consult; simp [evPathsOk]
@[simp] theorem macroCheck_paths (A cfg) (s : S) : PathsFs A (macroCheck cfg s).2 ↔ PathsFs A s := by
  unfold macroCheck; ftsplit [evPathsOk]
@[simp] theorem chunkCheck_paths (A cfg) (s : S) : PathsFs A (chunkCheck cfg s).2 ↔ PathsFs A s := by
  unfold chunkCheck; ftsplit [evPathsOk]
@[simp] theorem translate_paths (A cfg p n) (s : S) : PathsFs A (translate cfg p n s).2 ↔ PathsFs A s := by
  unfold translate; ftsplit
@[simp] theorem sendMsg_paths (A cfg ct cp size len pl) (s : S) :
    PathsFs A (sendMsg cfg ct cp size len pl s).2 ↔ PathsFs A s := by
  unfold sendMsg; ftsplit [evPathsOk]
@[simp] theorem readExact_paths (A n) (s : S) : PathsFs A (readExact n s).2 ↔ PathsFs A s := by
  unfold readExact; ftsplit
@[simp] theorem readBuffer_paths (A cfg n) (s : S) : PathsFs A (readBuffer cfg n s).2 ↔ PathsFs A s := by
  unfold readBuffer; ftsplit

/-! what the read functions return -/
theorem readExact_fst (n) (s : S) (b) (h : (readExact n s).1 = some b) (hn : n ≠ 0) :
    b = s.cl.inbuf.take n := by
  unfold readExact at h
  simp only [hn, if_false] at h
  split at h
  · simp at h
  · split at h <;> simp at h
    exact h.symm

@[simp] theorem closeUndoneUpload_inbuf (t) (s : S) : (closeUndoneUpload t s).cl.inbuf = s.cl.inbuf := by
  unfold closeUndoneUpload doSimple doClose popTok; ftsplit [setCl, emit]
@[simp] theorem closeUndoneDownload_inbuf (t) (s : S) : (closeUndoneDownload t s).cl.inbuf = s.cl.inbuf := by
  unfold closeUndoneDownload doClose; ftsplit [setCl, emit]
@[simp] theorem closeClient_inbuf (s : S) : (closeClient s).cl.inbuf = s.cl.inbuf := by
  unfold closeClient; ftsplit [setCl, emit]
@[simp] theorem macroCheck_inbuf (cfg) (s : S) : (macroCheck cfg s).2.cl.inbuf = s.cl.inbuf := by
  unfold macroCheck; ftsplit

/-- the buffer rfbProcessFileTransferReadBuffer returns is the next `n` bytes the client sent -/
theorem readBuffer_buf (cfg n) (s : S) (b) (h : (readBuffer cfg n s).1 = some b) :
    b = s.cl.inbuf.take n := by
  rw [readBuffer_fst] at h
  obtain ⟨_, _, hn, hb⟩ := h
  have := readExact_fst n _ b hb hn
  simpa using this

/-! ### UltraVNC entry points: only the named path -/
theorem dirLoop_paths (A cfg path) (names : List Path) (s : S) (hA : ∀ name, A (path ++ 47 :: name))
    (h : PathsFs A s) : PathsFs A (dirLoop cfg path names s) := by
  induction names generalizing s with
  | nil => unfold dirLoop; ftsplit [evPathsOk, FsEffect.paths]
  | cons name rest ih => unfold dirLoop; ftsplit [evPathsOk, FsEffect.paths]

theorem sendDirContent_paths (A cfg len buf) (s : S)
    (hA : ∀ d, translatePure cfg.home (cstr buf) Gen.C19.dirPathSize = some d → A d ∧ ∀ name, A (d ++ 47 :: name))
    (h : PathsFs A s) : PathsFs A (sendDirContent cfg len buf s) := by
  unfold sendDirContent
  ftsplit [evPathsOk, FsEffect.paths]
  all_goals first
    | exact (hA _ (by assumption)).1
    | exact dirLoop_paths A cfg _ _ _ (hA _ (by assumption)).2 (by simp_all)
    | exact hA.1
    | exact dirLoop_paths A cfg _ _ _ hA.2 (by simp_all)

theorem chunk_paths (A cfg) (s : S) (h : PathsFs A s) : PathsFs A (chunk cfg s).2 := by
  unfold chunk; ftsplit

@[simp] theorem closeOld_paths (A) (s : S) : PathsFs A (closeOld s) ↔ PathsFs A s := by
  unfold closeOld; ftsplit
@[simp] theorem openForRead_paths (A f) (s : S) : PathsFs A (openForRead f s).2 ↔ (A f ∧ PathsFs A s) := by
  unfold openForRead; ftsplit

theorem ftRequest_paths (A cfg size len) (s : S)
    (hA : ∀ b, (readBuffer cfg len s).1 = some b →
      ∀ p, translatePure cfg.home (cstr b) Gen.C19.filename1Size = some p → A p)
    (h : PathsFs A s) : PathsFs A (ftRequest cfg size len s) := by
  unfold ftRequest; ftsplit
theorem ftHeader_paths (A cfg size) (s : S) (h : PathsFs A s) : PathsFs A (ftHeader cfg size s) := by
  unfold ftHeader; ftsplit [chunk_paths]
theorem ftOffer_paths (A cfg len) (s : S)
    (hA : ∀ b, (readBuffer cfg len s).1 = some b →
      ∀ p, translatePure cfg.home (offerName (cstr b)) Gen.C19.filename1Size = some p → A p)
    (h : PathsFs A s) : PathsFs A (ftOffer cfg len s) := by
  unfold ftOffer; ftsplit
@[simp] theorem packetWrite_paths (A fd size len buf) (s : S) :
    PathsFs A (packetWrite fd size len buf s).2 ↔ PathsFs A s := by
  unfold packetWrite; ftsplit
theorem ftPacket_paths (A cfg size len) (s : S) (h : PathsFs A s) : PathsFs A (ftPacket cfg size len s) := by
  unfold ftPacket; ftsplit
theorem ftEof_paths (A) (s : S) (h : PathsFs A s) : PathsFs A (ftEof s) := by
  unfold ftEof; ftsplit
theorem ftAbort_paths (A cfg cp) (s : S) (h : PathsFs A s) : PathsFs A (ftAbort cfg cp s) := by
  unfold ftAbort; ftsplit
@[simp] theorem deletePath_paths (A p) (s : S) : PathsFs A (deletePath p s).2 ↔ (A p ∧ PathsFs A s) := by
  unfold deletePath; ftsplit [FsEffect.paths]
theorem ftCommand_paths (A cfg cp len) (s : S)
    (hA1 : cp = 1 ∨ cp = 4 → ∀ b, (readBuffer cfg len s).1 = some b →
      ∀ p, translatePure cfg.home (cstr b) Gen.C19.filename1Size = some p → A p)
    (hA5 : cp = 5 → ∀ b, (readBuffer cfg len s).1 = some b → ∀ x y, splitLast 42 (cstr b) = some (x, y) →
      ∀ pa pb, translatePure cfg.home x Gen.C19.filename1Size = some pa →
        translatePure cfg.home y Gen.C19.filename2Size = some pb → A pa ∧ A pb)
    (h : PathsFs A s) : PathsFs A (ftCommand cfg cp len s) := by
  unfold ftCommand; ftsplit [FsEffect.paths]

end VncModel.FileXfer
