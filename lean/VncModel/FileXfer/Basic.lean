/-
C19 — file transfer.  Basic vocabulary: byte strings (C strings are byte lists without NUL),
file-system effects, observable events, and the text encodings shared with harness/c19.c.
Core Lean only.
-/
namespace VncModel.FileXfer

abbrev Bytes := List UInt8
/-- a C string (the bytes before the first NUL) used as a path -/
abbrev Path := List UInt8

/-- the C string stored in a NUL-terminated buffer: everything before the first NUL byte -/
def cstr (b : Bytes) : Path := b.takeWhile (· ≠ 0)

def ofStr (s : String) : Bytes := s.toUTF8.toList

/-- `strrchr(s, c)`: split around the LAST occurrence of `c` -> (before, after) -/
def splitLast (c : UInt8) (l : Bytes) : Option (Bytes × Bytes) :=
  match l.reverse.span (· ≠ c) with
  | (aft, _ :: bef) => some (bef.reverse, aft.reverse)
  | (_, []) => none

/-- open(2) flags used by the code: `O_RDONLY` and `O_CREAT|O_WRONLY|O_TRUNC` (also `creat`) -/
inductive Mode where
  | rd | wrct
  deriving DecidableEq, Repr

/-- One libc file-system call made by the file-transfer code.  Descriptors are the serial numbers of
the `open` that produced them (as the harness prints them). -/
inductive FsEffect where
  | open (p : Path) (m : Mode)
  | fstat (fd : Nat)
  | read (fd : Nat)
  | write (fd : Nat) (n : Nat) (h : String)
  | close (fd : Nat)
  | opendir (p : Path)
  | closedir
  | stat (p : Path)
  | mkdir (p : Path)
  | unlink (p : Path)
  | rmdir (p : Path)
  | rename (a b : Path)
  | utime (p : Path)
  deriving DecidableEq, Repr

/-- the paths an effect names -/
def FsEffect.paths : FsEffect → List Path
  | .open p _ => [p] | .opendir p => [p] | .stat p => [p] | .mkdir p => [p] | .unlink p => [p]
  | .rmdir p => [p] | .rename a b => [a, b] | .utime p => [p]
  | .fstat _ => [] | .read _ => [] | .write _ _ _ => [] | .close _ => [] | .closedir => []

/-- effects that only release something that is already open (allowed at any time: teardown) -/
def FsEffect.isRelease : FsEffect → Bool
  | .close _ => true | .closedir => true | _ => false

/-- payload of a server->client UltraVNC file-transfer message, as far as it is observable
independently of clock and file contents -/
inductive Payload where
  | raw (b : Bytes)                          -- bytes exactly
  | hdr (name : Bytes)                       -- `<name>,<mm/dd/YYYY HH:MM>` + 4 bytes sizeH = 0
  | entry (attr size : Nat) (name : Bytes)   -- RFB_FIND_DATA prefix (times masked) + name + padding
  | digest (n : Nat) (h : String)            -- n bytes of file content with hash h
  | zdigest (n : Nat) (h : String)           -- compressed form of n content bytes with hash h
  deriving DecidableEq, Repr

inductive Wire where
  /-- rfbFileTransferMsg: contentType, contentParam, size, length, payload -/
  | ft (ct cp size len : Nat) (pl : Payload)
  /-- TightVNC FileListData: flags, entries (size, name) -/
  | tlist (flags : Nat) (ents : List (Nat × Bytes))
  /-- TightVNC FileDownloadData block / end marker -/
  | tdata (n : Nat) (h : String)
  | tdataEnd
  /-- TightVNC FileUploadCancel / FileDownloadFailed with reason text -/
  | tcancel (reason : String)
  | tfailed (reason : String)
  deriving DecidableEq, Repr

/-- does the message carry file content or a directory listing (or any file-system derived data)? -/
def Wire.carriesData : Wire → Bool
  | .ft _ _ _ _ _ => true | .tlist _ _ => true | .tdata _ _ => true | .tdataEnd => true
  | .tcancel _ => false | .tfailed _ => false

inductive Ev where
  /-- the application's permission callback was called and returned this raw value (1 = TRUE) -/
  | q (ans : Nat)
  /-- outcome of one complete permission test (callback and flag) -/
  | chk (ok : Bool)
  | fs (e : FsEffect) (res : String)
  /-- a libc call made by connection teardown (rfbCloseClient's extension hook,
  rfbClientConnectionGone): releases / removes what an accepted transfer had left open -/
  | cleanup (e : FsEffect) (res : String)
  /-- zlib compress/uncompress (external, result is a parameter) -/
  | x (what : String) (n : Nat) (res : String)
  | wire (w : Wire)
  | closeConn
  /-- the syscall-result script did not fit the call the model makes (correspondence only) -/
  | envBad (what : String)
  | nonft (b : Nat)
  /-- start of one invocation of an entry point (message handler, chunk sender, teardown) -/
  | start
  /-- an `open` succeeded and produced this descriptor (bookkeeping, not printed) -/
  | got (fd : Nat)
  /-- an `opendir` succeeded: a directory handle is open until the next `closedir` (bookkeeping) -/
  | dirOpened
  deriving DecidableEq, Repr

/-- an event the property forbids for a message that is not permitted: any libc file-system call
made by a handler (even a release), any message to the client, any processing of transfer data.
(Teardown `cleanup` events are the consequence of dropping the connection, not of the message.) -/
def Ev.isNoisy : Ev → Bool
  | .fs _ _ => true | .wire _ => true | .x _ _ _ => true | _ => false

def Ev.isFs : Ev → Bool | .fs _ _ => true | _ => false
def Ev.isWire : Ev → Bool | .wire _ => true | _ => false
/-- an effect the property forbids without permission: any file-system call except releasing an
already open descriptor/handle, and any message to the client -/
def Ev.isGuarded : Ev → Bool
  | .fs e _ => !e.isRelease | .wire _ => true | .x _ _ _ => true | _ => false

/-! ### text encodings (must agree with harness/c19.c) -/

def hexDigitU (n : Nat) : Char :=
  if n < 10 then Char.ofNat (48 + n) else Char.ofNat (55 + n)   -- upper case

/-- percent encoding: 0x21..0x7e except '%' and '|' verbatim, everything else %XX; "" is "%_" -/
def pct (b : Bytes) : String :=
  if b.isEmpty then "%_" else
  String.ofList (b.flatMap fun c =>
    let n := c.toNat
    if 0x21 ≤ n ∧ n ≤ 0x7e ∧ n ≠ 37 ∧ n ≠ 124 then [Char.ofNat n]
    else ['%', hexDigitU (n / 16), hexDigitU (n % 16)])

def hexVal? (c : Char) : Option Nat :=
  if '0' ≤ c ∧ c ≤ '9' then some (c.toNat - 48)
  else if 'A' ≤ c ∧ c ≤ 'F' then some (c.toNat - 55)
  else if 'a' ≤ c ∧ c ≤ 'f' then some (c.toNat - 87)
  else none

def unpctAux : List Char → List UInt8 → Option (List UInt8)
  | [], acc => some acc.reverse
  | '%' :: a :: b :: rest, acc =>
    match hexVal? a, hexVal? b with
    | some x, some y => unpctAux rest (UInt8.ofNat (x * 16 + y) :: acc)
    | _, _ => none
  | '%' :: _, _ => none
  | c :: rest, acc => unpctAux rest (UInt8.ofNat c.toNat :: acc)

def unpct? (s : String) : Option Bytes :=
  if s = "%_" then some [] else unpctAux s.toList []

/-- FNV-1a 64 (vh_fnv) -/
def fnv (b : Bytes) : UInt64 :=
  b.foldl (fun h c => (h ^^^ c.toUInt64) * 1099511628211) 1469598103934665603

def hexDigitL (n : Nat) : Char :=
  if n < 10 then Char.ofNat (48 + n) else Char.ofNat (87 + n)

def hex16 (v : UInt64) : String :=
  String.ofList ((List.range 16).map fun i => hexDigitL ((v.toNat >>> (4 * (15 - i))) % 16))

def fnvStr (b : Bytes) : String := hex16 (fnv b)

def u32max : Nat := 4294967295   -- (uint32_t)-1

end VncModel.FileXfer
