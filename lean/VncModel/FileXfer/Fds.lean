/-
C19 — lemmas: descriptor accounting.  Every descriptor an `open` of the file-transfer code ever
produced (UltraVNC `cl->fileTransfer.fd`, the TightVNC extension's uploadFD / downloadFD) is, at any
later time, either recorded in the client state or has been closed — no handler forgets or overwrites
a descriptor without closing it (`XInv`), and teardown closes the recorded ones.  Directory handles:
`dirDepth` (every successful opendir is closed before its handler returns).
-/
import VncModel.FileXfer.Session

namespace VncModel.FileXfer

/-- descriptor `k` was produced by an `open` in the trace -/
def Got (k : Nat) (s : S) : Prop := Ev.got k ∈ s.evs

def isCloseOf (k : Nat) : Ev → Bool
  | .fs (.close j) _ => j == k
  | .cleanup (.close j) _ => j == k
  | _ => false

/-- a `close(k)` is in the trace (by a handler or by teardown) -/
def Closed (k : Nat) (s : S) : Prop := ∃ e ∈ s.evs, isCloseOf k e = true

/-- `k` is recorded in the client state: the UltraVNC transfer's descriptor or one of the
TightVNC extension's -/
def HeldC (k : Nat) (c : Client) : Prop :=
  c.xf.fd = some k ∨ ∃ t, c.tight = some t ∧ (t.up.fd = some k ∨ t.dn.fd = some k)

/-- the TightVNC client data never records a descriptor without the matching in-progress flag
(the C code sets and clears them together; the close hook relies on it) -/
def TightWf (c : Client) : Prop :=
  ∀ t, c.tight = some t →
    (∀ k, t.up.fd = some k → t.up.inProgress = true) ∧ (∀ k, t.dn.fd = some k → t.dn.inProgress = true)

/-- accounting invariant -/
def XInv (s : S) : Prop :=
  (∀ k, Got k s → HeldC k s.cl ∨ Closed k s) ∧ TightWf s.cl

@[simp] theorem got_emit (k e) (s : S) : Got k (emit e s) ↔ (e = .got k ∨ Got k s) := by
  simp [Got, emit, eq_comm]
@[simp] theorem closed_emit (k e) (s : S) : Closed k (emit e s) ↔ (isCloseOf k e = true ∨ Closed k s) := by
  simp [Closed, emit]

/-- the generic step: the record's descriptors are kept, nothing new was opened, nothing closed is
forgotten -/
theorem xinv_step {s s' : S} (hx : s'.cl.xf.fd = s.cl.xf.fd) (htt : s'.cl.tight = s.cl.tight)
    (hg : ∀ k, Got k s' → Got k s) (hc : ∀ k, Closed k s → Closed k s') (h : XInv s) : XInv s' := by
  obtain ⟨ha, hw⟩ := h
  refine ⟨fun k hk => ?_, by unfold TightWf; rw [htt]; exact hw⟩
  rcases ha k (hg k hk) with h3 | h3
  · left; unfold HeldC at *; rw [hx, htt]; exact h3
  · right; exact hc k h3

/-- an event that neither opens nor closes -/
theorem xinv_emit (e) (s : S) (hg : ∀ k, e ≠ .got k) (h : XInv s) : XInv (emit e s) :=
  xinv_step (s := s) (s' := emit e s) rfl rfl (fun k hk => by
    rcases (got_emit k e s).mp hk with h1 | h1
    · exact absurd h1 (hg k)
    · exact h1) (fun k hk => (closed_emit k e s).mpr (Or.inr hk)) h

theorem xinv_setCl (f) (s : S) (hx : (f s.cl).xf.fd = s.cl.xf.fd) (_hte : (f s.cl).tightExt = s.cl.tightExt)
    (htt : (f s.cl).tight = s.cl.tight) (h : XInv s) : XInv (setCl f s) :=
  xinv_step (s := s) (s' := setCl f s) hx htt (fun _ h => h) (fun _ h => h) h

theorem xinv_popTok (s : S) (h : XInv s) : XInv (popTok s).2 := by
  unfold popTok; split
  · exact h
  · rename_i t r _
    exact xinv_step (s := s) (s' := { s with env := r }) rfl rfl (fun _ h => h) (fun _ h => h) h
theorem xinv_bumpCalls (s : S) (h : XInv s) : XInv (bumpCalls s) :=
  xinv_step (s := s) (s' := bumpCalls s) rfl rfl (fun _ h => h) (fun _ h => h) h

/-! libc calls other than open -/
theorem doClose_xinv (t j) (s : S) (h : XInv s) : XInv (doClose t j s) := by
  unfold doClose; split <;> exact xinv_emit _ _ (by intro k; simp) h
theorem doSimple_xinv (t e) (s : S) (h : XInv s) : XInv (doSimple t e s).2 := by
  have hp := xinv_popTok s h
  unfold doSimple
  ftsplit
  all_goals first
    | exact xinv_emit _ _ (by intro k; simp) hp
    | exact xinv_emit _ _ (by intro k; simp) (xinv_emit _ _ (by intro k; simp) hp)
theorem doFstat_xinv (j) (s : S) (h : XInv s) : XInv (doFstat j s).2 := by
  have hp := xinv_popTok s h
  unfold doFstat
  ftsplit
  all_goals first
    | exact xinv_emit _ _ (by intro k; simp) hp
    | exact xinv_emit _ _ (by intro k; simp) (xinv_emit _ _ (by intro k; simp) hp)
theorem doRead_xinv (j) (s : S) (h : XInv s) : XInv (doRead j s).2 := by
  have hp := xinv_popTok s h
  unfold doRead
  ftsplit
  all_goals first
    | exact xinv_emit _ _ (by intro k; simp) hp
    | exact xinv_emit _ _ (by intro k; simp) (xinv_emit _ _ (by intro k; simp) hp)
theorem doWrite_xinv (j n hh) (s : S) (h : XInv s) : XInv (doWrite j n hh s).2 := by
  have hp := xinv_popTok s h
  unfold doWrite
  ftsplit
  all_goals first
    | exact xinv_emit _ _ (by intro k; simp) hp
    | exact xinv_emit _ _ (by intro k; simp) (xinv_emit _ _ (by intro k; simp) hp)
theorem doOpendir_xinv (p) (s : S) (h : XInv s) : XInv (doOpendir p s).2 := by
  have hp := xinv_popTok s h
  unfold doOpendir
  ftsplit
  all_goals first
    | exact xinv_emit _ _ (by intro k; simp) hp
    | exact xinv_emit _ _ (by intro k; simp) (xinv_emit _ _ (by intro k; simp) hp)
theorem doStat_xinv (p) (s : S) (h : XInv s) : XInv (doStat p s).2 := by
  have hp := xinv_popTok s h
  unfold doStat
  ftsplit
  all_goals first
    | exact xinv_emit _ _ (by intro k; simp) hp
    | exact xinv_emit _ _ (by intro k; simp) (xinv_emit _ _ (by intro k; simp) hp)
theorem doCompress_xinv (n) (s : S) (h : XInv s) : XInv (doCompress n s).2 := by
  have hp := xinv_popTok s h
  unfold doCompress
  ftsplit
  all_goals first
    | exact xinv_emit _ _ (by intro k; simp) hp
    | exact xinv_emit _ _ (by intro k; simp) (xinv_emit _ _ (by intro k; simp) hp)
theorem doUncompress_xinv (n) (s : S) (h : XInv s) : XInv (doUncompress n s).2 := by
  have hp := xinv_popTok s h
  unfold doUncompress
  ftsplit
  all_goals first
    | exact xinv_emit _ _ (by intro k; simp) hp
    | exact xinv_emit _ _ (by intro k; simp) (xinv_emit _ _ (by intro k; simp) hp)

/-! teardown and the permission tests -/
theorem closed_mono_emit (k e) (s : S) (h : Closed k s) : Closed k (emit e s) :=
  (closed_emit k e s).mpr (Or.inr h)
theorem popTok_got (k) (s : S) : Got k (popTok s).2 ↔ Got k s := by unfold popTok; split <;> rfl
theorem popTok_closed (k) (s : S) : Closed k (popTok s).2 ↔ Closed k s := by unfold popTok; split <;> rfl
theorem doClose_closed (k t) (s : S) : Closed k (doClose t k s) := by
  unfold doClose; split <;> simp [isCloseOf]
theorem doClose_closed_mono (k t j) (s : S) (h : Closed k s) : Closed k (doClose t j s) := by
  unfold doClose; split <;> exact closed_mono_emit _ _ _ h
theorem doClose_got (k t j) (s : S) : Got k (doClose t j s) ↔ Got k s := by
  unfold doClose; split <;> simp
theorem doSimple_got (k t e) (s : S) : Got k (doSimple t e s).2 ↔ Got k s := by
  unfold doSimple; ftsplit [popTok_got]
theorem doSimple_closed_mono (k t e) (s : S) (h : Closed k s) : Closed k (doSimple t e s).2 := by
  have hp := (popTok_closed k s).mpr h
  unfold doSimple
  ftsplit
  all_goals first
    | exact closed_mono_emit _ _ _ hp
    | exact closed_mono_emit _ _ _ (closed_mono_emit _ _ _ hp)

/-- closing (if any) the descriptor `fd` -/
def closeOpt (t : Bool) (fd : Option Nat) (s : S) : S :=
  match fd with
  | some k => doClose t k s
  | none => s
theorem closeOpt_cl (t fd) (s : S) : (closeOpt t fd s).cl = s.cl := by
  unfold closeOpt; split <;> simp
theorem closeOpt_got (k t fd) (s : S) : Got k (closeOpt t fd s) ↔ Got k s := by
  unfold closeOpt; split
  · exact doClose_got _ _ _ _
  · rfl
theorem closeOpt_closed_mono (k t fd) (s : S) (h : Closed k s) : Closed k (closeOpt t fd s) := by
  unfold closeOpt; split
  · exact doClose_closed_mono _ _ _ _ h
  · exact h
theorem closeOpt_closed (k t) (s : S) : Closed k (closeOpt t (some k) s) := doClose_closed _ _ _

/-- CloseUndoneFileUpload keeps the accounting: the upload descriptor it forgets has been closed -/
theorem closeUndoneUpload_xinv (t) (s : S) (h : XInv s) : XInv (closeUndoneUpload t s) := by
  unfold closeUndoneUpload
  cases ht : s.cl.tight with
  | none => simpa [ht] using h
  | some tt =>
    simp only []
    by_cases hp : tt.up.inProgress = true
    · rw [if_pos hp]
      obtain ⟨ha, hw⟩ := h
      show XInv (setCl (fun c => { c with tight := some { tt with up := {} } })
        (doSimple t (.unlink tt.up.fName) (closeOpt t tt.up.fd s)).2)
      refine ⟨?_, ?_⟩
      · intro k hk
        have hk' : Got k s := (closeOpt_got k t _ s).mp ((doSimple_got k t _ _).mp hk)
        rcases ha k hk' with h1 | h1
        · rcases h1 with h1 | ⟨t2, ht2, h1 | h1⟩
          · left; left
            show (doSimple t _ (closeOpt t tt.up.fd s)).2.cl.xf.fd = some k
            rw [doSimple_cl, closeOpt_cl]; exact h1
          · right
            rw [ht] at ht2; cases ht2
            show Closed k (doSimple t _ (closeOpt t tt.up.fd s)).2
            rw [h1]; exact doSimple_closed_mono _ _ _ _ (closeOpt_closed _ _ _)
          · left; right
            rw [ht] at ht2; cases ht2
            exact ⟨{ tt with up := {} }, rfl, Or.inr h1⟩
        · right
          show Closed k (doSimple t _ (closeOpt t tt.up.fd s)).2
          exact doSimple_closed_mono _ _ _ _ (closeOpt_closed_mono _ _ _ _ h1)
      · intro t2 ht2
        have : t2 = { tt with up := {} } := (Option.some.inj ht2).symm
        subst this
        exact ⟨fun k hk => by simp at hk, (hw tt ht).2⟩
    · rw [if_neg hp]; exact h

/-- after CloseUndoneFileUpload the record holds no upload descriptor -/
theorem closeUndoneUpload_upfd (t) (s : S) (h : TightWf s.cl) :
    ∀ t2, (closeUndoneUpload t s).cl.tight = some t2 → t2.up.fd = none := by
  unfold closeUndoneUpload
  cases ht : s.cl.tight with
  | none => intro t2 h2; simp [ht] at h2
  | some tt =>
    simp only []
    by_cases hp : tt.up.inProgress = true
    · rw [if_pos hp]
      intro t2 ht2
      have : t2 = { tt with up := {} } := (Option.some.inj ht2).symm
      subst this; rfl
    · rw [if_neg hp]
      intro t2 ht2
      rw [ht] at ht2; cases ht2
      cases hfd : tt.up.fd with
      | none => rfl
      | some k => exact absurd ((h tt ht).1 k hfd) hp

theorem closeUndoneDownload_xinv (t) (s : S) (h : XInv s) : XInv (closeUndoneDownload t s) := by
  unfold closeUndoneDownload
  cases ht : s.cl.tight with
  | none => simpa [ht] using h
  | some tt =>
    simp only []
    by_cases hp : tt.dn.inProgress = true
    · rw [if_pos hp]
      obtain ⟨ha, hw⟩ := h
      show XInv (setCl (fun c => { c with tight := some { tt with dn := {} } }) (closeOpt t tt.dn.fd s))
      refine ⟨?_, ?_⟩
      · intro k hk
        have hk' : Got k s := (closeOpt_got k t _ s).mp hk
        rcases ha k hk' with h1 | h1
        · rcases h1 with h1 | ⟨t2, ht2, h1 | h1⟩
          · left; left
            show (closeOpt t tt.dn.fd s).cl.xf.fd = some k
            rw [closeOpt_cl]; exact h1
          · left; right
            rw [ht] at ht2; cases ht2
            exact ⟨{ tt with dn := {} }, rfl, Or.inl h1⟩
          · right
            rw [ht] at ht2; cases ht2
            show Closed k (closeOpt t tt.dn.fd s)
            rw [h1]; exact closeOpt_closed _ _ _
        · right
          exact closeOpt_closed_mono _ _ _ _ h1
      · intro t2 ht2
        have : t2 = { tt with dn := {} } := (Option.some.inj ht2).symm
        subst this
        exact ⟨(hw tt ht).1, fun k hk => by simp at hk⟩
    · rw [if_neg hp]; exact h

theorem closeUndoneDownload_fds (t) (s : S) (h : TightWf s.cl) :
    ∀ t2, (closeUndoneDownload t s).cl.tight = some t2 →
      t2.dn.fd = none ∧ ∀ tt, s.cl.tight = some tt → t2.up = tt.up := by
  unfold closeUndoneDownload
  cases ht : s.cl.tight with
  | none => intro t2 h2; simp [ht] at h2
  | some tt =>
    simp only []
    by_cases hp : tt.dn.inProgress = true
    · rw [if_pos hp]
      intro t2 ht2
      have : t2 = { tt with dn := {} } := (Option.some.inj ht2).symm
      subst this
      exact ⟨rfl, fun t3 h3 => by cases h3; rfl⟩
    · rw [if_neg hp]
      intro t2 ht2
      rw [ht] at ht2; cases ht2
      refine ⟨?_, fun t3 h3 => by cases h3; rfl⟩
      cases hfd : tt.dn.fd with
      | none => rfl
      | some k => exact absurd ((h tt ht).2 k hfd) hp

/-- rfbCloseClient: the extension's close hook has closed what it forgets -/
theorem closeClient_xinv (s : S) (h : XInv s) : XInv (closeClient s) := by
  unfold closeClient
  cases ht : s.cl.tight with
  | none =>
    simp only []
    exact xinv_emit _ _ (by intro k; simp) (xinv_setCl _ _ rfl rfl rfl h)
  | some tt =>
    simp only []
    have h1 := closeUndoneUpload_xinv true s h
    have h2 := closeUndoneDownload_xinv true _ h1
    have hu := closeUndoneUpload_upfd true s h.2
    have hd := closeUndoneDownload_fds true _ h1.2
    apply xinv_emit _ _ (by intro k; simp)
    apply xinv_setCl _ _ rfl rfl rfl
    -- forgetting the extension data: both of its descriptor slots are empty
    obtain ⟨ha, hw⟩ := h2
    refine ⟨fun k hk => ?_, fun t2 h2 => by cases h2⟩
    rcases ha k hk with h3 | h3
    · rcases h3 with h3 | ⟨t2, ht2, h3 | h3⟩
      · exact Or.inl (Or.inl h3)
      · exfalso
        obtain ⟨_, hup⟩ := hd t2 ht2
        cases htu : (closeUndoneUpload true s).cl.tight with
        | none =>
          -- the download hook does not create extension data
          unfold closeUndoneDownload at ht2
          simp [htu] at ht2
        | some t1 =>
          have := hup t1 htu
          rw [this, hu t1 htu] at h3
          cases h3
      · exfalso
        rw [(hd t2 ht2).1] at h3
        cases h3
    · exact Or.inr h3
theorem consult_xinv (f) (s : S) (h : XInv s) : XInv (consult f s).2 := by
  unfold consult
  exact xinv_emit _ _ (by intro k; simp) (xinv_bumpCalls s h)
theorem macroCheck_xinv (cfg) (s : S) (h : XInv s) : XInv (macroCheck cfg s).2 := by
  have hc := fun f => consult_xinv f s h
  unfold macroCheck
  ftsplit
  all_goals first
    | exact xinv_emit _ _ (by intro k; simp) (hc _)
    | exact closeClient_xinv _ (xinv_emit _ _ (by intro k; simp) (hc _))
    | exact xinv_emit _ _ (by intro k; simp) h
    | exact closeClient_xinv _ (xinv_emit _ _ (by intro k; simp) h)
theorem chunkCheck_xinv (cfg) (s : S) (h : XInv s) : XInv (chunkCheck cfg s).2 := by
  have hc := fun f => consult_xinv f s h
  unfold chunkCheck
  ftsplit
  all_goals first
    | exact xinv_emit _ _ (by intro k; simp) (hc _)
    | exact xinv_emit _ _ (by intro k; simp) h
theorem translate_xinv (cfg p n) (s : S) (h : XInv s) : XInv (translate cfg p n s).2 := by
  have := macroCheck_xinv cfg s h
  unfold translate
  ftsplit
theorem readExact_xinv (n) (s : S) (h : XInv s) : XInv (readExact n s).2 := by
  unfold readExact
  ftsplit
  all_goals exact xinv_setCl _ _ rfl rfl rfl h
theorem sendMsg_xinv (cfg ct cp size len pl) (s : S) (h : XInv s) :
    XInv (sendMsg cfg ct cp size len pl s).2 := by
  have hm := macroCheck_xinv cfg s h
  unfold sendMsg
  ftsplit
  all_goals first
    | exact closeClient_xinv _ hm
    | exact xinv_emit _ _ (by intro k; simp) hm
theorem readBuffer_xinv (cfg n) (s : S) (h : XInv s) : XInv (readBuffer cfg n s).2 := by
  have hm := macroCheck_xinv cfg s h
  have hr := readExact_xinv n _ hm
  unfold readBuffer
  ftsplit
  all_goals first
    | exact closeClient_xinv _ hm
    | exact closeClient_xinv _ hr

/-! ### opening and replacing the recorded descriptor -/



theorem doOpen_got (k p m) (s : S) (h : Got k (doOpen p m s).2) : (doOpen p m s).1 = some k ∨ Got k s := by
  unfold doOpen at h ⊢
  simp only [] at h ⊢
  split at h
  · simp [popTok_got] at h; exact Or.inr h
  · split at h
    · rename_i hr
      simp only [hr, if_true]
      simp only [got_emit, reduceCtorEq, false_or] at h
      rcases h with h | h
      · left; simp at h; simp [h]
      · right; exact (popTok_got k s).mp h
    · simp [popTok_got] at h; exact Or.inr h
  · simp [popTok_got] at h; exact Or.inr h
theorem doOpen_closed (k p m) (s : S) (h : Closed k s) : Closed k (doOpen p m s).2 := by
  have hp := (popTok_closed k s).mpr h
  unfold doOpen
  simp only []
  split
  · exact closed_mono_emit _ _ _ hp
  · split
    · exact closed_mono_emit _ _ _ (closed_mono_emit _ _ _ hp)
    · exact closed_mono_emit _ _ _ (closed_mono_emit _ _ _ hp)
  · exact closed_mono_emit _ _ _ (closed_mono_emit _ _ _ hp)
theorem doFstat_got (k j) (s : S) : Got k (doFstat j s).2 ↔ Got k s := by
  unfold doFstat; ftsplit [popTok_got]
theorem doFstat_closed (k j) (s : S) (h : Closed k s) : Closed k (doFstat j s).2 := by
  have hp := (popTok_closed k s).mpr h
  unfold doFstat
  ftsplit
  all_goals first
    | exact closed_mono_emit _ _ _ hp
    | exact closed_mono_emit _ _ _ (closed_mono_emit _ _ _ hp)

theorem openForRead_cl (f) (s : S) : (openForRead f s).2.cl = s.cl := by
  unfold openForRead; ftsplit
theorem openForRead_got (k f) (s : S) (h : Got k (openForRead f s).2) :
    (openForRead f s).1.1 = some k ∨ Closed k (openForRead f s).2 ∨ Got k s := by
  unfold openForRead at h ⊢
  simp only [] at h ⊢
  cases ho : (doOpen f .rd s).1 with
  | none =>
    simp only [ho] at h ⊢
    rcases doOpen_got k f .rd s h with h1 | h1
    · rw [ho] at h1; exact absurd h1 (by simp)
    · exact Or.inr (Or.inr h1)
  | some j =>
    simp only [ho] at h ⊢
    cases hf : (doFstat j (doOpen f .rd s).2).1 with
    | some n =>
      simp only [hf] at h ⊢
      rcases doOpen_got k f .rd s ((doFstat_got k j _).mp h) with h1 | h1
      · rw [ho] at h1; left; exact h1
      · exact Or.inr (Or.inr h1)
    | none =>
      simp only [hf] at h ⊢
      rcases doOpen_got k f .rd s ((doFstat_got k j _).mp ((doClose_got k false j _).mp h)) with h1 | h1
      · rw [ho] at h1
        have : j = k := Option.some.inj h1
        subst this
        exact Or.inr (Or.inl (doClose_closed _ _ _))
      · exact Or.inr (Or.inr h1)
theorem openForRead_closed (k f) (s : S) (h : Closed k s) : Closed k (openForRead f s).2 := by
  unfold openForRead
  ftsplit
  all_goals first
    | exact doOpen_closed _ _ _ _ h
    | exact doFstat_closed _ _ _ (doOpen_closed _ _ _ _ h)
    | exact doClose_closed_mono _ _ _ _ (doFstat_closed _ _ _ (doOpen_closed _ _ _ _ h))

/-- the recorded descriptor is replaced by `r` in a state `s1` reached from `s0` without touching the
record: fine if the old one was closed on the way and every new descriptor is `r` or closed -/
theorem xinv_replace {s0 s1 : S} (r : Option Nat) (f : Client → Client) (h : XInv s0)
    (hcl : s1.cl = s0.cl)
    (hg : ∀ k, Got k s1 → r = some k ∨ Closed k s1 ∨ Got k s0)
    (hc : ∀ k, Closed k s0 → Closed k s1)
    (hold : ∀ k, s0.cl.xf.fd = some k → r = some k ∨ Closed k s1)
    (hf : (f s1.cl).xf.fd = r) (hte : (f s1.cl).tightExt = s1.cl.tightExt)
    (htt : (f s1.cl).tight = s1.cl.tight) : XInv (setCl f s1) := by
  obtain ⟨ha, hw⟩ := h
  refine ⟨fun k hk => ?_, ?_⟩
  · have hk1 : Got k s1 := hk
    show HeldC k (f s1.cl) ∨ Closed k s1
    rcases hg k hk1 with h3 | h3 | h3
    · exact Or.inl (Or.inl (by rw [hf]; exact h3))
    · exact Or.inr h3
    · rcases ha k h3 with h4 | h4
      · rcases h4 with h4 | h4
        · rcases hold k h4 with h5 | h5
          · exact Or.inl (Or.inl (by rw [hf]; exact h5))
          · exact Or.inr h5
        · left; right; rw [htt, hcl]; exact h4
      · exact Or.inr (hc k h4)
  · show TightWf (f s1.cl)
    unfold TightWf; rw [htt, hcl]; exact hw

@[simp] theorem macroCheck_xf (cfg) (s : S) : (macroCheck cfg s).2.cl.xf = s.cl.xf := by
  unfold macroCheck; ftsplit
@[simp] theorem sendMsg_xf (cfg ct cp size len pl) (s : S) : (sendMsg cfg ct cp size len pl s).2.cl.xf = s.cl.xf := by
  unfold sendMsg; ftsplit

/-- closing the recorded descriptor and clearing the record -/
theorem closeXf_xinv (fd) (s : S) (hfd : s.cl.xf.fd = some fd) (h : XInv s) :
    XInv (endTransfer (doClose false fd s)) := by
  unfold endTransfer
  refine xinv_replace (s0 := s) none _ h (doClose_cl _ _ _) ?_ ?_ ?_ rfl rfl rfl
  · intro k hk; exact Or.inr (Or.inr ((doClose_got k false fd s).mp hk))
  · intro k hk; exact doClose_closed_mono _ _ _ _ hk
  · intro k hk
    rw [hfd] at hk
    cases hk
    exact Or.inr (doClose_closed _ _ _)

theorem closeOld_xinv (s : S) (h : XInv s) : XInv (closeOld s) := by
  unfold closeOld; split
  · exact doClose_xinv _ _ _ h
  · exact h

/-! ### entry points -/

/-- the lemmas that move `XInv` through calls (used as conditional rewrite rules) -/
macro "xsplit" : tactic => `(tactic| (
  (try simp only []); (repeat' split);
  all_goals (try simp_all (maxDischargeDepth := 12) [xinv_emit, doClose_xinv, doSimple_xinv, doFstat_xinv, doRead_xinv, doWrite_xinv,
    doOpendir_xinv, doStat_xinv, doCompress_xinv, doUncompress_xinv, closeClient_xinv, consult_xinv,
    macroCheck_xinv, chunkCheck_xinv, translate_xinv, readExact_xinv, sendMsg_xinv, readBuffer_xinv,
    closeOld_xinv])))

theorem dirLoop_xinv (cfg path) (names : List Path) (s : S) (h : XInv s) : XInv (dirLoop cfg path names s) := by
  induction names generalizing s with
  | nil => unfold dirLoop; xsplit
  | cons name rest ih => unfold dirLoop; xsplit

theorem sendDirContent_xinv (cfg len buf) (s : S) (h : XInv s) : XInv (sendDirContent cfg len buf s) := by
  have hd := dirLoop_xinv cfg
  unfold sendDirContent; xsplit

theorem chunk_xinv (cfg) (s : S) (h : XInv s) : XInv (chunk cfg s).2 := by
  have hc := closeXf_xinv
  unfold chunk
  xsplit

theorem packetWrite_xinv (fd size len buf) (s : S) (h : XInv s) : XInv (packetWrite fd size len buf s).2 := by
  unfold packetWrite; xsplit
theorem deletePath_xinv (p) (s : S) (h : XInv s) : XInv (deletePath p s).2 := by
  unfold deletePath; xsplit

/-- the request's open block: old descriptor closed, file opened (and closed again when fstat
fails), result recorded -/
theorem requestOpen_xinv (fname) (c : Bool) (s : S) (h : XInv s) :
    XInv (setCl (fun cl => { cl with xf := { cl.xf with fd := (openForRead fname (closeOld s)).1.1, compression := c } })
      (openForRead fname (closeOld s)).2) := by
  have hcl0 : (closeOld s).cl = s.cl := by unfold closeOld; split <;> simp
  refine xinv_replace (s0 := s) ((openForRead fname (closeOld s)).1.1) _ h
    (by rw [openForRead_cl, hcl0]) ?_ ?_ ?_ rfl rfl rfl
  · intro k hk
    rcases openForRead_got k fname _ hk with h1 | h1 | h1
    · exact Or.inl h1
    · exact Or.inr (Or.inl h1)
    · right; right
      revert h1; unfold closeOld; split <;> simp [doClose_got]
  · intro k hk
    apply openForRead_closed
    unfold closeOld; split
    · exact doClose_closed_mono _ _ _ _ hk
    · exact hk
  · intro k hk
    right
    apply openForRead_closed
    unfold closeOld
    simp only [hk]
    exact doClose_closed _ _ _

theorem ftRequest_xinv (cfg size len) (s : S) (h : XInv s) : XInv (ftRequest cfg size len s) := by
  have h1 := readBuffer_xinv cfg len s h
  unfold ftRequest
  simp only []
  split
  · exact h1
  · split
    · exact translate_xinv _ _ _ _ h1
    · split
      · exact sendMsg_xinv _ _ _ _ _ _ _ (requestOpen_xinv _ _ _ (translate_xinv _ _ _ _ h1))
      · split
        · exact xinv_setCl _ _ rfl rfl rfl
            (sendMsg_xinv _ _ _ _ _ _ _ (requestOpen_xinv _ _ _ (translate_xinv _ _ _ _ h1)))
        · exact closeClient_xinv _ (xinv_setCl _ _ rfl rfl rfl
            (sendMsg_xinv _ _ _ _ _ _ _ (requestOpen_xinv _ _ _ (translate_xinv _ _ _ _ h1))))

/-- the offer's open block -/
theorem offerOpen_xinv (fname) (s : S) (h : XInv s) :
    XInv (setCl (fun cl => { cl with xf := { cl.xf with fd := (doOpen fname .wrct (closeOld s)).1 } })
      (doOpen fname .wrct (closeOld s)).2) := by
  have hcl0 : (closeOld s).cl = s.cl := by unfold closeOld; split <;> simp
  refine xinv_replace (s0 := s) ((doOpen fname .wrct (closeOld s)).1) _ h
    (by rw [doOpen_cl, hcl0]) ?_ ?_ ?_ rfl rfl rfl
  · intro k hk
    rcases doOpen_got k fname _ _ hk with h1 | h1
    · exact Or.inl h1
    · right; right
      revert h1; unfold closeOld; split <;> simp [doClose_got]
  · intro k hk
    apply doOpen_closed
    unfold closeOld; split
    · exact doClose_closed_mono _ _ _ _ hk
    · exact hk
  · intro k hk
    right
    apply doOpen_closed
    unfold closeOld
    simp only [hk]
    exact doClose_closed _ _ _

theorem ftOffer_xinv (cfg len) (s : S) (h : XInv s) : XInv (ftOffer cfg len s) := by
  have h1 := readBuffer_xinv cfg len s h
  unfold ftOffer
  simp only []
  split
  · exact h1
  · have h2 := readExact_xinv 4 _ h1
    split
    · exact closeClient_xinv _ h2
    · split
      · exact translate_xinv _ _ _ _ h2
      · split
        · exact sendMsg_xinv _ _ _ _ _ _ _ (offerOpen_xinv _ _ (translate_xinv _ _ _ _ h2))
        · exact xinv_setCl _ _ rfl rfl rfl
            (sendMsg_xinv _ _ _ _ _ _ _ (offerOpen_xinv _ _ (translate_xinv _ _ _ _ h2)))

theorem ftHeader_xinv (cfg size) (s : S) (h : XInv s) : XInv (ftHeader cfg size s) := by
  unfold ftHeader
  split
  · cases hfd : s.cl.xf.fd with
    | none => simp only []; exact xinv_setCl _ _ (by simp [hfd]) rfl rfl h
    | some k =>
      simp only []
      refine xinv_replace (s0 := s) none _ h (doClose_cl _ _ _) ?_ ?_ ?_ rfl rfl rfl
      · intro j hj; exact Or.inr (Or.inr ((doClose_got j false k s).mp hj))
      · intro j hj; exact doClose_closed_mono _ _ _ _ hj
      · intro j hj
        rw [hfd] at hj
        cases hj
        exact Or.inr (doClose_closed _ _ _)
  · exact chunk_xinv _ _ (xinv_setCl _ _ rfl rfl rfl h)

@[simp] theorem doUncompress_cl (n) (s : S) : (doUncompress n s).2.cl = s.cl := by unfold doUncompress; ftsplit
@[simp] theorem doCompress_cl (n) (s : S) : (doCompress n s).2.cl = s.cl := by unfold doCompress; ftsplit
@[simp] theorem packetWrite_cl (fd size len buf) (s : S) : (packetWrite fd size len buf s).2.cl = s.cl := by
  unfold packetWrite; ftsplit

theorem ftPacket_xinv (cfg size len) (s : S) (h : XInv s) : XInv (ftPacket cfg size len s) := by
  have h1 := readBuffer_xinv cfg len s h
  unfold ftPacket
  simp only []
  split
  · exact h1
  · split
    · exact h1
    · rename_i fd hfd
      split
      · exact packetWrite_xinv _ _ _ _ _ h1
      · exact closeXf_xinv fd _ (by simpa using hfd) (packetWrite_xinv _ _ _ _ _ h1)

theorem ftEof_xinv (s : S) (h : XInv s) : XInv (ftEof s) := by
  unfold ftEof
  cases hfd : s.cl.xf.fd with
  | none => simp only []; exact xinv_setCl _ _ (by simp [hfd]) rfl rfl h
  | some k => simp only []; exact closeXf_xinv k s hfd h

theorem ftAbort_xinv (cfg cp) (s : S) (h : XInv s) : XInv (ftAbort cfg cp s) := by
  unfold ftAbort
  cases hfd : s.cl.xf.fd with
  | some k => simp only []; exact closeXf_xinv k s hfd h
  | none => simp only []; xsplit

theorem ftCommand_xinv (cfg cp len) (s : S) (h : XInv s) : XInv (ftCommand cfg cp len s) := by
  have hd := deletePath_xinv
  unfold ftCommand
  xsplit

theorem processFT_xinv (cfg ct cp size len) (s : S) (h : XInv s) : XInv (processFT cfg ct cp size len s) := by
  have h1 := macroCheck_xinv cfg s h
  unfold processFT
  simp only []
  split
  · exact h1
  · split
    · split
      · exact sendMsg_xinv _ _ _ _ _ _ _ h1
      · split
        · split
          · exact readBuffer_xinv _ _ _ h1
          · exact sendDirContent_xinv _ _ _ _ (readBuffer_xinv _ _ _ h1)
        · exact h1
    · exact ftRequest_xinv _ _ _ _ h1
    · exact ftHeader_xinv _ _ _ h1
    · exact ftPacket_xinv _ _ _ _ h1
    · exact ftEof_xinv _ h1
    · exact ftAbort_xinv _ _ _ h1
    · exact ftOffer_xinv _ _ _ h1
    · exact ftCommand_xinv _ _ _ _ h1
    · exact h1

/-! ### TightVNC extension -/

/-- an update of the extension data that keeps both descriptor slots and both flags -/
theorem xinv_setTight (g : Tight → Tight) (s : S)
    (hu : ∀ t, (g t).up.fd = t.up.fd) (hd : ∀ t, (g t).dn.fd = t.dn.fd)
    (hup : ∀ t, (g t).up.inProgress = t.up.inProgress) (hdp : ∀ t, (g t).dn.inProgress = t.dn.inProgress)
    (h : XInv s) : XInv (setTight g s) := by
  obtain ⟨ha, hw⟩ := h
  refine ⟨fun k hk => ?_, ?_⟩
  · rcases ha k hk with h1 | h1
    · rcases h1 with h1 | ⟨t, ht, h1⟩
      · exact Or.inl (Or.inl h1)
      · left; right
        refine ⟨g t, by simp [setTight, setCl, ht], ?_⟩
        rw [hu, hd]; exact h1
    · exact Or.inr h1
  · intro t2 ht2
    cases ht : s.cl.tight with
    | none => simp [setTight, setCl, ht] at ht2
    | some t =>
      have : t2 = g t := by simp [setTight, setCl, ht] at ht2; exact ht2.symm
      subst this
      rw [hu, hd, hup, hdp]; exact hw t ht
theorem xinv_setUp_same (f) (s : S) (hfd : ∀ u, (f u).fd = u.fd) (hip : ∀ u, (f u).inProgress = u.inProgress)
    (h : XInv s) : XInv (setUp f s) :=
  xinv_setTight _ s (fun t => hfd t.up) (fun _ => rfl) (fun t => hip t.up) (fun _ => rfl) h
theorem xinv_setDn_same (f) (s : S) (hfd : ∀ u, (f u).fd = u.fd) (hip : ∀ u, (f u).inProgress = u.inProgress)
    (h : XInv s) : XInv (setDn f s) :=
  xinv_setTight _ s (fun _ => rfl) (fun t => hfd t.dn) (fun _ => rfl) (fun t => hip t.dn) h

/-- the extension's descriptor slots are rewritten by `g` in a state `s1` reached from `s0` without
touching the record: fine if every forgotten descriptor was closed on the way and every new
descriptor is recorded or closed -/
theorem xinv_replace_tight {s0 s1 : S} (g : Tight → Tight) (h : XInv s0) (hcl : s1.cl = s0.cl)
    (hg : ∀ k, Got k s1 →
      (∃ t, s0.cl.tight = some t ∧ ((g t).up.fd = some k ∨ (g t).dn.fd = some k)) ∨ Closed k s1 ∨ Got k s0)
    (hc : ∀ k, Closed k s0 → Closed k s1)
    (hold : ∀ t k, s0.cl.tight = some t → (t.up.fd = some k ∨ t.dn.fd = some k) →
      ((g t).up.fd = some k ∨ (g t).dn.fd = some k) ∨ Closed k s1)
    (hwf : ∀ t, s0.cl.tight = some t →
      (∀ k, (g t).up.fd = some k → (g t).up.inProgress = true) ∧
      (∀ k, (g t).dn.fd = some k → (g t).dn.inProgress = true)) :
    XInv (setTight g s1) := by
  obtain ⟨ha, hw⟩ := h
  have htm : ∀ t, s0.cl.tight = some t → (setTight g s1).cl.tight = some (g t) := by
    intro t ht; simp [setTight, setCl, hcl, ht]
  refine ⟨fun k hk => ?_, ?_⟩
  · have hk1 : Got k s1 := hk
    show HeldC k (setTight g s1).cl ∨ Closed k s1
    rcases hg k hk1 with ⟨t, ht, h3⟩ | h3 | h3
    · exact Or.inl (Or.inr ⟨g t, htm t ht, h3⟩)
    · exact Or.inr h3
    · rcases ha k h3 with h4 | h4
      · rcases h4 with h4 | ⟨t, ht, h4⟩
        · left; left
          show s1.cl.xf.fd = some k
          rw [hcl]; exact h4
        · rcases hold t k ht h4 with h5 | h5
          · exact Or.inl (Or.inr ⟨g t, htm t ht, h5⟩)
          · exact Or.inr h5
      · exact Or.inr (hc k h4)
  · intro t2 ht2
    cases ht : s0.cl.tight with
    | none => simp [setTight, setCl, hcl, ht] at ht2
    | some t =>
      rw [htm t ht] at ht2
      cases ht2
      exact hwf t ht

theorem twire_xinv (w) (s : S) (h : XInv s) : XInv (twire w s) :=
  xinv_emit _ _ (by intro k; simp) h

theorem tListLoop_xinv (path wf) (names : List Path) (acc) (s : S) (h : XInv s) :
    XInv (tListLoop path wf names acc s).2 := by
  induction names generalizing s acc with
  | nil => unfold tListLoop; exact h
  | cons name rest ih =>
    unfold tListLoop
    simp only []
    split
    · exact ih _ _ h
    · split <;> exact ih _ _ (doStat_xinv _ _ h)
theorem tListDir_xinv (flags path) (s : S) (h : XInv s) : XInv (tListDir flags path s) := by
  unfold tListDir
  simp only []
  split
  · exact twire_xinv _ _ (doOpendir_xinv _ _ h)
  · exact twire_xinv _ _ (xinv_emit _ _ (by intro k; simp) (tListLoop_xinv _ _ _ _ _ (doOpendir_xinv _ _ h)))
theorem tList_xinv (cfg) (s : S) (h : XInv s) : XInv (tList cfg s) := by
  have h1 := readExact_xinv 3 s h
  unfold tList
  simp only []
  split
  · exact closeClient_xinv _ h1
  · split
    · exact h1
    · split
      · exact closeClient_xinv _ (readExact_xinv _ _ h1)
      · split
        · exact readExact_xinv _ _ h1
        · exact tListDir_xinv _ _ _ (readExact_xinv _ _ h1)
theorem tLengthError_xinv (n w) (s : S) (h : XInv s) : XInv (tLengthError n w s) := by
  unfold tLengthError
  simp only []
  split
  · exact closeClient_xinv _ (readExact_xinv _ _ h)
  · exact twire_xinv _ _ (readExact_xinv _ _ h)

/-- end of a download: the descriptor is closed, then forgotten -/
theorem tDownloadEnd_xinv (fd w) (s : S) (hfd : ∀ t, s.cl.tight = some t → t.dn.fd = some fd) (h : XInv s) :
    XInv (tDownloadEnd fd w s) := by
  unfold tDownloadEnd
  apply twire_xinv
  refine xinv_replace_tight (s0 := s) _ h (doClose_cl _ _ _) ?_ ?_ ?_ ?_
  · intro k hk; exact Or.inr (Or.inr ((doClose_got k false fd s).mp hk))
  · intro k hk; exact doClose_closed_mono _ _ _ _ hk
  · intro t k ht hk
    rcases hk with hk | hk
    · exact Or.inl (Or.inl hk)
    · right
      rw [hfd t ht] at hk; cases hk
      exact doClose_closed _ _ _
  · intro t ht
    exact ⟨(h.2 t ht).1, fun k hk => by simp at hk⟩

theorem tDownloadLoop_xinv (fd fuel) (s : S) (hfd : ∀ t, s.cl.tight = some t → t.dn.fd = some fd)
    (h : XInv s) : XInv (tDownloadLoop fd fuel s) := by
  induction fuel generalizing s with
  | zero => unfold tDownloadLoop; exact h
  | succ n ih =>
    have h1 := doRead_xinv fd s h
    have hfd1 : ∀ t, (doRead fd s).2.cl.tight = some t → t.dn.fd = some fd := by
      intro t ht; rw [doRead_cl] at ht; exact hfd t ht
    unfold tDownloadLoop
    simp only []
    split
    · exact tDownloadEnd_xinv _ _ _ hfd1 h1
    · exact tDownloadEnd_xinv _ _ _ hfd1 h1
    · exact ih _ (by intro t ht; exact hfd1 t ht) (twire_xinv _ _ h1)

theorem doOpen_fail_xinv (p m) (s : S) (hn : (doOpen p m s).1 = none) (h : XInv s) : XInv (doOpen p m s).2 := by
  refine xinv_step (s := s) (by rw [doOpen_cl]) (by rw [doOpen_cl]) ?_ (fun k hk => doOpen_closed _ _ _ _ hk) h
  intro k hk
  rcases doOpen_got k p m s hk with h1 | h1
  · rw [hn] at h1; cases h1
  · exact h1

theorem tDownloadRun_xinv (path) (s : S) (h : XInv s) : XInv (tDownloadRun path s) := by
  unfold tDownloadRun
  cases ht : s.cl.tight with
  | none => exact h
  | some t =>
    simp only []
    split
    · rename_i hidle
      cases ho : (doOpen path .rd s).1 with
      | none =>
        simp only [ho]
        exact twire_xinv _ _ (doOpen_fail_xinv _ _ _ ho h)
      | some k =>
        simp only [ho]
        apply tDownloadLoop_xinv
        · intro t2 ht2
          simp only [setDn_tight, doOpen_cl, ht, Option.map_some, Option.some.injEq] at ht2
          subst ht2; rfl
        · refine xinv_replace_tight (s0 := s) _ h (doOpen_cl _ _ _) ?_ ?_ ?_ ?_
          · intro j hj
            rcases doOpen_got j path .rd s hj with h1 | h1
            · left
              rw [ho] at h1
              exact ⟨t, ht, Or.inr (by simpa using h1)⟩
            · exact Or.inr (Or.inr h1)
          · intro j hj; exact doOpen_closed _ _ _ _ hj
          · intro t2 j ht2 hj
            rw [ht] at ht2; cases ht2
            rcases hj with hj | hj
            · exact Or.inl (Or.inl hj)
            · exfalso
              simp only [Bool.not_eq_true', Option.isNone_iff_eq_none] at hidle
              rw [hidle.2] at hj; cases hj
          · intro t2 ht2
            rw [ht] at ht2; cases ht2
            exact ⟨(h.2 t ht).1, fun _ _ => rfl⟩
    · exact twire_xinv _ _ h

theorem tDownloadPath_xinv (path) (s : S) (h : XInv s) : XInv (tDownloadPath path s) := by
  have h0 := xinv_setDn_same (fun d => { d with fName := path }) s (fun _ => rfl) (fun _ => rfl) h
  have h1 := doStat_xinv path _ h0
  unfold tDownloadPath
  simp only []
  split
  · split
    · exact twire_xinv _ _ h1
    · exact tDownloadRun_xinv _ _ (closeUndoneDownload_xinv _ _ h1)
  · exact twire_xinv _ _ h1

theorem tDownload_xinv (cfg) (s : S) (h : XInv s) : XInv (tDownload cfg s) := by
  have h1 := readExact_xinv 7 s h
  unfold tDownload
  simp only []
  split
  · exact closeClient_xinv _ h1
  · split
    · exact tLengthError_xinv _ _ _ h1
    · have h2 := readExact_xinv (be16 ((‹Bytes›).getD 1 0) ((‹Bytes›).getD 2 0)) _ h1
      split
      · exact closeClient_xinv _ (readExact_xinv _ _ h1)
      · split
        · exact twire_xinv _ _ (xinv_setDn_same _ _ (fun _ => rfl) (fun _ => rfl) (readExact_xinv _ _ h1))
        · exact tDownloadPath_xinv _ _ (readExact_xinv _ _ h1)

/-- HandleFileUpload: the old upload descriptor is closed before the record is reset (the fix), the
new one is recorded together with its in-progress flag -/
theorem tUploadPath_xinv (path) (s : S) (hs : ∃ t, s.cl.tight = some t) (h : XInv s) :
    XInv (tUploadPath path s) := by
  obtain ⟨t, ht⟩ := hs
  unfold tUploadPath
  simp only []
  -- step A: close the old descriptor, reset the upload half
  have hA : XInv (setUp (fun _ => ({ fd := none, inProgress := false, fName := path } : TSide))
      (closeOpt false (s.cl.tight.bind (·.up.fd)) s)) := by
    refine xinv_replace_tight (s0 := s) _ h (closeOpt_cl _ _ _) ?_ ?_ ?_ ?_
    · intro k hk; exact Or.inr (Or.inr ((closeOpt_got k false _ s).mp hk))
    · intro k hk; exact closeOpt_closed_mono _ _ _ _ hk
    · intro t2 k ht2 hk
      rw [ht] at ht2; cases ht2
      rcases hk with hk | hk
      · right
        have : s.cl.tight.bind (·.up.fd) = some k := by simp [ht, hk]
        rw [this]; exact closeOpt_closed _ _ _
      · exact Or.inl (Or.inr hk)
    · intro t2 ht2
      exact ⟨fun k hk => by simp at hk, (h.2 t2 ht2).2⟩
  have hAt : (setUp (fun _ => ({ fd := none, inProgress := false, fName := path } : TSide))
      (closeOpt false (s.cl.tight.bind (·.up.fd)) s)).cl.tight
      = some { t with up := { fd := none, inProgress := false, fName := path } } := by
    simp [setUp_tight, closeOpt_cl, ht]
  show XInv (match (doOpen path .wrct (setUp _ (closeOpt false (s.cl.tight.bind (·.up.fd)) s))).1 with
    | none => twire _ (doOpen path .wrct (setUp _ (closeOpt false (s.cl.tight.bind (·.up.fd)) s))).2
    | some k => setUp _ (doOpen path .wrct (setUp _ (closeOpt false (s.cl.tight.bind (·.up.fd)) s))).2)
  generalize hsA : setUp (fun _ => ({ fd := none, inProgress := false, fName := path } : TSide))
      (closeOpt false (s.cl.tight.bind (·.up.fd)) s) = sA at hA hAt
  cases ho : (doOpen path .wrct sA).1 with
  | none => exact twire_xinv _ _ (doOpen_fail_xinv _ _ _ ho hA)
  | some k =>
    refine xinv_replace_tight (s0 := sA) _ hA (doOpen_cl _ _ _) ?_ ?_ ?_ ?_
    · intro j hj
      rcases doOpen_got j path .wrct sA hj with h1 | h1
      · left
        rw [ho] at h1
        exact ⟨_, hAt, Or.inl (by simpa using h1)⟩
      · exact Or.inr (Or.inr h1)
    · intro j hj; exact doOpen_closed _ _ _ _ hj
    · intro t2 j ht2 hj
      rw [hAt] at ht2; cases ht2
      rcases hj with hj | hj
      · simp at hj
      · exact Or.inl (Or.inr hj)
    · intro t2 ht2
      rw [hAt] at ht2; cases ht2
      exact ⟨fun _ _ => rfl, (hA.2 _ hAt).2⟩

theorem tUpload_xinv (cfg) (s : S) (hs : ∃ t, s.cl.tight = some t) (h : XInv s) : XInv (tUpload cfg s) := by
  have h1 := readExact_xinv 7 s h
  unfold tUpload
  simp only []
  split
  · exact closeClient_xinv _ h1
  · split
    · exact tLengthError_xinv _ _ _ h1
    · split
      · exact closeClient_xinv _ (readExact_xinv _ _ h1)
      · split
        · exact twire_xinv _ _ (xinv_setUp_same _ _ (fun _ => rfl) (fun _ => rfl) (readExact_xinv _ _ h1))
        · exact tUploadPath_xinv _ _ (by simpa using hs) (readExact_xinv _ _ h1)

theorem tUploadComplete_xinv (s : S) (h : XInv s) : XInv (tUploadComplete s) := by
  unfold tUploadComplete
  cases ht : s.cl.tight with
  | none => exact h
  | some t =>
    simp only []
    cases hfd : t.up.fd with
    | none => exact doSimple_xinv _ _ _ h
    | some k =>
      simp only []
      refine xinv_replace_tight (s0 := s) _ h (by rw [doClose_cl, doSimple_cl]) ?_ ?_ ?_ ?_
      · intro j hj
        exact Or.inr (Or.inr ((doSimple_got j false _ s).mp ((doClose_got j false k _).mp hj)))
      · intro j hj; exact doClose_closed_mono _ _ _ _ (doSimple_closed_mono _ _ _ _ hj)
      · intro t2 j ht2 hj
        rw [ht] at ht2; cases ht2
        rcases hj with hj | hj
        · right
          rw [hfd] at hj; cases hj
          exact doClose_closed _ _ _
        · exact Or.inl (Or.inr hj)
      · intro t2 ht2
        exact ⟨fun j hj => by simp at hj, (h.2 t2 ht2).2⟩

theorem tUploadWrite_xinv (c b) (s : S) (h : XInv s) : XInv (tUploadWrite c b s) := by
  unfold tUploadWrite
  cases ht : s.cl.tight with
  | none => exact h
  | some t =>
    simp only []
    split
    · split
      · exact doWrite_xinv _ _ _ _ h
      · exact twire_xinv _ _ (closeUndoneUpload_xinv _ _ (doWrite_xinv _ _ _ _ h))
    · exact twire_xinv _ _ (closeUndoneUpload_xinv _ _ h)

theorem tUploadData_xinv (s : S) (h : XInv s) : XInv (tUploadData s) := by
  have h1 := readExact_xinv 5 s h
  unfold tUploadData
  simp only []
  split
  · exact closeClient_xinv _ h1
  · split
    · split
      · exact closeClient_xinv _ (readExact_xinv _ _ h1)
      · exact tUploadComplete_xinv _ (readExact_xinv _ _ h1)
    · split
      · exact closeClient_xinv _ (readExact_xinv _ _ h1)
      · split
        · exact closeUndoneUpload_xinv _ _ (twire_xinv _ _ (readExact_xinv _ _ h1))
        · exact tUploadWrite_xinv _ _ _ (readExact_xinv _ _ h1)

theorem tReason_xinv (u) (s : S) (h : XInv s) : XInv (tReason u s) := by
  have h1 := readExact_xinv 3 s h
  unfold tReason
  simp only []
  split
  · exact closeClient_xinv _ h1
  · split
    · exact h1
    · split
      · exact closeClient_xinv _ (readExact_xinv _ _ h1)
      · split
        · exact closeUndoneUpload_xinv _ _ (readExact_xinv _ _ h1)
        · exact closeUndoneDownload_xinv _ _ (readExact_xinv _ _ h1)

theorem tMkdir_xinv (cfg) (s : S) (h : XInv s) : XInv (tMkdir cfg s) := by
  have h1 := readExact_xinv 3 s h
  unfold tMkdir
  simp only []
  split
  · exact closeClient_xinv _ h1
  · split
    · exact closeClient_xinv _ h1
    · split
      · exact closeClient_xinv _ (readExact_xinv _ _ h1)
      · split
        · exact readExact_xinv _ _ h1
        · exact doSimple_xinv _ _ _ (readExact_xinv _ _ h1)

theorem tightMsg_xinv (cfg ty) (s : S) (h : XInv s) : XInv (tightMsg cfg ty s) := by
  have h0 := fun b => xinv_emit (.chk b) s (by intro k; simp) h
  unfold tightMsg
  split
  · exact closeClient_xinv _ (h0 _)
  · split
    · exact closeClient_xinv _ (closeClient_xinv _ (h0 _))
    · cases ht : s.cl.tight with
      | none => exact closeClient_xinv _ (closeClient_xinv _ (h0 _))
      | some t =>
        simp only []
        split
        · exact tList_xinv _ _ (h0 _)
        · exact tDownload_xinv _ _ (h0 _)
        · exact tUpload_xinv _ _ ⟨t, ht⟩ (h0 _)
        · exact tUploadData_xinv _ (h0 _)
        · exact tReason_xinv _ _ (h0 _)
        · exact tReason_xinv _ _ (h0 _)
        · exact tMkdir_xinv _ _ (h0 _)
        · exact closeClient_xinv _ (h0 _)

theorem stepMsg_xinv (cfg) (s : S) (h : XInv s) : XInv (stepMsg cfg s) := by
  have h0 := xinv_emit .start s (by intro k; simp) h
  unfold stepMsg
  simp only []
  split
  · exact h0
  · split
    · exact xinv_emit _ _ (by intro k; simp) (xinv_setCl _ _ rfl rfl rfl h0)
    · have h1 := readExact_xinv 1 _ h0
      split
      · exact closeClient_xinv _ h1
      · split
        · have h2 := readExact_xinv 11 _ h1
          split
          · exact closeClient_xinv _ h2
          · exact processFT_xinv _ _ _ _ _ _ h2
        · exact tightMsg_xinv _ _ _ h1

theorem chunkEntry_xinv (cfg) (s : S) (h : XInv s) : XInv (chunkEntry cfg s).2 :=
  chunk_xinv _ _ (xinv_emit .start s (by intro k; simp) h)

theorem peerGone_xinv (s : S) (h : XInv s) : XInv (peerGone s) :=
  closeClient_xinv _ (xinv_setCl _ _ rfl rfl rfl (xinv_emit .start s (by intro k; simp) h))

theorem reapClient_xinv (s : S) (h : XInv s) : XInv (reapClient s) := by
  have h0 := xinv_emit .start s (by intro k; simp) h
  unfold reapClient
  cases hfd : s.cl.xf.fd with
  | none => simp only []; exact h0
  | some k =>
    simp only []
    refine xinv_replace (s0 := emit .start s) none _ h0 rfl ?_ ?_ ?_ rfl rfl rfl
    · intro j hj
      right; right
      simpa using hj
    · intro j hj; exact closed_mono_emit _ _ _ hj
    · intro j hj
      have : k = j := by simpa [hfd] using hj
      subst this
      right; simp [isCloseOf]

theorem pump_xinv (cfg) (fuel : Nat) (s : S) (h : XInv s) : XInv (pump cfg fuel s) := by
  induction fuel generalizing s with
  | zero => exact h
  | succ n ih =>
    unfold pump; split
    · exact h
    · exact ih _ (stepMsg_xinv cfg s h)

theorem sessStep_xinv (cfg) (s : S) (h : XInv s) (i : Input) : XInv (sessStep cfg s i) := by
  cases i with
  | bytes b =>
    simp only [sessStep]; split
    · exact pump_xinv cfg _ _ (xinv_setCl _ _ rfl rfl rfl h)
    · exact h
  | chunk => exact chunkEntry_xinv cfg s h
  | gone => simp only [sessStep]; split; exact peerGone_xinv s h; exact h
  | reap => simp only [sessStep]; split; exact h; exact reapClient_xinv s h

theorem runSession_xinv (cfg) (inputs : List Input) (s : S) (h : XInv s) : XInv (runSession cfg s inputs) := by
  induction inputs generalizing s with
  | nil => exact h
  | cons i rest ih => exact ih _ (sessStep_xinv cfg s h i)

/-- after the teardown the record is empty -/
theorem teardown_not_held (s : S) (k : Nat) : ¬ HeldC k (reapClient (peerGone s)).cl := by
  have ht : (reapClient (peerGone s)).cl.tight = none := by
    unfold reapClient peerGone
    split <;> simp [setCl, closeClient_tight]
  have hx : (reapClient (peerGone s)).cl.xf.fd = none := by
    unfold reapClient
    split <;> simp_all [setCl]
  intro h
  rcases h with h | ⟨t, h, _⟩
  · rw [hx] at h; cases h
  · rw [ht] at h; cases h

/-! ### directory handles: every successful opendir is closed before its handler returns -/

def dirDelta : Ev → Int
  | .dirOpened => 1
  | .fs .closedir _ => -1
  | _ => 0

/-- directory handles open according to the trace -/
def dirDepth (evs : List Ev) : Int := (evs.map dirDelta).sum
def DD (s : S) : Int := dirDepth s.evs

@[simp] theorem dd_emit (e) (s : S) : DD (emit e s) = dirDelta e + DD s := by
  simp [DD, dirDepth, emit]
@[simp] theorem dd_setCl (f) (s : S) : DD (setCl f s) = DD s := rfl
@[simp] theorem dd_setNextFd (k) (s : S) : DD (setNextFd k s) = DD s := rfl
@[simp] theorem dd_bumpCalls (s : S) : DD (bumpCalls s) = DD s := rfl
@[simp] theorem dd_setTight (f) (s : S) : DD (setTight f s) = DD s := rfl
@[simp] theorem dd_setUp (f) (s : S) : DD (setUp f s) = DD s := rfl
@[simp] theorem dd_setDn (f) (s : S) : DD (setDn f s) = DD s := rfl
@[simp] theorem dd_endTransfer (s : S) : DD (endTransfer s) = DD s := rfl
@[simp] theorem dd_twire (w) (s : S) : DD (twire w s) = DD s := by simp [twire, dirDelta]
@[simp] theorem dd_popTok (s : S) : DD (popTok s).2 = DD s := by unfold popTok; split <;> rfl

/-- unfold, split every branch, rewrite with the `DD` lemmas, finish with linear arithmetic -/
macro "ddsplit" : tactic => `(tactic| (
  (try simp only []); (repeat' split);
  all_goals (try simp_all (maxDischargeDepth := 12) [dirDelta]);
  all_goals (try omega)))

@[simp] theorem dd_doClose (t k) (s : S) : DD (doClose t k s) = DD s := by unfold doClose; ddsplit
@[simp] theorem dd_doSimple (t e) (s : S) (h : e ≠ .closedir) : DD (doSimple t e s).2 = DD s := by
  unfold doSimple; cases e <;> simp_all <;> ddsplit
@[simp] theorem dd_doOpen (p m) (s : S) : DD (doOpen p m s).2 = DD s := by unfold doOpen; ddsplit
@[simp] theorem dd_doFstat (k) (s : S) : DD (doFstat k s).2 = DD s := by unfold doFstat; ddsplit
@[simp] theorem dd_doRead (k) (s : S) : DD (doRead k s).2 = DD s := by unfold doRead; ddsplit
@[simp] theorem dd_doWrite (k n h) (s : S) : DD (doWrite k n h s).2 = DD s := by unfold doWrite; ddsplit
@[simp] theorem dd_doStat (p) (s : S) : DD (doStat p s).2 = DD s := by unfold doStat; ddsplit
@[simp] theorem dd_doCompress (n) (s : S) : DD (doCompress n s).2 = DD s := by unfold doCompress; ddsplit
@[simp] theorem dd_doUncompress (n) (s : S) : DD (doUncompress n s).2 = DD s := by unfold doUncompress; ddsplit
/-- opendir: one more handle exactly when it succeeded -/
theorem dd_doOpendir (p) (s : S) :
    DD (doOpendir p s).2 = DD s + (if (doOpendir p s).1.isSome then 1 else 0) := by
  unfold doOpendir; ddsplit

@[simp] theorem dd_closeUndoneUpload (t) (s : S) : DD (closeUndoneUpload t s) = DD s := by
  unfold closeUndoneUpload; ddsplit
@[simp] theorem dd_closeUndoneDownload (t) (s : S) : DD (closeUndoneDownload t s) = DD s := by
  unfold closeUndoneDownload; ddsplit
@[simp] theorem dd_closeClient (s : S) : DD (closeClient s) = DD s := by unfold closeClient; ddsplit
@[simp] theorem dd_consult (f) (s : S) : DD (consult f s).2 = DD s := by unfold consult; ddsplit
@[simp] theorem dd_macroCheck (cfg) (s : S) : DD (macroCheck cfg s).2 = DD s := by unfold macroCheck; ddsplit
@[simp] theorem dd_chunkCheck (cfg) (s : S) : DD (chunkCheck cfg s).2 = DD s := by unfold chunkCheck; ddsplit
@[simp] theorem dd_translate (cfg p n) (s : S) : DD (translate cfg p n s).2 = DD s := by unfold translate; ddsplit
@[simp] theorem dd_sendMsg (cfg ct cp size len pl) (s : S) : DD (sendMsg cfg ct cp size len pl s).2 = DD s := by
  unfold sendMsg; ddsplit
@[simp] theorem dd_readExact (n) (s : S) : DD (readExact n s).2 = DD s := by unfold readExact; ddsplit
@[simp] theorem dd_readBuffer (cfg n) (s : S) : DD (readBuffer cfg n s).2 = DD s := by unfold readBuffer; ddsplit

/-- the readdir loop of rfbSendDirContent closes the handle on every path -/
theorem dd_dirLoop (cfg path) (names : List Path) (s : S) : DD (dirLoop cfg path names s) = DD s - 1 := by
  induction names generalizing s with
  | nil => unfold dirLoop; ddsplit
  | cons name rest ih => unfold dirLoop; ddsplit
@[simp] theorem dd_sendDirContent (cfg len buf) (s : S) : DD (sendDirContent cfg len buf s) = DD s := by
  have hd := dd_dirLoop cfg
  have ho := dd_doOpendir
  unfold sendDirContent; ddsplit
@[simp] theorem dd_chunk (cfg) (s : S) : DD (chunk cfg s).2 = DD s := by unfold chunk; ddsplit
@[simp] theorem dd_closeOld (s : S) : DD (closeOld s) = DD s := by unfold closeOld; ddsplit
@[simp] theorem dd_openForRead (f) (s : S) : DD (openForRead f s).2 = DD s := by unfold openForRead; ddsplit
@[simp] theorem dd_ftRequest (cfg size len) (s : S) : DD (ftRequest cfg size len s) = DD s := by
  unfold ftRequest; ddsplit
@[simp] theorem dd_ftHeader (cfg size) (s : S) : DD (ftHeader cfg size s) = DD s := by unfold ftHeader; ddsplit
@[simp] theorem dd_ftOffer (cfg len) (s : S) : DD (ftOffer cfg len s) = DD s := by unfold ftOffer; ddsplit
@[simp] theorem dd_packetWrite (fd size len buf) (s : S) : DD (packetWrite fd size len buf s).2 = DD s := by
  unfold packetWrite; ddsplit
@[simp] theorem dd_ftPacket (cfg size len) (s : S) : DD (ftPacket cfg size len s) = DD s := by unfold ftPacket; ddsplit
@[simp] theorem dd_ftEof (s : S) : DD (ftEof s) = DD s := by unfold ftEof; ddsplit
@[simp] theorem dd_ftAbort (cfg cp) (s : S) : DD (ftAbort cfg cp s) = DD s := by unfold ftAbort; ddsplit
@[simp] theorem dd_deletePath (p) (s : S) : DD (deletePath p s).2 = DD s := by unfold deletePath; ddsplit
@[simp] theorem dd_ftCommand (cfg cp len) (s : S) : DD (ftCommand cfg cp len s) = DD s := by unfold ftCommand; ddsplit
@[simp] theorem dd_processFT (cfg ct cp size len) (s : S) : DD (processFT cfg ct cp size len s) = DD s := by
  unfold processFT; ddsplit

@[simp] theorem dd_tListLoop (path wf) (names : List Path) (acc) (s : S) : DD (tListLoop path wf names acc s).2 = DD s := by
  induction names generalizing s acc with
  | nil => unfold tListLoop; rfl
  | cons name rest ih => unfold tListLoop; ddsplit
@[simp] theorem dd_tListDir (flags path) (s : S) : DD (tListDir flags path s) = DD s := by
  have ho := dd_doOpendir
  unfold tListDir; ddsplit
@[simp] theorem dd_tList (cfg) (s : S) : DD (tList cfg s) = DD s := by unfold tList; ddsplit
@[simp] theorem dd_tLengthError (n w) (s : S) : DD (tLengthError n w s) = DD s := by unfold tLengthError; ddsplit
@[simp] theorem dd_tDownloadLoop (fd fuel) (s : S) : DD (tDownloadLoop fd fuel s) = DD s := by
  induction fuel generalizing s with
  | zero => unfold tDownloadLoop; rfl
  | succ n ih => unfold tDownloadLoop tDownloadEnd; ddsplit
@[simp] theorem dd_tDownloadRun (path) (s : S) : DD (tDownloadRun path s) = DD s := by unfold tDownloadRun; ddsplit
@[simp] theorem dd_tDownloadPath (path) (s : S) : DD (tDownloadPath path s) = DD s := by unfold tDownloadPath; ddsplit
@[simp] theorem dd_tDownload (cfg) (s : S) : DD (tDownload cfg s) = DD s := by unfold tDownload; ddsplit
@[simp] theorem dd_tUploadPath (path) (s : S) : DD (tUploadPath path s) = DD s := by unfold tUploadPath; ddsplit
@[simp] theorem dd_tUpload (cfg) (s : S) : DD (tUpload cfg s) = DD s := by unfold tUpload; ddsplit
@[simp] theorem dd_tUploadComplete (s : S) : DD (tUploadComplete s) = DD s := by unfold tUploadComplete; ddsplit
@[simp] theorem dd_tUploadWrite (c b) (s : S) : DD (tUploadWrite c b s) = DD s := by unfold tUploadWrite; ddsplit
@[simp] theorem dd_tUploadData (s : S) : DD (tUploadData s) = DD s := by unfold tUploadData; ddsplit
@[simp] theorem dd_tReason (u) (s : S) : DD (tReason u s) = DD s := by unfold tReason; ddsplit
@[simp] theorem dd_tMkdir (cfg) (s : S) : DD (tMkdir cfg s) = DD s := by unfold tMkdir; ddsplit
@[simp] theorem dd_tightMsg (cfg ty) (s : S) : DD (tightMsg cfg ty s) = DD s := by unfold tightMsg; ddsplit
@[simp] theorem dd_stepMsg (cfg) (s : S) : DD (stepMsg cfg s) = DD s := by unfold stepMsg; ddsplit
@[simp] theorem dd_pump (cfg fuel) (s : S) : DD (pump cfg fuel s) = DD s := by
  induction fuel generalizing s with
  | zero => rfl
  | succ n ih => unfold pump; ddsplit
@[simp] theorem dd_chunkEntry (cfg) (s : S) : DD (chunkEntry cfg s).2 = DD s := by
  unfold chunkEntry; simp [dirDelta]
@[simp] theorem dd_peerGone (s : S) : DD (peerGone s) = DD s := by unfold peerGone; simp [dirDelta]
@[simp] theorem dd_reapClient (s : S) : DD (reapClient s) = DD s := by unfold reapClient; ddsplit
theorem dd_sessStep (cfg) (s : S) (i : Input) : DD (sessStep cfg s i) = DD s := by
  cases i <;> simp only [sessStep] <;> ddsplit
theorem dd_runSession (cfg) (inputs : List Input) (s : S) : DD (runSession cfg s inputs) = DD s := by
  induction inputs generalizing s with
  | nil => rfl
  | cons i rest ih => exact (ih _).trans (dd_sessStep cfg s i)

end VncModel.FileXfer
