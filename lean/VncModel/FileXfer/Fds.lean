/-
C19 — lemmas: descriptor accounting for the UltraVNC transfer descriptor (`cl->fileTransfer.fd`).
For a client that does not use the TightVNC extension: every descriptor an `open` of the
file-transfer code ever produced is, at any later time, either the one recorded in
`fileTransfer.fd` or has been closed — no handler forgets or overwrites a descriptor without
closing it (`XInv`), and teardown closes the recorded one.
-/
import VncModel.FileXfer.Session

namespace VncModel.FileXfer

/-- descriptor `k` was produced by an `open` in the trace -/
def Got (k : Nat) (s : S) : Prop := Ev.got k ∈ s.evs

def isCloseOf (k : Nat) : Ev → Bool
  | .fs (.close j) _ => j == k
  | .cleanup (.close j) _ => j == k
  | _ => false

/-- a `close(k)` is in the trace (by a handler or by teardown) -/
def Closed (k : Nat) (s : S) : Prop := ∃ e ∈ s.evs, isCloseOf k e = true

/-- accounting invariant, for a client without the TightVNC extension -/
def XInv (s : S) : Prop :=
  (∀ k, Got k s → s.cl.xf.fd = some k ∨ Closed k s) ∧ s.cl.tightExt = false ∧ s.cl.tight = none

@[simp] theorem got_emit (k e) (s : S) : Got k (emit e s) ↔ (e = .got k ∨ Got k s) := by
  simp [Got, emit, eq_comm]
@[simp] theorem closed_emit (k e) (s : S) : Closed k (emit e s) ↔ (isCloseOf k e = true ∨ Closed k s) := by
  simp [Closed, emit]

/-- the generic step: the record's descriptor, extension flag and data are kept, nothing new was
opened, nothing closed is forgotten -/
theorem xinv_step {s s' : S} (hx : s'.cl.xf.fd = s.cl.xf.fd) (hte : s'.cl.tightExt = s.cl.tightExt)
    (htt : s.cl.tight = none → s'.cl.tight = none) (hg : ∀ k, Got k s' → Got k s)
    (hc : ∀ k, Closed k s → Closed k s') (h : XInv s) : XInv s' := by
  obtain ⟨ha, h1, h2⟩ := h
  refine ⟨fun k hk => ?_, by rw [hte]; exact h1, htt h2⟩
  rcases ha k (hg k hk) with h3 | h3
  · left; rw [hx]; exact h3
  · right; exact hc k h3

/-- an event that neither opens nor closes -/
theorem xinv_emit (e) (s : S) (hg : ∀ k, e ≠ .got k) (h : XInv s) : XInv (emit e s) :=
  xinv_step (s := s) (s' := emit e s) rfl rfl (fun h => h) (fun k hk => by
    rcases (got_emit k e s).mp hk with h1 | h1
    · exact absurd h1 (hg k)
    · exact h1) (fun k hk => (closed_emit k e s).mpr (Or.inr hk)) h

theorem xinv_setCl (f) (s : S) (hx : (f s.cl).xf.fd = s.cl.xf.fd) (hte : (f s.cl).tightExt = s.cl.tightExt)
    (htt : (f s.cl).tight = s.cl.tight) (h : XInv s) : XInv (setCl f s) :=
  xinv_step (s := s) (s' := setCl f s) hx hte (fun h => by show (f s.cl).tight = none; rw [htt]; exact h) (fun _ h => h) (fun _ h => h) h

theorem xinv_popTok (s : S) (h : XInv s) : XInv (popTok s).2 := by
  unfold popTok; split
  · exact h
  · rename_i t r _
    exact xinv_step (s := s) (s' := { s with env := r }) rfl rfl (fun h => h) (fun _ h => h) (fun _ h => h) h
theorem xinv_bumpCalls (s : S) (h : XInv s) : XInv (bumpCalls s) :=
  xinv_step (s := s) (s' := bumpCalls s) rfl rfl (fun h => h) (fun _ h => h) (fun _ h => h) h

/-! libc calls other than open -/
theorem doClose_xinv (t j) (s : S) (h : XInv s) : XInv (doClose t j s) := by
  unfold doClose; split <;> exact xinv_emit _ _ (by intro k; simp) h
theorem doSimple_xinv (t e) (s : S) (h : XInv s) : XInv (doSimple t e s).2 := by
  have hp := xinv_popTok s h
  unfold doSimple
  ftsplit
  all_goals first
    | exact xinv_emit _ _ (by intro k; simp) hp
    | exact xinv_emit _ _ (by intro k; simp) (xinv_emit _ _ (by intro k; simp) hp)
theorem doFstat_xinv (j) (s : S) (h : XInv s) : XInv (doFstat j s).2 := by
  have hp := xinv_popTok s h
  unfold doFstat
  ftsplit
  all_goals first
    | exact xinv_emit _ _ (by intro k; simp) hp
    | exact xinv_emit _ _ (by intro k; simp) (xinv_emit _ _ (by intro k; simp) hp)
theorem doRead_xinv (j) (s : S) (h : XInv s) : XInv (doRead j s).2 := by
  have hp := xinv_popTok s h
  unfold doRead
  ftsplit
  all_goals first
    | exact xinv_emit _ _ (by intro k; simp) hp
    | exact xinv_emit _ _ (by intro k; simp) (xinv_emit _ _ (by intro k; simp) hp)
theorem doWrite_xinv (j n hh) (s : S) (h : XInv s) : XInv (doWrite j n hh s).2 := by
  have hp := xinv_popTok s h
  unfold doWrite
  ftsplit
  all_goals first
    | exact xinv_emit _ _ (by intro k; simp) hp
    | exact xinv_emit _ _ (by intro k; simp) (xinv_emit _ _ (by intro k; simp) hp)
theorem doOpendir_xinv (p) (s : S) (h : XInv s) : XInv (doOpendir p s).2 := by
  have hp := xinv_popTok s h
  unfold doOpendir
  ftsplit
  all_goals first
    | exact xinv_emit _ _ (by intro k; simp) hp
    | exact xinv_emit _ _ (by intro k; simp) (xinv_emit _ _ (by intro k; simp) hp)
theorem doStat_xinv (p) (s : S) (h : XInv s) : XInv (doStat p s).2 := by
  have hp := xinv_popTok s h
  unfold doStat
  ftsplit
  all_goals first
    | exact xinv_emit _ _ (by intro k; simp) hp
    | exact xinv_emit _ _ (by intro k; simp) (xinv_emit _ _ (by intro k; simp) hp)
theorem doCompress_xinv (n) (s : S) (h : XInv s) : XInv (doCompress n s).2 := by
  have hp := xinv_popTok s h
  unfold doCompress
  ftsplit
  all_goals first
    | exact xinv_emit _ _ (by intro k; simp) hp
    | exact xinv_emit _ _ (by intro k; simp) (xinv_emit _ _ (by intro k; simp) hp)
theorem doUncompress_xinv (n) (s : S) (h : XInv s) : XInv (doUncompress n s).2 := by
  have hp := xinv_popTok s h
  unfold doUncompress
  ftsplit
  all_goals first
    | exact xinv_emit _ _ (by intro k; simp) hp
    | exact xinv_emit _ _ (by intro k; simp) (xinv_emit _ _ (by intro k; simp) hp)

/-! teardown and the permission tests -/
theorem closeClient_xinv (s : S) (h : XInv s) : XInv (closeClient s) := by
  have ht : s.cl.tight = none := h.2.2
  unfold closeClient
  simp only [ht]
  exact xinv_emit _ _ (by intro k; simp) (xinv_setCl _ _ rfl rfl rfl h)
theorem consult_xinv (f) (s : S) (h : XInv s) : XInv (consult f s).2 := by
  unfold consult
  exact xinv_emit _ _ (by intro k; simp) (xinv_bumpCalls s h)
theorem macroCheck_xinv (cfg) (s : S) (h : XInv s) : XInv (macroCheck cfg s).2 := by
  have hc := fun f => consult_xinv f s h
  unfold macroCheck
  ftsplit
  all_goals first
    | exact xinv_emit _ _ (by intro k; simp) (hc _)
    | exact closeClient_xinv _ (xinv_emit _ _ (by intro k; simp) (hc _))
    | exact xinv_emit _ _ (by intro k; simp) h
    | exact closeClient_xinv _ (xinv_emit _ _ (by intro k; simp) h)
theorem chunkCheck_xinv (cfg) (s : S) (h : XInv s) : XInv (chunkCheck cfg s).2 := by
  have hc := fun f => consult_xinv f s h
  unfold chunkCheck
  ftsplit
  all_goals first
    | exact xinv_emit _ _ (by intro k; simp) (hc _)
    | exact xinv_emit _ _ (by intro k; simp) h
theorem translate_xinv (cfg p n) (s : S) (h : XInv s) : XInv (translate cfg p n s).2 := by
  have := macroCheck_xinv cfg s h
  unfold translate
  ftsplit
theorem readExact_xinv (n) (s : S) (h : XInv s) : XInv (readExact n s).2 := by
  unfold readExact
  ftsplit
  all_goals exact xinv_setCl _ _ rfl rfl rfl h
theorem sendMsg_xinv (cfg ct cp size len pl) (s : S) (h : XInv s) :
    XInv (sendMsg cfg ct cp size len pl s).2 := by
  have hm := macroCheck_xinv cfg s h
  unfold sendMsg
  ftsplit
  all_goals first
    | exact closeClient_xinv _ hm
    | exact xinv_emit _ _ (by intro k; simp) hm
theorem readBuffer_xinv (cfg n) (s : S) (h : XInv s) : XInv (readBuffer cfg n s).2 := by
  have hm := macroCheck_xinv cfg s h
  have hr := readExact_xinv n _ hm
  unfold readBuffer
  ftsplit
  all_goals first
    | exact closeClient_xinv _ hm
    | exact closeClient_xinv _ hr

/-! ### opening and replacing the recorded descriptor -/

theorem closed_mono_emit (k e) (s : S) (h : Closed k s) : Closed k (emit e s) :=
  (closed_emit k e s).mpr (Or.inr h)

theorem popTok_got (k) (s : S) : Got k (popTok s).2 ↔ Got k s := by unfold popTok; split <;> rfl
theorem popTok_closed (k) (s : S) : Closed k (popTok s).2 ↔ Closed k s := by unfold popTok; split <;> rfl

theorem doOpen_got (k p m) (s : S) (h : Got k (doOpen p m s).2) : (doOpen p m s).1 = some k ∨ Got k s := by
  unfold doOpen at h ⊢
  simp only [] at h ⊢
  split at h
  · simp [popTok_got] at h; exact Or.inr h
  · split at h
    · rename_i hr
      simp only [hr, if_true]
      simp only [got_emit, reduceCtorEq, false_or] at h
      rcases h with h | h
      · left; simp at h; simp [h]
      · right; exact (popTok_got k s).mp h
    · simp [popTok_got] at h; exact Or.inr h
  · simp [popTok_got] at h; exact Or.inr h
theorem doOpen_closed (k p m) (s : S) (h : Closed k s) : Closed k (doOpen p m s).2 := by
  have hp := (popTok_closed k s).mpr h
  unfold doOpen
  simp only []
  split
  · exact closed_mono_emit _ _ _ hp
  · split
    · exact closed_mono_emit _ _ _ (closed_mono_emit _ _ _ hp)
    · exact closed_mono_emit _ _ _ (closed_mono_emit _ _ _ hp)
  · exact closed_mono_emit _ _ _ (closed_mono_emit _ _ _ hp)
theorem doClose_closed (k t) (s : S) : Closed k (doClose t k s) := by
  unfold doClose; split <;> simp [isCloseOf]
theorem doClose_closed_mono (k t j) (s : S) (h : Closed k s) : Closed k (doClose t j s) := by
  unfold doClose; split <;> exact closed_mono_emit _ _ _ h
theorem doClose_got (k t j) (s : S) : Got k (doClose t j s) ↔ Got k s := by
  unfold doClose; split <;> simp
theorem doFstat_got (k j) (s : S) : Got k (doFstat j s).2 ↔ Got k s := by
  unfold doFstat; ftsplit [popTok_got]
theorem doFstat_closed (k j) (s : S) (h : Closed k s) : Closed k (doFstat j s).2 := by
  have hp := (popTok_closed k s).mpr h
  unfold doFstat
  ftsplit
  all_goals first
    | exact closed_mono_emit _ _ _ hp
    | exact closed_mono_emit _ _ _ (closed_mono_emit _ _ _ hp)

theorem openForRead_cl (f) (s : S) : (openForRead f s).2.cl = s.cl := by
  unfold openForRead; ftsplit
theorem openForRead_got (k f) (s : S) (h : Got k (openForRead f s).2) :
    (openForRead f s).1.1 = some k ∨ Closed k (openForRead f s).2 ∨ Got k s := by
  unfold openForRead at h ⊢
  simp only [] at h ⊢
  cases ho : (doOpen f .rd s).1 with
  | none =>
    simp only [ho] at h ⊢
    rcases doOpen_got k f .rd s h with h1 | h1
    · rw [ho] at h1; exact absurd h1 (by simp)
    · exact Or.inr (Or.inr h1)
  | some j =>
    simp only [ho] at h ⊢
    cases hf : (doFstat j (doOpen f .rd s).2).1 with
    | some n =>
      simp only [hf] at h ⊢
      rcases doOpen_got k f .rd s ((doFstat_got k j _).mp h) with h1 | h1
      · rw [ho] at h1; left; exact h1
      · exact Or.inr (Or.inr h1)
    | none =>
      simp only [hf] at h ⊢
      rcases doOpen_got k f .rd s ((doFstat_got k j _).mp ((doClose_got k false j _).mp h)) with h1 | h1
      · rw [ho] at h1
        have : j = k := Option.some.inj h1
        subst this
        exact Or.inr (Or.inl (doClose_closed _ _ _))
      · exact Or.inr (Or.inr h1)
theorem openForRead_closed (k f) (s : S) (h : Closed k s) : Closed k (openForRead f s).2 := by
  unfold openForRead
  ftsplit
  all_goals first
    | exact doOpen_closed _ _ _ _ h
    | exact doFstat_closed _ _ _ (doOpen_closed _ _ _ _ h)
    | exact doClose_closed_mono _ _ _ _ (doFstat_closed _ _ _ (doOpen_closed _ _ _ _ h))

/-- the recorded descriptor is replaced by `r` in a state `s1` reached from `s0` without touching the
record: fine if the old one was closed on the way and every new descriptor is `r` or closed -/
theorem xinv_replace {s0 s1 : S} (r : Option Nat) (f : Client → Client) (h : XInv s0)
    (hcl : s1.cl = s0.cl)
    (hg : ∀ k, Got k s1 → r = some k ∨ Closed k s1 ∨ Got k s0)
    (hc : ∀ k, Closed k s0 → Closed k s1)
    (hold : ∀ k, s0.cl.xf.fd = some k → r = some k ∨ Closed k s1)
    (hf : (f s1.cl).xf.fd = r) (hte : (f s1.cl).tightExt = s1.cl.tightExt)
    (htt : (f s1.cl).tight = s1.cl.tight) : XInv (setCl f s1) := by
  obtain ⟨ha, h1, h2⟩ := h
  refine ⟨fun k hk => ?_, ?_, ?_⟩
  · have hk1 : Got k s1 := hk
    show (f s1.cl).xf.fd = some k ∨ Closed k s1
    rw [hf]
    rcases hg k hk1 with h3 | h3 | h3
    · exact Or.inl h3
    · exact Or.inr h3
    · rcases ha k h3 with h4 | h4
      · exact hold k h4
      · exact Or.inr (hc k h4)
  · show (f s1.cl).tightExt = false
    rw [hte, hcl]; exact h1
  · show (f s1.cl).tight = none
    rw [htt, hcl]; exact h2

@[simp] theorem macroCheck_xf (cfg) (s : S) : (macroCheck cfg s).2.cl.xf = s.cl.xf := by
  unfold macroCheck; ftsplit
@[simp] theorem sendMsg_xf (cfg ct cp size len pl) (s : S) : (sendMsg cfg ct cp size len pl s).2.cl.xf = s.cl.xf := by
  unfold sendMsg; ftsplit

/-- closing the recorded descriptor and clearing the record -/
theorem closeXf_xinv (fd) (s : S) (hfd : s.cl.xf.fd = some fd) (h : XInv s) :
    XInv (endTransfer (doClose false fd s)) := by
  unfold endTransfer
  refine xinv_replace (s0 := s) none _ h (doClose_cl _ _ _) ?_ ?_ ?_ rfl rfl rfl
  · intro k hk; exact Or.inr (Or.inr ((doClose_got k false fd s).mp hk))
  · intro k hk; exact doClose_closed_mono _ _ _ _ hk
  · intro k hk
    rw [hfd] at hk
    cases hk
    exact Or.inr (doClose_closed _ _ _)

theorem closeOld_xinv (s : S) (h : XInv s) : XInv (closeOld s) := by
  unfold closeOld; split
  · exact doClose_xinv _ _ _ h
  · exact h

/-! ### entry points -/

/-- the lemmas that move `XInv` through calls (used as conditional rewrite rules) -/
macro "xsplit" : tactic => `(tactic| (
  (try simp only []); (repeat' split);
  all_goals (try simp_all (maxDischargeDepth := 12) [xinv_emit, doClose_xinv, doSimple_xinv, doFstat_xinv, doRead_xinv, doWrite_xinv,
    doOpendir_xinv, doStat_xinv, doCompress_xinv, doUncompress_xinv, closeClient_xinv, consult_xinv,
    macroCheck_xinv, chunkCheck_xinv, translate_xinv, readExact_xinv, sendMsg_xinv, readBuffer_xinv,
    closeOld_xinv])))

theorem dirLoop_xinv (cfg path) (names : List Path) (s : S) (h : XInv s) : XInv (dirLoop cfg path names s) := by
  induction names generalizing s with
  | nil => unfold dirLoop; xsplit
  | cons name rest ih => unfold dirLoop; xsplit

theorem sendDirContent_xinv (cfg len buf) (s : S) (h : XInv s) : XInv (sendDirContent cfg len buf s) := by
  have hd := dirLoop_xinv cfg
  unfold sendDirContent; xsplit

theorem chunk_xinv (cfg) (s : S) (h : XInv s) : XInv (chunk cfg s).2 := by
  have hc := closeXf_xinv
  unfold chunk
  xsplit

theorem packetWrite_xinv (fd size len buf) (s : S) (h : XInv s) : XInv (packetWrite fd size len buf s).2 := by
  unfold packetWrite; xsplit
theorem deletePath_xinv (p) (s : S) (h : XInv s) : XInv (deletePath p s).2 := by
  unfold deletePath; xsplit

/-- the request's open block: old descriptor closed, file opened (and closed again when fstat
fails), result recorded -/
theorem requestOpen_xinv (fname) (c : Bool) (s : S) (h : XInv s) :
    XInv (setCl (fun cl => { cl with xf := { cl.xf with fd := (openForRead fname (closeOld s)).1.1, compression := c } })
      (openForRead fname (closeOld s)).2) := by
  have hcl0 : (closeOld s).cl = s.cl := by unfold closeOld; split <;> simp
  refine xinv_replace (s0 := s) ((openForRead fname (closeOld s)).1.1) _ h
    (by rw [openForRead_cl, hcl0]) ?_ ?_ ?_ rfl rfl rfl
  · intro k hk
    rcases openForRead_got k fname _ hk with h1 | h1 | h1
    · exact Or.inl h1
    · exact Or.inr (Or.inl h1)
    · right; right
      revert h1; unfold closeOld; split <;> simp [doClose_got]
  · intro k hk
    apply openForRead_closed
    unfold closeOld; split
    · exact doClose_closed_mono _ _ _ _ hk
    · exact hk
  · intro k hk
    right
    apply openForRead_closed
    unfold closeOld
    simp only [hk]
    exact doClose_closed _ _ _

theorem ftRequest_xinv (cfg size len) (s : S) (h : XInv s) : XInv (ftRequest cfg size len s) := by
  have h1 := readBuffer_xinv cfg len s h
  unfold ftRequest
  simp only []
  split
  · exact h1
  · split
    · exact translate_xinv _ _ _ _ h1
    · split
      · exact sendMsg_xinv _ _ _ _ _ _ _ (requestOpen_xinv _ _ _ (translate_xinv _ _ _ _ h1))
      · split
        · exact xinv_setCl _ _ rfl rfl rfl
            (sendMsg_xinv _ _ _ _ _ _ _ (requestOpen_xinv _ _ _ (translate_xinv _ _ _ _ h1)))
        · exact closeClient_xinv _ (xinv_setCl _ _ rfl rfl rfl
            (sendMsg_xinv _ _ _ _ _ _ _ (requestOpen_xinv _ _ _ (translate_xinv _ _ _ _ h1))))

/-- the offer's open block -/
theorem offerOpen_xinv (fname) (s : S) (h : XInv s) :
    XInv (setCl (fun cl => { cl with xf := { cl.xf with fd := (doOpen fname .wrct (closeOld s)).1 } })
      (doOpen fname .wrct (closeOld s)).2) := by
  have hcl0 : (closeOld s).cl = s.cl := by unfold closeOld; split <;> simp
  refine xinv_replace (s0 := s) ((doOpen fname .wrct (closeOld s)).1) _ h
    (by rw [doOpen_cl, hcl0]) ?_ ?_ ?_ rfl rfl rfl
  · intro k hk
    rcases doOpen_got k fname _ _ hk with h1 | h1
    · exact Or.inl h1
    · right; right
      revert h1; unfold closeOld; split <;> simp [doClose_got]
  · intro k hk
    apply doOpen_closed
    unfold closeOld; split
    · exact doClose_closed_mono _ _ _ _ hk
    · exact hk
  · intro k hk
    right
    apply doOpen_closed
    unfold closeOld
    simp only [hk]
    exact doClose_closed _ _ _

theorem ftOffer_xinv (cfg len) (s : S) (h : XInv s) : XInv (ftOffer cfg len s) := by
  have h1 := readBuffer_xinv cfg len s h
  unfold ftOffer
  simp only []
  split
  · exact h1
  · have h2 := readExact_xinv 4 _ h1
    split
    · exact closeClient_xinv _ h2
    · split
      · exact translate_xinv _ _ _ _ h2
      · split
        · exact sendMsg_xinv _ _ _ _ _ _ _ (offerOpen_xinv _ _ (translate_xinv _ _ _ _ h2))
        · exact xinv_setCl _ _ rfl rfl rfl
            (sendMsg_xinv _ _ _ _ _ _ _ (offerOpen_xinv _ _ (translate_xinv _ _ _ _ h2)))

theorem ftHeader_xinv (cfg size) (s : S) (h : XInv s) : XInv (ftHeader cfg size s) := by
  unfold ftHeader
  split
  · cases hfd : s.cl.xf.fd with
    | none => simp only []; exact xinv_setCl _ _ (by simp [hfd]) rfl rfl h
    | some k =>
      simp only []
      refine xinv_replace (s0 := s) none _ h (doClose_cl _ _ _) ?_ ?_ ?_ rfl rfl rfl
      · intro j hj; exact Or.inr (Or.inr ((doClose_got j false k s).mp hj))
      · intro j hj; exact doClose_closed_mono _ _ _ _ hj
      · intro j hj
        rw [hfd] at hj
        cases hj
        exact Or.inr (doClose_closed _ _ _)
  · exact chunk_xinv _ _ (xinv_setCl _ _ rfl rfl rfl h)

@[simp] theorem doUncompress_cl (n) (s : S) : (doUncompress n s).2.cl = s.cl := by unfold doUncompress; ftsplit
@[simp] theorem doCompress_cl (n) (s : S) : (doCompress n s).2.cl = s.cl := by unfold doCompress; ftsplit
@[simp] theorem packetWrite_cl (fd size len buf) (s : S) : (packetWrite fd size len buf s).2.cl = s.cl := by
  unfold packetWrite; ftsplit

theorem ftPacket_xinv (cfg size len) (s : S) (h : XInv s) : XInv (ftPacket cfg size len s) := by
  have h1 := readBuffer_xinv cfg len s h
  unfold ftPacket
  simp only []
  split
  · exact h1
  · split
    · exact h1
    · rename_i fd hfd
      split
      · exact packetWrite_xinv _ _ _ _ _ h1
      · exact closeXf_xinv fd _ (by simpa using hfd) (packetWrite_xinv _ _ _ _ _ h1)

theorem ftEof_xinv (s : S) (h : XInv s) : XInv (ftEof s) := by
  unfold ftEof
  cases hfd : s.cl.xf.fd with
  | none => simp only []; exact xinv_setCl _ _ (by simp [hfd]) rfl rfl h
  | some k => simp only []; exact closeXf_xinv k s hfd h

theorem ftAbort_xinv (cfg cp) (s : S) (h : XInv s) : XInv (ftAbort cfg cp s) := by
  unfold ftAbort
  cases hfd : s.cl.xf.fd with
  | some k => simp only []; exact closeXf_xinv k s hfd h
  | none => simp only []; xsplit

theorem ftCommand_xinv (cfg cp len) (s : S) (h : XInv s) : XInv (ftCommand cfg cp len s) := by
  have hd := deletePath_xinv
  unfold ftCommand
  xsplit

theorem processFT_xinv (cfg ct cp size len) (s : S) (h : XInv s) : XInv (processFT cfg ct cp size len s) := by
  have h1 := macroCheck_xinv cfg s h
  unfold processFT
  simp only []
  split
  · exact h1
  · split
    · split
      · exact sendMsg_xinv _ _ _ _ _ _ _ h1
      · split
        · split
          · exact readBuffer_xinv _ _ _ h1
          · exact sendDirContent_xinv _ _ _ _ (readBuffer_xinv _ _ _ h1)
        · exact h1
    · exact ftRequest_xinv _ _ _ _ h1
    · exact ftHeader_xinv _ _ _ h1
    · exact ftPacket_xinv _ _ _ _ h1
    · exact ftEof_xinv _ h1
    · exact ftAbort_xinv _ _ _ h1
    · exact ftOffer_xinv _ _ _ h1
    · exact ftCommand_xinv _ _ _ _ h1
    · exact h1

/-- a client without the extension: any TightVNC message type is "unknown" and closes -/
theorem tightMsg_xinv (cfg ty) (s : S) (h : XInv s) : XInv (tightMsg cfg ty s) := by
  have ht : s.cl.tightExt = false := h.2.1
  unfold tightMsg
  simp only [ht]
  exact closeClient_xinv _ (xinv_emit _ _ (by intro k; simp) h)

theorem stepMsg_xinv (cfg) (s : S) (h : XInv s) : XInv (stepMsg cfg s) := by
  have h0 := xinv_emit .start s (by intro k; simp) h
  unfold stepMsg
  simp only []
  split
  · exact h0
  · split
    · exact xinv_emit _ _ (by intro k; simp) (xinv_setCl _ _ rfl rfl rfl h0)
    · have h1 := readExact_xinv 1 _ h0
      split
      · exact closeClient_xinv _ h1
      · split
        · have h2 := readExact_xinv 11 _ h1
          split
          · exact closeClient_xinv _ h2
          · exact processFT_xinv _ _ _ _ _ _ h2
        · exact tightMsg_xinv _ _ _ h1

theorem chunkEntry_xinv (cfg) (s : S) (h : XInv s) : XInv (chunkEntry cfg s).2 :=
  chunk_xinv _ _ (xinv_emit .start s (by intro k; simp) h)

theorem peerGone_xinv (s : S) (h : XInv s) : XInv (peerGone s) :=
  closeClient_xinv _ (xinv_setCl _ _ rfl rfl rfl (xinv_emit .start s (by intro k; simp) h))

theorem reapClient_xinv (s : S) (h : XInv s) : XInv (reapClient s) := by
  have h0 := xinv_emit .start s (by intro k; simp) h
  unfold reapClient
  cases hfd : s.cl.xf.fd with
  | none => simp only []; exact h0
  | some k =>
    simp only []
    refine xinv_replace (s0 := emit .start s) none _ h0 rfl ?_ ?_ ?_ rfl rfl rfl
    · intro j hj
      right; right
      simpa using hj
    · intro j hj; exact closed_mono_emit _ _ _ hj
    · intro j hj
      have : k = j := by simpa [hfd] using hj
      subst this
      right; simp [isCloseOf]

theorem pump_xinv (cfg) (fuel : Nat) (s : S) (h : XInv s) : XInv (pump cfg fuel s) := by
  induction fuel generalizing s with
  | zero => exact h
  | succ n ih =>
    unfold pump; split
    · exact h
    · exact ih _ (stepMsg_xinv cfg s h)

theorem sessStep_xinv (cfg) (s : S) (h : XInv s) (i : Input) : XInv (sessStep cfg s i) := by
  cases i with
  | bytes b =>
    simp only [sessStep]; split
    · exact pump_xinv cfg _ _ (xinv_setCl _ _ rfl rfl rfl h)
    · exact h
  | chunk => exact chunkEntry_xinv cfg s h
  | gone => simp only [sessStep]; split; exact peerGone_xinv s h; exact h
  | reap => simp only [sessStep]; split; exact h; exact reapClient_xinv s h

theorem runSession_xinv (cfg) (inputs : List Input) (s : S) (h : XInv s) : XInv (runSession cfg s inputs) := by
  induction inputs generalizing s with
  | nil => exact h
  | cons i rest ih => exact ih _ (sessStep_xinv cfg s h i)

/-- after the teardown the record is empty -/
theorem teardown_xf_none (s : S) : (reapClient (peerGone s)).cl.xf.fd = none := by
  unfold reapClient
  split <;> simp_all [setCl]

end VncModel.FileXfer
