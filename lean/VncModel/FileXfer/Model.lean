/-
C19 — executable model of the UltraVNC built-in file transfer of libvncserver
(src/libvncserver/rfbserver.c) and of the TightVNC 1.3 file-transfer extension
(src/libvncserver/tightvnc-filetransfer/), bug for bug, for the code WITH the fixes
fixes/C19-ft-fd-leak.diff, fixes/C19-tight-upload-fd-leak.diff, fixes/C19-tight-path-confinement.diff,
fixes/C19-tight-name-size-sign.diff.

C ↔ model
  screen->permitFileTransfer == TRUE                 ↔ `Cfg.permit`
  screen->getFileTransferPermission (per call)       ↔ `Cfg.cb : Option (Nat → Nat)`; the n-th call
                                                        returns `f n` (raw value, 1 stands for TRUE);
                                                        `S.calls` counts the calls so far
  FILEXFER_ALLOWED_OR_CLOSE_AND_RETURN               ↔ `macroCheck` (callback first, then the flag)
  permission re-check of rfbSendFileTransferChunk    ↔ `chunkCheck` (flag first, then the callback)
  rfbFilenameTranslate2UNIX                          ↔ `translate` (= macroCheck + `translatePure`)
  rfbSendFileTransferMessage                         ↔ `sendMsg`
  rfbProcessFileTransferReadBuffer                   ↔ `readBuffer`
  rfbSendDirContent                                  ↔ `sendDirContent`
  rfbSendFileTransferChunk                           ↔ `chunk`
  rfbProcessFileTransfer                             ↔ `processFT`
  case rfbFileTransfer of rfbProcessClientNormalMessage, extension dispatch ↔ `stepMsg`
  cl->fileTransfer.{fd,sending,receiving,compressionEnabled} ↔ `Xfer`
  rfbCloseClient (incl. the extension's close hook)  ↔ `closeClient`
  rfbClientConnectionGone (fd released: the fix)     ↔ `reapClient`
  handleMessage gate of rfbtightserver.c             ↔ `tightGate`
  ConvertPath (with the confinement fix)             ↔ `convertPath`
  Handle*Request of handlefiletransferrequest.c      ↔ `tList`, `tDownload`, `tUpload`, `tUploadData`,
                                                        `tDownloadCancel`, `tUploadFailed`, `tMkdir`

Everything outside the program is a parameter: the results of libc calls come from a script
(`S.env`, one token per call that returns something, in call order), the bytes the client sent are
`Client.inbuf`, descriptors are numbered by `S.nextFd` in the order they are opened.  The socket is
assumed writable and the peer reading (no short writes), `malloc` succeeds for the sizes used.
Core Lean only.
-/
import VncModel.FileXfer.Basic
import VncModel.Gen.C19

namespace VncModel.FileXfer
open VncModel.Gen

/-- cl->fileTransfer -/
structure Xfer where
  fd : Option Nat := none
  sending : Bool := false
  receiving : Bool := false
  compression : Bool := false
  deriving DecidableEq, Repr

/-- rfbClientFileUpload / rfbClientFileDownload of the TightVNC extension -/
structure TSide where
  fd : Option Nat := none
  inProgress : Bool := false
  fName : Path := []
  deriving DecidableEq, Repr

structure Tight where
  up : TSide := {}
  dn : TSide := {}
  deriving DecidableEq, Repr

structure Client where
  isOpen : Bool := true          -- cl->sock != RFB_INVALID_SOCKET
  viewOnly : Bool := false
  xf : Xfer := {}
  tightExt : Bool := false       -- the extension is in cl->extensions (client chose security type 16)
  tight : Option Tight := none   -- its data; freed (NULL) by the first rfbCloseClient
  inbuf : Bytes := []            -- bytes received from the client and not yet consumed
  deriving DecidableEq, Repr

structure Cfg where
  permit : Bool                  -- screen->permitFileTransfer == TRUE
  cb : Option (Nat → Nat)        -- getFileTransferPermission: answer of the n-th call (1 = TRUE)
  home : Option Path             -- getenv("HOME")
  tightEn : Bool                 -- IsFileTransferEnabled()
  root : Path                    -- ftproot

/-- run state while one entry point executes -/
structure S where
  cl : Client
  calls : Nat                    -- calls of the permission callback so far
  env : List String              -- results of the libc calls still to come
  nextFd : Nat                   -- descriptors opened so far (serial numbers start at 1)
  evs : List Ev                  -- events of this invocation, NEWEST FIRST
  deriving Repr

def emit (e : Ev) (s : S) : S := { s with evs := e :: s.evs }

def setCl (f : Client → Client) (s : S) : S := { s with cl := f s.cl }
def setNextFd (k : Nat) (s : S) : S := { s with nextFd := k }
def bumpCalls (s : S) : S := { s with calls := s.calls + 1 }

/-! ### libc calls: effect + scripted result -/

def popTok (s : S) : Option String × S :=
  match s.env with
  | [] => (none, s)
  | t :: r => (some t, { s with env := r })

/-- an effect whose result is ok/fail -/
def doSimple (teardown : Bool) (e : FsEffect) (s : S) : Bool × S :=
  let (t, s) := popTok s
  let mk := fun (r : String) => if teardown then Ev.cleanup e r else Ev.fs e r
  match t with
  | some "ok" => (true, emit (mk "ok") s)
  | some "fail" => (false, emit (mk "fail") s)
  | _ => (false, emit (.envBad "simple") (emit (mk "?") s))

def doClose (teardown : Bool) (fd : Nat) (s : S) : S :=
  emit (if teardown then .cleanup (.close fd) "" else .fs (.close fd) "") s

def doOpen (p : Path) (m : Mode) (s : S) : Option Nat × S :=
  let (t, s) := popTok s
  match t with
  | some "fail" => (none, emit (.fs (.open p m) "fail") s)
  | some r =>
    if r.startsWith "#" then
      let k := s.nextFd + 1
      (some k, emit (.got k) (emit (.fs (.open p m) s!"#{k}") (setNextFd k s)))
    else (none, emit (.envBad "open") (emit (.fs (.open p m) "?") s))
  | none => (none, emit (.envBad "open") (emit (.fs (.open p m) "?") s))

def doFstat (fd : Nat) (s : S) : Option Nat × S :=
  let (t, s) := popTok s
  match t with
  | some "fail" => (none, emit (.fs (.fstat fd) "fail") s)
  | some r =>
    match r.toNat? with
    | some n => (some n, emit (.fs (.fstat fd) r) s)
    | none => (none, emit (.envBad "fstat") (emit (.fs (.fstat fd) "?") s))
  | none => (none, emit (.envBad "fstat") (emit (.fs (.fstat fd) "?") s))

inductive ReadRes where
  | fail | data (n : Nat) (h : String)
  deriving DecidableEq, Repr

def parseNH (r : String) : Option (Nat × String) :=
  match r.splitOn ":" with
  | [a, b] => a.toNat?.map (fun n => (n, b))
  | _ => none

def doRead (fd : Nat) (s : S) : ReadRes × S :=
  let (t, s) := popTok s
  match t with
  | some "fail" => (.fail, emit (.fs (.read fd) "fail") s)
  | some r =>
    match parseNH r with
    | some (n, h) => (.data n h, emit (.fs (.read fd) r) s)
    | none => (.fail, emit (.envBad "read") (emit (.fs (.read fd) "?") s))
  | none => (.fail, emit (.envBad "read") (emit (.fs (.read fd) "?") s))

/-- write(fd, buf, n): `none` = -1, `some r` = r bytes written -/
def doWrite (fd : Nat) (n : Nat) (h : String) (s : S) : Option Nat × S :=
  let (t, s) := popTok s
  match t with
  | some "fail" => (none, emit (.fs (.write fd n h) "fail") s)
  | some r =>
    match r.toNat? with
    | some k => (some k, emit (.fs (.write fd n h) r) s)
    | none => (none, emit (.envBad "write") (emit (.fs (.write fd n h) "?") s))
  | none => (none, emit (.envBad "write") (emit (.fs (.write fd n h) "?") s))

/-- opendir: `some names` in readdir order ("ok <n> <pct name>...") -/
def doOpendir (p : Path) (s : S) : Option (List Path) × S :=
  let (t, s) := popTok s
  match t with
  | some "fail" => (none, emit (.fs (.opendir p) "fail") s)
  | some r =>
    match r.splitOn " " with
    | "ok" :: _ :: names =>
      match names.mapM unpct? with
      | some ns => (some ns, emit .dirOpened (emit (.fs (.opendir p) r) s))
      | none => (none, emit (.envBad "opendir") (emit (.fs (.opendir p) "?") s))
    | _ => (none, emit (.envBad "opendir") (emit (.fs (.opendir p) "?") s))
  | none => (none, emit (.envBad "opendir") (emit (.fs (.opendir p) "?") s))

inductive StatRes where
  | fail | file (n : Nat) | dir (n : Nat) | other (n : Nat)
  deriving DecidableEq, Repr

def doStat (p : Path) (s : S) : StatRes × S :=
  let (t, s) := popTok s
  match t with
  | some "fail" => (.fail, emit (.fs (.stat p) "fail") s)
  | some r =>
    match r.splitOn " " with
    | ["file", n] => match n.toNat? with
      | some k => (.file k, emit (.fs (.stat p) r) s)
      | none => (.fail, emit (.envBad "stat") (emit (.fs (.stat p) "?") s))
    | ["dir", n] => match n.toNat? with
      | some k => (.dir k, emit (.fs (.stat p) r) s)
      | none => (.fail, emit (.envBad "stat") (emit (.fs (.stat p) "?") s))
    | ["other", n] => match n.toNat? with
      | some k => (.other k, emit (.fs (.stat p) r) s)
      | none => (.fail, emit (.envBad "stat") (emit (.fs (.stat p) "?") s))
    | _ => (.fail, emit (.envBad "stat") (emit (.fs (.stat p) "?") s))
  | none => (.fail, emit (.envBad "stat") (emit (.fs (.stat p) "?") s))

/-- zlib compress(src of n bytes): `some m` = Z_OK with m output bytes -/
def doCompress (n : Nat) (s : S) : Option Nat × S :=
  let (t, s) := popTok s
  match t with
  | some "fail" => (none, emit (.x "compress" n "fail") s)
  | some r =>
    match r.toNat? with
    | some m => (some m, emit (.x "compress" n r) s)
    | none => (none, emit (.envBad "compress") (emit (.x "compress" n "?") s))
  | none => (none, emit (.envBad "compress") (emit (.x "compress" n "?") s))

/-- zlib uncompress: `some (m, hash of the m output bytes)` -/
def doUncompress (n : Nat) (s : S) : Option (Nat × String) × S :=
  let (t, s) := popTok s
  match t with
  | some "fail" => (none, emit (.x "uncompress" n "fail") s)
  | some r =>
    match parseNH r with
    | some mh => (some mh, emit (.x "uncompress" n r) s)
    | none => (none, emit (.envBad "uncompress") (emit (.x "uncompress" n "?") s))
  | none => (none, emit (.envBad "uncompress") (emit (.x "uncompress" n "?") s))

/-! ### connection teardown -/

/-- CloseUndoneFileUpload -/
def closeUndoneUpload (teardown : Bool) (s : S) : S :=
  match s.cl.tight with
  | none => s
  | some t =>
    if t.up.inProgress then
      let s := match t.up.fd with
        | some k => doClose teardown k s
        | none => s
      let (_, s) := doSimple teardown (.unlink t.up.fName) s
      setCl (fun c => { c with tight := some { t with up := {} } }) s
    else s

/-- CloseUndoneFileDownload (the download thread is run to completion inside the request, so
`inProgress` is never observed true between messages; modelled as written all the same) -/
def closeUndoneDownload (teardown : Bool) (s : S) : S :=
  match s.cl.tight with
  | none => s
  | some t =>
    if t.dn.inProgress then
      let s := match t.dn.fd with
        | some k => doClose teardown k s
        | none => s
      setCl (fun c => { c with tight := some { t with dn := {} } }) s
    else s

/-- rfbCloseClient: extension close hook (rfbTightExtensionClientClose frees the data), then the
socket.  Safe to call again. -/
def closeClient (s : S) : S :=
  let s := match s.cl.tight with
    | none => s
    | some _ =>
      let s := closeUndoneUpload true s
      let s := closeUndoneDownload true s
      setCl (fun c => { c with tight := none }) s
  emit .closeConn (setCl (fun c => { c with isOpen := false }) s)

/-! ### permission -/

/-- one call of getFileTransferPermission -/
def consult (f : Nat → Nat) (s : S) : Bool × S :=
  let a := f s.calls
  (a == 1, emit (.q a) (bumpCalls s))

/-- FILEXFER_ALLOWED_OR_CLOSE_AND_RETURN: `(cb != NULL && cb(cl) != TRUE) || permit != TRUE`
=> log, rfbCloseClient, return -/
def macroCheck (cfg : Cfg) (s : S) : Bool × S :=
  match cfg.cb with
  | some f =>
    let (a, s) := consult f s
    if a && cfg.permit then (true, emit (.chk true) s)
    else (false, closeClient (emit (.chk false) s))
  | none =>
    if cfg.permit then (true, emit (.chk true) s)
    else (false, closeClient (emit (.chk false) s))

/-- the test at the top of rfbSendFileTransferChunk: `permit != TRUE || (cb != NULL && cb(cl) != TRUE)`
=> return TRUE (the client is NOT closed) -/
def chunkCheck (cfg : Cfg) (s : S) : Bool × S :=
  if !cfg.permit then (false, emit (.chk false) s)
  else match cfg.cb with
    | some f =>
      let (a, s) := consult f s
      (a, emit (.chk a) s)
    | none => (true, emit (.chk true) s)

/-! ### rfbFilenameTranslate2UNIX -/

def bs2s (p : Path) : Path := p.map (fun b => if b = 92 then 47 else b)   -- '\\' -> '/'

/-- the pure part: length checks against the destination size, "C:" stripping, HOME, separators.
`none` = the function returned FALSE (nothing was copied). -/
def translatePure (home : Option Path) (path : Path) (maxLen : Nat) : Option Path :=
  if path.length ≥ maxLen then none
  else match path with
    | 67 :: 58 :: rest => some (bs2s rest)                      -- "C:"
    | _ =>
      match home with
      | some h =>
        if path.length + h.length + 1 ≥ maxLen then none
        else some (bs2s (h ++ 47 :: path))
      | none => some (bs2s path)

def translate (cfg : Cfg) (path : Path) (maxLen : Nat) (s : S) : Option Path × S :=
  let (ok, s) := macroCheck cfg s
  if !ok then (none, s) else (translatePure cfg.home path maxLen, s)

/-! ### sending and receiving -/

/-- rfbSendFileTransferMessage -/
def sendMsg (cfg : Cfg) (ct cp size len : Nat) (pl : Payload) (s : S) : Bool × S :=
  let (ok, s) := macroCheck cfg s
  if !ok then (false, s)
  else if !s.cl.isOpen then (false, closeClient s)        -- rfbWriteExact fails: invalid socket
  else (true, emit (.wire (.ft ct cp size len pl)) s)

/-- rfbReadExact with the library's timeout: the bytes are there, or the read times out
(`none`; the caller closes the client) -/
def readExact (n : Nat) (s : S) : Option Bytes × S :=
  if n = 0 then (some [], s)
  else if !s.cl.isOpen then (none, s)
  else if s.cl.inbuf.length < n then (none, setCl (fun c => { c with inbuf := [] }) s)
  else (some (s.cl.inbuf.take n), setCl (fun c => { c with inbuf := c.inbuf.drop n }) s)

/-- rfbProcessFileTransferReadBuffer: `none` = returned NULL -/
def readBuffer (cfg : Cfg) (length : Nat) (s : S) : Option Bytes × S :=
  let (ok, s) := macroCheck cfg s
  if !ok then (none, s)
  else if length > C19.intMax then (none, closeClient s)
  else if length = 0 then (none, s)                         -- buffer stays NULL: callers give up
  else
    let (ob, s) := readExact length s
    match ob with
    | some b => (some b, s)
    | none => (none, closeClient s)

def be16 (a b : UInt8) : Nat := a.toNat * 256 + b.toNat
def be32 (a b c d : UInt8) : Nat := ((a.toNat * 256 + b.toNat) * 256 + c.toNat) * 256 + d.toNat

/-! ### rfbSendDirContent -/

/-- the readdir loop; `dirp` is open throughout -/
def dirLoop (cfg : Cfg) (path : Path) : List Path → S → S
  | [], s =>
    let s := emit (.fs .closedir "") s
    (sendMsg cfg 2 0 0 0 (.raw []) s).2                      -- end of the listing
  | name :: rest, s =>
    let (st, s) := doStat (path ++ 47 :: name) s
    match st with
    | .fail => dirLoop cfg path rest s
    | r =>
      let attr : Nat := match r with
        | .dir _ => C19.attrDirectory
        | _ => C19.attrNormal
      let size : Nat := match r with
        | .dir n => n % 4294967296
        | .file n => n % 4294967296
        | .other n => n % 4294967296
        | .fail => 0
      -- hidden files are not shown, ".." is
      if name = [46, 46] ∨ name.head? ≠ some 46 then
        let (ok, s) := sendMsg cfg 2 1 0 (C19.findDataFixed + name.length) (.entry attr size name) s
        if ok then dirLoop cfg path rest s
        else emit (.fs .closedir "") s
      else dirLoop cfg path rest s

def sendDirContent (cfg : Cfg) (length : Nat) (buffer : Bytes) (s : S) : S :=
  let (ok, s) := macroCheck cfg s
  if !ok then s else
  let (op, s) := translate cfg (cstr buffer) C19.dirPathSize s
  match op with
  | none => s
  | some path =>
    let (od, s) := doOpendir path s
    match od with
    | none => (sendMsg cfg 2 1 0 0 (.raw []) s).2
    | some names =>
      -- send back the path name
      let (ok, s) := sendMsg cfg 2 1 0 length (.raw buffer) s
      if ok then dirLoop cfg path names s
      else emit (.fs .closedir "") s                          -- (closedir: part of the fd-leak fix)

/-! ### rfbSendFileTransferChunk -/

def endTransfer (s : S) : S :=
  setCl (fun c => { c with xf := { c.xf with fd := none, sending := false, receiving := false } }) s

/-- returns the function's result (TRUE/FALSE) -/
def chunk (cfg : Cfg) (s : S) : Bool × S :=
  let (ok, s) := chunkCheck cfg s                            -- (entry point `chunkEntry` adds .start)
  if !ok then (true, s) else
  match s.cl.xf.fd with
  | none => (true, s)
  | some fd =>
    if !s.cl.xf.sending then (true, s)
    else if !s.cl.isOpen then (false, s)
    else
      -- the socket is writable (assumption): read one block
      let (rr, s) := doRead fd s
      match rr with
      | .data 0 _ =>
        let (r, s) := sendMsg cfg 6 0 0 0 (.raw []) s
        (r, endTransfer (doClose false fd s))
      | .fail =>
        let (r, s) := sendMsg cfg 7 0 0 0 (.raw []) s
        (r, endTransfer (doClose false fd s))
      | .data n h =>
        if !s.cl.xf.compression then sendMsg cfg 5 0 0 n (.digest n h) s
        else
          let (mm, s) := doCompress n s
          match mm with
          | some m =>
            if m < n then sendMsg cfg 5 0 1 m (.zdigest n h) s
            else sendMsg cfg 5 0 0 n (.digest n h) s
          | none => sendMsg cfg 5 0 0 n (.digest n h) s

/-! ### rfbProcessFileTransfer, one function per content type -/

/-- part of the fd-leak fix: an open transfer is closed before its descriptor is overwritten -/
def closeOld (s : S) : S :=
  match s.cl.xf.fd with
  | some k => doClose false k s
  | none => s

/-- open(O_RDONLY) + fstat of rfbFileTransferRequest: the descriptor (none: open or fstat failed,
descriptor closed again) and st_size -/
def openForRead (fname : Path) (s : S) : (Option Nat × Nat) × S :=
  let (fd, s) := doOpen fname .rd s
  match fd with
  | none => ((none, 0), s)
  | some k =>
    let (sz, s) := doFstat k s
    match sz with
    | some n => ((some k, n), s)
    | none => ((none, 0), doClose false k s)

def ftRequest (cfg : Cfg) (size length : Nat) (s : S) : S :=
  let (ob, s) := readBuffer cfg length s
  match ob with
  | none => s
  | some buffer =>
    let (op, s) := translate cfg (cstr buffer) C19.filename1Size s
    match op with
    | none => s
    | some fname =>
      let s := closeOld s
      let (r, s) := openForRead fname s
      let s := setCl (fun c => { c with xf := { c.xf with fd := r.1, compression := (size == 1) } }) s
      match r.1 with
      | none => (sendMsg cfg 4 0 u32max length (.raw buffer) s).2
      | some _ =>
        -- on success the time stamp is appended to the name
        let (_, s) := sendMsg cfg 4 0 (r.2 % 4294967296) ((cstr buffer).length + 17) (.hdr (cstr buffer)) s
        let s := setCl (fun c => { c with xf := { c.xf with receiving := false, sending := false } }) s
        -- rfbWriteExact(sizeHtmp): part of the `.hdr` wire event; fails iff the client was just closed
        if s.cl.isOpen then s else closeClient s

def ftHeader (cfg : Cfg) (size : Nat) (s : S) : S :=
  if size = u32max then
    let s := match s.cl.xf.fd with
      | some k => doClose false k s
      | none => s                                            -- close(-1)
    setCl (fun c => { c with xf := { c.xf with fd := none } }) s
  else
    let s := setCl (fun c => { c with xf := { c.xf with sending := true } }) s
    (chunk cfg s).2

/-- the file name of an rfbFileTransferOffer: the payload up to its last ',' (file time cut off) -/
def offerName (name : Path) : Path :=
  match splitLast 44 name with
  | some (bef, _) => bef
  | none => name

/-- the buffer echoed in rfbFileAcceptHeader: the ',' has been overwritten with NUL -/
def offerEcho (buffer : Bytes) : Bytes :=
  match splitLast 44 (cstr buffer) with
  | some (bef, _) => buffer.set bef.length 0
  | none => buffer

def ftOffer (cfg : Cfg) (length : Nat) (s : S) : S :=
  let (ob, s) := readBuffer cfg length s
  match ob with
  | none => s
  | some buffer =>
    -- strrchr(buffer, ','): the file time is cut off (the ',' becomes NUL in the echoed buffer)
    let name := offerName (cstr buffer)
    let echo := offerEcho buffer
    let (o4, s) := readExact 4 s                              -- sizeHtmp
    match o4 with
    | none => closeClient s
    | some _ =>
      let (op, s) := translate cfg name C19.filename1Size s
      match op with
      | none => s
      | some fname =>
        let s := closeOld s
        let (fd, s) := doOpen fname .wrct s
        let s := setCl (fun c => { c with xf := { c.xf with fd := fd } }) s
        let (_, s) := sendMsg cfg 9 0 (if fd.isNone then u32max else 0) length (.raw echo) s
        match fd with
        | none => s
        | some _ => setCl (fun c => { c with xf := { c.xf with receiving := true, sending := false } }) s

/-- the write of rfbFilePacket: plain, or after uncompress; `none` = retval -1 -/
def packetWrite (fd size length : Nat) (buffer : Bytes) (s : S) : Option Nat × S :=
  if size = 0 then doWrite fd length (fnvStr buffer) s
  else
    let (u, s) := doUncompress length s
    match u with
    | some mh => doWrite fd mh.1 mh.2 s
    | none => (none, s)

def ftPacket (cfg : Cfg) (size length : Nat) (s : S) : S :=
  let (ob, s) := readBuffer cfg length s
  match ob with
  | none => s
  | some buffer =>
    match s.cl.xf.fd with
    | none => s
    | some fd =>
      let (ret, s) := packetWrite fd size length buffer s
      match ret with
      | some _ => s
      | none => endTransfer (doClose false fd s)

def ftEof (s : S) : S :=
  let s := match s.cl.xf.fd with
    | some k => doClose false k s
    | none => s
  endTransfer s

def ftAbort (cfg : Cfg) (cp : Nat) (s : S) : S :=
  match s.cl.xf.fd with
  | some k => endTransfer (doClose false k s)
  | none =>
    if cp = 0 then (sendMsg cfg 7 0 u32max 0 (.raw []) s).2
    else match cfg.cb with
      | some f =>
        let (a, s) := consult f s
        if a then (sendMsg cfg 14 0 1 0 (.raw []) s).2
        else (sendMsg cfg 14 0 u32max 0 (.raw []) s).2
      | none =>
        if cfg.permit then (sendMsg cfg 14 0 1 0 (.raw []) s).2
        else (sendMsg cfg 14 0 u32max 0 (.raw []) s).2

/-- rfbCFileDelete: stat, then rmdir or unlink -/
def deletePath (p : Path) (s : S) : Bool × S :=
  let (st, s) := doStat p s
  match st with
  | .fail => (false, s)
  | .dir _ => doSimple false (.rmdir p) s
  | _ => doSimple false (.unlink p) s

def ftCommand (cfg : Cfg) (cp length : Nat) (s : S) : S :=
  let (ob, s) := readBuffer cfg length s
  match ob with
  | none => s
  | some buffer =>
    if cp = 1 then                                            -- rfbCDirCreate
      let (op, s) := translate cfg (cstr buffer) C19.filename1Size s
      match op with
      | none => s
      | some p =>
        let (ok, s) := doSimple false (.mkdir p) s
        (sendMsg cfg 11 4 (if ok then 0 else u32max) length (.raw buffer) s).2
    else if cp = 4 then                                       -- rfbCFileDelete
      let (op, s) := translate cfg (cstr buffer) C19.filename1Size s
      match op with
      | none => s
      | some p =>
        let (ok, s) := deletePath p s
        (sendMsg cfg 11 7 (if ok then 0 else u32max) length (.raw buffer) s).2
    else if cp = 5 then                                       -- rfbCFileRename "old*new"
      match splitLast 42 (cstr buffer) with
      | none => s
      | some (a, b) =>
        let (opa, s) := translate cfg a C19.filename1Size s
        match opa with
        | none => s
        | some pa =>
          let (opb, s) := translate cfg b C19.filename2Size s
          match opb with
          | none => s
          | some pb =>
            let (ok, s) := doSimple false (.rename pa pb) s
            (sendMsg cfg 11 8 (if ok then 0 else u32max) length (.raw buffer) s).2
    else s

/-- rfbProcessFileTransfer(cl, contentType, contentParam, size, length) -/
def processFT (cfg : Cfg) (ct cp size length : Nat) (s : S) : S :=
  let (ok, s) := macroCheck cfg s
  if !ok then s else
  match ct with
  | 1 =>                                                      -- rfbDirContentRequest
    if cp = 2 then (sendMsg cfg 2 3 0 5 (.raw [67, 58, 108, 0, 0]) s).2     -- drives list "C:l"
    else if cp = 1 then
      let (ob, s) := readBuffer cfg length s
      match ob with
      | none => s
      | some buffer => sendDirContent cfg length buffer s
    else s
  | 3 => ftRequest cfg size length s
  | 4 => ftHeader cfg size s
  | 5 => ftPacket cfg size length s
  | 6 => ftEof s
  | 7 => ftAbort cfg cp s
  | 8 => ftOffer cfg length s
  | 10 => ftCommand cfg cp length s
  | _ => s          -- rfbDirPacket, rfbFileAcceptHeader, rfbCommandReturn, rfbFileChecksums,
                    -- rfbFileTransferAccess: logged only; unknown types: ignored

/-! ### TightVNC 1.3 file-transfer extension -/

/-- a path relative to the root stays below it: starts with '/' and has no ".." component
(IsPathBelowRoot of the confinement fix) -/
def belowRoot (p : Path) : Bool :=
  p.head? == some 47 && !((p.splitOn 47).contains [46, 46])

/-- ConvertPath: `none` = NULL (and the caller's buffer is cleared) -/
def convertPath (root : Path) (p : Path) : Option Path :=
  if p.length = 0 ∨ p.length + root.length > C19.PATH_MAX - 1 ∨ !belowRoot p then none
  else some (root ++ p)

def setTight (f : Tight → Tight) (s : S) : S :=
  setCl (fun c => { c with tight := c.tight.map f }) s
/-- update the upload / the download half of the extension's client data -/
def setUp (f : TSide → TSide) (s : S) : S := setTight (fun t => { t with up := f t.up }) s
def setDn (f : TSide → TSide) (s : S) : S := setTight (fun t => { t with dn := f t.dn }) s

def lenErr : String := "Path length exceeds PATH_MAX (4096) bytes"

def twire (w : Wire) (s : S) : S := emit (.wire w) s

/-- CreateFileListInfo loop -/
def tListLoop (path : Path) (withFiles : Bool) : List Path → List (Nat × Bytes) → S → List (Nat × Bytes) × S
  | [], acc, s => (acc.reverse, s)
  | name :: rest, acc, s =>
    if name = [46] ∨ name = [46, 46] then tListLoop path withFiles rest acc s
    else
      let full := path ++ (if path.getLast? = some 47 then [] else [47]) ++ name
      let (st, s) := doStat full s
      match st with
      | .fail => tListLoop path withFiles rest acc s
      | .dir _ => tListLoop path withFiles rest ((u32max, name) :: acc) s
      | .file n =>
        tListLoop path withFiles rest (if withFiles then (n % 4294967296, name) :: acc else acc) s
      | .other n =>
        tListLoop path withFiles rest (if withFiles then (n % 4294967296, name) :: acc else acc) s

/-- GetFileListResponseMsg on the converted path -/
def tListDir (flags : Nat) (path : Path) (s : S) : S :=
  let (od, s) := doOpendir path s
  match od with
  | none => twire (.tlist (flags ||| 128) []) s
  | some names =>
    let (ents, s) := tListLoop path ((flags &&& 16) = 0) names [] s
    let s := emit (.fs .closedir "") s
    twire (.tlist (flags &&& 240) ents) s

/-- HandleFileListRequest -/
def tList (cfg : Cfg) (s : S) : S :=
  let (oh, s) := readExact 3 s
  match oh with
  | none => closeClient s
  | some hdr =>
    let flags := (hdr.getD 0 0).toNat
    let n := be16 (hdr.getD 1 0) (hdr.getD 2 0)
    if n = 0 ∨ n > C19.PATH_MAX - 1 then s
    else
      let (oraw, s) := readExact n s
      match oraw with
      | none => closeClient s
      | some raw =>
        match convertPath cfg.root (cstr raw) with
        | none => s
        | some path => tListDir flags path s

/-- Handle{Download,Upload}LengthError: the name size is 0 or larger than PATH_MAX-1; the name is
read and thrown away (`unsigned short fNameSize` with fixes/C19-tight-name-size-sign.diff: at most
65535 bytes, so the stream stays in sync), then the error message is sent -/
def tLengthError (n : Nat) (w : Wire) (s : S) : S :=
  let (o, s) := readExact n s
  match o with
  | none => closeClient s
  | some _ => twire w s

def tDownloadEnd (fd : Nat) (w : Wire) (s : S) : S :=
  let s := doClose false fd s
  let s := setDn (fun d => { d with fd := none, inProgress := false }) s
  twire w s

/-- the body of RunFileDownloadThread, run to completion; `fuel` bounds the number of blocks -/
def tDownloadLoop (fd : Nat) : Nat → S → S
  | 0, s => s
  | fuel + 1, s =>
    let (rr, s) := doRead fd s
    match rr with
    | .data 0 _ => tDownloadEnd fd .tdataEnd s
    | .fail => tDownloadEnd fd (.tfailed "Cannot open file, perhaps it is absent or is a directory") s
    | .data n h => tDownloadLoop fd fuel (twire (.tdata n h) s)

/-- the download "thread": open the file and send it -/
def tDownloadRun (path : Path) (s : S) : S :=
  match s.cl.tight with
  | none => s
  | some t =>
    if !t.dn.inProgress ∧ t.dn.fd.isNone then
      let (ofd, s) := doOpen path .rd s
      match ofd with
      | none => twire (.tfailed "Cannot open file, perhaps it is absent or is a directory") s
      | some k =>
        let s := setDn (fun d => { d with fd := some k, inProgress := true }) s
        tDownloadLoop k (s.env.length + 1) s
    else twire (.tfailed "An internal error on the server caused download failure") s

/-- HandleFileDownload on the converted path: ChkFileDownloadErr, then the thread -/
def tDownloadPath (path : Path) (s : S) : S :=
  let s := setDn (fun d => { d with fName := path }) s
  let (st, s) := doStat path s
  match st with
  | .file sz =>
    if sz = 0 then twire .tdataEnd s
    else tDownloadRun path (closeUndoneDownload false s)
  | _ => twire (.tfailed "Cannot open file, perhaps it is absent or is not a regular file") s

/-- HandleFileDownloadRequest -/
def tDownload (cfg : Cfg) (s : S) : S :=
  let (oh, s) := readExact 7 s
  match oh with
  | none => closeClient s
  | some hdr =>
    let n := be16 (hdr.getD 1 0) (hdr.getD 2 0)
    if n = 0 ∨ n > C19.PATH_MAX - 1 then tLengthError n (.tfailed lenErr) s
    else
      let (oraw, s) := readExact n s
      match oraw with
      | none => closeClient s
      | some raw =>
        match convertPath cfg.root (cstr raw) with
        | none =>
          let s := setDn (fun d => { d with fName := [] }) s
          twire (.tfailed lenErr) s
        | some path => tDownloadPath path s

/-- HandleFileUpload on the converted path (with the upload-fd fix: an open descriptor is closed,
not dropped) -/
def tUploadPath (path : Path) (s : S) : S :=
  let s := match s.cl.tight.bind (·.up.fd) with
    | some k => doClose false k s
    | none => s
  let s := setUp (fun _ => { fd := none, inProgress := false, fName := path }) s
  let (ofd, s) := doOpen path .wrct s
  match ofd with
  | none => twire (.tcancel "Could not create file") s
  | some k => setUp (fun u => { u with fd := some k, inProgress := true }) s

/-- HandleFileUploadRequest -/
def tUpload (cfg : Cfg) (s : S) : S :=
  let (oh, s) := readExact 7 s
  match oh with
  | none => closeClient s
  | some hdr =>
    let n := be16 (hdr.getD 1 0) (hdr.getD 2 0)
    if n = 0 ∨ n > C19.PATH_MAX - 1 then tLengthError n (.tcancel lenErr) s
    else
      let (oraw, s) := readExact n s
      match oraw with
      | none => closeClient s
      | some raw =>
        match convertPath cfg.root (cstr raw) with
        | none =>
          let s := setUp (fun u => { u with fName := [] }) s
          twire (.tcancel lenErr) s
        | some path => tUploadPath path s

/-- FileUpdateComplete -/
def tUploadComplete (s : S) : S :=
  match s.cl.tight with
  | none => s
  | some t =>
    let (_, s) := doSimple false (.utime t.up.fName) s
    match t.up.fd with
    | some k =>
      let s := doClose false k s
      setUp (fun u => { u with fd := none, inProgress := false }) s
    | none => s

/-- ChkFileUploadWriteErr + HandleFileUploadWrite -/
def tUploadWrite (comp : Nat) (buf : Bytes) (s : S) : S :=
  match s.cl.tight with
  | none => s
  | some t =>
    match t.up.fd with
    | some k =>
      let (r, s) := doWrite k comp (fnvStr buf) s
      if r = some comp then s
      else twire (.tcancel "Error writing file data") (closeUndoneUpload false s)
    | none =>                                                 -- write(-1, ...) fails
      twire (.tcancel "Error writing file data") (closeUndoneUpload false s)

/-- HandleFileUploadDataRequest -/
def tUploadData (s : S) : S :=
  let (oh, s) := readExact 5 s
  match oh with
  | none => closeClient s
  | some hdr =>
    let level := (hdr.getD 0 0).toNat
    let real := be16 (hdr.getD 1 0) (hdr.getD 2 0)
    let comp := be16 (hdr.getD 3 0) (hdr.getD 4 0)
    if real = 0 ∧ comp = 0 then
      let (om, s) := readExact 4 s                            -- mTime
      match om with
      | none => closeClient s
      | some _ => tUploadComplete s
    else
      let (ob, s) := readExact comp s
      match ob with
      | none => closeClient s
      | some buf =>
        if level ≠ 0 then
          closeUndoneUpload false (twire (.tcancel "Server does not support data compression on upload") s)
        else tUploadWrite comp buf s

/-- HandleFileDownloadCancelRequest / HandleFileUploadFailedRequest -/
def tReason (upload : Bool) (s : S) : S :=
  let (oh, s) := readExact 3 s
  match oh with
  | none => closeClient s
  | some hdr =>
    let n := be16 (hdr.getD 1 0) (hdr.getD 2 0)
    if n = 0 then s
    else
      let (o, s) := readExact n s
      match o with
      | none => closeClient s
      | some _ => if upload then closeUndoneUpload false s else closeUndoneDownload false s

/-- HandleFileCreateDirRequest -/
def tMkdir (cfg : Cfg) (s : S) : S :=
  let (oh, s) := readExact 3 s
  match oh with
  | none => closeClient s
  | some hdr =>
    let n := be16 (hdr.getD 1 0) (hdr.getD 2 0)
    if n ≥ C19.PATH_MAX - 1 then closeClient s
    else
      let (oraw, s) := readExact n s
      match oraw with
      | none => closeClient s
      | some raw =>
        match convertPath cfg.root (cstr raw) with
        | none => s
        | some path => (doSimple false (.mkdir path) s).2

/-- the condition tested by `handleMessage` in rfbtightserver.c (the client must also have the
extension enabled, which requires it to be registered when the client connects) -/
def tightAllowed (cfg : Cfg) (c : Client) : Bool :=
  c.tightExt && cfg.tightEn && !c.viewOnly

/-- a message of type 130..136 after its type byte has been read -/
def tightMsg (cfg : Cfg) (ty : Nat) (s : S) : S :=
  if !s.cl.tightExt then closeClient (emit (.chk false) s)    -- unknown message type
  else if !cfg.tightEn ∨ s.cl.viewOnly then closeClient (closeClient (emit (.chk false) s))
  else match s.cl.tight with
    | none => closeClient (closeClient (emit (.chk false) s)) -- rfbGetTightClientData: NULL
    | some _ =>
      let s := emit (.chk true) s
      match ty with
      | 130 => tList cfg s
      | 131 => tDownload cfg s
      | 132 => tUpload cfg s
      | 133 => tUploadData s
      | 134 => tReason false s
      | 135 => tReason true s
      | 136 => tMkdir cfg s
      | _ => closeClient s

/-! ### one client message -/

def isFtType (b : Nat) : Bool := b = 7 ∨ (130 ≤ b ∧ b ≤ 136)

/-- rfbProcessClientMessage for a client in RFB_NORMAL whose next byte is a file-transfer message
type (UltraVNC 7, TightVNC 130..136); anything else is outside this model (`nonft`, input dropped). -/
def stepMsg (cfg : Cfg) (s : S) : S :=
  let s := emit .start s
  match s.cl.inbuf with
  | [] => s
  | b :: _ =>
    if !isFtType b.toNat then emit (.nonft b.toNat) (setCl (fun c => { c with inbuf := [] }) s)
    else
      let (o1, s) := readExact 1 s
      match o1 with
      | none => closeClient s
      | some _ =>
        if b.toNat = 7 then
          let (oh, s) := readExact 11 s
          match oh with
          | none => closeClient s
          | some h =>
            processFT cfg (h.getD 0 0).toNat (h.getD 1 0).toNat
              (be32 (h.getD 3 0) (h.getD 4 0) (h.getD 5 0) (h.getD 6 0))
              (be32 (h.getD 7 0) (h.getD 8 0) (h.getD 9 0) (h.getD 10 0)) s
        else tightMsg cfg b.toNat s

/-- the peer has closed its end: the next read returns 0 -> rfbCloseClient -/
def peerGone (s : S) : S := closeClient (setCl (fun c => { c with inbuf := [] }) (emit .start s))

/-- rfbClientConnectionGone: the transfer's descriptor is released (the fix) -/
def reapClient (s : S) : S :=
  match s.cl.xf.fd with
  | some k => setCl (fun c => { c with xf := { c.xf with fd := none } }) (emit (.cleanup (.close k) "") (emit .start s))
  | none => emit .start s

/-- rfbSendFileTransferChunk called from the event loop -/
def chunkEntry (cfg : Cfg) (s : S) : Bool × S := chunk cfg (emit .start s)

/-! ### sessions: any sequence of inputs to one connection -/

/-- process client messages while input is pending (rfbProcessClientMessage is called as long as the
socket is readable) -/
def pump (cfg : Cfg) : Nat → S → S
  | 0, s => s
  | fuel + 1, s =>
    if !s.cl.isOpen ∨ s.cl.inbuf.isEmpty then s else pump cfg fuel (stepMsg cfg s)

inductive Input where
  | bytes (b : Bytes)      -- the client sends these bytes
  | chunk                  -- the event loop calls rfbSendFileTransferChunk
  | gone                   -- the peer closes the connection
  | reap                   -- the event loop tears down closed clients (rfbClientConnectionGone)
  deriving DecidableEq, Repr

def sessStep (cfg : Cfg) (s : S) : Input → S
  | .bytes b =>
    if s.cl.isOpen then
      pump cfg (s.cl.inbuf.length + b.length + 1) (setCl (fun c => { c with inbuf := c.inbuf ++ b }) s)
    else s
  | .chunk => (chunkEntry cfg s).2
  | .gone => if s.cl.isOpen then peerGone s else s
  | .reap => if s.cl.isOpen then s else reapClient s

def runSession (cfg : Cfg) (s : S) (inputs : List Input) : S := inputs.foldl (sessStep cfg) s

/-- descriptors a client still holds -/
def Client.fds (c : Client) : List Nat :=
  c.xf.fd.toList ++ (match c.tight with
    | some t => t.up.fd.toList ++ t.dn.fd.toList
    | none => [])

end VncModel.FileXfer
