/-
C19 — executable model of the UltraVNC built-in file transfer of libvncserver
(src/libvncserver/rfbserver.c) and of the TightVNC 1.3 file-transfer extension
(src/libvncserver/tightvnc-filetransfer/), bug for bug, for the code WITH the fixes
fixes/C19-ft-fd-leak.diff, fixes/C19-tight-upload-fd-leak.diff, fixes/C19-tight-path-confinement.diff.

C ↔ model
  screen->permitFileTransfer == TRUE                 ↔ `Cfg.permit`
  screen->getFileTransferPermission (per call)       ↔ `Cfg.cb : Option (Nat → Nat)`; the n-th call
                                                        returns `f n` (raw value, 1 stands for TRUE);
                                                        `S.calls` counts the calls so far
  FILEXFER_ALLOWED_OR_CLOSE_AND_RETURN               ↔ `macroCheck` (callback first, then the flag)
  permission re-check of rfbSendFileTransferChunk    ↔ `chunkCheck` (flag first, then the callback)
  rfbFilenameTranslate2UNIX                          ↔ `translate` (= macroCheck + `translatePure`)
  rfbSendFileTransferMessage                         ↔ `sendMsg`
  rfbProcessFileTransferReadBuffer                   ↔ `readBuffer`
  rfbSendDirContent                                  ↔ `sendDirContent`
  rfbSendFileTransferChunk                           ↔ `chunk`
  rfbProcessFileTransfer                             ↔ `processFT`
  case rfbFileTransfer of rfbProcessClientNormalMessage, extension dispatch ↔ `stepMsg`
  cl->fileTransfer.{fd,sending,receiving,compressionEnabled} ↔ `Xfer`
  rfbCloseClient (incl. the extension's close hook)  ↔ `closeClient`
  rfbClientConnectionGone (fd released: the fix)     ↔ `reapClient`
  handleMessage gate of rfbtightserver.c             ↔ `tightGate`
  ConvertPath (with the confinement fix)             ↔ `convertPath`
  Handle*Request of handlefiletransferrequest.c      ↔ `tList`, `tDownload`, `tUpload`, `tUploadData`,
                                                        `tDownloadCancel`, `tUploadFailed`, `tMkdir`

Everything outside the program is a parameter: the results of libc calls come from a script
(`S.env`, one token per call that returns something, in call order), the bytes the client sent are
`Client.inbuf`, descriptors are numbered by `S.nextFd` in the order they are opened.  The socket is
assumed writable and the peer reading (no short writes), `malloc` succeeds for the sizes used.
Core Lean only.
-/
import VncModel.FileXfer.Basic
import VncModel.Gen.C19

namespace VncModel.FileXfer
open VncModel.Gen

/-- cl->fileTransfer -/
structure Xfer where
  fd : Option Nat := none
  sending : Bool := false
  receiving : Bool := false
  compression : Bool := false
  deriving DecidableEq, Repr

/-- rfbClientFileUpload / rfbClientFileDownload of the TightVNC extension -/
structure TSide where
  fd : Option Nat := none
  inProgress : Bool := false
  fName : Path := []
  deriving DecidableEq, Repr

structure Tight where
  up : TSide := {}
  dn : TSide := {}
  deriving DecidableEq, Repr

structure Client where
  isOpen : Bool := true          -- cl->sock != RFB_INVALID_SOCKET
  viewOnly : Bool := false
  xf : Xfer := {}
  tightExt : Bool := false       -- the extension is in cl->extensions (client chose security type 16)
  tight : Option Tight := none   -- its data; freed (NULL) by the first rfbCloseClient
  inbuf : Bytes := []            -- bytes received from the client and not yet consumed
  deriving DecidableEq, Repr

structure Cfg where
  permit : Bool                  -- screen->permitFileTransfer == TRUE
  cb : Option (Nat → Nat)        -- getFileTransferPermission: answer of the n-th call (1 = TRUE)
  home : Option Path             -- getenv("HOME")
  tightEn : Bool                 -- IsFileTransferEnabled()
  root : Path                    -- ftproot

/-- run state while one entry point executes -/
structure S where
  cl : Client
  calls : Nat                    -- calls of the permission callback so far
  env : List String              -- results of the libc calls still to come
  nextFd : Nat                   -- descriptors opened so far (serial numbers start at 1)
  evs : List Ev                  -- events of this invocation, NEWEST FIRST
  deriving Repr

def emit (e : Ev) (s : S) : S := { s with evs := e :: s.evs }

def setCl (f : Client → Client) (s : S) : S := { s with cl := f s.cl }

/-! ### libc calls: effect + scripted result -/

def popTok (s : S) : Option String × S :=
  match s.env with
  | [] => (none, s)
  | t :: r => (some t, { s with env := r })

/-- an effect whose result is ok/fail -/
def doSimple (teardown : Bool) (e : FsEffect) (s : S) : Bool × S :=
  let (t, s) := popTok s
  let mk := fun (r : String) => if teardown then Ev.cleanup e r else Ev.fs e r
  match t with
  | some "ok" => (true, emit (mk "ok") s)
  | some "fail" => (false, emit (mk "fail") s)
  | _ => (false, emit (.envBad "simple") (emit (mk "?") s))

def doClose (teardown : Bool) (fd : Nat) (s : S) : S :=
  emit (if teardown then .cleanup (.close fd) "" else .fs (.close fd) "") s

def doOpen (p : Path) (m : Mode) (s : S) : Option Nat × S :=
  let (t, s) := popTok s
  match t with
  | some "fail" => (none, emit (.fs (.open p m) "fail") s)
  | some r =>
    if r.startsWith "#" then
      let k := s.nextFd + 1
      (some k, emit (.fs (.open p m) s!"#{k}") { s with nextFd := k })
    else (none, emit (.envBad "open") (emit (.fs (.open p m) "?") s))
  | none => (none, emit (.envBad "open") (emit (.fs (.open p m) "?") s))

def doFstat (fd : Nat) (s : S) : Option Nat × S :=
  let (t, s) := popTok s
  match t with
  | some "fail" => (none, emit (.fs (.fstat fd) "fail") s)
  | some r =>
    match r.toNat? with
    | some n => (some n, emit (.fs (.fstat fd) r) s)
    | none => (none, emit (.envBad "fstat") (emit (.fs (.fstat fd) "?") s))
  | none => (none, emit (.envBad "fstat") (emit (.fs (.fstat fd) "?") s))

inductive ReadRes where
  | fail | data (n : Nat) (h : String)
  deriving DecidableEq, Repr

def parseNH (r : String) : Option (Nat × String) :=
  match r.splitOn ":" with
  | [a, b] => a.toNat?.map (fun n => (n, b))
  | _ => none

def doRead (fd : Nat) (s : S) : ReadRes × S :=
  let (t, s) := popTok s
  match t with
  | some "fail" => (.fail, emit (.fs (.read fd) "fail") s)
  | some r =>
    match parseNH r with
    | some (n, h) => (.data n h, emit (.fs (.read fd) r) s)
    | none => (.fail, emit (.envBad "read") (emit (.fs (.read fd) "?") s))
  | none => (.fail, emit (.envBad "read") (emit (.fs (.read fd) "?") s))

/-- write(fd, buf, n): `none` = -1, `some r` = r bytes written -/
def doWrite (fd : Nat) (n : Nat) (h : String) (s : S) : Option Nat × S :=
  let (t, s) := popTok s
  match t with
  | some "fail" => (none, emit (.fs (.write fd n h) "fail") s)
  | some r =>
    match r.toNat? with
    | some k => (some k, emit (.fs (.write fd n h) r) s)
    | none => (none, emit (.envBad "write") (emit (.fs (.write fd n h) "?") s))
  | none => (none, emit (.envBad "write") (emit (.fs (.write fd n h) "?") s))

/-- opendir: `some names` in readdir order ("ok <n> <pct name>...") -/
def doOpendir (p : Path) (s : S) : Option (List Path) × S :=
  let (t, s) := popTok s
  match t with
  | some "fail" => (none, emit (.fs (.opendir p) "fail") s)
  | some r =>
    match r.splitOn " " with
    | "ok" :: _ :: names =>
      match names.mapM unpct? with
      | some ns => (some ns, emit (.fs (.opendir p) r) s)
      | none => (none, emit (.envBad "opendir") (emit (.fs (.opendir p) "?") s))
    | _ => (none, emit (.envBad "opendir") (emit (.fs (.opendir p) "?") s))
  | none => (none, emit (.envBad "opendir") (emit (.fs (.opendir p) "?") s))

inductive StatRes where
  | fail | file (n : Nat) | dir (n : Nat) | other (n : Nat)
  deriving DecidableEq, Repr

def doStat (p : Path) (s : S) : StatRes × S :=
  let (t, s) := popTok s
  match t with
  | some "fail" => (.fail, emit (.fs (.stat p) "fail") s)
  | some r =>
    match r.splitOn " " with
    | ["file", n] => match n.toNat? with
      | some k => (.file k, emit (.fs (.stat p) r) s)
      | none => (.fail, emit (.envBad "stat") (emit (.fs (.stat p) "?") s))
    | ["dir", n] => match n.toNat? with
      | some k => (.dir k, emit (.fs (.stat p) r) s)
      | none => (.fail, emit (.envBad "stat") (emit (.fs (.stat p) "?") s))
    | ["other", n] => match n.toNat? with
      | some k => (.other k, emit (.fs (.stat p) r) s)
      | none => (.fail, emit (.envBad "stat") (emit (.fs (.stat p) "?") s))
    | _ => (.fail, emit (.envBad "stat") (emit (.fs (.stat p) "?") s))
  | none => (.fail, emit (.envBad "stat") (emit (.fs (.stat p) "?") s))

/-- zlib compress(src of n bytes): `some m` = Z_OK with m output bytes -/
def doCompress (n : Nat) (s : S) : Option Nat × S :=
  let (t, s) := popTok s
  match t with
  | some "fail" => (none, emit (.x "compress" n "fail") s)
  | some r =>
    match r.toNat? with
    | some m => (some m, emit (.x "compress" n r) s)
    | none => (none, emit (.envBad "compress") (emit (.x "compress" n "?") s))
  | none => (none, emit (.envBad "compress") (emit (.x "compress" n "?") s))

/-- zlib uncompress: `some (m, hash of the m output bytes)` -/
def doUncompress (n : Nat) (s : S) : Option (Nat × String) × S :=
  let (t, s) := popTok s
  match t with
  | some "fail" => (none, emit (.x "uncompress" n "fail") s)
  | some r =>
    match parseNH r with
    | some mh => (some mh, emit (.x "uncompress" n r) s)
    | none => (none, emit (.envBad "uncompress") (emit (.x "uncompress" n "?") s))
  | none => (none, emit (.envBad "uncompress") (emit (.x "uncompress" n "?") s))

/-! ### connection teardown -/

/-- CloseUndoneFileUpload -/
def closeUndoneUpload (teardown : Bool) (s : S) : S :=
  match s.cl.tight with
  | none => s
  | some t =>
    if t.up.inProgress then
      let s := match t.up.fd with
        | some k => doClose teardown k s
        | none => s
      let (_, s) := doSimple teardown (.unlink t.up.fName) s
      setCl (fun c => { c with tight := some { t with up := {} } }) s
    else s

/-- CloseUndoneFileDownload (the download thread is run to completion inside the request, so
`inProgress` is never observed true between messages; modelled as written all the same) -/
def closeUndoneDownload (teardown : Bool) (s : S) : S :=
  match s.cl.tight with
  | none => s
  | some t =>
    if t.dn.inProgress then
      let s := match t.dn.fd with
        | some k => doClose teardown k s
        | none => s
      setCl (fun c => { c with tight := some { t with dn := {} } }) s
    else s

/-- rfbCloseClient: extension close hook (rfbTightExtensionClientClose frees the data), then the
socket.  Safe to call again. -/
def closeClient (s : S) : S :=
  let s := match s.cl.tight with
    | none => s
    | some _ =>
      let s := closeUndoneUpload true s
      let s := closeUndoneDownload true s
      setCl (fun c => { c with tight := none }) s
  emit .closeConn (setCl (fun c => { c with isOpen := false }) s)

/-! ### permission -/

/-- one call of getFileTransferPermission -/
def consult (f : Nat → Nat) (s : S) : Bool × S :=
  let a := f s.calls
  (a == 1, emit (.q a) { s with calls := s.calls + 1 })

/-- FILEXFER_ALLOWED_OR_CLOSE_AND_RETURN: `(cb != NULL && cb(cl) != TRUE) || permit != TRUE`
=> log, rfbCloseClient, return -/
def macroCheck (cfg : Cfg) (s : S) : Bool × S :=
  match cfg.cb with
  | some f =>
    let (a, s) := consult f s
    if a && cfg.permit then (true, emit (.chk true) s)
    else (false, closeClient (emit (.chk false) s))
  | none =>
    if cfg.permit then (true, emit (.chk true) s)
    else (false, closeClient (emit (.chk false) s))

/-- the test at the top of rfbSendFileTransferChunk: `permit != TRUE || (cb != NULL && cb(cl) != TRUE)`
=> return TRUE (the client is NOT closed) -/
def chunkCheck (cfg : Cfg) (s : S) : Bool × S :=
  if !cfg.permit then (false, emit (.chk false) s)
  else match cfg.cb with
    | some f =>
      let (a, s) := consult f s
      (a, emit (.chk a) s)
    | none => (true, emit (.chk true) s)

/-! ### rfbFilenameTranslate2UNIX -/

def bs2s (p : Path) : Path := p.map (fun b => if b = 92 then 47 else b)   -- '\\' -> '/'

/-- the pure part: length checks against the destination size, "C:" stripping, HOME, separators.
`none` = the function returned FALSE (nothing was copied). -/
def translatePure (home : Option Path) (path : Path) (maxLen : Nat) : Option Path :=
  if path.length ≥ maxLen then none
  else match path with
    | 67 :: 58 :: rest => some (bs2s rest)                      -- "C:"
    | _ =>
      match home with
      | some h =>
        if path.length + h.length + 1 ≥ maxLen then none
        else some (bs2s (h ++ 47 :: path))
      | none => some (bs2s path)

def translate (cfg : Cfg) (path : Path) (maxLen : Nat) (s : S) : Option Path × S :=
  let (ok, s) := macroCheck cfg s
  if !ok then (none, s) else (translatePure cfg.home path maxLen, s)

/-! ### sending and receiving -/

/-- rfbSendFileTransferMessage -/
def sendMsg (cfg : Cfg) (ct cp size len : Nat) (pl : Payload) (s : S) : Bool × S :=
  let (ok, s) := macroCheck cfg s
  if !ok then (false, s)
  else if !s.cl.isOpen then (false, closeClient s)        -- rfbWriteExact fails: invalid socket
  else (true, emit (.wire (.ft ct cp size len pl)) s)

/-- rfbReadExact with the library's timeout: the bytes are there, or the read times out
(`none`; the caller closes the client) -/
def readExact (n : Nat) (s : S) : Option Bytes × S :=
  if n = 0 then (some [], s)
  else if !s.cl.isOpen then (none, s)
  else if s.cl.inbuf.length < n then (none, setCl (fun c => { c with inbuf := [] }) s)
  else (some (s.cl.inbuf.take n), setCl (fun c => { c with inbuf := c.inbuf.drop n }) s)

/-- rfbProcessFileTransferReadBuffer: `none` = returned NULL -/
def readBuffer (cfg : Cfg) (length : Nat) (s : S) : Option Bytes × S :=
  let (ok, s) := macroCheck cfg s
  if !ok then (none, s)
  else if length > C19.intMax then (none, closeClient s)
  else if length = 0 then (none, s)                         -- buffer stays NULL: callers give up
  else match readExact length s with
    | (some b, s) => (some b, s)
    | (none, s) => (none, closeClient s)

def be16 (a b : UInt8) : Nat := a.toNat * 256 + b.toNat
def be32 (a b c d : UInt8) : Nat := ((a.toNat * 256 + b.toNat) * 256 + c.toNat) * 256 + d.toNat

/-! ### rfbSendDirContent -/

/-- the readdir loop; `dirp` is open throughout -/
def dirLoop (cfg : Cfg) (path : Path) : List Path → S → S
  | [], s =>
    let s := emit (.fs .closedir "") s
    (sendMsg cfg 2 0 0 0 (.raw []) s).2                      -- end of the listing
  | name :: rest, s =>
    match doStat (path ++ 47 :: name) s with
    | (.fail, s) => dirLoop cfg path rest s
    | (r, s) =>
      let (attr, size) : Nat × Nat := match r with
        | .dir n => (C19.attrDirectory, n % 4294967296)
        | .file n => (C19.attrNormal, n % 4294967296)
        | .other n => (C19.attrNormal, n % 4294967296)
        | .fail => (0, 0)
      -- hidden files are not shown, ".." is
      if name = [46, 46] ∨ name.head? ≠ some 46 then
        match sendMsg cfg 2 1 0 (C19.findDataFixed + name.length) (.entry attr size name) s with
        | (true, s) => dirLoop cfg path rest s
        | (false, s) => emit (.fs .closedir "") s
      else dirLoop cfg path rest s

def sendDirContent (cfg : Cfg) (length : Nat) (buffer : Bytes) (s : S) : S :=
  let (ok, s) := macroCheck cfg s
  if !ok then s else
  match translate cfg (cstr buffer) C19.dirPathSize s with
  | (none, s) => s
  | (some path, s) =>
    match doOpendir path s with
    | (none, s) => (sendMsg cfg 2 1 0 0 (.raw []) s).2
    | (some names, s) =>
      -- send back the path name
      match sendMsg cfg 2 1 0 length (.raw buffer) s with
      | (false, s) => emit (.fs .closedir "") s                -- (closedir: part of the fd-leak fix)
      | (true, s) => dirLoop cfg path names s

/-! ### rfbSendFileTransferChunk -/

def endTransfer (s : S) : S :=
  setCl (fun c => { c with xf := { c.xf with fd := none, sending := false, receiving := false } }) s

/-- returns the function's result (TRUE/FALSE) -/
def chunk (cfg : Cfg) (s : S) : Bool × S :=
  let (ok, s) := chunkCheck cfg s                            -- (entry point `chunkEntry` adds .start)
  if !ok then (true, s) else
  match s.cl.xf.fd with
  | none => (true, s)
  | some fd =>
    if !s.cl.xf.sending then (true, s)
    else if !s.cl.isOpen then (false, s)
    else
      -- the socket is writable (assumption): read one block
      match doRead fd s with
      | (.data 0 _, s) =>
        let (r, s) := sendMsg cfg 6 0 0 0 (.raw []) s
        (r, endTransfer (doClose false fd s))
      | (.fail, s) =>
        let (r, s) := sendMsg cfg 7 0 0 0 (.raw []) s
        (r, endTransfer (doClose false fd s))
      | (.data n h, s) =>
        if !s.cl.xf.compression then sendMsg cfg 5 0 0 n (.digest n h) s
        else
          match doCompress n s with
          | (some m, s) =>
            if m < n then sendMsg cfg 5 0 1 m (.zdigest n h) s
            else sendMsg cfg 5 0 0 n (.digest n h) s
          | (none, s) => sendMsg cfg 5 0 0 n (.digest n h) s

/-! ### rfbProcessFileTransfer, one function per content type -/

/-- part of the fd-leak fix: an open transfer is closed before its descriptor is overwritten -/
def closeOld (s : S) : S :=
  match s.cl.xf.fd with
  | some k => doClose false k s
  | none => s

def ftRequest (cfg : Cfg) (size length : Nat) (s : S) : S :=
  match readBuffer cfg length s with
  | (none, s) => s
  | (some buffer, s) =>
    match translate cfg (cstr buffer) C19.filename1Size s with
    | (none, s) => s
    | (some fname, s) =>
      let s := closeOld s
      let (fd, s) := doOpen fname .rd s
      -- fstat; on success the time stamp is appended to the name
      let (fd, stSize, s) : Option Nat × Nat × S := match fd with
        | none => (none, 0, s)
        | some k =>
          match doFstat k s with
          | (some n, s) => (some k, n, s)
          | (none, s) => (none, 0, doClose false k s)
      let s := setCl (fun c => { c with xf := { c.xf with fd := fd, compression := (size == 1) } }) s
      match fd with
      | none => (sendMsg cfg 4 0 u32max length (.raw buffer) s).2
      | some _ =>
        let (_, s) := sendMsg cfg 4 0 (stSize % 4294967296) ((cstr buffer).length + 17) (.hdr (cstr buffer)) s
        let s := setCl (fun c => { c with xf := { c.xf with receiving := false, sending := false } }) s
        -- rfbWriteExact(sizeHtmp): part of the `.hdr` wire event; fails iff the client was just closed
        if s.cl.isOpen then s else closeClient s

def ftHeader (cfg : Cfg) (size : Nat) (s : S) : S :=
  if size = u32max then
    let s := match s.cl.xf.fd with
      | some k => doClose false k s
      | none => s                                            -- close(-1)
    setCl (fun c => { c with xf := { c.xf with fd := none } }) s
  else
    let s := setCl (fun c => { c with xf := { c.xf with sending := true } }) s
    (chunk cfg s).2

def ftOffer (cfg : Cfg) (length : Nat) (s : S) : S :=
  match readBuffer cfg length s with
  | (none, s) => s
  | (some buffer, s) =>
    -- strrchr(buffer, ','): the file time is cut off (the ',' becomes NUL in the echoed buffer)
    let (name, echo) : Path × Bytes := match splitLast 44 (cstr buffer) with
      | some (bef, _) => (bef, buffer.set bef.length 0)
      | none => (cstr buffer, buffer)
    match readExact 4 s with                                  -- sizeHtmp
    | (none, s) => closeClient s
    | (some _, s) =>
      match translate cfg name C19.filename1Size s with
      | (none, s) => s
      | (some fname, s) =>
        let s := closeOld s
        let (fd, s) := doOpen fname .wrct s
        let s := setCl (fun c => { c with xf := { c.xf with fd := fd } }) s
        let (_, s) := sendMsg cfg 9 0 (if fd.isNone then u32max else 0) length (.raw echo) s
        match fd with
        | none => s
        | some _ => setCl (fun c => { c with xf := { c.xf with receiving := true, sending := false } }) s

def ftPacket (cfg : Cfg) (size length : Nat) (s : S) : S :=
  match readBuffer cfg length s with
  | (none, s) => s
  | (some buffer, s) =>
    match s.cl.xf.fd with
    | none => s
    | some fd =>
      let (ret, s) : Option Nat × S :=
        if size = 0 then doWrite fd length (fnvStr buffer) s
        else match doUncompress length s with
          | (some (m, h), s) => doWrite fd m h s
          | (none, s) => (none, s)
      match ret with
      | some _ => s
      | none => endTransfer (doClose false fd s)

def ftEof (s : S) : S :=
  let s := match s.cl.xf.fd with
    | some k => doClose false k s
    | none => s
  endTransfer s

def ftAbort (cfg : Cfg) (cp : Nat) (s : S) : S :=
  match s.cl.xf.fd with
  | some k => endTransfer (doClose false k s)
  | none =>
    if cp = 0 then (sendMsg cfg 7 0 u32max 0 (.raw []) s).2
    else match cfg.cb with
      | some f =>
        let (a, s) := consult f s
        if a then (sendMsg cfg 14 0 1 0 (.raw []) s).2
        else (sendMsg cfg 14 0 u32max 0 (.raw []) s).2
      | none =>
        if cfg.permit then (sendMsg cfg 14 0 1 0 (.raw []) s).2
        else (sendMsg cfg 14 0 u32max 0 (.raw []) s).2

def ftCommand (cfg : Cfg) (cp length : Nat) (s : S) : S :=
  match readBuffer cfg length s with
  | (none, s) => s
  | (some buffer, s) =>
    if cp = 1 then                                            -- rfbCDirCreate
      match translate cfg (cstr buffer) C19.filename1Size s with
      | (none, s) => s
      | (some p, s) =>
        let (ok, s) := doSimple false (.mkdir p) s
        (sendMsg cfg 11 4 (if ok then 0 else u32max) length (.raw buffer) s).2
    else if cp = 4 then                                       -- rfbCFileDelete
      match translate cfg (cstr buffer) C19.filename1Size s with
      | (none, s) => s
      | (some p, s) =>
        let (ok, s) : Bool × S := match doStat p s with
          | (.fail, s) => (false, s)
          | (.dir _, s) => doSimple false (.rmdir p) s
          | (_, s) => doSimple false (.unlink p) s
        (sendMsg cfg 11 7 (if ok then 0 else u32max) length (.raw buffer) s).2
    else if cp = 5 then                                       -- rfbCFileRename "old*new"
      match splitLast 42 (cstr buffer) with
      | none => s
      | some (a, b) =>
        match translate cfg a C19.filename1Size s with
        | (none, s) => s
        | (some pa, s) =>
          match translate cfg b C19.filename2Size s with
          | (none, s) => s
          | (some pb, s) =>
            let (ok, s) := doSimple false (.rename pa pb) s
            (sendMsg cfg 11 8 (if ok then 0 else u32max) length (.raw buffer) s).2
    else s

/-- rfbProcessFileTransfer(cl, contentType, contentParam, size, length) -/
def processFT (cfg : Cfg) (ct cp size length : Nat) (s : S) : S :=
  let (ok, s) := macroCheck cfg s
  if !ok then s else
  match ct with
  | 1 =>                                                      -- rfbDirContentRequest
    if cp = 2 then (sendMsg cfg 2 3 0 5 (.raw [67, 58, 108, 0, 0]) s).2     -- drives list "C:l"
    else if cp = 1 then
      match readBuffer cfg length s with
      | (none, s) => s
      | (some buffer, s) => sendDirContent cfg length buffer s
    else s
  | 3 => ftRequest cfg size length s
  | 4 => ftHeader cfg size s
  | 5 => ftPacket cfg size length s
  | 6 => ftEof s
  | 7 => ftAbort cfg cp s
  | 8 => ftOffer cfg length s
  | 10 => ftCommand cfg cp length s
  | _ => s          -- rfbDirPacket, rfbFileAcceptHeader, rfbCommandReturn, rfbFileChecksums,
                    -- rfbFileTransferAccess: logged only; unknown types: ignored

/-! ### TightVNC 1.3 file-transfer extension -/

/-- a path relative to the root stays below it: starts with '/' and has no ".." component
(IsPathBelowRoot of the confinement fix) -/
def belowRoot (p : Path) : Bool :=
  p.head? == some 47 && !((p.splitOn 47).contains [46, 46])

/-- ConvertPath: `none` = NULL (and the caller's buffer is cleared) -/
def convertPath (root : Path) (p : Path) : Option Path :=
  if p.length = 0 ∨ p.length + root.length > C19.PATH_MAX - 1 ∨ !belowRoot p then none
  else some (root ++ p)

def setTight (f : Tight → Tight) (s : S) : S :=
  setCl (fun c => { c with tight := c.tight.map f }) s

def lenErr : String := "Path length exceeds PATH_MAX (4096) bytes"

def twire (w : Wire) (s : S) : S := emit (.wire w) s

/-- CreateFileListInfo loop -/
def tListLoop (path : Path) (withFiles : Bool) : List Path → List (Nat × Bytes) → S → List (Nat × Bytes) × S
  | [], acc, s => (acc.reverse, s)
  | name :: rest, acc, s =>
    if name = [46] ∨ name = [46, 46] then tListLoop path withFiles rest acc s
    else
      let full := path ++ (if path.getLast? = some 47 then [] else [47]) ++ name
      match doStat full s with
      | (.fail, s) => tListLoop path withFiles rest acc s
      | (.dir _, s) => tListLoop path withFiles rest ((u32max, name) :: acc) s
      | (.file n, s) =>
        tListLoop path withFiles rest (if withFiles then (n % 4294967296, name) :: acc else acc) s
      | (.other n, s) =>
        tListLoop path withFiles rest (if withFiles then (n % 4294967296, name) :: acc else acc) s

/-- HandleFileListRequest -/
def tList (cfg : Cfg) (s : S) : S :=
  match readExact 3 s with
  | (none, s) => closeClient s
  | (some hdr, s) =>
    let flags := (hdr.getD 0 0).toNat
    let n := be16 (hdr.getD 1 0) (hdr.getD 2 0)
    if n = 0 ∨ n > C19.PATH_MAX - 1 then s
    else match readExact n s with
      | (none, s) => closeClient s
      | (some raw, s) =>
        match convertPath cfg.root (cstr raw) with
        | none => s
        | some path =>
          match doOpendir path s with
          | (none, s) => twire (.tlist (flags ||| 128) []) s
          | (some names, s) =>
            let (ents, s) := tListLoop path ((flags &&& 16) = 0) names [] s
            let s := emit (.fs .closedir "") s
            twire (.tlist (flags &&& 240) ents) s

/-- Handle{Download,Upload}LengthError: the name size is 0 or larger than PATH_MAX-1.
`(short)fNameSize` is negative from 32768 on, the calloc fails and nothing is read. -/
def tLengthError (n : Nat) (w : Wire) (s : S) : S :=
  if n ≥ 32768 then s
  else match readExact n s with
    | (none, s) => closeClient s
    | (some _, s) => twire w s

/-- the body of RunFileDownloadThread, run to completion; `fuel` bounds the number of blocks -/
def tDownloadLoop (fd : Nat) : Nat → S → S
  | 0, s => s
  | fuel + 1, s =>
    match doRead fd s with
    | (.data 0 _, s) =>
      let s := doClose false fd s
      let s := setTight (fun t => { t with dn := { t.dn with fd := none, inProgress := false } }) s
      twire .tdataEnd s
    | (.fail, s) =>
      let s := doClose false fd s
      let s := setTight (fun t => { t with dn := { t.dn with fd := none, inProgress := false } }) s
      twire (.tfailed "Cannot open file, perhaps it is absent or is a directory") s
    | (.data n h, s) => tDownloadLoop fd fuel (twire (.tdata n h) s)

/-- HandleFileDownloadRequest -/
def tDownload (cfg : Cfg) (s : S) : S :=
  match readExact 7 s with
  | (none, s) => closeClient s
  | (some hdr, s) =>
    let n := be16 (hdr.getD 1 0) (hdr.getD 2 0)
    if n = 0 ∨ n > C19.PATH_MAX - 1 then tLengthError n (.tfailed lenErr) s
    else match readExact n s with
      | (none, s) => closeClient s
      | (some raw, s) =>
        match convertPath cfg.root (cstr raw) with
        | none =>
          let s := setTight (fun t => { t with dn := { t.dn with fName := [] } }) s
          twire (.tfailed lenErr) s
        | some path =>
          let s := setTight (fun t => { t with dn := { t.dn with fName := path } }) s
          -- ChkFileDownloadErr
          match doStat path s with
          | (.file sz, s) =>
            if sz = 0 then twire .tdataEnd s
            else
              let s := closeUndoneDownload false s
              -- the "thread"
              match s.cl.tight with
              | none => s
              | some t =>
                if !t.dn.inProgress ∧ t.dn.fd.isNone then
                  match doOpen path .rd s with
                  | (none, s) => twire (.tfailed "Cannot open file, perhaps it is absent or is a directory") s
                  | (some k, s) =>
                    let s := setTight (fun t => { t with dn := { t.dn with fd := some k, inProgress := true } }) s
                    tDownloadLoop k (s.env.length + 1) s
                else twire (.tfailed "An internal error on the server caused download failure") s
          | (_, s) => twire (.tfailed "Cannot open file, perhaps it is absent or is not a regular file") s

/-- HandleFileUploadRequest -/
def tUpload (cfg : Cfg) (s : S) : S :=
  match readExact 7 s with
  | (none, s) => closeClient s
  | (some hdr, s) =>
    let n := be16 (hdr.getD 1 0) (hdr.getD 2 0)
    if n = 0 ∨ n > C19.PATH_MAX - 1 then tLengthError n (.tcancel lenErr) s
    else match readExact n s with
      | (none, s) => closeClient s
      | (some raw, s) =>
        match convertPath cfg.root (cstr raw) with
        | none =>
          let s := setTight (fun t => { t with up := { t.up with fName := [] } }) s
          twire (.tcancel lenErr) s
        | some path =>
          -- HandleFileUpload (with the upload-fd fix: an open descriptor is closed, not dropped)
          let s := match s.cl.tight.bind (·.up.fd) with
            | some k => doClose false k s
            | none => s
          let s := setTight (fun t => { t with up := { fd := none, inProgress := false, fName := path } }) s
          match doOpen path .wrct s with
          | (none, s) => twire (.tcancel "Could not create file") s
          | (some k, s) => setTight (fun t => { t with up := { t.up with fd := some k, inProgress := true } }) s

/-- HandleFileUploadDataRequest -/
def tUploadData (s : S) : S :=
  match readExact 5 s with
  | (none, s) => closeClient s
  | (some hdr, s) =>
    let level := (hdr.getD 0 0).toNat
    let real := be16 (hdr.getD 1 0) (hdr.getD 2 0)
    let comp := be16 (hdr.getD 3 0) (hdr.getD 4 0)
    if real = 0 ∧ comp = 0 then
      match readExact 4 s with                                -- mTime
      | (none, s) => closeClient s
      | (some _, s) =>
        -- FileUpdateComplete
        match s.cl.tight with
        | none => s
        | some t =>
          let (_, s) := doSimple false (.utime t.up.fName) s
          match t.up.fd with
          | some k =>
            let s := doClose false k s
            setTight (fun t => { t with up := { t.up with fd := none, inProgress := false } }) s
          | none => s
    else match readExact comp s with
      | (none, s) => closeClient s
      | (some buf, s) =>
        if level ≠ 0 then
          let s := twire (.tcancel "Server does not support data compression on upload") s
          closeUndoneUpload false s
        else
          -- ChkFileUploadWriteErr
          match s.cl.tight with
          | none => s
          | some t =>
            let (r, s) : Option Nat × S := match t.up.fd with
              | some k => doWrite k comp (fnvStr buf) s
              | none => (none, s)                             -- write(-1, ...) fails
            if r = some comp then s
            else
              let s := closeUndoneUpload false s
              twire (.tcancel "Error writing file data") s

/-- HandleFileDownloadCancelRequest / HandleFileUploadFailedRequest -/
def tReason (upload : Bool) (s : S) : S :=
  match readExact 3 s with
  | (none, s) => closeClient s
  | (some hdr, s) =>
    let n := be16 (hdr.getD 1 0) (hdr.getD 2 0)
    if n = 0 then s
    else match readExact n s with
      | (none, s) => closeClient s
      | (some _, s) => if upload then closeUndoneUpload false s else closeUndoneDownload false s

/-- HandleFileCreateDirRequest -/
def tMkdir (cfg : Cfg) (s : S) : S :=
  match readExact 3 s with
  | (none, s) => closeClient s
  | (some hdr, s) =>
    let n := be16 (hdr.getD 1 0) (hdr.getD 2 0)
    if n ≥ C19.PATH_MAX - 1 then closeClient s
    else match readExact n s with
      | (none, s) => closeClient s
      | (some raw, s) =>
        match convertPath cfg.root (cstr raw) with
        | none => s
        | some path => (doSimple false (.mkdir path) s).2

/-- the condition tested by `handleMessage` in rfbtightserver.c (the client must also have the
extension enabled, which requires it to be registered when the client connects) -/
def tightAllowed (cfg : Cfg) (c : Client) : Bool :=
  c.tightExt && cfg.tightEn && !c.viewOnly

/-- a message of type 130..136 after its type byte has been read -/
def tightMsg (cfg : Cfg) (ty : Nat) (s : S) : S :=
  if !s.cl.tightExt then closeClient (emit (.chk false) s)    -- unknown message type
  else if !cfg.tightEn ∨ s.cl.viewOnly then closeClient (closeClient (emit (.chk false) s))
  else match s.cl.tight with
    | none => closeClient (closeClient (emit (.chk false) s)) -- rfbGetTightClientData: NULL
    | some _ =>
      let s := emit (.chk true) s
      match ty with
      | 130 => tList cfg s
      | 131 => tDownload cfg s
      | 132 => tUpload cfg s
      | 133 => tUploadData s
      | 134 => tReason false s
      | 135 => tReason true s
      | 136 => tMkdir cfg s
      | _ => closeClient s

/-! ### one client message -/

def isFtType (b : Nat) : Bool := b = 7 ∨ (130 ≤ b ∧ b ≤ 136)

/-- rfbProcessClientMessage for a client in RFB_NORMAL whose next byte is a file-transfer message
type (UltraVNC 7, TightVNC 130..136); anything else is outside this model (`nonft`, input dropped). -/
def stepMsg (cfg : Cfg) (s : S) : S :=
  let s := emit .start s
  match s.cl.inbuf with
  | [] => s
  | b :: _ =>
    if !isFtType b.toNat then emit (.nonft b.toNat) (setCl (fun c => { c with inbuf := [] }) s)
    else
      match readExact 1 s with
      | (none, s) => closeClient s
      | (some _, s) =>
        if b.toNat = 7 then
          match readExact 11 s with
          | (none, s) => closeClient s
          | (some h, s) =>
            processFT cfg (h.getD 0 0).toNat (h.getD 1 0).toNat
              (be32 (h.getD 3 0) (h.getD 4 0) (h.getD 5 0) (h.getD 6 0))
              (be32 (h.getD 7 0) (h.getD 8 0) (h.getD 9 0) (h.getD 10 0)) s
        else tightMsg cfg b.toNat s

/-- the peer has closed its end: the next read returns 0 -> rfbCloseClient -/
def peerGone (s : S) : S := closeClient (setCl (fun c => { c with inbuf := [] }) (emit .start s))

/-- rfbClientConnectionGone: the transfer's descriptor is released (the fix) -/
def reapClient (s : S) : S :=
  match s.cl.xf.fd with
  | some k => setCl (fun c => { c with xf := { c.xf with fd := none } }) (emit (.cleanup (.close k) "") (emit .start s))
  | none => emit .start s

/-- rfbSendFileTransferChunk called from the event loop -/
def chunkEntry (cfg : Cfg) (s : S) : Bool × S := chunk cfg (emit .start s)

/-- descriptors a client still holds -/
def Client.fds (c : Client) : List Nat :=
  c.xf.fd.toList ++ (match c.tight with
    | some t => t.up.fd.toList ++ t.dn.fd.toList
    | none => [])

end VncModel.FileXfer
