/-
C19 — lemmas: a message that is not permitted at entry has no effect.  `Quiet s`: the trace of `s`
contains no file-system call of a handler, no message to the client and no transfer-data processing.
-/
import VncModel.FileXfer.Guard

namespace VncModel.FileXfer

def quietB (evs : List Ev) : Bool := evs.all (fun e => !e.isNoisy)
def Quiet (s : S) : Prop := quietB s.evs = true

@[simp] theorem quiet_setCl (f) (s : S) : Quiet (setCl f s) ↔ Quiet s := Iff.rfl
@[simp] theorem quiet_setNextFd (k) (s : S) : Quiet (setNextFd k s) ↔ Quiet s := Iff.rfl
@[simp] theorem quiet_bumpCalls (s : S) : Quiet (bumpCalls s) ↔ Quiet s := Iff.rfl
@[simp] theorem quiet_setTight (f) (s : S) : Quiet (setTight f s) ↔ Quiet s := Iff.rfl
@[simp] theorem quiet_setUp (f) (s : S) : Quiet (setUp f s) ↔ Quiet s := Iff.rfl
@[simp] theorem quiet_setDn (f) (s : S) : Quiet (setDn f s) ↔ Quiet s := Iff.rfl
@[simp] theorem quiet_endTransfer (s : S) : Quiet (endTransfer s) ↔ Quiet s := Iff.rfl
@[simp] theorem quiet_emit (e) (s : S) : Quiet (emit e s) ↔ (e.isNoisy = false ∧ Quiet s) := by
  simp [Quiet, quietB, emit]
@[simp] theorem quiet_popTok (s : S) : Quiet (popTok s).2 ↔ Quiet s := by
  unfold popTok; split <;> rfl

/-- teardown calls are `cleanup` events -/
@[simp] theorem doSimple_quiet_td (e) (s : S) : Quiet (doSimple true e s).2 ↔ Quiet s := by
  unfold doSimple; ftsplit [Ev.isNoisy]
@[simp] theorem doClose_quiet_td (k) (s : S) : Quiet (doClose true k s) ↔ Quiet s := by
  unfold doClose; simp [Ev.isNoisy]
@[simp] theorem closeUndoneUpload_quiet (s : S) : Quiet (closeUndoneUpload true s) ↔ Quiet s := by
  unfold closeUndoneUpload; ftsplit
@[simp] theorem closeUndoneDownload_quiet (s : S) : Quiet (closeUndoneDownload true s) ↔ Quiet s := by
  unfold closeUndoneDownload; ftsplit
@[simp] theorem closeClient_quiet (s : S) : Quiet (closeClient s) ↔ Quiet s := by
  unfold closeClient; ftsplit [Ev.isNoisy]
@[simp] theorem consult_quiet (f) (s : S) : Quiet (consult f s).2 ↔ Quiet s := by
  unfold consult; simp [Ev.isNoisy]
@[simp] theorem macroCheck_quiet (cfg) (s : S) : Quiet (macroCheck cfg s).2 ↔ Quiet s := by
  unfold macroCheck; ftsplit [Ev.isNoisy]
@[simp] theorem chunkCheck_quiet (cfg) (s : S) : Quiet (chunkCheck cfg s).2 ↔ Quiet s := by
  unfold chunkCheck; ftsplit [Ev.isNoisy]
@[simp] theorem readExact_quiet (n) (s : S) : Quiet (readExact n s).2 ↔ Quiet s := by
  unfold readExact; ftsplit

/-! closeClient and the permission tests leave the transfer record alone and close the socket -/
@[simp] theorem closeUndoneUpload_xf (t) (s : S) : (closeUndoneUpload t s).cl.xf = s.cl.xf := by
  unfold closeUndoneUpload doSimple doClose popTok; ftsplit [setCl, emit]
@[simp] theorem closeUndoneDownload_xf (t) (s : S) : (closeUndoneDownload t s).cl.xf = s.cl.xf := by
  unfold closeUndoneDownload doClose; ftsplit [setCl, emit]
@[simp] theorem closeClient_xf (s : S) : (closeClient s).cl.xf = s.cl.xf := by
  unfold closeClient; ftsplit [setCl, emit]
@[simp] theorem closeClient_isOpen (s : S) : (closeClient s).cl.isOpen = false := by
  unfold closeClient; simp [setCl, emit]
@[simp] theorem consult_cl (f) (s : S) : (consult f s).2.cl = s.cl := rfl
@[simp] theorem readExact_xf (n) (s : S) : (readExact n s).2.cl.xf = s.cl.xf := by
  unfold readExact; ftsplit [setCl]
@[simp] theorem readExact_calls (n) (s : S) : (readExact n s).2.calls = s.calls := by
  unfold readExact; ftsplit [setCl]
@[simp] theorem emit_calls (e) (s : S) : (emit e s).calls = s.calls := rfl
@[simp] theorem emit_cl (e) (s : S) : (emit e s).cl = s.cl := rfl
@[simp] theorem bumpCalls_cl (s : S) : (bumpCalls s).cl = s.cl := rfl
@[simp] theorem setCl_cl (f) (s : S) : (setCl f s).cl = f s.cl := rfl
@[simp] theorem setCl_calls (f) (s : S) : (setCl f s).calls = s.calls := rfl

@[simp] theorem closeUndoneUpload_tightExt (t) (s : S) : (closeUndoneUpload t s).cl.tightExt = s.cl.tightExt := by
  unfold closeUndoneUpload doSimple doClose popTok; ftsplit [setCl, emit]
@[simp] theorem closeUndoneDownload_tightExt (t) (s : S) : (closeUndoneDownload t s).cl.tightExt = s.cl.tightExt := by
  unfold closeUndoneDownload doClose; ftsplit [setCl, emit]
@[simp] theorem closeClient_tightExt (s : S) : (closeClient s).cl.tightExt = s.cl.tightExt := by
  unfold closeClient; ftsplit [setCl, emit]
@[simp] theorem readExact_tightExt (n) (s : S) : (readExact n s).2.cl.tightExt = s.cl.tightExt := by
  unfold readExact; ftsplit [setCl]
@[simp] theorem macroCheck_tightExt (cfg) (s : S) : (macroCheck cfg s).2.cl.tightExt = s.cl.tightExt := by
  unfold macroCheck; ftsplit
@[simp] theorem chunkCheck_cl (cfg) (s : S) : (chunkCheck cfg s).2.cl = s.cl := by
  unfold chunkCheck; ftsplit

/-- the test FILEXFER_ALLOWED_OR_CLOSE_AND_RETURN makes with the callback's next answer -/
def entryAllowed (cfg : Cfg) (calls : Nat) : Bool :=
  match cfg.cb with
  | some f => f calls == 1 && cfg.permit
  | none => cfg.permit

theorem macroCheck_fst (cfg) (s : S) : (macroCheck cfg s).1 = entryAllowed cfg s.calls := by
  unfold macroCheck entryAllowed consult; simp only []; (repeat' split) <;> simp_all

theorem macroCheck_denied (cfg) (s : S) (h : entryAllowed cfg s.calls = false) :
    (macroCheck cfg s).2.cl.isOpen = false ∧ (macroCheck cfg s).2.cl.xf = s.cl.xf := by
  have := macroCheck_fst cfg s
  unfold macroCheck at *
  unfold entryAllowed consult at *
  simp only [] at *
  (repeat' split) <;> simp_all

/-- rfbProcessFileTransfer when its permission test fails: nothing but the test and the close -/
theorem processFT_denied (cfg ct cp size len) (s : S) (h : entryAllowed cfg s.calls = false) :
    processFT cfg ct cp size len s = (macroCheck cfg s).2 := by
  have := macroCheck_fst cfg s
  unfold processFT
  simp_all

end VncModel.FileXfer
