/-
C19 — lemmas about the TightVNC 1.3 file-transfer extension: the gate, and confinement of every
path to the extension's root directory (with the ConvertPath fix).
-/
import VncModel.FileXfer.Paths

namespace VncModel.FileXfer

/-! ### confinement vocabulary -/

/-- `p` is a path ConvertPath ACCEPTED: the conversion of some client name `q` (so `p = root ++ q`
with `q` starting with '/', free of ".." components and short enough, see `rooted_below`): lexically
below the root (symlink-free file system assumed) -/
def Rooted (root p : Path) : Prop := ∃ q, convertPath root q = some p

/-- what an accepted path looks like -/
theorem rooted_below (root p : Path) (h : Rooted root p) :
    ∃ q, belowRoot q = true ∧ p = root ++ q ∧ q.length + root.length ≤ Gen.C19.PATH_MAX - 1 := by
  obtain ⟨q, hq⟩ := h
  unfold convertPath at hq
  split at hq
  · simp at hq
  · rename_i hc
    simp only [Option.some.injEq] at hq
    simp only [not_or, Bool.not_eq_true', Bool.not_eq_false, Nat.not_lt] at hc
    exact ⟨q, hc.2.2, hq.symm, hc.2.1⟩

/-- a path the extension may hand to libc: the empty string (names no file: ENOENT), a rooted path,
or an entry (other than "." and "..") of a rooted directory, with or without a separating '/' -/
def Confined (root p : Path) : Prop :=
  p = [] ∨ Rooted root p ∨
    ∃ d name, Rooted root d ∧ name ≠ [46, 46] ∧ name ≠ [46] ∧ (p = d ++ 47 :: name ∨ p = d ++ name)

theorem convertPath_rooted (root p r : Path) (h : convertPath root p = some r) : Rooted root r := ⟨p, h⟩

/-- the name of the upload the client record remembers ("" if none) -/
def upName (s : S) : Path :=
  match s.cl.tight with
  | some t => t.up.fName
  | none => []

/-- the upload name the record remembers is empty or a path ConvertPath accepted for an earlier
request (never a client's raw, refused name) -/
def UpOk (root : Path) (s : S) : Prop := upName s = [] ∨ Rooted root (upName s)

theorem upName_of {s : S} {t : Tight} (h : s.cl.tight = some t) : t.up.fName = upName s := by
  simp [upName, h]

theorem confined_upName {root} {s : S} {t : Tight} (hu : UpOk root s) (h : s.cl.tight = some t) :
    Confined root t.up.fName := by
  rw [upName_of h]
  rcases hu with hu | hu
  · exact Or.inl hu
  · exact Or.inr (Or.inl hu)

/-! ### the client record is not touched by libc calls -/
@[simp] theorem popTok_cl (s : S) : (popTok s).2.cl = s.cl := by unfold popTok; split <;> rfl
@[simp] theorem setNextFd_cl (k) (s : S) : (setNextFd k s).cl = s.cl := rfl
@[simp] theorem doSimple_cl (t e) (s : S) : (doSimple t e s).2.cl = s.cl := by unfold doSimple; ftsplit
@[simp] theorem doClose_cl (t k) (s : S) : (doClose t k s).cl = s.cl := by unfold doClose; ftsplit
@[simp] theorem doOpen_cl (p m) (s : S) : (doOpen p m s).2.cl = s.cl := by unfold doOpen; ftsplit
@[simp] theorem doFstat_cl (k) (s : S) : (doFstat k s).2.cl = s.cl := by unfold doFstat; ftsplit
@[simp] theorem doRead_cl (k) (s : S) : (doRead k s).2.cl = s.cl := by unfold doRead; ftsplit
@[simp] theorem doWrite_cl (k n h) (s : S) : (doWrite k n h s).2.cl = s.cl := by unfold doWrite; ftsplit
@[simp] theorem doOpendir_cl (p) (s : S) : (doOpendir p s).2.cl = s.cl := by unfold doOpendir; ftsplit
@[simp] theorem doStat_cl (p) (s : S) : (doStat p s).2.cl = s.cl := by unfold doStat; ftsplit
@[simp] theorem twire_cl (w) (s : S) : (twire w s).cl = s.cl := rfl
@[simp] theorem readExact_tight (n) (s : S) : (readExact n s).2.cl.tight = s.cl.tight := by
  unfold readExact; ftsplit [setCl]
@[simp] theorem setUp_tight (f) (s : S) :
    (setUp f s).cl.tight = s.cl.tight.map (fun t => { t with up := f t.up }) := rfl
@[simp] theorem setDn_tight (f) (s : S) :
    (setDn f s).cl.tight = s.cl.tight.map (fun t => { t with dn := f t.dn }) := rfl

/-! `UpOk` moves through everything that does not rename the upload -/
theorem upOk_of_eq {root} {s s' : S} (h : upName s' = upName s) : UpOk root s' ↔ UpOk root s := by
  unfold UpOk; rw [h]
theorem upName_of_tight {s s' : S} (h : s'.cl.tight = s.cl.tight) : upName s' = upName s := by
  unfold upName; rw [h]

@[simp] theorem upOk_emit (root e) (s : S) : UpOk root (emit e s) ↔ UpOk root s := Iff.rfl
@[simp] theorem upOk_twire (root w) (s : S) : UpOk root (twire w s) ↔ UpOk root s := Iff.rfl
@[simp] theorem upOk_readExact (root n) (s : S) : UpOk root (readExact n s).2 ↔ UpOk root s :=
  upOk_of_eq (upName_of_tight (by simp))
@[simp] theorem upOk_doSimple (root t e) (s : S) : UpOk root (doSimple t e s).2 ↔ UpOk root s :=
  upOk_of_eq (upName_of_tight (by simp))
@[simp] theorem upOk_doClose (root t k) (s : S) : UpOk root (doClose t k s) ↔ UpOk root s :=
  upOk_of_eq (upName_of_tight (by simp))
@[simp] theorem upOk_doOpen (root p m) (s : S) : UpOk root (doOpen p m s).2 ↔ UpOk root s :=
  upOk_of_eq (upName_of_tight (by simp))
@[simp] theorem upOk_doRead (root k) (s : S) : UpOk root (doRead k s).2 ↔ UpOk root s :=
  upOk_of_eq (upName_of_tight (by simp))
@[simp] theorem upOk_doWrite (root k n h) (s : S) : UpOk root (doWrite k n h s).2 ↔ UpOk root s :=
  upOk_of_eq (upName_of_tight (by simp))
@[simp] theorem upOk_doOpendir (root p) (s : S) : UpOk root (doOpendir p s).2 ↔ UpOk root s :=
  upOk_of_eq (upName_of_tight (by simp))
@[simp] theorem upOk_doStat (root p) (s : S) : UpOk root (doStat p s).2 ↔ UpOk root s :=
  upOk_of_eq (upName_of_tight (by simp))
@[simp] theorem upOk_setDn (root f) (s : S) : UpOk root (setDn f s) ↔ UpOk root s := by
  apply upOk_of_eq
  unfold upName
  simp only [setDn_tight]
  cases s.cl.tight <;> rfl
/-- the upload half is updated but keeps its name -/
theorem upOk_setUp_keep (root f) (s : S) (hf : ∀ u, (f u).fName = u.fName) :
    UpOk root (setUp f s) ↔ UpOk root s := by
  apply upOk_of_eq
  unfold upName
  simp only [setUp_tight]
  cases s.cl.tight <;> simp [hf]
theorem upOk_setUp_keep' (root f) (s : S) (hf : ∀ u, (f u).fName = u.fName) (h : UpOk root s) :
    UpOk root (setUp f s) := (upOk_setUp_keep root f s hf).mpr h
/-- the upload gets the name `n` -/
theorem upOk_setUp_name (root f n) (s : S) (hf : ∀ u, (f u).fName = n) (hn : n = [] ∨ Rooted root n) :
    UpOk root (setUp f s) := by
  unfold UpOk upName
  simp only [setUp_tight]
  cases s.cl.tight <;> simp [hf, hn]

@[simp] theorem closeClient_tight (s : S) : (closeClient s).cl.tight = none := by
  unfold closeClient
  cases h : s.cl.tight <;> simp [h, setCl, emit]
theorem upOk_closeClient (root) (s : S) : UpOk root (closeClient s) := by
  left
  simp [upName]
theorem upOk_closeUndoneUpload (root t) (s : S) (h : UpOk root s) : UpOk root (closeUndoneUpload t s) := by
  unfold closeUndoneUpload
  ftsplit
  all_goals (left; simp [upName, setCl])
@[simp] theorem upOk_closeUndoneDownload (root t) (s : S) :
    UpOk root (closeUndoneDownload t s) ↔ UpOk root s := by
  apply upOk_of_eq
  unfold closeUndoneDownload
  cases h : s.cl.tight with
  | none => simp
  | some t =>
    simp only []
    split
    · simp only [upName, setCl, h]
    · rfl

/-! ### paths of the teardown helper when called by a handler (not at teardown) -/
theorem closeUndoneUpload_paths (root) (s : S) (hu : UpOk root s) (h : PathsFs (Confined root) s) :
    PathsFs (Confined root) (closeUndoneUpload false s) := by
  unfold closeUndoneUpload
  ftsplit [FsEffect.paths]
  all_goals exact confined_upName hu (by assumption)

/-! ### every handler: paths confined, remembered upload name stays confined -/

theorem tListLoop_paths (root path wf) (names : List Path) (acc) (s : S) (hr : Rooted root path)
    (h : PathsFs (Confined root) s) : PathsFs (Confined root) (tListLoop path wf names acc s).2 := by
  induction names generalizing s acc with
  | nil => unfold tListLoop; exact h
  | cons name rest ih =>
    have hc : ¬(name = [46] ∨ name = [46, 46]) →
        Confined root (path ++ (if path.getLast? = some 47 then [] else [47]) ++ name) := by
      intro hn
      simp only [not_or] at hn
      right; right
      refine ⟨path, name, hr, hn.2, hn.1, ?_⟩
      split <;> simp
    unfold tListLoop
    simp only []
    split
    · exact ih _ _ h
    · have hs : PathsFs (Confined root)
          (doStat (path ++ (if path.getLast? = some 47 then [] else [47]) ++ name) s).2 := by
        rw [doStat_paths]; exact ⟨hc (by assumption), h⟩
      split <;> exact ih _ _ hs
@[simp] theorem upOk_tListLoop (root path wf) (names : List Path) (acc) (s : S) :
    UpOk root (tListLoop path wf names acc s).2 ↔ UpOk root s := by
  induction names generalizing s acc with
  | nil => unfold tListLoop; rfl
  | cons name rest ih => unfold tListLoop; ftsplit

theorem tListDir_paths (root flags path) (s : S) (hr : Rooted root path)
    (h : PathsFs (Confined root) s) : PathsFs (Confined root) (tListDir flags path s) := by
  have hc : Confined root path := Or.inr (Or.inl hr)
  unfold tListDir
  simp only []
  split
  · simp [hc, h]
  · simp only [pathsFs_twire, pathsFs_emit, evPathsOk, FsEffect.paths, List.not_mem_nil, false_imp_iff,
      implies_true, true_and]
    exact tListLoop_paths root path _ _ _ _ hr (by simp [hc, h])
@[simp] theorem upOk_tListDir (root flags path) (s : S) : UpOk root (tListDir flags path s) ↔ UpOk root s := by
  unfold tListDir; ftsplit

theorem tList_paths (cfg) (s : S) (h : PathsFs (Confined cfg.root) s) : PathsFs (Confined cfg.root) (tList cfg s) := by
  unfold tList
  ftsplit
  exact tListDir_paths _ _ _ _ (convertPath_rooted _ _ _ (by assumption)) (by simp_all)
theorem tList_upOk (cfg) (s : S) (h : UpOk cfg.root s) : UpOk cfg.root (tList cfg s) := by
  unfold tList
  ftsplit [upOk_closeClient]

theorem tLengthError_paths (A n w) (s : S) (h : PathsFs A s) : PathsFs A (tLengthError n w s) := by
  unfold tLengthError; ftsplit
theorem tLengthError_upOk (root n w) (s : S) (h : UpOk root s) : UpOk root (tLengthError n w s) := by
  unfold tLengthError; ftsplit [upOk_closeClient]

theorem tDownloadLoop_paths (A fd fuel) (s : S) (h : PathsFs A s) : PathsFs A (tDownloadLoop fd fuel s) := by
  induction fuel generalizing s with
  | zero => unfold tDownloadLoop; exact h
  | succ n ih => unfold tDownloadLoop tDownloadEnd; ftsplit
@[simp] theorem upOk_tDownloadLoop (root fd fuel) (s : S) : UpOk root (tDownloadLoop fd fuel s) ↔ UpOk root s := by
  induction fuel generalizing s with
  | zero => unfold tDownloadLoop; rfl
  | succ n ih => unfold tDownloadLoop tDownloadEnd; ftsplit
theorem tDownloadRun_paths (A path) (s : S) (ha : A path) (h : PathsFs A s) : PathsFs A (tDownloadRun path s) := by
  unfold tDownloadRun
  ftsplit
  exact tDownloadLoop_paths _ _ _ _ (by simp_all)
@[simp] theorem upOk_tDownloadRun (root path) (s : S) : UpOk root (tDownloadRun path s) ↔ UpOk root s := by
  unfold tDownloadRun; ftsplit
theorem tDownloadPath_paths (root path) (s : S) (hr : Rooted root path) (h : PathsFs (Confined root) s) :
    PathsFs (Confined root) (tDownloadPath path s) := by
  have hc : Confined root path := Or.inr (Or.inl hr)
  unfold tDownloadPath
  ftsplit
  exact tDownloadRun_paths _ _ _ hc (by simp_all)
@[simp] theorem upOk_tDownloadPath (root path) (s : S) : UpOk root (tDownloadPath path s) ↔ UpOk root s := by
  unfold tDownloadPath; ftsplit
theorem tDownload_paths (cfg) (s : S) (h : PathsFs (Confined cfg.root) s) :
    PathsFs (Confined cfg.root) (tDownload cfg s) := by
  unfold tDownload
  ftsplit [tLengthError_paths]
  exact tDownloadPath_paths _ _ _ (convertPath_rooted _ _ _ (by assumption)) (by simp_all)
theorem tDownload_upOk (cfg) (s : S) (h : UpOk cfg.root s) : UpOk cfg.root (tDownload cfg s) := by
  unfold tDownload
  ftsplit [tLengthError_upOk, upOk_closeClient]

theorem tUploadPath_paths (root path) (s : S) (hr : Rooted root path) (h : PathsFs (Confined root) s) :
    PathsFs (Confined root) (tUploadPath path s) := by
  have hc : Confined root path := Or.inr (Or.inl hr)
  unfold tUploadPath
  ftsplit
theorem tUploadPath_upOk (root path) (s : S) (hr : Rooted root path) : UpOk root (tUploadPath path s) := by
  unfold tUploadPath
  simp only []
  split
  · simp only [upOk_twire, upOk_doOpen]
    exact upOk_setUp_name root _ path _ (fun _ => rfl) (Or.inr hr)
  · refine upOk_setUp_keep' root _ _ ?_ ?_
    · intro u; rfl
    · simp only [upOk_doOpen]
      exact upOk_setUp_name root _ path _ (fun _ => rfl) (Or.inr hr)
theorem tUpload_paths (cfg) (s : S) (h : PathsFs (Confined cfg.root) s) :
    PathsFs (Confined cfg.root) (tUpload cfg s) := by
  unfold tUpload
  ftsplit [tLengthError_paths]
  exact tUploadPath_paths _ _ _ (convertPath_rooted _ _ _ (by assumption)) (by simp_all)
theorem tUpload_upOk (cfg) (s : S) (h : UpOk cfg.root s) : UpOk cfg.root (tUpload cfg s) := by
  unfold tUpload
  ftsplit [tLengthError_upOk, upOk_closeClient]
  · exact upOk_setUp_name _ _ [] _ (fun _ => rfl) (Or.inl rfl)
  · exact tUploadPath_upOk _ _ _ (convertPath_rooted _ _ _ (by assumption))

theorem tUploadComplete_paths (root) (s : S) (hu : UpOk root s) (h : PathsFs (Confined root) s) :
    PathsFs (Confined root) (tUploadComplete s) := by
  unfold tUploadComplete
  ftsplit [FsEffect.paths]
  all_goals exact confined_upName hu (by assumption)
theorem tUploadComplete_upOk (root) (s : S) (h : UpOk root s) : UpOk root (tUploadComplete s) := by
  unfold tUploadComplete
  ftsplit
  refine upOk_setUp_keep' root _ _ ?_ ?_
  · intro u; rfl
  · simpa using h

theorem tUploadWrite_paths (root c b) (s : S) (hu : UpOk root s) (h : PathsFs (Confined root) s) :
    PathsFs (Confined root) (tUploadWrite c b s) := by
  unfold tUploadWrite
  ftsplit
  all_goals exact closeUndoneUpload_paths root _ (by simpa using hu) (by simp_all)
theorem tUploadWrite_upOk (root c b) (s : S) (h : UpOk root s) : UpOk root (tUploadWrite c b s) := by
  unfold tUploadWrite
  ftsplit
  all_goals exact upOk_closeUndoneUpload root false _ (by simpa using h)

theorem tUploadData_paths (root) (s : S) (hu : UpOk root s) (h : PathsFs (Confined root) s) :
    PathsFs (Confined root) (tUploadData s) := by
  unfold tUploadData
  ftsplit
  · exact tUploadComplete_paths root _ (by simpa using hu) (by simp_all)
  · exact closeUndoneUpload_paths root _ (by simpa using hu) (by simp_all)
  · exact tUploadWrite_paths root _ _ _ (by simpa using hu) (by simp_all)
theorem tUploadData_upOk (root) (s : S) (h : UpOk root s) : UpOk root (tUploadData s) := by
  unfold tUploadData
  ftsplit [upOk_closeClient]
  · exact tUploadComplete_upOk root _ (by simpa using h)
  · exact upOk_closeUndoneUpload root false _ (by simpa using h)
  · exact tUploadWrite_upOk root _ _ _ (by simpa using h)

theorem tReason_paths (root u) (s : S) (hu : UpOk root s) (h : PathsFs (Confined root) s) :
    PathsFs (Confined root) (tReason u s) := by
  unfold tReason
  ftsplit
  exact closeUndoneUpload_paths root _ (by simpa using hu) (by simp_all)
theorem tReason_upOk (root u) (s : S) (h : UpOk root s) : UpOk root (tReason u s) := by
  unfold tReason
  ftsplit [upOk_closeClient]
  exact upOk_closeUndoneUpload root false _ (by simpa using h)

theorem tMkdir_paths (cfg) (s : S) (h : PathsFs (Confined cfg.root) s) :
    PathsFs (Confined cfg.root) (tMkdir cfg s) := by
  unfold tMkdir
  ftsplit [FsEffect.paths]
  exact Or.inr (Or.inl (convertPath_rooted _ _ _ (by assumption)))
theorem tMkdir_upOk (cfg) (s : S) (h : UpOk cfg.root s) : UpOk cfg.root (tMkdir cfg s) := by
  unfold tMkdir
  ftsplit [upOk_closeClient]

/-- every path a TightVNC message hands to libc is confined to the root, and the remembered upload
name stays confined -/
theorem tightMsg_confined (cfg ty) (s : S) (hu : UpOk cfg.root s) (h : PathsFs (Confined cfg.root) s) :
    PathsFs (Confined cfg.root) (tightMsg cfg ty s) ∧ UpOk cfg.root (tightMsg cfg ty s) := by
  have hs : PathsFs (Confined cfg.root) (emit (.chk true) s) := by simp [evPathsOk, h]
  have hu' : UpOk cfg.root (emit (.chk true) s) := hu
  unfold tightMsg
  simp only []
  split
  · exact ⟨by simp [evPathsOk, h], upOk_closeClient _ _⟩
  · split
    · exact ⟨by simp [evPathsOk, h], upOk_closeClient _ _⟩
    · split
      · exact ⟨by simp [evPathsOk, h], upOk_closeClient _ _⟩
      · split
        · exact ⟨tList_paths cfg _ hs, tList_upOk cfg _ hu'⟩
        · exact ⟨tDownload_paths cfg _ hs, tDownload_upOk cfg _ hu'⟩
        · exact ⟨tUpload_paths cfg _ hs, tUpload_upOk cfg _ hu'⟩
        · exact ⟨tUploadData_paths _ _ hu' hs, tUploadData_upOk _ _ hu'⟩
        · exact ⟨tReason_paths _ _ _ hu' hs, tReason_upOk _ _ _ hu'⟩
        · exact ⟨tReason_paths _ _ _ hu' hs, tReason_upOk _ _ _ hu'⟩
        · exact ⟨tMkdir_paths cfg _ hs, tMkdir_upOk cfg _ hu'⟩
        · exact ⟨by simp [hs], upOk_closeClient _ _⟩

/-! ### the gate -/

/-- a TightVNC message that does not pass the gate (extension not enabled for the client, file
transfer switched off, or client view-only): no handler call, nothing sent, connection dropped -/
theorem tightMsg_gate (cfg ty) (s : S) (hg : tightAllowed cfg s.cl = false) (hq : Quiet s) :
    Quiet (tightMsg cfg ty s) ∧ (tightMsg cfg ty s).cl.isOpen = false := by
  unfold tightAllowed at hg
  unfold tightMsg
  ftsplit [Ev.isNoisy]

end VncModel.FileXfer
