/-
C19 — helper lemmas for the session theorems: a configuration under which file transfer can never
be permitted, and the state of a connection on which nothing has happened.
-/
import VncModel.FileXfer.Tight

namespace VncModel.FileXfer

/-- the chunk sender's own test (flag first, then the callback) -/
def chunkAllowed (cfg : Cfg) (calls : Nat) : Bool :=
  cfg.permit && (match cfg.cb with
    | some f => f calls == 1
    | none => true)

theorem chunkCheck_fst (cfg : Cfg) (s : S) : (chunkCheck cfg s).1 = chunkAllowed cfg s.calls := by
  unfold chunkCheck chunkAllowed consult
  ftsplit

/-- file transfer can never be permitted under this configuration: the flag is off, or there is a
callback that never agrees -/
def NeverAllowed (cfg : Cfg) : Prop :=
  cfg.permit = false ∨ ∃ f, cfg.cb = some f ∧ ∀ n, f n ≠ 1

theorem never_entry (cfg : Cfg) (h : NeverAllowed cfg) (n : Nat) : entryAllowed cfg n = false := by
  unfold entryAllowed
  rcases h with h | ⟨f, hf, hn⟩
  · split <;> simp [h]
  · simp [hf, hn n]

theorem never_chunk (cfg : Cfg) (h : NeverAllowed cfg) (s : S) : (chunkCheck cfg s).1 = false := by
  unfold chunkCheck consult
  rcases h with h | ⟨f, hf, hn⟩
  · simp [h]
  · simp only [hf]; split <;> simp [hn]

/-- a connection on which nothing has happened: no libc call, nothing sent, no transfer open, and
the TightVNC extension is not in use (it has its own gate) -/
def Idle (s : S) : Prop := Quiet s ∧ s.cl.xf.fd = none ∧ s.cl.tightExt = false

theorem stepMsg_never (cfg : Cfg) (hn : NeverAllowed cfg) (s : S) (h : Idle s) : Idle (stepMsg cfg s) := by
  obtain ⟨hq, hfd, ht⟩ := h
  have hd := fun s' => macroCheck_denied cfg s' (never_entry cfg hn _)
  have hp := fun ct cp size len s' => processFT_denied cfg ct cp size len s' (never_entry cfg hn _)
  unfold stepMsg tightMsg Idle
  ftsplit [Ev.isNoisy]

theorem pump_never (cfg : Cfg) (hn : NeverAllowed cfg) (fuel : Nat) (s : S) (h : Idle s) :
    Idle (pump cfg fuel s) := by
  induction fuel generalizing s with
  | zero => exact h
  | succ n ih =>
    unfold pump
    split
    · exact h
    · exact ih _ (stepMsg_never cfg hn s h)

theorem sessStep_never (cfg : Cfg) (hn : NeverAllowed cfg) (s : S) (h : Idle s) (i : Input) :
    Idle (sessStep cfg s i) := by
  cases i with
  | bytes b =>
    simp only [sessStep]; split
    · exact pump_never cfg hn _ _ (by obtain ⟨hq, hfd, ht⟩ := h; exact ⟨by simpa using hq, hfd, ht⟩)
    · exact h
  | chunk =>
    have := never_chunk cfg hn (emit .start s)
    obtain ⟨hq, hfd, ht⟩ := h
    simp only [sessStep]
    unfold chunkEntry chunk Idle
    simp_all [Ev.isNoisy]
  | gone =>
    obtain ⟨hq, hfd, ht⟩ := h
    simp only [sessStep]
    unfold peerGone Idle
    ftsplit [Ev.isNoisy]
  | reap =>
    obtain ⟨hq, hfd, ht⟩ := h
    simp only [sessStep]
    unfold reapClient Idle
    ftsplit [Ev.isNoisy]

theorem pump_safe (cfg : Cfg) (fuel : Nat) (s : S) (h : Safe s) : Safe (pump cfg fuel s) := by
  induction fuel generalizing s with
  | zero => exact h
  | succ n ih =>
    unfold pump; split
    · exact h
    · exact ih _ (stepMsg_safe cfg s h)

theorem sessStep_safe (cfg : Cfg) (s : S) (h : Safe s) (i : Input) : Safe (sessStep cfg s i) := by
  cases i with
  | bytes b =>
    simp only [sessStep]; split
    · exact pump_safe cfg _ _ (by simpa using h)
    · exact h
  | chunk => exact chunkEntry_safe cfg s h
  | gone => simp only [sessStep]; split; exact peerGone_safe s h; exact h
  | reap => simp only [sessStep]; split; exact h; exact reapClient_safe s h

theorem bs2s_length (p : Path) : (bs2s p).length = p.length := by simp [bs2s]

/-! ### the remembered upload name through the UltraVNC entry points and whole sessions

`UpOk root s`: the name in the extension's per-client upload record is empty or a path ConvertPath
accepted earlier.  The UltraVNC handlers never write the record (they can only drop it by closing
the client). -/

@[simp] theorem upOk_setCl (root f) (s : S) (ht : (f s.cl).tight = s.cl.tight) :
    UpOk root (setCl f s) ↔ UpOk root s := upOk_of_eq (upName_of_tight ht)
@[simp] theorem upOk_setNextFd (root k) (s : S) : UpOk root (setNextFd k s) ↔ UpOk root s := Iff.rfl
@[simp] theorem upOk_bumpCalls (root) (s : S) : UpOk root (bumpCalls s) ↔ UpOk root s := Iff.rfl
@[simp] theorem upOk_endTransfer (root) (s : S) : UpOk root (endTransfer s) ↔ UpOk root s := Iff.rfl
@[simp] theorem upOk_popTok (root) (s : S) : UpOk root (popTok s).2 ↔ UpOk root s :=
  upOk_of_eq (upName_of_tight (by simp))
@[simp] theorem upOk_doFstat (root k) (s : S) : UpOk root (doFstat k s).2 ↔ UpOk root s :=
  upOk_of_eq (upName_of_tight (by simp))
@[simp] theorem upOk_doCompress (root n) (s : S) : UpOk root (doCompress n s).2 ↔ UpOk root s := by
  unfold doCompress; ftsplit
@[simp] theorem upOk_doUncompress (root n) (s : S) : UpOk root (doUncompress n s).2 ↔ UpOk root s := by
  unfold doUncompress; ftsplit
@[simp] theorem upOk_consult (root f) (s : S) : UpOk root (consult f s).2 ↔ UpOk root s := by
  unfold consult; simp

/-- split every branch and move `UpOk` through the calls -/
macro "usplit" : tactic => `(tactic| (
  (try simp only []); (repeat' split);
  all_goals (try simp_all (maxDischargeDepth := 12) [upOk_closeClient])))

theorem macroCheck_upOk (root cfg) (s : S) (h : UpOk root s) : UpOk root (macroCheck cfg s).2 := by
  unfold macroCheck; usplit
theorem chunkCheck_upOk (root cfg) (s : S) (h : UpOk root s) : UpOk root (chunkCheck cfg s).2 := by
  unfold chunkCheck; usplit
theorem translate_upOk (root cfg p n) (s : S) (h : UpOk root s) : UpOk root (translate cfg p n s).2 := by
  have := macroCheck_upOk root cfg s h
  unfold translate; usplit
theorem sendMsg_upOk (root cfg ct cp size len pl) (s : S) (h : UpOk root s) :
    UpOk root (sendMsg cfg ct cp size len pl s).2 := by
  have := macroCheck_upOk root cfg s h
  unfold sendMsg; usplit
theorem readBuffer_upOk (root cfg n) (s : S) (h : UpOk root s) : UpOk root (readBuffer cfg n s).2 := by
  have := macroCheck_upOk root cfg s h
  unfold readBuffer; usplit
theorem dirLoop_upOk (root cfg path) (names : List Path) (s : S) (h : UpOk root s) :
    UpOk root (dirLoop cfg path names s) := by
  have hs := sendMsg_upOk root cfg
  induction names generalizing s with
  | nil => unfold dirLoop; usplit
  | cons name rest ih => unfold dirLoop; usplit
theorem sendDirContent_upOk (root cfg len buf) (s : S) (h : UpOk root s) :
    UpOk root (sendDirContent cfg len buf s) := by
  have h1 := macroCheck_upOk root cfg
  have h2 := translate_upOk root cfg
  have h3 := sendMsg_upOk root cfg
  have h4 := dirLoop_upOk root cfg
  unfold sendDirContent; usplit
theorem chunk_upOk (root cfg) (s : S) (h : UpOk root s) : UpOk root (chunk cfg s).2 := by
  have h1 := chunkCheck_upOk root cfg
  have h3 := sendMsg_upOk root cfg
  unfold chunk; usplit
@[simp] theorem upOk_closeOld (root) (s : S) : UpOk root (closeOld s) ↔ UpOk root s := by
  unfold closeOld; ftsplit
@[simp] theorem upOk_openForRead (root f) (s : S) : UpOk root (openForRead f s).2 ↔ UpOk root s := by
  unfold openForRead; ftsplit
@[simp] theorem upOk_packetWrite (root fd size len buf) (s : S) :
    UpOk root (packetWrite fd size len buf s).2 ↔ UpOk root s := by
  unfold packetWrite; ftsplit
@[simp] theorem upOk_deletePath (root p) (s : S) : UpOk root (deletePath p s).2 ↔ UpOk root s := by
  unfold deletePath; ftsplit
theorem ftRequest_upOk (root cfg size len) (s : S) (h : UpOk root s) : UpOk root (ftRequest cfg size len s) := by
  have h1 := readBuffer_upOk root cfg
  have h2 := translate_upOk root cfg
  have h3 := sendMsg_upOk root cfg
  unfold ftRequest; usplit
theorem ftHeader_upOk (root cfg size) (s : S) (h : UpOk root s) : UpOk root (ftHeader cfg size s) := by
  have h1 := chunk_upOk root cfg
  unfold ftHeader; usplit
theorem ftOffer_upOk (root cfg len) (s : S) (h : UpOk root s) : UpOk root (ftOffer cfg len s) := by
  have h1 := readBuffer_upOk root cfg
  have h2 := translate_upOk root cfg
  have h3 := sendMsg_upOk root cfg
  unfold ftOffer; usplit
theorem ftPacket_upOk (root cfg size len) (s : S) (h : UpOk root s) : UpOk root (ftPacket cfg size len s) := by
  have h1 := readBuffer_upOk root cfg
  unfold ftPacket; usplit
theorem ftEof_upOk (root) (s : S) (h : UpOk root s) : UpOk root (ftEof s) := by
  unfold ftEof; usplit
theorem ftAbort_upOk (root cfg cp) (s : S) (h : UpOk root s) : UpOk root (ftAbort cfg cp s) := by
  have h3 := sendMsg_upOk root cfg
  unfold ftAbort; usplit
theorem ftCommand_upOk (root cfg cp len) (s : S) (h : UpOk root s) : UpOk root (ftCommand cfg cp len s) := by
  have h1 := readBuffer_upOk root cfg
  have h2 := translate_upOk root cfg
  have h3 := sendMsg_upOk root cfg
  unfold ftCommand; usplit
theorem processFT_upOk (root cfg ct cp size len) (s : S) (h : UpOk root s) :
    UpOk root (processFT cfg ct cp size len s) := by
  have h0 := macroCheck_upOk root cfg
  have h1 := readBuffer_upOk root cfg
  have h3 := sendMsg_upOk root cfg
  have a1 := sendDirContent_upOk root cfg
  have a2 := ftRequest_upOk root cfg
  have a3 := ftHeader_upOk root cfg
  have a4 := ftOffer_upOk root cfg
  have a5 := ftPacket_upOk root cfg
  have a6 := ftEof_upOk root
  have a7 := ftAbort_upOk root cfg
  have a8 := ftCommand_upOk root cfg
  unfold processFT; usplit

theorem tightMsg_upOk (cfg ty) (s : S) (hu : UpOk cfg.root s) : UpOk cfg.root (tightMsg cfg ty s) := by
  have hu' : UpOk cfg.root (emit (.chk true) s) := hu
  unfold tightMsg
  simp only []
  split
  · exact upOk_closeClient _ _
  · split
    · exact upOk_closeClient _ _
    · split
      · exact upOk_closeClient _ _
      · split
        · exact tList_upOk cfg _ hu'
        · exact tDownload_upOk cfg _ hu'
        · exact tUpload_upOk cfg _ hu'
        · exact tUploadData_upOk _ _ hu'
        · exact tReason_upOk _ _ _ hu'
        · exact tReason_upOk _ _ _ hu'
        · exact tMkdir_upOk cfg _ hu'
        · exact upOk_closeClient _ _

theorem stepMsg_upOk (cfg) (s : S) (h : UpOk cfg.root s) : UpOk cfg.root (stepMsg cfg s) := by
  have h1 := processFT_upOk cfg.root cfg
  unfold stepMsg
  simp only []
  split
  · exact h
  · split
    · rw [upOk_emit, upOk_setCl _ _ _ rfl]; exact h
    · split
      · exact upOk_closeClient _ _
      · split
        · split
          · exact upOk_closeClient _ _
          · exact h1 _ _ _ _ _ (by simpa using h)
        · exact tightMsg_upOk _ _ _ (by simpa using h)
theorem chunkEntry_upOk (root cfg) (s : S) (h : UpOk root s) : UpOk root (chunkEntry cfg s).2 :=
  chunk_upOk root cfg _ h
theorem pump_upOk (cfg fuel) (s : S) (h : UpOk cfg.root s) : UpOk cfg.root (pump cfg fuel s) := by
  induction fuel generalizing s with
  | zero => exact h
  | succ n ih =>
    unfold pump; split
    · exact h
    · exact ih _ (stepMsg_upOk cfg s h)
theorem sessStep_upOk (cfg) (s : S) (h : UpOk cfg.root s) (i : Input) : UpOk cfg.root (sessStep cfg s i) := by
  cases i with
  | bytes b =>
    simp only [sessStep]; split
    · exact pump_upOk cfg _ _ (by simpa using h)
    · exact h
  | chunk => exact chunkEntry_upOk _ cfg s h
  | gone =>
    simp only [sessStep]; split
    · exact upOk_closeClient _ _
    · exact h
  | reap =>
    simp only [sessStep]; split
    · exact h
    · unfold reapClient
      split
      · rw [upOk_setCl _ _ _ rfl]; exact h
      · exact h
theorem runSession_upOk (cfg) (inputs : List Input) (s : S) (h : UpOk cfg.root s) :
    UpOk cfg.root (runSession cfg s inputs) := by
  induction inputs generalizing s with
  | nil => exact h
  | cons i rest ih => exact ih _ (sessStep_upOk cfg s h i)

end VncModel.FileXfer
