/-
C19 — helper lemmas for the session theorems: a configuration under which file transfer can never
be permitted, and the state of a connection on which nothing has happened.
-/
import VncModel.FileXfer.Tight

namespace VncModel.FileXfer

/-- the chunk sender's own test (flag first, then the callback) -/
def chunkAllowed (cfg : Cfg) (calls : Nat) : Bool :=
  cfg.permit && (match cfg.cb with
    | some f => f calls == 1
    | none => true)

theorem chunkCheck_fst (cfg : Cfg) (s : S) : (chunkCheck cfg s).1 = chunkAllowed cfg s.calls := by
  unfold chunkCheck chunkAllowed consult
  ftsplit

/-- file transfer can never be permitted under this configuration: the flag is off, or there is a
callback that never agrees -/
def NeverAllowed (cfg : Cfg) : Prop :=
  cfg.permit = false ∨ ∃ f, cfg.cb = some f ∧ ∀ n, f n ≠ 1

theorem never_entry (cfg : Cfg) (h : NeverAllowed cfg) (n : Nat) : entryAllowed cfg n = false := by
  unfold entryAllowed
  rcases h with h | ⟨f, hf, hn⟩
  · split <;> simp [h]
  · simp [hf, hn n]

theorem never_chunk (cfg : Cfg) (h : NeverAllowed cfg) (s : S) : (chunkCheck cfg s).1 = false := by
  unfold chunkCheck consult
  rcases h with h | ⟨f, hf, hn⟩
  · simp [h]
  · simp only [hf]; split <;> simp [hn]

/-- a connection on which nothing has happened: no libc call, nothing sent, no transfer open, and
the TightVNC extension is not in use (it has its own gate) -/
def Idle (s : S) : Prop := Quiet s ∧ s.cl.xf.fd = none ∧ s.cl.tightExt = false

theorem stepMsg_never (cfg : Cfg) (hn : NeverAllowed cfg) (s : S) (h : Idle s) : Idle (stepMsg cfg s) := by
  obtain ⟨hq, hfd, ht⟩ := h
  have hd := fun s' => macroCheck_denied cfg s' (never_entry cfg hn _)
  have hp := fun ct cp size len s' => processFT_denied cfg ct cp size len s' (never_entry cfg hn _)
  unfold stepMsg tightMsg Idle
  ftsplit [Ev.isNoisy]

theorem pump_never (cfg : Cfg) (hn : NeverAllowed cfg) (fuel : Nat) (s : S) (h : Idle s) :
    Idle (pump cfg fuel s) := by
  induction fuel generalizing s with
  | zero => exact h
  | succ n ih =>
    unfold pump
    split
    · exact h
    · exact ih _ (stepMsg_never cfg hn s h)

theorem sessStep_never (cfg : Cfg) (hn : NeverAllowed cfg) (s : S) (h : Idle s) (i : Input) :
    Idle (sessStep cfg s i) := by
  cases i with
  | bytes b =>
    simp only [sessStep]; split
    · exact pump_never cfg hn _ _ (by obtain ⟨hq, hfd, ht⟩ := h; exact ⟨by simpa using hq, hfd, ht⟩)
    · exact h
  | chunk =>
    have := never_chunk cfg hn (emit .start s)
    obtain ⟨hq, hfd, ht⟩ := h
    simp only [sessStep]
    unfold chunkEntry chunk Idle
    simp_all [Ev.isNoisy]
  | gone =>
    obtain ⟨hq, hfd, ht⟩ := h
    simp only [sessStep]
    unfold peerGone Idle
    ftsplit [Ev.isNoisy]
  | reap =>
    obtain ⟨hq, hfd, ht⟩ := h
    simp only [sessStep]
    unfold reapClient Idle
    ftsplit [Ev.isNoisy]

theorem pump_safe (cfg : Cfg) (fuel : Nat) (s : S) (h : Safe s) : Safe (pump cfg fuel s) := by
  induction fuel generalizing s with
  | zero => exact h
  | succ n ih =>
    unfold pump; split
    · exact h
    · exact ih _ (stepMsg_safe cfg s h)

theorem sessStep_safe (cfg : Cfg) (s : S) (h : Safe s) (i : Input) : Safe (sessStep cfg s i) := by
  cases i with
  | bytes b =>
    simp only [sessStep]; split
    · exact pump_safe cfg _ _ (by simpa using h)
    · exact h
  | chunk => exact chunkEntry_safe cfg s h
  | gone => simp only [sessStep]; split; exact peerGone_safe s h; exact h
  | reap => simp only [sessStep]; split; exact h; exact reapClient_safe s h

theorem bs2s_length (p : Path) : (bs2s p).length = p.length := by simp [bs2s]

end VncModel.FileXfer
