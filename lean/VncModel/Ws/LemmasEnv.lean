import VncModel.Ws.Spec
/-! The read oracle: what a well-formed request can return on a fault-free transport. -/
namespace VncModel.Ws

theorem Env.next_props (e : Env) (h : e.FaultFree) :
    (e.next).1.benign = true ∧ (e.next).2.FaultFree ∧ (e.next).2.pending = e.pending ∧
    (e.next).2.log = e.log := by
  obtain ⟨h1, h2⟩ := h
  unfold Env.next
  split
  · rename_i r rs heq
    refine ⟨h1 r (by simp [heq]), ⟨fun x hx => h1 x (by simp [heq, hx]), h2⟩, rfl, rfl⟩
  · split
    · rename_i r rs heq
      refine ⟨h2 r (by simp [heq]), ⟨fun x hx => h2 x (by simp [heq, hx]), h2⟩, rfl, rfl⟩
    · exact ⟨rfl, ⟨h1, h2⟩, rfl, rfl⟩

/-- a request inside the buffer on a fault-free transport: EAGAIN (nothing consumed) or a
non-empty prefix of the pending bytes, at most `n` long -/
theorem Env.read_cases (e : Env) (off : Nat) (n : Int) (hn : 0 < n) (hb : (off : Int) + n ≤ BUF)
    (hf : e.FaultFree) (hs : e.Safe) :
    (e.read off n).2.FaultFree ∧ (e.read off n).2.Safe ∧
    (((e.read off n).1 = .again ∧ (e.read off n).2.pending = e.pending ∧
        ((e.next).1 = .eagain ∨ e.pending = [])) ∨
     (∃ t : Nat, 0 < t ∧ (t : Int) ≤ n ∧ t ≤ e.pending.length ∧
        (e.read off n).1 = .data (e.pending.take t) ∧ (e.read off n).2.pending = e.pending.drop t)) := by
  obtain ⟨hb1, hff, hp, hl⟩ := Env.next_props e hf
  have hnb : ¬ (n ≤ 0 ∨ (off : Int) + n > BUF) := by omega
  unfold Env.read
  simp only [hnb, if_false]
  generalize hnx : e.next = nx at *
  obtain ⟨r, e1⟩ := nx
  simp only at hb1 hff hp hl
  have hsafe : ∀ (o : RdOut) (p : List Byte),
      ({ e1 with pending := p, log := ⟨off, n, o⟩ :: e1.log } : Env).Safe := by
    intro o p x hx
    simp only [List.mem_cons] at hx
    rcases hx with hx | hx
    · subst hx; exact ⟨hn, hb⟩
    · exact hs x (hl ▸ hx)
  have hffk : ∀ (o : RdOut) (p : List Byte),
      ({ e1 with pending := p, log := ⟨off, n, o⟩ :: e1.log } : Env).FaultFree := by
    intro o p; exact hff
  cases r with
  | eof => simp [Resp.benign] at hb1
  | fail => simp [Resp.benign] at hb1
  | eagain =>
    refine ⟨hffk _ _, hsafe _ _, Or.inl ⟨?_, ?_, Or.inl rfl⟩⟩ <;> simp [hp]
  | chunk k =>
    by_cases hpe : e1.pending = []
    · simp only [hpe, if_true]
      refine ⟨hffk _ _, hsafe _ _, Or.inl ⟨?_, ?_, Or.inr (by rw [← hp]; exact hpe)⟩⟩ <;> simp [← hp, hpe]
    · simp only [hpe, if_false]
      refine ⟨hffk _ _, hsafe _ _, Or.inr ⟨min (min (k + 1) n.toNat) e.pending.length, ?_, ?_, ?_, ?_, ?_⟩⟩
      · have : 0 < e.pending.length := by
          rw [← hp]; exact List.length_pos_iff.mpr hpe
        omega
      · omega
      · omega
      · simp only [hp]
        congr 1
        rw [List.take_eq_take_iff]
        omega
      · simp only [hp]
        apply List.drop_eq_drop_iff.mpr
        omega

end VncModel.Ws
