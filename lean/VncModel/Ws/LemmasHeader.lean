import VncModel.Ws.LemmasPayload
/-! The header phase: `parse2`, `finishHeader`, `readHeader` on a prefix of a valid frame header. -/
namespace VncModel.Ws

/-- the second header byte of a masked, minimally encoded frame -/
def Frame.b1 (f : Frame) : Byte :=
  if f.payload.length < 126 then UInt8.ofNat (128 + f.payload.length)
  else if f.payload.length < 65536 then 0xfe else 0xff

/-- the 7-bit length code -/
def Frame.l7 (f : Frame) : Nat :=
  if f.payload.length < 126 then f.payload.length else if f.payload.length < 65536 then 126 else 127

theorem header_cons (f : Frame) : ∃ tl, f.header = f.b0 :: f.b1 :: tl := by
  unfold Frame.header lenField Frame.b1
  split
  · exact ⟨_, rfl⟩
  · split <;> exact ⟨_, rfl⟩

theorem b1_facts (f : Frame) :
    (f.b1 &&& 0x7f).toNat = f.l7 ∧ f.b1 &&& 0x80 ≠ 0 ∧
    (f.b1 &&& 0x7f = 126 ↔ f.l7 = 126) ∧ (f.b1 &&& 0x7f = 127 ↔ f.l7 = 127) := by
  unfold Frame.b1 Frame.l7
  split
  · rename_i h
    obtain ⟨h1, h2, h3, h4⟩ := lenbyte_short _ h
    refine ⟨h1, h2, ?_, ?_⟩
    · constructor
      · intro hh; exact absurd hh h3
      · intro hh; omega
    · constructor
      · intro hh; exact absurd hh h4
      · intro hh; omega
  · split
    · refine ⟨by decide, by decide, by decide, by decide⟩
    · refine ⟨by decide, by decide, by decide, by decide⟩

theorem l7_header_length (f : Frame) :
    f.header.length = if f.l7 = 126 then 8 else if f.l7 = 127 then 14 else 6 := by
  rw [header_length]; unfold Frame.l7
  split
  · rename_i h
    have h1 : ¬ f.payload.length = 126 := by omega
    have h2 : ¬ f.payload.length = 127 := by omega
    simp [h1, h2]
  · split <;> simp

theorem hdrWant_take (f : Frame) (j : Nat) :
    hdrWant (f.header.take j) = if 2 ≤ j then f.header.length else 6 := by
  obtain ⟨tl, htl⟩ := header_cons f
  obtain ⟨_, _, h3, h4⟩ := b1_facts f
  by_cases hj : 2 ≤ j
  · obtain ⟨k, rfl⟩ : ∃ k, j = k + 2 := ⟨j - 2, by omega⟩
    rw [htl]
    simp only [List.take_succ_cons, hdrWant, hj, if_true]
    rw [← htl, l7_header_length]
    by_cases a1 : f.l7 = 126
    · simp [a1, h3.mpr a1]
    · have n1 : ¬ (f.b1 &&& 0x7f = 126) := fun h => a1 (h3.mp h)
      by_cases a2 : f.l7 = 127
      · simp [a1, a2, n1, h4.mpr a2]
      · have n2 : ¬ (f.b1 &&& 0x7f = 127) := fun h => a2 (h4.mp h)
        simp [a1, a2, n1, n2]
  · simp only [hj, if_false]
    have : j = 0 ∨ j = 1 := by omega
    rcases this with rfl | rfl
    · simp [hdrWant]
    · rw [htl]; simp [hdrWant]

end VncModel.Ws
namespace VncModel.Ws

/-- a frame whose header is acceptable never carries a reserved opcode -/
theorem not_reserved_of_hok (f : Frame) (co : Byte) (hok : f.hok co) : isReservedOp f.opcode = false := by
  obtain ⟨_, hctl, hdat⟩ := hok
  by_cases hc : f.isControl = true
  · rcases (hctl hc).2.1 with h | h | h <;> rw [h] <;> decide
  · have hc' : f.isControl = false := by simpa using hc
    obtain ⟨_, h4⟩ := hdat hc'
    by_cases h0 : f.opcode = opContinuation
    · rw [h0]; decide
    · have : f.effOp co = f.opcode := by simp [Frame.effOp, hc', h0]
      rw [this] at h4
      rcases h4 with h4 | h4 <;> rw [h4] <;> decide

theorem not_reserved_of_ok (f : Frame) (co : Byte) (hok : f.ok co) : isReservedOp f.opcode = false :=
  not_reserved_of_hok f co hok.hok

theorem effOp_isControl_hok (f : Frame) (co : Byte) (hok : f.hok co) :
    ((f.effOp co) &&& 0x08 != 0) = f.isControl := by
  obtain ⟨_, _, h3⟩ := hok
  by_cases hc : f.isControl = true
  · simp only [Frame.effOp, hc, if_true]; exact hc
  · have hc' : f.isControl = false := by simpa using hc
    obtain ⟨_, h4⟩ := h3 hc'
    rw [hc']
    rcases h4 with h4 | h4 <;> rw [h4] <;> decide

theorem parse2_short (f : Frame) (j : Nat) (hj : j < 2) (opc fin : Byte) (pl : Nat) (co' : Byte) :
    parse2 (ctxAtHeader (f.header.take j) opc fin pl co') = .pending := by
  obtain ⟨tl, htl⟩ := header_cons f
  have : j = 0 ∨ j = 1 := by omega
  rcases this with rfl | rfl
  · simp [parse2, ctxAtHeader]
  · rw [htl]; simp [parse2, ctxAtHeader]

theorem parse2_hok (f : Frame) (co co' : Byte) (hok : f.hok co) (j : Nat) (hj : 2 ≤ j)
    (hco : co' = co ∨ co' = f.nextCo co) (opc fin : Byte) (pl : Nat) :
    parse2 (ctxAtHeader (f.header.take j) opc fin pl co') =
      .ok (ctxAtHeader (f.header.take j) (f.effOp co) f.fin f.l7 (f.nextCo co)) := by
  obtain ⟨tl, htl⟩ := header_cons f
  obtain ⟨hl7, hmask, _, _⟩ := b1_facts f
  obtain ⟨k, rfl⟩ : ∃ k, j = k + 2 := ⟨j - 2, by omega⟩
  have hres : isReservedOp f.opcode = false := not_reserved_of_hok f co hok
  have heffc := effOp_isControl_hok f co hok
  obtain ⟨_, hctl, hdat⟩ := hok
  rw [htl]
  simp only [List.take_succ_cons, parse2, ctxAtHeader, Ctx.isControl]
  have hop : f.b0 &&& 0x0f = f.opcode := rfl
  have hfin : (f.b0 &&& 0x80) >>> 7 = f.fin := rfl
  rw [hop, hfin]
  by_cases hc : f.isControl = true
  · have hc2 : (f.opcode &&& 0x08 != 0) = true := hc
    have hfn := (hctl hc).1
    have hco' : co' = co := by
      rcases hco with h | h
      · exact h
      · rw [h]; simp [Frame.nextCo, hc]
    have hle : ¬ (125 < f.l7) := by
      have := (hctl hc).2.2
      unfold Frame.l7; split <;> omega
    simp only [hres, Bool.false_eq_true, hc2, if_true, hfn, if_false, hmask, hl7, hle, true_and]
    simp [Frame.effOp, Frame.nextCo, hc, hco']
  · have hc' : f.isControl = false := by simpa using hc
    have hc2 : (f.opcode &&& 0x08 != 0) = false := hc'
    obtain ⟨hcont, _⟩ := hdat hc'
    simp only [hres, hc2, Bool.false_eq_true, if_false]
    by_cases h0 : f.opcode = opContinuation
    · have hco' : co' = co := by
        rcases hco with h | h
        · exact h
        · rw [h]; simp [Frame.nextCo, hc', h0]
      have hne := hcont h0
      have heff : f.effOp co = co := by simp [Frame.effOp, hc', h0]
      have hcoc : (co &&& 0x08 != 0) = false := by rw [← heff, heffc, hc']
      simp only [h0, if_true, hco', hne, if_false, hmask, hl7, hcoc, Bool.false_eq_true, false_and]
      simp [Frame.effOp, Frame.nextCo, hc', h0]
    · simp only [h0, if_false, hmask, hl7, hc2, Bool.false_eq_true, false_and]
      simp [Frame.effOp, Frame.nextCo, hc', h0]

end VncModel.Ws
namespace VncModel.Ws
theorem parse2_ok (f : Frame) (co co' : Byte) (hok : f.ok co) (j : Nat) (hj : 2 ≤ j)
    (hco : co' = co ∨ co' = f.nextCo co) (opc fin : Byte) (pl : Nat) :
    parse2 (ctxAtHeader (f.header.take j) opc fin pl co') =
      .ok (ctxAtHeader (f.header.take j) (f.effOp co) f.fin f.l7 (f.nextCo co)) :=
  parse2_hok f co co' hok.hok j hj hco opc fin pl
end VncModel.Ws

namespace VncModel.Ws

theorem finishHeader_incomplete (f : Frame) (j : Nat) (hj2 : j < f.header.length)
    (op fin co'' : Byte) (e : Env) :
    finishHeader (ctxAtHeader (f.header.take j) op fin f.l7 co'') e =
      ⟨ctxAtHeader (f.header.take j) op fin f.l7 co'', e, .headerPending, .again, []⟩ := by
  have hl := l7_header_length f
  have hlen : (f.header.take j).length = j := by simp; omega
  unfold finishHeader
  simp only [ctxAtHeader, Ctx.nRead, hlen]
  have c1 : ¬ (f.l7 < 126 ∧ j ≥ 6) := by
    intro ⟨h1, h2⟩
    have a1 : ¬ f.l7 = 126 := by omega
    have a2 : ¬ f.l7 = 127 := by omega
    simp [a1, a2] at hl; omega
  have c2 : ¬ (f.l7 = 126 ∧ 8 ≤ j) := by
    intro ⟨h1, h2⟩
    simp [h1] at hl; omega
  have c3 : ¬ (f.l7 = 127 ∧ 14 ≤ j) := by
    intro ⟨h1, h2⟩
    simp [h1] at hl; omega
  simp only [c1, c2, c3, if_false]

theorem finishHeader_complete' (f : Frame) (co : Byte) (hlt : f.payload.length < 2 ^ 64) (e : Env) :
    finishHeader (ctxAtHeader f.header (f.effOp co) f.fin f.l7 (f.nextCo co)) e =
      ⟨ctxInFrame f co 0 [] [] (some f.header.length) .headerPending, e, .dataNeeded, .again, []⟩ := by
  unfold finishHeader
  by_cases h1 : f.payload.length < 126
  · have hl7 : f.l7 = f.payload.length := by simp [Frame.l7, h1]
    have hh : f.header = [f.b0, UInt8.ofNat (128 + f.payload.length), f.mask.b0, f.mask.b1, f.mask.b2, f.mask.b3] := by
      simp [Frame.header, lenField, h1, Mask.toList]
    simp only [ctxAtHeader, Ctx.nRead, hl7, hh, h1]
    simp [ctxInFrame, cleanupComplete, xorFrom, hh, h1]
  · by_cases h2 : f.payload.length < 65536
    · have hl7 : f.l7 = 126 := by simp [Frame.l7, h1, h2]
      have e2 : beDec [UInt8.ofNat (f.payload.length / 256), UInt8.ofNat f.payload.length]
          = f.payload.length := by
        have := beDec_beEnc_lt 2 f.payload.length (by omega)
        simpa [beEnc] using this
      have hh : f.header = [f.b0, 0xfe, UInt8.ofNat (f.payload.length / 256 ^ 1),
          UInt8.ofNat (f.payload.length / 256 ^ 0), f.mask.b0, f.mask.b1, f.mask.b2, f.mask.b3] := by
        simp [Frame.header, lenField, h1, h2, Mask.toList, beEnc]
      simp only [ctxAtHeader, Ctx.nRead, hl7, hh]
      simp [ctxInFrame, cleanupComplete, xorFrom, e2, h1]
      rw [hh]; simp
    · have hl7 : f.l7 = 127 := by simp [Frame.l7, h1, h2]
      have e2 : beDec [UInt8.ofNat (f.payload.length / 72057594037927936), UInt8.ofNat (f.payload.length / 281474976710656),
          UInt8.ofNat (f.payload.length / 1099511627776), UInt8.ofNat (f.payload.length / 4294967296),
          UInt8.ofNat (f.payload.length / 16777216), UInt8.ofNat (f.payload.length / 65536),
          UInt8.ofNat (f.payload.length / 256), UInt8.ofNat f.payload.length]
          = f.payload.length := by
        have := beDec_beEnc_lt 8 f.payload.length (by omega)
        simpa [beEnc] using this
      have hh : f.header = [f.b0, 0xff, UInt8.ofNat (f.payload.length / 256 ^ 7), UInt8.ofNat (f.payload.length / 256 ^ 6),
          UInt8.ofNat (f.payload.length / 256 ^ 5), UInt8.ofNat (f.payload.length / 256 ^ 4),
          UInt8.ofNat (f.payload.length / 256 ^ 3), UInt8.ofNat (f.payload.length / 256 ^ 2),
          UInt8.ofNat (f.payload.length / 256 ^ 1), UInt8.ofNat (f.payload.length / 256 ^ 0),
          f.mask.b0, f.mask.b1, f.mask.b2, f.mask.b3] := by
        simp [Frame.header, lenField, h1, h2, Mask.toList, beEnc]
      simp only [ctxAtHeader, Ctx.nRead, hl7, hh]
      simp [ctxInFrame, cleanupComplete, xorFrom, e2, h1, h2]
      rw [hh]; simp

end VncModel.Ws

namespace VncModel.Ws

theorem ctxAtHeader_set_hdr (h h' : List Byte) (opc fin : Byte) (pl : Nat) (co : Byte) :
    { ctxAtHeader h opc fin pl co with hdr := h' } = ctxAtHeader h' opc fin pl co := rfl

theorem hdrMissing_atHeader (f : Frame) (j : Nat) (hj : j ≤ f.header.length) (opc fin : Byte) (pl : Nat) (co : Byte) :
    hdrMissing (ctxAtHeader (f.header.take j) opc fin pl co) =
      ((if 2 ≤ j then f.header.length else 6 : Nat) : Int) - j := by
  simp only [hdrMissing, ctxAtHeader, Ctx.nRead, hdrWant_take, List.length_take]
  congr 2
  omega

theorem take_append_take_drop (H : List Byte) (j t : Nat) :
    H.take j ++ (H.drop j).take t = H.take (j + t) := by
  rw [List.take_add]

/-- what `readHeader` does on a strict prefix of a header `H`, given how `parse2` and
`finishHeader` treat the prefixes of `H` (instantiated for valid frames, Close frames and headers
with a non-minimal length field) -/
theorem readHeader_generic (H : List Byte) (OP FIN : Byte) (L7 : Nat) (CO : Byte) (okco : Byte → Prop)
    (OUT : Env → HdrOut) (hH : 6 ≤ H.length ∧ H.length ≤ 14)
    (hwant : ∀ j, j ≤ H.length → hdrWant (H.take j) = if 2 ≤ j then H.length else 6)
    (hshort : ∀ j, j < 2 → ∀ opc fin pl co', parse2 (ctxAtHeader (H.take j) opc fin pl co') = .pending)
    (hp2 : ∀ j, 2 ≤ j → j ≤ H.length → ∀ opc fin pl co', okco co' →
      parse2 (ctxAtHeader (H.take j) opc fin pl co') = .ok (ctxAtHeader (H.take j) OP FIN L7 CO))
    (hCO : okco CO)
    (hinc : ∀ j, j < H.length → ∀ e, finishHeader (ctxAtHeader (H.take j) OP FIN L7 CO) e =
      ⟨ctxAtHeader (H.take j) OP FIN L7 CO, e, .headerPending, .again, []⟩)
    (hcomp : ∀ e, finishHeader (ctxAtHeader H OP FIN L7 CO) e = OUT e)
    (j : Nat) (opc fin : Byte) (pl : Nat) (co' : Byte) (e : Env) (body : List Byte)
    (hj : j < H.length) (hco : okco co')
    (hpend : e.pending = H.drop j ++ body) (hff : e.FaultFree) (hs : e.Safe) :
    ∃ e', e'.FaultFree ∧ e'.Safe ∧
      ((∃ j' opc' fin' pl' co'', j' < H.length ∧ okco co'' ∧
          readHeader (ctxAtHeader (H.take j) opc fin pl co') e =
            ⟨ctxAtHeader (H.take j') opc' fin' pl' co'', e', .headerPending, .again, []⟩ ∧
          e'.pending = H.drop j' ++ body ∧ (e.Stuck ∨ j < j')) ∨
       (readHeader (ctxAtHeader (H.take j) opc fin pl co') e = OUT e' ∧ e'.pending = body)) := by
  obtain ⟨hH6, hH14⟩ := hH
  have hBUF : (14 : Int) ≤ BUF := by simp [BUF, Gen.C09.decodeBufSize]
  have hmiss : hdrMissing (ctxAtHeader (H.take j) opc fin pl co') = ((if 2 ≤ j then H.length else 6 : Nat) : Int) - j := by
    simp only [hdrMissing, ctxAtHeader, Ctx.nRead, hwant j (by omega), List.length_take]
    congr 2; omega
  have hnr : (ctxAtHeader (H.take j) opc fin pl co').nRead = j := by
    simp [ctxAtHeader, Ctx.nRead]; omega
  unfold readHeader
  rw [hnr, hmiss]
  generalize hN : (if 2 ≤ j then H.length else 6 : Nat) = W
  have hW : j < W ∧ W ≤ H.length := by
    rw [← hN]; split <;> omega
  obtain ⟨hff1, hs1, hc1⟩ := Env.read_cases e j ((W : Int) - j) (by omega) (by omega) hff hs
  generalize hr : e.read j ((W : Int) - j) = r at hff1 hs1 hc1
  obtain ⟨o, e1⟩ := r
  simp only at hff1 hs1 hc1
  rcases hc1 with ⟨ho, hp1, hstuck⟩ | ⟨t, ht0, htN, htl, ho, hp1⟩
  · -- EAGAIN on the first read: everything kept
    subst ho
    refine ⟨e1, hff1, hs1, Or.inl ⟨j, opc, fin, pl, co', hj, hco, rfl, ?_, Or.inl hstuck⟩⟩
    rw [hp1, hpend]
  · subst ho
    simp only
    have htj : j + t ≤ H.length := by omega
    have htake : e.pending.take t = (H.drop j).take t := by
      rw [hpend, List.take_append_of_le_length (by simp; omega)]
    have hdrop : e.pending.drop t = H.drop (j + t) ++ body := by
      rw [hpend, List.drop_append_of_le_length (by simp; omega), List.drop_drop]
    have hhdr : ∀ h o fi p c, (ctxAtHeader h o fi p c).hdr = h := fun _ _ _ _ _ => rfl
    rw [htake, ctxAtHeader_set_hdr, hhdr, take_append_take_drop]
    by_cases hj1 : j + t < 2
    · rw [hshort (j + t) hj1]
      simp only
      refine ⟨e1, hff1, hs1, Or.inl ⟨j + t, opc, fin, pl, co', by omega, ?_, rfl, ?_, Or.inr (by omega)⟩⟩
      · exact hco
      · rw [hp1, hdrop]
    · rw [hp2 (j + t) (by omega) htj opc fin pl co' hco]
      simp only [ctxAtHeader_set_hdr, hhdr]
      have hmiss2 : hdrMissing (ctxAtHeader (H.take (j + t)) OP FIN L7 CO) = (H.length : Int) - ((j + t : Nat) : Int) := by
        have h2le : 2 ≤ j + t := by omega
        simp only [hdrMissing, ctxAtHeader, Ctx.nRead, hwant (j + t) htj, h2le, if_true, List.length_take]
        congr 2; omega
      have hnr2 : (ctxAtHeader (H.take (j + t)) OP FIN L7 CO).nRead = j + t := by
        simp [ctxAtHeader, Ctx.nRead]; omega
      have hpl2 : (ctxAtHeader (H.take (j + t)) OP FIN L7 CO).payloadLen = L7 := rfl
      rw [hmiss2, hnr2, hpl2]
      -- after the (possible) second read: finishHeader on a prefix of length j2
      have hfin : ∀ (j2 : Nat) (e2 : Env), j + t ≤ j2 → j2 ≤ H.length → e2.FaultFree → e2.Safe →
          e2.pending = H.drop j2 ++ body →
          ∃ e', e'.FaultFree ∧ e'.Safe ∧
          ((∃ j' opc' fin' pl' co'', j' < H.length ∧ okco co'' ∧
              finishHeader (ctxAtHeader (H.take j2) OP FIN L7 CO) e2 =
                ⟨ctxAtHeader (H.take j') opc' fin' pl' co'', e', .headerPending, .again, []⟩ ∧
              e'.pending = H.drop j' ++ body ∧ (e.Stuck ∨ j < j')) ∨
           (finishHeader (ctxAtHeader (H.take j2) OP FIN L7 CO) e2 =
                OUT e' ∧
              e'.pending = body)) := by
        intro j2 e2 h1 h2 hf2 hs2 hp2
        by_cases hlt : j2 < H.length
        · refine ⟨e2, hf2, hs2, Or.inl ⟨j2, _, _, _, _, hlt, hCO,
            hinc j2 hlt e2, hp2, Or.inr (by omega)⟩⟩
        · have : j2 = H.length := by omega
          subst this
          refine ⟨e2, hf2, hs2, Or.inr ⟨?_, ?_⟩⟩
          · rw [List.take_length]; exact hcomp e2
          · rw [hp2]; simp
      by_cases hcond : (L7 = 126 ∨ L7 = 127) ∧ (H.length : Int) - ((j + t : Nat) : Int) > 0
      · simp only [hcond, and_self, if_true]
        obtain ⟨hff2, hs2, hc2⟩ := Env.read_cases e1 (j + t) ((H.length : Int) - ((j + t : Nat) : Int))
          (by omega) (by omega) hff1 hs1
        generalize hr2 : e1.read (j + t) ((H.length : Int) - ((j + t : Nat) : Int)) = r2 at hff2 hs2 hc2
        obtain ⟨o2, e2⟩ := r2
        simp only at hff2 hs2 hc2
        rcases hc2 with ⟨ho2, hp2, _⟩ | ⟨t2, ht20, ht2N, ht2l, ho2, hp2⟩
        · subst ho2
          simp only
          refine ⟨e2, hff2, hs2, Or.inl ⟨j + t, _, _, _, _, by omega, hCO, rfl, ?_,
            Or.inr (by omega)⟩⟩
          rw [hp2, hp1, hdrop]
        · subst ho2
          simp only
          have hp1' : e1.pending = H.drop (j + t) ++ body := by rw [hp1, hdrop]
          have htake2 : e1.pending.take t2 = (H.drop (j + t)).take t2 := by
            rw [hp1', List.take_append_of_le_length (by simp; omega)]
          have hdrop2 : e1.pending.drop t2 = H.drop (j + t + t2) ++ body := by
            rw [hp1', List.drop_append_of_le_length (by simp; omega), List.drop_drop]
          rw [htake2, take_append_take_drop]
          exact hfin (j + t + t2) e2 (by omega) (by omega) hff2 hs2 (by rw [hp2, hdrop2])
      · simp only [hcond, if_false]
        exact hfin (j + t) e1 (by omega) htj hff1 hs1 (by rw [hp1, hdrop])


/-- `readHeader` on a strict prefix of the header of a frame whose header is acceptable (valid data /
ping / pong frames, and Close frames) -/
theorem readHeader_cases_hok (f : Frame) (co co' : Byte) (j : Nat) (opc fin : Byte) (pl : Nat)
    (e : Env) (body : List Byte) (hok : f.hok co) (hj : j < f.header.length)
    (hco : co' = co ∨ co' = f.nextCo co)
    (hpend : e.pending = f.header.drop j ++ body) (hff : e.FaultFree) (hs : e.Safe) :
    ∃ e', e'.FaultFree ∧ e'.Safe ∧
      ((∃ j' opc' fin' pl' co'', j' < f.header.length ∧ (co'' = co ∨ co'' = f.nextCo co) ∧
          readHeader (ctxAtHeader (f.header.take j) opc fin pl co') e =
            ⟨ctxAtHeader (f.header.take j') opc' fin' pl' co'', e', .headerPending, .again, []⟩ ∧
          e'.pending = f.header.drop j' ++ body ∧ (e.Stuck ∨ j < j')) ∨
       (readHeader (ctxAtHeader (f.header.take j) opc fin pl co') e =
            ⟨ctxInFrame f co 0 [] [] (some f.header.length) .headerPending, e', .dataNeeded, .again, []⟩ ∧
          e'.pending = body)) := by
  obtain ⟨hH14, hH6⟩ := header_length_le f
  exact readHeader_generic f.header (f.effOp co) f.fin f.l7 (f.nextCo co)
    (fun c => c = co ∨ c = f.nextCo co)
    (fun e' => ⟨ctxInFrame f co 0 [] [] (some f.header.length) .headerPending, e', .dataNeeded, .again, []⟩)
    ⟨hH6, hH14⟩ (fun j _ => hdrWant_take f j) (fun j hj opc fin pl co' => parse2_short f j hj opc fin pl co')
    (fun j hj _ opc fin pl co' hc => parse2_hok f co co' hok j hj hc opc fin pl) (Or.inr rfl)
    (fun j hj e => finishHeader_incomplete f j hj _ _ _ e) (fun e => finishHeader_complete' f co hok.1 e)
    j opc fin pl co' e body hj hco hpend hff hs

/-- what `readHeader` does on a strict prefix of the header of a valid frame -/
theorem readHeader_cases (f : Frame) (fs : List Frame) (co co' : Byte) (j : Nat) (opc fin : Byte) (pl : Nat)
    (e : Env) (body : List Byte) (hok : f.ok co) (hj : j < f.header.length)
    (hco : co' = co ∨ co' = f.nextCo co)
    (hpend : e.pending = f.header.drop j ++ body) (hff : e.FaultFree) (hs : e.Safe) :
    ∃ e', e'.FaultFree ∧ e'.Safe ∧
      ((∃ j' opc' fin' pl' co'', j' < f.header.length ∧ (co'' = co ∨ co'' = f.nextCo co) ∧
          readHeader (ctxAtHeader (f.header.take j) opc fin pl co') e =
            ⟨ctxAtHeader (f.header.take j') opc' fin' pl' co'', e', .headerPending, .again, []⟩ ∧
          e'.pending = f.header.drop j' ++ body ∧ (e.Stuck ∨ j < j')) ∨
       (readHeader (ctxAtHeader (f.header.take j) opc fin pl co') e =
            ⟨ctxInFrame f co 0 [] [] (some f.header.length) .headerPending, e', .dataNeeded, .again, []⟩ ∧
          e'.pending = body)) := by
  obtain ⟨hH14, hH6⟩ := header_length_le f
  exact readHeader_generic f.header (f.effOp co) f.fin f.l7 (f.nextCo co)
    (fun c => c = co ∨ c = f.nextCo co)
    (fun e' => ⟨ctxInFrame f co 0 [] [] (some f.header.length) .headerPending, e', .dataNeeded, .again, []⟩)
    ⟨hH6, hH14⟩ (fun j _ => hdrWant_take f j) (fun j hj opc fin pl co' => parse2_short f j hj opc fin pl co')
    (fun j hj _ opc fin pl co' hc => parse2_ok f co co' hok j hj hc opc fin pl) (Or.inr rfl)
    (fun j hj e => finishHeader_incomplete f j hj _ _ _ e) (fun e => finishHeader_complete' f co hok.1 e)
    j opc fin pl co' e body hj hco hpend hff hs

end VncModel.Ws
