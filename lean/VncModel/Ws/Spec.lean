import VncModel.Ws.Decoder
import VncModel.Ws.Codec
/-
Specification vocabulary for the decoder theorems: which client frame sequences are valid, what the
RFB layer is supposed to receive from them, runs of the decoder under a caller, fault-free
oracles, memory-safe request logs.
-/
namespace VncModel.Ws

/-! ### RFC 6455 message structure as seen by a receiver -/

/-- opcode that governs the interpretation of the payload: a continuation frame inherits the
opcode `co` of the message it continues -/
def Frame.effOp (co : Byte) (f : Frame) : Byte :=
  if f.isControl then f.opcode else if f.opcode = opContinuation then co else f.opcode

/-- opcode of the message that is open once the header of `f` has been seen -/
def Frame.nextCo (co : Byte) (f : Frame) : Byte :=
  if f.isControl then co else if f.opcode = opContinuation then co
  else if f.fin = 0 then f.opcode else opInvalid

/-- opcode of the open message after frame `f` is complete (`opInvalid`: no message open) -/
def Frame.afterCo (co : Byte) (f : Frame) : Byte :=
  if f.fin ≠ 0 ∧ !f.isControl then opInvalid else f.nextCo co

/-- decoding of a complete base64 text payload (the whole payload at once) -/
def b64Inv (p : List Byte) : List Byte := (pton p (p.length + 1)).getD []

/-- what frame `f` contributes to the byte stream handed to the RFB layer -/
def Frame.out (co : Byte) (f : Frame) : List Byte :=
  if f.effOp co = opBinary then f.payload
  else if f.effOp co = opText then b64Inv f.payload
  else []

/-- frame `f` is acceptable when message `co` is open: the length fits the 64-bit field; control
frames are Ping or Pong, unfragmented and at most 125 bytes; a continuation needs an open message;
data is binary, or text whose payload is the base64 encoding of something -/
def Frame.ok (co : Byte) (f : Frame) : Prop :=
  f.payload.length < 2 ^ 64 ∧
  (f.isControl = true → f.fin ≠ 0 ∧ (f.opcode = opPing ∨ f.opcode = opPong) ∧ f.payload.length ≤ 125) ∧
  (f.isControl = false →
    (f.opcode = opContinuation → co ≠ opInvalid) ∧
    (f.effOp co = opBinary ∨ (f.effOp co = opText ∧ ∃ x, f.payload = ntop x)))

/-- header-level acceptability (what lets the header of `f` through `hybiReadHeader`): like `ok`
but Close is allowed and nothing is said about the contents of text payloads -/
def Frame.hok (co : Byte) (f : Frame) : Prop :=
  f.payload.length < 2 ^ 64 ∧
  (f.isControl = true → f.fin ≠ 0 ∧ (f.opcode = opClose ∨ f.opcode = opPing ∨ f.opcode = opPong) ∧
    f.payload.length ≤ 125) ∧
  (f.isControl = false →
    (f.opcode = opContinuation → co ≠ opInvalid) ∧ (f.effOp co = opBinary ∨ f.effOp co = opText))

theorem Frame.ok.hok {co : Byte} {f : Frame} (h : f.ok co) : f.hok co := by
  obtain ⟨h1, h2, h3⟩ := h
  refine ⟨h1, fun hc => ⟨(h2 hc).1, Or.inr (h2 hc).2.1, (h2 hc).2.2⟩, fun hc => ⟨(h3 hc).1, ?_⟩⟩
  rcases (h3 hc).2 with h | ⟨h, _⟩
  · exact Or.inl h
  · exact Or.inr h

def ValidSeq : Byte → List Frame → Prop
  | _, [] => True
  | co, f :: fs => f.ok co ∧ ValidSeq (f.afterCo co) fs

/-- the byte stream the RFB layer must see -/
def expected : Byte → List Frame → List Byte
  | _, [] => []
  | co, f :: fs => f.out co ++ expected (f.afterCo co) fs

/-- the assumed law of base64.c (compared with the C routines on every run, not proved):
decoding an encoding gives the original back when the target is large enough -/
def B64RoundTrip : Prop := ∀ (z : List Byte) (ts : Nat), z.length < ts → pton (ntop z) ts = some z

/-! ### oracles and runs -/

def Resp.benign : Resp → Bool
  | .chunk _ => true
  | .eagain => true
  | _ => false

/-- the transport never reports end of stream or a hard error -/
def Env.FaultFree (e : Env) : Prop := (∀ r ∈ e.sched, r.benign = true) ∧ (∀ r ∈ e.cycle, r.benign = true)

/-- every logged request stays inside `codeBufDecode` and asks for at least one byte -/
def Env.Safe (e : Env) : Prop := ∀ r ∈ e.log, 0 < r.n ∧ (r.off : Int) + r.n ≤ BUF

/-- the transport has nothing to give right now: its next answer is EAGAIN, or nothing is pending -/
def Env.Stuck (e : Env) : Prop := (e.next).1 = .eagain ∨ e.pending = []

structure RunOut where
  outs : List Res
  c : Ctx
  e : Env

/-- the caller: one `webSocketsDecodeHybi` call per requested length -/
def run (c : Ctx) (e : Env) : List Nat → RunOut
  | [] => ⟨[], c, e⟩
  | len :: ls =>
    let (c', e', r) := decode c e len
    let o := run c' e' ls
    ⟨r :: o.outs, o.c, o.e⟩

/-- the call neither failed nor left defined behaviour -/
def Res.fine : Res → Bool
  | .data _ => true
  | .again => true
  | _ => false

/-- the caller of the real server: it stops calling after the first result that is neither data
nor EAGAIN (the connection is closed then) -/
def runStop (c : Ctx) (e : Env) : List Nat → List Res
  | [] => []
  | len :: ls =>
    if (decode c e len).2.2.fine then (decode c e len).2.2 :: runStop (decode c e len).1 (decode c e len).2.1 ls
    else [(decode c e len).2.2]

def Res.bytes : Res → List Byte
  | .data bs => bs
  | _ => []

def delivered (outs : List Res) : List Byte := outs.flatMap Res.bytes

end VncModel.Ws
