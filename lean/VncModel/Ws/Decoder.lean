import VncModel.Gen.C09
import VncModel.Ws.Base64
/-
Model of the hybi frame decoder, src/libvncserver/ws_decode.c **with fixes/C09-ws-header-split.diff
and fixes/C09-control-frame-limits.diff applied** (`hybiHeaderBytesMissing`, EAGAIN keeps the state;
reserved opcodes and control frames longer than 125 bytes are protocol errors):

  hybiDecodeCleanupBasics/Complete  ↔ `cleanupBasics` / `cleanupComplete`
  hybiReturnData                    ↔ `returnData`
  hybiReadHeader                    ↔ `readHeader` (= first read, `parse2`, second read, `finishHeader`)
  hybiReadAndDecode                 ↔ `readAndDecode`
  webSocketsDecodeHybi              ↔ `decode`

The 2062-byte `codeBufDecode` is modelled by *indices* (`writePos`, `readPos` are offsets into it,
`none` = NULL) plus the *contents* of the three regions the code ever looks at again:
`hdr` = codeBufDecode[0 .. header.nRead), `carry` = carryBuf[0 .. carrylen),
`rd` = readPos[0 .. readlen) (the decoded bytes not yet handed to the caller).
Every `readFunc(ctx, dst, n)` call goes through `Env.read off n` which records the request
`(off, n)`; a request with `n ≤ 0` or `off + n > 2062`, a NULL `writePos`/`readPos` dereference or
a negative `bufsize` make the model return `Res.ub` ("C behaviour undefined") — Props/C09 proves
that this is unreachable.

The unfixed first-read length `6 - nRead` is kept as `hdrReadLenUnfixed` for the counterexample.
-/
namespace VncModel.Ws
open VncModel.Gen

/-- size of `codeBufDecode` (regenerated from the tree: 2048 + WSHLENMAX) -/
abbrev BUF : Nat := C09.decodeBufSize

/-! ### the read callback as an oracle -/

/-- what the transport does on one `read(n)` call: deliver at most `k+1` of the pending bytes
(a non-empty prefix), or fail with EAGAIN, or report end of stream, or a hard error (EIO) -/
inductive Resp where
  | chunk (k : Nat)
  | eagain
  | eof
  | fail
  deriving DecidableEq, Repr

inductive RdOut where
  | data (bs : List Byte)   -- return value = bs.length > 0
  | again                   -- -1, errno = EAGAIN
  | closed                  -- 0
  | fail                    -- -1, errno = EIO
  | bad                     -- the request itself is outside the buffer / non-positive
  deriving DecidableEq, Repr

/-- one logged read request: offset into codeBufDecode, requested size, outcome -/
structure Req where
  off : Nat
  n : Int
  out : RdOut
  deriving Repr

structure Env where
  pending : List Byte          -- bytes the peer has sent and the decoder has not read yet
  sched : List Resp            -- answers to the next read calls
  cycle : List Resp := []      -- when `sched` runs out: repeat this (if non-empty)
  log : List Req := []         -- requests issued so far (most recent first)
  deriving Repr

def Env.next (e : Env) : Resp × Env :=
  match e.sched with
  | r :: rs => (r, { e with sched := rs })
  | [] =>
    match e.cycle with
    | r :: rs => (r, { e with sched := rs })
    | [] => (.chunk (2 ^ 30), e)

/-- `readFunc(ctx, codeBufDecode + off, n)` -/
def Env.read (e : Env) (off : Nat) (n : Int) : RdOut × Env :=
  if n ≤ 0 ∨ (off : Int) + n > BUF then (.bad, { e with log := ⟨off, n, .bad⟩ :: e.log })
  else
    let (r, e) := e.next
    let out : RdOut × List Byte :=
      match r with
      | .eof => (.closed, e.pending)
      | .fail => (.fail, e.pending)
      | .eagain => (.again, e.pending)
      | .chunk k =>
        if e.pending = [] then (.again, e.pending)
        else
          let t := min (k + 1) n.toNat
          (.data (e.pending.take t), e.pending.drop t)
    (out.1, { e with pending := out.2, log := ⟨off, n, out.1⟩ :: e.log })

/-! ### decoder context -/

inductive St where
  | headerPending | dataAvailable | dataNeeded | frameComplete | closeReasonPending | err
  deriving DecidableEq, Repr

def St.toNat : St → Nat
  | .headerPending => 0 | .dataAvailable => 1 | .dataNeeded => 2
  | .frameComplete => 3 | .closeReasonPending => 4 | .err => 5

-- the enum values the driver prints are those of the tree
example : St.headerPending.toNat = C09.stHeaderPending ∧ St.dataAvailable.toNat = C09.stDataAvailable ∧
    St.dataNeeded.toNat = C09.stDataNeeded ∧ St.frameComplete.toNat = C09.stFrameComplete ∧
    St.closeReasonPending.toNat = C09.stCloseReasonPending ∧ St.err.toNat = C09.stErr := by decide

def opContinuation : Byte := 0x00
def opText : Byte := 0x01
def opBinary : Byte := 0x02
def opClose : Byte := 0x08
def opPing : Byte := 0x09
def opPong : Byte := 0x0A
def opInvalid : Byte := 0xFF

example : opContinuation.toNat = C09.opContinuation ∧ opText.toNat = C09.opText ∧
    opBinary.toNat = C09.opBinary ∧ opClose.toNat = C09.opClose ∧ opInvalid.toNat = C09.opInvalid ∧
    opPing.toNat = C09.opPing ∧ opPong.toNat = C09.opPong ∧
    C09.hdrLenShort = 6 ∧ C09.hdrLenExtended = 8 ∧ C09.hdrLenLong = 14 ∧ C09.carryBufSize = 3 := by
  decide

inductive Errno where
  | eproto | econnreset | eio
  deriving DecidableEq, Repr

/-- result of one `webSocketsDecodeHybi(wsctx, dst, len)` call -/
inductive Res where
  | data (bs : List Byte)   -- returns bs.length (> 0), bytes copied to dst
  | again                   -- returns -1, errno = EAGAIN
  | closed                  -- returns 0
  | err (e : Errno)         -- returns -1, other errno
  | ub                      -- the C code would have left defined behaviour
  deriving DecidableEq, Repr

structure Ctx where
  st : St                   -- hybiDecodeState
  hdr : List Byte           -- codeBufDecode[0 .. header.nRead)
  opcode : Byte             -- header.opcode
  fin : Byte                -- header.fin
  payloadLen : Nat          -- header.payloadLen (uint64_t)
  mask : Mask               -- header.mask
  headerLen : Nat           -- header.headerLen
  nReadPayload : Nat        -- uint64_t
  carry : List Byte         -- carryBuf[0 .. carrylen)
  writePos : Option Nat
  readPos : Option Nat
  readlen : Int
  rd : List Byte            -- readPos[0 .. readlen) when readlen > 0
  contOp : Byte             -- continuation_opcode
  deriving Repr

def Ctx.nRead (c : Ctx) : Nat := c.hdr.length

/-- `hybiRemaining`: `payloadLen - nReadPayload` in uint64_t arithmetic -/
def Ctx.remaining (c : Ctx) : Nat := (c.payloadLen + 2 ^ 64 - c.nReadPayload) % 2 ^ 64

def Ctx.isControl (c : Ctx) : Bool := c.opcode &&& 0x08 != 0

/-- `isReservedOpcode` (fixes/C09-control-frame-limits.diff): opcodes 0x3-0x7 and 0xB-0xF -/
def isReservedOp (op : Byte) : Bool := (0x03 ≤ op && op ≤ 0x07) || 0x0B ≤ op

/-- `hybiDecodeCleanupBasics` (header.fin and the old buffer contents are left alone) -/
def cleanupBasics (c : Ctx) : Ctx :=
  { c with opcode := opInvalid, payloadLen := 0, mask := Mask.zero, headerLen := 0, hdr := [],
           nReadPayload := 0, carry := [], readPos := some 0, readlen := 0, rd := [],
           st := .headerPending, writePos := none }

/-- `hybiDecodeCleanupComplete` -/
def cleanupComplete (c : Ctx) : Ctx := { cleanupBasics c with contOp := opInvalid }

/-- the context after `hybiDecodeCleanupComplete` on zeroed memory (what the handshake installs) -/
def Ctx.init : Ctx :=
  { st := .headerPending, hdr := [], opcode := opInvalid, fin := 0, payloadLen := 0,
    mask := Mask.zero, headerLen := 0, nReadPayload := 0, carry := [], writePos := none,
    readPos := some 0, readlen := 0, rd := [], contOp := opInvalid }

/-! ### hybiReturnData -/

def returnData (c : Ctx) (len : Nat) : Ctx × St × Res :=
  if c.readlen > 0 then
    match c.readPos with
    | none => (c, .err, .ub)
    | some rp =>
      if c.readlen > len then
        ({ c with readlen := c.readlen - len, readPos := some (rp + len), rd := c.rd.drop len },
         .dataAvailable, .data (c.rd.take len))
      else
        let c' := { c with readlen := 0, readPos := none, rd := [] }
        (c', if c.remaining = 0 then .frameComplete else .dataNeeded, .data c.rd)
  else (c, c.st, .again)

/-! ### hybiReadHeader -/

/-- the frame-header length implied by the header bytes received so far -/
def hdrWant (hdr : List Byte) : Nat :=
  match hdr with
  | _ :: b1 :: _ =>
    if b1 &&& 0x7f = 126 then 8 else if b1 &&& 0x7f = 127 then 14 else 6
  | _ => 6

/-- `hybiHeaderBytesMissing` (fixed code) -/
def hdrMissing (c : Ctx) : Int := (hdrWant c.hdr : Int) - c.nRead

/-- the first-read length of the code before the fix: `(int)(6 - header.nRead)` -/
def hdrReadLenUnfixed (c : Ctx) : Int := 6 - c.nRead

inductive Parse2 where
  | pending
  | error (e : Errno) (c : Ctx)     -- `c`: the context at the `goto err_cleanup_state`
  | ok (c : Ctx)

/-- interpretation of the first two header bytes (runs again on every re-entry, idempotent) -/
def parse2 (c : Ctx) : Parse2 :=
  match c.hdr with
  | b0 :: b1 :: _ =>
    let op := b0 &&& 0x0f
    let fin := (b0 &&& 0x80) >>> 7
    let c := { c with opcode := op, fin := fin }
    if isReservedOp op then .error .eproto c else      -- RFC 6455 5.2: fail the connection
    let step : Option Ctx :=
      if c.isControl then
        if fin = 0 then none else some c
      else if op = opContinuation then
        if c.contOp = opInvalid then none else some { c with opcode := c.contOp }
      else some { c with contOp := if fin = 0 then op else opInvalid }
    match step with
    | none => .error .eproto c
    | some c =>
      let c := { c with payloadLen := (b1 &&& 0x7f).toNat }
      -- RFC 6455 5.5: control frames carry at most 125 bytes (7-bit length form only)
      if c.isControl ∧ c.payloadLen > 125 then .error .eproto c else
      if b1 &&& 0x80 = 0 then .error .eproto c else .ok c
  | _ => .pending

/-- result of `hybiReadHeader`: new context, environment, returned state, `*sockRet`, `*nPayload`
and the bytes of the header area that lie behind the header (the `nInBuf` bytes) -/
structure HdrOut where
  c : Ctx
  e : Env
  st : St
  res : Res
  inbuf : List Byte := []

/-- the tail of `hybiReadHeader` once no more reads are attempted in this call -/
def finishHeader (c : Ctx) (e : Env) : HdrOut :=
  let done : Option Ctx :=
    if c.payloadLen < 126 ∧ c.nRead ≥ 6 then
      match c.hdr with
      | _ :: _ :: m0 :: m1 :: m2 :: m3 :: _ => some { c with headerLen := 6, mask := ⟨m0, m1, m2, m3⟩ }
      | _ => none
    else if c.payloadLen = 126 ∧ 8 ≤ c.nRead then
      match c.hdr with
      | _ :: _ :: l0 :: l1 :: m0 :: m1 :: m2 :: m3 :: _ =>
        some { c with headerLen := 8, payloadLen := beDec [l0, l1], mask := ⟨m0, m1, m2, m3⟩ }
      | _ => none
    else if c.payloadLen = 127 ∧ 14 ≤ c.nRead then
      match c.hdr with
      | _ :: _ :: l0 :: l1 :: l2 :: l3 :: l4 :: l5 :: l6 :: l7 :: m0 :: m1 :: m2 :: m3 :: _ =>
        some { c with headerLen := 14, payloadLen := beDec [l0, l1, l2, l3, l4, l5, l6, l7],
                      mask := ⟨m0, m1, m2, m3⟩ }
      | _ => none
    else none
  match done with
  | none => ⟨c, e, .headerPending, .again, []⟩          -- "incomplete frame header, try again"
  | some c =>
    if (c.headerLen > 6 ∧ c.payloadLen < 126) ∨ (c.headerLen > 8 ∧ c.payloadLen < 65536) then
      ⟨cleanupComplete c, e, .err, .err .eproto, []⟩
    else
      let nPayload := c.nRead - c.headerLen
      ⟨{ c with writePos := some c.nRead, readPos := some c.headerLen, nReadPayload := nPayload },
       e, .dataNeeded, .again, c.hdr.drop c.headerLen⟩

def readHeader (c : Ctx) (e : Env) : HdrOut :=
  match e.read c.nRead (hdrMissing c) with
  | (.bad, e) => ⟨c, e, .err, .ub, []⟩
  | (.fail, e) => ⟨cleanupComplete c, e, .err, .err .eio, []⟩
  | (.closed, e) => ⟨cleanupComplete c, e, .err, .closed, []⟩
  | (.again, e) => ⟨c, e, .headerPending, .again, []⟩
  | (.data bs, e) =>
    let c := { c with hdr := c.hdr ++ bs }
    match parse2 c with
    | .pending => ⟨c, e, .headerPending, .again, []⟩
    | .error en c => ⟨cleanupComplete c, e, .err, .err en, []⟩
    | .ok c =>
      if (c.payloadLen = 126 ∨ c.payloadLen = 127) ∧ hdrMissing c > 0 then
        match e.read c.nRead (hdrMissing c) with
        | (.bad, e) => ⟨c, e, .err, .ub, []⟩
        | (.fail, e) => ⟨cleanupComplete c, e, .err, .err .eio, []⟩
        | (.closed, e) => ⟨cleanupComplete c, e, .err, .closed, []⟩
        | (.again, e) => ⟨c, e, .headerPending, .again, []⟩
        | (.data bs, e) => finishHeader { c with hdr := c.hdr ++ bs } e
      else finishHeader c e

/-! ### hybiReadAndDecode -/

structure DecOut where
  c : Ctx
  e : Env
  st : St
  res : Res

/-- the `switch (header.opcode)` of `hybiReadAndDecode` for opcodes other than Close; `dec` = the
unmasked bytes data[0 .. toReturn) (for TEXT `data[toReturn] = 0` ends the C string) -/
def release (c : Ctx) (dec : List Byte) (bufsize : Nat) : Ctx :=
  if c.opcode = opText then
    match pton dec bufsize with
    | some out => { c with readlen := out.length, rd := out, writePos := some c.headerLen }
    | none => { c with readlen := -1, rd := [], writePos := some c.headerLen }
  else if c.opcode = opBinary then
    { c with readlen := dec.length, rd := dec, writePos := some c.headerLen }
  else c                                        -- "unhandled opcode": nothing is set

/-- `nReadPayload += n; writePos += n; if (hybiRemaining(wsctx) == 0) hybiDecodeState = FRAME_COMPLETE`
(`writePos` is threaded separately as `wpEnd`) -/
def advance (c : Ctx) (n : Nat) : Ctx :=
  let np := (c.nReadPayload + n) % 2 ^ 64
  { c with nReadPayload := np,
           st := if (c.payloadLen + 2 ^ 64 - np) % 2 ^ 64 = 0 then .frameComplete else c.st }

/-- unmasking of `data` (= the `toDecode` bytes in front of writePos): all of it when the frame is
complete, else the whole 32-bit words; returns (unmasked released bytes, bytes carried over) -/
def unmaskChunk (complete : Bool) (m : Mask) (data : List Byte) : List Byte × List Byte :=
  if complete then (xorMask m data, [])
  else (xorMask m (data.take (4 * (data.length / 4))), data.drop (4 * (data.length / 4)))

/-- `hybiReadAndDecode` from the unmasking loop on: `wpEnd` = writePos after the read,
`data` = the bytes at [wpEnd - toDecode, wpEnd) -/
def finishChunk (c : Ctx) (e : Env) (len : Nat) (wpEnd : Nat) (bufsize : Nat) (data : List Byte) :
    DecOut :=
  let u := unmaskChunk (c.st == .frameComplete) c.mask data
  -- carrylen = u.2.length; memcpy(carryBuf, ...); writePos -= carrylen  (nothing when complete)
  let c := { c with carry := u.2, writePos := some (wpEnd - u.2.length) }
  -- toReturn = toDecode - carrylen = u.1.length
  if c.opcode = opClose then
    if c.remaining = 0 then ⟨c, e, .frameComplete, .err .econnreset⟩
    else ⟨c, e, .closeReasonPending, .again⟩
  else
    let c := { release c u.1 bufsize with readPos := some (wpEnd - data.length) }
    let r := returnData c len
    ⟨r.1, e, r.2.1, r.2.2⟩

/-- the part of `hybiReadAndDecode` after the read: `wp` = writePos after the carry copy,
`bs` = the bytes just read (n = bs.length), `inbuf` = the nInBuf bytes in front of them -/
def decodeChunk (c : Ctx) (e : Env) (len : Nat) (inbuf : List Byte) (wp : Nat) (bufsize : Nat)
    (bs : List Byte) : DecOut :=
  let data := inbuf ++ c.carry ++ bs                -- toDecode = data.length
  if wp + bs.length < data.length then ⟨c, e, .err, .ub⟩    -- `data` would start before the buffer
  else finishChunk (advance c bs.length) e len (wp + bs.length) bufsize data

def readAndDecode (c : Ctx) (e : Env) (len : Nat) (inbuf : List Byte) : DecOut :=
  match c.writePos with
  | none => ⟨c, e, .err, .ub⟩
  | some wp0 =>
    let wp := wp0 + c.carry.length          -- memcpy(writePos, carryBuf, carrylen); writePos += carrylen
    if wp + 1 > BUF then ⟨c, e, .err, .ub⟩ else   -- bufsize would be negative / copy outside
    let bufsize := BUF - wp - 1
    let nextRead : Nat := if c.remaining > bufsize then bufsize else c.remaining
    if nextRead > 0 then
      match e.read wp nextRead with
      | (.bad, e) => ⟨c, e, .err, .ub⟩
      | (.fail, e) => ⟨c, e, .err, .err .eio⟩
      | (.closed, e) => ⟨c, e, .err, .closed⟩
      | (.again, e) => ⟨c, e, c.st, .again⟩       -- fixed code: carry copy undone, state kept
      | (.data bs, e) => decodeChunk c e len inbuf wp bufsize bs
    else decodeChunk c e len inbuf wp bufsize []

/-! ### webSocketsDecodeHybi -/

/-- the code after label `spor` -/
def spor (c : Ctx) : Ctx :=
  if c.st = .frameComplete then
    if c.fin ≠ 0 ∧ !c.isControl then cleanupComplete c else cleanupBasics c
  else if c.st = .err then cleanupComplete c
  else c

def decode (c : Ctx) (e : Env) (len : Nat) : Ctx × Env × Res :=
  match c.st with
  | .headerPending =>
    let h := readHeader c e
    let c1 := { h.c with st := h.st }
    if h.st = .err then (spor c1, h.e, h.res)
    else if h.st ≠ .headerPending then
      let d := readAndDecode c1 h.e len h.inbuf
      (spor { d.c with st := d.st }, d.e, d.res)
    else (spor c1, h.e, h.res)
  | .dataAvailable =>
    let (c1, st, res) := returnData c len
    (spor { c1 with st := st }, e, res)
  | .dataNeeded | .closeReasonPending =>
    let d := readAndDecode c e len []
    (spor { d.c with st := d.st }, d.e, d.res)
  | _ => (spor { c with st := .err }, e, .err .eio)

end VncModel.Ws
