import VncModel.Gen.C09
import VncModel.Ws.Codec
/-
Model of the upgrade handshake, `webSocketsCheck` + `webSocketsHandshake` + `webSocketsGenSha1Key`
(websockets.c, with fixes/C09-handshake-unterminated-value.diff applied: the request buffer is kept
NUL-terminated while it is filled), for plain ("ws") connections whose first four bytes are there.

The scanner is modelled at the level of the 4096-byte buffer `buf`:
* `Scan.buf`       = buf[0 .. len), with the NUL patches the code applies (`buf[len-2] = 0`,
                     `buf[len-11] = 0`); buf[len] is always 0 (the fix), so every pointer into the
                     buffer is a C string (`Scan.strAt`);
* header values    = *offsets* into the buffer, exactly like the `char *` variables of the code —
                     their contents are read when they are used (after the loop), so the model also
                     covers the degenerate lines (`"Sec-WebSocket-Key: \n"`) whose value pointer
                     lies behind its own terminator;
* `Scan.writes`    = every index of `buf` that has been written (for the bounds theorem);
* the request is consumed one byte at a time (as `rfbReadExactTimeout(cl, buf+len, 1)` does) until
  the empty line, 4095 bytes, or the end of the input, which is either a time-out (the code then
  goes on with what it has) or a closed connection / read error (handshake fails).
SHA-1 is a parameter (`sha1`); base64 is the model of base64.c.  TLS (`wss`) is not modelled.
-/
namespace VncModel.Ws
open VncModel.Gen

/-- ASCII string literal as bytes (kernel-reducible) -/
def strBytes (s : String) : List Byte := s.toList.map (fun c => UInt8.ofNat c.toNat)

def lowerB (c : Byte) : Byte := if 65 ≤ c ∧ c ≤ 90 then c + 32 else c

/-- `strncasecmp(pfx, line, min(llen, |pfx|)) == 0` for a line that ends in '\n' (a line shorter
than the prefix differs from it at its last character, the line feed) -/
def hasPrefixCI (pfx : List Byte) (line : List Byte) : Bool :=
  pfx.length ≤ line.length && (line.take pfx.length).map lowerB == pfx.map lowerB

/-- `strstr(hay, needle) != NULL` -/
def hasInfix (needle : List Byte) : List Byte → Bool
  | [] => needle.isEmpty
  | h :: t => (needle.isPrefixOf (h :: t)) || hasInfix needle t

/-- `(char) strtol(s, NULL, 10) != 0` for the C string `s` -/
def versionNonZero (s : List Byte) : Bool :=
  let s := s.dropWhile isSpace
  let (neg, s) := match s with
    | 45 :: r => (true, r)
    | 43 :: r => (false, r)
    | _ => (false, s)
  let digits := s.takeWhile (fun c => 48 ≤ c && c ≤ 57)
  let v := digits.foldl (fun acc c => acc * 10 + (c.toNat - 48)) 0
  let v := if neg then min v (2 ^ 63) else min v (2 ^ 63 - 1)
  v % 256 != 0

/-- header-name prefixes the code looks for (all compared case-insensitively), as explicit ASCII
codes so that proofs can compute with them; `prefix_literals_ok` ties them to the strings -/
def pGet : List Byte := [71, 69, 84, 32]   -- "GET "
def pHost : List Byte := [104, 111, 115, 116, 58, 32]   -- "host: "
def pOrigin : List Byte := [111, 114, 105, 103, 105, 110, 58, 32]   -- "origin: "
def pKey1 : List Byte := [115, 101, 99, 45, 119, 101, 98, 115, 111, 99, 107, 101, 116, 45, 107, 101, 121, 49, 58, 32]   -- "sec-websocket-key1: "
def pKey2 : List Byte := [115, 101, 99, 45, 119, 101, 98, 115, 111, 99, 107, 101, 116, 45, 107, 101, 121, 50, 58, 32]   -- "sec-websocket-key2: "
def pProtocol : List Byte := [115, 101, 99, 45, 119, 101, 98, 115, 111, 99, 107, 101, 116, 45, 112, 114, 111, 116, 111, 99, 111, 108, 58, 32]   -- "sec-websocket-protocol: "
def pSecOrigin : List Byte := [115, 101, 99, 45, 119, 101, 98, 115, 111, 99, 107, 101, 116, 45, 111, 114, 105, 103, 105, 110, 58, 32]   -- "sec-websocket-origin: "
def pKey : List Byte := [115, 101, 99, 45, 119, 101, 98, 115, 111, 99, 107, 101, 116, 45, 107, 101, 121, 58, 32]   -- "sec-websocket-key: "
def pVersion : List Byte := [115, 101, 99, 45, 119, 101, 98, 115, 111, 99, 107, 101, 116, 45, 118, 101, 114, 115, 105, 111, 110, 58, 32]   -- "sec-websocket-version: "
/-- "base64" / "binary" -/
def bBase64 : List Byte := [98, 97, 115, 101, 54, 52]   -- "base64"
def bBinary : List Byte := [98, 105, 110, 97, 114, 121]   -- "binary"

-- `prefix_literals_ok`: the explicit codes are the ASCII strings of websockets.c
example : pGet = strBytes "GET " := by decide
example : pHost = strBytes "host: " := by decide
example : pOrigin = strBytes "origin: " := by decide
example : pKey1 = strBytes "sec-websocket-key1: " := by decide
example : pKey2 = strBytes "sec-websocket-key2: " := by decide
example : pProtocol = strBytes "sec-websocket-protocol: " := by decide
example : pSecOrigin = strBytes "sec-websocket-origin: " := by decide
example : pKey = strBytes "sec-websocket-key: " := by decide
example : pVersion = strBytes "sec-websocket-version: " := by decide
example : bBase64 = strBytes "base64" ∧ bBinary = strBytes "binary" := by decide

abbrev HSMAX : Nat := C09.maxHandshakeLen

/-- the `char *` variables of `webSocketsHandshake` that point into the request buffer -/
inductive Fld where
  | path | host | origin | protocol | secOrigin | key
  deriving DecidableEq, Repr

structure Scan where
  buf : List Byte := []
  linestart : Nat := 0
  ptr : Fld → Option Nat := fun _ => none      -- NULL or offset into buf
  key1 : Bool := false
  key2 : Bool := false
  version : Bool := false
  wspath : Option (List Byte) := none
  writes : List Nat := []

def Scan.len (s : Scan) : Nat := s.buf.length

/-- the C string at offset `p` of the buffer (terminated at the latest by buf[len] = 0) -/
def Scan.strAt (s : Scan) (p : Nat) : List Byte := (s.buf.drop p).takeWhile (· != 0)

/-- the current line, `line = buf + linestart`, `llen = len - linestart` bytes -/
def Scan.line (s : Scan) : List Byte := s.buf.drop s.linestart

/-- `buf[i] = '\0'` -/
def Scan.patch (s : Scan) (i : Nat) : Scan := { s with buf := s.buf.set i 0, writes := i :: s.writes }

def Scan.setPtr (s : Scan) (f : Fld) (p : Nat) : Scan :=
  { s with ptr := fun g => if g = f then some p else s.ptr g }

/-- which branch of the `else if` chain a complete line takes; `hdr f n`: a header whose value
pointer `f` is set to `line + n` -/
inductive LineKind where
  | get | hdr (f : Fld) (plen : Nat) | key1 | key2 | version | other
  deriving DecidableEq, Repr

def lineKind (line : List Byte) : LineKind :=
  if line.length ≥ 16 ∧ pGet.isPrefixOf line then .get
  else if hasPrefixCI pHost line then .hdr .host 6
  else if hasPrefixCI pOrigin line then .hdr .origin 8
  else if hasPrefixCI pKey1 line then .key1
  else if hasPrefixCI pKey2 line then .key2
  else if hasPrefixCI pProtocol line then .hdr .protocol 24
  else if hasPrefixCI pSecOrigin line then .hdr .secOrigin 22
  else if hasPrefixCI pKey line then .hdr .key 19
  else if hasPrefixCI pVersion line then .version
  else .other

/-- the body of the branch: NUL patch and pointer assignment -/
def applyLine (s : Scan) : LineKind → Scan
  | .get =>
    let s' := (s.patch (s.len - 11)).setPtr .path (s.linestart + 4)
    { s' with wspath := some (s'.strAt (s.linestart + 4)) }          -- free + strdup
  | .hdr f plen => (s.patch (s.len - 2)).setPtr f (s.linestart + plen)
  | .key1 => { s.patch (s.len - 2) with key1 := true }
  | .key2 => { s.patch (s.len - 2) with key2 := true }
  | .version =>   -- strtol(line+23) runs before the patch
    { s.patch (s.len - 2) with version := versionNonZero (s.strAt (s.linestart + 23)) }
  | .other => s

/-- the `else if` chain executed for every complete line other than the empty line -/
def processLine (s : Scan) : Scan := applyLine s (lineKind s.line)

/-- how the read loop ended -/
inductive LoopEnd where
  | blank       -- the empty line was seen (`break`)
  | full        -- `len` reached WEBSOCKETS_MAX_HANDSHAKE_LEN - 1
  | input       -- the client sent nothing more (time-out, or connection closed)
  | input8      -- ... while the 8 extra bytes of a Hixie request were being read
  deriving DecidableEq, Repr

/-- `buf[len] = b; len += 1; buf[len] = 0` -/
def Scan.push (s : Scan) (b : Byte) : Scan :=
  { s with buf := s.buf ++ [b], writes := (s.len + 1) :: s.len :: s.writes }

/-- the read loop; returns the state, the unread input and the reason for leaving the loop -/
def scanLoop : List Byte → Scan → Scan × List Byte × LoopEnd
  | [], s => (s, [], .input)
  | b :: rest, s =>
    if s.len ≥ HSMAX - 1 then (s, b :: rest, .full)
    else
      let s := s.push b
      if s.len - s.linestart ≥ 2 ∧ b = 10 then
        if s.line = [13, 10] then
          if s.key1 ∧ s.key2 ∧ s.len + 8 < HSMAX then
            -- Hixie leftovers: rfbReadExact(cl, buf+len, 8)
            if rest.length ≥ 8 then
              ({ s with buf := s.buf ++ rest.take 8,
                        writes := (List.range 8).map (· + s.len) ++ s.writes }, rest.drop 8, .blank)
            else
              ({ s with writes := (List.range rest.length).map (· + s.len) ++ s.writes }, [], .input8)
          else (s, rest, .blank)                       -- buf[len] = '\0' (already there)
        else
          let s := processLine s
          scanLoop rest { s with linestart := s.len }
      else scanLoop rest s

/-- how the client's transmission ends after the given bytes -/
inductive HsEnd where
  | timeout     -- nothing more within WEBSOCKETS_CLIENT_SEND_WAIT_MS: read returns -1/ETIMEDOUT
  | closed      -- connection closed or read error
  deriving DecidableEq, Repr

inductive HsResult where
  | fail
  | ok (response : List Byte) (base64 : Bool) (path : List Byte) (unread : List Byte)

/-- first "%s" replaced by `a`, second by `b` -/
def fmt2 (fmt : String) (a b : List Byte) : List Byte :=
  match fmt.splitOn "%s" with
  | [x] => strBytes x
  | [x, y] => strBytes x ++ a ++ strBytes y
  | x :: y :: z :: _ => strBytes x ++ a ++ strBytes y ++ b ++ strBytes z
  | [] => []

/-- `webSocketsGenSha1Key`: base64 (sha1 (key ++ GUID)) -/
def acceptKey (sha1 : List Byte → List Byte) (key : List Byte) : List Byte :=
  ntop (sha1 (key ++ strBytes C09.guid))

/-- the comma-separated elements of a `Sec-WebSocket-Protocol` value (blanks not yet stripped) -/
def splitComma : List Byte → List (List Byte)
  | [] => [[]]
  | c :: r =>
    if c = 44 then [] :: splitComma r
    else match splitComma r with
      | h :: t => (c :: h) :: t
      | [] => [[c]]

def isBlank (c : Byte) : Bool := c == 32 || c == 9
def stripBlanks (s : List Byte) : List Byte := ((s.dropWhile isBlank).reverse.dropWhile isBlank).reverse
/-- the offered sub-protocol tokens -/
def offerTokens (p : List Byte) : List (List Byte) := (splitComma p).map stripBlanks

/-- the sub-protocol decision: (base64 flag, protocol string of the response; [] = no line).
Token-wise (`webSocketsProtocolOffered`, fixes/C09-subprotocol-token-match.diff): `base64` if it is
one of the offered tokens, else `binary` if it is, else nothing. -/
def chooseProtocol (offered : Option (List Byte)) : Bool × List Byte :=
  match offered with
  | some p =>
    if (offerTokens p).contains bBase64 then (true, bBase64)
    else if (offerTokens p).contains bBinary then (false, bBinary) else (false, [])
  | none => (false, [])

/-- the code as found: `strstr` on the whole header value (substring match) -/
def chooseProtocolUnfixed (offered : Option (List Byte)) : Bool × List Byte :=
  match offered with
  | some p =>
    if hasInfix bBase64 p then (true, bBase64)
    else if hasInfix bBinary p then (false, bBinary) else (false, [])
  | none => (false, [])

/-- everything after the read loop -/
def finishHandshake (sha1 : List Byte → List Byte) (s : Scan) (unread : List Byte) : HsResult :=
  if !s.version then .fail else
  match s.ptr .key with
  | none => .fail
  | some k =>
    if (s.ptr .path).isNone ∨ (s.ptr .host).isNone ∨
       ((s.ptr .origin).isNone ∧ (s.ptr .secOrigin).isNone) then .fail else
    let ch := chooseProtocol ((s.ptr .protocol).map s.strAt)
    let acc := acceptKey sha1 (s.strAt k)
    let resp := if ch.2.length > 0 then fmt2 C09.handshakeFmt acc ch.2
                else fmt2 C09.handshakeFmtNoProto acc []
    .ok resp ch.1 (s.wspath.getD []) unread

/-- `webSocketsCheck` (after a successful 4-byte peek) + `webSocketsHandshake` -/
def handshake (sha1 : List Byte → List Byte) (req : List Byte) (ending : HsEnd) : HsResult :=
  if !pGet.isPrefixOf req then .fail else
  let r := scanLoop req {}
  if (r.2.2 = .input ∨ r.2.2 = .input8) ∧ ending = .closed then .fail
  else finishHandshake sha1 r.1 r.2.1

end VncModel.Ws
