import VncModel.Ws.Bytes
/-! Lemmas about masking and big-endian fields. -/
namespace VncModel.Ws

theorem xorFrom_length (m : Mask) (i : Nat) (bs : List Byte) : (xorFrom m i bs).length = bs.length := by
  induction bs generalizing i with
  | nil => rfl
  | cons b bs ih => simp [xorFrom, ih]

theorem xorFrom_nil (m : Mask) (i : Nat) : xorFrom m i [] = [] := rfl

theorem xorFrom_append (m : Mask) (i : Nat) (a b : List Byte) :
    xorFrom m i (a ++ b) = xorFrom m i a ++ xorFrom m (i + a.length) b := by
  induction a generalizing i with
  | nil => simp [xorFrom]
  | cons x xs ih => simp [xorFrom, ih, Nat.add_assoc, Nat.add_comm 1]

theorem Mask.get_mod (m : Mask) (i : Nat) : m.get (i % 4) = m.get i := by
  simp [Mask.get]

theorem xorFrom_mod (m : Mask) (i : Nat) (bs : List Byte) : xorFrom m (i % 4) bs = xorFrom m i bs := by
  induction bs generalizing i with
  | nil => rfl
  | cons b bs ih =>
    simp only [xorFrom, Mask.get_mod]
    rw [← ih (i % 4 + 1), ← ih (i + 1)]
    congr 2
    omega

theorem xorFrom_aligned (m : Mask) (a : Nat) (h : a % 4 = 0) (bs : List Byte) :
    xorFrom m a bs = xorFrom m 0 bs := by
  rw [← xorFrom_mod, h]

theorem xorFrom_take (m : Mask) (i n : Nat) (bs : List Byte) :
    (xorFrom m i bs).take n = xorFrom m i (bs.take n) := by
  induction bs generalizing i n with
  | nil => simp [xorFrom]
  | cons b bs ih => cases n <;> simp [xorFrom, ih]

theorem xorFrom_drop (m : Mask) (i n : Nat) (bs : List Byte) :
    (xorFrom m i bs).drop n = xorFrom m (i + n) (bs.drop n) := by
  induction bs generalizing i n with
  | nil => simp [xorFrom]
  | cons b bs ih =>
    cases n with
    | zero => simp
    | succ n => simp [xorFrom, ih, Nat.add_assoc, Nat.add_comm 1]

theorem xorFrom_involutive (m : Mask) (i : Nat) (bs : List Byte) :
    xorFrom m i (xorFrom m i bs) = bs := by
  induction bs generalizing i with
  | nil => rfl
  | cons b bs ih => simp [xorFrom, ih, UInt8.xor_assoc]

/-- unmasking (phase 0 at `data`) of bytes that were masked at a payload offset divisible by 4 -/
theorem xorMask_xorFrom_aligned (m : Mask) (a : Nat) (h : a % 4 = 0) (bs : List Byte) :
    xorMask m (xorFrom m a bs) = bs := by
  unfold xorMask
  rw [xorFrom_aligned m a h, xorFrom_involutive]

theorem beDec_foldl (acc : Nat) (bs : List Byte) :
    bs.foldl (fun acc b => acc * 256 + b.toNat) acc = acc * 256 ^ bs.length + beDec bs := by
  induction bs generalizing acc with
  | nil => simp [beDec]
  | cons b bs ih =>
    simp only [List.foldl_cons, List.length_cons, beDec]
    rw [ih, ih (0 * 256 + b.toNat)]
    simp only [Nat.pow_succ]
    grind

theorem beDec_cons (b : Byte) (bs : List Byte) :
    beDec (b :: bs) = b.toNat * 256 ^ bs.length + beDec bs := by
  simp only [beDec, List.foldl_cons]
  rw [beDec_foldl]; simp [beDec]

theorem beEnc_length (k n : Nat) : (beEnc k n).length = k := by
  induction k with
  | zero => rfl
  | succ k ih => simp [beEnc, ih]

theorem beDec_beEnc (k n : Nat) : beDec (beEnc k n) = n % 256 ^ k := by
  induction k with
  | zero => simp [beEnc, beDec, Nat.mod_one]
  | succ k ih =>
    simp only [beEnc]
    rw [beDec_cons, ih, beEnc_length, Nat.mod_pow_succ]
    simp
    grind

theorem beDec_beEnc_lt (k n : Nat) (h : n < 256 ^ k) : beDec (beEnc k n) = n := by
  rw [beDec_beEnc, Nat.mod_eq_of_lt h]

/-- the length byte of a masked short frame -/
theorem lenbyte_short : ∀ n, n < 126 →
    ((UInt8.ofNat (128 + n)) &&& 0x7f).toNat = n ∧ (UInt8.ofNat (128 + n)) &&& 0x80 ≠ 0 ∧
    (UInt8.ofNat (128 + n)) &&& 0x7f ≠ 126 ∧ (UInt8.ofNat (128 + n)) &&& 0x7f ≠ 127 := by
  decide

end VncModel.Ws
