import VncModel.Ws.Bytes
/-
SHA-1 (FIPS 180-4), executable reference used by the driver to compute the accept key; the C
side (`hash_sha1`, libgcrypt back end) is compared with it and with known vectors on every run.
The handshake theorems treat the hash as a parameter.
-/
namespace VncModel.Ws.Sha1

def rotl (x : UInt32) (n : UInt32) : UInt32 := (x <<< n) ||| (x >>> (32 - n))

def be32 (a b c d : UInt8) : UInt32 :=
  (a.toUInt32 <<< 24) ||| (b.toUInt32 <<< 16) ||| (c.toUInt32 <<< 8) ||| d.toUInt32

def words : List UInt8 → List UInt32
  | a :: b :: c :: d :: rest => be32 a b c d :: words rest
  | _ => []

def u32Bytes (x : UInt32) : List UInt8 :=
  [(x >>> 24).toUInt8, (x >>> 16).toUInt8, (x >>> 8).toUInt8, x.toUInt8]

def pad (msg : List UInt8) : List UInt8 :=
  let l := msg.length
  let k := (119 - l % 64) % 64      -- zero bytes so that total ≡ 0 mod 64
  let bits := l * 8
  msg ++ [0x80] ++ List.replicate k 0 ++
    (List.range 8).map (fun i => UInt8.ofNat (bits / 256 ^ (7 - i)))

/-- message schedule: extend 16 words to 80 -/
def schedule (w : Array UInt32) : Array UInt32 := Id.run do
  let mut w := w
  for t in [16:80] do
    w := w.push (rotl (w[t-3]! ^^^ w[t-8]! ^^^ w[t-14]! ^^^ w[t-16]!) 1)
  return w

structure H where
  a : UInt32
  b : UInt32
  c : UInt32
  d : UInt32
  e : UInt32

def block (h : H) (blk : List UInt32) : H := Id.run do
  let w := schedule blk.toArray
  let mut a := h.a
  let mut b := h.b
  let mut c := h.c
  let mut d := h.d
  let mut e := h.e
  for t in [0:80] do
    let (f, k) :=
      if t < 20 then ((b &&& c) ||| ((~~~ b) &&& d), (0x5A827999 : UInt32))
      else if t < 40 then (b ^^^ c ^^^ d, (0x6ED9EBA1 : UInt32))
      else if t < 60 then ((b &&& c) ||| (b &&& d) ||| (c &&& d), (0x8F1BBCDC : UInt32))
      else (b ^^^ c ^^^ d, (0xCA62C1D6 : UInt32))
    let tmp := rotl a 5 + f + e + k + w[t]!
    e := d
    d := c
    c := rotl b 30
    b := a
    a := tmp
  return ⟨h.a + a, h.b + b, h.c + c, h.d + d, h.e + e⟩

def blocks : Nat → H → List UInt32 → H
  | 0, h, _ => h
  | n + 1, h, ws => blocks n (block h (ws.take 16)) (ws.drop 16)

def sha1 (msg : List UInt8) : List UInt8 :=
  let ws := words (pad msg)
  let h := blocks (ws.length / 16) ⟨0x67452301, 0xEFCDAB89, 0x98BADCFE, 0x10325476, 0xC3D2E1F0⟩ ws
  u32Bytes h.a ++ u32Bytes h.b ++ u32Bytes h.c ++ u32Bytes h.d ++ u32Bytes h.e

end VncModel.Ws.Sha1
