import VncModel.Ws.Codec
import VncModel.Ws.LemmasBytes
import VncModel.Ws.LemmasB64
import VncModel.Ws.Spec
/-! The server-side encoder (`webSocketsEncodeHybi`, chunking of `rfbWriteExact`) against an RFC 6455
parser. -/
namespace VncModel.Ws
open VncModel.Gen

theorem lenbyte_unmasked : ∀ n, n < 126 →
    ((UInt8.ofNat n) &&& 0x7f).toNat = n ∧ ((UInt8.ofNat n) &&& 0x80 != 0) = false := by
  decide

/-- header written by the encoder, read back by an RFC 6455 parser: FIN set, not masked, same opcode,
same length -- for every length except exactly 65536 (see `encHeader_65536`) -/
theorem parseHeader_encHeader (op : Byte) (hop : op = opText ∨ op = opBinary) (n : Nat) (hn : n < 2 ^ 64)
    (h65536 : n ≠ 65536) (rest : List Byte) :
    parseHeader (encHeader op n ++ rest) = some ⟨true, op, false, n, (encHeader op n).length⟩ := by
  have hb0 : ((0x80 ||| (op &&& 0x0f)) &&& 0x80 != (0 : Byte)) = true ∧
      (0x80 ||| (op &&& 0x0f)) &&& 0x0f = op := by
    rcases hop with rfl | rfl <;> decide
  unfold encHeader
  simp only [C09.encShortMax, C09.encExtMax]
  by_cases h1 : n ≤ 125
  · obtain ⟨h2, h3⟩ := lenbyte_unmasked n (by omega)
    simp only [h1, if_true, List.cons_append, List.nil_append, parseHeader, hb0, h2, h3]
    have : n < 126 := by omega
    simp [this]
  · by_cases h2 : n ≤ 65536
    · have e2 : beDec (beEnc 2 n) = n := beDec_beEnc_lt 2 n (by omega)
      simp only [h1, h2, if_false, if_true, List.cons_append, List.nil_append, parseHeader, hb0]
      simp only [beEnc, List.cons_append, List.nil_append] at e2 ⊢
      have hl7 : ((0x7e : Byte) &&& 0x7f).toNat = 126 := by decide
      have hm : ((0x7e : Byte) &&& 0x80 != 0) = false := by decide
      simp [hl7, hm]
      simpa using e2
    · have e2 : beDec (beEnc 8 n) = n := beDec_beEnc_lt 8 n (by omega)
      simp only [h1, h2, if_false, List.cons_append, List.nil_append, parseHeader, hb0]
      simp only [beEnc, List.cons_append, List.nil_append] at e2 ⊢
      have hl7 : ((0x7f : Byte) &&& 0x7f).toNat = 127 := by decide
      have hm : ((0x7f : Byte) &&& 0x80 != 0) = false := by decide
      simp [hl7, hm]
      simpa using e2

/-- the boundary the code gets wrong: a 65536-byte payload would be announced as 0 bytes
(`blen <= 65536` selects the 16-bit form, `(uint16_t)blen` wraps).  Not reachable through
`webSocketsEncodeHybi`, whose input is limited to UPDATE_BUF_SIZE (see `encodeHybi_lengths`). -/
theorem encHeader_65536 (rest : List Byte) :
    parseHeader (encHeader opBinary 65536 ++ rest) = some ⟨true, opBinary, false, 0, 4⟩ := by
  have h : encHeader opBinary 65536 = [0x82, 0x7e, 0, 0] := by decide
  rw [h]
  have h1 : ((0x7e : Byte) &&& 0x7f).toNat = 126 := by decide
  simp only [List.cons_append, List.nil_append, parseHeader, h1]
  simp
  decide

end VncModel.Ws
namespace VncModel.Ws
open VncModel.Gen

theorem encHeader_ne_nil (op : Byte) (n : Nat) : ∃ x xs, encHeader op n = x :: xs := by
  unfold encHeader
  simp only
  split
  · exact ⟨_, _, rfl⟩
  · split <;> exact ⟨_, _, rfl⟩

/-- one encoder frame in front of a parsable stream parses as that frame followed by the rest -/
theorem parseFrames_cons (op : Byte) (hop : op = opText ∨ op = opBinary) (payload rest : List Byte)
    (hn : payload.length < 2 ^ 64) (h65536 : payload.length ≠ 65536) (fuel : Nat)
    (frames : List (Byte × List Byte)) (hrest : parseFrames fuel rest = some frames) :
    parseFrames (fuel + 1) (encHeader op payload.length ++ (payload ++ rest)) =
      some ((op, payload) :: frames) := by
  obtain ⟨x, xs, hx⟩ := encHeader_ne_nil op payload.length
  have hph := parseHeader_encHeader op hop payload.length hn h65536 (payload ++ rest)
  have hbs : encHeader op payload.length ++ (payload ++ rest) = x :: (xs ++ (payload ++ rest)) := by
    rw [hx]; rfl
  rw [hbs] at hph ⊢
  simp only [parseFrames, hph]
  rw [← hbs]
  have hd : (encHeader op payload.length ++ (payload ++ rest)).drop (encHeader op payload.length).length
      = payload ++ rest := List.drop_left
  rw [hd]
  simp [hrest]

/-- `B64LEN(n)` is the length of the base64 text -/
theorem b64Len_eq (x : List Byte) : b64Len x.length = (ntop x).length := by
  rw [ntop_length]; unfold b64Len; omega

end VncModel.Ws
namespace VncModel.Ws
open VncModel.Gen

/-- payload bytes of the frame the encoder makes for `src` -/
def encPayload (base64 : Bool) (src : List Byte) : List Byte := if base64 then ntop src else src
def encOp (base64 : Bool) : Byte := if base64 then opText else opBinary

theorem encodeHybi_eq (base64 : Bool) (src : List Byte) (h0 : src ≠ [])
    (hle : src.length ≤ C09.updateBufSize) :
    encodeHybi base64 src =
      some (encHeader (encOp base64) (encPayload base64 src).length ++ encPayload base64 src) := by
  have hl0 : ¬ src.length = 0 := fun h => h0 (List.length_eq_zero_iff.mp h)
  have hgt : ¬ src.length > C09.updateBufSize := by omega
  unfold encodeHybi
  simp only [hl0, hgt, if_false]
  cases base64 with
  | false => simp [encOp, encPayload, opBinary]
  | true =>
    have hlen : (ntop src).length ≤ 43692 := by
      rw [ntop_length]; simp only [C09.updateBufSize] at hle; omega
    have hh : (encHeader 0x01 (b64Len src.length)).length ≤ 10 := by
      unfold encHeader; simp only
      split
      · simp
      · split <;> simp [beEnc_length]
    have hfit : (ntop src).length < C09.encodeBufSize - (encHeader 0x01 (b64Len src.length)).length := by
      simp only [C09.encodeBufSize]; omega
    rw [b64Len_eq] at hfit
    simp only [if_true, ntopN, encOp, encPayload, b64Len_eq, opText, hfit]

/-- every frame length the encoder can be asked for stays below the faulty 65536 boundary -/
theorem encodeHybi_lengths (base64 : Bool) (src : List Byte) (hle : src.length ≤ C09.updateBufSize) :
    (encPayload base64 src).length < 65536 := by
  simp only [C09.updateBufSize] at hle
  cases base64 with
  | false => simp [encPayload]; omega
  | true => simp only [encPayload, if_true, ntop_length]; omega

theorem encOp_cases (b : Bool) : encOp b = opText ∨ encOp b = opBinary := by
  cases b <;> simp [encOp]

theorem wsWriteFuel_valid (base64 : Bool) : ∀ (fuel : Nat) (buf : List Byte),
    buf.length / C09.updateBufSize + 1 ≤ fuel →
    ∃ w frames, wsWriteFuel base64 fuel buf = some w ∧ parseFrames fuel w = some frames ∧
      (∀ fr ∈ frames, fr.1 = encOp base64) ∧
      ∃ chunks : List (List Byte), chunks.flatten = buf ∧
        frames.map Prod.snd = chunks.map (encPayload base64) := by
  intro fuel
  induction fuel with
  | zero => intro buf h; exact absurd h (by simp)
  | succ fuel ih =>
    intro buf hf
    have hU : C09.updateBufSize = 32768 := rfl
    unfold wsWriteFuel
    by_cases hbig : buf.length > C09.updateBufSize
    · simp only [hbig, if_true]
      have htl : (buf.take C09.updateBufSize).length = C09.updateBufSize := by
        simp only [List.length_take]; omega
      have hne : buf.take C09.updateBufSize ≠ [] := by
        intro h; rw [h] at htl; simp [hU] at htl
      rw [encodeHybi_eq base64 _ hne (by omega)]
      simp only
      have hf' : (buf.drop C09.updateBufSize).length / C09.updateBufSize + 1 ≤ fuel := by
        have hf2 : buf.length / 32768 + 1 ≤ fuel + 1 := hf
        have hbig2 : buf.length > 32768 := hbig
        show (buf.drop 32768).length / 32768 + 1 ≤ fuel
        simp only [List.length_drop]
        omega
      obtain ⟨w', frames', h1, h2, h3, chunks', h4, h5⟩ := ih (buf.drop C09.updateBufSize) hf'
      rw [h1]
      simp only
      have hl := encodeHybi_lengths base64 (buf.take C09.updateBufSize) (by omega)
      refine ⟨_, (encOp base64, encPayload base64 (buf.take C09.updateBufSize)) :: frames', rfl, ?_, ?_,
        buf.take C09.updateBufSize :: chunks', ?_, ?_⟩
      · rw [List.append_assoc]
        exact parseFrames_cons (encOp base64) (encOp_cases base64) _ w' (by omega) (by omega) fuel frames' h2
      · intro fr hfr
        simp only [List.mem_cons] at hfr
        rcases hfr with rfl | hfr
        · rfl
        · exact h3 fr hfr
      · simp [h4]
      · simp [h5]
    · simp only [hbig, if_false]
      by_cases h0 : buf = []
      · subst h0
        refine ⟨[], [], by simp [encodeHybi], by simp [parseFrames], by simp, [], rfl, rfl⟩
      · rw [encodeHybi_eq base64 buf h0 (by omega)]
        have hl := encodeHybi_lengths base64 buf (by omega)
        refine ⟨_, [(encOp base64, encPayload base64 buf)], rfl, ?_, by simp, [buf], by simp, by simp⟩
        have := parseFrames_cons (encOp base64) (encOp_cases base64) (encPayload base64 buf) [] (by omega)
          (by omega) fuel [] (by cases fuel <;> simp [parseFrames])
        simpa using this

end VncModel.Ws
