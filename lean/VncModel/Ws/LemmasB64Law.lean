import VncModel.Ws.Base64
import VncModel.Ws.LemmasB64
import VncModel.Ws.Spec
/-! The round-trip law of the base64 model: `pton (ntop z) = z` (by induction over 3-byte groups;
the bit manipulations are discharged by kernel evaluation over the small finite domains they
depend on). -/
namespace VncModel.Ws

theorem forall_byte {p : Byte → Prop} (h : ∀ n : Fin 256, p (UInt8.ofNat n.val)) : ∀ b : Byte, p b := by
  intro b
  have := h ⟨b.toNat, b.toNat_lt⟩
  simpa using this

/-- facts about single alphabet characters -/
theorem b64Char_facts : ∀ n : Fin 64,
    isSpace (b64Char (UInt8.ofNat n.val)) = false ∧ b64Char (UInt8.ofNat n.val) ≠ pad64 ∧
    b64Val (b64Char (UInt8.ofNat n.val)) = some (UInt8.ofNat n.val) ∧
    (b64Char (UInt8.ofNat n.val) != 0) = true := by
  decide +kernel

theorem b64Char_ok (v : Byte) (hv : v.toNat < 64) :
    isSpace (b64Char v) = false ∧ b64Char v ≠ pad64 ∧ b64Val (b64Char v) = some v ∧ (b64Char v != 0) = true := by
  have := b64Char_facts ⟨v.toNat, hv⟩
  simpa using this

-- decomposition of bytes into the 6-bit groups
theorem F_a : ∀ a : Byte, (a >>> 2).toNat < 64 ∧ (a &&& 0x03).toNat < 4 ∧
    ((a >>> 2) <<< 2) ||| (a &&& 0x03) = a := by
  apply forall_byte; decide +kernel
theorem F_b : ∀ b : Byte, (b >>> 4).toNat < 16 ∧ (b &&& 0x0f).toNat < 16 ∧
    ((b >>> 4) <<< 4) ||| (b &&& 0x0f) = b := by
  apply forall_byte; decide +kernel
theorem F_c : ∀ c : Byte, (c >>> 6).toNat < 4 ∧ (c &&& 0x3f).toNat < 64 ∧
    ((c >>> 6) <<< 6) ||| (c &&& 0x3f) = c := by
  apply forall_byte; decide +kernel

theorem F_v1 : ∀ (al : Fin 4) (bh : Fin 16),
    let v := ((UInt8.ofNat al.val) <<< 4) + (UInt8.ofNat bh.val)
    v.toNat < 64 ∧ v >>> 4 = UInt8.ofNat al.val ∧ (v &&& 0x0f) = UInt8.ofNat bh.val := by
  decide +kernel
theorem F_v2 : ∀ (bl : Fin 16) (ch : Fin 4),
    let v := ((UInt8.ofNat bl.val) <<< 2) + (UInt8.ofNat ch.val)
    v.toNat < 64 ∧ v >>> 2 = UInt8.ofNat bl.val ∧ (v &&& 0x03) = UInt8.ofNat ch.val := by
  decide +kernel

end VncModel.Ws
namespace VncModel.Ws

theorem ptonGo_char0 (ts : Nat) (v : Byte) (hv : v.toNat < 64) (tl : List Byte)
    (out : List Byte) (cur : Byte) (hlt : out.length < ts) :
    ptonGo ts (b64Char v :: tl) 0 out cur = ptonGo ts tl 1 out (v <<< 2) := by
  obtain ⟨h1, h2, h3, _⟩ := b64Char_ok v hv
  have hge : ¬ out.length ≥ ts := by omega
  rw [ptonGo]
  simp only [h1, Bool.false_eq_true, if_false, h2, h3, hge]

theorem ptonGo_char1 (ts : Nat) (v : Byte) (hv : v.toNat < 64) (tl : List Byte)
    (out : List Byte) (cur : Byte) (hlt : out.length < ts)
    (hc : out.length + 1 < ts ∨ (v &&& 0x0f) <<< 4 = 0) :
    ptonGo ts (b64Char v :: tl) 1 out cur =
      ptonGo ts tl 2 ((cur ||| (v >>> 4)) :: out) ((v &&& 0x0f) <<< 4) := by
  obtain ⟨h1, h2, h3, _⟩ := b64Char_ok v hv
  have hge : ¬ out.length ≥ ts := by omega
  rw [ptonGo]
  simp only [h1, Bool.false_eq_true, if_false, h2, h3, hge, hc, if_true]

theorem ptonGo_char2 (ts : Nat) (v : Byte) (hv : v.toNat < 64) (tl : List Byte)
    (out : List Byte) (cur : Byte) (hlt : out.length < ts)
    (hc : out.length + 1 < ts ∨ (v &&& 0x03) <<< 6 = 0) :
    ptonGo ts (b64Char v :: tl) 2 out cur =
      ptonGo ts tl 3 ((cur ||| (v >>> 2)) :: out) ((v &&& 0x03) <<< 6) := by
  obtain ⟨h1, h2, h3, _⟩ := b64Char_ok v hv
  have hge : ¬ out.length ≥ ts := by omega
  rw [ptonGo]
  simp only [h1, Bool.false_eq_true, if_false, h2, h3, hge, hc, if_true]

theorem ptonGo_char3 (ts : Nat) (v : Byte) (hv : v.toNat < 64) (tl : List Byte)
    (out : List Byte) (cur : Byte) (hlt : out.length < ts) :
    ptonGo ts (b64Char v :: tl) 3 out cur = ptonGo ts tl 0 ((cur ||| v) :: out) 0 := by
  obtain ⟨h1, h2, h3, _⟩ := b64Char_ok v hv
  have hge : ¬ out.length ≥ ts := by omega
  rw [ptonGo]
  simp only [h1, Bool.false_eq_true, if_false, h2, h3, hge]

theorem ofNat_toNat_eq (x : Byte) : UInt8.ofNat x.toNat = x := by simp

/-- one full 3-byte group -/
theorem ptonGo_group (ts : Nat) (a b c : Byte) (tl out : List Byte) (cur : Byte)
    (h : out.length + 3 ≤ ts) :
    ptonGo ts (b64Char (a >>> 2) :: b64Char (((a &&& 0x03) <<< 4) + (b >>> 4)) ::
      b64Char (((b &&& 0x0f) <<< 2) + (c >>> 6)) :: b64Char (c &&& 0x3f) :: tl) 0 out cur =
    ptonGo ts tl 0 (c :: b :: a :: out) 0 := by
  obtain ⟨ha1, ha2, ha3⟩ := F_a a
  obtain ⟨hb1, hb2, hb3⟩ := F_b b
  obtain ⟨hc1, hc2, hc3⟩ := F_c c
  have hv1 := F_v1 ⟨(a &&& 0x03).toNat, ha2⟩ ⟨(b >>> 4).toNat, hb1⟩
  have hv2 := F_v2 ⟨(b &&& 0x0f).toNat, hb2⟩ ⟨(c >>> 6).toNat, hc1⟩
  simp only [ofNat_toNat_eq] at hv1 hv2
  obtain ⟨v1lt, v1hi, v1lo⟩ := hv1
  obtain ⟨v2lt, v2hi, v2lo⟩ := hv2
  rw [ptonGo_char0 ts _ ha1 _ out cur (by omega)]
  rw [ptonGo_char1 ts _ v1lt _ out _ (by omega) (Or.inl (by omega))]
  rw [v1hi, v1lo, ha3]
  rw [ptonGo_char2 ts _ v2lt _ (a :: out) _ (by simp; omega) (Or.inl (by simp; omega))]
  rw [v2hi, v2lo, hb3]
  rw [ptonGo_char3 ts _ hc2 _ (b :: a :: out) _ (by simp; omega)]
  rw [hc3]

end VncModel.Ws
namespace VncModel.Ws

theorem F_t1 : ∀ (al : Fin 4),
    let v := (UInt8.ofNat al.val) <<< 4
    v.toNat < 64 ∧ v >>> 4 = UInt8.ofNat al.val ∧ (v &&& 0x0f) <<< 4 = 0 := by
  decide +kernel
theorem F_t2 : ∀ (bl : Fin 16),
    let v := (UInt8.ofNat bl.val) <<< 2
    v.toNat < 64 ∧ v >>> 2 = UInt8.ofNat bl.val ∧ (v &&& 0x03) <<< 6 = 0 := by
  decide +kernel

theorem ptonGo_tail1 (ts : Nat) (a : Byte) (out : List Byte) (h : out.length + 1 ≤ ts) :
    ptonGo ts [b64Char (a >>> 2), b64Char ((a &&& 0x03) <<< 4), pad64, pad64] 0 out 0 =
      some (out.reverse ++ [a]) := by
  obtain ⟨ha1, ha2, ha3⟩ := F_a a
  have ht := F_t1 ⟨(a &&& 0x03).toNat, ha2⟩
  simp only [ofNat_toNat_eq] at ht
  obtain ⟨vlt, vhi, vlo⟩ := ht
  rw [ptonGo_char0 ts _ ha1 _ out 0 (by omega)]
  rw [ptonGo_char1 ts _ vlt _ out _ (by omega) (Or.inr vlo)]
  rw [vhi, vlo, ha3]
  rw [ptonGo]
  have e1 : isSpace pad64 = false := by decide
  simp only [e1, Bool.false_eq_true, if_false, if_true, ptonPad]
  have e2 : List.dropWhile isSpace [pad64] = [pad64] := by decide
  simp [e2, ptonAfterPad]

theorem ptonGo_tail2 (ts : Nat) (a b : Byte) (out : List Byte) (h : out.length + 2 ≤ ts) :
    ptonGo ts [b64Char (a >>> 2), b64Char (((a &&& 0x03) <<< 4) + (b >>> 4)),
      b64Char ((b &&& 0x0f) <<< 2), pad64] 0 out 0 = some (out.reverse ++ [a, b]) := by
  obtain ⟨ha1, ha2, ha3⟩ := F_a a
  obtain ⟨hb1, hb2, hb3⟩ := F_b b
  have hv1 := F_v1 ⟨(a &&& 0x03).toNat, ha2⟩ ⟨(b >>> 4).toNat, hb1⟩
  have ht := F_t2 ⟨(b &&& 0x0f).toNat, hb2⟩
  simp only [ofNat_toNat_eq] at hv1 ht
  obtain ⟨v1lt, v1hi, v1lo⟩ := hv1
  obtain ⟨vlt, vhi, vlo⟩ := ht
  rw [ptonGo_char0 ts _ ha1 _ out 0 (by omega)]
  rw [ptonGo_char1 ts _ v1lt _ out _ (by omega) (Or.inl (by omega))]
  rw [v1hi, v1lo, ha3]
  rw [ptonGo_char2 ts _ vlt _ (a :: out) _ (by simp; omega) (Or.inr vlo)]
  rw [vhi, vlo, hb3]
  rw [ptonGo]
  have e1 : isSpace pad64 = false := by decide
  simp [e1, ptonPad, ptonAfterPad]

theorem ptonGo_ntop (ts : Nat) (z : List Byte) : ∀ out : List Byte, out.length + z.length < ts →
    ptonGo ts (ntop z) 0 out 0 = some (out.reverse ++ z) := by
  fun_induction ntop z with
  | case1 a b c rest ih =>
    intro out h
    simp only [List.length_cons] at h
    rw [ptonGo_group ts a b c _ out 0 (by omega), ih (c :: b :: a :: out) (by simp; omega)]
    simp
  | case2 a b =>
    intro out h
    simp only [List.length_cons, List.length_nil] at h
    exact ptonGo_tail2 ts a b out (by omega)
  | case3 a =>
    intro out h
    simp only [List.length_cons, List.length_nil] at h
    exact ptonGo_tail1 ts a out (by omega)
  | case4 =>
    intro out h
    simp [ptonGo]

theorem ntop_nonzero (z : List Byte) : ∀ c ∈ ntop z, (c != 0) = true := by
  fun_induction ntop z with
  | case1 a b c rest ih =>
    obtain ⟨ha1, ha2, _⟩ := F_a a
    obtain ⟨hb1, hb2, _⟩ := F_b b
    obtain ⟨hc1, hc2, _⟩ := F_c c
    have hv1 := F_v1 ⟨(a &&& 0x03).toNat, ha2⟩ ⟨(b >>> 4).toNat, hb1⟩
    have hv2 := F_v2 ⟨(b &&& 0x0f).toNat, hb2⟩ ⟨(c >>> 6).toNat, hc1⟩
    simp only [ofNat_toNat_eq] at hv1 hv2
    intro x hx
    simp only [List.mem_cons] at hx
    rcases hx with rfl | rfl | rfl | rfl | hx
    · exact (b64Char_ok _ ha1).2.2.2
    · exact (b64Char_ok _ hv1.1).2.2.2
    · exact (b64Char_ok _ hv2.1).2.2.2
    · exact (b64Char_ok _ hc2).2.2.2
    · exact ih x hx
  | case2 a b =>
    obtain ⟨ha1, ha2, _⟩ := F_a a
    obtain ⟨hb1, hb2, _⟩ := F_b b
    have hv1 := F_v1 ⟨(a &&& 0x03).toNat, ha2⟩ ⟨(b >>> 4).toNat, hb1⟩
    have ht := F_t2 ⟨(b &&& 0x0f).toNat, hb2⟩
    simp only [ofNat_toNat_eq] at hv1 ht
    intro x hx
    simp only [List.mem_cons, List.not_mem_nil, or_false] at hx
    rcases hx with rfl | rfl | rfl | rfl
    · exact (b64Char_ok _ ha1).2.2.2
    · exact (b64Char_ok _ hv1.1).2.2.2
    · exact (b64Char_ok _ ht.1).2.2.2
    · decide
  | case3 a =>
    obtain ⟨ha1, ha2, _⟩ := F_a a
    have ht := F_t1 ⟨(a &&& 0x03).toNat, ha2⟩
    simp only [ofNat_toNat_eq] at ht
    intro x hx
    simp only [List.mem_cons, List.not_mem_nil, or_false] at hx
    rcases hx with rfl | rfl | rfl | rfl
    · exact (b64Char_ok _ ha1).2.2.2
    · exact (b64Char_ok _ ht.1).2.2.2
    · decide
    · decide
  | case4 => intro x hx; cases hx

theorem takeWhile_all {α : Type} (p : α → Bool) (l : List α) (h : ∀ x ∈ l, p x = true) :
    l.takeWhile p = l := by
  induction l with
  | nil => rfl
  | cons x xs ih =>
    simp only [List.takeWhile_cons, h x (by simp), if_true]
    rw [ih (fun y hy => h y (by simp [hy]))]

/-- **the law of base64.c, proved for the model**: decoding an encoding gives the original back
whenever the target buffer is larger than the data -/
theorem pton_ntop (z : List Byte) (ts : Nat) (h : z.length < ts) : pton (ntop z) ts = some z := by
  unfold pton
  have : (ntop z).takeWhile (· != 0) = ntop z := by
    exact takeWhile_all _ _ (ntop_nonzero z)
  rw [this, ptonGo_ntop ts z [] (by simpa using h)]
  simp

end VncModel.Ws

namespace VncModel.Ws

/-- the hypothesis the decoder lemmas are stated under holds -/
theorem b64Law : B64RoundTrip := fun z ts h => pton_ntop z ts h

end VncModel.Ws
