/-
Byte-level helpers of the WebSocket model: masking, big-endian length fields.
Core Lean only.
-/
namespace VncModel.Ws

abbrev Byte := UInt8

/-- the four masking-key bytes (`ws_mask_t.c[0..3]`, in wire order) -/
structure Mask where
  b0 : Byte
  b1 : Byte
  b2 : Byte
  b3 : Byte
  deriving DecidableEq, Repr, Inhabited

def Mask.zero : Mask := ⟨0, 0, 0, 0⟩

/-- `mask.c[i % 4]` -/
def Mask.get (m : Mask) (i : Nat) : Byte :=
  match i % 4 with
  | 0 => m.b0
  | 1 => m.b1
  | 2 => m.b2
  | _ => m.b3

def Mask.toList (m : Mask) : List Byte := [m.b0, m.b1, m.b2, m.b3]

/-- XOR `bs` with the mask, the first byte of `bs` being at payload offset `i` -/
def xorFrom (m : Mask) : Nat → List Byte → List Byte
  | _, [] => []
  | i, b :: bs => (b ^^^ m.get i) :: xorFrom m (i + 1) bs

/-- XOR with the mask starting at mask byte 0.  This is what `hybiReadAndDecode` applies to the
bytes starting at `data`: 32-bit words `tmp ^= mask.u` (byte order independent: both sides are
`memcpy`d) and then `data[i] ^= mask.c[i % 4]` for the tail. -/
def xorMask (m : Mask) (bs : List Byte) : List Byte := xorFrom m 0 bs

/-- big-endian encoding of `n` in `k` bytes (`WS_HTON16` / `WS_HTON64` + store) -/
def beEnc : Nat → Nat → List Byte
  | 0, _ => []
  | k + 1, n => UInt8.ofNat (n / 256 ^ k) :: beEnc k n

/-- big-endian value of a byte string (`WS_NTOH16` / `WS_NTOH64` of the loaded field) -/
def beDec (bs : List Byte) : Nat := bs.foldl (fun acc b => acc * 256 + b.toNat) 0

end VncModel.Ws
