import VncModel.Ws.Handshake
/-! The handshake scanner: buffer bounds, shape of a successful handshake, well-formed requests. -/
namespace VncModel.Ws
open VncModel.Gen

/-- `processLine` keeps the length and writes at most one byte, below `len` -/
theorem applyLine_props (s : Scan) (k : LineKind) :
    (applyLine s k).len = s.len ∧ (applyLine s k).linestart = s.linestart ∧
    (∀ i ∈ (applyLine s k).writes, i ∈ s.writes ∨ i ≤ s.len) := by
  cases k <;>
    (refine ⟨by simp [applyLine, Scan.patch, Scan.setPtr, Scan.len], by simp [applyLine, Scan.patch, Scan.setPtr], ?_⟩
     intro i hi
     simp only [applyLine, Scan.patch, Scan.setPtr, List.mem_cons] at hi
     first
       | exact Or.inl hi
       | (rcases hi with h | h
          · right; rw [h]; simp [Scan.len]
          · exact Or.inl h))

theorem scanLoop_bounds (req : List Byte) : ∀ s : Scan, s.len ≤ HSMAX - 1 → (∀ i ∈ s.writes, i < HSMAX) →
    (scanLoop req s).1.len < HSMAX ∧ ∀ i ∈ (scanLoop req s).1.writes, i < HSMAX := by
  have hM : HSMAX = 4096 := rfl
  induction req with
  | nil => intro s h1 h2; simp only [scanLoop]; exact ⟨by omega, h2⟩
  | cons b rest ih =>
    intro s h1 h2
    unfold scanLoop
    by_cases hfull : s.len ≥ HSMAX - 1
    · simp only [hfull, if_true]; exact ⟨by omega, h2⟩
    · simp only [hfull, if_false]
      have hpl : (s.push b).len = s.len + 1 := by simp [Scan.push, Scan.len]
      have hpw : ∀ i ∈ (s.push b).writes, i < HSMAX := by
        intro i hi
        simp only [Scan.push, List.mem_cons] at hi
        rcases hi with h | h | h
        · omega
        · omega
        · exact h2 i h
      split
      · split
        · split
          · rename_i hk
            split
            · refine ⟨?_, ?_⟩
              · simp only [Scan.len, List.length_append, List.length_take] at hk ⊢
                simp only [Scan.len] at hpl; omega
              · intro i hi
                simp only [List.mem_append, List.mem_map, List.mem_range] at hi
                rcases hi with ⟨a, ha, rfl⟩ | hi
                · omega
                · exact hpw i hi
            · refine ⟨by simp only [Scan.len] at *; omega, ?_⟩
              intro i hi
              simp only [List.mem_append, List.mem_map, List.mem_range] at hi
              rcases hi with ⟨a, ha, rfl⟩ | hi
              · omega
              · exact hpw i hi
          · exact ⟨by simp only [Scan.len] at *; omega, hpw⟩
        · obtain ⟨p1, p2, p3⟩ := applyLine_props (s.push b) (lineKind (s.push b).line)
          apply ih
          · simp only [processLine, Scan.len] at *; omega
          · intro i hi
            simp only [processLine] at hi
            rcases p3 i hi with h | h
            · exact hpw i h
            · omega
      · exact ih _ (by omega) hpw

end VncModel.Ws

namespace VncModel.Ws
open VncModel.Gen

theorem hasInfix_sound (needle : List Byte) : ∀ hay : List Byte, hasInfix needle hay = true →
    ∃ a b, hay = a ++ needle ++ b := by
  intro hay
  induction hay with
  | nil =>
    intro h
    simp only [hasInfix, List.isEmpty_iff] at h
    exact ⟨[], [], by simp [h]⟩
  | cons x xs ih =>
    intro h
    simp only [hasInfix, Bool.or_eq_true] at h
    rcases h with h | h
    · obtain ⟨t, ht⟩ := List.isPrefixOf_iff_prefix.mp h
      exact ⟨[], t, by simp [ht]⟩
    · obtain ⟨a, b, hab⟩ := ih h
      exact ⟨x :: a, b, by simp [hab]⟩

/-- the sub-protocol of the response is "base64", "binary" or none; a named protocol is one of the
tokens of the client's `Sec-WebSocket-Protocol` value; base64 framing is used exactly when "base64"
is answered -/
theorem chooseProtocol_spec (offered : Option (List Byte)) :
    ((chooseProtocol offered).2 = [] ∧ (chooseProtocol offered).1 = false) ∨
    (∃ p, offered = some p ∧ (chooseProtocol offered).2 ∈ offerTokens p ∧
      (((chooseProtocol offered).2 = bBase64 ∧ (chooseProtocol offered).1 = true) ∨
       ((chooseProtocol offered).2 = bBinary ∧ (chooseProtocol offered).1 = false))) := by
  cases offered with
  | none => left; simp [chooseProtocol]
  | some p =>
    by_cases h1 : bBase64 ∈ offerTokens p
    · right
      refine ⟨p, rfl, ?_, ?_⟩ <;> simp [chooseProtocol, h1]
    · by_cases h2 : bBinary ∈ offerTokens p
      · right
        refine ⟨p, rfl, ?_, ?_⟩ <;> simp [chooseProtocol, h1, h2]
      · left; simp [chooseProtocol, h1, h2]

/-- the preference order: "base64" whenever it is offered, else "binary" whenever it is offered -/
theorem chooseProtocol_complete (p : List Byte) :
    (bBase64 ∈ offerTokens p → chooseProtocol (some p) = (true, bBase64)) ∧
    (bBase64 ∉ offerTokens p → bBinary ∈ offerTokens p → chooseProtocol (some p) = (false, bBinary)) ∧
    (bBase64 ∉ offerTokens p → bBinary ∉ offerTokens p → chooseProtocol (some p) = (false, [])) := by
  refine ⟨fun h => ?_, fun h1 h2 => ?_, fun h1 h2 => ?_⟩
  · simp [chooseProtocol, h]
  · simp [chooseProtocol, h1, h2]
  · simp [chooseProtocol, h1, h2]

/-- shape of every successful handshake: the request starts with "GET ", the scanner found a
non-zero version, a key, a path, a host and an origin; the answer is the code's template filled with
`base64(sha1(key ++ GUID))` for the key string the scanner points at and the chosen sub-protocol -/
theorem handshake_ok_shape (sha1 : List Byte → List Byte) (req : List Byte) (ending : HsEnd)
    (resp path unread : List Byte) (b64 : Bool) (h : handshake sha1 req ending = .ok resp b64 path unread) :
    pGet.isPrefixOf req = true ∧
    (scanLoop req {}).1.version = true ∧ ((scanLoop req {}).1.ptr .path).isSome ∧ ((scanLoop req {}).1.ptr .host).isSome ∧
    (((scanLoop req {}).1.ptr .origin).isSome ∨ ((scanLoop req {}).1.ptr .secOrigin).isSome) ∧
    ∃ k, (scanLoop req {}).1.ptr .key = some k ∧
      b64 = (chooseProtocol (((scanLoop req {}).1.ptr .protocol).map (scanLoop req {}).1.strAt)).1 ∧
      resp = (if (chooseProtocol (((scanLoop req {}).1.ptr .protocol).map (scanLoop req {}).1.strAt)).2.length > 0 then
                fmt2 C09.handshakeFmt (ntop (sha1 ((scanLoop req {}).1.strAt k ++ strBytes C09.guid)))
                  (chooseProtocol (((scanLoop req {}).1.ptr .protocol).map (scanLoop req {}).1.strAt)).2
              else fmt2 C09.handshakeFmtNoProto (ntop (sha1 ((scanLoop req {}).1.strAt k ++ strBytes C09.guid))) []) := by
  unfold handshake at h
  by_cases hg : pGet.isPrefixOf req = true
  · simp only [hg, Bool.not_true, Bool.false_eq_true, if_false] at h
    generalize scanLoop req {} = r at h ⊢
    obtain ⟨s, un, le⟩ := r
    simp only at h ⊢
    split at h
    · cases h
    · unfold finishHandshake at h
      by_cases hv : s.version = true
      · simp only [hv, Bool.not_true, Bool.false_eq_true, if_false] at h
        cases hk : s.ptr .key with
        | none => simp [hk] at h
        | some k =>
          simp only [hk] at h
          split at h
          · cases h
          · rename_i hnot
            simp only [HsResult.ok.injEq, acceptKey] at h
            obtain ⟨h1, h2, _, _⟩ := h
            have hp : (s.ptr .path).isSome := by
              cases hpp : s.ptr .path <;> simp_all
            have hh : (s.ptr .host).isSome := by
              cases hpp : s.ptr .host <;> simp_all
            have ho : (s.ptr .origin).isSome ∨ (s.ptr .secOrigin).isSome := by
              cases h1o : s.ptr .origin <;> cases h2o : s.ptr .secOrigin <;> simp_all
            exact ⟨hg, hv, hp, hh, ho, k, rfl, h2.symm, h1.symm⟩
      · simp [hv] at h
  · simp [hg] at h

theorem splitComma_ne_nil (p : List Byte) : splitComma p ≠ [] := by
  cases p with
  | nil => simp [splitComma]
  | cons c r =>
    simp only [splitComma]
    split
    · simp
    · split <;> simp

theorem splitComma_cons (c : Byte) (r : List Byte) (hc : c ≠ 44) :
    ∃ h t, splitComma r = h :: t ∧ splitComma (c :: r) = (c :: h) :: t := by
  cases hs : splitComma r with
  | nil => exact absurd hs (splitComma_ne_nil r)
  | cons h t => exact ⟨h, t, rfl, by simp [splitComma, hc, hs]⟩

theorem prefix_in_first_segment : ∀ (n l : List Byte), (∀ c ∈ n, c ≠ 44) → n.isPrefixOf l = true →
    ∃ h t, splitComma l = h :: t ∧ n.isPrefixOf h = true := by
  intro n
  induction n with
  | nil =>
    intro l _ _
    cases hs : splitComma l with
    | nil => exact absurd hs (splitComma_ne_nil l)
    | cons h t => exact ⟨h, t, rfl, by simp⟩
  | cons x n ih =>
    intro l hn hp
    cases l with
    | nil => simp [List.isPrefixOf] at hp
    | cons y l =>
      simp only [List.isPrefixOf, Bool.and_eq_true, beq_iff_eq] at hp
      obtain ⟨hxy, hp'⟩ := hp
      subst hxy
      have hx : x ≠ 44 := hn x (by simp)
      obtain ⟨h', t', hs', hpre⟩ := ih l (fun c hc => hn c (by simp [hc])) hp'
      obtain ⟨h, t, hs, hsc⟩ := splitComma_cons x l hx
      rw [hs'] at hs
      injection hs with e1 e2
      subst e1; subst e2
      exact ⟨x :: h', t', hsc, by simp [List.isPrefixOf, hpre]⟩

/-- a word without commas that occurs in the header value occurs inside one of its elements -/
theorem infix_in_segment (n : List Byte) (hn : ∀ c ∈ n, c ≠ 44) (hne : n ≠ []) :
    ∀ p : List Byte, hasInfix n p = true → ∃ s ∈ splitComma p, hasInfix n s = true := by
  intro p
  induction p with
  | nil =>
    intro h
    simp only [hasInfix, List.isEmpty_iff] at h
    exact absurd h hne
  | cons c r ih =>
    intro h
    simp only [hasInfix, Bool.or_eq_true] at h
    by_cases hc : c = 44
    · subst hc
      have hnp : n.isPrefixOf (44 :: r) = false := by
        cases n with
        | nil => exact absurd rfl hne
        | cons x n' =>
          have : x ≠ 44 := hn x (by simp)
          simp [List.isPrefixOf, this]
      rw [hnp] at h
      simp only [Bool.false_eq_true, false_or] at h
      obtain ⟨s, hs, hi⟩ := ih h
      exact ⟨s, by simp [splitComma, hs], hi⟩
    · obtain ⟨hd, tl, hs, hsc⟩ := splitComma_cons c r hc
      rcases h with h | h
      · obtain ⟨h', t', hs', hpre⟩ := prefix_in_first_segment n (c :: r) hn h
        rw [hsc] at hs'
        injection hs' with e1 e2
        subst e1
        exact ⟨c :: hd, by rw [hsc]; simp, by simp [hasInfix, hpre]⟩
      · obtain ⟨s, hs', hi⟩ := ih h
        rw [hs] at hs'
        simp only [List.mem_cons] at hs'
        rcases hs' with rfl | hs'
        · exact ⟨c :: s, by rw [hsc]; simp, by simp [hasInfix, hi]⟩
        · exact ⟨s, by rw [hsc]; simp [hs'], hi⟩

/-- the code as found (`strstr`): the selected sub-protocol is an offered token or absent only for
offers in which the words "base64" / "binary" occur as whole tokens; see
`Props.C09.defect_subprotocol_substring_match_unfixed` for the counterexample otherwise -/
theorem chooseProtocolUnfixed_token (p : List Byte)
    (hclean : ∀ s ∈ splitComma p, (hasInfix bBase64 s = true → stripBlanks s = bBase64) ∧
      (hasInfix bBinary s = true → stripBlanks s = bBinary)) :
    (chooseProtocolUnfixed (some p)).2 = [] ∨ (chooseProtocolUnfixed (some p)).2 ∈ offerTokens p := by
  simp only [chooseProtocolUnfixed]
  by_cases h1 : hasInfix bBase64 p = true
  · obtain ⟨s, hs, hi⟩ := infix_in_segment bBase64 (by decide) (by decide) p h1
    right
    simp only [h1, if_true, offerTokens, List.mem_map]
    exact ⟨s, hs, (hclean s hs).1 hi⟩
  · by_cases h2 : hasInfix bBinary p = true
    · obtain ⟨s, hs, hi⟩ := infix_in_segment bBinary (by decide) (by decide) p h2
      right
      simp only [h1, h2, if_true, offerTokens, List.mem_map]
      exact ⟨s, hs, (hclean s hs).2 hi⟩
    · left; simp [h1, h2]

end VncModel.Ws
