import VncModel.Ws.LemmasHeader
/-! One `webSocketsDecodeHybi` call preserves the invariant (`decode_step`); runs; completeness. -/
namespace VncModel.Ws

theorem Rem_out (hb : B64RoundTrip) (f : Frame) (co : Byte) (hok : f.ok co) :
    Rem (f.effOp co) f.payload (f.out co) := by
  unfold Rem Frame.out
  by_cases h1 : f.effOp co = opBinary
  · simp [h1]
  · by_cases h2 : f.effOp co = opText
    · simp only [h1, h2, if_false, if_true]
      have hne : opText ≠ opBinary := by decide
      simp only [hne, if_false]
      obtain ⟨_, hctl, hdat⟩ := hok
      have hnc : f.isControl = false := by
        by_cases hc : f.isControl = true
        · exfalso
          have : f.effOp co = f.opcode := by simp [Frame.effOp, hc]
          rw [this] at h2
          simp only [Frame.isControl] at hc
          rw [h2] at hc
          revert hc; decide
        · simpa using hc
      obtain ⟨_, h4⟩ := hdat hnc
      rcases h4 with h4 | ⟨_, x, hx⟩
      · exact absurd h4 h1
      · rw [hx]
        have hl : x.length < (ntop x).length + 1 := by rw [ntop_length]; omega
        simp [b64Inv, hb x _ hl]
    · simp [h1, h2]

end VncModel.Ws
namespace VncModel.Ws

theorem decode_step (hb : B64RoundTrip) (T : List Byte) (cE : Byte) (lv : Bool) (c : Ctx) (e : Env)
    (V : List Byte) (len : Nat)
    (hinv : Inv T cE lv c e.pending V) (hT : lv = true ∨ T = []) (hff : e.FaultFree) (hs : e.Safe)
    (hlen : 0 < len) :
    ∃ out V', (decode c e len).2.2 = (if out = [] then Res.again else Res.data out) ∧
      out.length ≤ len ∧ V = out ++ V' ∧
      (∃ lv', Inv T cE lv' (decode c e len).1 (decode c e len).2.1.pending V') ∧
      (decode c e len).2.1.FaultFree ∧ (decode c e len).2.1.Safe ∧
      (out ≠ [] ∨ (decode c e len).2.1.pending.length < e.pending.length ∨ e.Stuck) := by
  generalize hp : e.pending = p at hinv
  cases hinv with
  | done opc fin pl =>
    have hT0 : T = [] := by rcases hT with h | h; · cases h
                            · exact h
    subst hT0
    generalize cE = co at *
    have hBUF : (6 : Int) ≤ BUF := by simp [BUF, Gen.C09.decodeBufSize]
    obtain ⟨hff1, hs1, hc1⟩ := Env.read_cases e 0 6 (by omega) (by omega) hff hs
    have hrd : readHeader (ctxAtHeader [] opc fin pl co) e =
        ⟨ctxAtHeader [] opc fin pl co, (e.read 0 6).2, .headerPending, .again, []⟩ := by
      unfold readHeader
      have h1 : (ctxAtHeader [] opc fin pl co).nRead = 0 := rfl
      have h2 : hdrMissing (ctxAtHeader [] opc fin pl co) = 6 := by
        simp [hdrMissing, ctxAtHeader, hdrWant, Ctx.nRead]
      rw [h1, h2]
      rcases hc1 with ⟨ho, _⟩ | ⟨t, ht0, _, htl, _, _⟩
      · generalize e.read 0 6 = r at ho
        obtain ⟨o, e1⟩ := r
        simp only at ho; subst ho; rfl
      · rw [hp] at htl; simp at htl; omega
    have hpe : (e.read 0 6).2.pending = [] := by
      rcases hc1 with ⟨_, h, _⟩ | ⟨t, ht0, _, htl, _, _⟩
      · rw [h, hp]
      · rw [hp] at htl; simp at htl; omega
    refine ⟨[], [], ?_, by simp, by simp, ?_, ?_, ?_, Or.inr (Or.inr (Or.inr hp))⟩ <;>
      simp only [decode, show (ctxAtHeader [] opc fin pl co).st = St.headerPending from rfl, hrd]
    · simp
    · refine ⟨false, ?_⟩
      simp [spor, ctxAtHeader, hpe]; exact Inv.done opc fin pl
    · simpa using hff1
    · simpa using hs1
  | header f fs co co' j opc fin pl hv hE hj hco =>
    have hok := hv.1
    obtain ⟨e', hff', hs', hcs⟩ := readHeader_cases f fs co co' j opc fin pl e
      (xorMask f.mask f.payload ++ (wireOf fs ++ T)) hok hj hco hp hff hs
    have hst0 : (ctxAtHeader (f.header.take j) opc fin pl co').st = St.headerPending := rfl
    rcases hcs with ⟨j', opc', fin', pl', co'', hj', hco'', hrh, hpe, hprog⟩ | ⟨hrh, hpe⟩
    · -- header still incomplete
      refine ⟨[], expected co (f :: fs), ?_, by simp, by simp, ?_, ?_, ?_, ?_⟩ <;>
        simp only [decode, hst0, hrh]
      · simp
      · have : spor { ctxAtHeader (f.header.take j') opc' fin' pl' co'' with st := St.headerPending } =
            ctxAtHeader (f.header.take j') opc' fin' pl' co'' := by simp [spor, ctxAtHeader]
        simp only [reduceCtorEq, if_false, ne_eq, not_true_eq_false, this]
        rw [hpe]
        exact ⟨true, Inv.header f fs co co'' j' opc' fin' pl' hv hE hj' hco''⟩
      · simpa using hff'
      · simpa using hs'
      · simp only [reduceCtorEq, if_false, ne_eq, not_true_eq_false]
        rcases hprog with h | h
        · exact Or.inr (Or.inr h)
        · refine Or.inr (Or.inl ?_)
          rw [hpe]
          simp only [List.length_append, List.length_drop]
          omega
    · -- header complete: go on with the payload in the same call
      have hc1 : { ctxInFrame f co 0 [] [] (some f.header.length) St.headerPending with st := St.dataNeeded } =
          ctxInFrame f co 0 [] [] (some f.header.length) St.dataNeeded := rfl
      obtain ⟨d, hd, hdff, hds, out, V', h1, h2, h3, h4, h5, _⟩ :=
        readAndDecode_frame hb T cE f fs co 0 [] f.payload (f.out co) (some f.header.length) e' len hv hE
          (by omega) (by simp) (by simp) (fun _ => rfl) (by simpa using Rem_out hb f co hok) hlen
          (by rw [hpe]; simp [xorMask]) hff' hs'
      refine ⟨out, V', ?_, h2, by simpa [expected] using h3, ?_, ?_, ?_, ?_⟩ <;>
        simp only [decode, hst0, hrh, reduceCtorEq, if_false, ne_eq, not_false_eq_true, if_true, hc1, hd]
      · exact h1
      · exact h4
      · exact hdff
      · exact hds
      · refine Or.inr (Or.inl ?_)
        rw [hpe] at h5
        simp only [List.length_append, List.length_drop] at h5 ⊢
        omega
  | frame f fs co a cu rest rd Vf rp st hv hE ha hcu hP hce hrem hcase =>
    have hok := hv.1
    have hPlt : f.payload.length < 2 ^ 64 := hok.1
    rcases hcase with ⟨hrd, hst, hrne⟩ | ⟨hrd, hst, hrp⟩
    · -- more payload needed
      subst hrd; subst hst
      obtain ⟨d, hd, hdff, hds, out, V', h1, h2, h3, h4, _, h6⟩ :=
        readAndDecode_frame hb T cE f fs co a cu rest Vf rp e len hv hE (ha hrne) hcu hP hce hrem hlen hp hff hs
      have hst0 : (ctxInFrame f co a cu [] rp St.dataNeeded).st = St.dataNeeded := rfl
      refine ⟨out, V', ?_, h2, by simpa using h3, ?_, ?_, ?_, ?_⟩ <;>
        simp only [decode, hst0, hd]
      · exact h1
      · exact h4
      · exact hdff
      · exact hds
      · rcases h6 with h | h | h | h
        · exact Or.inl h
        · exact Or.inr (Or.inl (hp ▸ h))
        · exact Or.inr (Or.inr h)
        · exact absurd h hrne
    · -- decoded bytes are waiting in the buffer
      subst hst
      obtain ⟨rpv, rfl⟩ := Option.isSome_iff_exists.mp hrp
      have hst0 : (ctxF f co .dataAvailable (a + cu.length) (xorFrom f.mask a cu) (some (wpOf f co a)) (some rpv)
            rd.length rd).st = St.dataAvailable := rfl
      have hc0 : ctxInFrame f co a cu rd (some rpv) St.dataAvailable =
          ctxF f co .dataAvailable (a + cu.length) (xorFrom f.mask a cu) (some (wpOf f co a)) (some rpv)
            rd.length rd := rfl
      have hret := returnData_ctxF f co .dataAvailable (a + cu.length) (xorFrom f.mask a cu)
        (some (wpOf f co a)) rpv rd len hrd (by omega) hPlt
      rw [hc0]
      by_cases hl : len < rd.length
      · simp only [hl, if_true] at hret
        have htne : rd.take len ≠ [] := by
          intro h
          have := congrArg List.length h
          simp only [List.length_take, List.length_nil] at this
          omega
        have hdne : rd.drop len ≠ [] := by
          intro h
          have := congrArg List.length h
          simp only [List.length_drop, List.length_nil] at this
          omega
        have hdec : decode (ctxF f co .dataAvailable (a + cu.length) (xorFrom f.mask a cu)
            (some (wpOf f co a)) (some rpv) rd.length rd) e len =
            (ctxF f co .dataAvailable (a + cu.length) (xorFrom f.mask a cu) (some (wpOf f co a))
              (some (rpv + len)) (rd.drop len).length (rd.drop len), e, .data (rd.take len)) := by
          simp only [decode, hst0, hret, ctxF_set_st]
          rw [spor_ctxF_other _ _ _ (by decide) (by decide)]
        rw [hdec]
        refine ⟨rd.take len, rd.drop len ++ (Vf ++ expected (f.afterCo co) fs), by simp [htne], ?_, ?_, ?_, hff, hs,
          Or.inl htne⟩
        · simp only [List.length_take]; omega
        · rw [← List.append_assoc (rd.take len), List.take_append_drop]
        · simp only [hp]
          exact ⟨true, Inv.frame f fs co a cu rest (rd.drop len) Vf (some (rpv + len)) .dataAvailable hv hE ha hcu hP hce hrem
            (Or.inr ⟨hdne, rfl, rfl⟩)⟩
      · simp only [hl, if_false] at hret
        have hdec : decode (ctxF f co .dataAvailable (a + cu.length) (xorFrom f.mask a cu)
            (some (wpOf f co a)) (some rpv) rd.length rd) e len =
            (spor (ctxF f co (if a + cu.length = f.payload.length then St.frameComplete else St.dataNeeded)
              (a + cu.length) (xorFrom f.mask a cu) (some (wpOf f co a)) none 0 []), e, .data rd) := by
          simp only [decode, hst0, hret, ctxF_set_st]
        rw [hdec]
        refine ⟨rd, Vf ++ expected (f.afterCo co) fs, by simp [hrd], by omega, rfl, ?_, hff, hs, Or.inl hrd⟩
        simp only [hp]
        by_cases hc : rest = []
        · have hcu0 := hce hc
          have hnp : a + cu.length = f.payload.length := by rw [hP, hc]; simp
          simp only [hnp, if_true]
          rw [spor_ctxF_complete f co hok, hc, xorFrom_nil]
          have hVf : Vf = [] := by
            apply Rem_nil (f.effOp co); rw [hcu0, hc] at hrem; exact hrem
          rw [hVf]
          obtain ⟨lv', h'⟩ := Inv_start T cE (f.afterCo co) fs hv.2 (by simpa [endCo] using hE) opInvalid f.fin 0
          exact ⟨lv', by simpa using h'⟩
        · have hnp : ¬ (a + cu.length = f.payload.length) := by
            intro h
            have : rest.length = 0 := by omega
            exact hc (List.length_eq_zero_iff.mp this)
          simp only [hnp, if_false]
          rw [spor_ctxF_other _ _ _ (by decide) (by decide)]
          exact ⟨true, Inv.frame f fs co a cu rest [] Vf none .dataNeeded hv hE ha hcu hP hce hrem
            (Or.inl ⟨rfl, rfl, hc⟩)⟩

end VncModel.Ws

namespace VncModel.Ws

theorem Inv_init (fs : List Frame) (hv : ValidSeq opInvalid fs) :
    ∃ lv, Inv [] (endCo opInvalid fs) lv Ctx.init (wireOf fs) (expected opInvalid fs) := by
  obtain ⟨lv, h⟩ := Inv_start [] (endCo opInvalid fs) opInvalid fs hv rfl opInvalid 0 0
  simp only [List.append_nil] at h
  exact ⟨lv, h⟩

/-- nothing pending in the transport and nothing buffered ⇒ nothing is owed any more -/
theorem Inv_finished (cE : Byte) (lv : Bool) (c : Ctx) (p V : List Byte) (h : Inv [] cE lv c p V)
    (hp : [] = p) (hrl : c.readlen = 0) : V = [] := by
  cases h with
  | done => rfl
  | header f fs co co' j opc fin pl hv hE hj hco =>
    exfalso
    have := congrArg List.length hp
    simp only [List.length_nil, List.length_append, List.length_drop] at this
    omega
  | frame f fs co a cu rest rd Vf rp st hv hE ha hcu hP hce hrem hcase =>
    exfalso
    have hl := congrArg List.length hp
    simp only [List.length_nil, List.length_append, xorFrom_length] at hl
    have hr : rest = [] := List.length_eq_zero_iff.mp (by omega)
    rcases hcase with ⟨_, _, hne⟩ | ⟨hne, _, _⟩
    · exact hne hr
    · have : (rd.length : Int) = 0 := hrl
      exact hne (List.length_eq_zero_iff.mp (by omega))

theorem run_inv (hb : B64RoundTrip) (cE : Byte) (lens : List Nat) (hl : ∀ l ∈ lens, 0 < l) (lv : Bool)
    (c : Ctx) (e : Env)
    (V : List Byte) (hinv : Inv [] cE lv c e.pending V) (hff : e.FaultFree) (hs : e.Safe) :
    (∀ o ∈ (run c e lens).outs, o.fine = true) ∧
    ∃ V' lv', V = delivered (run c e lens).outs ++ V' ∧
      Inv [] cE lv' (run c e lens).c (run c e lens).e.pending V' ∧
      (run c e lens).e.FaultFree ∧ (run c e lens).e.Safe := by
  induction lens generalizing c e V lv with
  | nil => exact ⟨by simp [run], V, lv, by simp [run, delivered], hinv, hff, hs⟩
  | cons len ls ih =>
    obtain ⟨out, V1, h1, _, h3, ⟨lv1, h4⟩, h5, h6, _⟩ :=
      decode_step hb [] cE lv c e V len hinv (Or.inr rfl) hff hs (hl len (by simp))
    obtain ⟨ih1, V2, lv2, ih2, ih3, ih4, ih5⟩ :=
      ih (fun l hl' => hl l (by simp [hl'])) lv1 (decode c e len).1 (decode c e len).2.1 V1 h4 h5 h6
    have hbytes : (decode c e len).2.2.bytes = out := by
      rw [h1]; split <;> simp_all [Res.bytes]
    have hfine : (decode c e len).2.2.fine = true := by
      rw [h1]; split <;> rfl
    refine ⟨?_, V2, lv2, ?_, ?_, ?_, ?_⟩
    · intro o ho
      simp only [run, List.mem_cons] at ho
      rcases ho with rfl | ho
      · exact hfine
      · exact ih1 o ho
    · simp only [run, delivered, List.flatMap_cons, hbytes]
      rw [h3, ih2, List.append_assoc]; rfl
    · simpa [run] using ih3
    · simpa [run] using ih4
    · simpa [run] using ih5

end VncModel.Ws
