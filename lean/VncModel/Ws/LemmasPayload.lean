import VncModel.Ws.State
import VncModel.Ws.LemmasBytes
import VncModel.Ws.LemmasB64
import VncModel.Ws.LemmasEnv
/-! The payload phase: `release`, `decodeChunk`, `readAndDecode`, `returnData` on abstract states. -/
namespace VncModel.Ws

theorem ntop_eq_nil (x : List Byte) (h : ntop x = []) : x = [] := by
  have := congrArg List.length h
  rw [ntop_length] at this
  simp at this
  cases x with
  | nil => rfl
  | cons a t => simp at this; omega

theorem Rem_nil (op : Byte) (V : List Byte) (h : Rem op [] V) : V = [] := by
  unfold Rem at h
  split at h
  · exact h
  · split at h
    · exact ntop_eq_nil V h.symm
    · exact h

theorem release_rem (hb : B64RoundTrip) (c : Ctx) (R V : List Byte) (m bufsize : Nat)
    (hrem : Rem c.opcode R V) (hm4 : c.opcode = opText → m % 4 = 0) (hm : m ≤ R.length) (hbs : m ≤ bufsize + 3)
    (hbig : 10 ≤ bufsize) (hrl : c.readlen = 0) (hrd : c.rd = []) :
    ∃ out V', V = out ++ V' ∧ Rem c.opcode (R.drop m) V' ∧ out.length ≤ m ∧
      release c (R.take m) bufsize =
        { c with readlen := out.length, rd := out,
                 writePos := if isDataOp c.opcode then some c.headerLen else c.writePos } := by
  unfold Rem at hrem
  by_cases hbin : c.opcode = opBinary
  · simp only [hbin, if_true] at hrem
    refine ⟨R.take m, R.drop m, by rw [hrem, List.take_append_drop], ?_, by simp; omega, ?_⟩
    · simp [Rem, hbin]
    · have : opBinary ≠ opText := by decide
      simp [release, hbin, isDataOp, this]
  · by_cases htx : c.opcode = opText
    · simp only [hbin, htx, if_true, if_false] at hrem
      have hne : opText ≠ opBinary := by decide
      simp only [hne, if_false, if_true] at hrem
      have hm4' := hm4 htx
      obtain ⟨j, rfl⟩ : ∃ j, m = 4 * j := ⟨m / 4, by omega⟩
      rw [hrem] at hm
      obtain ⟨h1, h2⟩ := ntop_take_drop V j hm
      have hlen : (V.take (3 * j)).length < bufsize := by
        simp only [List.length_take]; omega
      refine ⟨V.take (3 * j), V.drop (3 * j), (List.take_append_drop _ V).symm, ?_, ?_, ?_⟩
      · simp [Rem, htx, hne, hrem, h2]
      · simp only [List.length_take]; omega
      · simp [release, htx, hrem, h1, hb _ _ hlen, isDataOp]
    · simp only [hbin, htx, if_false] at hrem
      refine ⟨[], [], by simp [hrem], ?_, by simp, ?_⟩
      · simp [Rem, hbin, htx]
      · have : isDataOp c.opcode = false := by
          simp [isDataOp, hbin, htx]
        simp only [release, hbin, htx, this, if_false]
        cases c; simp_all

end VncModel.Ws
