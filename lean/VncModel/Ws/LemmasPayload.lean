import VncModel.Ws.State
import VncModel.Ws.LemmasBytes
import VncModel.Ws.LemmasB64
import VncModel.Ws.LemmasEnv
/-! The payload phase: `release`, `decodeChunk`, `readAndDecode`, `returnData` on abstract states. -/
namespace VncModel.Ws

theorem ntop_eq_nil (x : List Byte) (h : ntop x = []) : x = [] := by
  have := congrArg List.length h
  rw [ntop_length] at this
  simp at this
  cases x with
  | nil => rfl
  | cons a t => simp at this; omega

theorem Rem_nil (op : Byte) (V : List Byte) (h : Rem op [] V) : V = [] := by
  unfold Rem at h
  split at h
  · exact h
  · split at h
    · exact ntop_eq_nil V h.symm
    · exact h

theorem release_rem (hb : B64RoundTrip) (c : Ctx) (R V : List Byte) (m bufsize : Nat)
    (hrem : Rem c.opcode R V) (hm4 : c.opcode = opText → m % 4 = 0) (hm : m ≤ R.length) (hbs : m ≤ bufsize + 3)
    (hbig : 10 ≤ bufsize) (hrl : c.readlen = 0) (hrd : c.rd = []) :
    ∃ out V', V = out ++ V' ∧ Rem c.opcode (R.drop m) V' ∧ out.length ≤ m ∧
      release c (R.take m) bufsize =
        { c with readlen := out.length, rd := out,
                 writePos := if isDataOp c.opcode then some c.headerLen else c.writePos } := by
  unfold Rem at hrem
  by_cases hbin : c.opcode = opBinary
  · simp only [hbin, if_true] at hrem
    refine ⟨R.take m, R.drop m, by rw [hrem, List.take_append_drop], ?_, by simp; omega, ?_⟩
    · simp [Rem, hbin]
    · have : opBinary ≠ opText := by decide
      simp [release, hbin, isDataOp, this]
  · by_cases htx : c.opcode = opText
    · simp only [hbin, htx, if_true, if_false] at hrem
      have hne : opText ≠ opBinary := by decide
      simp only [hne, if_false, if_true] at hrem
      have hm4' := hm4 htx
      obtain ⟨j, rfl⟩ : ∃ j, m = 4 * j := ⟨m / 4, by omega⟩
      rw [hrem] at hm
      obtain ⟨h1, h2⟩ := ntop_take_drop V j hm
      have hlen : (V.take (3 * j)).length < bufsize := by
        simp only [List.length_take]; omega
      refine ⟨V.take (3 * j), V.drop (3 * j), (List.take_append_drop _ V).symm, ?_, ?_, ?_⟩
      · simp [Rem, htx, hne, hrem, h2]
      · simp only [List.length_take]; omega
      · simp [release, htx, hrem, h1, hb _ _ hlen, isDataOp]
    · simp only [hbin, htx, if_false] at hrem
      refine ⟨[], [], by simp [hrem], ?_, by simp, ?_⟩
      · simp [Rem, hbin, htx]
      · have : isDataOp c.opcode = false := by
          simp [isDataOp, hbin, htx]
        simp only [release, hbin, htx, this, if_false]
        cases c; simp_all

end VncModel.Ws

namespace VncModel.Ws

theorem Inv_start (T : List Byte) (cE co : Byte) (fs : List Frame) (hv : ValidSeq co fs)
    (hE : endCo co fs = cE) (opc fin : Byte) (pl : Nat) :
    ∃ lv, Inv T cE lv (ctxAtHeader [] opc fin pl co) (wireOf fs ++ T) (expected co fs) := by
  cases fs with
  | nil =>
    simp only [endCo] at hE
    subst hE
    exact ⟨false, by simpa [wireOf, expected] using Inv.done (T := T) (cE := co) opc fin pl⟩
  | cons f fs =>
    have h := Inv.header (T := T) (cE := cE) f fs co co 0 opc fin pl hv hE (by simp [Frame.header]) (Or.inl rfl)
    exact ⟨true, by simpa [wireOf, Frame.wire, List.append_assoc] using h⟩

def wpOf (f : Frame) (co : Byte) (a : Nat) : Nat :=
  if isDataOp (f.effOp co) then f.header.length else f.header.length + a

/-- general frame-phase context -/
def ctxF (f : Frame) (co : Byte) (st : St) (np : Nat) (carry : List Byte) (wp rp : Option Nat)
    (rl : Int) (rd : List Byte) : Ctx :=
  { st := st, hdr := f.header, opcode := f.effOp co, fin := f.fin, payloadLen := f.payload.length,
    mask := f.mask, headerLen := f.header.length, nReadPayload := np, carry := carry,
    writePos := wp, readPos := rp, readlen := rl, rd := rd, contOp := f.nextCo co }

theorem ctxInFrame_eq (f : Frame) (co : Byte) (a : Nat) (cu rd : List Byte) (rp : Option Nat) (st : St) :
    ctxInFrame f co a cu rd rp st =
      ctxF f co st (a + cu.length) (xorFrom f.mask a cu) (some (wpOf f co a)) rp rd.length rd := rfl

theorem advance_ctxF (f : Frame) (co : Byte) (st : St) (np n : Nat) (carry : List Byte)
    (wp rp : Option Nat) (rl : Int) (rd : List Byte) (h1 : np + n ≤ f.payload.length)
    (h2 : f.payload.length < 2 ^ 64) :
    advance (ctxF f co st np carry wp rp rl rd) n =
      ctxF f co (if np + n = f.payload.length then .frameComplete else st) (np + n) carry wp rp rl rd := by
  have e1 : (np + n) % 2 ^ 64 = np + n := Nat.mod_eq_of_lt (by omega)
  have e2 : ((f.payload.length + 2 ^ 64 - (np + n)) % 2 ^ 64 = 0) ↔ np + n = f.payload.length := by
    constructor
    · intro h
      have : f.payload.length + 2 ^ 64 - (np + n) = 2 ^ 64 + (f.payload.length - (np + n)) := by omega
      rw [this, Nat.add_mod_left, Nat.mod_eq_of_lt (by omega)] at h
      omega
    · intro h; rw [h]; simp
  simp only [advance, ctxF, e1, e2]

theorem ctxF_remaining (f : Frame) (co : Byte) (st : St) (np : Nat) (carry : List Byte)
    (wp rp : Option Nat) (rl : Int) (rd : List Byte) (h1 : np ≤ f.payload.length)
    (h2 : f.payload.length < 2 ^ 64) :
    (ctxF f co st np carry wp rp rl rd).remaining = f.payload.length - np := by
  simp only [Ctx.remaining, ctxF]
  have : f.payload.length + 2 ^ 64 - np = 2 ^ 64 + (f.payload.length - np) := by omega
  rw [this, Nat.add_mod_left, Nat.mod_eq_of_lt (by omega)]

end VncModel.Ws
namespace VncModel.Ws

theorem returnData_nil (c : Ctx) (len : Nat) (h : c.readlen = 0) : returnData c len = (c, c.st, .again) := by
  simp [returnData, h]

theorem returnData_ctxF (f : Frame) (co : Byte) (st : St) (np : Nat) (carry : List Byte)
    (wp : Option Nat) (rp : Nat) (rd : List Byte) (len : Nat) (hrd : rd ≠ [])
    (h1 : np ≤ f.payload.length) (h2 : f.payload.length < 2 ^ 64) :
    returnData (ctxF f co st np carry wp (some rp) rd.length rd) len =
      if len < rd.length then
        (ctxF f co st np carry wp (some (rp + len)) (rd.drop len).length (rd.drop len), .dataAvailable,
          .data (rd.take len))
      else
        (ctxF f co st np carry wp none 0 [],
          if np = f.payload.length then .frameComplete else .dataNeeded, .data rd) := by
  have hpos : (0 : Int) < rd.length := by
    have := List.length_pos_iff.mpr hrd; omega
  have hrem := ctxF_remaining f co st np carry wp (some rp) rd.length rd h1 h2
  unfold returnData
  rw [hrem]
  simp only [ctxF] at *
  simp only [hpos, if_true]
  by_cases hl : len < rd.length
  · have : (rd.length : Int) > len := by omega
    simp only [this, hl, if_true, List.length_drop]
    congr 2
    omega
  · have : ¬ (rd.length : Int) > len := by omega
    simp only [this, hl, if_false]
    have e : (f.payload.length - np = 0) ↔ np = f.payload.length := by omega
    simp only [e]

end VncModel.Ws
namespace VncModel.Ws

theorem effOp_isControl (f : Frame) (co : Byte) (hok : f.ok co) :
    ((f.effOp co) &&& 0x08 != 0) = f.isControl := by
  obtain ⟨_, _, h3⟩ := hok
  by_cases hc : f.isControl = true
  · simp only [Frame.effOp, hc, if_true]; exact hc
  · have hc' : f.isControl = false := by simpa using hc
    obtain ⟨_, h4⟩ := h3 hc'
    rw [hc']
    rcases h4 with h4 | ⟨h4, _⟩ <;> rw [h4] <;> decide

theorem effOp_not_close (f : Frame) (co : Byte) (hok : f.ok co) : f.effOp co ≠ opClose := by
  obtain ⟨_, h2, h3⟩ := hok
  by_cases hc : f.isControl = true
  · simp only [Frame.effOp, hc, if_true]
    rcases (h2 hc).2.1 with h | h <;> rw [h] <;> decide
  · have hc' : f.isControl = false := by simpa using hc
    obtain ⟨_, h4⟩ := h3 hc'
    rcases h4 with h4 | ⟨h4, _⟩ <;> rw [h4] <;> decide

theorem ctxF_set_st (f : Frame) (co : Byte) (st st' : St) (np : Nat) (carry : List Byte)
    (wp rp : Option Nat) (rl : Int) (rd : List Byte) :
    { ctxF f co st np carry wp rp rl rd with st := st' } = ctxF f co st' np carry wp rp rl rd := rfl

theorem ctxF_set_rp (f : Frame) (co : Byte) (st : St) (np : Nat) (carry : List Byte)
    (wp rp rp' : Option Nat) (rl : Int) (rd : List Byte) :
    { ctxF f co st np carry wp rp rl rd with readPos := rp' } = ctxF f co st np carry wp rp' rl rd := rfl

theorem spor_ctxF_complete (f : Frame) (co : Byte) (hok : f.ok co) (np : Nat) (carry : List Byte)
    (wp rp : Option Nat) (rl : Int) (rd : List Byte) :
    spor (ctxF f co .frameComplete np carry wp rp rl rd) =
      ctxAtHeader [] opInvalid f.fin 0 (f.afterCo co) := by
  have hic := effOp_isControl f co hok
  simp only [spor, ctxF, Ctx.isControl, hic, if_true, cleanupComplete, cleanupBasics, ctxAtHeader,
    Frame.afterCo]
  split <;> rfl

theorem spor_ctxF_other (f : Frame) (co : Byte) (st : St) (h1 : st ≠ .frameComplete) (h2 : st ≠ .err)
    (np : Nat) (carry : List Byte) (wp rp : Option Nat) (rl : Int) (rd : List Byte) :
    spor (ctxF f co st np carry wp rp rl rd) = ctxF f co st np carry wp rp rl rd := by
  simp [spor, ctxF, h1, h2]

end VncModel.Ws
namespace VncModel.Ws

theorem unmaskChunk_aligned (complete : Bool) (m : Mask) (a : Nat) (ha : a % 4 = 0) (X : List Byte) :
    unmaskChunk complete m (xorFrom m a X) =
      (X.take (if complete then X.length else 4 * (X.length / 4)),
       xorFrom m (a + (if complete then X.length else 4 * (X.length / 4)))
         (X.drop (if complete then X.length else 4 * (X.length / 4)))) := by
  cases complete with
  | true => simp [unmaskChunk, xorMask_xorFrom_aligned m a ha, xorFrom_nil]
  | false =>
    simp only [unmaskChunk, xorFrom_length, xorFrom_take, xorFrom_drop,
      xorMask_xorFrom_aligned m a ha]
    simp

theorem release_ctxF (hb : B64RoundTrip) (f : Frame) (co : Byte) (st : St) (np : Nat)
    (carry : List Byte) (wp rp : Option Nat) (R V : List Byte) (m bufsize : Nat)
    (hrem : Rem (f.effOp co) R V) (hm4 : f.effOp co = opText → m % 4 = 0) (hm : m ≤ R.length)
    (hbs : m ≤ bufsize + 3) (hbig : 10 ≤ bufsize) :
    ∃ out V', V = out ++ V' ∧ Rem (f.effOp co) (R.drop m) V' ∧ out.length ≤ m ∧
      release (ctxF f co st np carry wp rp 0 []) (R.take m) bufsize =
        ctxF f co st np carry (if isDataOp (f.effOp co) then some f.header.length else wp) rp
          out.length out := by
  obtain ⟨out, V', h1, h2, h3, h4⟩ :=
    release_rem hb (ctxF f co st np carry wp rp 0 []) R V m bufsize hrem hm4 hm hbs hbig rfl rfl
  exact ⟨out, V', h1, h2, h3, h4⟩

end VncModel.Ws
namespace VncModel.Ws

theorem finishChunk_ctxF (f : Frame) (co : Byte) (hok : f.ok co) (st : St) (np : Nat)
    (carry : List Byte) (wp rp : Option Nat) (e : Env) (len wpEnd bufsize a : Nat) (ha : a % 4 = 0)
    (X : List Byte) (m : Nat)
    (hm : m = if (st == .frameComplete) then X.length else 4 * (X.length / 4)) :
    finishChunk (ctxF f co st np carry wp rp 0 []) e len wpEnd bufsize (xorFrom f.mask a X) =
      ⟨(returnData { release (ctxF f co st np (xorFrom f.mask (a + m) (X.drop m))
            (some (wpEnd - (X.drop m).length)) rp 0 []) (X.take m) bufsize with
            readPos := some (wpEnd - X.length) } len).1, e,
       (returnData { release (ctxF f co st np (xorFrom f.mask (a + m) (X.drop m))
            (some (wpEnd - (X.drop m).length)) rp 0 []) (X.take m) bufsize with
            readPos := some (wpEnd - X.length) } len).2.1,
       (returnData { release (ctxF f co st np (xorFrom f.mask (a + m) (X.drop m))
            (some (wpEnd - (X.drop m).length)) rp 0 []) (X.take m) bufsize with
            readPos := some (wpEnd - X.length) } len).2.2⟩ := by
  have hnc := effOp_not_close f co hok
  subst hm
  unfold finishChunk
  have hu := unmaskChunk_aligned (st == .frameComplete) f.mask a ha X
  simp only [ctxF] at hu ⊢
  rw [hu]
  simp only [hnc, if_false, xorFrom_length]

theorem decodeChunk_frame (hb : B64RoundTrip) (T : List Byte) (cE : Byte) (f : Frame) (fs : List Frame)
    (co : Byte) (a : Nat)
    (cu rest Vf : List Byte) (rp : Option Nat) (e : Env) (len t : Nat)
    (hv : ValidSeq co (f :: fs)) (hE : endCo co (f :: fs) = cE) (ha : a % 4 = 0) (hcu : cu.length ≤ 3)
    (hP : f.payload.length = a + cu.length + rest.length) (hrem : Rem (f.effOp co) (cu ++ rest) Vf)
    (ht : t ≤ rest.length) (hlen : 0 < len)
    (hwp : wpOf f co a + cu.length + 1 ≤ BUF) (htb : t ≤ BUF - (wpOf f co a + cu.length) - 1)
    (hbig : 10 ≤ BUF - (wpOf f co a + cu.length) - 1) :
    ∃ d, decodeChunk (ctxInFrame f co a cu [] rp .dataNeeded) e len [] (wpOf f co a + cu.length)
              (BUF - (wpOf f co a + cu.length) - 1) (xorFrom f.mask (a + cu.length) (rest.take t)) = d ∧
    d.e = e ∧ ∃ out V', d.res = (if out = [] then Res.again else Res.data out) ∧ out.length ≤ len ∧
      Vf ++ expected (f.afterCo co) fs = out ++ V' ∧
      ∃ lv, Inv T cE lv (spor { d.c with st := d.st })
        (xorFrom f.mask (a + cu.length + t) (rest.drop t) ++ (wireOf fs ++ T)) V' := by
  obtain ⟨hok, hvs⟩ := hv
  have hPlt : f.payload.length < 2 ^ 64 := hok.1
  -- the bytes in front of writePos
  let X := cu ++ rest.take t
  have hXlen : X.length = cu.length + t := by simp [X]; omega
  have hdata : xorFrom f.mask a cu ++ xorFrom f.mask (a + cu.length) (rest.take t) = xorFrom f.mask a X := by
    simp [X, xorFrom_append]
  let complete : Bool := decide (t = rest.length)
  let m := if complete then X.length else 4 * (X.length / 4)
  have hmX : m ≤ X.length := by
    simp only [m]; split <;> omega
  -- the remaining unmasked payload and the part released now
  have hR : cu ++ rest = X ++ rest.drop t := by
    simp [X, List.append_assoc]
  have hRtake : (cu ++ rest).take m = X.take m := by
    rw [hR, List.take_append_of_le_length hmX]
  have hRdrop : (cu ++ rest).drop m = X.drop m ++ rest.drop t := by
    rw [hR, List.drop_append_of_le_length hmX]
  have hm4 : f.effOp co = opText → m % 4 = 0 := by
    intro htx
    simp only [m]
    split
    · rename_i hc
      have htl : t = rest.length := by simpa [complete] using hc
      have : Vf.length = Vf.length := rfl
      have hne : opText ≠ opBinary := by decide
      simp only [Rem, htx, hne, if_false, if_true] at hrem
      have h4 := ntop_length_mod4 Vf
      rw [← hrem] at h4
      simp only [List.length_append] at h4
      rw [hXlen, htl]; exact h4
    · omega
  have hmR : m ≤ (cu ++ rest).length := by
    simp only [List.length_append]; omega
  obtain ⟨out, Vr, hVf, hRem', houtm, hrel⟩ :=
    release_ctxF hb f co (if a + cu.length + t = f.payload.length then St.frameComplete else St.dataNeeded)
      (a + cu.length + t) (xorFrom f.mask (a + m) (X.drop m))
      (some (wpOf f co a + cu.length + t - (X.drop m).length)) rp (cu ++ rest) Vf m
      (BUF - (wpOf f co a + cu.length) - 1) hrem hm4 hmR (by omega) hbig
  refine ⟨_, rfl, ?_⟩
  have hnp : a + cu.length + t = f.payload.length ↔ t = rest.length := by omega
  have hbsl : (xorFrom f.mask (a + cu.length) (rest.take t)).length = t := by
    simp [xorFrom_length]; omega
  have hstC : ((if a + cu.length + t = f.payload.length then St.frameComplete else St.dataNeeded)
      == St.frameComplete) = complete := by
    by_cases h : t = rest.length
    · simp [complete, h]; omega
    · have : ¬ (a + cu.length + t = f.payload.length) := fun h' => h (hnp.mp h')
      simp [complete, h, this]
  have hdc : decodeChunk (ctxInFrame f co a cu [] rp .dataNeeded) e len [] (wpOf f co a + cu.length)
      (BUF - (wpOf f co a + cu.length) - 1) (xorFrom f.mask (a + cu.length) (rest.take t)) =
      finishChunk (ctxF f co (if a + cu.length + t = f.payload.length then St.frameComplete else St.dataNeeded)
        (a + cu.length + t) (xorFrom f.mask a cu) (some (wpOf f co a)) rp 0 []) e len
        (wpOf f co a + cu.length + t) (BUF - (wpOf f co a + cu.length) - 1) (xorFrom f.mask a X) := by
    have hc0 : ctxInFrame f co a cu [] rp .dataNeeded =
        ctxF f co .dataNeeded (a + cu.length) (xorFrom f.mask a cu) (some (wpOf f co a)) rp 0 [] := rfl
    rw [hc0]
    unfold decodeChunk
    have hadv := advance_ctxF f co .dataNeeded (a + cu.length) t (xorFrom f.mask a cu)
      (some (wpOf f co a)) rp 0 [] (by omega) hPlt
    have hcar : (ctxF f co .dataNeeded (a + cu.length) (xorFrom f.mask a cu) (some (wpOf f co a)) rp
        0 []).carry = xorFrom f.mask a cu := rfl
    simp only [List.nil_append]
    rw [hcar, hdata, hbsl, hadv]
    have : ¬ (wpOf f co a + cu.length + t < (xorFrom f.mask a X).length) := by
      rw [xorFrom_length, hXlen]; omega
    simp only [this, if_false]
  rw [hdc, finishChunk_ctxF f co hok _ _ _ _ _ e len _ _ a ha X m (by rw [hstC])]
  simp only
  rw [← hRtake, hrel, ctxF_set_rp]
  refine ⟨trivial, ?_⟩
  -- the abstract state after this chunk: a' = a + m, cu' = X.drop m, rest' = rest.drop t
  have hcu' : (X.drop m).length ≤ 3 := by
    simp only [List.length_drop, m]; split <;> omega
  have hcompl : t = rest.length → X.drop m = [] := by
    intro h; simp [m, complete, h]
  have hInvFrame : ∀ (rdN : List Byte) (rpN : Option Nat) (stN : St),
      ((rdN = [] ∧ stN = .dataNeeded ∧ rest.drop t ≠ []) ∨ (rdN ≠ [] ∧ stN = .dataAvailable ∧ rpN.isSome)) →
      Inv T cE true (ctxF f co stN (a + cu.length + t) (xorFrom f.mask (a + m) (X.drop m))
            (if isDataOp (f.effOp co) = true then some f.header.length
             else some (wpOf f co a + cu.length + t - (X.drop m).length)) rpN rdN.length rdN)
          (xorFrom f.mask (a + cu.length + t) (rest.drop t) ++ (wireOf fs ++ T))
          (rdN ++ (Vr ++ expected (f.afterCo co) fs)) := by
    intro rdN rpN stN hcase
    have hctx : ctxF f co stN (a + cu.length + t) (xorFrom f.mask (a + m) (X.drop m))
            (if isDataOp (f.effOp co) = true then some f.header.length
             else some (wpOf f co a + cu.length + t - (X.drop m).length)) rpN rdN.length rdN =
        ctxInFrame f co (a + m) (X.drop m) rdN rpN stN := by
      simp only [ctxF, ctxInFrame, Ctx.mk.injEq, true_and, and_true, List.length_drop, wpOf]
      refine ⟨by omega, ?_⟩
      split
      · rfl
      · congr 1; omega
    rw [hctx]
    have hpend : xorFrom f.mask (a + cu.length + t) (rest.drop t) =
        xorFrom f.mask (a + m + (X.drop m).length) (rest.drop t) := by
      congr 1; simp only [List.length_drop]; omega
    rw [hpend]
    refine Inv.frame f fs co (a + m) (X.drop m) (rest.drop t) rdN Vr rpN stN ⟨hok, hvs⟩ hE ?_ hcu' ?_ ?_ ?_ hcase
    · intro hne
      have : ¬ t = rest.length := by
        intro h; apply hne; simp [h]
      simp only [m, complete, this, decide_false]
      simp; omega
    · simp only [List.length_drop]; omega
    · intro h
      apply hcompl
      have := congrArg List.length h
      simp only [List.length_drop, List.length_nil] at this
      omega
    · rw [← hRdrop]; exact hRem'
  -- when the frame is complete nothing of it is left to deliver after `out`
  have hVr : t = rest.length → Vr = [] := by
    intro h
    apply Rem_nil (f.effOp co)
    have h1 : X.drop m = [] := hcompl h
    have h2 : rest.drop t = [] := by simp [h]
    rw [hRdrop, h1, h2] at hRem'
    exact hRem'
  have hnpP : a + cu.length + t ≤ f.payload.length := by omega
  by_cases hout : out = []
  · -- nothing to hand out: EAGAIN, state kept (or frame finished)
    refine ⟨[], Vr ++ expected (f.afterCo co) fs, ?_, by simp, by simp [hVf, hout], ?_⟩
    · rw [returnData_nil _ _ (by simp [ctxF, hout])]; simp
    · rw [returnData_nil _ _ (by simp [ctxF, hout])]
      simp only [ctxF_set_st]
      by_cases hc : t = rest.length
      · have : a + cu.length + t = f.payload.length := hnp.mpr hc
        have hst : (ctxF f co (if a + cu.length + t = f.payload.length then St.frameComplete else St.dataNeeded)
            (a + cu.length + t) (xorFrom f.mask (a + m) (X.drop m))
            (if isDataOp (f.effOp co) = true then some f.header.length
             else some (wpOf f co a + cu.length + t - (X.drop m).length))
            (some (wpOf f co a + cu.length + t - X.length)) (out.length) out).st = .frameComplete := by
          simp [ctxF, this]
        rw [hst, spor_ctxF_complete f co hok]
        have h2 : rest.drop t = [] := by simp [hc]
        rw [hVr hc, h2, xorFrom_nil]
        obtain ⟨lv, hst'⟩ := Inv_start T cE (f.afterCo co) fs hvs (by simpa [endCo] using hE) opInvalid f.fin 0
        exact ⟨lv, by simpa using hst'⟩
      · have hne : ¬ (a + cu.length + t = f.payload.length) := fun h' => hc (hnp.mp h')
        have hst : (ctxF f co (if a + cu.length + t = f.payload.length then St.frameComplete else St.dataNeeded)
            (a + cu.length + t) (xorFrom f.mask (a + m) (X.drop m))
            (if isDataOp (f.effOp co) = true then some f.header.length
             else some (wpOf f co a + cu.length + t - (X.drop m).length))
            (some (wpOf f co a + cu.length + t - X.length)) (out.length) out).st = .dataNeeded := by
          simp [ctxF, hne]
        rw [hst, spor_ctxF_other _ _ _ (by decide) (by decide)]
        have hrne : rest.drop t ≠ [] := by
          intro h
          have := congrArg List.length h
          simp only [List.length_drop, List.length_nil] at this
          omega
        have := hInvFrame [] (some (wpOf f co a + cu.length + t - X.length)) .dataNeeded
          (Or.inl ⟨rfl, rfl, hrne⟩)
        exact ⟨true, by simpa [hout] using this⟩
  · rw [returnData_ctxF f co _ _ _ _ _ out len hout hnpP hPlt]
    by_cases hl : len < out.length
    · simp only [hl, if_true, ctxF_set_st]
      have htne : out.take len ≠ [] := by
        intro h
        have := congrArg List.length h
        simp only [List.length_take, List.length_nil] at this
        omega
      have hdne : out.drop len ≠ [] := by
        intro h
        have := congrArg List.length h
        simp only [List.length_drop, List.length_nil] at this
        omega
      refine ⟨out.take len, out.drop len ++ (Vr ++ expected (f.afterCo co) fs), by simp [htne], ?_, ?_, ?_⟩
      · simp only [List.length_take]; omega
      · rw [hVf, ← List.append_assoc, ← List.append_assoc, List.take_append_drop, List.append_assoc]
      · rw [spor_ctxF_other _ _ _ (by decide) (by decide)]
        exact ⟨true, hInvFrame (out.drop len) (some (wpOf f co a + cu.length + t - X.length + len)) .dataAvailable
          (Or.inr ⟨hdne, rfl, rfl⟩)⟩
    · simp only [hl, if_false, ctxF_set_st]
      refine ⟨out, Vr ++ expected (f.afterCo co) fs, by simp [hout], by omega, by rw [hVf, List.append_assoc], ?_⟩
      by_cases hc : t = rest.length
      · have : a + cu.length + t = f.payload.length := hnp.mpr hc
        simp only [this, if_true]
        rw [spor_ctxF_complete f co hok]
        have h2 : rest.drop t = [] := by simp [hc]
        rw [hVr hc, h2, xorFrom_nil]
        obtain ⟨lv, hst'⟩ := Inv_start T cE (f.afterCo co) fs hvs (by simpa [endCo] using hE) opInvalid f.fin 0
        exact ⟨lv, by simpa using hst'⟩
      · have hne : ¬ (a + cu.length + t = f.payload.length) := fun h' => hc (hnp.mp h')
        simp only [hne, if_false]
        rw [spor_ctxF_other _ _ _ (by decide) (by decide)]
        have hrne : rest.drop t ≠ [] := by
          intro h
          have := congrArg List.length h
          simp only [List.length_drop, List.length_nil] at this
          omega
        have := hInvFrame [] none .dataNeeded (Or.inl ⟨rfl, rfl, hrne⟩)
        exact ⟨true, by simpa using this⟩

end VncModel.Ws

namespace VncModel.Ws

theorem lenField_length (n : Nat) :
    (lenField n).length = if n < 126 then 1 else if n < 65536 then 3 else 9 := by
  unfold lenField
  split
  · rfl
  · split <;> simp [beEnc_length]

theorem header_length (f : Frame) :
    f.header.length = if f.payload.length < 126 then 6 else if f.payload.length < 65536 then 8 else 14 := by
  simp only [Frame.header, List.length_cons, List.length_append, lenField_length, Mask.toList]
  split
  · rfl
  · split <;> rfl

theorem header_length_le (f : Frame) : f.header.length ≤ 14 ∧ 6 ≤ f.header.length := by
  rw [header_length]; split
  · omega
  · split <;> omega

theorem isDataOp_of_ok (f : Frame) (co : Byte) (hok : f.ok co) :
    isDataOp (f.effOp co) = !f.isControl := by
  obtain ⟨_, _, h3⟩ := hok
  by_cases hc : f.isControl = true
  · rw [hc]
    have : f.effOp co = f.opcode := by simp [Frame.effOp, hc]
    rw [this]
    simp only [Frame.isControl] at hc
    simp only [isDataOp, Bool.not_true, Bool.or_eq_false_iff, beq_eq_false_iff_ne]
    constructor
    · intro h; rw [h] at hc; revert hc; decide
    · intro h; rw [h] at hc; revert hc; decide
  · have hc' : f.isControl = false := by simpa using hc
    obtain ⟨_, h4⟩ := h3 hc'
    rw [hc']
    rcases h4 with h4 | ⟨h4, _⟩ <;> rw [h4] <;> decide

theorem wp_bound (f : Frame) (co : Byte) (hok : f.ok co) (a k : Nat) (h : a + k ≤ f.payload.length)
    (hk : k ≤ 3) : wpOf f co a + k + 1900 ≤ BUF := by
  have hl := (header_length_le f).1
  have hd := isDataOp_of_ok f co hok
  unfold wpOf
  by_cases hc : f.isControl = true
  · have := (hok.2.1 hc).2.2
    simp only [hd, hc, Bool.not_true]
    simp [BUF, Gen.C09.decodeBufSize]; omega
  · have hc' : f.isControl = false := by simpa using hc
    simp only [hd, hc', Bool.not_false, if_true]
    simp [BUF, Gen.C09.decodeBufSize]; omega

theorem readAndDecode_some (c : Ctx) (e : Env) (len : Nat) (inbuf : List Byte) (wp0 : Nat)
    (h : c.writePos = some wp0) (hb : wp0 + c.carry.length + 1 ≤ BUF) :
    readAndDecode c e len inbuf =
      if (if c.remaining > BUF - (wp0 + c.carry.length) - 1 then BUF - (wp0 + c.carry.length) - 1
          else c.remaining) > 0 then
        match e.read (wp0 + c.carry.length)
            ((if c.remaining > BUF - (wp0 + c.carry.length) - 1 then BUF - (wp0 + c.carry.length) - 1
              else c.remaining : Nat)) with
        | (.bad, e) => ⟨c, e, .err, .ub⟩
        | (.fail, e) => ⟨c, e, .err, .err .eio⟩
        | (.closed, e) => ⟨c, e, .err, .closed⟩
        | (.again, e) => ⟨c, e, c.st, .again⟩
        | (.data bs, e) =>
          decodeChunk c e len inbuf (wp0 + c.carry.length) (BUF - (wp0 + c.carry.length) - 1) bs
      else decodeChunk c e len inbuf (wp0 + c.carry.length) (BUF - (wp0 + c.carry.length) - 1) [] := by
  unfold readAndDecode
  rw [h]
  have : ¬ (wp0 + c.carry.length + 1 > BUF) := by omega
  simp only [this, if_false]
  rfl

end VncModel.Ws
namespace VncModel.Ws

theorem readAndDecode_frame (hb : B64RoundTrip) (T : List Byte) (cE : Byte) (f : Frame) (fs : List Frame)
    (co : Byte) (a : Nat)
    (cu rest Vf : List Byte) (rp : Option Nat) (e : Env) (len : Nat)
    (hv : ValidSeq co (f :: fs)) (hE : endCo co (f :: fs) = cE) (ha : a % 4 = 0) (hcu : cu.length ≤ 3)
    (hP : f.payload.length = a + cu.length + rest.length) (hce : rest = [] → cu = [])
    (hrem : Rem (f.effOp co) (cu ++ rest) Vf)
    (hlen : 0 < len) (hpend : e.pending = xorFrom f.mask (a + cu.length) rest ++ (wireOf fs ++ T))
    (hff : e.FaultFree) (hs : e.Safe) :
    ∃ d, readAndDecode (ctxInFrame f co a cu [] rp .dataNeeded) e len [] = d ∧
    d.e.FaultFree ∧ d.e.Safe ∧ ∃ out V', d.res = (if out = [] then Res.again else Res.data out) ∧
      out.length ≤ len ∧ Vf ++ expected (f.afterCo co) fs = out ++ V' ∧
      (∃ lv, Inv T cE lv (spor { d.c with st := d.st }) d.e.pending V') ∧
      d.e.pending.length ≤ e.pending.length ∧
      (out ≠ [] ∨ d.e.pending.length < e.pending.length ∨ e.Stuck ∨ rest = []) := by
  refine ⟨_, rfl, ?_⟩
  have hok := hv.1
  have hPlt : f.payload.length < 2 ^ 64 := hok.1
  have hwpb := wp_bound f co hok a cu.length (by omega) hcu
  have hcl : (ctxInFrame f co a cu [] rp .dataNeeded).carry.length = cu.length := by
    simp [ctxInFrame, xorFrom_length]
  have hremv : (ctxInFrame f co a cu [] rp .dataNeeded).remaining = rest.length := by
    have := ctxF_remaining f co .dataNeeded (a + cu.length) (xorFrom f.mask a cu)
      (some (wpOf f co a)) rp 0 [] (by omega) hPlt
    have hc0 : ctxInFrame f co a cu [] rp .dataNeeded =
        ctxF f co .dataNeeded (a + cu.length) (xorFrom f.mask a cu) (some (wpOf f co a)) rp 0 [] := rfl
    rw [hc0, this]; omega
  have hrd := readAndDecode_some (ctxInFrame f co a cu [] rp .dataNeeded) e len [] (wpOf f co a) rfl
    (by rw [hcl]; omega)
  simp only [hcl, hremv] at hrd
  rw [hrd]
  clear hrd
  generalize hN : (if rest.length > BUF - (wpOf f co a + cu.length) - 1
      then BUF - (wpOf f co a + cu.length) - 1 else rest.length) = N
  have hNle : N ≤ rest.length ∧ N ≤ BUF - (wpOf f co a + cu.length) - 1 := by
    rw [← hN]; split <;> omega
  by_cases hN0 : N > 0
  · simp only [hN0, if_true]
    obtain ⟨hff', hs', hcases⟩ := Env.read_cases e (wpOf f co a + cu.length) (N : Int) (by omega)
      (by omega) hff hs
    generalize hr : e.read (wpOf f co a + cu.length) (N : Int) = r at hff' hs' hcases
    obtain ⟨o, e'⟩ := r
    simp only at hff' hs' hcases
    rcases hcases with ⟨ho, hp', hstuck⟩ | ⟨t, ht0, htN, htl, ho, hp'⟩
    · -- EAGAIN: state kept
      subst ho
      simp only
      refine ⟨hff', hs', [], Vf ++ expected (f.afterCo co) fs, by simp, by simp, by simp, ?_,
        by rw [hp']; exact Nat.le_refl _, Or.inr (Or.inr (Or.inl hstuck))⟩
      have hsp : spor { ctxInFrame f co a cu [] rp .dataNeeded with
          st := (ctxInFrame f co a cu [] rp .dataNeeded).st } = ctxInFrame f co a cu [] rp .dataNeeded := by
        simp [spor, ctxInFrame]
      rw [hsp, hp', hpend]
      have hrne : rest ≠ [] := by
        intro h; rw [h] at hNle; simp at hNle; omega
      have := Inv.frame (T := T) (cE := cE) f fs co a cu rest [] Vf rp .dataNeeded hv hE (fun _ => ha) hcu hP hce hrem
        (Or.inl ⟨rfl, rfl, hrne⟩)
      exact ⟨true, by simpa using this⟩
    · -- t bytes of payload arrive
      subst ho
      simp only
      have htr : t ≤ rest.length := by omega
      have htake : e.pending.take t = xorFrom f.mask (a + cu.length) (rest.take t) := by
        rw [hpend, List.take_append_of_le_length (by rw [xorFrom_length]; exact htr), xorFrom_take]
      have hdrop : e.pending.drop t = xorFrom f.mask (a + cu.length + t) (rest.drop t) ++ (wireOf fs ++ T) := by
        rw [hpend, List.drop_append_of_le_length (by rw [xorFrom_length]; exact htr), xorFrom_drop]
      rw [htake]
      obtain ⟨d, hd, hde, out, V', h1, h2, h3, h4⟩ :=
        decodeChunk_frame hb T cE f fs co a cu rest Vf rp e' len t hv hE ha hcu hP hrem htr hlen (by omega)
          (by omega) (by omega)
      rw [hd, hde]
      refine ⟨hff', hs', out, V', h1, h2, h3, ?_, ?_, Or.inr (Or.inl ?_)⟩
      · rw [hp', hdrop]; exact h4
      · rw [hp']; simp only [List.length_drop]; omega
      · rw [hp']; simp only [List.length_drop]; omega
  · -- nothing left to read (empty payload / everything already in the buffer)
    simp only [hN0, if_false]
    have hr0 : rest = [] := by
      have : N = 0 := by omega
      rw [← hN] at this
      have : rest.length = 0 := by
        split at this <;> omega
      exact List.length_eq_zero_iff.mp this
    obtain ⟨d, hd, hde, out, V', h1, h2, h3, h4⟩ :=
      decodeChunk_frame hb T cE f fs co a cu rest Vf rp e len 0 hv hE ha hcu hP hrem (by omega) hlen (by omega)
        (by omega) (by omega)
    have hb0 : xorFrom f.mask (a + cu.length) (rest.take 0) = [] := by simp [xorFrom_nil]
    rw [hb0] at hd
    rw [hd, hde]
    refine ⟨hff, hs, out, V', h1, h2, h3, ?_, Nat.le_refl _, Or.inr (Or.inr (Or.inr hr0))⟩
    rw [hpend]; simpa using h4

end VncModel.Ws
