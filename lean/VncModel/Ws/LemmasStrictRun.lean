import VncModel.Ws.LemmasStrict
/-! Run-level strictness: streams whose first protocol violation comes after a valid prefix. -/
namespace VncModel.Ws

/-- the first two header bytes already violate the protocol (given the open message `co`) -/
def Viol2 (co b0 b1 : Byte) : Prop :=
  isReservedOp (b0 &&& 0x0f) = true ∨
  (((b0 &&& 0x0f) &&& 0x08 != 0) = true ∧ (b0 &&& 0x80) >>> 7 = 0) ∨
  (((b0 &&& 0x0f) &&& 0x08 != 0) = false ∧ b0 &&& 0x0f = opContinuation ∧ co = opInvalid) ∨
  (((b0 &&& 0x0f) &&& 0x08 != 0) = true ∧ (b1 &&& 0x7f).toNat > 125) ∨
  b1 &&& 0x80 = 0

theorem parse2_viol (c : Ctx) (b0 b1 : Byte) (tl : List Byte) (hh : c.hdr = b0 :: b1 :: tl)
    (hv : Viol2 c.contOp b0 b1) : ∃ c', parse2 c = .error .eproto c' := by
  rcases hv with h | ⟨h1, h2⟩ | ⟨h1, h2, h3⟩ | ⟨h1, h2⟩ | h
  · exact parse2_reserved_opcode c b0 b1 tl hh h
  · exact parse2_fragmented_control c b0 b1 tl hh h1 h2
  · exact parse2_continuation_without_start c b0 b1 tl hh h1 h2 h3
  · exact parse2_oversized_control c b0 b1 tl hh h1 h2
  · exact parse2_unmasked c b0 b1 tl hh h

/-- one call while fewer than two bytes of a violating header have been collected: EAGAIN with the
state still in front of the violation, or the protocol error -/
theorem decode_bad2 (h : List Byte) (opc fin : Byte) (pl : Nat) (co b0 b1 : Byte) (junk : List Byte)
    (e : Env) (len : Nat) (hh2 : h.length < 2) (hcat : h ++ e.pending = b0 :: b1 :: junk)
    (hv : Viol2 co b0 b1) (hff : e.FaultFree) (hs : e.Safe) :
    (decode (ctxAtHeader h opc fin pl co) e len).2.1.FaultFree ∧ (decode (ctxAtHeader h opc fin pl co) e len).2.1.Safe ∧
    (((decode (ctxAtHeader h opc fin pl co) e len).2.2 = .err .eproto) ∨
     ((decode (ctxAtHeader h opc fin pl co) e len).2.2 = .again ∧
      ∃ h', h'.length < 2 ∧ (decode (ctxAtHeader h opc fin pl co) e len).1 = ctxAtHeader h' opc fin pl co ∧
        h' ++ (decode (ctxAtHeader h opc fin pl co) e len).2.1.pending = b0 :: b1 :: junk ∧
        (e.Stuck ∨ (decode (ctxAtHeader h opc fin pl co) e len).2.1.pending.length < e.pending.length))) := by
  have hBUF : (14 : Int) ≤ BUF := by simp [BUF, Gen.C09.decodeBufSize]
  have hnr : (ctxAtHeader h opc fin pl co).nRead = h.length := rfl
  have hmiss : hdrMissing (ctxAtHeader h opc fin pl co) = 6 - (h.length : Int) := by
    have : hdrWant h = 6 := by
      match h, hh2 with
      | [], _ => rfl
      | [_], _ => rfl
    simp [hdrMissing, ctxAtHeader, Ctx.nRead, this]
  obtain ⟨hff1, hs1, hc1⟩ := Env.read_cases e h.length (6 - (h.length : Int)) (by omega) (by omega) hff hs
  have hst0 : (ctxAtHeader h opc fin pl co).st = St.headerPending := rfl
  rcases hc1 with ⟨ho, hp1, hstuck⟩ | ⟨t, ht0, htN, htl, ho, hp1⟩
  · -- EAGAIN
    have hrh : readHeader (ctxAtHeader h opc fin pl co) e =
        ⟨ctxAtHeader h opc fin pl co, (e.read h.length (6 - (h.length : Int))).2, .headerPending, .again, []⟩ := by
      unfold readHeader
      rw [hnr, hmiss]
      generalize e.read h.length (6 - (h.length : Int)) = r at ho
      obtain ⟨o, e1⟩ := r
      simp only at ho; subst ho; rfl
    have hdec : decode (ctxAtHeader h opc fin pl co) e len =
        (ctxAtHeader h opc fin pl co, (e.read h.length (6 - (h.length : Int))).2, .again) := by
      simp only [decode, hst0, hrh]
      simp [spor, ctxAtHeader]
    rw [hdec]
    exact ⟨hff1, hs1, Or.inr ⟨rfl, h, hh2, rfl, by rw [hp1]; exact hcat, Or.inl hstuck⟩⟩
  · generalize hr : e.read h.length (6 - (h.length : Int)) = r at hff1 hs1 ho hp1
    obtain ⟨o, e1⟩ := r
    simp only at hff1 hs1 ho hp1
    subst ho
    have hsplit : e.pending = e.pending.take t ++ e1.pending := by rw [hp1, List.take_append_drop]
    by_cases hlt : (h ++ e.pending.take t).length < 2
    · -- still fewer than two bytes
      have hp2 : parse2 { ctxAtHeader h opc fin pl co with hdr := (ctxAtHeader h opc fin pl co).hdr ++ e.pending.take t } = .pending := by
        have : (ctxAtHeader h opc fin pl co).hdr = h := rfl
        rw [this]
        unfold parse2
        simp only [ctxAtHeader]
        match hx : h ++ List.take t e.pending, hlt with
        | [], _ => rfl
        | [_], _ => rfl
      have hrh : readHeader (ctxAtHeader h opc fin pl co) e =
          ⟨ctxAtHeader (h ++ e.pending.take t) opc fin pl co, e1, .headerPending, .again, []⟩ := by
        unfold readHeader
        rw [hnr, hmiss, hr]
        simp only [hp2]
        rfl
      have hdec : decode (ctxAtHeader h opc fin pl co) e len =
          (ctxAtHeader (h ++ e.pending.take t) opc fin pl co, e1, .again) := by
        simp only [decode, hst0, hrh]
        simp [spor, ctxAtHeader]
      rw [hdec]
      refine ⟨hff1, hs1, Or.inr ⟨rfl, _, hlt, rfl, ?_, Or.inr ?_⟩⟩
      · rw [List.append_assoc, ← hsplit]; exact hcat
      · rw [hp1]; simp only [List.length_drop]; omega
    · -- two bytes are there: the violation is seen
      have hge : 2 ≤ (h ++ e.pending.take t).length := by omega
      obtain ⟨tl, htl'⟩ : ∃ tl, h ++ e.pending.take t = b0 :: b1 :: tl := by
        have h1 : (h ++ e.pending.take t) ++ e1.pending = b0 :: b1 :: junk := by
          rw [List.append_assoc, ← hsplit]; exact hcat
        match hx : h ++ List.take t e.pending, hge with
        | x :: y :: tl, _ =>
          rw [hx] at h1
          simp only [List.cons_append, List.cons.injEq] at h1
          exact ⟨tl, by rw [h1.1, h1.2.1]⟩
      have hhdr : ({ ctxAtHeader h opc fin pl co with
          hdr := (ctxAtHeader h opc fin pl co).hdr ++ e.pending.take t } : Ctx).hdr = b0 :: b1 :: tl := htl'
      obtain ⟨c', hp2⟩ := parse2_viol _ b0 b1 tl hhdr hv
      have hdec := decode_parse2_error (ctxAtHeader h opc fin pl co) e e1 len (e.pending.take t) .eproto c'
        hst0 (by rw [hnr, hmiss]; exact hr) hp2
      rw [hdec]
      exact ⟨hff1, hs1, Or.inl rfl⟩

end VncModel.Ws

namespace VncModel.Ws

theorem unmaskChunk_carry_le (complete : Bool) (m : Mask) (data : List Byte) :
    (unmaskChunk complete m data).2.length ≤ 3 := by
  cases complete <;> simp [unmaskChunk] <;> omega

theorem finishChunk_close_eq (c : Ctx) (e : Env) (len wpEnd bufsize : Nat) (data : List Byte)
    (hop : c.opcode = opClose) :
    finishChunk c e len wpEnd bufsize data =
      if c.remaining = 0 then
        ⟨{ c with carry := (unmaskChunk (c.st == .frameComplete) c.mask data).2,
                  writePos := some (wpEnd - (unmaskChunk (c.st == .frameComplete) c.mask data).2.length) },
         e, .frameComplete, .err .econnreset⟩
      else
        ⟨{ c with carry := (unmaskChunk (c.st == .frameComplete) c.mask data).2,
                  writePos := some (wpEnd - (unmaskChunk (c.st == .frameComplete) c.mask data).2.length) },
         e, .closeReasonPending, .again⟩ := by
  unfold finishChunk
  simp only [hop, if_true, Ctx.remaining]

theorem ctxF_set_carry_wp (f : Frame) (co : Byte) (st : St) (np : Nat) (carry carry' : List Byte)
    (wp wp' rp : Option Nat) (rl : Int) (rd : List Byte) :
    { ctxF f co st np carry wp rp rl rd with carry := carry', writePos := wp' } =
      ctxF f co st np carry' wp' rp rl rd := rfl

/-- the Close-frame payload phase, one `hybiReadAndDecode`: never payload; ECONNRESET exactly when
the frame is complete, else EAGAIN with the bookkeeping advanced -/
theorem readAndDecode_close (f : Frame) (co : Byte) (hop : f.effOp co = opClose) (hP : f.payload.length ≤ 125)
    (st : St) (hst : st = .dataNeeded ∨ st = .closeReasonPending) (np : Nat) (carry : List Byte) (wp : Nat)
    (rp : Option Nat) (junk : List Byte) (e : Env) (len : Nat)
    (hk : carry.length ≤ 3) (hnp : np ≤ f.payload.length) (hwp : wp + carry.length = f.header.length + np)
    (hpend : e.pending = (xorMask f.mask f.payload).drop np ++ junk) (hff : e.FaultFree) (hs : e.Safe) :
    ∃ d, readAndDecode (ctxF f co st np carry (some wp) rp 0 []) e len [] = d ∧ d.e.FaultFree ∧ d.e.Safe ∧
      ((d.res = .err .econnreset ∧ d.st = .frameComplete) ∨
       (d.res = .again ∧ (d.st = st ∨ d.st = .closeReasonPending) ∧
        ∃ np' carry' wp' st', d.c = ctxF f co st' np' carry' (some wp') rp 0 [] ∧ np' < f.payload.length ∧
          st' ≠ .frameComplete ∧ st' ≠ .err ∧
          carry'.length ≤ 3 ∧ np ≤ np' ∧ wp' + carry'.length = f.header.length + np' ∧
          d.e.pending = (xorMask f.mask f.payload).drop np' ++ junk ∧
          (e.Stuck ∨ d.e.pending.length < e.pending.length))) := by
  refine ⟨_, rfl, ?_⟩
  have hl14 := (header_length_le f).1
  have hB : BUF = 2062 := rfl
  have hPlt : f.payload.length < 2 ^ 64 := by omega
  have hML : (xorMask f.mask f.payload).length = f.payload.length := by simp [xorMask, xorFrom_length]
  have hcl : (ctxF f co st np carry (some wp) rp 0 []).carry.length = carry.length := rfl
  have hrem := ctxF_remaining f co st np carry (some wp) rp 0 [] hnp hPlt
  have hrd := readAndDecode_some (ctxF f co st np carry (some wp) rp 0 []) e len [] wp rfl (by rw [hcl]; omega)
  simp only [hcl, hrem] at hrd
  rw [hrd]; clear hrd
  have hN : (if f.payload.length - np > BUF - (wp + carry.length) - 1 then BUF - (wp + carry.length) - 1
      else f.payload.length - np) = f.payload.length - np := by
    have : ¬ (f.payload.length - np > BUF - (wp + carry.length) - 1) := by omega
    simp [this]
  rw [hN]
  -- what happens once `bs` (t bytes of the payload, possibly none) has been stored
  have hchunk : ∀ (e1 : Env) (t : Nat), np + t ≤ f.payload.length → e1.FaultFree → e1.Safe →
      e1.pending = (xorMask f.mask f.payload).drop (np + t) ++ junk →
      (e.Stuck ∨ t > 0 ∧ e1.pending.length + t = e.pending.length ∨ np + t = f.payload.length) →
      ∀ bs : List Byte, bs.length = t →
      let d := decodeChunk (ctxF f co st np carry (some wp) rp 0 []) e1 len [] (wp + carry.length)
        (BUF - (wp + carry.length) - 1) bs
      d.e.FaultFree ∧ d.e.Safe ∧
      ((d.res = .err .econnreset ∧ d.st = .frameComplete) ∨
       (d.res = .again ∧ (d.st = st ∨ d.st = .closeReasonPending) ∧
        ∃ np' carry' wp' st', d.c = ctxF f co st' np' carry' (some wp') rp 0 [] ∧ np' < f.payload.length ∧
          st' ≠ .frameComplete ∧ st' ≠ .err ∧
          carry'.length ≤ 3 ∧ np ≤ np' ∧ wp' + carry'.length = f.header.length + np' ∧
          d.e.pending = (xorMask f.mask f.payload).drop np' ++ junk ∧
          (e.Stuck ∨ d.e.pending.length < e.pending.length))) := by
    intro e1 t ht hf1 hs1 hp1 hprog bs hbs
    simp only
    unfold decodeChunk
    have hdl : ([] ++ (ctxF f co st np carry (some wp) rp 0 []).carry ++ bs).length = carry.length + t := by
      simp [ctxF, hbs]
    have hnub : ¬ (wp + carry.length + bs.length < ([] ++ (ctxF f co st np carry (some wp) rp 0 []).carry ++ bs).length) := by
      rw [hdl, hbs]; omega
    simp only [hnub, if_false]
    rw [hbs, advance_ctxF f co st np t carry (some wp) rp 0 [] ht hPlt]
    rw [finishChunk_close_eq _ _ _ _ _ _ hop]
    rw [ctxF_remaining f co _ (np + t) carry (some wp) rp 0 [] ht hPlt, ctxF_set_carry_wp]
    by_cases hc : np + t = f.payload.length
    · have : f.payload.length - (np + t) = 0 := by omega
      simp only [this, if_true]
      exact ⟨hf1, hs1, Or.inl ⟨(by first | rfl | trivial), (by first | rfl | trivial)⟩⟩
    · have hne0 : ¬ (f.payload.length - (np + t) = 0) := by omega
      simp only [hne0, if_false, hc]
      have hsf : ((ctxF f co st (np + t) carry (some wp) rp 0 []).st == St.frameComplete) = false := by
        show (st == St.frameComplete) = false
        rcases hst with h | h <;> rw [h] <;> rfl
      have hmk : (ctxF f co st (np + t) carry (some wp) rp 0 []).mask = f.mask := rfl
      rw [hsf, hmk]
      refine ⟨hf1, hs1, Or.inr ⟨(by first | rfl | trivial), Or.inr (by first | rfl | trivial), np + t, _, _, st, rfl, by omega, ?_, ?_, ?_, by omega, ?_, hp1, ?_⟩⟩
      · rcases hst with h | h <;> rw [h] <;> decide
      · rcases hst with h | h <;> rw [h] <;> decide
      · exact unmaskChunk_carry_le _ _ _
      · have hcl2 : (unmaskChunk false f.mask ([] ++ (ctxF f co st np carry (some wp) rp 0 []).carry ++ bs)).2.length
            ≤ carry.length + t := by
          simp [unmaskChunk, ctxF, hbs]
        omega
      · rcases hprog with h | ⟨h1, h2⟩ | h
        · exact Or.inl h
        · exact Or.inr (by omega)
        · exact absurd h hc
  by_cases hpos : f.payload.length - np > 0
  · simp only [hpos, if_true]
    obtain ⟨hff', hs', hcases⟩ := Env.read_cases e (wp + carry.length) ((f.payload.length - np : Nat) : Int)
      (by omega) (by omega) hff hs
    generalize hr : e.read (wp + carry.length) ((f.payload.length - np : Nat) : Int) = r at hff' hs' hcases
    obtain ⟨o, e'⟩ := r
    simp only at hff' hs' hcases
    rcases hcases with ⟨ho, hp', hstuck⟩ | ⟨t, ht0, htN, htl, ho, hp'⟩
    · subst ho
      simp only
      refine ⟨hff', hs', Or.inr ⟨(by first | rfl | trivial), Or.inl (by first | rfl | trivial), np, carry, wp, st, rfl, by omega, ?_, ?_, hk, by omega, hwp,
        by rw [hp', hpend], Or.inl hstuck⟩⟩
      · rcases hst with h | h <;> rw [h] <;> decide
      · rcases hst with h | h <;> rw [h] <;> decide
    · subst ho
      simp only
      have htr : np + t ≤ f.payload.length := by omega
      have hp1 : e'.pending = (xorMask f.mask f.payload).drop (np + t) ++ junk := by
        rw [hp', hpend, List.drop_append_of_le_length (by simp [hML]; omega), List.drop_drop]
      exact hchunk e' t htr hff' hs' hp1 (Or.inr (Or.inl ⟨ht0, by rw [hp']; simp only [List.length_drop]; omega⟩))
        (e.pending.take t) (by simp; omega)
  · simp only [hpos, if_false]
    have hnp' : np = f.payload.length := by omega
    exact hchunk e 0 (by omega) hff hs (by simpa using hpend) (Or.inr (Or.inr (by omega))) [] rfl

end VncModel.Ws

namespace VncModel.Ws

theorem finishHeader_env (c : Ctx) (e : Env) : (finishHeader c e).e = e := by
  unfold finishHeader
  simp only
  split
  · rfl
  · split <;> rfl

/-- the first byte of a data frame (not control, not reserved) that may legally open or continue a
message when `co` is open -/
def DataB0 (co b0 : Byte) : Prop :=
  isReservedOp (b0 &&& 0x0f) = false ∧ ((b0 &&& 0x0f) &&& 0x08 != 0) = false ∧
  (b0 &&& 0x0f = opContinuation → co ≠ opInvalid ∧ (co &&& 0x08 != 0) = false)

def nmOp (co b0 : Byte) : Byte := if b0 &&& 0x0f = opContinuation then co else b0 &&& 0x0f
def nmCo (co b0 : Byte) : Byte :=
  if b0 &&& 0x0f = opContinuation then co
  else if (b0 &&& 0x80) >>> 7 = 0 then b0 &&& 0x0f else opInvalid

/-- `parse2` lets the first two bytes of a masked data frame with an extended length form through -/
theorem parse2_data_ext (co co' b0 b1 : Byte) (tl : List Byte) (hd : DataB0 co b0)
    (hb1 : b1 = 0xfe ∨ b1 = 0xff) (hco : co' = co ∨ co' = nmCo co b0) (opc fin : Byte) (pl : Nat) :
    parse2 (ctxAtHeader (b0 :: b1 :: tl) opc fin pl co') =
      .ok (ctxAtHeader (b0 :: b1 :: tl) (nmOp co b0) ((b0 &&& 0x80) >>> 7) (b1 &&& 0x7f).toNat (nmCo co b0)) := by
  obtain ⟨h1, h2, h3⟩ := hd
  have hm : b1 &&& 0x80 ≠ 0 := by rcases hb1 with rfl | rfl <;> decide
  unfold parse2
  simp only [ctxAtHeader, Ctx.isControl, h1, h2, Bool.false_eq_true, if_false]
  by_cases h0 : b0 &&& 0x0f = opContinuation
  · obtain ⟨h4, h5⟩ := h3 h0
    have hco' : co' = co := by
      rcases hco with h | h
      · exact h
      · rw [h]; simp [nmCo, h0]
    simp only [h0, if_true, hco', h4, if_false, h5, Bool.false_eq_true, false_and, hm]
    simp [nmOp, nmCo, h0]
  · simp only [h0, if_false, h2, Bool.false_eq_true, false_and, hm]
    simp [nmOp, nmCo, h0]

end VncModel.Ws
namespace VncModel.Ws

theorem finishHeader_pending (c : Ctx) (e : Env) (h1 : ¬ (c.payloadLen < 126 ∧ c.nRead ≥ 6))
    (h2 : ¬ (c.payloadLen = 126 ∧ 8 ≤ c.nRead)) (h3 : ¬ (c.payloadLen = 127 ∧ 14 ≤ c.nRead)) :
    finishHeader c e = ⟨c, e, .headerPending, .again, []⟩ := by
  unfold finishHeader
  simp only [h1, h2, h3, if_false]

/-- header of a masked data frame that uses the 16-bit length form for a length below 126 -/
def nm16 (b0 x0 x1 m0 m1 m2 m3 : Byte) : List Byte := [b0, 0xfe, x0, x1, m0, m1, m2, m3]
/-- ... the 64-bit form for a length below 65536 -/
def nm64 (b0 x0 x1 x2 x3 x4 x5 x6 x7 m0 m1 m2 m3 : Byte) : List Byte :=
  [b0, 0xff, x0, x1, x2, x3, x4, x5, x6, x7, m0, m1, m2, m3]

theorem take_two_plus {α : Type} (a b : α) (tl : List α) (j : Nat) (hj : 2 ≤ j) :
    (a :: b :: tl).take j = a :: b :: tl.take (j - 2) := by
  obtain ⟨k, rfl⟩ : ∃ k, j = k + 2 := ⟨j - 2, by omega⟩
  simp

/-- `readHeader` on a prefix of a non-minimal header: still collecting, or the protocol error -/
theorem readHeader_nonmin (H : List Byte) (co co' b0 : Byte) (hd : DataB0 co b0)
    (hH : (∃ x0 x1 m0 m1 m2 m3, H = nm16 b0 x0 x1 m0 m1 m2 m3 ∧ beDec [x0, x1] < 126) ∨
          (∃ x0 x1 x2 x3 x4 x5 x6 x7 m0 m1 m2 m3, H = nm64 b0 x0 x1 x2 x3 x4 x5 x6 x7 m0 m1 m2 m3 ∧
            beDec [x0, x1, x2, x3, x4, x5, x6, x7] < 65536))
    (j : Nat) (opc fin : Byte) (pl : Nat) (e : Env) (body : List Byte) (hj : j < H.length)
    (hco : co' = co ∨ co' = nmCo co b0) (hpend : e.pending = H.drop j ++ body)
    (hff : e.FaultFree) (hs : e.Safe) :
    ∃ e', e'.FaultFree ∧ e'.Safe ∧
      ((∃ j' opc' fin' pl' co'', j' < H.length ∧ (co'' = co ∨ co'' = nmCo co b0) ∧
          readHeader (ctxAtHeader (H.take j) opc fin pl co') e =
            ⟨ctxAtHeader (H.take j') opc' fin' pl' co'', e', .headerPending, .again, []⟩ ∧
          e'.pending = H.drop j' ++ body ∧ (e.Stuck ∨ j < j')) ∨
       ((readHeader (ctxAtHeader (H.take j) opc fin pl co') e).st = .err ∧
        (readHeader (ctxAtHeader (H.take j) opc fin pl co') e).res = .err .eproto ∧
        (readHeader (ctxAtHeader (H.take j) opc fin pl co') e).e = e' ∧ e'.pending = body)) := by
  rcases hH with ⟨x0, x1, m0, m1, m2, m3, rfl, hlen⟩ | ⟨x0, x1, x2, x3, x4, x5, x6, x7, m0, m1, m2, m3, rfl, hlen⟩
  · have hl7 : ((0xfe : Byte) &&& 0x7f).toNat = 126 := by decide
    have hg := readHeader_generic (nm16 b0 x0 x1 m0 m1 m2 m3) (nmOp co b0) ((b0 &&& 0x80) >>> 7) 126 (nmCo co b0)
      (fun c => c = co ∨ c = nmCo co b0)
      (fun e' => finishHeader (ctxAtHeader (nm16 b0 x0 x1 m0 m1 m2 m3) (nmOp co b0) ((b0 &&& 0x80) >>> 7) 126 (nmCo co b0)) e')
      (by simp [nm16])
      (by
        intro j hj
        by_cases h2 : 2 ≤ j
        · simp only [nm16, take_two_plus _ _ _ j h2, hdrWant, h2, if_true]
          have : (0xfe : Byte) &&& 0x7f = 126 := by decide
          simp [this]
        · have : j = 0 ∨ j = 1 := by omega
          rcases this with rfl | rfl <;> simp [nm16, hdrWant])
      (by
        intro j hj opc fin pl co'
        have : j = 0 ∨ j = 1 := by omega
        rcases this with rfl | rfl <;> simp [nm16, parse2, ctxAtHeader])
      (by
        intro j hj _ opc fin pl co' hc
        simp only [nm16, take_two_plus _ _ _ j hj]
        have := parse2_data_ext co co' b0 0xfe ([x0, x1, m0, m1, m2, m3].take (j - 2)) hd (Or.inl rfl) hc opc fin pl
        rw [hl7] at this
        exact this)
      (Or.inr rfl)
      (by
        intro j hj e
        apply finishHeader_pending
        · simp [ctxAtHeader]
        · simp only [ctxAtHeader, Ctx.nRead, List.length_take, nm16] at hj ⊢
          simp at hj ⊢; omega
        · simp [ctxAtHeader])
      (fun _ => rfl)
      j opc fin pl co' e body hj hco hpend hff hs
    obtain ⟨e', h1, h2, h3⟩ := hg
    refine ⟨e', h1, h2, ?_⟩
    rcases h3 with h3 | ⟨h3, h4⟩
    · exact Or.inl h3
    · right
      rw [h3]
      obtain ⟨a1, a2, _, _⟩ := finishHeader_nonminimal16
        (ctxAtHeader (nm16 b0 x0 x1 m0 m1 m2 m3) (nmOp co b0) ((b0 &&& 0x80) >>> 7) 126 (nmCo co b0)) e'
        b0 0xfe x0 x1 m0 m1 m2 m3 [] rfl rfl hlen
      exact ⟨a1, a2, finishHeader_env _ _, h4⟩
  · have hl7 : ((0xff : Byte) &&& 0x7f).toNat = 127 := by decide
    have hg := readHeader_generic (nm64 b0 x0 x1 x2 x3 x4 x5 x6 x7 m0 m1 m2 m3) (nmOp co b0) ((b0 &&& 0x80) >>> 7) 127
      (nmCo co b0) (fun c => c = co ∨ c = nmCo co b0)
      (fun e' => finishHeader (ctxAtHeader (nm64 b0 x0 x1 x2 x3 x4 x5 x6 x7 m0 m1 m2 m3) (nmOp co b0)
        ((b0 &&& 0x80) >>> 7) 127 (nmCo co b0)) e')
      (by simp [nm64])
      (by
        intro j hj
        by_cases h2 : 2 ≤ j
        · simp only [nm64, take_two_plus _ _ _ j h2, hdrWant, h2, if_true]
          have a1 : ¬ ((0xff : Byte) &&& 0x7f = 126) := by decide
          have a2 : (0xff : Byte) &&& 0x7f = 127 := by decide
          simp [a1, a2]
        · have : j = 0 ∨ j = 1 := by omega
          rcases this with rfl | rfl <;> simp [nm64, hdrWant])
      (by
        intro j hj opc fin pl co'
        have : j = 0 ∨ j = 1 := by omega
        rcases this with rfl | rfl <;> simp [nm64, parse2, ctxAtHeader])
      (by
        intro j hj _ opc fin pl co' hc
        simp only [nm64, take_two_plus _ _ _ j hj]
        have := parse2_data_ext co co' b0 0xff ([x0, x1, x2, x3, x4, x5, x6, x7, m0, m1, m2, m3].take (j - 2)) hd
          (Or.inr rfl) hc opc fin pl
        rw [hl7] at this
        exact this)
      (Or.inr rfl)
      (by
        intro j hj e
        apply finishHeader_pending
        · simp [ctxAtHeader]
        · simp [ctxAtHeader]
        · simp only [ctxAtHeader, Ctx.nRead, List.length_take, nm64] at hj ⊢
          simp at hj ⊢; omega)
      (fun _ => rfl)
      j opc fin pl co' e body hj hco hpend hff hs
    obtain ⟨e', h1, h2, h3⟩ := hg
    refine ⟨e', h1, h2, ?_⟩
    rcases h3 with h3 | ⟨h3, h4⟩
    · exact Or.inl h3
    · right
      rw [h3]
      obtain ⟨a1, a2, _, _⟩ := finishHeader_nonminimal64
        (ctxAtHeader (nm64 b0 x0 x1 x2 x3 x4 x5 x6 x7 m0 m1 m2 m3) (nmOp co b0) ((b0 &&& 0x80) >>> 7) 127 (nmCo co b0)) e'
        b0 0xff x0 x1 x2 x3 x4 x5 x6 x7 m0 m1 m2 m3 [] rfl rfl hlen
      exact ⟨a1, a2, finishHeader_env _ _, h4⟩

end VncModel.Ws

namespace VncModel.Ws

/-- `H` is the header of a masked data frame with a non-minimal length field -/
def IsNonMin (b0 : Byte) (H : List Byte) : Prop :=
  (∃ x0 x1 m0 m1 m2 m3, H = nm16 b0 x0 x1 m0 m1 m2 m3 ∧ beDec [x0, x1] < 126) ∨
  (∃ x0 x1 x2 x3 x4 x5 x6 x7 m0 m1 m2 m3, H = nm64 b0 x0 x1 x2 x3 x4 x5 x6 x7 m0 m1 m2 m3 ∧
    beDec [x0, x1, x2, x3, x4, x5, x6, x7] < 65536)

/-- what follows the valid frames: a protocol violation, to be answered with errno `E`, followed by
arbitrary bytes.  `two`: visible in the first two header bytes (reserved opcode, fragmented control
frame, continuation without start, control frame longer than 125 bytes, unmasked); `nonmin`:
non-minimal length encoding; `close`: a Close frame. -/
inductive BadTail (co : Byte) : List Byte → Errno → Prop
  | two (b0 b1 : Byte) (junk : List Byte) : Viol2 co b0 b1 → BadTail co (b0 :: b1 :: junk) .eproto
  | nonmin (b0 : Byte) (H junk : List Byte) : DataB0 co b0 → IsNonMin b0 H → BadTail co (H ++ junk) .eproto
  | close (f : Frame) (junk : List Byte) : f.hok co → f.effOp co = opClose →
      BadTail co (f.header ++ (xorMask f.mask f.payload ++ junk)) .econnreset

/-- decoder states inside the violating frame -/
inductive Bad (co : Byte) : Errno → Ctx → List Byte → Prop
  | two (h : List Byte) (opc fin : Byte) (pl : Nat) (b0 b1 : Byte) (junk p : List Byte) :
      h.length < 2 → h ++ p = b0 :: b1 :: junk → Viol2 co b0 b1 →
      Bad co .eproto (ctxAtHeader h opc fin pl co) p
  | nonmin (b0 : Byte) (H junk : List Byte) (j : Nat) (opc fin : Byte) (pl : Nat) (co' : Byte) :
      DataB0 co b0 → IsNonMin b0 H → j < H.length → (co' = co ∨ co' = nmCo co b0) →
      Bad co .eproto (ctxAtHeader (H.take j) opc fin pl co') (H.drop j ++ junk)
  | closeHdr (f : Frame) (junk : List Byte) (j : Nat) (opc fin : Byte) (pl : Nat) (co' : Byte) :
      f.hok co → f.effOp co = opClose → j < f.header.length → (co' = co ∨ co' = f.nextCo co) →
      Bad co .econnreset (ctxAtHeader (f.header.take j) opc fin pl co')
        (f.header.drop j ++ (xorMask f.mask f.payload ++ junk))
  | closeBody (f : Frame) (junk : List Byte) (st : St) (np : Nat) (carry : List Byte) (wp : Nat)
      (rp : Option Nat) :
      f.hok co → f.effOp co = opClose → (st = .dataNeeded ∨ st = .closeReasonPending) →
      carry.length ≤ 3 → np < f.payload.length → wp + carry.length = f.header.length + np →
      Bad co .econnreset (ctxF f co st np carry (some wp) rp 0 [])
        ((xorMask f.mask f.payload).drop np ++ junk)

theorem Bad_start (co : Byte) (T : List Byte) (E : Errno) (h : BadTail co T E) (opc fin : Byte) (pl : Nat) :
    Bad co E (ctxAtHeader [] opc fin pl co) T := by
  cases h with
  | two b0 b1 junk hv => exact Bad.two [] opc fin pl b0 b1 junk _ (by simp) (by simp) hv
  | nonmin b0 H junk hd hH =>
    have hl : 0 < H.length := by
      rcases hH with ⟨_, _, _, _, _, _, rfl, _⟩ | ⟨_, _, _, _, _, _, _, _, _, _, _, _, rfl, _⟩ <;> simp [nm16, nm64]
    have := Bad.nonmin (co := co) b0 H junk 0 opc fin pl co hd hH hl (Or.inl rfl)
    simpa using this
  | close f junk hok hop =>
    have := Bad.closeHdr (co := co) f junk 0 opc fin pl co hok hop (by have := (header_length_le f).2; omega) (Or.inl rfl)
    simpa using this

end VncModel.Ws
namespace VncModel.Ws

theorem isDataOp_close : isDataOp opClose = false := by decide

/-- one call inside the violating frame: the prescribed error, or EAGAIN with the decoder still
inside that frame — never payload -/
theorem bad_step (co : Byte) (E : Errno) (c : Ctx) (e : Env) (len : Nat) (hbad : Bad co E c e.pending)
    (hff : e.FaultFree) (hs : e.Safe) :
    (decode c e len).2.1.FaultFree ∧ (decode c e len).2.1.Safe ∧
    ((decode c e len).2.2 = .err E ∨
     ((decode c e len).2.2 = .again ∧ Bad co E (decode c e len).1 (decode c e len).2.1.pending)) := by
  generalize hp : e.pending = p at hbad
  cases hbad with
  | two h opc fin pl b0 b1 junk _ hh2 hcat hv =>
    obtain ⟨a1, a2, a3⟩ := decode_bad2 h opc fin pl co b0 b1 junk e len hh2 (by rw [hp]; exact hcat) hv hff hs
    refine ⟨a1, a2, ?_⟩
    rcases a3 with a3 | ⟨a3, h', hh', hc', hcat', _⟩
    · exact Or.inl a3
    · right
      refine ⟨a3, ?_⟩
      rw [hc']
      exact Bad.two h' opc fin pl b0 b1 junk _ hh' hcat' hv
  | nonmin b0 H junk j opc fin pl co' hd hH hj hco =>
    obtain ⟨e', hff', hs', hcs⟩ := readHeader_nonmin H co co' b0 hd hH j opc fin pl e junk hj hco hp hff hs
    have hst0 : (ctxAtHeader (H.take j) opc fin pl co').st = St.headerPending := rfl
    rcases hcs with ⟨j', opc', fin', pl', co'', hj', hco'', hrh, hpe, _⟩ | ⟨h1, h2, h3, h4⟩
    · have hdec : decode (ctxAtHeader (H.take j) opc fin pl co') e len =
          (ctxAtHeader (H.take j') opc' fin' pl' co'', e', .again) := by
        simp only [decode, hst0, hrh]
        simp [spor, ctxAtHeader]
      rw [hdec]
      refine ⟨hff', hs', Or.inr ⟨rfl, ?_⟩⟩
      simp only [hpe]
      exact Bad.nonmin b0 H junk j' opc' fin' pl' co'' hd hH hj' hco''
    · have hdec : (decode (ctxAtHeader (H.take j) opc fin pl co') e len).2 = (e', .err .eproto) := by
        simp only [decode, hst0, h1, if_true, h2, h3]
      rw [hdec]
      exact ⟨hff', hs', Or.inl rfl⟩
  | closeHdr f junk j opc fin pl co' hok hop hj hco =>
    obtain ⟨e', hff', hs', hcs⟩ := readHeader_cases_hok f co co' j opc fin pl e
      (xorMask f.mask f.payload ++ junk) hok hj hco hp hff hs
    have hst0 : (ctxAtHeader (f.header.take j) opc fin pl co').st = St.headerPending := rfl
    rcases hcs with ⟨j', opc', fin', pl', co'', hj', hco'', hrh, hpe, _⟩ | ⟨hrh, hpe⟩
    · have hdec : decode (ctxAtHeader (f.header.take j) opc fin pl co') e len =
          (ctxAtHeader (f.header.take j') opc' fin' pl' co'', e', .again) := by
        simp only [decode, hst0, hrh]
        simp [spor, ctxAtHeader]
      rw [hdec]
      refine ⟨hff', hs', Or.inr ⟨rfl, ?_⟩⟩
      simp only [hpe]
      exact Bad.closeHdr f junk j' opc' fin' pl' co'' hok hop hj' hco''
    · -- header complete: the payload phase starts in the same call
      have hP : f.payload.length ≤ 125 := by
        have hc : f.isControl = true := by
          by_cases hc : f.isControl = true
          · exact hc
          · exfalso
            have hc' : f.isControl = false := by simpa using hc
            rcases (hok.2.2 hc').2 with h | h <;> rw [hop] at h <;> revert h <;> decide
        exact (hok.2.1 hc).2.2
      have hc1 : { ctxInFrame f co 0 [] [] (some f.header.length) St.headerPending with st := St.dataNeeded } =
          ctxF f co .dataNeeded 0 [] (some f.header.length) (some f.header.length) 0 [] := by
        simp [ctxInFrame, ctxF, hop, isDataOp_close, xorFrom]
      obtain ⟨d, hd, hdff, hds, hres⟩ := readAndDecode_close f co hop hP .dataNeeded (Or.inl rfl) 0 [] f.header.length
        (some f.header.length) junk e' len (by simp) (by omega) (by simp) (by rw [hpe]; simp) hff' hs'
      have hdec : decode (ctxAtHeader (f.header.take j) opc fin pl co') e len =
          (spor { d.c with st := d.st }, d.e, d.res) := by
        simp only [decode, hst0, hrh, reduceCtorEq, if_false, ne_eq, not_false_eq_true, if_true, hc1, hd]
      rw [hdec]
      refine ⟨hdff, hds, ?_⟩
      rcases hres with ⟨h1, _⟩ | ⟨h1, h2, np', carry', wp', st', h3, h4, h5, h6, h7, _, h9, h10, _⟩
      · exact Or.inl h1
      · right
        refine ⟨h1, ?_⟩
        rw [h3, ctxF_set_st, h10]
        have hdst : d.st = .dataNeeded ∨ d.st = .closeReasonPending := h2
        rw [spor_ctxF_other _ _ _ (by rcases hdst with h | h <;> rw [h] <;> decide)
          (by rcases hdst with h | h <;> rw [h] <;> decide)]
        exact Bad.closeBody f junk d.st np' carry' wp' (some f.header.length) hok hop hdst h7 h4 h9
  | closeBody f junk st np carry wp rp hok hop hst hk hnp hwp =>
    have hP : f.payload.length ≤ 125 := by
      have hc : f.isControl = true := by
        by_cases hc : f.isControl = true
        · exact hc
        · exfalso
          have hc' : f.isControl = false := by simpa using hc
          rcases (hok.2.2 hc').2 with h | h <;> rw [hop] at h <;> revert h <;> decide
      exact (hok.2.1 hc).2.2
    obtain ⟨d, hd, hdff, hds, hres⟩ := readAndDecode_close f co hop hP st hst np carry wp rp junk e len hk
      (by omega) hwp hp hff hs
    have hdec : decode (ctxF f co st np carry (some wp) rp 0 []) e len = (spor { d.c with st := d.st }, d.e, d.res) := by
      have hst0 : (ctxF f co st np carry (some wp) rp 0 []).st = st := rfl
      rcases hst with h | h <;> subst h <;> simp only [decode, hst0, hd]
    rw [hdec]
    refine ⟨hdff, hds, ?_⟩
    rcases hres with ⟨h1, _⟩ | ⟨h1, h2, np', carry', wp', st', h3, h4, h5, h6, h7, _, h9, h10, _⟩
    · exact Or.inl h1
    · right
      refine ⟨h1, ?_⟩
      rw [h3, ctxF_set_st, h10]
      have hdst : d.st = .dataNeeded ∨ d.st = .closeReasonPending := by
        rcases h2 with h | h
        · rw [h]; exact hst
        · exact Or.inr h
      rw [spor_ctxF_other _ _ _ (by rcases hdst with h | h <;> rw [h] <;> decide)
        (by rcases hdst with h | h <;> rw [h] <;> decide)]
      exact Bad.closeBody f junk d.st np' carry' wp' rp hok hop hdst h7 h4 h9

end VncModel.Ws

namespace VncModel.Ws

/-- inside the valid frames, or inside the violating frame with nothing owed any more -/
def SI (T : List Byte) (cE : Byte) (E : Errno) (c : Ctx) (p V : List Byte) : Prop :=
  Inv T cE true c p V ∨ (V = [] ∧ Bad cE E c p)

theorem SI_of_inv (T : List Byte) (cE : Byte) (E : Errno) (hb : BadTail cE T E) (lv : Bool) (c : Ctx)
    (p V : List Byte) (h : Inv T cE lv c p V) : SI T cE E c p V := by
  cases lv with
  | true => exact Or.inl h
  | false =>
    cases h with
    | done opc fin pl => exact Or.inr ⟨rfl, Bad_start cE T E hb opc fin pl⟩

theorem strict_run_aux (hb : B64RoundTrip) (T : List Byte) (cE : Byte) (E : Errno) (hbt : BadTail cE T E)
    (lens : List Nat) (hl : ∀ l ∈ lens, 0 < l) : ∀ (c : Ctx) (e : Env) (V : List Byte),
    SI T cE E c e.pending V → e.FaultFree → e.Safe →
    (∀ r ∈ runStop c e lens, r.fine = true ∨ r = .err E) ∧
    ∃ V', V = delivered (runStop c e lens) ++ V' ∧ (∀ r ∈ runStop c e lens, r.fine = false → V' = []) := by
  induction lens with
  | nil => intro c e V _ _ _; exact ⟨by simp [runStop], V, by simp [runStop, delivered], by simp [runStop]⟩
  | cons len ls ih =>
    intro c e V hsi hff hs
    have hlen : 0 < len := hl len (by simp)
    have hls : ∀ l ∈ ls, 0 < l := fun l h => hl l (by simp [h])
    rcases hsi with hinv | ⟨hV, hbad⟩
    · obtain ⟨out, V1, h1, _, h3, ⟨lv1, h4⟩, h5, h6, _⟩ :=
        decode_step hb T cE true c e V len hinv (Or.inl rfl) hff hs hlen
      have hfine : (decode c e len).2.2.fine = true := by rw [h1]; split <;> rfl
      have hbytes : (decode c e len).2.2.bytes = out := by rw [h1]; split <;> simp_all [Res.bytes]
      obtain ⟨ih1, V2, ih2, ih3⟩ := ih hls _ _ V1 (SI_of_inv T cE E hbt lv1 _ _ _ h4) h5 h6
      simp only [runStop, hfine, if_true]
      refine ⟨?_, V2, ?_, ?_⟩
      · intro r hr
        simp only [List.mem_cons] at hr
        rcases hr with rfl | hr
        · exact Or.inl hfine
        · exact ih1 r hr
      · simp only [delivered, List.flatMap_cons, hbytes]
        rw [h3, ih2, List.append_assoc]; rfl
      · intro r hr hnf
        simp only [List.mem_cons] at hr
        rcases hr with rfl | hr
        · rw [hfine] at hnf; cases hnf
        · exact ih3 r hr hnf
    · obtain ⟨b1, b2, b3⟩ := bad_step cE E c e len hbad hff hs
      subst hV
      rcases b3 with b3 | ⟨b3, b4⟩
      · have hnf : (decode c e len).2.2.fine = false := by rw [b3]; rfl
        simp only [runStop, hnf, Bool.false_eq_true, if_false]
        refine ⟨?_, [], by simp [delivered, b3, Res.bytes], by simp⟩
        intro r hr
        simp only [List.mem_singleton] at hr
        exact Or.inr (hr ▸ b3)
      · have hfine : (decode c e len).2.2.fine = true := by rw [b3]; rfl
        obtain ⟨ih1, V2, ih2, ih3⟩ := ih hls _ _ [] (Or.inr ⟨rfl, b4⟩) b1 b2
        simp only [runStop, hfine, if_true]
        refine ⟨?_, V2, ?_, ?_⟩
        · intro r hr
          simp only [List.mem_cons] at hr
          rcases hr with rfl | hr
          · exact Or.inl hfine
          · exact ih1 r hr
        · simp only [delivered, List.flatMap_cons, b3, Res.bytes, List.nil_append]
          exact ih2
        · intro r hr hnf
          simp only [List.mem_cons] at hr
          rcases hr with rfl | hr
          · rw [hfine] at hnf; cases hnf
          · exact ih3 r hr hnf

end VncModel.Ws
