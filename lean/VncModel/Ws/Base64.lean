import VncModel.Ws.Bytes
/-
Model of src/common/base64.c: `__b64_ntop` (rfbBase64NtoP) and `__b64_pton` (rfbBase64PtoN),
transliterated.  `pton` works on the C string (up to the first NUL) and returns `none` for -1.
Compared with the C routines on every run (ops `b64e`, `b64d` and all text-frame decoder cases).
-/
namespace VncModel.Ws

/-- `Base64[v]` for `v < 64` (the code never indexes with more: every index is built from
6 bits) -/
def b64Char (v : Byte) : Byte :=
  if v < 26 then 65 + v
  else if v < 52 then 97 + (v - 26)
  else if v < 62 then 48 + (v - 52)
  else if v = 62 then 43 else 47

/-- `strchr(Base64, ch) - Base64` for `ch ≠ 0`; `none` when `strchr` returns NULL -/
def b64Val (c : Byte) : Option Byte :=
  if 65 ≤ c ∧ c ≤ 90 then some (c - 65)
  else if 97 ≤ c ∧ c ≤ 122 then some (c - 97 + 26)
  else if 48 ≤ c ∧ c ≤ 57 then some (c - 48 + 52)
  else if c = 43 then some 62
  else if c = 47 then some 63
  else none

def pad64 : Byte := 61

/-- `__b64_ntop` output (without the terminating NUL) -/
def ntop : List Byte → List Byte
  | a :: b :: c :: rest =>
    b64Char (a >>> 2) :: b64Char (((a &&& 0x03) <<< 4) + (b >>> 4)) ::
    b64Char (((b &&& 0x0f) <<< 2) + (c >>> 6)) :: b64Char (c &&& 0x3f) :: ntop rest
  | [a, b] =>
    [b64Char (a >>> 2), b64Char (((a &&& 0x03) <<< 4) + (b >>> 4)), b64Char ((b &&& 0x0f) <<< 2), pad64]
  | [a] => [b64Char (a >>> 2), b64Char ((a &&& 0x03) <<< 4), pad64, pad64]
  | [] => []

/-- `__b64_ntop(src, n, target, targsize)`: -1 exactly when the output (plus NUL) does not fit -/
def ntopN (src : List Byte) (targsize : Nat) : Option (List Byte) :=
  if (ntop src).length < targsize then some (ntop src) else none

/-- `isspace` in the C locale -/
def isSpace (c : Byte) : Bool := c == 32 || (9 ≤ c && c ≤ 13)

/-- after a pad character in state 3 (or the second pad in state 2): only white space may follow;
then the "extra bits are zero" check -/
def ptonAfterPad (rest : List Byte) (ts : Nat) (out : List Byte) (cur : Byte) : Option (List Byte) :=
  if rest.all isSpace then
    if out.length < ts ∧ cur ≠ 0 then none else some out.reverse
  else none

/-- the part of `__b64_pton` after the first pad character; `rest` = characters after it -/
def ptonPad (rest : List Byte) (st : Nat) (ts : Nat) (out : List Byte) (cur : Byte) :
    Option (List Byte) :=
  match st with
  | 0 => none
  | 1 => none
  | 2 =>
    match rest.dropWhile isSpace with
    | c :: rest' => if c = pad64 then ptonAfterPad rest' ts out cur else none
    | [] => none
  | _ => ptonAfterPad rest ts out cur

/-- main loop of `__b64_pton`: `out` = target[0..tarindex) reversed, `cur` = target[tarindex] -/
def ptonGo (ts : Nat) : List Byte → Nat → List Byte → Byte → Option (List Byte)
  | [], st, out, _ => if st = 0 then some out.reverse else none
  | ch :: rest, st, out, cur =>
    if isSpace ch then ptonGo ts rest st out cur
    else if ch = pad64 then ptonPad rest st ts out cur
    else match b64Val ch with
      | none => none
      | some v =>
        if out.length ≥ ts then none else
        match st with
        | 0 => ptonGo ts rest 1 out (v <<< 2)
        | 1 =>
          let nb := (v &&& 0x0f) <<< 4
          if out.length + 1 < ts ∨ nb = 0 then ptonGo ts rest 2 ((cur ||| (v >>> 4)) :: out) nb
          else none
        | 2 =>
          let nb := (v &&& 0x03) <<< 6
          if out.length + 1 < ts ∨ nb = 0 then ptonGo ts rest 3 ((cur ||| (v >>> 2)) :: out) nb
          else none
        | _ => ptonGo ts rest 0 ((cur ||| v) :: out) 0

/-- `__b64_pton(src, target, targsize)` with `target != NULL`; `src` is cut at the first NUL -/
def pton (src : List Byte) (targsize : Nat) : Option (List Byte) :=
  ptonGo targsize (src.takeWhile (· != 0)) 0 [] 0

end VncModel.Ws
