import VncModel.Ws.LemmasStep
/-! Strictness: header violations and Close frames end the call with an error, never with payload. -/
namespace VncModel.Ws

/-- `parse2` never lets a header through whose remaining checks fail; helper tactic pattern:
split every branch, error branches close by `rfl`, the `.ok` branch contradicts the hypothesis -/
theorem parse2_unmasked (c : Ctx) (b0 b1 : Byte) (tl : List Byte) (hh : c.hdr = b0 :: b1 :: tl)
    (hm : b1 &&& 0x80 = 0) : ∃ c', parse2 c = .error .eproto c' := by
  unfold parse2
  rw [hh]
  simp only
  repeat' split
  all_goals first | exact ⟨_, rfl⟩ | (exfalso; simp_all)

/-- control frame with FIN clear ⇒ protocol error -/
theorem parse2_fragmented_control (c : Ctx) (b0 b1 : Byte) (tl : List Byte) (hh : c.hdr = b0 :: b1 :: tl)
    (hctl : (b0 &&& 0x0f) &&& 0x08 != 0) (hfin : (b0 &&& 0x80) >>> 7 = 0) :
    ∃ c', parse2 c = .error .eproto c' := by
  unfold parse2
  rw [hh]
  simp only [Ctx.isControl, hctl, if_true, hfin]
  repeat' split
  all_goals first | exact ⟨_, rfl⟩ | (exfalso; simp_all)

/-- continuation frame while no message is open ⇒ protocol error -/
theorem parse2_continuation_without_start (c : Ctx) (b0 b1 : Byte) (tl : List Byte)
    (hh : c.hdr = b0 :: b1 :: tl) (hnc : ((b0 &&& 0x0f) &&& 0x08 != 0) = false)
    (hop : b0 &&& 0x0f = opContinuation) (hco : c.contOp = opInvalid) :
    ∃ c', parse2 c = .error .eproto c' := by
  unfold parse2
  rw [hh]
  simp only [Ctx.isControl, hnc, Bool.false_eq_true, if_false, hop, if_true, hco]
  repeat' split
  all_goals first | exact ⟨_, rfl⟩ | (exfalso; simp_all)

/-- reserved opcode (0x3-0x7, 0xB-0xF) ⇒ protocol error -/
theorem parse2_reserved_opcode (c : Ctx) (b0 b1 : Byte) (tl : List Byte) (hh : c.hdr = b0 :: b1 :: tl)
    (hres : isReservedOp (b0 &&& 0x0f) = true) : ∃ c', parse2 c = .error .eproto c' := by
  unfold parse2
  rw [hh]
  simp only [hres, if_true]
  exact ⟨_, rfl⟩

/-- control frame announcing more than 125 payload bytes (i.e. using an extended length form)
⇒ protocol error -/
theorem parse2_oversized_control (c : Ctx) (b0 b1 : Byte) (tl : List Byte) (hh : c.hdr = b0 :: b1 :: tl)
    (hctl : (b0 &&& 0x0f) &&& 0x08 != 0) (hlen : (b1 &&& 0x7f).toNat > 125) :
    ∃ c', parse2 c = .error .eproto c' := by
  unfold parse2
  rw [hh]
  by_cases hres : isReservedOp (b0 &&& 0x0f) = true
  · simp only [hres, if_true]; exact ⟨_, rfl⟩
  · by_cases hfin : (b0 &&& 0x80) >>> 7 = 0
    · simp only [hres, Ctx.isControl, hctl, if_true, hfin, Bool.false_eq_true, if_false]
      exact ⟨_, rfl⟩
    · have hl : (b1 &&& 0x7f).toNat > 125 := hlen
      simp only [hres, Ctx.isControl, hctl, if_true, hfin, Bool.false_eq_true, if_false, hl, and_self]
      exact ⟨_, rfl⟩

/-- a header violation found while parsing the first two bytes ends the call with that error:
nothing is delivered, the decoder is reset -/
theorem decode_parse2_error (c : Ctx) (e e1 : Env) (len : Nat) (bs : List Byte) (en : Errno) (c' : Ctx)
    (hst : c.st = .headerPending) (hrd : e.read c.nRead (hdrMissing c) = (.data bs, e1))
    (hp : parse2 { c with hdr := c.hdr ++ bs } = .error en c') :
    decode c e len = (cleanupComplete { cleanupComplete c' with st := .err }, e1, .err en) := by
  have hrh : readHeader c e = ⟨cleanupComplete c', e1, .err, .err en, []⟩ := by
    unfold readHeader
    rw [hrd]; simp only [hp]
  unfold decode
  rw [hst]
  simp only [hrh, if_true, spor]
  simp [cleanupComplete, cleanupBasics]

end VncModel.Ws
namespace VncModel.Ws

/-- 16-bit length form carrying a length below 126 ⇒ protocol error, decoder reset -/
theorem finishHeader_nonminimal16 (c : Ctx) (e : Env) (b0 b1 l0 l1 m0 m1 m2 m3 : Byte) (tl : List Byte)
    (hpl : c.payloadLen = 126) (hh : c.hdr = b0 :: b1 :: l0 :: l1 :: m0 :: m1 :: m2 :: m3 :: tl)
    (hlen : beDec [l0, l1] < 126) :
    (finishHeader c e).st = .err ∧ (finishHeader c e).res = .err .eproto ∧
    (finishHeader c e).c.st = .headerPending ∧ (finishHeader c e).c.hdr = [] := by
  unfold finishHeader
  have hn : c.nRead = 8 + tl.length := by simp [Ctx.nRead, hh]; omega
  have c1 : ¬ (c.payloadLen < 126 ∧ c.nRead ≥ 6) := by rw [hpl]; omega
  have c2 : c.payloadLen = 126 ∧ 8 ≤ c.nRead := ⟨hpl, by omega⟩
  simp only [c1, c2, if_false, and_self, if_true, hh]
  simp [hlen, cleanupComplete, cleanupBasics]

/-- 64-bit length form carrying a length below 65536 ⇒ protocol error, decoder reset -/
theorem finishHeader_nonminimal64 (c : Ctx) (e : Env)
    (b0 b1 l0 l1 l2 l3 l4 l5 l6 l7 m0 m1 m2 m3 : Byte) (tl : List Byte)
    (hpl : c.payloadLen = 127)
    (hh : c.hdr = b0 :: b1 :: l0 :: l1 :: l2 :: l3 :: l4 :: l5 :: l6 :: l7 :: m0 :: m1 :: m2 :: m3 :: tl)
    (hlen : beDec [l0, l1, l2, l3, l4, l5, l6, l7] < 65536) :
    (finishHeader c e).st = .err ∧ (finishHeader c e).res = .err .eproto ∧
    (finishHeader c e).c.st = .headerPending ∧ (finishHeader c e).c.hdr = [] := by
  unfold finishHeader
  have hn : c.nRead = 14 + tl.length := by simp [Ctx.nRead, hh]; omega
  have c1 : ¬ (c.payloadLen < 126 ∧ c.nRead ≥ 6) := by rw [hpl]; omega
  have c2 : ¬ (c.payloadLen = 126 ∧ 8 ≤ c.nRead) := by rw [hpl]; omega
  have c3 : c.payloadLen = 127 ∧ 14 ≤ c.nRead := ⟨hpl, by omega⟩
  simp only [c1, c2, c3, if_false, and_self, if_true, hh]
  have : beDec [l0, l1, l2, l3, l4, l5, l6, l7] < 126 ∨ ¬ beDec [l0, l1, l2, l3, l4, l5, l6, l7] < 126 := by omega
  rcases this with h | h <;> simp [hlen, h, cleanupComplete, cleanupBasics]

/-- `hybiReadHeader` itself never hands out payload -/
theorem readHeader_res_not_data (c : Ctx) (e : Env) (bs : List Byte) : (readHeader c e).res ≠ .data bs := by
  have hfin : ∀ c e, (finishHeader c e).res ≠ .data bs := by
    intro c e
    unfold finishHeader
    simp only
    split
    · simp
    · split <;> simp
  unfold readHeader
  split <;> try simp
  split <;> try simp
  split
  · split <;> try simp
    exact hfin _ _
  · exact hfin _ _

/-- a call that starts in HEADER_PENDING and whose header read does not reach DATA_NEEDED returns
what `hybiReadHeader` reported (never data) -/
theorem decode_header_no_data (c : Ctx) (e : Env) (len : Nat) (hst : c.st = .headerPending)
    (h : (readHeader c e).st = .err ∨ (readHeader c e).st = .headerPending) (bs : List Byte) :
    (decode c e len).2.2 ≠ .data bs := by
  unfold decode
  rw [hst]
  simp only
  rcases h with h | h
  · simp only [h, if_true]; exact readHeader_res_not_data c e bs
  · simp only [h, reduceCtorEq, if_false, ne_eq, not_true_eq_false]; exact readHeader_res_not_data c e bs

/-- Close frames: whatever arrives, no payload is handed out; once the frame is complete the call
fails with ECONNRESET -/
theorem finishChunk_close (c : Ctx) (e : Env) (len wpEnd bufsize : Nat) (data : List Byte)
    (hop : c.opcode = opClose) :
    (finishChunk c e len wpEnd bufsize data).res =
      (if c.remaining = 0 then .err .econnreset else .again) := by
  unfold finishChunk
  simp only [hop, if_true, Ctx.remaining]
  split <;> simp_all

/-- shape of `hybiReadAndDecode`: it fails / asks again without touching the payload, or it is
`decodeChunk` on what was read -/
theorem readAndDecode_shape (c : Ctx) (e : Env) (len : Nat) (inbuf : List Byte) :
    (readAndDecode c e len inbuf).res = .ub ∨ (readAndDecode c e len inbuf).res = .err .eio ∨
    (readAndDecode c e len inbuf).res = .closed ∨ (readAndDecode c e len inbuf).res = .again ∨
    ∃ e' wp bufsize xs, readAndDecode c e len inbuf = decodeChunk c e' len inbuf wp bufsize xs := by
  unfold readAndDecode
  cases hw : c.writePos with
  | none => simp
  | some wp0 =>
    simp only
    by_cases h1 : wp0 + c.carry.length + 1 > BUF
    · simp [h1]
    · simp only [h1, if_false]
      generalize (if c.remaining > BUF - (wp0 + c.carry.length) - 1 then BUF - (wp0 + c.carry.length) - 1
        else c.remaining) = N
      by_cases h2 : N > 0
      · simp only [h2, if_true]
        generalize e.read (wp0 + c.carry.length) (N : Int) = r
        obtain ⟨o, e1⟩ := r
        cases o with
        | data xs => right; right; right; right; exact ⟨e1, _, _, xs, rfl⟩
        | again => simp
        | closed => simp
        | fail => simp
        | bad => simp
      · simp only [h2, if_false]
        right; right; right; right; exact ⟨e, _, _, [], rfl⟩

theorem readAndDecode_close_no_data (c : Ctx) (e : Env) (len : Nat) (inbuf bs : List Byte)
    (hop : c.opcode = opClose) : (readAndDecode c e len inbuf).res ≠ .data bs := by
  have hadv : ∀ n, (advance c n).opcode = opClose := fun n => by simp [advance, hop]
  have hdc : ∀ e wp bufsize xs, (decodeChunk c e len inbuf wp bufsize xs).res ≠ .data bs := by
    intro e wp bufsize xs
    unfold decodeChunk
    simp only
    split
    · simp
    · rw [finishChunk_close _ _ _ _ _ _ (hadv _)]
      split <;> simp
  rcases readAndDecode_shape c e len inbuf with h | h | h | h | ⟨e', wp, bufsize, xs, h⟩
  · rw [h]; simp
  · rw [h]; simp
  · rw [h]; simp
  · rw [h]; simp
  · rw [h]; exact hdc _ _ _ _

/-- a call in DATA_NEEDED / CLOSE_REASON_PENDING on a Close frame never returns payload -/
theorem decode_close_no_data (c : Ctx) (e : Env) (len : Nat) (bs : List Byte)
    (hst : c.st = .dataNeeded ∨ c.st = .closeReasonPending) (hop : c.opcode = opClose) :
    (decode c e len).2.2 ≠ .data bs := by
  unfold decode
  rcases hst with h | h <;> rw [h] <;> exact readAndDecode_close_no_data c e len [] bs hop

end VncModel.Ws
