import VncModel.Ws.Base64
/-! Structural lemmas about `ntop` (base64 encoding): length, compatibility with 3-byte / 4-character
chunking.  (The round trip `pton (ntop z) = z` is NOT proved; it is the assumed law.) -/
namespace VncModel.Ws

theorem ntop_length (x : List Byte) : (ntop x).length = 4 * ((x.length + 2) / 3) := by
  fun_induction ntop x with
  | case1 a b c rest ih => simp only [List.length_cons, ih]; omega
  | case2 a b => simp
  | case3 a => simp
  | case4 => simp

theorem ntop_length_mod4 (x : List Byte) : (ntop x).length % 4 = 0 := by
  rw [ntop_length]; omega

theorem ntop_nil : ntop [] = [] := by simp [ntop]

/-- cutting an encoding after `4j` characters = encoding the first `3j` bytes / the rest -/
theorem ntop_take_drop (y : List Byte) (j : Nat) (h : 4 * j ≤ (ntop y).length) :
    (ntop y).take (4 * j) = ntop (y.take (3 * j)) ∧ (ntop y).drop (4 * j) = ntop (y.drop (3 * j)) := by
  fun_induction ntop y generalizing j with
  | case1 a b c rest ih =>
    cases j with
    | zero => simp [ntop]
    | succ j =>
      have h' : 4 * j ≤ (ntop rest).length := by simp only [List.length_cons] at h; omega
      obtain ⟨h1, h2⟩ := ih j h'
      have e1 : 4 * (j + 1) = 4 * j + 1 + 1 + 1 + 1 := by omega
      have e2 : 3 * (j + 1) = 3 * j + 1 + 1 + 1 := by omega
      rw [e1, e2]
      simp only [List.take_succ_cons, List.drop_succ_cons, ntop, h1, h2, and_self]
  | case2 a b =>
    have : j = 0 ∨ j = 1 := by simp at h; omega
    rcases this with rfl | rfl <;> simp [ntop]
  | case3 a =>
    have : j = 0 ∨ j = 1 := by simp at h; omega
    rcases this with rfl | rfl <;> simp [ntop]
  | case4 =>
    have : j = 0 := by simp at h; omega
    subst this; simp [ntop]

end VncModel.Ws
