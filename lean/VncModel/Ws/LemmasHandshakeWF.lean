import VncModel.Ws.LemmasHandshake
/-! Well-formed upgrade requests: the offset/patch scanner refines the value-level reading of the
header lines (`specLine`). -/
namespace VncModel.Ws
open VncModel.Gen

/-- pointer `p` holds the NUL-terminated value `v`, entirely inside the finished lines -/
def Holds (s : Scan) (p : Nat) (v : List Byte) : Prop :=
  ∃ post, s.buf.drop p = v ++ 0 :: post ∧ (∀ x ∈ v, x ≠ 0) ∧ p + v.length < s.linestart

theorem takeWhile_append_stop (v post : List Byte) (h : ∀ x ∈ v, x ≠ 0) :
    (v ++ 0 :: post).takeWhile (· != 0) = v := by
  induction v with
  | nil => simp
  | cons x xs ih =>
    have hx : (x != 0) = true := by simpa using h x (by simp)
    simp only [List.cons_append, List.takeWhile_cons, hx, if_true]
    rw [ih (fun y hy => h y (by simp [hy]))]

theorem Holds.strAt {s : Scan} {p : Nat} {v : List Byte} (h : Holds s p v) : s.strAt p = v := by
  obtain ⟨post, h1, h2, _⟩ := h
  simp only [Scan.strAt, h1]
  exact takeWhile_append_stop v post h2

theorem Holds.push {s : Scan} {p : Nat} {v : List Byte} (h : Holds s p v) (b : Byte)
    (hl : s.linestart ≤ s.len) : Holds (s.push b) p v := by
  obtain ⟨post, h1, h2, h3⟩ := h
  refine ⟨post ++ [b], ?_, h2, h3⟩
  have hp : p ≤ s.buf.length := by simp only [Scan.len] at hl; omega
  simp only [Scan.push, List.drop_append_of_le_length hp, h1]
  simp

theorem drop_set_of_lt {α : Type} (l : List α) (p i : Nat) (a : α) (h : p ≤ i) :
    (l.set i a).drop p = (l.drop p).set (i - p) a := by
  induction l generalizing p i with
  | nil => simp
  | cons x xs ih =>
    cases p with
    | zero => simp
    | succ p =>
      cases i with
      | zero => omega
      | succ i =>
        simp only [List.set_cons_succ, List.drop_succ_cons]
        rw [ih p i (by omega)]
        congr 1; omega

theorem set_append_right {α : Type} (a b : List α) (i : Nat) (x : α) (h : a.length ≤ i) :
    (a ++ b).set i x = a ++ b.set (i - a.length) x := by
  induction a generalizing i with
  | nil => simp
  | cons y ys ih =>
    cases i with
    | zero => simp at h
    | succ i =>
      simp only [List.cons_append, List.set_cons_succ, List.length_cons]
      rw [ih i (by simpa using h)]
      simp

theorem Holds.patch {s : Scan} {p : Nat} {v : List Byte} (h : Holds s p v) (i : Nat)
    (hi : s.linestart ≤ i) : Holds (s.patch i) p v := by
  obtain ⟨post, h1, h2, h3⟩ := h
  have hpi : p ≤ i := by omega
  refine ⟨post.set (i - p - v.length - 1) 0, ?_, h2, h3⟩
  simp only [Scan.patch]
  rw [drop_set_of_lt _ _ _ _ hpi, h1, set_append_right _ _ _ _ (by omega)]
  obtain ⟨k, hk⟩ : ∃ k, i - p - v.length = k + 1 := ⟨i - p - v.length - 1, by omega⟩
  rw [hk, List.set_cons_succ]
  simp

end VncModel.Ws
namespace VncModel.Ws
open VncModel.Gen

/-- value-level view of what the scanner has collected -/
structure ReqSpec where
  val : Fld → Option (List Byte) := fun _ => none
  key1 : Bool := false
  key2 : Bool := false
  version : Bool := false

def ReqSpec.set (F : ReqSpec) (f : Fld) (v : List Byte) : ReqSpec :=
  { F with val := fun g => if g = f then some v else F.val g }

/-- what one well-formed header line (content `l`, followed by CR LF) contributes -/
def specLine (F : ReqSpec) (l : List Byte) : ReqSpec :=
  match lineKind (l ++ [13, 10]) with
  | .get => F.set .path ((l.drop 4).take (l.length - 13))
  | .hdr f plen => F.set f (l.drop plen)
  | .key1 => { F with key1 := true }
  | .key2 => { F with key2 := true }
  | .version => { F with version := versionNonZero (l.drop 23 ++ [13, 10]) }
  | .other => F

def OptHolds (s : Scan) : Option Nat → Option (List Byte) → Prop
  | none, none => True
  | some p, some v => Holds s p v
  | _, _ => False

structure Abs (s : Scan) (F : ReqSpec) : Prop where
  atStart : s.linestart = s.len
  ptrs : ∀ f, OptHolds s (s.ptr f) (F.val f)
  wspath : s.wspath = F.val .path
  k1 : s.key1 = F.key1
  k2 : s.key2 = F.key2
  ver : s.version = F.version

def pushAll (s : Scan) (bs : List Byte) : Scan := bs.foldl Scan.push s

theorem pushAll_buf (s : Scan) (bs : List Byte) :
    (pushAll s bs).buf = s.buf ++ bs ∧ (pushAll s bs).linestart = s.linestart ∧
    (pushAll s bs).ptr = s.ptr ∧ (pushAll s bs).key1 = s.key1 ∧ (pushAll s bs).key2 = s.key2 ∧
    (pushAll s bs).version = s.version ∧ (pushAll s bs).wspath = s.wspath := by
  induction bs generalizing s with
  | nil => simp [pushAll]
  | cons b bs ih =>
    obtain ⟨a1, a2, a3, a4, a5, a6, a7⟩ := ih (s.push b)
    have e : pushAll s (b :: bs) = pushAll (s.push b) bs := rfl
    rw [e, a1, a2, a3, a4, a5, a6, a7]
    simp [Scan.push]

theorem scan_plain (bs rest : List Byte) : ∀ s : Scan, (∀ x ∈ bs, x ≠ 10) →
    s.len + bs.length ≤ HSMAX - 1 → scanLoop (bs ++ rest) s = scanLoop rest (pushAll s bs) := by
  induction bs with
  | nil => intro s _ _; simp [pushAll]
  | cons b bs ih =>
    intro s h10 hlen
    have hb : b ≠ 10 := h10 b (by simp)
    simp only [List.cons_append, List.length_cons] at hlen ⊢
    rw [scanLoop]
    have hfull : ¬ s.len ≥ HSMAX - 1 := by omega
    simp only [hfull, if_false, hb, and_false]
    have hl : (s.push b).len = s.len + 1 := by simp [Scan.push, Scan.len]
    rw [ih (s.push b) (fun x hx => h10 x (by simp [hx])) (by omega)]
    simp [pushAll]

/-- a line feed that completes a non-empty line -/
theorem scan_lf (rest : List Byte) (s : Scan) (hlen : s.len < HSMAX - 1)
    (h2 : (s.push 10).len - (s.push 10).linestart ≥ 2) (hne : (s.push 10).line ≠ [13, 10]) :
    scanLoop (10 :: rest) s =
      scanLoop rest { processLine (s.push 10) with linestart := (processLine (s.push 10)).len } := by
  rw [scanLoop]
  have hfull : ¬ s.len ≥ HSMAX - 1 := by omega
  simp only [hfull, if_false, h2, and_self, if_true, hne]

end VncModel.Ws
namespace VncModel.Ws
open VncModel.Gen

theorem Holds.congr {s s' : Scan} {p : Nat} {v : List Byte} (h : Holds s p v) (hb : s'.buf = s.buf)
    (hl : s.linestart ≤ s'.linestart) : Holds s' p v := by
  obtain ⟨post, h1, h2, h3⟩ := h
  exact ⟨post, by rw [hb]; exact h1, h2, by omega⟩

theorem Holds.pushAll {s : Scan} {p : Nat} {v : List Byte} (h : Holds s p v) (bs : List Byte)
    (hl : s.linestart ≤ s.len) : Holds (pushAll s bs) p v := by
  obtain ⟨post, h1, h2, h3⟩ := h
  obtain ⟨b1, b2, _⟩ := pushAll_buf s bs
  refine ⟨post ++ bs, ?_, h2, by rw [b2]; exact h3⟩
  have hp : p ≤ s.buf.length := by simp only [Scan.len] at hl; omega
  rw [b1, List.drop_append_of_le_length hp, h1]
  simp

/-- a recognised prefix cannot reach into the CR LF of the line -/
theorem prefix_len_le (p l : List Byte) (h : hasPrefixCI p (l ++ [13, 10]) = true)
    (hp : ∀ c ∈ p.map lowerB, c ≠ 13 ∧ c ≠ 10) : p.length ≤ l.length := by
  simp only [hasPrefixCI, Bool.and_eq_true, decide_eq_true_eq, beq_iff_eq] at h
  obtain ⟨h1, h2⟩ := h
  rcases Nat.lt_or_ge l.length p.length with hlt' | hge
  · exfalso
    have hmem : lowerB 13 ∈ (List.take p.length (l ++ [13, 10])).map lowerB := by
      apply List.mem_map_of_mem
      rw [List.take_append]
      apply List.mem_append_right
      obtain ⟨k, hk⟩ : ∃ k, p.length - l.length = k + 1 := ⟨p.length - l.length - 1, by omega⟩
      rw [hk]; simp
    rw [h2] at hmem
    exact (hp _ hmem).1 (by decide)
  · exact hge

theorem plen1 : pHost.length = 6 := by decide
theorem plen2 : pOrigin.length = 8 := by decide
theorem plen3 : pProtocol.length = 24 := by decide
theorem plen4 : pSecOrigin.length = 22 := by decide
theorem plen5 : pKey.length = 19 := by decide
theorem plen6 : pVersion.length = 23 := by decide
theorem plen7 : pGet.length = 4 := by decide
theorem plens : pHost.length = 6 ∧ pOrigin.length = 8 ∧ pProtocol.length = 24 ∧ pSecOrigin.length = 22 ∧
    pKey.length = 19 ∧ pVersion.length = 23 ∧ pGet.length = 4 := ⟨plen1, plen2, plen3, plen4, plen5, plen6, plen7⟩

theorem lineKind_hdr_len (l : List Byte) (f : Fld) (plen : Nat)
    (h : lineKind (l ++ [13, 10]) = .hdr f plen) : plen ≤ l.length := by
  obtain ⟨e1, e2, e3, e4, e5, _, _⟩ := plens
  unfold lineKind at h
  repeat' split at h
  all_goals first
    | (cases h; done)
    | (cases h; have := prefix_len_le pHost l (by assumption) (by decide); omega)
    | (cases h; have := prefix_len_le pOrigin l (by assumption) (by decide); omega)
    | (cases h; have := prefix_len_le pProtocol l (by assumption) (by decide); omega)
    | (cases h; have := prefix_len_le pSecOrigin l (by assumption) (by decide); omega)
    | (cases h; have := prefix_len_le pKey l (by assumption) (by decide); omega)

theorem lineKind_hdr_ne_path (line : List Byte) (f : Fld) (plen : Nat)
    (h : lineKind line = .hdr f plen) : f ≠ Fld.path := by
  unfold lineKind at h
  repeat' split at h
  all_goals first
    | (cases h; done)
    | (injection h with h1 h2; subst h1; decide)

theorem lineKind_get_len (line : List Byte) (h : lineKind line = .get) : line.length ≥ 16 := by
  unfold lineKind at h
  repeat' split at h
  all_goals first
    | (cases h; done)
    | (rename_i hh; exact hh.1)
    | skip

theorem lineKind_version_len (l : List Byte) (h : lineKind (l ++ [13, 10]) = .version) : 23 ≤ l.length := by
  obtain ⟨_, _, _, _, _, e6, _⟩ := plens
  unfold lineKind at h
  repeat' split at h
  all_goals first
    | (cases h; done)
    | (have := prefix_len_le pVersion l (by assumption) (by decide); omega)

end VncModel.Ws
namespace VncModel.Ws
open VncModel.Gen

theorem OptHolds.mono {s s' : Scan} {po : Option Nat} {vo : Option (List Byte)}
    (h : OptHolds s po vo) (f : ∀ p v, Holds s p v → Holds s' p v) : OptHolds s' po vo := by
  cases po with
  | none => cases vo <;> simpa [OptHolds] using h
  | some p =>
    cases vo with
    | none => simpa [OptHolds] using h
    | some v => exact f p v h

/-- a well-formed header line: not empty, no LF, no NUL -/
def WFLine (l : List Byte) : Prop := l ≠ [] ∧ (∀ x ∈ l, x ≠ 10) ∧ (∀ x ∈ l, x ≠ 0)

theorem takeWhile_all_ne {l : List Byte} (h : ∀ x ∈ l, x ≠ 0) : l.takeWhile (· != 0) = l := by
  induction l with
  | nil => rfl
  | cons x xs ih =>
    have hx : (x != 0) = true := by simpa using h x (by simp)
    simp only [List.takeWhile_cons, hx, if_true]
    rw [ih (fun y hy => h y (by simp [hy]))]

theorem buf_after_patch (B l : List Byte) :
    (B ++ (l ++ [13, 10])).set (B.length + l.length) 0 = B ++ (l ++ [0, 10]) := by
  rw [set_append_right _ _ _ _ (by omega)]
  congr 1
  rw [set_append_right _ _ _ _ (by omega)]
  have : B.length + l.length - B.length - l.length = 0 := by omega
  rw [this]; rfl

theorem set_mid (l : List Byte) (k : Nat) (h : k < l.length) :
    l.set k 0 = l.take k ++ 0 :: l.drop (k + 1) := by
  induction l generalizing k with
  | nil => simp at h
  | cons x xs ih =>
    cases k with
    | zero => simp
    | succ k => simp [ih k (by simpa using h)]

/-- scanning one well-formed line keeps the abstraction -/
theorem abs_line (s : Scan) (F : ReqSpec) (l rest : List Byte) (habs : Abs s F) (hwf : WFLine l)
    (hlen : s.len + l.length + 2 ≤ HSMAX - 1) :
    ∃ s', scanLoop (l ++ [13, 10] ++ rest) s = scanLoop rest s' ∧ s'.len = s.len + l.length + 2 ∧
      Abs s' (specLine F l) := by
  obtain ⟨hne, h10, h0⟩ := hwf
  -- all bytes up to and including the CR are plain
  have hplain : ∀ x ∈ l ++ [13], x ≠ 10 := by
    intro x hx
    simp only [List.mem_append, List.mem_singleton] at hx
    rcases hx with hx | rfl
    · exact h10 x hx
    · decide
  have e1 : l ++ [13, 10] ++ rest = (l ++ [13]) ++ (10 :: rest) := by simp
  rw [e1, scan_plain (l ++ [13]) (10 :: rest) s hplain (by simp; omega)]
  obtain ⟨b1, b2, b3, b4, b5, b6, b7⟩ := pushAll_buf s (l ++ [13])
  obtain ⟨sP, hsP⟩ : ∃ sP, pushAll s (l ++ [13]) = sP := ⟨_, rfl⟩
  rw [hsP] at b1 b2 b3 b4 b5 b6 b7 ⊢
  have hP : ∀ p v, Holds s p v → Holds sP p v := by
    intro p v h
    rw [← hsP]
    exact Holds.pushAll h _ (by rw [habs.atStart]; exact Nat.le_refl _)
  have hPlen : sP.len = s.len + l.length + 1 := by simp [Scan.len, b1]; omega
  have hls : s.linestart = s.buf.length := habs.atStart
  have hQbuf : (sP.push 10).buf = s.buf ++ (l ++ [13, 10]) := by
    simp [Scan.push, b1]
  have hQls : (sP.push 10).linestart = s.buf.length := by simp [Scan.push, b2, hls]
  have hQline : (sP.push 10).line = l ++ [13, 10] := by
    simp only [Scan.line, hQbuf, hQls]; simp
  have hQlen : (sP.push 10).len = s.buf.length + l.length + 2 := by
    simp only [Scan.len, hQbuf]; simp; omega
  have hnotblank : (sP.push 10).line ≠ [13, 10] := by
    rw [hQline]
    intro h
    have hl2 := congrArg List.length h
    simp only [List.length_append, List.length_cons, List.length_nil] at hl2
    exact hne (List.length_eq_zero_iff.mp (by omega))
  have hM : HSMAX = 4096 := rfl
  have hc1 : sP.len < HSMAX - 1 := by omega
  have hc2 : (sP.push 10).len - (sP.push 10).linestart ≥ 2 := by rw [hQlen, hQls]; omega
  rw [scan_lf rest sP hc1 hc2 hnotblank]
  refine ⟨_, rfl, ?_, ?_⟩
  · have := (applyLine_props (sP.push 10) (lineKind (sP.push 10).line)).1
    simp only [processLine, Scan.len] at this ⊢
    rw [this]
    simp only [Scan.len] at hQlen
    exact hQlen
  -- old pointers survive: pushes, then a patch at an index inside the new line
  have hold : ∀ p v, Holds s p v → ∀ i, s.buf.length ≤ i → Holds ((sP.push 10).patch i) p v := by
    intro p v h i hi
    have h2 : Holds (sP.push 10) p v := Holds.push (hP p v h) 10 (by rw [b2, hls]; simp [Scan.len, b1])
    exact Holds.patch h2 i (by rw [hQls]; exact hi)
  have hold0 : ∀ p v, Holds s p v → Holds (sP.push 10) p v := by
    intro p v h
    exact Holds.push (hP p v h) 10 (by rw [b2, hls]; simp [Scan.len, b1])
  -- generic: a state with the patched buffer and the line start moved to the end keeps old values
  have hgen : ∀ (i : Nat) (s2 : Scan) (f : Fld), s.buf.length ≤ i → s2.buf = ((sP.push 10).buf).set i 0 →
      s2.linestart = s2.buf.length → s2.ptr f = s.ptr f → OptHolds s2 (s2.ptr f) (F.val f) := by
    intro i s2 f hi hb hl2 hp
    rw [hp]
    refine OptHolds.mono (habs.ptrs f) (fun p v hh => Holds.congr (hold p v hh i hi) (by simp [Scan.patch, hb]) ?_)
    simp only [Scan.patch, hQls, hl2, hb, List.length_set, hQbuf, List.length_append]
    omega
  have hi2 : s.buf.length ≤ (sP.push 10).len - 2 := by rw [hQlen]; omega
  simp only [processLine, hQline, specLine]
  cases hk : lineKind (l ++ [13, 10]) with
  | other =>
    simp only [applyLine]
    refine ⟨by simp [Scan.len], ?_, by simp [Scan.push, b7, habs.wspath], by simp [Scan.push, b4, habs.k1],
      by simp [Scan.push, b5, habs.k2], by simp [Scan.push, b6, habs.ver]⟩
    intro f
    have := habs.ptrs f
    simp only [Scan.push, b3]
    exact OptHolds.mono this (fun p v h => Holds.congr (hold0 p v h) rfl
      (by simp only [Scan.push, b2, hls, Scan.len, b1]; simp))
  | key1 =>
    simp only [applyLine]
    refine ⟨by simp [Scan.len, Scan.patch], ?_, by simp [Scan.push, Scan.patch, b7, habs.wspath],
      by simp, by simp [Scan.push, Scan.patch, b5, habs.k2], by simp [Scan.push, Scan.patch, b6, habs.ver]⟩
    intro f
    apply hgen ((sP.push 10).len - 2) _ f hi2
    · simp [Scan.patch]
    · simp [Scan.patch, Scan.len]
    · simp [Scan.patch, Scan.push, b3]
  | key2 =>
    simp only [applyLine]
    refine ⟨by simp [Scan.len, Scan.patch], ?_, by simp [Scan.push, Scan.patch, b7, habs.wspath],
      by simp [Scan.push, Scan.patch, b4, habs.k1], by simp, by simp [Scan.push, Scan.patch, b6, habs.ver]⟩
    intro f
    apply hgen ((sP.push 10).len - 2) _ f hi2
    · simp [Scan.patch]
    · simp [Scan.patch, Scan.len]
    · simp [Scan.patch, Scan.push, b3]
  | version =>
    have h23 := lineKind_version_len l hk
    have hstr : (sP.push 10).strAt ((sP.push 10).linestart + 23) = l.drop 23 ++ [13, 10] := by
      simp only [Scan.strAt, hQbuf, hQls]
      rw [List.drop_append, List.drop_of_length_le (by omega)]
      simp only [List.nil_append]
      have : s.buf.length + 23 - s.buf.length = 23 := by omega
      rw [this, List.drop_append_of_le_length h23]
      apply takeWhile_all_ne
      intro x hx
      simp only [List.mem_append, List.mem_cons, List.not_mem_nil, or_false] at hx
      rcases hx with hx | rfl | rfl
      · exact h0 x (List.mem_of_mem_drop hx)
      · decide
      · decide
    simp only [applyLine, hstr]
    refine ⟨by simp [Scan.len, Scan.patch], ?_, by simp [Scan.push, Scan.patch, b7, habs.wspath],
      by simp [Scan.push, Scan.patch, b4, habs.k1], by simp [Scan.push, Scan.patch, b5, habs.k2], by simp⟩
    intro f
    apply hgen ((sP.push 10).len - 2) _ f hi2
    · simp [Scan.patch]
    · simp [Scan.patch, Scan.len]
    · simp [Scan.patch, Scan.push, b3]
  | hdr f plen =>
    have hpl := lineKind_hdr_len l f plen hk
    simp only [applyLine]
    have hidx : (sP.push 10).len - 2 = s.buf.length + l.length := by rw [hQlen]; omega
    have hbuf' : ((sP.push 10).buf).set ((sP.push 10).len - 2) 0 = s.buf ++ (l ++ [0, 10]) := by
      rw [hQbuf, hidx, buf_after_patch]
    have hfp : f ≠ Fld.path := lineKind_hdr_ne_path _ f plen hk
    refine ⟨by simp [Scan.len, Scan.patch, Scan.setPtr], ?_,
      by simp [Scan.push, Scan.patch, Scan.setPtr, b7, habs.wspath, ReqSpec.set, Ne.symm hfp],
      by simp [Scan.push, Scan.patch, Scan.setPtr, b4, habs.k1, ReqSpec.set], by simp [Scan.push, Scan.patch, Scan.setPtr, b5, habs.k2, ReqSpec.set],
      by simp [Scan.push, Scan.patch, Scan.setPtr, b6, habs.ver, ReqSpec.set]⟩
    intro g
    by_cases hg : g = f
    · subst hg
      simp only [Scan.setPtr, if_true, ReqSpec.set, OptHolds]
      refine ⟨[10], ?_, fun x hx => h0 x (List.mem_of_mem_drop hx), ?_⟩
      · simp only [Scan.patch, hbuf', hQls]
        rw [List.drop_append, List.drop_of_length_le (by omega)]
        simp only [List.nil_append]
        have : s.buf.length + plen - s.buf.length = plen := by omega
        rw [this, List.drop_append_of_le_length hpl]
      · simp only [Scan.patch, Scan.len, Scan.setPtr, List.length_set, hQbuf, List.length_append,
          List.length_drop, hQls, List.length_cons, List.length_nil]
        omega
    · have e1 : ∀ (S : Scan), (S.setPtr f (S.linestart + plen)).ptr g = S.ptr g := by
        intro S; simp [Scan.setPtr, hg]
      simp only [ReqSpec.set, hg, if_false]
      have := hgen ((sP.push 10).len - 2)
        { ((sP.push 10).patch ((sP.push 10).len - 2)).setPtr f ((sP.push 10).linestart + plen) with
          linestart := (((sP.push 10).patch ((sP.push 10).len - 2)).setPtr f ((sP.push 10).linestart + plen)).len }
        g hi2 (by simp [Scan.patch, Scan.setPtr]) (by simp [Scan.patch, Scan.setPtr, Scan.len])
        (by simp [Scan.patch, Scan.setPtr, Scan.push, b3, hg])
      simpa [Scan.patch] using this
  | get =>
    have h16 := lineKind_get_len _ hk
    simp only [List.length_append, List.length_cons, List.length_nil] at h16
    have hidx : (sP.push 10).len - 11 = s.buf.length + (l.length - 9) := by rw [hQlen]; omega
    have hk9 : l.length - 9 < l.length := by omega
    have hbuf' : ((sP.push 10).buf).set ((sP.push 10).len - 11) 0 =
        s.buf ++ (l.take (l.length - 9) ++ 0 :: (l.drop (l.length - 9 + 1) ++ [13, 10])) := by
      rw [hQbuf, hidx, set_append_right _ _ _ _ (by omega)]
      congr 1
      have e : s.buf.length + (l.length - 9) - s.buf.length = l.length - 9 := by omega
      rw [e, List.set_append_left _ _ (by omega), set_mid l _ hk9]
      simp
    have hv : (l.take (l.length - 9)).drop 4 = (l.drop 4).take (l.length - 13) := by
      rw [List.drop_take]
      congr 1
    have hdrop : (((sP.push 10).buf).set ((sP.push 10).len - 11) 0).drop (s.buf.length + 4) =
        (l.drop 4).take (l.length - 13) ++ 0 :: (l.drop (l.length - 9 + 1) ++ [13, 10]) := by
      rw [hbuf', List.drop_append, List.drop_of_length_le (by omega)]
      simp only [List.nil_append]
      have e : s.buf.length + 4 - s.buf.length = 4 := by omega
      rw [e, List.drop_append_of_le_length (by simp; omega), hv]
    have hnz : ∀ x ∈ (l.drop 4).take (l.length - 13), x ≠ 0 :=
      fun x hx => h0 x (List.mem_of_mem_drop (List.mem_of_mem_take hx))
    simp only [applyLine]
    have hws : (((sP.push 10).patch ((sP.push 10).len - 11)).setPtr Fld.path ((sP.push 10).linestart + 4)).strAt
        ((sP.push 10).linestart + 4) = (l.drop 4).take (l.length - 13) := by
      simp only [Scan.strAt, Scan.setPtr, Scan.patch, hQls, hdrop]
      exact takeWhile_append_stop _ _ hnz
    rw [hws]
    refine ⟨by simp [Scan.len, Scan.patch, Scan.setPtr], ?_, by simp [ReqSpec.set],
      by simp [Scan.push, Scan.patch, Scan.setPtr, b4, habs.k1, ReqSpec.set],
      by simp [Scan.push, Scan.patch, Scan.setPtr, b5, habs.k2, ReqSpec.set],
      by simp [Scan.push, Scan.patch, Scan.setPtr, b6, habs.ver, ReqSpec.set]⟩
    intro g
    by_cases hg : g = Fld.path
    · subst hg
      simp only [Scan.setPtr, if_true, ReqSpec.set, OptHolds]
      refine ⟨l.drop (l.length - 9 + 1) ++ [13, 10], ?_, hnz, ?_⟩
      · simp only [Scan.patch, hQls]; exact hdrop
      · simp only [Scan.patch, Scan.len, Scan.setPtr, List.length_set, hQbuf, List.length_append,
          List.length_take, List.length_drop, hQls, List.length_cons, List.length_nil]
        omega
    · have hval : (F.set Fld.path ((l.drop 4).take (l.length - 13))).val g = F.val g := by
        simp [ReqSpec.set, hg]
      rw [hval]
      apply hgen ((sP.push 10).len - 11) _ g (by rw [hidx]; omega)
      · simp [Scan.patch, Scan.setPtr]
      · simp [Scan.patch, Scan.setPtr, Scan.len]
      · simp [Scan.patch, Scan.setPtr, Scan.push, b3, hg]

end VncModel.Ws

namespace VncModel.Ws
open VncModel.Gen

/-- the bytes of a request made of the given header lines (each followed by CR LF) and the
terminating empty line -/
def wfRequest (lines : List (List Byte)) : List Byte := lines.flatMap (· ++ [13, 10]) ++ [13, 10]

theorem scan_lines (lines : List (List Byte)) (tail : List Byte) : ∀ (s : Scan) (F : ReqSpec), Abs s F →
    (∀ l ∈ lines, WFLine l) → s.len + (lines.flatMap (· ++ [13, 10])).length + 2 ≤ HSMAX - 1 →
    ∃ s', scanLoop (lines.flatMap (· ++ [13, 10]) ++ tail) s = scanLoop tail s' ∧
      Abs s' (lines.foldl specLine F) ∧
      s'.len = s.len + (lines.flatMap (· ++ [13, 10])).length := by
  induction lines with
  | nil => intro s F h _ _; exact ⟨s, by simp, by simpa using h, by simp⟩
  | cons l ls ih =>
    intro s F habs hwf hlen
    simp only [List.flatMap_cons, List.length_append, List.length_cons, List.length_nil] at hlen
    obtain ⟨s1, h1, hlen1, habs1⟩ := abs_line s F l (ls.flatMap (· ++ [13, 10]) ++ tail) habs
      (hwf l (by simp)) (by omega)
    obtain ⟨s2, h2, habs2, hl2⟩ := ih s1 (specLine F l) habs1 (fun x hx => hwf x (by simp [hx])) (by omega)
    refine ⟨s2, ?_, by simpa using habs2, ?_⟩
    · simp only [List.flatMap_cons, List.append_assoc] at h1 ⊢
      rw [h1, h2]
    · simp only [List.flatMap_cons, List.length_append, List.length_cons, List.length_nil]
      omega

end VncModel.Ws
namespace VncModel.Ws
open VncModel.Gen

theorem OptHolds.spec {s : Scan} {po : Option Nat} {vo : Option (List Byte)} (h : OptHolds s po vo) :
    po.isNone = vo.isNone ∧ po.map s.strAt = vo := by
  cases po with
  | none => cases vo <;> simp_all [OptHolds]
  | some p =>
    cases vo with
    | none => simp [OptHolds] at h
    | some v => simp [Holds.strAt h]

/-- what the value-level fields decide -/
def specResult (sha1 : List Byte → List Byte) (F : ReqSpec) (unread : List Byte) : HsResult :=
  if !F.version then .fail else
  match F.val .key with
  | none => .fail
  | some k =>
    if (F.val .path).isNone ∨ (F.val .host).isNone ∨
       ((F.val .origin).isNone ∧ (F.val .secOrigin).isNone) then .fail else
    let ch := chooseProtocol (F.val .protocol)
    let acc := acceptKey sha1 k
    let resp := if ch.2.length > 0 then fmt2 C09.handshakeFmt acc ch.2
                else fmt2 C09.handshakeFmtNoProto acc []
    .ok resp ch.1 ((F.val .path).getD []) unread

theorem finishHandshake_spec (sha1 : List Byte → List Byte) (s : Scan) (F : ReqSpec) (unread : List Byte)
    (hp : ∀ f, OptHolds s (s.ptr f) (F.val f)) (hw : s.wspath = F.val .path) (hv : s.version = F.version) :
    finishHandshake sha1 s unread = specResult sha1 F unread := by
  obtain ⟨k1, k2⟩ := (hp .key).spec
  obtain ⟨p1, _⟩ := (hp .path).spec
  obtain ⟨h1, _⟩ := (hp .host).spec
  obtain ⟨o1, _⟩ := (hp .origin).spec
  obtain ⟨so1, _⟩ := (hp .secOrigin).spec
  obtain ⟨_, pr2⟩ := (hp .protocol).spec
  unfold finishHandshake specResult
  rw [hv, p1, h1, o1, so1, pr2, hw]
  cases hk : s.ptr .key with
  | none =>
    rw [hk] at k1 k2
    have : F.val .key = none := by simpa using k2.symm
    simp [this]
  | some k =>
    rw [hk] at k2
    simp only [Option.map_some] at k2
    rw [← k2]

/-- the empty line ends the scan (no Hixie key1/key2 pair seen) -/
theorem scan_blank (rest : List Byte) (s : Scan) (F : ReqSpec) (habs : Abs s F)
    (hk : ¬ (F.key1 = true ∧ F.key2 = true)) (hlen : s.len + 2 ≤ HSMAX - 1) :
    ∃ sF, scanLoop (13 :: 10 :: rest) s = (sF, rest, .blank) ∧ (∀ f, OptHolds sF (sF.ptr f) (F.val f)) ∧
      sF.wspath = F.val .path ∧ sF.version = F.version := by
  have hM : HSMAX = 4096 := rfl
  have hls : s.linestart = s.buf.length := habs.atStart
  rw [scanLoop]
  have c1 : ¬ s.len ≥ HSMAX - 1 := by omega
  have c13 : ¬ ((13 : Byte) = 10) := by decide
  simp only [c1, if_false, c13, and_false]
  rw [scanLoop]
  have hl1 : (s.push 13).len = s.len + 1 := by simp [Scan.push, Scan.len]
  have c2 : ¬ (s.push 13).len ≥ HSMAX - 1 := by omega
  have hline : ((s.push 13).push 10).line = [13, 10] := by
    simp [Scan.line, Scan.push, hls]
  have hllen : ((s.push 13).push 10).len - ((s.push 13).push 10).linestart ≥ 2 := by
    simp only [Scan.push, Scan.len, List.length_append, List.length_cons, List.length_nil, hls]
    omega
  have hkk : ¬ (((s.push 13).push 10).key1 = true ∧ ((s.push 13).push 10).key2 = true ∧
      ((s.push 13).push 10).len + 8 < HSMAX) := by
    intro ⟨a, b, _⟩
    apply hk
    simp only [Scan.push] at a b
    exact ⟨habs.k1 ▸ a, habs.k2 ▸ b⟩
  simp only [c2, if_false, hllen, and_self, if_true, hline, hkk]
  refine ⟨_, rfl, ?_, by simp [Scan.push, habs.wspath], by simp [Scan.push, habs.ver]⟩
  intro f
  have h0 := habs.ptrs f
  simp only [Scan.push]
  refine OptHolds.mono h0 (fun p v h => ?_)
  have h1 := Holds.push h 13 (by rw [habs.atStart]; exact Nat.le_refl _)
  have h2 := Holds.push h1 10 (by simp [Scan.push, Scan.len, hls])
  exact Holds.congr h2 rfl (Nat.le_refl _)

end VncModel.Ws
namespace VncModel.Ws
open VncModel.Gen

theorem Abs_init : Abs {} {} :=
  ⟨rfl, fun _ => by simp [OptHolds], rfl, rfl, rfl, rfl⟩

/-- **well-formed requests**: header lines without LF / NUL, each terminated by CR LF, an empty line
at the end, at most 4095 bytes, no Hixie key1+key2 pair: the byte-wise scanner (offsets, NUL
patches) decides exactly what the value-level reading of the lines (`specLine`) says; what follows
the request is left unread. -/
theorem handshake_wellformed (sha1 : List Byte → List Byte) (lines : List (List Byte)) (rest : List Byte)
    (ending : HsEnd) (hwf : ∀ l ∈ lines, WFLine l) (hlen : (wfRequest lines).length ≤ HSMAX - 1)
    (hget : pGet.isPrefixOf (wfRequest lines ++ rest) = true)
    (hk : ¬ ((lines.foldl specLine {}).key1 = true ∧ (lines.foldl specLine {}).key2 = true)) :
    handshake sha1 (wfRequest lines ++ rest) ending =
      specResult sha1 (lines.foldl specLine {}) rest := by
  unfold handshake
  simp only [hget, Bool.not_true, Bool.false_eq_true, if_false]
  have hl' : (lines.flatMap (· ++ [13, 10])).length + 2 ≤ HSMAX - 1 := by
    simpa [wfRequest] using hlen
  obtain ⟨s1, h1, habs1, hlen1⟩ := scan_lines lines (13 :: 10 :: rest) {} {} Abs_init hwf
    (by simpa [Scan.len] using hl')
  obtain ⟨sF, h2, hp, hw, hv⟩ := scan_blank rest s1 _ habs1 hk
    (by rw [hlen1]; simp only [Scan.len, List.length_nil] ; omega)
  have hreq : wfRequest lines ++ rest = lines.flatMap (· ++ [13, 10]) ++ 13 :: 10 :: rest := by
    simp [wfRequest]
  rw [hreq, h1, h2]
  simp only [reduceCtorEq, false_or, false_and, if_false]
  exact finishHandshake_spec sha1 sF _ rest hp hw hv

end VncModel.Ws
namespace VncModel.Ws
open VncModel.Gen

/-- prefix test against a line that starts with a header name `n` (any letter case), when the
prefix is not longer than the name -/
theorem hasPrefixCI_short (p n x : List Byte) (h : p.length ≤ n.length) :
    hasPrefixCI p (n ++ x) = ((n.map lowerB).take p.length == p.map lowerB) := by
  simp only [hasPrefixCI, List.length_append]
  have h1 : p.length ≤ n.length + x.length := by omega
  simp only [h1, decide_true, Bool.true_and, List.take_append_of_le_length h, List.map_take]

/-- ... and when it is longer but already differs inside the name -/
theorem hasPrefixCI_long (p n x : List Byte) (h : n.length < p.length)
    (hd : (p.map lowerB).take n.length ≠ n.map lowerB) : hasPrefixCI p (n ++ x) = false := by
  simp only [hasPrefixCI, Bool.and_eq_false_iff, decide_eq_false_iff_not, beq_eq_false_iff_ne]
  right
  intro heq
  apply hd
  have := congrArg (List.take n.length) heq
  rw [← this, ← List.map_take, List.take_take, Nat.min_eq_left (by omega),
    List.take_append_of_le_length (Nat.le_refl _), List.take_length]

theorem not_get_of_first (n x : List Byte) (c : Byte) (t : List Byte) (hn : n = c :: t) (hc : c ≠ 71) :
    pGet.isPrefixOf (n ++ x) = false := by
  subst hn
  simp [pGet, List.isPrefixOf, hc, Ne.symm hc]

end VncModel.Ws
namespace VncModel.Ws
open VncModel.Gen

/-- classification of a line that starts with the header name `n` (in any letter case), for the
header names the handshake needs -/
theorem lineKind_of_name (n x : List Byte) (q : List Byte) (hq : n.map lowerB = q) :
    (q = pKey → lineKind (n ++ x) = .hdr .key 19) ∧
    (q = pHost → lineKind (n ++ x) = .hdr .host 6) ∧
    (q = pOrigin → lineKind (n ++ x) = .hdr .origin 8) ∧
    (q = pProtocol → lineKind (n ++ x) = .hdr .protocol 24) ∧
    (q = pSecOrigin → lineKind (n ++ x) = .hdr .secOrigin 22) ∧
    (q = pVersion → lineKind (n ++ x) = .version) := by
  have hlen : n.length = q.length := by rw [← hq]; simp
  have key : ∀ (target : List Byte), q = target → target ≠ [] → (∀ c ∈ target.head?, c ≠ 103) →
      pGet.isPrefixOf (n ++ x) = false := by
    intro target ht hne hh
    subst ht
    cases n with
    | nil => exact absurd hq.symm hne
    | cons c t =>
      apply not_get_of_first _ x c t rfl
      intro hc
      subst hc
      simp only [List.map_cons] at hq
      have := hh (lowerB 71) (by rw [← hq]; simp)
      exact this (by decide)
  -- evaluation of one prefix test for a name whose lower-case form is the literal `q`
  have ev : ∀ p : List Byte, hasPrefixCI p (n ++ x) =
      if p.length ≤ q.length then (q.take p.length == p.map lowerB)
      else if (p.map lowerB).take q.length ≠ q then false else hasPrefixCI p (n ++ x) := by
    intro p
    by_cases h : p.length ≤ q.length
    · simp only [h, if_true]; rw [hasPrefixCI_short p n x (by omega), hq]
    · simp only [h, if_false]
      by_cases hd : (p.map lowerB).take q.length ≠ q
      · rw [if_pos hd]
        exact hasPrefixCI_long p n x (by omega) (by rw [hlen, hq]; exact hd)
      · rw [if_neg hd]
  refine ⟨?_, ?_, ?_, ?_, ?_, ?_⟩ <;> intro h <;>
    (have hg := key q rfl (by rw [h]; decide) (by rw [h]; decide)
     unfold lineKind
     rw [hg, ev pHost, ev pOrigin, ev pKey1, ev pKey2, ev pProtocol, ev pSecOrigin, ev pKey, ev pVersion]
     subst h
     simp +decide)

end VncModel.Ws

namespace VncModel.Ws

/-- a header line `name ++ value` whose name is one of the recognised ones in any letter case
contributes exactly its value -/
theorem specLine_of_name (F : ReqSpec) (n v : List Byte) :
    (n.map lowerB = pKey → specLine F (n ++ v) = F.set .key v) ∧
    (n.map lowerB = pHost → specLine F (n ++ v) = F.set .host v) ∧
    (n.map lowerB = pOrigin → specLine F (n ++ v) = F.set .origin v) ∧
    (n.map lowerB = pProtocol → specLine F (n ++ v) = F.set .protocol v) ∧
    (n.map lowerB = pSecOrigin → specLine F (n ++ v) = F.set .secOrigin v) := by
  obtain ⟨h1, h2, h3, h4, h5, _⟩ := lineKind_of_name n (v ++ [13, 10]) _ rfl
  have hd : ∀ k : Nat, n.length = k → (n ++ v).drop k = v := by
    intro k hk; rw [← hk]; simp
  refine ⟨?_, ?_, ?_, ?_, ?_⟩ <;> intro h <;> unfold specLine <;>
    rw [List.append_assoc]
  · rw [h1 h]; simp only; rw [hd 19 (by rw [← List.length_map (f := lowerB), h]; rfl)]
  · rw [h2 h]; simp only; rw [hd 6 (by rw [← List.length_map (f := lowerB), h]; rfl)]
  · rw [h3 h]; simp only; rw [hd 8 (by rw [← List.length_map (f := lowerB), h]; rfl)]
  · rw [h4 h]; simp only; rw [hd 24 (by rw [← List.length_map (f := lowerB), h]; rfl)]
  · rw [h5 h]; simp only; rw [hd 22 (by rw [← List.length_map (f := lowerB), h]; rfl)]

end VncModel.Ws
