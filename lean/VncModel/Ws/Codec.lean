import VncModel.Gen.C09
import VncModel.Ws.Base64
/-
Frame codec of the WebSocket layer.

* `encodeHybi`  ↔ `webSocketsEncodeHybi` (websockets.c): what the server sends; the length-class
  thresholds (`<= 125`, `<= 65536`) and the UPDATE_BUF_SIZE guard are the regenerated constants.
* `wsWrite`     ↔ the WebSocket branch of `rfbWriteExact` (sockets.c): 32 KiB chunking.
* `Frame`, `Frame.wire` : RFC 6455 client-to-server frames (masked, minimal length encoding) — the
  *specification* side of the decoder theorems.
* `parseHeader` : RFC 6455 header parser for server-to-client (unmasked) frames — the specification
  side of `encoder_valid`.
-/
namespace VncModel.Ws
open VncModel.Gen

/-- `B64LEN(x)` -/
def b64Len (x : Nat) : Nat := ((x + 2) / 3) * 12 / 3

/-- frame header written by `webSocketsEncodeHybi` for opcode `op` and payload length `blen` -/
def encHeader (op : Byte) (blen : Nat) : List Byte :=
  let b0 : Byte := 0x80 ||| (op &&& 0x0f)
  if blen ≤ C09.encShortMax then [b0, UInt8.ofNat blen]
  else if blen ≤ C09.encExtMax then [b0, 0x7e] ++ beEnc 2 blen
  else [b0, 0x7f] ++ beEnc 8 blen

/-- `webSocketsEncodeHybi(cl, src, len, &dst)`: `none` = -1, `some bytes` = bytes at `*dst`
(`some []` for len = 0, "nothing to encode") -/
def encodeHybi (base64 : Bool) (src : List Byte) : Option (List Byte) :=
  if src.length = 0 then some []
  else if src.length > C09.updateBufSize then none
  else if base64 then
    let hdr := encHeader 0x01 (b64Len src.length)
    match ntopN src (C09.encodeBufSize - hdr.length) with
    | none => none
    | some t => some (hdr ++ t)
  else some (encHeader 0x02 src.length ++ src)

/-- the WebSocket branch of `rfbWriteExact`: everything written to the socket for one call
(`none`: an encode error made it return -1).  Fuel = number of chunks, see `wsWrite`. -/
def wsWriteFuel (base64 : Bool) : Nat → List Byte → Option (List Byte)
  | 0, _ => none
  | fuel + 1, buf =>
    if buf.length > C09.updateBufSize then
      match encodeHybi base64 (buf.take C09.updateBufSize) with
      | none => none
      | some w =>
        match wsWriteFuel base64 fuel (buf.drop C09.updateBufSize) with
        | none => none
        | some rest => some (w ++ rest)
    else encodeHybi base64 buf

def wsWrite (base64 : Bool) (buf : List Byte) : Option (List Byte) :=
  wsWriteFuel base64 (buf.length / C09.updateBufSize + 1) buf

/-! ### specification side: client-to-server frames -/

structure Frame where
  b0 : Byte                -- FIN, RSV1-3, opcode
  mask : Mask
  payload : List Byte      -- unmasked payload
  deriving Repr

def Frame.fin (f : Frame) : Byte := (f.b0 &&& 0x80) >>> 7
def Frame.opcode (f : Frame) : Byte := f.b0 &&& 0x0f
def Frame.isControl (f : Frame) : Bool := f.opcode &&& 0x08 != 0

/-- length byte and extended length field, minimal encoding (RFC 6455 5.2) -/
def lenField (n : Nat) : List Byte :=
  if n < 126 then [UInt8.ofNat (128 + n)]
  else if n < 65536 then 0xfe :: beEnc 2 n
  else 0xff :: beEnc 8 n

/-- header of a masked frame: b0, MASK|len, extended length, masking key -/
def Frame.header (f : Frame) : List Byte := f.b0 :: lenField f.payload.length ++ f.mask.toList

def Frame.wire (f : Frame) : List Byte := f.header ++ xorMask f.mask f.payload

def wireOf (fs : List Frame) : List Byte := fs.flatMap Frame.wire

/-! ### specification side: server-to-client frames -/

structure SHeader where
  fin : Bool
  opcode : Byte
  masked : Bool
  len : Nat
  hlen : Nat               -- header length in bytes
  deriving Repr, DecidableEq

/-- RFC 6455 header parser (independent of the encoder): `none` if more bytes are needed -/
def parseHeader (bs : List Byte) : Option SHeader :=
  match bs with
  | b0 :: b1 :: rest =>
    let fin := b0 &&& 0x80 != 0
    let op := b0 &&& 0x0f
    let masked := b1 &&& 0x80 != 0
    let l7 := (b1 &&& 0x7f).toNat
    if l7 < 126 then some ⟨fin, op, masked, l7, 2⟩
    else if l7 = 126 then
      match rest with
      | x0 :: x1 :: _ => some ⟨fin, op, masked, beDec [x0, x1], 4⟩
      | _ => none
    else
      match rest with
      | x0 :: x1 :: x2 :: x3 :: x4 :: x5 :: x6 :: x7 :: _ =>
        some ⟨fin, op, masked, beDec [x0, x1, x2, x3, x4, x5, x6, x7], 10⟩
      | _ => none
  | _ => none

/-- split a byte stream into unmasked frames `(opcode, payload)`; `none` if it is not a sequence
of complete, unmasked, FIN frames.  Fuel-bounded by the stream length. -/
def parseFrames : Nat → List Byte → Option (List (Byte × List Byte))
  | _, [] => some []
  | 0, _ :: _ => none
  | fuel + 1, bs =>
    match parseHeader bs with
    | none => none
    | some h =>
      if h.masked ∨ !h.fin ∨ (bs.drop h.hlen).length < h.len then none
      else
        match parseFrames fuel ((bs.drop h.hlen).drop h.len) with
        | none => none
        | some fs => some ((h.opcode, (bs.drop h.hlen).take h.len) :: fs)

end VncModel.Ws
