import VncModel.Ws.Spec
/-
Abstract decoder states for the transparency proof: the decoder context as a function of the
position in the frame stream, and the invariant `Inv c pending V` = "context `c`, with `pending`
bytes still in the transport, will hand exactly `V` to the caller".
-/
namespace VncModel.Ws

def isDataOp (op : Byte) : Bool := op == opText || op == opBinary

/-- context while a header is being collected: `h` = header bytes so far; `opc`, `fin`, `pl` are
left-overs that the next `parse2` overwrites -/
def ctxAtHeader (h : List Byte) (opc fin : Byte) (pl : Nat) (co : Byte) : Ctx :=
  { st := .headerPending, hdr := h, opcode := opc, fin := fin, payloadLen := pl, mask := Mask.zero,
    headerLen := 0, nReadPayload := 0, carry := [], writePos := none, readPos := some 0,
    readlen := 0, rd := [], contOp := co }

/-- context inside the payload of frame `f` (message `co` open before it): `a` payload bytes are
unmasked and released (a multiple of 4), `cu` are the (unmasked) bytes held in the carry buffer,
`rd` the released bytes not yet handed out -/
def ctxInFrame (f : Frame) (co : Byte) (a : Nat) (cu rd : List Byte) (rp : Option Nat) (st : St) : Ctx :=
  { st := st, hdr := f.header, opcode := f.effOp co, fin := f.fin, payloadLen := f.payload.length,
    mask := f.mask, headerLen := f.header.length, nReadPayload := a + cu.length,
    carry := xorFrom f.mask a cu,
    writePos := some (if isDataOp (f.effOp co) then f.header.length else f.header.length + a),
    readPos := rp, readlen := rd.length, rd := rd, contOp := f.nextCo co }

/-- `Rem op R V`: the unmasked payload rest `R` (starting at a 4-aligned payload offset) of a frame
with effective opcode `op` still owes `V` to the caller -/
def Rem (op : Byte) (R V : List Byte) : Prop :=
  if op = opBinary then V = R else if op = opText then R = ntop V else V = []

/-- the message that is open after a frame sequence -/
def endCo : Byte → List Frame → Byte
  | co, [] => co
  | co, f :: fs => endCo (f.afterCo co) fs

/-- `Inv T cE live c pending V`: the decoder context `c`, with `pending` bytes still in the transport,
is somewhere inside a valid frame sequence that is followed by the bytes `T`; it still owes exactly
`V` to the caller; `cE` is the message open at the end of the valid frames; `live = false` exactly
when all valid frames are finished (the next bytes are `T`) -/
inductive Inv (T : List Byte) (cE : Byte) : Bool → Ctx → List Byte → List Byte → Prop
  | done (opc fin : Byte) (pl : Nat) : Inv T cE false (ctxAtHeader [] opc fin pl cE) T []
  | header (f : Frame) (fs : List Frame) (co co' : Byte) (j : Nat) (opc fin : Byte) (pl : Nat) :
      ValidSeq co (f :: fs) → endCo co (f :: fs) = cE → j < f.header.length →
      (co' = co ∨ co' = f.nextCo co) →
      Inv T cE true (ctxAtHeader (f.header.take j) opc fin pl co')
          (f.header.drop j ++ (xorMask f.mask f.payload ++ (wireOf fs ++ T))) (expected co (f :: fs))
  | frame (f : Frame) (fs : List Frame) (co : Byte) (a : Nat) (cu rest rd Vf : List Byte)
      (rp : Option Nat) (st : St) :
      ValidSeq co (f :: fs) → endCo co (f :: fs) = cE → (rest ≠ [] → a % 4 = 0) → cu.length ≤ 3 →
      f.payload.length = a + cu.length + rest.length → (rest = [] → cu = []) →
      Rem (f.effOp co) (cu ++ rest) Vf →
      ((rd = [] ∧ st = .dataNeeded ∧ rest ≠ []) ∨ (rd ≠ [] ∧ st = .dataAvailable ∧ rp.isSome)) →
      Inv T cE true (ctxInFrame f co a cu rd rp st) (xorFrom f.mask (a + cu.length) rest ++ (wireOf fs ++ T))
          (rd ++ (Vf ++ expected (f.afterCo co) fs))

end VncModel.Ws
