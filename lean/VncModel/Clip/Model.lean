import VncModel.Gen.C18
/-!
# Clipboard (cut text) model — server handler, server senders, client library

C ↔ model (src/libvncserver/rfbserver.c, src/libvncclient/rfbclient.c)

* `stepCut`        ↔ `case rfbClientCutText:` of `rfbProcessClientNormalMessage` (header, sign-encoded
                     length, 1 MiB limit, body read; a stream that ends inside the message is a read
                     time-out → `rfbCloseClient`)
* `handleExt`      ↔ the `isExtendedCutText` block (caps / request / peek / provide, notify ignored)
* `provLoop`       ↔ `rfbProcessExtendedServerCutTextData` (one `[size BE32][bytes]` record per format bit,
                     two `inflate` calls per record)
* `stepEnc`        ↔ `case rfbSetEncodings:` restricted to what it does to the clipboard state
* `sendClassicOne`, `sendUtf8One` ↔ loop bodies of `rfbSendServerCutText`, `rfbSendServerCutTextUTF8`
* `SMsg.wire`      ↔ `rfbSendExtendedClipboardCapability/Notify`, `rfbSendExtendedServerCutTextData`
* `cliStepCut`, `cliExt` ↔ `case rfbServerCutText:` of `HandleRFBServerMessage`,
                     `rfbClientProcessExtServerCutText`
* `cliSendClassic`, `cliSendUtf8` ↔ `SendClientCutText`, `SendClientCutTextUTF8`
                     (`sendExtClientCutTextNotify` + `sendExtClientCutTextProvide`)

zlib is a PARAMETER (`Zlib`): `inflateAll` describes what a fresh inflate stream makes of a complete
input (`out` = bytes produced, `fin` = how it ends), `compress` is zlib's `compress()`,
`compressSync` is LibVNCClient's `CompressClipData` (deflate + Z_SYNC_FLUSH, stream left open).
`zcall` derives the return code of each `inflate(avail_out = n)` call from that description; this
derivation and the laws in `ZLaw` are the assumed zlib behaviour (trusted base), exercised against
the real zlib by the correspondence run.

The model follows the code WITH the three fixes /verif/fixes/C18-*.diff (committed to /repo as
30802b5, 747b2ec, ee998a0):
  * provide-size-check: a record whose declared size exceeds the inflated data closes the
    connection (before: the callback received `size` bytes, the tail uninitialised heap);
  * sendmutex-unlock: `rfbSendServerCutTextUTF8` with a classic client and no fallback releases
    `sendMutex` (before: the next publish, or reaping that client, dead-locked) — the model has no
    lock state, the harness observes a hang as `HANG`;
  * client-cuttext-negate: length 0x80000000 is negated as uint32 (before: signed overflow).
Core Lean only.
-/
namespace VncModel.Clip
open VncModel.Gen.C18

abbrev Bytes := List UInt8

/-- big-endian 32-bit encoding (`Swap32IfLE` + `memcpy`) of `n % 2^32` -/
def be32 (n : Nat) : Bytes :=
  [UInt8.ofNat (n / 16777216 % 256), UInt8.ofNat (n / 65536 % 256), UInt8.ofNat (n / 256 % 256),
   UInt8.ofNat (n % 256)]

/-- big-endian value of the first four bytes.  Every caller has checked `length ≥ 4` (the C code
reads from a buffer of at least that size); the `_ => 0` arm is never reached from the model. -/
def rd32 : Bytes → Nat
  | a :: b :: c :: d :: _ => a.toNat * 16777216 + b.toNat * 65536 + c.toNat * 256 + d.toNat
  | _ => 0

/-- uint32 negation `-x` -/
def neg32 (x : Nat) : Nat := (4294967296 - x % 4294967296) % 4294967296

/-! ## zlib as a parameter -/

inductive Fin where
  | done   -- the stream is complete (inflate reaches Z_STREAM_END); trailing input is ignored
  | more   -- the input is exhausted, the stream is not finished (truncated or sync-flushed)
  | err    -- inflate reports a data error right after `out` has been produced
  deriving DecidableEq, Repr

structure InflRes where
  out : Bytes
  fin : Fin
  deriving DecidableEq, Repr

structure Zlib where
  inflateAll : Bytes → InflRes
  compress : Bytes → Bytes
  compressSync : Bytes → Bytes

/-- the assumed laws (trusted base): decompression inverts both ways of compressing, and neither
compressor produces an empty stream (zlib always emits its 2-byte header) -/
structure ZLaw (Z : Zlib) : Prop where
  inflate_compress : ∀ x, Z.inflateAll (Z.compress x) = ⟨x, .done⟩
  inflate_sync : ∀ x, Z.inflateAll (Z.compressSync x) = ⟨x, .more⟩
  compress_ne : ∀ x, Z.compress x ≠ []
  sync_ne : ∀ x, Z.compressSync x ≠ []

inductive ZRc where
  | ok | streamEnd | bufError | dataError
  deriving DecidableEq, Repr

/-- abstract state of an inflate stream whose whole input was supplied up front -/
structure ZState where
  rem : Bytes        -- output not yet delivered
  fin : Fin
  fresh : Bool       -- no `inflate` call made yet
  inEmpty : Bool     -- the compressed input is empty
  deriving DecidableEq, Repr

def ZState.init (Z : Zlib) (input : Bytes) : ZState :=
  let r := Z.inflateAll input
  { rem := r.out, fin := r.fin, fresh := true, inEmpty := input.isEmpty }

structure ZCall where
  rc : ZRc
  bytes : Bytes      -- written to next_out by this call (`avail_out` afterwards = n - bytes.length)
  st : ZState

/-- one `inflate(&stream, …)` call with `avail_out = n` (all input already in `next_in`).
* more output pending than space: `n` bytes, `Z_OK` (`Z_BUF_ERROR` if `n = 0`: no progress possible);
* otherwise everything left is delivered and the code tells how the stream ends: `Z_STREAM_END`,
  `Z_DATA_ERROR`, or for an unfinished stream `Z_OK` when the call made progress (produced output,
  or — first call — consumed input) and `Z_BUF_ERROR` when it made none. -/
def zcall (s : ZState) (n : Nat) : ZCall :=
  if s.fresh && s.inEmpty then ⟨.bufError, [], s⟩
  else if s.rem.length > n then
    if n = 0 then ⟨.bufError, [], { s with fresh := false }⟩
    else ⟨.ok, s.rem.take n, { s with rem := s.rem.drop n, fresh := false }⟩
  else
    let rc := match s.fin with
      | .done => ZRc.streamEnd
      | .err => ZRc.dataError
      | .more => if s.rem.isEmpty && !s.fresh then ZRc.bufError else ZRc.ok
    ⟨rc, s.rem, { s with rem := [], fresh := false }⟩

/-! ## server side -/

structure Cfg where
  cb8 : Bool          -- `screen->setXCutTextUTF8 != NULL`
  deriving DecidableEq, Repr

/-- values the C code reads from memory it did not write: `garbage` is the content of the local
`size` after an inflate call that returned `Z_OK` without filling its four bytes.  Theorems hold for
every `Env`; the outcome never depends on it (`Props.C18.short_size_closes`). -/
structure Env where
  garbage : Nat

/-- clipboard-related part of `rfbClientRec` -/
structure Cl where
  isOpen : Bool := true            -- `sock != RFB_INVALID_SOCKET`
  normal : Bool := true            -- `state == RFB_NORMAL` (false: still in the handshake)
  peerGone : Bool := false         -- the peer has closed its end and the server has not noticed
                                   -- yet: every `rfbWriteExact` to this client fails (EPIPE)
  viewOnly : Bool := false
  ext : Bool := false              -- `enableExtendedClipboard`
  userCap : Nat := defaultUserCap  -- `extClipboardUserCap` (uint32)
  maxUnsol : Nat := defaultMaxUnsolicited  -- `extClipboardMaxUnsolicitedSize` (uint32)
  data : Option Bytes := none      -- `extClipboardData[0 .. extClipboardDataSize)`, `none` = NULL
  deriving DecidableEq, Repr

/-- application callbacks: `setXCutText(str, len, cl)` / `setXCutTextUTF8(str, len, cl)`;
the list is `str[0 .. len)` -/
inductive Cb where
  | latin1 (bs : Bytes)
  | utf8 (bs : Bytes)
  deriving DecidableEq, Repr

/-- messages the server writes to one client -/
inductive SMsg where
  | classic (bs : Bytes)      -- ServerCutText, non-negative length
  | caps                      -- the fixed capability message
  | notify                    -- the fixed notify(text) message
  | provide (record : Bytes)  -- provide(text): zlib `compress` of `record`
  deriving DecidableEq, Repr

def natsToBytes (l : List Nat) : Bytes := l.map UInt8.ofNat

def SMsg.wire (Z : Zlib) : SMsg → Bytes
  | .classic bs => [UInt8.ofNat msgServerCutText, 0, 0, 0] ++ be32 bs.length ++ bs
  | .caps => natsToBytes srvCapsMsg
  | .notify => natsToBytes srvNotifyMsg
  | .provide r =>
    let z := Z.compress r
    [UInt8.ofNat msgServerCutText, 0, 0, 0] ++ be32 (neg32 (4 + z.length)) ++ be32 srvProvideFlags ++ z

/-- the record `rfbSendExtendedServerCutTextData(cl, data, len)` compresses -/
def record (d : Bytes) : Bytes := be32 d.length ++ d

structure Res where
  cl : Cl
  cbs : List Cb
  out : List SMsg
  deriving DecidableEq, Repr

def closeCl (cl : Cl) : Cl := { cl with isOpen := false }

/-- number of format bits (0..15) set in a flag word -/
def popFormats (flags : Nat) : Nat :=
  ((List.range nFormatBits).filter (fun i => flags.testBit i)).length

/-- one `[size BE32][bytes]` record read with two `inflate` calls (`avail_out = 4`, then
`avail_out = size`), as both libraries do; `none` = the caller fails.
* first call must return `Z_OK`; if it filled fewer than four bytes `size` is whatever the variable
  held (`env.garbage`) — the second call then cannot make progress and the record is refused
  whatever that value is (`Lemmas.readRecord_sound`);
* `size > limit` is refused before anything is allocated;
* second call must return `Z_OK` or `Z_STREAM_END` AND have filled all `size` bytes
  (server: fixes/C18-provide-size-check.diff; client: the `total_out` comparison). -/
def readRecord (env : Env) (limit : Nat) (st : ZState) : Option (Bytes × ZState) :=
  let r1 := zcall st 4
  if r1.rc != .ok then none else
  let size := if r1.bytes.length = 4 then rd32 r1.bytes else env.garbage
  if size > limit then none else
  let r2 := zcall r1.st size
  if r2.rc != .ok && r2.rc != .streamEnd then none else
  if r2.bytes.length != size then none else
  some (r2.bytes, r2.st)

/-- `rfbProcessExtendedServerCutTextData`: `(TRUE/FALSE, callbacks made)`; one record per format
bit that is set, only the text record (bit 0) reaches the application -/
def provLoop (env : Env) (cfg : Cfg) (viewOnly : Bool) (flags : Nat) :
    List Nat → ZState → List Cb → Bool × List Cb
  | [], _, cbs => (true, cbs)
  | i :: is, st, cbs =>
    if !flags.testBit i then provLoop env cfg viewOnly flags is st cbs else
    match readRecord env srvRecLimit st with
    | none => (false, cbs)
    | some (d, st') =>
      provLoop env cfg viewOnly flags is st'
        (if i == 0 && !viewOnly && cfg.cb8 then cbs ++ [Cb.utf8 d] else cbs)

/-- the extended branch of the ClientCutText handler; `body` is the `msg.cct.length` bytes read -/
def handleExt (Z : Zlib) (env : Env) (cfg : Cfg) (cl : Cl) (body : Bytes) : Res :=
  if body.length < extMinLen then ⟨closeCl cl, [], []⟩ else
  let flags := rd32 body
  if flags.testBit bCaps then
    let cl1 := { cl with userCap := flags }
    let nf := popFormats flags
    let cl2 := if nf = 0 then { cl1 with ext := false } else cl1
    if nf ≠ 0 ∧ body.length ≠ 4 + nf * 4 then ⟨closeCl cl1, [], []⟩
    else if flags.testBit bText then ⟨{ cl2 with maxUnsol := rd32 (body.drop 4) }, [], []⟩
    else ⟨{ cl2 with ext := false }, [], []⟩
  else if flags.testBit bRequest then
    match cl.data with
    | some d =>
      if cl.userCap.testBit bProvide && decide (d.length > 0) then ⟨cl, [], [.provide (record d)]⟩
      else ⟨cl, [], []⟩
    | none => ⟨cl, [], []⟩
  else if flags.testBit bPeek then
    match cl.data with
    | some d =>
      if cl.userCap.testBit bNotify && decide (d.length > 0) then ⟨cl, [], [.notify]⟩
      else ⟨cl, [], []⟩
    | none => ⟨cl, [], []⟩
  else if flags.testBit bProvide then
    let r := provLoop env cfg cl.viewOnly flags (List.range nFormatBits)
      (ZState.init Z (body.drop 4)) []
    ⟨if r.1 then cl else closeCl cl, r.2, []⟩
  else ⟨cl, [], []⟩

inductive Step where
  | next (cl : Cl) (cbs : List Cb) (out : List SMsg) (consumed : Nat)
  | closed (cl : Cl) (cbs : List Cb) (out : List SMsg)
  | unmodelled

/-- ClientCutText at the head of `input` (whose first byte is the message type) -/
def stepCut (Z : Zlib) (env : Env) (cfg : Cfg) (cl : Cl) (input : Bytes) : Step :=
  if input.length < szClientCutTextMsg then .closed (closeCl cl) [] [] else
  let lenField := rd32 (input.drop 4)
  let isExt := cl.ext && decide (lenField ≥ 2147483648)
  let len := if isExt then neg32 lenField else lenField
  if len > srvMsgLimit then .closed (closeCl cl) [] [] else
  let body := (input.drop szClientCutTextMsg).take len
  if body.length < len then .closed (closeCl cl) [] [] else
  if isExt then
    let r := handleExt Z env cfg cl body
    if r.cl.isOpen then .next r.cl r.cbs r.out (szClientCutTextMsg + len) else .closed r.cl r.cbs r.out
  else
    .next cl (if cl.viewOnly then [] else [Cb.latin1 body]) [] (szClientCutTextMsg + len)

/-- occurrences of the ExtendedClipboard pseudo-encoding in a list of 4-byte encodings -/
def countExt : Bytes → Nat
  | a :: b :: c :: d :: rest =>
    (if rd32 [a, b, c, d] = encExtendedClipboard then 1 else 0) + countExt rest
  | _ => 0

/-- SetEncodings, restricted to its effect on the clipboard state: every occurrence of the
pseudo-encoding enables the extension (sticky) and sends the capability message — only when the
application installed `setXCutTextUTF8` -/
def stepEnc (cfg : Cfg) (cl : Cl) (input : Bytes) : Step :=
  match input with
  | _ :: _ :: hi :: lo :: rest =>
    let n := hi.toNat * 256 + lo.toNat
    let body := rest.take (4 * n)
    if body.length < 4 * n then .closed (closeCl cl) [] [] else
    let k := countExt body
    if cfg.cb8 && decide (k > 0) then
      .next { cl with ext := true } [] (List.replicate k .caps) (szSetEncodingsMsg + 4 * n)
    else .next cl [] [] (szSetEncodingsMsg + 4 * n)
  | _ => .closed (closeCl cl) [] []

structure FeedRes where
  cl : Cl
  cbs : List Cb
  out : List SMsg
  unmodelled : Bool

/-- dispatch on the message type byte (only the two message types that touch the clipboard state
are modelled) -/
def stepMsg (Z : Zlib) (env : Env) (cfg : Cfg) (cl : Cl) (input : Bytes) : Step :=
  match input with
  | [] => .unmodelled
  | t :: _ =>
    if t.toNat = msgClientCutText then stepCut Z env cfg cl input
    else if t.toNat = msgSetEncodings then stepEnc cfg cl input
    else .unmodelled

/-- everything the server does with the bytes `input` arriving on one NORMAL connection (the
handshake states are other properties' subject; the driver never feeds a handshake client) (one
message per `rfbProcessClientMessage`, repeated until the data is used up or the client is closed) -/
def feed (Z : Zlib) (env : Env) (cfg : Cfg) (cl : Cl) (input : Bytes) : FeedRes :=
  match input with
  | [] => ⟨cl, [], [], false⟩
  | t :: rest =>
    if !cl.isOpen then ⟨cl, [], [], false⟩ else
    match stepMsg Z env cfg cl (t :: rest) with
    | .next cl' cbs out k =>
      let r := feed Z env cfg cl' ((t :: rest).drop (max k 1))
      ⟨r.cl, cbs ++ r.cbs, out ++ r.out, r.unmodelled⟩
    | .closed cl' cbs out => ⟨cl', cbs, out, false⟩
    | .unmodelled => ⟨cl, [], [], true⟩
termination_by input.length
decreasing_by
  simp only [List.length_drop, List.length_cons]
  omega

/-- `rfbSendServerCutText` for one client yielded by the iterator (socket open); a client that is
not yet in state RFB_NORMAL is skipped (/repo 8f8266a) -/
def sendClassicOne (cl : Cl) (t : Bytes) : List SMsg :=
  if cl.isOpen && cl.normal then [.classic t] else []

/-- `rfbSendServerCutTextUTF8(screen, t, |t|, fb, |fb|)` for one client; closed clients are not
yielded by the iterator, handshake clients are skipped: neither gets a message nor a cache update -/
def sendUtf8One (cl : Cl) (t : Bytes) (fb : Option Bytes) : Cl × List SMsg :=
  if !cl.isOpen || !cl.normal then (cl, []) else   -- skipped before anything is cached or locked
  if cl.ext then
    let d := t ++ [0]
    let cl' := { cl with data := some d }
    if cl.userCap.testBit bProvide && decide (t.length ≤ cl.maxUnsol) then (cl', [.provide (record d)])
    else if cl.userCap.testBit bNotify then (cl', [.notify])
    else (cl', [])
  else match fb with
    | some f => (cl, [.classic f])
    | none => (cl, [])

/-! ## the screen: a population of clients -/

structure Sys where
  cfg : Cfg
  cls : List (Nat × Cl)

def Sys.get (s : Sys) (id : Nat) : Option Cl := (s.cls.find? (fun p => p.1 == id)).map (·.2)

def Sys.set (s : Sys) (id : Nat) (cl : Cl) : Sys :=
  { s with cls := s.cls.map (fun p => if p.1 == id then (p.1, cl) else p) }

/-- bytes arriving from client `id` -/
def Sys.feed (Z : Zlib) (env : Env) (s : Sys) (id : Nat) (input : Bytes) : Sys × Option FeedRes :=
  match s.get id with
  | none => (s, none)
  | some cl => let r := Clip.feed Z env s.cfg cl input; (s.set id r.cl, some r)

/-- outcome of the writes of one loop body: if there is something to write and the peer is gone,
the first `rfbWriteExact` fails → `rfbCloseClient(cl)`, `UNLOCK`, `continue` (nothing reaches that
peer); the loop goes on with the next client either way -/
def writeOutcome (cl : Cl) (r : Cl × List SMsg) : Cl × List SMsg :=
  if cl.peerGone && !r.2.isEmpty then (closeCl r.1, []) else r

def Sys.pub (s : Sys) (t : Bytes) : Sys × List (Nat × List SMsg) :=
  ({ s with cls := s.cls.map (fun p => (p.1, (writeOutcome p.2 (p.2, sendClassicOne p.2 t)).1)) },
   s.cls.map (fun p => (p.1, (writeOutcome p.2 (p.2, sendClassicOne p.2 t)).2)))

def Sys.pub8 (s : Sys) (t : Bytes) (fb : Option Bytes) : Sys × List (Nat × List SMsg) :=
  ({ s with cls := s.cls.map (fun p => (p.1, (writeOutcome p.2 (sendUtf8One p.2 t fb)).1)) },
   s.cls.map (fun p => (p.1, (writeOutcome p.2 (sendUtf8One p.2 t fb)).2)))

/-- input from a client that closed its end right after sending: messages are processed as usual,
but the first reply the handler tries to write (capability message, requested provide, notify)
fails and closes the client on the spot; if no reply is due the end of the data is a read of 0
bytes, which closes it as well -/
def feedGone (Z : Zlib) (env : Env) (cfg : Cfg) (cl : Cl) (input : Bytes) : FeedRes :=
  match input with
  | [] => ⟨closeCl cl, [], [], false⟩
  | t :: rest =>
    if !cl.isOpen then ⟨cl, [], [], false⟩ else
    match stepMsg Z env cfg cl (t :: rest) with
    | .next cl' cbs out k =>
      if !out.isEmpty then ⟨closeCl cl', cbs, [], false⟩ else
      let r := feedGone Z env cfg cl' ((t :: rest).drop (max k 1))
      ⟨r.cl, cbs ++ r.cbs, [], r.unmodelled⟩
    | .closed cl' cbs _ => ⟨cl', cbs, [], false⟩
    | .unmodelled => ⟨cl, [], [], true⟩
termination_by input.length
decreasing_by
  simp only [List.length_drop, List.length_cons]
  omega

/-! ## LibVNCClient -/

structure LC where
  hasL1 : Bool      -- `client->GotXCutText != NULL`
  hasU8 : Bool      -- `client->GotXCutTextUTF8 != NULL`
  caps : Nat        -- `extendedClipboardServerCapabilities`
  supportsCut : Bool := true   -- `SupportsClient2Server(client, rfbClientCutText)`: all messages by
                               -- default; after a SupportedMessages pseudo-rectangle what the server
                               -- listed — the server lists ClientCutText unconditionally (T0: `srvListsCutText`)
  deriving DecidableEq, Repr

inductive CCb where
  | latin1 (bs : Bytes)   -- GotXCutText(client, buffer, len); `buffer[len] = 0` is guaranteed by the library
  | utf8 (bs : Bytes)     -- GotXCutTextUTF8(client, buf, size)
  deriving DecidableEq, Repr

/-- `rfbClientProcessExtServerCutText`; `none` = FALSE (the caller drops the connection) -/
def cliExt (Z : Zlib) (env : Env) (c : LC) (body : Bytes) : Option (LC × List CCb) :=
  if body.length < 4 then none else
  let flags := rd32 body
  if !flags.testBit bText then some (c, [])
  else if !flags.testBit bProvide then some (c, [])
  else if flags.testBit bCaps then some ({ c with caps := c.caps ||| 2 ^ bText }, [])
  else
    match readRecord env cliRecLimit (ZState.init Z (body.drop 4)) with
    | none => none
    | some (d, _) => some (c, [CCb.utf8 d])

inductive CStep where
  | next (c : LC) (cbs : List CCb) (consumed : Nat)
  | drop
  | unmodelled

/-- the caller of `rfbClientProcessExtServerCutText`: FALSE drops the connection -/
def cliExtStep (Z : Zlib) (env : Env) (c : LC) (body : Bytes) (consumed : Nat) : CStep :=
  match cliExt Z env c body with
  | none => .drop
  | some (c', cbs) => .next c' cbs consumed

/-- ServerCutText at the head of `input`; a stream that ends inside the message is a failed read -/
def cliStepCut (Z : Zlib) (env : Env) (c : LC) (input : Bytes) : CStep :=
  if input.length < szServerCutTextMsg then .drop else
  let lenField := rd32 (input.drop 4)
  let neg := decide (lenField ≥ 2147483648)
  let n := if neg then neg32 lenField else lenField
  if n > cliMsgLimit then .drop else
  let body := (input.drop szServerCutTextMsg).take n
  if body.length < n then .drop else
  if neg && c.hasU8 then cliExtStep Z env c body (szServerCutTextMsg + n)
  else if c.hasL1 then .next c [CCb.latin1 body] (szServerCutTextMsg + n)
  else .next c [] (szServerCutTextMsg + n)

structure CFeedRes where
  c : LC
  cbs : List CCb
  dropped : Bool
  unmodelled : Bool

def cliStepMsg (Z : Zlib) (env : Env) (c : LC) (input : Bytes) : CStep :=
  match input with
  | [] => .unmodelled
  | t :: _ =>
    if t.toNat = msgServerCutText then cliStepCut Z env c input
    else if t.toNat = msgBell then CStep.next c [] 1
    else CStep.unmodelled

/-- the client's message loop over the bytes `input` (only ServerCutText and Bell are modelled) -/
def cliFeed (Z : Zlib) (env : Env) (c : LC) (input : Bytes) : CFeedRes :=
  match input with
  | [] => ⟨c, [], false, false⟩
  | t :: rest =>
    match cliStepMsg Z env c (t :: rest) with
    | .next c' cbs k =>
      let r := cliFeed Z env c' ((t :: rest).drop (max k 1))
      ⟨r.c, cbs ++ r.cbs, r.dropped, r.unmodelled⟩
    | .drop => ⟨c, [], true, false⟩
    | .unmodelled => ⟨c, [], false, true⟩
termination_by input.length
decreasing_by
  simp only [List.length_drop, List.length_cons]
  omega

/-- `SendClientCutText(client, t, |t|)` -/
def cliSendClassic (t : Bytes) : Bytes :=
  [UInt8.ofNat msgClientCutText, 0, 0, 0] ++ be32 t.length ++ t

/-- `SendClientCutText` as a whole: if the server's SupportedMessages list lacks ClientCutText the
function reports success without writing anything -/
def cliSendClassicIf (c : LC) (t : Bytes) : Option Bytes :=
  if c.supportsCut then some (cliSendClassic t) else none

/-- the notify(text) message `sendExtClientCutTextNotify` writes -/
def cliNotifyMsg : Bytes :=
  [UInt8.ofNat msgClientCutText, 0, 0, 0] ++ be32 (neg32 4) ++ be32 cliNotifyFlags

/-- the provide message of `sendExtClientCutTextProvide` for payload `z` -/
def cliProvideMsg (z : Bytes) : Bytes :=
  [UInt8.ofNat msgClientCutText, 0, 0, 0] ++ be32 (neg32 (4 + z.length)) ++ be32 cliProvideFlags ++ z

/-- `SendClientCutTextUTF8(client, t, |t|)`: `none` = returns FALSE without writing (the server never
announced its capabilities); otherwise notify followed by provide of `t` plus a terminating NUL -/
def cliSendUtf8 (Z : Zlib) (c : LC) (t : Bytes) : Option Bytes :=
  if c.caps = 0 then none
  else some (cliNotifyMsg ++ cliProvideMsg (Z.compressSync (record (t ++ [0]))))

end VncModel.Clip
