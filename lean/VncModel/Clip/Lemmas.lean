import VncModel.Clip.Model
/-! Helper lemmas for the clipboard model (property statements live in Props/C18.lean). -/
namespace VncModel.Clip
open VncModel.Gen.C18

/-! ### byte codecs -/

theorem be32_length (n : Nat) : (be32 n).length = 4 := rfl

theorem rd32_be32 (n : Nat) (h : n < 4294967296) (rest : Bytes) : rd32 (be32 n ++ rest) = n := by
  simp only [be32, rd32, List.cons_append, List.nil_append, UInt8.toNat_ofNat']
  omega

theorem rd32_be32' (n : Nat) (h : n < 4294967296) : rd32 (be32 n) = n := by
  have := rd32_be32 n h []
  simpa using this

theorem record_length (d : Bytes) : (record d).length = 4 + d.length := by
  simp [record, be32_length]

theorem neg32_lt (x : Nat) : neg32 x < 4294967296 := by
  unfold neg32; omega

theorem neg32_neg32 (n : Nat) (h : n < 4294967296) : neg32 (neg32 n) = n := by
  unfold neg32; omega

/-- a positive length up to 2^31 is sign-encoded as a value with the top bit set -/
theorem neg32_ge (n : Nat) (h1 : 0 < n) (h2 : n ≤ 2147483648) : neg32 n ≥ 2147483648 := by
  unfold neg32; omega

/-! ### the inflate-call model -/

/-- bytes delivered by one call never exceed the space offered -/
theorem zcall_bytes_le (s : ZState) (n : Nat) : (zcall s n).bytes.length ≤ n := by
  unfold zcall
  split
  · simp
  · split
    · split <;> simp <;> omega
    · simp; omega

/-- what one call delivers is a prefix of the pending output; the rest stays pending -/
theorem zcall_split (s : ZState) (n : Nat) : (zcall s n).bytes ++ (zcall s n).st.rem = s.rem := by
  unfold zcall
  split
  · simp
  · split
    · split <;> simp
    · simp

/-- after any call the stream is no longer fresh, unless it refused an empty input -/
theorem zcall_fin (s : ZState) (n : Nat) : (zcall s n).st.fin = s.fin ∧ (zcall s n).st.inEmpty = s.inEmpty := by
  unfold zcall
  split
  · simp
  · split
    · split <;> simp
    · simp

/-- an unfinished stream with nothing pending that has already been called makes no progress -/
theorem zcall_stuck (s : ZState) (n : Nat) (h1 : s.rem = []) (h2 : s.fin = .more) (h3 : s.fresh = false) :
    (zcall s n).rc = ZRc.bufError := by
  unfold zcall
  simp [h1, h2, h3]

/-- a call that returned `Z_OK` leaves a stream that is no longer fresh -/
theorem zcall_ok_notfresh (s : ZState) (n : Nat) (h : (zcall s n).rc = ZRc.ok) :
    (zcall s n).st.fresh = false := by
  revert h; unfold zcall
  split
  · simp
  · split
    · split <;> simp
    · simp

/-- `Z_OK` with nothing left pending means the stream is unfinished -/
theorem zcall_ok_rem_nil (s : ZState) (n : Nat) (h : (zcall s n).rc = ZRc.ok)
    (hr : (zcall s n).st.rem = []) : (zcall s n).st.fin = .more := by
  revert h hr; unfold zcall
  split
  · simp
  · split
    · split
      · simp
      · rename_i hgt _
        intro _ hr
        simp only at hr
        have h1 := congrArg List.length hr
        simp at h1
        omega
    · intro h _
      cases hf : s.fin <;> simp [hf] at h ⊢

/-- a call without output space on a stream that was called before: no progress, unless nothing
is pending and the stream is finished or broken -/
theorem zcall_zero (s : ZState) (hnf : s.fresh = false) :
    (zcall s 0).rc = ZRc.bufError ∨ (s.rem = [] ∧ s.fin ≠ .more) := by
  unfold zcall
  simp only [hnf, Bool.false_and, Bool.false_eq_true, if_false]
  by_cases hr : s.rem.length > 0
  · simp [hr]
  · have : s.rem = [] := List.length_eq_zero_iff.mp (by omega)
    cases hf : s.fin <;> simp [this]

/-! ### one record -/

/-- **well-formed record**: pending output `[size BE32] ++ d ++ rest` with `1 ≤ |d| ≤ limit`; the
stream may end right after the record (`rest = []`) as long as it does not end in an error -/
theorem readRecord_ok (env : Env) (limit : Nat) (d rest : Bytes) (fin : Fin) (fresh : Bool)
    (hd1 : d ≠ []) (hd2 : d.length ≤ limit) (hd3 : d.length < 4294967296)
    (hfin : rest = [] → fin ≠ .err) :
    readRecord env limit ⟨be32 d.length ++ d ++ rest, fin, fresh, false⟩ =
      some (d, ⟨rest, fin, false, false⟩) := by
  have hdl : 0 < d.length := List.length_pos_iff.mpr hd1
  have h1 : (be32 d.length ++ d ++ rest).length > 4 := by simp [be32_length]; omega
  have hc1 : zcall ⟨be32 d.length ++ d ++ rest, fin, fresh, false⟩ 4 =
      ⟨.ok, be32 d.length, ⟨d ++ rest, fin, false, false⟩⟩ := by
    simp only [zcall, Bool.and_false, Bool.false_eq_true, if_false, h1, if_true]
    simp [List.append_assoc, List.take_left' (be32_length _), List.drop_left' (be32_length _)]
  unfold readRecord
  simp only [hc1, be32_length, if_true, rd32_be32' _ hd3]
  by_cases hr : rest = []
  · subst hr
    have hfin' := hfin rfl
    have he : d.isEmpty = false := by cases d <;> simp_all
    cases fin <;> simp_all [zcall]
  · have hrl : 0 < rest.length := List.length_pos_iff.mpr hr
    have h2 : (d ++ rest).length > d.length := by simp; omega
    have hn0 : d.length ≠ 0 := by omega
    simp [zcall, hn0, hrl, Nat.not_lt.mpr hd2]

/-- **no invented bytes** (for every value of the uninitialised `size`): whatever `readRecord`
accepts is a record that really is in the stream — four size bytes that announce exactly `|d|`,
followed by the `|d| ≤ limit` bytes delivered; the remaining output stays pending -/
theorem readRecord_sound (env : Env) (limit : Nat) (st : ZState) (d : Bytes) (st' : ZState)
    (h : readRecord env limit st = some (d, st')) :
    ∃ szb, szb.length = 4 ∧ rd32 szb = d.length ∧ d.length ≤ limit ∧ st.rem = szb ++ d ++ st'.rem := by
  unfold readRecord at h
  simp only [] at h
  generalize hsz : (if (zcall st 4).bytes.length = 4 then rd32 (zcall st 4).bytes else env.garbage) = size at h
  by_cases hrc : ((zcall st 4).rc != ZRc.ok) = true
  · rw [if_pos hrc] at h; cases h
  rw [if_neg hrc] at h
  by_cases hlim : size > limit
  · rw [if_pos hlim] at h; cases h
  rw [if_neg hlim] at h
  by_cases hr2 : ((zcall (zcall st 4).st size).rc != ZRc.ok && (zcall (zcall st 4).st size).rc != ZRc.streamEnd) = true
  · rw [if_pos hr2] at h; cases h
  rw [if_neg hr2] at h
  by_cases hlen : ((zcall (zcall st 4).st size).bytes.length != size) = true
  · rw [if_pos hlen] at h; cases h
  rw [if_neg hlen] at h
  simp only [Option.some.injEq, Prod.mk.injEq] at h
  obtain ⟨hd, hst⟩ := h
  have hlen' : (zcall (zcall st 4).st size).bytes.length = size := by simpa using hlen
  have hs1 := zcall_split st 4
  have hs2 := zcall_split (zcall st 4).st size
  by_cases h4 : (zcall st 4).bytes.length = 4
  · rw [if_pos h4] at hsz
    refine ⟨(zcall st 4).bytes, h4, ?_, ?_, ?_⟩
    · rw [← hd, hlen', hsz]
    · rw [← hd, hlen']; omega
    · rw [← hd, ← hst, List.append_assoc, hs2, hs1]
  · -- fewer than four size bytes although the call returned Z_OK: it took the "everything left
    -- fits" branch of an unfinished stream, nothing is pending and the second call cannot make
    -- progress (Z_BUF_ERROR) whatever `size` happens to be
    exfalso
    have hle := zcall_bytes_le st 4
    have hrc' : (zcall st 4).rc = ZRc.ok := by simpa using hrc
    have key : (zcall st 4).st.rem = [] ∧ (zcall st 4).st.fin = .more ∧ (zcall st 4).st.fresh = false := by
      revert hrc' h4 hle
      unfold zcall
      split
      · simp
      · split
        · split
          · simp
          · rename_i hgt _
            simp only [List.length_take]
            intro _ h4 _
            omega
        · intro hrc' _ _
          cases hf : st.fin <;> simp_all
    obtain ⟨k1, k2, k3⟩ := key
    have := zcall_stuck (zcall st 4).st size k1 k2 k3
    simp [this] at hr2

/-! ### the record loop -/

/-- format bits that are not set are skipped -/
theorem provLoop_skip (env : Env) (cfg : Cfg) (v : Bool) (flags : Nat) (is : List Nat) (st : ZState)
    (cbs : List Cb) (h : ∀ i ∈ is, flags.testBit i = false) :
    provLoop env cfg v flags is st cbs = (true, cbs) := by
  induction is generalizing st cbs with
  | nil => simp [provLoop]
  | cons i is ih =>
    have hi : flags.testBit i = false := h i (by simp)
    rw [provLoop]
    simp only [hi, Bool.not_false, if_true]
    exact ih st cbs (fun j hj => h j (by simp [hj]))

/-- callbacks already made are kept; new ones are appended -/
theorem provLoop_prefix (env : Env) (cfg : Cfg) (v : Bool) (flags : Nat) (is : List Nat) (st : ZState)
    (cbs : List Cb) : ∃ more, (provLoop env cfg v flags is st cbs).2 = cbs ++ more := by
  induction is generalizing st cbs with
  | nil => exact ⟨[], by simp [provLoop]⟩
  | cons i is ih =>
    rw [provLoop]
    split
    · exact ih st cbs
    · split
      · exact ⟨[], by simp⟩
      · rename_i d st' _
        split
        · obtain ⟨m, hm⟩ := ih st' (cbs ++ [Cb.utf8 d])
          exact ⟨Cb.utf8 d :: m, by rw [hm]; simp⟩
        · exact ih st' cbs

/-! ### server message loop -/

/-- the ClientCutText step in terms of the decoded header -/
theorem stepCut_hdr (Z : Zlib) (env : Env) (cfg : Cfg) (cl : Cl) (ty p1 p2 p3 : UInt8) (n : Nat)
    (hn : n < 4294967296) (tail : Bytes) :
    stepCut Z env cfg cl (ty :: p1 :: p2 :: p3 :: (be32 n ++ tail)) =
      (let isExt := cl.ext && decide (n ≥ 2147483648)
       let len := if isExt then neg32 n else n
       if len > srvMsgLimit then Step.closed (closeCl cl) [] [] else
       let body := tail.take len
       if body.length < len then Step.closed (closeCl cl) [] [] else
       if isExt then
         let r := handleExt Z env cfg cl body
         if r.cl.isOpen then Step.next r.cl r.cbs r.out (8 + len) else Step.closed r.cl r.cbs r.out
       else Step.next cl (if cl.viewOnly then [] else [Cb.latin1 body]) [] (8 + len)) := by
  have h8 : ¬ (ty :: p1 :: p2 :: p3 :: (be32 n ++ tail)).length < 8 := by
    simp [be32_length]
  have hrd : rd32 ((ty :: p1 :: p2 :: p3 :: (be32 n ++ tail)).drop 4) = n := by
    simpa using rd32_be32 n hn tail
  have hdrop : (ty :: p1 :: p2 :: p3 :: (be32 n ++ tail)).drop 8 = tail := by
    simp [be32]
  unfold stepCut
  simp only [szClientCutTextMsg]
  simp only [h8, if_false, hrd, hdrop]

theorem feed_nil (Z : Zlib) (env : Env) (cfg : Cfg) (cl : Cl) :
    feed Z env cfg cl [] = ⟨cl, [], [], false⟩ := by
  rw [feed]

theorem feed_of_closed (Z : Zlib) (env : Env) (cfg : Cfg) (cl : Cl) (input : Bytes)
    (ho : cl.isOpen = false) : feed Z env cfg cl input = ⟨cl, [], [], false⟩ := by
  cases input with
  | nil => exact feed_nil ..
  | cons t rest => rw [feed]; simp [ho]

theorem feed_next (Z : Zlib) (env : Env) (cfg : Cfg) (cl cl' : Cl) (t : UInt8) (rest : Bytes)
    (cbs : List Cb) (out : List SMsg) (k : Nat) (ho : cl.isOpen = true)
    (h : stepMsg Z env cfg cl (t :: rest) = .next cl' cbs out k) :
    feed Z env cfg cl (t :: rest) =
      ⟨(feed Z env cfg cl' ((t :: rest).drop (max k 1))).cl,
       cbs ++ (feed Z env cfg cl' ((t :: rest).drop (max k 1))).cbs,
       out ++ (feed Z env cfg cl' ((t :: rest).drop (max k 1))).out,
       (feed Z env cfg cl' ((t :: rest).drop (max k 1))).unmodelled⟩ := by
  rw [feed]
  simp [ho, h]

theorem feed_closedStep (Z : Zlib) (env : Env) (cfg : Cfg) (cl cl' : Cl) (t : UInt8) (rest : Bytes)
    (cbs : List Cb) (out : List SMsg) (ho : cl.isOpen = true)
    (h : stepMsg Z env cfg cl (t :: rest) = .closed cl' cbs out) :
    feed Z env cfg cl (t :: rest) = ⟨cl', cbs, out, false⟩ := by
  rw [feed]
  simp [ho, h]

/-- a message whose step consumes exactly the message, followed by more input -/
theorem feed_msg_append (Z : Zlib) (env : Env) (cfg : Cfg) (cl cl' : Cl) (t : UInt8) (m rest : Bytes)
    (cbs : List Cb) (out : List SMsg) (ho : cl.isOpen = true)
    (h : stepMsg Z env cfg cl (t :: (m ++ rest)) = .next cl' cbs out (m.length + 1)) :
    feed Z env cfg cl (t :: (m ++ rest)) =
      ⟨(feed Z env cfg cl' rest).cl, cbs ++ (feed Z env cfg cl' rest).cbs,
       out ++ (feed Z env cfg cl' rest).out, (feed Z env cfg cl' rest).unmodelled⟩ := by
  rw [feed_next Z env cfg cl cl' t (m ++ rest) cbs out (m.length + 1) ho h]
  have : (t :: (m ++ rest)).drop (max (m.length + 1) 1) = rest := by
    have : max (m.length + 1) 1 = m.length + 1 := by omega
    rw [this]; simp
  rw [this]

/-- an extended (sign-encoded) ClientCutText with body `body` on a client that negotiated the
extension -/
theorem stepMsg_ext (Z : Zlib) (env : Env) (cfg : Cfg) (cl : Cl) (body rest : Bytes)
    (he : cl.ext = true) (hb1 : 0 < body.length) (hb2 : body.length ≤ srvMsgLimit) :
    stepMsg Z env cfg cl ((6 : UInt8) :: 0 :: 0 :: 0 :: (be32 (neg32 body.length) ++ (body ++ rest))) =
      (if (handleExt Z env cfg cl body).cl.isOpen then
        Step.next (handleExt Z env cfg cl body).cl (handleExt Z env cfg cl body).cbs
          (handleExt Z env cfg cl body).out (8 + body.length)
       else Step.closed (handleExt Z env cfg cl body).cl (handleExt Z env cfg cl body).cbs
          (handleExt Z env cfg cl body).out) := by
  have hlim : srvMsgLimit = 1048576 := rfl
  have hge := neg32_ge body.length hb1 (by omega)
  have hnn := neg32_neg32 body.length (by omega)
  simp only [stepMsg]
  rw [if_pos (by decide)]
  rw [stepCut_hdr Z env cfg cl 6 0 0 0 _ (neg32_lt _) (body ++ rest)]
  simp [he, hge, hnn, List.take_left' rfl, Nat.not_lt.mpr hb2]

theorem range16 : List.range nFormatBits = 0 :: [1, 2, 3, 4, 5, 6, 7, 8, 9, 10, 11, 12, 13, 14, 15] := by
  decide

/-- provide(text) whose stream holds a well-formed text record (possibly followed by more output) -/
theorem handleExt_provide_text (Z : Zlib) (env : Env) (cfg : Cfg) (cl : Cl) (flags : Nat)
    (hfl : flags < 4294967296) (z d extra : Bytes) (fin : Fin)
    (hcaps : flags.testBit bCaps = false) (hreq : flags.testBit bRequest = false)
    (hpeek : flags.testBit bPeek = false) (hprov : flags.testBit bProvide = true)
    (htext : flags.testBit 0 = true) (hother : ∀ i, 1 ≤ i → i < 16 → flags.testBit i = false)
    (hz : Z.inflateAll z = ⟨record d ++ extra, fin⟩) (hne : z ≠ [])
    (hd1 : d ≠ []) (hd2 : d.length ≤ srvRecLimit) (hfin : extra = [] → fin ≠ .err) :
    handleExt Z env cfg cl (be32 flags ++ z) =
      ⟨cl, if !cl.viewOnly && cfg.cb8 then [Cb.utf8 d] else [], []⟩ := by
  have hlim : srvRecLimit = 1048576 := rfl
  have hlen : ¬ (be32 flags ++ z).length < extMinLen := by simp [be32_length, extMinLen]
  have hrd : rd32 (be32 flags ++ z) = flags := rd32_be32 flags hfl z
  have hdrop : (be32 flags ++ z).drop 4 = z := List.drop_left' (be32_length _)
  have hinit : ZState.init Z z = ⟨be32 d.length ++ d ++ extra, fin, true, false⟩ := by
    have he : z.isEmpty = false := by cases z <;> simp_all
    simp [ZState.init, hz, he, record]
  have hrec := readRecord_ok env srvRecLimit d extra fin true hd1 hd2 (by omega) hfin
  have hskip : ∀ st cbs, provLoop env cfg cl.viewOnly flags [1, 2, 3, 4, 5, 6, 7, 8, 9, 10, 11, 12, 13, 14, 15] st cbs
      = (true, cbs) := fun st cbs =>
    provLoop_skip env cfg cl.viewOnly flags _ st cbs (fun i hi => hother i (by revert i; decide) (by revert i; decide))
  unfold handleExt
  simp only [hlen, if_false, hrd, hcaps, hreq, hpeek, hprov, if_true, hdrop, hinit, range16, Bool.false_eq_true]
  rw [provLoop]
  simp only [htext, Bool.not_true, Bool.false_eq_true, if_false, hrec, hskip]
  cases cl.viewOnly <;> cases cfg.cb8 <;> simp


/-- a record whose declared size exceeds the limit is refused, however the stream continues or ends -/
theorem readRecord_oversize (env : Env) (limit sz : Nat) (st : ZState) (more : Bytes)
    (hrem : st.rem = be32 sz ++ more) (hsz : sz < 4294967296) (hbig : sz > limit) :
    readRecord env limit st = none := by
  unfold readRecord
  simp only []
  by_cases hrc : ((zcall st 4).rc != ZRc.ok) = true
  · rw [if_pos hrc]
  rw [if_neg hrc]
  have hb : (zcall st 4).bytes = be32 sz := by
    have hrc' : (zcall st 4).rc = ZRc.ok := by simpa using hrc
    revert hrc'
    unfold zcall
    split
    · simp
    · split
      · split
        · simp
        · intro _; simp [hrem, List.take_left' (be32_length sz)]
      · rename_i hle
        intro _
        have : more = [] := by
          have h4 : st.rem.length ≤ 4 := by omega
          rw [hrem] at h4
          simp only [List.length_append, be32_length] at h4
          exact List.length_eq_zero_iff.mp (by omega)
        simp [hrem, this]
  rw [hb]
  simp [be32_length, rd32_be32' sz hsz, hbig]

/-- **declared size larger than the data present** (fixes/C18-provide-size-check.diff): refused -/
theorem readRecord_short (env : Env) (limit sz : Nat) (st : ZState) (have_ : Bytes)
    (hrem : st.rem = be32 sz ++ have_) (hsz : sz < 4294967296) (hshort : have_.length < sz) :
    readRecord env limit st = none := by
  cases h : readRecord env limit st with
  | none => rfl
  | some p =>
    obtain ⟨d, st'⟩ := p
    obtain ⟨szb, h4, hrd, _, hsplit⟩ := readRecord_sound env limit st d st' h
    exfalso
    rw [hrem, List.append_assoc] at hsplit
    have hszb : be32 sz = szb := List.append_inj_left hsplit (by simp [be32_length, h4])
    have hrest : have_ = d ++ st'.rem := List.append_inj_right hsplit (by simp [be32_length, h4])
    have : have_.length = d.length + st'.rem.length := by rw [hrest]; simp
    rw [← hszb, rd32_be32' sz hsz] at hrd
    omega

/-- fewer than four bytes of output in total: refused -/
theorem readRecord_tiny (env : Env) (limit : Nat) (st : ZState) (h : st.rem.length < 4) :
    readRecord env limit st = none := by
  cases hr : readRecord env limit st with
  | none => rfl
  | some p =>
    obtain ⟨d, st'⟩ := p
    obtain ⟨szb, h4, _, _, hsplit⟩ := readRecord_sound env limit st d st' hr
    exfalso
    have : st.rem.length = szb.length + d.length + st'.rem.length := by
      rw [hsplit]; simp only [List.length_append]
    omega

/-- a record announcing zero bytes is refused, however the stream is made or continues: the second
`inflate` call has no output space and cannot make progress (`Z_BUF_ERROR`), or the first one
already returned `Z_STREAM_END` -/
theorem readRecord_zero (env : Env) (limit : Nat) (st : ZState) (more : Bytes)
    (hrem : st.rem = be32 0 ++ more) : readRecord env limit st = none := by
  cases h : readRecord env limit st with
  | none => rfl
  | some p =>
    obtain ⟨d, st'⟩ := p
    obtain ⟨szb, h4, hrd, _, hsplit⟩ := readRecord_sound env limit st d st' h
    exfalso
    rw [hrem, List.append_assoc] at hsplit
    have hszb : be32 0 = szb := List.append_inj_left hsplit (by simp [be32_length, h4])
    rw [← hszb, rd32_be32' 0 (by decide)] at hrd
    have hd : d = [] := List.length_eq_zero_iff.mp hrd.symm
    -- so the record loop's second call asked for 0 bytes and was accepted: impossible
    subst hd
    unfold readRecord at h
    simp only [] at h
    generalize hsz : (if (zcall st 4).bytes.length = 4 then rd32 (zcall st 4).bytes else env.garbage) = size at h
    by_cases hrc : ((zcall st 4).rc != ZRc.ok) = true
    · rw [if_pos hrc] at h; cases h
    rw [if_neg hrc] at h
    by_cases hlim : size > limit
    · rw [if_pos hlim] at h; cases h
    rw [if_neg hlim] at h
    by_cases hr2 : ((zcall (zcall st 4).st size).rc != ZRc.ok && (zcall (zcall st 4).st size).rc != ZRc.streamEnd) = true
    · rw [if_pos hr2] at h; cases h
    rw [if_neg hr2] at h
    by_cases hlen : ((zcall (zcall st 4).st size).bytes.length != size) = true
    · rw [if_pos hlen] at h; cases h
    rw [if_neg hlen] at h
    simp only [Option.some.injEq, Prod.mk.injEq] at h
    have hlen' : (zcall (zcall st 4).st size).bytes.length = size := by simpa using hlen
    rw [h.1] at hlen'
    have hs0 : size = 0 := by simpa using hlen'.symm
    subst hs0
    have hrc' : (zcall st 4).rc = ZRc.ok := by simpa using hrc
    have hnf := zcall_ok_notfresh st 4 hrc'
    rcases zcall_zero (zcall st 4).st hnf with hk | ⟨hk1, hk2⟩
    · simp [hk] at hr2
    · exact hk2 (zcall_ok_rem_nil st 4 hrc' hk1)

/-! ### SetEncodings -/

theorem countExt_flatMap (encs : List Nat) (h : ∀ e ∈ encs, e < 4294967296) :
    countExt (encs.flatMap be32) = encs.count encExtendedClipboard := by
  induction encs with
  | nil => simp [countExt]
  | cons e es ih =>
    have he : e < 4294967296 := h e (by simp)
    have ih' := ih (fun x hx => h x (by simp [hx]))
    have hrd : rd32 (be32 e) = e := rd32_be32' e he
    have hb : be32 e = [UInt8.ofNat (e / 16777216 % 256), UInt8.ofNat (e / 65536 % 256),
        UInt8.ofNat (e / 256 % 256), UInt8.ofNat (e % 256)] := rfl
    simp only [List.flatMap_cons, List.count_cons]
    rw [hb] at hrd ⊢
    simp only [List.cons_append, List.nil_append, countExt, hrd, ih']
    by_cases hc : e = encExtendedClipboard <;> simp [hc] <;> omega

theorem flatMap_be32_length (encs : List Nat) : (encs.flatMap be32).length = 4 * encs.length := by
  induction encs with
  | nil => simp
  | cons e es ih => simp [List.flatMap_cons, be32_length, ih]; omega

theorem stepMsg_classic (Z : Zlib) (env : Env) (cfg : Cfg) (cl : Cl) (t rest : Bytes)
    (hl : t.length ≤ srvMsgLimit) :
    stepMsg Z env cfg cl (cliSendClassic t ++ rest) =
      .next cl (if cl.viewOnly then [] else [Cb.latin1 t]) [] (8 + t.length) := by
  have hlim : srvMsgLimit = 1048576 := rfl
  have hn : t.length < 4294967296 := by omega
  have h1 : cliSendClassic t ++ rest = (6 : UInt8) :: 0 :: 0 :: 0 :: (be32 t.length ++ (t ++ rest)) := by
    simp [cliSendClassic, msgClientCutText]
  rw [h1]
  simp only [stepMsg]
  rw [if_pos (by decide)]
  rw [stepCut_hdr Z env cfg cl 6 0 0 0 t.length hn (t ++ rest)]
  have hge : ¬ t.length ≥ 2147483648 := by omega
  simp [hge, List.take_left' rfl, Nat.not_lt.mpr hl]


/-- step outcome that neither enables the extension nor delivers UTF-8 text -/
def StepNoExt (st : Step) : Prop :=
  match st with
  | .next cl' cbs _ _ => cl'.ext = false ∧ ∀ b, Cb.utf8 b ∉ cbs
  | .closed cl' cbs _ => cl'.ext = false ∧ ∀ b, Cb.utf8 b ∉ cbs
  | .unmodelled => True

theorem stepMsg_noext (Z : Zlib) (env : Env) (cl : Cl) (input : Bytes) (he : cl.ext = false) :
    StepNoExt (stepMsg Z env ⟨false⟩ cl input) := by
  unfold stepMsg
  cases input with
  | nil => simp [StepNoExt]
  | cons t rest =>
    simp only []
    by_cases h6 : t.toNat = msgClientCutText
    · rw [if_pos h6]
      unfold stepCut
      simp only [he, Bool.false_and, Bool.false_eq_true, if_false]
      repeat' split
      all_goals simp [StepNoExt, closeCl, he]
    · rw [if_neg h6]
      by_cases h2 : t.toNat = msgSetEncodings
      · rw [if_pos h2]
        unfold stepEnc
        split
        · simp only [Bool.false_and, Bool.false_eq_true, if_false]
          split <;> simp [StepNoExt, closeCl, he]
        · simp [StepNoExt, closeCl, he]
      · rw [if_neg h2]; simp [StepNoExt]

/-- "`b` is a record of the stream output `out`": a 4-byte size word announcing `|b|`, then `b` -/
def IsRecordOf (out b : Bytes) (limit : Nat) : Prop :=
  ∃ pre szb post, out = pre ++ szb ++ b ++ post ∧ szb.length = 4 ∧ rd32 szb = b.length ∧ b.length ≤ limit

/-- every text the record loop hands to the application is a record of the inflated stream -/
theorem provLoop_sound (env : Env) (cfg : Cfg) (v : Bool) (flags : Nat) (out : Bytes) (is : List Nat)
    (st : ZState) (cbs : List Cb)
    (hcbs : ∀ b, Cb.utf8 b ∈ cbs → IsRecordOf out b srvRecLimit)
    (hsuf : ∃ pre, out = pre ++ st.rem) :
    ∀ b, Cb.utf8 b ∈ (provLoop env cfg v flags is st cbs).2 → IsRecordOf out b srvRecLimit := by
  induction is generalizing st cbs with
  | nil => simpa [provLoop] using hcbs
  | cons i is ih =>
    rw [provLoop]
    split
    · exact ih st cbs hcbs hsuf
    · split
      · simpa using hcbs
      · rename_i d st' hrec
        obtain ⟨szb, h4, hrd, hlim, hsplit⟩ := readRecord_sound env srvRecLimit st d st' hrec
        obtain ⟨pre, hpre⟩ := hsuf
        have hsuf' : ∃ pre', out = pre' ++ st'.rem :=
          ⟨pre ++ szb ++ d, by rw [hpre, hsplit]; simp [List.append_assoc]⟩
        have hd : IsRecordOf out d srvRecLimit :=
          ⟨pre, szb, st'.rem, by rw [hpre, hsplit]; simp [List.append_assoc], h4, hrd, hlim⟩
        apply ih st' _ _ hsuf'
        intro b hb
        split at hb
        · rcases List.mem_append.mp hb with hb | hb
          · exact hcbs b hb
          · simp only [List.mem_singleton, Cb.utf8.injEq] at hb
            rw [hb]; exact hd
        · exact hcbs b hb

/-- replacing the record of client `id` does not change what is found under another id -/
theorem find_set_ne (cls : List (Nat × Cl)) (id j : Nat) (cl : Cl) (h : j ≠ id) :
    (cls.map (fun p => if p.1 == id then (p.1, cl) else p)).find? (fun p => p.1 == j) =
      cls.find? (fun p => p.1 == j) := by
  induction cls with
  | nil => rfl
  | cons p ps ih =>
    rw [List.map_cons, List.find?_cons, List.find?_cons, ih]
    by_cases hp : p.1 = id
    · have hb : (p.1 == id) = true := by simp [hp]
      have hj1 : (p.1 == j) = false := by
        simp only [beq_eq_false_iff_ne, ne_eq]
        intro e; exact h (e ▸ hp)
      simp [hb, hj1]
    · have hb : (p.1 == id) = false := by simp [hp]
      simp [hb]

theorem get_set_ne (s : Sys) (id j : Nat) (cl : Cl) (h : j ≠ id) : (s.set id cl).get j = s.get j := by
  simp only [Sys.get, Sys.set, find_set_ne s.cls id j cl h]

/-- a sign-encoded length above the message limit closes the connection -/
theorem stepMsg_ext_oversize (Z : Zlib) (env : Env) (cfg : Cfg) (cl : Cl) (p1 p2 p3 : UInt8) (n : Nat)
    (tail : Bytes) (he : cl.ext = true) (h1 : n > srvMsgLimit) (h2 : n ≤ 2147483648) :
    stepMsg Z env cfg cl ((6 : UInt8) :: p1 :: p2 :: p3 :: (be32 (neg32 n) ++ tail)) =
      .closed (closeCl cl) [] [] := by
  have hlim : srvMsgLimit = 1048576 := rfl
  have hge := neg32_ge n (by omega) h2
  have hnn := neg32_neg32 n (by omega)
  simp only [stepMsg]
  rw [if_pos (by decide), stepCut_hdr Z env cfg cl 6 p1 p2 p3 _ (neg32_lt _) tail]
  simp [he, hge, hnn, h1]

/-- a `next` step leaves the client open, a `closed` step leaves it closed -/
def StepWF (st : Step) : Prop :=
  match st with
  | .next cl' _ _ _ => cl'.isOpen = true
  | .closed cl' _ _ => cl'.isOpen = false
  | .unmodelled => True

theorem StepWF_ite (c : Prop) [Decidable c] (a b : Step) (ha : c → StepWF a) (hb : ¬c → StepWF b) :
    StepWF (if c then a else b) := by
  split
  · exact ha ‹_›
  · exact hb ‹_›

theorem stepMsg_wf (Z : Zlib) (env : Env) (cfg : Cfg) (cl : Cl) (input : Bytes) (ho : cl.isOpen = true) :
    StepWF (stepMsg Z env cfg cl input) := by
  have hcl : ∀ a b, StepWF (Step.closed (closeCl cl) a b) := fun a b => by simp [StepWF, closeCl]
  unfold stepMsg
  cases input with
  | nil => simp [StepWF]
  | cons t rest =>
    simp only []
    refine StepWF_ite _ _ _ (fun _ => ?_) (fun _ => ?_)
    · unfold stepCut
      simp only []
      refine StepWF_ite _ _ _ (fun _ => hcl _ _) (fun _ => ?_)
      refine StepWF_ite _ _ _ (fun _ => hcl _ _) (fun _ => ?_)
      refine StepWF_ite _ _ _ (fun _ => hcl _ _) (fun _ => ?_)
      refine StepWF_ite _ _ _ (fun _ => ?_) (fun _ => by simp [StepWF, ho])
      refine StepWF_ite _ _ _ (fun h => by simpa [StepWF] using h) (fun h => by simpa [StepWF] using h)
    · refine StepWF_ite _ _ _ (fun _ => ?_) (fun _ => by simp [StepWF])
      unfold stepEnc
      split
      · simp only []
        refine StepWF_ite _ _ _ (fun _ => hcl _ _) (fun _ => ?_)
        refine StepWF_ite _ _ _ (fun _ => by simp [StepWF, ho]) (fun _ => by simp [StepWF, ho])
      · exact hcl _ _

theorem stepMsg_next_open (Z : Zlib) (env : Env) (cfg : Cfg) (cl : Cl) (input : Bytes) (cl' : Cl)
    (cbs : List Cb) (out : List SMsg) (k : Nat) (ho : cl.isOpen = true)
    (h : stepMsg Z env cfg cl input = .next cl' cbs out k) : cl'.isOpen = true := by
  have := stepMsg_wf Z env cfg cl input ho
  rw [h] at this
  exact this

theorem stepMsg_closed_closed (Z : Zlib) (env : Env) (cfg : Cfg) (cl : Cl) (input : Bytes) (cl' : Cl)
    (cbs : List Cb) (out : List SMsg) (ho : cl.isOpen = true)
    (h : stepMsg Z env cfg cl input = .closed cl' cbs out) : cl'.isOpen = false := by
  have := stepMsg_wf Z env cfg cl input ho
  rw [h] at this
  exact this

/-- bounded quantification over the format bits 1..15 from a decidable statement -/
theorem bits_of_range (f : Nat) (h : ∀ i ∈ List.range 16, 1 ≤ i → f.testBit i = false) :
    ∀ i, 1 ≤ i → i < 16 → f.testBit i = false :=
  fun i h1 h2 => h i (List.mem_range.mpr h2) h1

/-! ### client message loop -/

theorem cliStepCut_hdr (Z : Zlib) (env : Env) (c : LC) (ty p1 p2 p3 : UInt8) (n : Nat)
    (hn : n < 4294967296) (tail : Bytes) :
    cliStepCut Z env c (ty :: p1 :: p2 :: p3 :: (be32 n ++ tail)) =
      (let neg := decide (n ≥ 2147483648)
       let len := if neg then neg32 n else n
       if len > cliMsgLimit then CStep.drop else
       let body := tail.take len
       if body.length < len then CStep.drop else
       if neg && c.hasU8 then cliExtStep Z env c body (8 + len)
       else if c.hasL1 then CStep.next c [CCb.latin1 body] (8 + len)
       else CStep.next c [] (8 + len)) := by
  have h8 : ¬ (ty :: p1 :: p2 :: p3 :: (be32 n ++ tail)).length < 8 := by
    simp [be32_length]
  have hrd : rd32 ((ty :: p1 :: p2 :: p3 :: (be32 n ++ tail)).drop 4) = n := by
    simpa using rd32_be32 n hn tail
  have hdrop : (ty :: p1 :: p2 :: p3 :: (be32 n ++ tail)).drop 8 = tail := by
    simp [be32]
  unfold cliStepCut
  simp only [szServerCutTextMsg]
  simp only [h8, if_false, hrd, hdrop]

theorem cliFeed_nil (Z : Zlib) (env : Env) (c : LC) : cliFeed Z env c [] = ⟨c, [], false, false⟩ := by
  rw [cliFeed]

theorem cliFeed_msg_append (Z : Zlib) (env : Env) (c c' : LC) (t : UInt8) (m rest : Bytes)
    (cbs : List CCb)
    (h : cliStepMsg Z env c (t :: (m ++ rest)) = .next c' cbs (m.length + 1)) :
    cliFeed Z env c (t :: (m ++ rest)) =
      ⟨(cliFeed Z env c' rest).c, cbs ++ (cliFeed Z env c' rest).cbs,
       (cliFeed Z env c' rest).dropped, (cliFeed Z env c' rest).unmodelled⟩ := by
  rw [cliFeed]
  simp only [h]
  have : (t :: (m ++ rest)).drop (max (m.length + 1) 1) = rest := by
    have : max (m.length + 1) 1 = m.length + 1 := by omega
    rw [this]; simp
  rw [this]

theorem cliFeed_drop (Z : Zlib) (env : Env) (c : LC) (t : UInt8) (rest : Bytes)
    (h : cliStepMsg Z env c (t :: rest) = .drop) :
    cliFeed Z env c (t :: rest) = ⟨c, [], true, false⟩ := by
  rw [cliFeed]
  simp only [h]

/-- LibVNCClient: a sign-encoded length above the message limit fails the read loop -/
theorem cliStepMsg_ext_oversize (Z : Zlib) (env : Env) (c : LC) (p1 p2 p3 : UInt8) (n : Nat)
    (tail : Bytes) (h1 : n > cliMsgLimit) (h2 : n ≤ 2147483648) :
    cliStepMsg Z env c ((3 : UInt8) :: p1 :: p2 :: p3 :: (be32 (neg32 n) ++ tail)) = .drop := by
  have hlim : cliMsgLimit = 1048576 := rfl
  have hge := neg32_ge n (by omega) h2
  have hnn := neg32_neg32 n (by omega)
  simp only [cliStepMsg]
  rw [if_pos (by decide), cliStepCut_hdr Z env c 3 p1 p2 p3 _ (neg32_lt _) tail]
  simp [hge, hnn, h1]

end VncModel.Clip
