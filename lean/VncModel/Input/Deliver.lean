import VncModel.Input.Lemmas
/-! The delivery invariant and its one-message step (helper for Props/C06). -/
namespace VncModel.Input
open VncModel.Gen

/-- client `i` is fully authenticated, connected, allowed to send input, no other client holds a
pointer button, pointer coalescing is off (library default) -/
structure Permitted (s : Server) (i : Nat) (cl : Client) : Prop where
  found : s.find i = some cl
  normal : cl.st = .normal
  isOpen : cl.isOpen = true
  rw : cl.viewOnly = false
  free : s.owner = none ∨ s.owner = some i
  nodefer : s.cfg.deferPtr = 0
  nopending : cl.lastPtr = none

/-- the scaled screen in force after message `m` -/
def nextScale (cfg : Cfg) (sc : Option (Nat × Nat)) : Msg → Option (Nat × Nat)
  | .setScale _ s => scaleAfter cfg sc s
  | _ => sc

/-- callbacks the property expects for ONE message -/
def expected1 (cfg : Cfg) (i : Nat) (sc : Option (Nat × Nat)) : Msg → List Callback
  | .key d k => [.kbd i d k]
  | .pointer m x y => [.ptr i m (scaleX cfg sc x) (scaleY cfg sc y)]
  | .cutText t => [.cut i t]
  | _ => []

theorem expected_cons (cfg : Cfg) (i : Nat) (sc : Option (Nat × Nat)) (m : Msg) (ms : List Msg) :
    expected cfg i sc (m :: ms) = expected1 cfg i sc m ++ expected cfg i (nextScale cfg sc m) ms := by
  cases m <;> simp [expected, expected1, nextScale]

theorem isLive_of_permitted {s : Server} {i : Nat} {cl : Client} (h : Permitted s i cl) :
    s.isLive i = true := by
  simp [Server.isLive, h.found, h.isOpen]

/-- what `handleNormal` does with a benign message of a permitted client -/
theorem handleNormal_benign (cfg : Cfg) (o : Option Nat) (cl : Client) (m : Msg)
    (hb : Benign cfg m) (hrw : cl.viewOnly = false) (hfree : o = none ∨ o = some cl.id)
    (hnd : cfg.deferPtr = 0) (hnp : cl.lastPtr = none) (hn : cl.st = .normal) (hop : cl.isOpen = true) :
    let r := handleNormal cfg o cl m
    r.2.2 = expected1 cfg cl.id cl.scaled m ∧
    (r.2.1 = none ∨ r.2.1 = some cl.id) ∧
    r.1.st = .normal ∧ r.1.isOpen = true ∧ r.1.viewOnly = false ∧ r.1.lastPtr = none ∧
    r.1.scaled = nextScale cfg cl.scaled m := by
  cases m <;> simp only [Benign] at hb
  case key d k => simp [handleNormal, expected1, nextScale, hrw, hfree, hn, hop, hnp]
  case cutText t => simp [handleNormal, expected1, nextScale, hrw, hfree, hn, hop, hnp]
  case fbUpdateRequest b => simp [handleNormal, expected1, nextScale, hrw, hfree, hn, hop, hnp]
  case setServerInput b => simp [handleNormal, expected1, nextScale, hrw, hfree, hn, hop, hnp]
  case setSW b => simp [handleNormal, expected1, nextScale, hrw, hfree, hn, hop, hnp]
  case xvp b => simp [handleNormal, expected1, nextScale, hrw, hfree, hn, hop, hnp]
  case textChatCmd c => simp [handleNormal, expected1, nextScale, hrw, hfree, hn, hop, hnp]
  case textChat t => simp [handleNormal, expected1, nextScale, hrw, hfree, hn, hop, hnp]
  case setDesktopSize b s => simp [handleNormal, expected1, nextScale, hrw, hfree, hn, hop, hnp]
  case setEncodings encs =>
    simp only [handleNormal, expected1, nextScale]
    split <;> simp [hrw, hfree, hn, hop, hnp]
  case setPixelFormat b =>
    have hc : ¬ (((byteAt b 3).toNat ≠ 8 ∧ (byteAt b 3).toNat ≠ 16 ∧
        ¬ (C06.allow24bpp = true ∧ (byteAt b 3).toNat = 24) ∧ (byteAt b 3).toNat ≠ 32) ∨
        ((byteAt b 6).toNat = 0 ∧ (byteAt b 3).toNat ≠ 8)) := by
      rcases hb.2 with h | ⟨h | h, h'⟩ <;> omega
    simp only [handleNormal, if_neg hc, expected1, nextScale]
    simp [hrw, hfree, hn, hop, hnp]
  case setScale p s =>
    have hs0 : s ≠ 0 := by omega
    simp [handleNormal, hs0, expected1, nextScale, setScale, hrw, hfree, hn, hop, hnp]
  case pointer mk x y =>
    have h1 : ¬ (o.isSome = true ∧ o ≠ some cl.id) := by
      rcases hfree with h | h <;> simp [h]
    simp only [handleNormal, ptrDeliver, h1, if_false, hrw, hnd, hnp, expected1, nextScale, sx, sy]
    by_cases hm : mk = 0 <;> simp [hm, hn, hop]

/-- **one message**: a benign message of a permitted client is consumed exactly, produces exactly
its expected callbacks, and leaves the client permitted -/
theorem step_benign (orc : Oracles) (s : Server) (i : Nat) (cl : Client) (hp : Permitted s i cl)
    (m : Msg) (hb : Benign s.cfg m) (rest : List UInt8) :
    ∃ s' cl', stepFlat orc s i (encode m ++ rest) = (s', expected1 s.cfg i cl.scaled m, rest) ∧
      Permitted s' i cl' ∧ cl'.scaled = nextScale s.cfg cl.scaled m ∧ s'.cfg = s.cfg := by
  have hid : cl.id = i := find_some_id hp.found
  have hparse : (readerFor cl).runFlat (encode m ++ rest) = some (m, rest) := by
    simp only [readerFor, hp.normal]
    exact parse_encode s.cfg cl.extClip m hb rest
  have hh := handleNormal_benign s.cfg s.owner cl m hb hp.rw (by rw [hid]; exact hp.free)
    hp.nodefer hp.nopending hp.normal hp.isOpen
  have hid' := handleNormal_id s.cfg s.owner cl m
  rw [stepFlat_some orc s i cl _ m rest hp.found hparse]
  have hhandle : handle orc s.cfg s.owner cl m = handleNormal s.cfg s.owner cl m :=
    handle_normal orc s.cfg s.owner cl m hp.normal (by intro p h; subst h; simp [Benign] at hb)
  rw [hhandle]
  obtain ⟨h1, h2, h3, h4, h5, h6, h7⟩ := hh
  refine ⟨s.putOwner (handleNormal s.cfg s.owner cl m).1 (handleNormal s.cfg s.owner cl m).2.1,
    (handleNormal s.cfg s.owner cl m).1, ?_, ?_, h7, rfl⟩
  · rw [h1, hid]
  · exact {
      found := find_put_self s i cl _ hp.found (by rw [hid', hid]) _
      normal := h3, isOpen := h4, rw := h5
      free := by rw [putOwner_owner, ← hid]; exact h2
      nodefer := hp.nodefer
      nopending := h6 }

end VncModel.Input
