/-
Byte-stream reading as the server does it (`rfbReadExact` / `rfbReadExactTimeout`,
src/libvncserver/sockets.c).

A message handler of the C code is a *program of exact reads*: "read n bytes, look at them, decide
how many to read next, ...".  `Reader α` is that program, independent of how the bytes arrive.
Two interpreters:

* `runFlat`   over the plain byte sequence the client sent;
* `runChunks` over the same bytes cut into TCP segments (`arr` = bytes that have arrived and are
  unread, `pend` = segments still in flight).  `readChunks` mirrors the loop of
  `rfbReadExactTimeout`: `read()` returns at most what has arrived; when nothing has arrived it
  fails with EAGAIN and `select()` waits for the next segment; when no segment is in flight the
  wait times out (`none`), and the caller closes the connection.  A 0-byte segment is a spurious
  wake-up (select returns, the next read fails with EAGAIN again).

`runChunks_flat` (Lemmas) shows both interpreters agree for every program and every segmentation.
-/
namespace VncModel.Input

inductive Reader (α : Type) where
  | done (a : α) : Reader α
  | read (n : Nat) (k : List UInt8 → Reader α) : Reader α

namespace Reader

/-- run on a flat byte sequence: `none` = the stream ends before the program is satisfied
(the code sees a time-out) -/
def runFlat {α : Type} : Reader α → List UInt8 → Option (α × List UInt8)
  | .done a, bs => some (a, bs)
  | .read n k, bs => if n ≤ bs.length then (k (bs.take n)).runFlat (bs.drop n) else none

end Reader

/-- `rfbReadExactTimeout(cl, buf, n)` over arrived bytes `arr` and in-flight segments `pend`;
`acc` = bytes already copied into `buf`.  Result: the n bytes, the new `arr`, the new `pend`. -/
def readChunks : (pend : List (List UInt8)) → (n : Nat) → (acc arr : List UInt8) →
    Option (List UInt8 × List UInt8 × List (List UInt8))
  | [], n, acc, arr =>
    if n ≤ arr.length then some (acc ++ arr.take n, arr.drop n, []) else none
  | c :: pend, n, acc, arr =>
    if n ≤ arr.length then some (acc ++ arr.take n, arr.drop n, c :: pend)
    else readChunks pend (n - arr.length) (acc ++ arr) c

namespace Reader

def runChunks {α : Type} : Reader α → List UInt8 → List (List UInt8) →
    Option (α × List UInt8 × List (List UInt8))
  | .done a, arr, pend => some (a, arr, pend)
  | .read n k, arr, pend =>
    match readChunks pend n [] arr with
    | none => none
    | some (bs, arr', pend') => (k bs).runChunks arr' pend'

end Reader

/-- all bytes of a segmented stream -/
def flat (arr : List UInt8) (pend : List (List UInt8)) : List UInt8 := arr ++ pend.flatten

/-- cut `bs` at the given ascending absolute positions (harness `cuts=a,b,..`; positions are clamped
to `[previous cut, length]`) -/
def cutAt (bs : List UInt8) (prev : Nat) : List Nat → List (List UInt8)
  | [] => [bs]
  | c :: cs =>
    let k := min (c - prev) bs.length
    bs.take k :: cutAt (bs.drop k) (prev + k) cs

end VncModel.Input
