import VncModel.Input.Model
/-
The client's side of the wire: how a (well-formed) client message is laid out as bytes, straight
from include/rfb/rfbproto.h.  Used only to STATE the delivery theorems ("the message the client
sent"); the server model never calls it.
-/
namespace VncModel.Input

def enc16 (n : Nat) : List UInt8 := [UInt8.ofNat (n / 256), UInt8.ofNat n]
def enc32 (n : Nat) : List UInt8 :=
  [UInt8.ofNat (n / 16777216), UInt8.ofNat (n / 65536), UInt8.ofNat (n / 256), UInt8.ofNat n]

/-- wire image; pad bytes are sent as 0 (`parse_key_anypad` etc. show they are ignored) -/
def encode : Msg → List UInt8
  | .setPixelFormat b => 0 :: b
  | .fixColourMap b => 1 :: b
  | .setEncodings encs => [2, 0] ++ enc16 encs.length ++ encs.flatMap enc32
  | .fbUpdateRequest b => 3 :: b
  | .key d k => [4, d, 0, 0] ++ enc32 k
  | .pointer m x y => [5, UInt8.ofNat m] ++ enc16 x ++ enc16 y
  | .cutText t => [6, 0, 0, 0] ++ enc32 t.length ++ t
  | .cutTextTooBig len => [6, 0, 0, 0] ++ enc32 len
  | .cutTextExt p => [6, 0, 0, 0] ++ enc32 (4294967296 - p.length) ++ p
  | .fileTransfer b => 7 :: b
  | .setScale palm s => [if palm then 15 else 8, UInt8.ofNat s, 0, 0]
  | .setServerInput b => 9 :: b
  | .setSW b => 10 :: b
  | .textChatCmd c => [11, 0, 0, 0] ++ enc32 c
  | .textChat t => [11, 0, 0, 0] ++ enc32 t.length ++ t
  | .textChatBad len => [11, 0, 0, 0] ++ enc32 len
  | .xvp b => 250 :: b
  | .setDesktopSize b s => 251 :: b ++ s
  | .unknown t => [t]
  | .hsVersion b => b
  | .hsSecType t => [t]
  | .hsAuth b => b
  | .hsInit t => [t]

/-- a message as a conforming client can send it in RFB_NORMAL that the server keeps the
connection open for (in the harness configuration) -/
def Benign (_cfg : Cfg) : Msg → Prop
  | .key _ k => k < 4294967296
  | .pointer m x y => m < 256 ∧ x < 65536 ∧ y < 65536
  | .cutText t => t.length ≤ 1048576
  | .fbUpdateRequest b => b.length = 9
  | .setEncodings encs => encs.length < 65536 ∧ ∀ e ∈ encs, e < 4294967296
  | .setScale _ s => 0 < s ∧ s < 256
  | .setPixelFormat b => b.length = 19 ∧
      ((byteAt b 3).toNat = 8 ∨ ((byteAt b 3).toNat = 16 ∨ (byteAt b 3).toNat = 32) ∧ (byteAt b 6).toNat ≠ 0)
  | .setServerInput b => b.length = 3
  | .setSW b => b.length = 5
  | .xvp b => b.length = 3
  | .textChatCmd c => c = 4294967295 ∨ c = 4294967294 ∨ c = 4294967293
  | .textChat t => 0 < t.length ∧ t.length < 4096
  | .setDesktopSize b s => b.length = 7 ∧ s.length = (byteAt b 5).toNat * 16
  | _ => False

/-- the input callbacks the property expects for a message sequence of client `i`: one per key /
pointer / cut-text message, in order, same values; pointer positions mapped through the scaled
screen `sc` in force at that moment (earlier SetScale messages of the same sequence change it) -/
def expected (cfg : Cfg) (i : Nat) (sc : Option (Nat × Nat)) : List Msg → List Callback
  | [] => []
  | .key d k :: ms => .kbd i d k :: expected cfg i sc ms
  | .pointer m x y :: ms => .ptr i m (scaleX cfg sc x) (scaleY cfg sc y) :: expected cfg i sc ms
  | .cutText t :: ms => .cut i t :: expected cfg i sc ms
  | .setScale _ s :: ms => expected cfg i (scaleAfter cfg sc s) ms
  | _ :: ms => expected cfg i sc ms

/-- the log for a client that is never scaled: literally one callback per input message with the
very same values -/
def plainCallbacks (i : Nat) : Msg → List Callback
  | .key d k => [.kbd i d k]
  | .pointer m x y => [.ptr i m x y]
  | .cutText t => [.cut i t]
  | _ => []

def isSetScale : Msg → Bool
  | .setScale _ _ => true
  | _ => false

def encodeAll (ms : List Msg) : List UInt8 := ms.flatMap encode

end VncModel.Input
