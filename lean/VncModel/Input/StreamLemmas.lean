import VncModel.Input.Stream
/-! Segmentation lemmas: reading from a segmented stream = reading from its concatenation. -/
namespace VncModel.Input

theorem flat_nil (arr : List UInt8) : flat arr [] = arr := by simp [flat]

theorem flat_cons (arr c : List UInt8) (pend : List (List UInt8)) :
    flat arr (c :: pend) = arr ++ flat c pend := by simp [flat]

/-- `rfbReadExactTimeout` over any segmentation times out exactly when fewer than `n` bytes are on
their way in total -/
theorem readChunks_none (pend : List (List UInt8)) :
    ∀ (n : Nat) (acc arr : List UInt8),
      readChunks pend n acc arr = none ↔ (flat arr pend).length < n := by
  induction pend with
  | nil =>
    intro n acc arr
    by_cases h : n ≤ arr.length
    · simp [readChunks, h, flat_nil]
    · simp [readChunks, h, flat_nil]; omega
  | cons c pend ih =>
    intro n acc arr
    by_cases h : n ≤ arr.length
    · simp [readChunks, h, flat_cons]; omega
    · simp only [readChunks, h, if_false, ih, flat_cons, List.length_append]; omega

/-- ... and otherwise returns exactly the next `n` bytes of the concatenated stream and leaves
exactly the rest. -/
theorem readChunks_some (pend : List (List UInt8)) :
    ∀ (n : Nat) (acc arr bs arr' : List UInt8) (pend' : List (List UInt8)),
      readChunks pend n acc arr = some (bs, arr', pend') →
        n ≤ (flat arr pend).length ∧ bs = acc ++ (flat arr pend).take n ∧
          flat arr' pend' = (flat arr pend).drop n := by
  induction pend with
  | nil =>
    intro n acc arr bs arr' pend' heq
    by_cases h : n ≤ arr.length
    · simp only [readChunks, h, if_true, Option.some.injEq, Prod.mk.injEq] at heq
      obtain ⟨h1, h2, h3⟩ := heq
      subst h1 h2 h3
      simp [flat_nil, h]
    · simp [readChunks, h] at heq
  | cons c pend ih =>
    intro n acc arr bs arr' pend' heq
    by_cases h : n ≤ arr.length
    · simp only [readChunks, h, if_true, Option.some.injEq, Prod.mk.injEq] at heq
      obtain ⟨h1, h2, h3⟩ := heq
      subst h1 h2 h3
      refine ⟨by simp [flat_cons]; omega, ?_, ?_⟩
      · rw [flat_cons, List.take_append_of_le_length h]
      · rw [flat_cons, flat_cons, List.drop_append_of_le_length h]
    · simp only [readChunks, h, if_false] at heq
      obtain ⟨h1, h2, h3⟩ := ih _ _ _ _ _ _ heq
      have hlt : arr.length ≤ n := by omega
      refine ⟨by simp only [flat_cons, List.length_append]; omega, ?_, ?_⟩
      · rw [h2, flat_cons, List.take_append, List.take_of_length_le hlt, List.append_assoc]
      · rw [h3, flat_cons, List.drop_append, List.drop_of_length_le hlt, List.nil_append]

/-- **Both interpreters agree**, for every read program and every segmentation. -/
theorem Reader.runChunks_flat {α : Type} (r : Reader α) :
    ∀ (arr : List UInt8) (pend : List (List UInt8)),
      (r.runChunks arr pend).map (fun x => (x.1, flat x.2.1 x.2.2)) = r.runFlat (flat arr pend) := by
  induction r with
  | done a => intro arr pend; simp [Reader.runChunks, Reader.runFlat]
  | read n k ih =>
    intro arr pend
    simp only [Reader.runChunks, Reader.runFlat]
    cases heq : readChunks pend n [] arr with
    | none =>
      have := (readChunks_none pend n [] arr).1 heq
      rw [if_neg (by omega)]
      rfl
    | some v =>
      obtain ⟨bs, arr', pend'⟩ := v
      obtain ⟨h1, h2, h3⟩ := readChunks_some pend n [] arr bs arr' pend' heq
      simp only []
      rw [if_pos h1, ih bs arr' pend', h3, h2, List.nil_append]

theorem cutAt_flatten (cuts : List Nat) : ∀ (bs : List UInt8) (prev : Nat),
    (cutAt bs prev cuts).flatten = bs := by
  induction cuts with
  | nil => intro bs prev; simp [cutAt]
  | cons c cs ih => intro bs prev; simp [cutAt, ih]

end VncModel.Input
