/-
`ScaleX` / `ScaleY` of src/libvncserver/scale.c for a scaled client (`from != to`):

    return ((int)(((int64_t) x * (int64_t)to->width) / (int64_t)from->width));

Exact integer arithmetic (since /repo commit b3494ad "ScaleX/ScaleY map coordinates with integer
arithmetic"; the earlier double expression `(x / from) * to` truncated exact quotients downwards,
e.g. from = 49, to = 98, x = 1 gave 1).  For protocol operands (x, widths < 2^16) the product is
below 2^32, far inside int64_t; the final cast to `int` is value-preserving as long as the quotient
is below 2^31, which `Props/C06.lean: scale_result_fits_int` proves for every scaled screen the
server can create (scale factor is one byte).  The correspondence run compares `scaleCoord` with the
real `ScaleX`/`ScaleY` exhaustively over x = 0..65535 for many (from, to) pairs (op `scalex`).
-/
namespace VncModel.Input

/-- `(int)(((int64_t)x * to) / from)` for `from > 0` -/
def scaleCoord (x from_ to : Nat) : Nat := x * to / from_

end VncModel.Input
