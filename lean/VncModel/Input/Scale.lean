/-
`ScaleX` / `ScaleY` of src/libvncserver/scale.c for a scaled client:

    return ((int)(((double) x / (double)from->width) * (double)to->width ));

The expression is two IEEE-754 binary64 operations (a correctly rounded division, a correctly
rounded multiplication) followed by truncation.  It is modelled EXACTLY with natural-number
arithmetic: `rn53 num den` is round-to-nearest-even of the positive rational `num/den` to 53
significant bits.  For the operand range of the protocol (x, widths < 2^16) no subnormal, overflow
or NaN can occur, so this is the whole of IEEE semantics that matters.  The correspondence run
compares `scaleCoord` with the real `ScaleX`/`ScaleY` exhaustively over x = 0..65535 for many
(from, to) pairs (op `scalex`/`scaley`).

The result is NOT always ⌊x·to/from⌋: e.g. from = 49, to = 98, x = 1 gives 1, not 2, because
RN(1/49)·98 < 2.  This is faithfully reproduced.
-/
namespace VncModel.Input

/-- value `m / 2^sh` (sh may be negative) -/
structure Dy where
  m : Nat
  sh : Int
  deriving Repr, DecidableEq

/-- round-to-nearest-even of `num/den` (`den > 0`) to 53 significant bits -/
def rn53 (num den : Nat) : Dy :=
  if num = 0 then ⟨0, 0⟩ else
  -- E = ⌊log2(num/den)⌋ is d or d-1 where d = log2 num - log2 den
  let d : Int := (num.log2 : Int) - (den.log2 : Int)
  let ge : Bool := if d ≥ 0 then num ≥ den * 2 ^ d.toNat else num * 2 ^ (-d).toNat ≥ den
  let e : Int := if ge then d else d - 1
  let sh : Int := 52 - e
  let n := if sh ≥ 0 then num * 2 ^ sh.toNat else num
  let dd := if sh ≥ 0 then den else den * 2 ^ (-sh).toNat
  let q := n / dd
  let r := n % dd
  let q' := if 2 * r > dd ∨ (2 * r = dd ∧ q % 2 = 1) then q + 1 else q
  ⟨q', sh⟩

/-- ⌊m / 2^sh⌋ -/
def Dy.floor (v : Dy) : Nat :=
  if v.sh ≥ 0 then v.m / 2 ^ v.sh.toNat else v.m * 2 ^ (-v.sh).toNat

/-- RN(v · t) for a natural number t -/
def Dy.mulNat (v : Dy) (t : Nat) : Dy :=
  let p := v.m * t
  let r := if v.sh ≥ 0 then rn53 p (2 ^ v.sh.toNat) else rn53 (p * 2 ^ (-v.sh).toNat) 1
  r

/-- `(int)(((double)x / (double)from) * (double)to)` for `from > 0` -/
def scaleCoord (x from_ to : Nat) : Nat :=
  ((rn53 x from_).mulNat to).floor

end VncModel.Input
