import VncModel.Input.Lemmas
/-!
Pointer coalescing (`deferPtrUpdateTime > 0`) for one client that may use the pointer (not
view-only, no other client holds a button): what the application sees over ANY interleaving of
PointerEvent messages and `rfbUpdateClient` calls at arbitrary times.  Model of the FIXED code
(fixes/C06-ptr-defer-order.diff): `ptrDeliver` (message side) and `updatePtr` (timer side).
-/
namespace VncModel.Input

/-- what happens to the client, in time order: a PointerEvent message is processed, or the event
loop calls `rfbUpdateClient` at wall-clock time `now` (µs) -/
inductive PEv where
  | msg (mask x y : Nat)
  | upd (now : Nat)
  deriving Repr, DecidableEq

def pstep (cfg : Cfg) (cl : Client) : PEv → Client × List Callback
  | .msg m x y => ptrDeliver cfg cl m x y
  | .upd now => updatePtr cfg now cl

/-- run a schedule; the callbacks in the order the application receives them -/
def prun (cfg : Cfg) : Client → List PEv → Client × List Callback
  | cl, [] => (cl, [])
  | cl, e :: es =>
    let r := pstep cfg cl e
    let r' := prun cfg r.1 es
    (r'.1, r.2 ++ r'.2)

/-- the callback a message stands for: same mask, position mapped back by the client's scale -/
def cbOf (cfg : Cfg) (i : Nat) (sc : Option (Nat × Nat)) : PEv → Option Callback
  | .msg m x y => some (.ptr i m (scaleX cfg sc x) (scaleY cfg sc y))
  | .upd _ => none

/-- everything the client sent, as callbacks, in the order sent -/
def sentCbs (cfg : Cfg) (i : Nat) (sc : Option (Nat × Nat)) (evs : List PEv) : List Callback :=
  evs.filterMap (cbOf cfg i sc)

/-- button mask of the last message of a schedule (`m0` if there is none) -/
def lastMask (m0 : Nat) : List PEv → Nat
  | [] => m0
  | .msg m _ _ :: es => lastMask m es
  | .upd _ :: es => lastMask m0 es

/-- the clock readings of a schedule never go backwards (`t` = last reading so far) -/
def Mono : Nat → List PEv → Prop
  | _, [] => True
  | t, .msg _ _ _ :: es => Mono t es
  | t, .upd n :: es => t ≤ n ∧ Mono n es

def lastTime : Nat → List PEv → Nat
  | t, [] => t
  | t, .msg _ _ _ :: es => lastTime t es
  | _, .upd n :: es => lastTime n es

/-- the deferral timer, if running, was started at a clock reading not after `now` (+1 µs for the
`tv_usec == 0 → 1` adjustment) -/
def TimerOk (cl : Client) (now : Nat) : Prop :=
  cl.startUsec ≠ 0 → cl.startSec * 1000000 + cl.startUsec ≤ now + 1

/-- coalescing invariant: `sent` = everything sent so far (as callbacks), `deliv` = everything
delivered so far -/
structure CI (i : Nat) (sc : Option (Nat × Nat)) (cl : Client) (sent deliv : List Callback) : Prop where
  id : cl.id = i
  scaled : cl.scaled = sc
  rw : cl.viewOnly = false
  sub : deliv.Sublist sent
  pendNone : cl.lastPtr = none → sent = [] ∨ deliv.getLast? = sent.getLast?
  pendSome : ∀ px py, cl.lastPtr = some (px, py) →
    ∃ sd, sent = sd ++ [.ptr i cl.lastPtrButtons px py] ∧ deliv.Sublist sd
  mask : ∀ m x y, sent.getLast? = some (.ptr i m x y) → cl.lastPtrButtons = m

theorem prun_append (cfg : Cfg) (es₁ : List PEv) : ∀ (cl : Client) (es₂ : List PEv),
    prun cfg cl (es₁ ++ es₂) =
      ((prun cfg (prun cfg cl es₁).1 es₂).1, (prun cfg cl es₁).2 ++ (prun cfg (prun cfg cl es₁).1 es₂).2) := by
  induction es₁ with
  | nil => intro cl es₂; simp [prun]
  | cons e es ih => intro cl es₂; simp [prun, ih, List.append_assoc]

theorem sentCbs_append (cfg : Cfg) (i : Nat) (sc : Option (Nat × Nat)) (a b : List PEv) :
    sentCbs cfg i sc (a ++ b) = sentCbs cfg i sc a ++ sentCbs cfg i sc b := by
  simp [sentCbs]

theorem tdiv_bound (d : Int) : Int.tdiv d 1000 * 1000 ≥ d - 999 := by
  have hs : Int.sign 1000 = 1 := rfl
  rw [Int.tdiv_eq_ediv]
  split <;> omega

/-- one step keeps the invariant -/
theorem CI_step (cfg : Cfg) (i : Nat) (sc : Option (Nat × Nat)) (cl : Client)
    (sent deliv : List Callback) (h : CI i sc cl sent deliv) (e : PEv) :
    CI i sc (pstep cfg cl e).1 (sent ++ (cbOf cfg i sc e).toList) (deliv ++ (pstep cfg cl e).2) := by
  obtain ⟨hid, hsc, hrw, hsub, hpn, hps, hmask⟩ := h
  subst hid
  subst hsc
  have hid : cl.id = cl.id := rfl
  have hsc : cl.scaled = cl.scaled := rfl
  have hv' : ¬ (cl.viewOnly = true) := by simp [hrw]
  cases e with
  | msg m x y =>
    have hcb : (cbOf cfg cl.id cl.scaled (.msg m x y)).toList = [.ptr cl.id m (sx cfg cl x) (sy cfg cl y)] := by
      simp [cbOf, sx, sy]
    rw [hcb]
    simp only [pstep, ptrDeliver]
    split
    · -- delivered at once
      cases hl : cl.lastPtr with
      | none =>
        refine ⟨hid, hsc, hrw, List.Sublist.append hsub (List.Sublist.refl _), ?_, ?_, ?_⟩
        · intro _; right; simp
        · intro px py hp; simp at hp
        · intro m' x' y' hlast
          simp only [List.getLast?_concat, Option.some.injEq, Callback.ptr.injEq] at hlast
          exact hlast.2.1
      | some p =>
        obtain ⟨px, py⟩ := p
        obtain ⟨sd, hsent, hsd⟩ := hps px py hl
        refine ⟨hid, hsc, hrw, ?_, ?_, ?_, ?_⟩
        · rw [hsent, List.append_assoc]
          exact List.Sublist.append hsd (List.Sublist.refl _)
        · intro _; right
          rw [show deliv ++ [Callback.ptr cl.id cl.lastPtrButtons px py, Callback.ptr cl.id m (sx cfg cl x) (sy cfg cl y)]
              = (deliv ++ [Callback.ptr cl.id cl.lastPtrButtons px py]) ++ [Callback.ptr cl.id m (sx cfg cl x) (sy cfg cl y)] by simp]
          simp only [List.getLast?_concat]
        · intro px' py' hp; simp at hp
        · intro m' x' y' hlast
          simp only [List.getLast?_concat, Option.some.injEq, Callback.ptr.injEq] at hlast
          exact hlast.2.1
    · -- coalesced: the new position replaces whatever was pending
      refine ⟨hid, hsc, hrw, ?_, ?_, ?_, ?_⟩
      · simp only [List.append_nil]
        exact List.Sublist.trans hsub (List.sublist_append_left _ _)
      · intro hp; simp at hp
      · intro px py hp
        simp only [Option.some.injEq, Prod.mk.injEq] at hp
        refine ⟨sent, ?_, by simpa using hsub⟩
        rw [← hp.1, ← hp.2]
      · intro m' x' y' hlast
        simp only [List.getLast?_concat, Option.some.injEq, Callback.ptr.injEq] at hlast
        exact hlast.2.1
  | upd now =>
    have hcb : (cbOf cfg cl.id cl.scaled (.upd now)).toList = [] := rfl
    rw [hcb, List.append_nil]
    simp only [pstep, updatePtr]
    cases hl : cl.lastPtr with
    | none =>
      simp only [List.append_nil]
      exact ⟨hid, hsc, hrw, hsub, hpn, hps, hmask⟩
    | some p =>
      obtain ⟨px, py⟩ := p
      obtain ⟨sd, hsent, hsd⟩ := hps px py hl
      simp only [if_neg hv']
      split
      · -- timer started
        simp only [List.append_nil]
        refine ⟨hid, hsc, hrw, hsub, ?_, ?_, hmask⟩
        · intro hp; simp at hp
        · intro px' py' hp
          simp only [Option.some.injEq, Prod.mk.injEq] at hp
          obtain ⟨rfl, rfl⟩ := hp
          exact ⟨sd, hsent, hsd⟩
      · split
        · -- timer fired: the pending (= last) position is delivered
          refine ⟨hid, hsc, hrw, ?_, ?_, ?_, hmask⟩
          · rw [hsent]; exact List.Sublist.append hsd (List.Sublist.refl _)
          · intro _; right; rw [hsent]; simp
          · intro px' py' hp; simp at hp
        · simp only [List.append_nil]
          exact ⟨hid, hsc, hrw, hsub, hpn, hps, hmask⟩

theorem CI_run (cfg : Cfg) (i : Nat) (sc : Option (Nat × Nat)) (evs : List PEv) :
    ∀ (cl : Client) (sent deliv : List Callback), CI i sc cl sent deliv →
      CI i sc (prun cfg cl evs).1 (sent ++ sentCbs cfg i sc evs) (deliv ++ (prun cfg cl evs).2) := by
  induction evs with
  | nil => intro cl sent deliv h; simpa [prun, sentCbs] using h
  | cons e es ih =>
    intro cl sent deliv h
    have h1 := CI_step cfg i sc cl sent deliv h e
    have h2 := ih _ _ _ h1
    have e1 : sentCbs cfg i sc (e :: es) = (cbOf cfg i sc e).toList ++ sentCbs cfg i sc es := by
      simp only [sentCbs, List.filterMap_cons]
      cases cbOf cfg i sc e <;> simp
    simp only [prun, e1]
    simpa [List.append_assoc] using h2

theorem CI_init (cl : Client) (hv : cl.viewOnly = false) (hp : cl.lastPtr = none) :
    CI cl.id cl.scaled cl [] [] :=
  ⟨rfl, rfl, hv, List.Sublist.refl _, fun _ => Or.inl rfl, fun px py h => by simp [hp] at h,
   fun m x y h => by simp at h⟩

/-- `lastPtrButtons` always is the mask of the last message -/
theorem prun_lastPtrButtons (cfg : Cfg) (evs : List PEv) : ∀ (cl : Client),
    (prun cfg cl evs).1.lastPtrButtons = lastMask cl.lastPtrButtons evs := by
  induction evs with
  | nil => intro cl; rfl
  | cons e es ih =>
    intro cl
    simp only [prun, ih]
    cases e with
    | msg m x y =>
      simp only [pstep, ptrDeliver, lastMask]
      (repeat' split) <;> rfl
    | upd now =>
      simp only [pstep, updatePtr, lastMask]
      (repeat' split) <;> rfl

/-- the timer bookkeeping stays sane along a schedule whose clock never goes backwards -/
theorem TimerOk_step (cfg : Cfg) (cl : Client) (t : Nat) (e : PEv) (h : TimerOk cl t)
    (hm : Mono t [e]) : TimerOk (pstep cfg cl e).1 (lastTime t [e]) := by
  cases e with
  | msg m x y =>
    simp only [pstep, ptrDeliver, lastTime]
    (repeat' split) <;> first | exact h | (intro hh; simp at hh)
  | upd now =>
    simp only [Mono, and_true] at hm
    simp only [pstep, updatePtr, lastTime]
    unfold TimerOk at h ⊢
    (repeat' split) <;> intro hh <;> (try simp only []) <;> first
      | (have := h hh; omega)
      | omega
      | (simp at hh)

theorem TimerOk_run (cfg : Cfg) (evs : List PEv) : ∀ (cl : Client) (t : Nat),
    TimerOk cl t → Mono t evs → TimerOk (prun cfg cl evs).1 (lastTime t evs) := by
  induction evs with
  | nil => intro cl t h _; exact h
  | cons e es ih =>
    intro cl t h hm
    cases e with
    | msg m x y =>
      have h1 := TimerOk_step cfg cl t (.msg m x y) h (by simp [Mono])
      simp only [lastTime] at h1
      simpa [prun, lastTime] using ih _ t h1 (by simpa [Mono] using hm)
    | upd now =>
      simp only [Mono] at hm
      have h1 := TimerOk_step cfg cl t (.upd now) h (by simp [Mono, hm.1])
      simp only [lastTime] at h1
      simpa [prun, lastTime] using ih _ now h1 hm.2

/-- **the timer fires**: a pending position is delivered by the second of any two
`rfbUpdateClient` calls that are at least `deferPtr + 2` ms apart (or earlier), exactly once -/
theorem timer_fires (cfg : Cfg) (cl : Client) (t1 t2 px py : Nat) (hv : cl.viewOnly = false)
    (hp : cl.lastPtr = some (px, py)) (hok : TimerOk cl t1)
    (hgap : t1 + (cfg.deferPtr + 2) * 1000 ≤ t2) :
    (prun cfg cl [.upd t1, .upd t2]).1.lastPtr = none ∧
    (prun cfg cl [.upd t1, .upd t2]).2 = [.ptr cl.id cl.lastPtrButtons px py] := by
  have fire : ∀ (c : Client), c.viewOnly = false → c.lastPtr = some (px, py) → c.startUsec ≠ 0 →
      c.startSec * 1000000 + c.startUsec ≤ t1 + 1 →
      updatePtr cfg t2 c = ({ c with startUsec := 0, lastPtr := none }, [.ptr c.id c.lastPtrButtons px py]) := by
    intro c hcv hcp hcs hct
    have hel : (t2 / 1000000 < c.startSec) ∨ elapsedMs t2 c > (cfg.deferPtr : Int) := by
      right
      unfold elapsedMs
      have hb := tdiv_bound (((t2 % 1000000 : Nat) : Int) - (c.startUsec : Int))
      omega
    simp [updatePtr, hcp, hcv, hcs, hel]
  simp only [prun, pstep, List.append_nil]
  by_cases hs : cl.startUsec = 0
  · -- first call starts the timer, second one fires
    have h1 : updatePtr cfg t1 cl =
        ({ cl with startSec := t1 / 1000000, startUsec := if t1 % 1000000 = 0 then 1 else t1 % 1000000 }, []) := by
      simp [updatePtr, hp, hv, hs]
    rw [h1]
    have hf := fire { cl with startSec := t1 / 1000000, startUsec := if t1 % 1000000 = 0 then 1 else t1 % 1000000 }
      hv hp (by simp only []; split <;> omega) (by simp only []; split <;> omega)
    simp only [] at hf ⊢
    rw [hf]
    simp
  · by_cases hf : (t1 / 1000000 < cl.startSec) ∨ elapsedMs t1 cl > (cfg.deferPtr : Int)
    · -- it fires already at the first call
      have h1 : updatePtr cfg t1 cl =
          ({ cl with startUsec := 0, lastPtr := none }, [.ptr cl.id cl.lastPtrButtons px py]) := by
        simp [updatePtr, hp, hv, hs, hf]
      rw [h1]
      simp [updatePtr]
    · have h1 : updatePtr cfg t1 cl = (cl, []) := by
        simp [updatePtr, hp, hv, hs, hf]
      rw [h1]
      simp only []
      rw [fire cl hv hp hs (hok hs)]
      simp

end VncModel.Input
