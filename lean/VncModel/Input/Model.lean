import VncModel.Input.Stream
import VncModel.Input.Scale
import VncModel.Gen.C06
/-
Model of the client → server message path of libvncserver (C06).

C ↔ model
  rfbProcessClientMessage (state dispatch, rfbserver.c:672)     ↔ `readerFor` + `handle`
  rfbProcessClientProtocolVersion / SecurityType / Auth / Init    ↔ `handleHs` (abstract: C05/C14 own them)
  rfbProcessClientNormalMessage (the big switch, rfbserver.c:2218)↔ `parseNormal` (reads) + `handleNormal`
  cl->screen->pointerClient                                       ↔ `Server.owner`
  cl->viewOnly, cl->scaledScreen, cl->enableExtendedClipboard,
  cl->lastPtrButtons, cl->lastPtrX/Y, cl->startPtrDeferring       ↔ fields of `Client`
  rfbProcessEvents: rfbUpdateClient (deferred pointer) + reaping  ↔ `pump`
  kbdAddEvent / ptrAddEvent / setXCutText invocations             ↔ `Callback`

Every `rfbReadExact` of the C handlers is a `Reader.read`; the reads happen in the same order and
with the same lengths (sizes and offsets are literal here and proved equal to the T0-generated
constants in `Props/C06.lean: layout_matches_headers`).  A failed read (time-out) closes the client.

Configuration assumed (and set up by the harness): one screen; `alwaysShared`; no protocol
extensions registered; `permitFileTransfer = FALSE`; default `setDesktopSizeHook`, no `xvpHook`,
no `setTextChat`/`setSingleWindow`/`setServerInput` hooks; server writes never fail.
-/
namespace VncModel.Input
open VncModel.Gen

/-! ## bytes -/

def be16 (a b : UInt8) : Nat := a.toNat * 256 + b.toNat
def be32 (a b c d : UInt8) : Nat := ((a.toNat * 256 + b.toNat) * 256 + c.toNat) * 256 + d.toNat

/-- byte `i` of a header that the interpreter delivered with exactly the requested length
(`Reader.read n` always passes `n` bytes; indices used below are `< n`) -/
def byteAt (bs : List UInt8) (i : Nat) : UInt8 := bs.getD i 0

def be16At (bs : List UInt8) (i : Nat) : Nat := be16 (byteAt bs i) (byteAt bs (i + 1))
def be32At (bs : List UInt8) (i : Nat) : Nat :=
  be32 (byteAt bs i) (byteAt bs (i + 1)) (byteAt bs (i + 2)) (byteAt bs (i + 3))

/-! ## state -/

inductive St where
  | pv | sec | auth | init | normal
  deriving DecidableEq, Repr

structure Cfg where
  width : Nat
  height : Nat
  hasPassword : Bool
  utf8Hook : Bool          -- screen->setXCutTextUTF8 != NULL
  deferPtr : Nat           -- screen->deferPtrUpdateTime (ms); 0 = off (default)
  deriving Repr, DecidableEq

structure Client where
  id : Nat
  st : St := .pv
  isOpen : Bool := true                    -- cl->sock != RFB_INVALID_SOCKET
  viewOnly : Bool := false
  minor : Nat := 0                         -- cl->protocolMinorVersion
  scaled : Option (Nat × Nat) := none      -- cl->scaledScreen != cl->screen: its width, height
  extClip : Bool := false                  -- cl->enableExtendedClipboard
  lastPtrButtons : Nat := 0
  lastPtr : Option (Nat × Nat) := none     -- cl->lastPtrX >= 0: the coalesced position
  startSec : Nat := 0                      -- cl->startPtrDeferring
  startUsec : Nat := 0                     -- tv_usec == 0 means "not started"
  outOfModel : Bool := false               -- an input outside the modelled fragment was seen
  deriving Repr, DecidableEq

structure Server where
  cfg : Cfg
  clients : List Client := []              -- newest first (rfbNewClient links at the head)
  owner : Option Nat := none               -- screen->pointerClient
  now : Nat := 0                           -- wall clock, µs
  hookViewOnly : Bool := false             -- the application's newClientHook sets cl->viewOnly
  deriving Repr

inductive Callback where
  | kbd (c : Nat) (down : UInt8) (key : Nat)
  | ptr (c : Nat) (mask : Nat) (x y : Nat)
  | cut (c : Nat) (text : List UInt8)
  | cutUtf8 (c : Nat) (text : List UInt8)      -- setXCutTextUTF8 (extended clipboard, Provide)
  deriving Repr, DecidableEq

/-! ## messages (what one call of rfbProcessClientMessage reads) -/

inductive Msg where
  -- handshake states
  | hsVersion (bs : List UInt8)
  | hsSecType (b : UInt8)
  | hsAuth (bs : List UInt8)
  | hsInit (b : UInt8)
  -- RFB_NORMAL
  | setPixelFormat (body : List UInt8)
  | fixColourMap (body : List UInt8)
  | setEncodings (encs : List Nat)
  | fbUpdateRequest (body : List UInt8)
  | key (down : UInt8) (keysym : Nat)
  | pointer (mask : Nat) (x y : Nat)
  | cutText (text : List UInt8)
  | cutTextTooBig (len : Nat)
  | cutTextExt (payload : List UInt8)
  | fileTransfer (body : List UInt8)
  | setScale (palm : Bool) (scale : Nat)
  | setServerInput (body : List UInt8)
  | setSW (body : List UInt8)
  | textChatCmd (code : Nat)
  | textChat (text : List UInt8)
  | textChatBad (len : Nat)
  | xvp (body : List UInt8)
  | setDesktopSize (body : List UInt8) (screens : List UInt8)
  | unknown (t : UInt8)
  deriving Repr, DecidableEq

/-- the `for (i = 0; i < nEncodings; i++) rfbReadExact(cl, &enc, 4)` loop -/
def readEncs : Nat → List Nat → Reader Msg
  | 0, acc => .done (.setEncodings acc.reverse)
  | n + 1, acc => .read 4 fun e => readEncs n (be32At e 0 :: acc)

/-- the reads of `rfbProcessClientNormalMessage` after the type byte `ty` (`switch (msg.type)`);
`extClip` = `cl->enableExtendedClipboard` -/
def normalBody (extClip : Bool) (ty : UInt8) : Reader Msg :=
    if ty = 0 then .read 19 fun b => .done (.setPixelFormat b)
    else if ty = 1 then .read 5 fun b => .done (.fixColourMap b)
    else if ty = 2 then .read 3 fun b => readEncs (be16At b 1) []
    else if ty = 3 then .read 9 fun b => .done (.fbUpdateRequest b)
    else if ty = 4 then .read 7 fun b => .done (.key (byteAt b 0) (be32At b 3))
    else if ty = 5 then .read 5 fun b => .done (.pointer (byteAt b 0).toNat (be16At b 1) (be16At b 3))
    else if ty = 6 then .read 7 fun b =>
      let len32 := be32At b 3
      -- `if (cl->enableExtendedClipboard && (length & 0x80000000)) length = -length` (uint32_t)
      let ext := extClip && len32 ≥ C06.cutTextExtEscapeMask
      let len := if ext then (4294967296 - len32) % 4294967296 else len32
      if len > C06.cutTextMaxAccepted then .done (.cutTextTooBig len)
      else .read len fun txt => .done (if ext then .cutTextExt txt else .cutText txt)
    else if ty = 7 then .read 11 fun b => .done (.fileTransfer b)
    else if ty = 8 then .read 3 fun b => .done (.setScale false (byteAt b 0).toNat)
    else if ty = 9 then .read 3 fun b => .done (.setServerInput b)
    else if ty = 10 then .read 5 fun b => .done (.setSW b)
    else if ty = 11 then .read 7 fun b =>
      let len := be32At b 3
      if len = 4294967295 ∨ len = 4294967294 ∨ len = 4294967293 then .done (.textChatCmd len)
      else if 0 < len ∧ len < 4096 then .read len fun txt => .done (.textChat txt)
      else .done (.textChatBad len)
    else if ty = 15 then .read 3 fun b => .done (.setScale true (byteAt b 0).toNat)
    else if ty = 250 then .read 3 fun b => .done (.xvp b)
    else if ty = 251 then .read 7 fun b =>
      let n := (byteAt b 5).toNat
      if n = 0 then .done (.setDesktopSize b [])
      else .read (n * 16) fun s => .done (.setDesktopSize b s)
    else .done (.unknown ty)

def parseNormal (extClip : Bool) : Reader Msg :=
  .read 1 fun t => normalBody extClip (byteAt t 0)

/-- what `rfbProcessClientMessage` reads, by connection state -/
def readerFor (cl : Client) : Reader Msg :=
  match cl.st with
  | .pv => .read 12 fun b => .done (.hsVersion b)
  | .sec => .read 1 fun b => .done (.hsSecType (byteAt b 0))
  | .auth => .read 16 fun b => .done (.hsAuth b)
  | .init => .read 1 fun b => .done (.hsInit (byteAt b 0))
  | .normal => parseNormal cl.extClip

/-! ## handshake (abstract) -/

def isDigit (b : UInt8) : Bool := 48 ≤ b.toNat && b.toNat ≤ 57
def dig (b : UInt8) : Nat := b.toNat - 48

/-- `sscanf(pv, "RFB %03d.%03d\n", &major, &minor)` on the canonical form `RFB ddd.ddd\n`;
`some none` = certainly rejected (first byte is not 'R'); `none` = not modelled (non-canonical
strings starting with 'R': sscanf's white-space and sign rules are C05's business) -/
def parseVersion (b : List UInt8) : Option (Option (Nat × Nat)) :=
  match b with
  | [r, f, b', sp, d1, d2, d3, dot, e1, e2, e3, nl] =>
    if r.toNat ≠ 82 then some none
    else if f.toNat = 70 ∧ b'.toNat = 66 ∧ sp.toNat = 32 ∧ dot.toNat = 46 ∧ nl.toNat = 10 ∧
        isDigit d1 ∧ isDigit d2 ∧ isDigit d3 ∧ isDigit e1 ∧ isDigit e2 ∧ isDigit e3 then
      some (some (dig d1 * 100 + dig d2 * 10 + dig d3, dig e1 * 100 + dig e2 * 10 + dig e3))
    else none
  | _ => none

/-- external functions the model is parameterised by:
* `auth`: result of `screen->passwordCheck` on a 16-byte response: `none` = rejected, `some vo` =
  accepted, by a password at a view-only position (`vo = true`) or not.  DES is C05's.
* `inflate`: zlib `inflate` of a complete stream: `none` = corrupt, `some s` = the inflated bytes
  (assumed law, used by the driver: `inflate (compress s) = some s`). -/
structure Oracles where
  auth : List UInt8 → Option Bool
  inflate : List UInt8 → Option (List UInt8)

def noOracles : Oracles := ⟨fun _ => none, fun _ => none⟩

def closeCl (cl : Client) : Client := { cl with isOpen := false }

def handleHs (orc : Oracles) (cfg : Cfg) (cl : Client) : Msg → Client
  | .hsVersion b =>
    match parseVersion b with
    | none => { cl with outOfModel := true }
    | some none => closeCl cl
    | some (some (major, minor)) =>
      if major ≠ 3 then closeCl cl
      else
        let cl := { cl with minor := minor }
        if minor < 7 then { cl with st := if cfg.hasPassword then .auth else .init }
        else { cl with st := .sec }
  | .hsSecType t =>
    if cfg.hasPassword then (if t.toNat = 2 then { cl with st := .auth } else closeCl cl)
    else if t.toNat = 1 then
      -- protocolMinorVersion 889 (Mac OS X client): implicit shared ClientInit, straight to NORMAL
      (if cl.minor = 889 then { cl with st := .normal } else { cl with st := .init })
    else closeCl cl
  | .hsAuth b =>
    match orc.auth b with
    | none => closeCl cl
    -- rfbCheckPasswordByList only ever RAISES cl->viewOnly (a flag set earlier, e.g. by the
    -- application's newClientHook, survives a login with a full-access password)
    | some vo => { cl with st := .init, viewOnly := cl.viewOnly || vo }
  | .hsInit _ => { cl with st := .normal }
  | _ => cl

/-! ## RFB_NORMAL handlers -/

/-- `ScaleX(cl->scaledScreen, cl->screen, x)`; `sc` = dimensions of the scaled screen if the
client has one (`from != to`), `none` if it uses the screen itself (`from == to`: identity) -/
def scaleX (cfg : Cfg) (sc : Option (Nat × Nat)) (x : Nat) : Nat :=
  match sc with
  | none => x
  | some (fw, _) => scaleCoord x fw cfg.width

def scaleY (cfg : Cfg) (sc : Option (Nat × Nat)) (y : Nat) : Nat :=
  match sc with
  | none => y
  | some (_, fh) => scaleCoord y fh cfg.height

def sx (cfg : Cfg) (cl : Client) (x : Nat) : Nat := scaleX cfg cl.scaled x
def sy (cfg : Cfg) (cl : Client) (y : Nat) : Nat := scaleY cfg cl.scaled y

def popcount16 (n : Nat) : Nat := ((List.range 16).filter fun i => n.testBit i).length

/-- the loop of `rfbProcessExtendedServerCutTextData` over the INFLATED stream `s`: for every
format bit set in `flags` (bit 0 = text, 1 = RTF, 2 = HTML, ...) a 4-byte big-endian size and that
many bytes; the text (bit 0) goes to `setXCutTextUTF8` as soon as it has been read (`deliver` =
client not view-only and hook installed).  Result: (ok, outOfModel, callbacks); not ok = the client
is closed (stream too short, size > 1 MiB).  A 0-byte format makes the code call `inflate` with
`avail_out = 0`, whose return value is zlib-internal: not modelled. -/
def provideLoop (deliver : Bool) (id flags : Nat) : List Nat → List UInt8 → Bool × Bool × List Callback
  | [], _ => (true, false, [])
  | i :: is, s =>
    if !flags.testBit i then provideLoop deliver id flags is s
    else if s.length < 4 then (false, false, [])
    else
      let size := be32At s 0
      if size > 1048576 then (false, false, [])
      else if size = 0 then (false, true, [])
      else if (s.drop 4).length < size then (false, false, [])
      else
        let cb := if i = 0 ∧ deliver then [Callback.cutUtf8 id ((s.drop 4).take size)] else []
        let r := provideLoop deliver id flags is ((s.drop 4).drop size)
        (r.1, r.2.1, cb ++ r.2.2)

/-- extended-clipboard message (RFB_NORMAL, `isExtendedCutText`): `p` = the payload (4 flag bytes,
then action-specific data).  Caps / Request / Peek / Notify produce no input callback; Provide
inflates the rest and hands the text to `setXCutTextUTF8` (content properties: C18). -/
def handleExtClip (inflate : List UInt8 → Option (List UInt8)) (cfg : Cfg) (cl : Client)
    (p : List UInt8) : Client × List Callback :=
  if p.length < 4 then (closeCl cl, []) else
  let flags := be32At p 0
  if flags.testBit 24 then        -- Caps
    let formats := popcount16 flags
    let cl1 := if formats = 0 then { cl with extClip := false } else cl
    if formats ≠ 0 ∧ p.length ≠ 4 + formats * 4 then (closeCl cl, [])
    else if flags.testBit 0 then (cl1, []) else ({ cl1 with extClip := false }, [])
  else if flags.testBit 25 then (cl, [])      -- Request (nothing stored to send)
  else if flags.testBit 26 then (cl, [])      -- Peek
  else if flags.testBit 28 then               -- Provide
    match inflate (p.drop 4) with
    | none => (closeCl cl, [])
    | some s =>
      let r := provideLoop (!cl.viewOnly && cfg.utf8Hook) cl.id flags (List.range 16) s
      (if r.1 then cl else { closeCl cl with outOfModel := r.2.1 || cl.outOfModel }, r.2.2)
  else (cl, [])

/-- which scaled screen the client uses after `rfbScalingSetup(cl, width/scale, height/scale)`
(`scale > 0`): `rfbScalingFind` returns the screen itself when the dimensions are unchanged;
`rfbScaledScreenAllocate` refuses width 0 or height 0 ("leaving things alone") -/
def scaleAfter (cfg : Cfg) (sc : Option (Nat × Nat)) (s : Nat) : Option (Nat × Nat) :=
  let w := cfg.width / s
  let h := cfg.height / s
  if w = cfg.width ∧ h = cfg.height then none
  else if w = 0 ∨ h = 0 then sc
  else some (w, h)

/-- `rfbScalingSetup` -/
def setScale (cfg : Cfg) (cl : Client) (s : Nat) : Client :=
  { cl with scaled := scaleAfter cfg cl.scaled s }

/-- the `if(!cl->viewOnly) { ... }` block of the PointerEvent case: deliver at once, or coalesce
(only when `deferPtrUpdateTime != 0` and the button mask is unchanged) -/
def ptrDeliver (cfg : Cfg) (cl : Client) (mask x y : Nat) : Client × List Callback :=
  if mask ≠ cl.lastPtrButtons ∨ cfg.deferPtr = 0 then
    -- FIXED code (fixes/C06-ptr-defer-order.diff): a coalesced position still pending is
    -- delivered first (with the buttons it was sent with), then the new event.  The unfixed
    -- code left `lastPtrX` set: the stale position was delivered later, after and with the
    -- button mask of the newer event.
    match cl.lastPtr with
    | some (px, py) =>
      ({ cl with lastPtrButtons := mask, lastPtr := none, startUsec := 0 },
       [.ptr cl.id cl.lastPtrButtons px py, .ptr cl.id mask (sx cfg cl x) (sy cfg cl y)])
    | none =>
      ({ cl with lastPtrButtons := mask }, [.ptr cl.id mask (sx cfg cl x) (sy cfg cl y)])
  else
    ({ cl with lastPtr := some (sx cfg cl x, sy cfg cl y), lastPtrButtons := mask }, [])

def handleNormal (cfg : Cfg) (owner : Option Nat) (cl : Client) :
    Msg → Client × Option Nat × List Callback
  | .setPixelFormat b =>
    let bpp := (byteAt b 3).toNat
    let tc := (byteAt b 6).toNat
    if (bpp ≠ 8 ∧ bpp ≠ 16 ∧ ¬ (C06.allow24bpp ∧ bpp = 24) ∧ bpp ≠ 32) ∨ (tc = 0 ∧ bpp ≠ 8) then
      (closeCl cl, owner, [])
    else (cl, owner, [])
  | .fixColourMap _ => (closeCl cl, owner, [])
  | .setEncodings encs =>
    (if cfg.utf8Hook ∧ encs.contains C06.rfbEncodingExtendedClipboard then { cl with extClip := true } else cl,
     owner, [])
  | .fbUpdateRequest _ => (cl, owner, [])
  | .key down k =>
    (cl, owner, if cl.viewOnly then [] else [.kbd cl.id down k])
  | .pointer mask x y =>
    -- FIXED code (fixes/C06-viewonly-pointer-grab.diff): a view-only client never takes the
    -- pointer, and gives it up if it still has it (the unfixed code updated pointerClient before
    -- testing viewOnly, so a view-only observer pressing a button locked out everybody else)
    if cl.viewOnly then (cl, if owner = some cl.id then none else owner, [])
    -- if (pointerClient && pointerClient != cl) return;
    else if owner.isSome ∧ owner ≠ some cl.id then (cl, owner, [])
    else
      let r := ptrDeliver cfg cl mask x y
      (r.1, if mask = 0 then none else some cl.id, r.2)
  | .cutText txt => (cl, owner, if cl.viewOnly then [] else [.cut cl.id txt])
  | .cutTextTooBig _ => (closeCl cl, owner, [])
  | .fileTransfer _ => (closeCl cl, owner, [])
  | .setScale _ s =>
    if s = 0 then (closeCl cl, owner, []) else (setScale cfg cl s, owner, [])
  | .setServerInput _ => (cl, owner, [])
  | .setSW _ => (cl, owner, [])
  | .textChatCmd _ => (cl, owner, [])
  | .textChat _ => (cl, owner, [])
  | .textChatBad _ => (closeCl cl, owner, [])
  | .xvp _ => (cl, owner, [])
  | .setDesktopSize _ _ => (cl, owner, [])
  | .unknown _ => (closeCl cl, owner, [])
  | _ => (cl, owner, [])

/-- the effect of one `rfbProcessClientMessage` once its reads have succeeded -/
def handle (orc : Oracles) (cfg : Cfg) (owner : Option Nat) (cl : Client) (m : Msg) :
    Client × Option Nat × List Callback :=
  match cl.st with
  | .normal =>
    match m with
    | .cutTextExt p => let r := handleExtClip orc.inflate cfg cl p; (r.1, owner, r.2)
    | _ => handleNormal cfg owner cl m
  | _ => (handleHs orc cfg cl m, owner, [])

/-! ## server level -/

def Server.find (s : Server) (i : Nat) : Option Client := s.clients.find? (fun c => c.id == i)

def Server.put (s : Server) (c : Client) : Server :=
  { s with clients := s.clients.map fun d => if d.id == c.id then c else d }

/-- write back client `c` and the pointer owner -/
def Server.putOwner (s : Server) (c : Client) (o : Option Nat) : Server :=
  { s.put c with owner := o }

def Server.isLive (s : Server) (i : Nat) : Bool :=
  match s.find i with
  | some c => c.isOpen
  | none => false

/-- one `rfbProcessClientMessage(cl)` on a flat stream -/
def stepFlat (orc : Oracles) (s : Server) (i : Nat) (bs : List UInt8) :
    Server × List Callback × List UInt8 :=
  match s.find i with
  | none => (s, [], bs)
  | some cl =>
    match (readerFor cl).runFlat bs with
    | none => (s.putOwner (closeCl cl) s.owner, [], [])   -- read timed out: rfbCloseClient; input is gone
    | some (m, rest) =>
      let r := handle orc s.cfg s.owner cl m
      (s.putOwner r.1 r.2.1, r.2.2, rest)

/-- the event loop calls `rfbProcessClientMessage` while the connection is open and input remains -/
def processFlat (orc : Oracles) : Nat → Server → Nat → List UInt8 → Server × List Callback
  | 0, s, _, _ => (s, [])
  | fuel + 1, s, i, bs =>
    if bs.isEmpty || !s.isLive i then (s, [])
    else
      let (s1, cbs, rest) := stepFlat orc s i bs
      let (s2, cbs') := processFlat orc fuel s1 i rest
      (s2, cbs ++ cbs')

/-- the same on a segmented stream -/
def stepChunks (orc : Oracles) (s : Server) (i : Nat) (arr : List UInt8) (pend : List (List UInt8)) :
    Server × List Callback × List UInt8 × List (List UInt8) :=
  match s.find i with
  | none => (s, [], arr, pend)
  | some cl =>
    match (readerFor cl).runChunks arr pend with
    | none => (s.putOwner (closeCl cl) s.owner, [], [], [])
    | some (m, arr', pend') =>
      let r := handle orc s.cfg s.owner cl m
      (s.putOwner r.1 r.2.1, r.2.2, arr', pend')

def processChunks (orc : Oracles) : Nat → Server → Nat → List UInt8 → List (List UInt8) →
    Server × List Callback
  | 0, s, _, _, _ => (s, [])
  | fuel + 1, s, i, arr, pend =>
    if (flat arr pend).isEmpty || !s.isLive i then (s, [])
    else
      let (s1, cbs, arr', pend') := stepChunks orc s i arr pend
      let (s2, cbs') := processChunks orc fuel s1 i arr' pend'
      (s2, cbs ++ cbs')

/-! ## application-side events -/

def Server.connect (s : Server) (i : Nat) : Server :=
  if s.clients.any (fun c => c.id == i) then s
  else { s with clients := { id := i, viewOnly := s.hookViewOnly } :: s.clients }

def Server.setViewOnly (s : Server) (i : Nat) (v : Bool) : Server :=
  match s.find i with
  | some c => s.put { c with viewOnly := v }
  | none => s

/-- peer closed: the next read returns 0 and the server closes the client -/
def Server.peerEof (s : Server) (i : Nat) : Server :=
  match s.find i with
  | some c => s.put (closeCl c)
  | none => s

/-- `(tv.tv_sec-start.tv_sec)*1000 + (tv.tv_usec-start.tv_usec)/1000` (C division truncates) -/
def elapsedMs (now : Nat) (cl : Client) : Int :=
  (((now / 1000000 : Nat) : Int) - (cl.startSec : Int)) * 1000 +
    Int.tdiv (((now % 1000000 : Nat) : Int) - (cl.startUsec : Int)) 1000

/-- the pointer part of `rfbUpdateClient` (main.c) at time `now` (µs) -/
def updatePtr (cfg : Cfg) (now : Nat) (cl : Client) : Client × List Callback :=
  match cl.lastPtr with
  | none => (cl, [])
  | some (x, y) =>
    if cl.viewOnly then (cl, [])
    else
      let sec := now / 1000000
      let usec := now % 1000000
      if cl.startUsec = 0 then
        ({ cl with startSec := sec, startUsec := if usec = 0 then 1 else usec }, [])
      else
        if sec < cl.startSec ∨ elapsedMs now cl > cfg.deferPtr then
          ({ cl with startUsec := 0, lastPtr := none }, [.ptr cl.id cl.lastPtrButtons x y])
        else (cl, [])

/-- the client loop of `rfbProcessEvents`: for every client (closed ones included, newest first)
`rfbUpdateClient`, then `rfbClientConnectionGone` if its socket is closed (which also releases the
pointer it may own) -/
def pumpList (cfg : Cfg) (now : Nat) : List Client → Option Nat → List Client × Option Nat × List Callback
  | [], owner => ([], owner, [])
  | c :: cs, owner =>
    let (c', cb) := updatePtr cfg now c
    let owner1 := if !c'.isOpen ∧ owner = some c'.id then none else owner
    let (cs', owner2, cbs) := pumpList cfg now cs owner1
    (if c'.isOpen then c' :: cs' else cs', owner2, cb ++ cbs)

def Server.pump (s : Server) : Server × List Callback :=
  let (cs, o, cbs) := pumpList s.cfg s.now s.clients s.owner
  ({ s with clients := cs, owner := o }, cbs)

end VncModel.Input
