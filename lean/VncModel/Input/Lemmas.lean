import VncModel.Input.Wire
import VncModel.Input.StreamLemmas
/-! Helper lemmas for C06: byte codecs, parser/encoder round trip, client-table bookkeeping,
lifting of the segmentation lemma to whole connections. -/
namespace VncModel.Input
open VncModel.Gen

/-! ## bytes -/

theorem be32_enc (n : Nat) (h : n < 4294967296) :
    be32 (UInt8.ofNat (n / 16777216)) (UInt8.ofNat (n / 65536)) (UInt8.ofNat (n / 256)) (UInt8.ofNat n) = n := by
  simp only [be32, UInt8.toNat_ofNat']; omega

theorem be16_enc (n : Nat) (h : n < 65536) : be16 (UInt8.ofNat (n / 256)) (UInt8.ofNat n) = n := by
  simp only [be16, UInt8.toNat_ofNat']; omega

theorem toNat_ofNat_lt (n : Nat) (h : n < 256) : (UInt8.ofNat n).toNat = n := by
  simp only [UInt8.toNat_ofNat']; omega

/-! ## reader steps -/

theorem runFlat_read {α : Type} (n : Nat) (k : List UInt8 → Reader α) (b rest : List UInt8)
    (hb : b.length = n) : (Reader.read n k).runFlat (b ++ rest) = (k b).runFlat rest := by
  simp [Reader.runFlat, hb, List.take_left' hb, List.drop_left' hb]

theorem parseNormal_cons (ext : Bool) (t : UInt8) (tl : List UInt8) :
    (parseNormal ext).runFlat (t :: tl) = (normalBody ext t).runFlat tl := by
  simp [parseNormal, Reader.runFlat, byteAt]

/-- every message handler reads at least the type byte: an empty stream times out -/
theorem readerFor_nil (cl : Client) : (readerFor cl).runFlat [] = none := by
  cases h : cl.st <;> simp [readerFor, h, parseNormal, Reader.runFlat]

/-! ## parser ∘ encoder = id on well-formed messages -/

theorem parse_key (ext : Bool) (d p1 p2 : UInt8) (k : Nat) (hk : k < 4294967296) (rest : List UInt8) :
    (parseNormal ext).runFlat ([4, d, p1, p2] ++ enc32 k ++ rest) = some (.key d k, rest) := by
  simp [parseNormal, normalBody, Reader.runFlat, enc32, byteAt, be32At, be32_enc k hk]

theorem parse_ptr (ext : Bool) (m x y : Nat) (hm : m < 256) (hx : x < 65536) (hy : y < 65536)
    (rest : List UInt8) :
    (parseNormal ext).runFlat ([5, UInt8.ofNat m] ++ enc16 x ++ enc16 y ++ rest) =
      some (.pointer m x y, rest) := by
  simp [parseNormal, normalBody, Reader.runFlat, enc16, byteAt, be16At, be16_enc x hx, be16_enc y hy]
  omega

theorem parse_cut (ext : Bool) (p1 p2 p3 : UInt8) (t rest : List UInt8) (ht : t.length ≤ 1048576) :
    (parseNormal ext).runFlat ([6, p1, p2, p3] ++ enc32 t.length ++ t ++ rest) =
      some (.cutText t, rest) := by
  have h32 : t.length < 4294967296 := by omega
  have hne : ¬ (2147483648 ≤ t.length) := by omega
  have hle : ¬ (1048576 < t.length) := by omega
  simp [parseNormal, normalBody, Reader.runFlat, enc32, byteAt, be32At, be32_enc _ h32,
    C06.cutTextMaxAccepted, C06.cutTextExtEscapeMask, hne, hle]

/-- a classic ClientCutText header announcing more than the limit: only the 8 header bytes are
consumed and the message is classified `cutTextTooBig` (extended clipboard not negotiated) -/
theorem parse_cut_big (p1 p2 p3 : UInt8) (len : Nat) (rest : List UInt8)
    (h1 : 1048576 < len) (h2 : len < 4294967296) :
    (parseNormal false).runFlat ([6, p1, p2, p3] ++ enc32 len ++ rest) =
      some (.cutTextTooBig len, rest) := by
  simp [parseNormal, normalBody, Reader.runFlat, enc32, byteAt, be32At, be32_enc _ h2,
    C06.cutTextMaxAccepted, C06.cutTextExtEscapeMask, h1]

theorem runFlat_readEncs (encs : List Nat) (h : ∀ e ∈ encs, e < 4294967296) :
    ∀ (acc : List Nat) (rest : List UInt8),
      (readEncs encs.length acc).runFlat (encs.flatMap enc32 ++ rest) =
        some (.setEncodings (acc.reverse ++ encs), rest) := by
  induction encs with
  | nil => intro acc rest; simp [readEncs, Reader.runFlat]
  | cons e es ih =>
    intro acc rest
    have he : e < 4294967296 := h e (by simp)
    have := ih (fun x hx => h x (by simp [hx])) (e :: acc) rest
    simp [readEncs, Reader.runFlat, enc32, be32At, byteAt, be32_enc e he] at this ⊢
    exact this

theorem parse_setenc (ext : Bool) (encs : List Nat) (hl : encs.length < 65536)
    (h : ∀ e ∈ encs, e < 4294967296) (rest : List UInt8) :
    (parseNormal ext).runFlat ([2, 0] ++ enc16 encs.length ++ encs.flatMap enc32 ++ rest) =
      some (.setEncodings encs, rest) := by
  have := runFlat_readEncs encs h [] rest
  simp [parseNormal, normalBody, Reader.runFlat, enc16, byteAt, be16At, be16_enc _ hl] at this ⊢
  exact this

theorem parse_fixed (ext : Bool) (ty : UInt8) (n : Nat) (mk : List UInt8 → Msg)
    (hbody : normalBody ext ty = .read n fun b => .done (mk b))
    (b rest : List UInt8) (hb : b.length = n) :
    (parseNormal ext).runFlat (ty :: b ++ rest) = some (mk b, rest) := by
  rw [List.cons_append, parseNormal_cons, hbody, runFlat_read n _ b rest hb]
  rfl

theorem parse_setScale (ext : Bool) (palm : Bool) (s : Nat) (hs : s < 256) (rest : List UInt8) :
    (parseNormal ext).runFlat ([if palm then 15 else 8, UInt8.ofNat s, 0, 0] ++ rest) =
      some (.setScale palm s, rest) := by
  cases palm <;>
    simp [parseNormal, normalBody, Reader.runFlat, byteAt, toNat_ofNat_lt s hs]

theorem parse_textChatCmd (ext : Bool) (c : Nat)
    (hc : c = 4294967295 ∨ c = 4294967294 ∨ c = 4294967293) (rest : List UInt8) :
    (parseNormal ext).runFlat ([11, 0, 0, 0] ++ enc32 c ++ rest) = some (.textChatCmd c, rest) := by
  have h32 : c < 4294967296 := by omega
  simp [parseNormal, normalBody, Reader.runFlat, enc32, byteAt, be32At, be32_enc _ h32, hc]

theorem parse_textChat (ext : Bool) (t rest : List UInt8) (h0 : 0 < t.length) (h1 : t.length < 4096) :
    (parseNormal ext).runFlat ([11, 0, 0, 0] ++ enc32 t.length ++ t ++ rest) =
      some (.textChat t, rest) := by
  have h32 : t.length < 4294967296 := by omega
  have hn : ¬ (t.length = 4294967295 ∨ t.length = 4294967294 ∨ t.length = 4294967293) := by omega
  simp [parseNormal, normalBody, Reader.runFlat, enc32, byteAt, be32At, be32_enc _ h32, hn, h0, h1]

/-- a TextChat header whose length is neither a command nor in 1..4095: only the 8 header bytes
are consumed, the message is classified `textChatBad` (and the handler closes the connection) -/
theorem parse_textChatBad (ext : Bool) (p1 p2 p3 : UInt8) (len : Nat) (rest : List UInt8)
    (h32 : len < 4294967296)
    (hc : ¬ (len = 4294967295 ∨ len = 4294967294 ∨ len = 4294967293))
    (hb : ¬ (0 < len ∧ len < 4096)) :
    (parseNormal ext).runFlat ([11, p1, p2, p3] ++ enc32 len ++ rest) = some (.textChatBad len, rest) := by
  simp [parseNormal, normalBody, Reader.runFlat, enc32, byteAt, be32At, be32_enc _ h32, hc, hb]

theorem parse_sds (ext : Bool) (b s rest : List UInt8) (hb : b.length = 7)
    (hs : s.length = (byteAt b 5).toNat * 16) :
    (parseNormal ext).runFlat (251 :: b ++ s ++ rest) = some (.setDesktopSize b s, rest) := by
  have hbody : normalBody ext 251 = .read 7 fun b =>
      let n := (byteAt b 5).toNat
      if n = 0 then .done (.setDesktopSize b [])
      else .read (n * 16) fun s => .done (.setDesktopSize b s) := by
    simp [normalBody]
  have e : (251 :: b ++ s ++ rest) = 251 :: (b ++ (s ++ rest)) := by simp
  rw [e, parseNormal_cons, hbody, runFlat_read 7 _ b _ hb]
  by_cases h0 : (byteAt b 5).toNat = 0
  · have : s = [] := List.eq_nil_of_length_eq_zero (by omega)
    subst this
    simp [h0, Reader.runFlat]
  · simp only [h0, if_false]
    rw [runFlat_read _ _ s rest hs]
    rfl

/-- **parser ∘ encoder = id**: every well-formed message is recognised with identical field values
and exactly its own bytes are consumed (`rest` is untouched) -/
theorem parse_encode (cfg : Cfg) (ext : Bool) (m : Msg) (hm : Benign cfg m) (rest : List UInt8) :
    (parseNormal ext).runFlat (encode m ++ rest) = some (m, rest) := by
  cases m <;> simp only [Benign] at hm
  case key d k => exact parse_key ext d 0 0 k hm rest
  case pointer mk x y => exact parse_ptr ext mk x y hm.1 hm.2.1 hm.2.2 rest
  case cutText t => exact parse_cut ext 0 0 0 t rest hm
  case fbUpdateRequest b => exact parse_fixed ext 3 9 _ (by simp [normalBody]) b rest hm
  case setEncodings encs => exact parse_setenc ext encs hm.1 hm.2 rest
  case setScale p s => exact parse_setScale ext p s hm.2 rest
  case setPixelFormat b => exact parse_fixed ext 0 19 _ (by simp [normalBody]) b rest hm.1
  case setServerInput b => exact parse_fixed ext 9 3 _ (by simp [normalBody]) b rest hm
  case setSW b => exact parse_fixed ext 10 5 _ (by simp [normalBody]) b rest hm
  case xvp b => exact parse_fixed ext 250 3 _ (by simp [normalBody]) b rest hm
  case textChatCmd c => exact parse_textChatCmd ext c hm rest
  case textChat t => exact parse_textChat ext t rest hm.1 hm.2
  case setDesktopSize b s => exact parse_sds ext b s rest hm.1 hm.2

theorem encode_ne_nil (m : Msg) (cfg : Cfg) (hm : Benign cfg m) : encode m ≠ [] := by
  cases m <;> simp [Benign] at hm <;> simp [encode, enc32, enc16]

/-! ## client table -/

theorem find_some_id {s : Server} {i : Nat} {cl : Client} (h : s.find i = some cl) : cl.id = i := by
  have := List.find?_some h
  simpa using this

theorem list_find_put (cs : List Client) (i : Nat) (cl cl' : Client)
    (h : cs.find? (fun c => c.id == i) = some cl) (hid : cl'.id = i) :
    (cs.map fun d => if d.id == cl'.id then cl' else d).find? (fun c => c.id == i) = some cl' := by
  induction cs with
  | nil => simp at h
  | cons d ds ih =>
    simp only [List.map_cons, List.find?_cons] at h ⊢
    by_cases hd : d.id = i
    · simp [hd, hid]
    · have hd' : (d.id == i) = false := by simpa using hd
      have hne : (d.id == cl'.id) = false := by simpa [hid] using hd
      simp only [hd'] at h
      simp only [hne, Bool.false_eq_true, if_false, hd']
      exact ih h

theorem find_put_self (s : Server) (i : Nat) (cl cl' : Client) (h : s.find i = some cl)
    (hid : cl'.id = i) (o : Option Nat) :
    (s.putOwner cl' o).find i = some cl' :=
  list_find_put s.clients i cl cl' h hid

/-- writing back client `c` leaves every other client's record untouched -/
theorem find_put_other (s : Server) (c : Client) (j : Nat) (hj : j ≠ c.id) (o : Option Nat) :
    (s.putOwner c o).find j = s.find j := by
  unfold Server.find Server.putOwner Server.put
  simp only []
  induction s.clients with
  | nil => simp
  | cons d ds ih =>
    simp only [List.map_cons, List.find?_cons]
    by_cases hd : d.id = c.id
    · have h1 : (d.id == c.id) = true := by simpa using hd
      have h2 : (c.id == j) = false := by simpa using (Ne.symm hj)
      have h3 : (d.id == j) = false := by simpa [hd] using (Ne.symm hj)
      simp only [h1, if_true, h2, h3]
      exact ih
    · have h1 : (d.id == c.id) = false := by simpa using hd
      simp only [h1, Bool.false_eq_true, if_false]
      split
      · rfl
      · exact ih

theorem putOwner_cfg (s : Server) (c : Client) (o : Option Nat) : (s.putOwner c o).cfg = s.cfg := rfl
theorem putOwner_owner (s : Server) (c : Client) (o : Option Nat) : (s.putOwner c o).owner = o := rfl

/-- one `rfbProcessClientMessage` whose reads succeed -/
theorem stepFlat_some (orc : Oracles) (s : Server) (i : Nat) (cl : Client) (bs : List UInt8)
    (m : Msg) (rest : List UInt8) (hf : s.find i = some cl)
    (hr : (readerFor cl).runFlat bs = some (m, rest)) :
    stepFlat orc s i bs =
      (s.putOwner (handle orc s.cfg s.owner cl m).1 (handle orc s.cfg s.owner cl m).2.1,
       (handle orc s.cfg s.owner cl m).2.2, rest) := by
  simp [stepFlat, hf, hr]

/-- ... and one whose read times out -/
theorem stepFlat_timeout (orc : Oracles) (s : Server) (i : Nat) (cl : Client) (bs : List UInt8)
    (hf : s.find i = some cl) (hr : (readerFor cl).runFlat bs = none) :
    stepFlat orc s i bs = (s.putOwner (closeCl cl) s.owner, [], []) := by
  simp [stepFlat, hf, hr]

/-! ## handlers: simple facts -/

theorem handleNormal_id (cfg : Cfg) (o : Option Nat) (cl : Client) (m : Msg) :
    (handleNormal cfg o cl m).1.id = cl.id := by
  cases m <;> simp only [handleNormal, ptrDeliver, closeCl, setScale] <;>
    (repeat' split) <;> rfl

theorem handleHs_id (orc : Oracles) (cfg : Cfg) (cl : Client) (m : Msg) :
    (handleHs orc cfg cl m).id = cl.id := by
  cases m <;> simp only [handleHs, closeCl] <;> (repeat' split) <;> rfl

theorem provideLoop_nodeliver (id flags : Nat) (is : List Nat) : ∀ (s : List UInt8),
    (provideLoop false id flags is s).2.2 = [] := by
  induction is with
  | nil => intro s; rfl
  | cons i is ih =>
    intro s
    simp only [provideLoop]
    (repeat' split) <;> simp_all

/-- formats other than the text (bit 0) never reach a callback -/
theorem provideLoop_notext (d : Bool) (id flags : Nat) (is : List Nat) (h0 : 0 ∉ is) :
    ∀ (s : List UInt8), (provideLoop d id flags is s).2.2 = [] := by
  induction is with
  | nil => intro s; rfl
  | cons i is ih =>
    intro s
    have hi : i ≠ 0 := fun h => h0 (by simp [h])
    have := ih (fun h => h0 (by simp [h]))
    simp only [provideLoop]
    (repeat' split) <;> simp_all

/-- the text record, read first, goes to the callback with exactly its bytes, once -/
theorem provideLoop_text_first (id flags : Nat) (is : List Nat) (h0 : 0 ∉ is) (text tail : List UInt8)
    (ht : flags.testBit 0 = true) (h1 : 0 < text.length) (h2 : text.length ≤ 1048576) :
    (provideLoop true id flags (0 :: is) (enc32 text.length ++ text ++ tail)).2.2 =
      [.cutUtf8 id text] := by
  have h32 : text.length < 4294967296 := by omega
  have hnt := provideLoop_notext true id flags is h0 tail
  have hsz : ¬ (text.length > 1048576) := by omega
  have hne : text.length ≠ 0 := by omega
  have hsize : be32At (enc32 text.length ++ text ++ tail) 0 = text.length := by
    simp [enc32, be32At, byteAt, be32_enc _ h32]
  have hdrop : (enc32 text.length ++ text ++ tail).drop 4 = text ++ tail := by simp [enc32]
  have hlen : ¬ ((enc32 text.length ++ text ++ tail).length < 4) := by simp [enc32]
  simp only [provideLoop, ht, Bool.not_true, Bool.false_eq_true, if_false, hlen, hsize, hsz, hne, hdrop]
  have hge : ¬ (text.length + tail.length < text.length) := by omega
  simp [hnt, hge]

theorem handleExtClip_id (inf : List UInt8 → Option (List UInt8)) (cfg : Cfg) (cl : Client)
    (p : List UInt8) : (handleExtClip inf cfg cl p).1.id = cl.id := by
  simp only [handleExtClip, closeCl]
  (repeat' split) <;> rfl

theorem handleExtClip_viewOnly (inf : List UInt8 → Option (List UInt8)) (cfg : Cfg) (cl : Client)
    (p : List UInt8) (hv : cl.viewOnly = true) :
    (handleExtClip inf cfg cl p).2 = [] ∧ (handleExtClip inf cfg cl p).1.viewOnly = true := by
  simp only [handleExtClip, closeCl, hv, Bool.not_true, Bool.false_and, provideLoop_nodeliver]
  (repeat' split) <;> simp_all

theorem handle_id (orc : Oracles) (cfg : Cfg) (o : Option Nat) (cl : Client) (m : Msg) :
    (handle orc cfg o cl m).1.id = cl.id := by
  unfold handle
  split
  · split
    · exact handleExtClip_id _ cfg cl _
    · exact handleNormal_id cfg o cl m
  · exact handleHs_id orc cfg cl m

/-- outside the extended-clipboard message, RFB_NORMAL handling is `handleNormal` -/
theorem handle_normal (orc : Oracles) (cfg : Cfg) (o : Option Nat) (cl : Client) (m : Msg)
    (hn : cl.st = .normal) (hm : ∀ p, m ≠ .cutTextExt p) :
    handle orc cfg o cl m = handleNormal cfg o cl m := by
  cases m <;> first
    | exact absurd rfl (hm _)
    | simp [handle, hn]

/-- a view-only client never causes a callback and stays view-only, whatever it sends -/
theorem handle_viewOnly (orc : Oracles) (cfg : Cfg) (o : Option Nat) (cl : Client) (m : Msg)
    (hv : cl.viewOnly = true) :
    (handle orc cfg o cl m).2.2 = [] ∧ (handle orc cfg o cl m).1.viewOnly = true := by
  by_cases hn : cl.st = .normal
  · by_cases hm : ∃ p, m = .cutTextExt p
    · obtain ⟨p, rfl⟩ := hm
      have e : handle orc cfg o cl (.cutTextExt p) =
          ((handleExtClip orc.inflate cfg cl p).1, o, (handleExtClip orc.inflate cfg cl p).2) := by
        simp [handle, hn]
      rw [e]
      exact handleExtClip_viewOnly _ cfg cl _ hv
    · rw [handle_normal orc cfg o cl m hn (fun p h => hm ⟨p, h⟩)]
      clear hm
      cases m <;> simp only [handleNormal, ptrDeliver, closeCl, setScale, hv] <;>
        (repeat' split) <;> simp_all
  · have e : handle orc cfg o cl m = (handleHs orc cfg cl m, o, []) := by
      unfold handle
      split
      · next h => exact absurd h hn
      · rfl
    rw [e]
    cases m <;> simp only [handleHs, closeCl] <;> (repeat' split) <;> simp_all

theorem processFlat_nil (orc : Oracles) (fuel : Nat) (s : Server) (i : Nat) :
    processFlat orc fuel s i [] = (s, []) := by
  cases fuel <;> simp [processFlat]

/-! ## every call of rfbProcessClientMessage consumes input -/

theorem runFlat_length {α : Type} (r : Reader α) : ∀ (bs : List UInt8) (a : α) (rest : List UInt8),
    r.runFlat bs = some (a, rest) → rest.length ≤ bs.length := by
  induction r with
  | done a =>
    intro bs a' rest h
    simp only [Reader.runFlat, Option.some.injEq, Prod.mk.injEq] at h
    rw [h.2]; exact Nat.le_refl _
  | read n k ih =>
    intro bs a rest h
    simp only [Reader.runFlat] at h
    split at h
    · have := ih _ _ _ _ h
      simp only [List.length_drop] at this
      omega
    · simp at h

theorem readerFor_consumes (cl : Client) (bs : List UInt8) (m : Msg) (rest : List UInt8)
    (h : (readerFor cl).runFlat bs = some (m, rest)) : rest.length < bs.length := by
  have key : ∀ (n : Nat) (k : List UInt8 → Reader Msg), 0 < n →
      (Reader.read n k).runFlat bs = some (m, rest) → rest.length < bs.length := by
    intro n k hn h
    simp only [Reader.runFlat] at h
    split at h
    · have := runFlat_length _ _ _ _ h
      simp only [List.length_drop] at this
      omega
    · simp at h
  cases hst : cl.st <;> simp only [readerFor, hst, parseNormal] at h <;>
    exact key _ _ (by decide) h

/-! ## segmentation, lifted to whole connections -/

theorem stepChunks_flat (orc : Oracles) (s : Server) (i : Nat) (arr : List UInt8)
    (pend : List (List UInt8)) :
    (fun r => (r.1, r.2.1, flat r.2.2.1 r.2.2.2)) (stepChunks orc s i arr pend) =
      stepFlat orc s i (flat arr pend) := by
  unfold stepChunks stepFlat
  cases hf : s.find i with
  | none => rfl
  | some cl =>
    simp only []
    have h := Reader.runChunks_flat (readerFor cl) arr pend
    cases hc : (readerFor cl).runChunks arr pend with
    | none =>
      rw [hc] at h
      simp only [Option.map_none] at h
      rw [← h]
      rfl
    | some v =>
      obtain ⟨m, arr', pend'⟩ := v
      rw [hc] at h
      simp only [Option.map_some] at h
      rw [← h]

theorem processChunks_flat (orc : Oracles) : ∀ (fuel : Nat) (s : Server) (i : Nat)
    (arr : List UInt8) (pend : List (List UInt8)),
    processChunks orc fuel s i arr pend = processFlat orc fuel s i (flat arr pend) := by
  intro fuel
  induction fuel with
  | zero => intros; rfl
  | succ n ih =>
    intro s i arr pend
    simp only [processChunks, processFlat]
    split
    · rfl
    · have h := stepChunks_flat orc s i arr pend
      rcases hs : stepChunks orc s i arr pend with ⟨s1, cbs, arr', pend'⟩
      rw [hs] at h
      simp only [] at h
      rw [← h]
      simp only [ih]

end VncModel.Input
