import VncModel.Policy.Args
import VncModel.Policy.Lemmas
/-! Helper lemmas for the argument-loop model and the arrival (origin) view of the client list.
Property statements live in Props/C14.lean. -/
namespace VncModel.Policy
open VncModel.Gen.C14

theorem argNames_distinct : argAlwaysShared ≠ argNeverShared ∧ argAlwaysShared ≠ argDontDisconnect ∧
    argNeverShared ≠ argDontDisconnect := by decide

theorem setFlag_never (cfg : Cfg) (a : String) :
    (setFlag cfg a).never = (cfg.never || a == argNeverShared) := by
  obtain ⟨d1, d2, d3⟩ := argNames_distinct
  unfold setFlag
  by_cases h1 : a = argAlwaysShared
  · subst h1; simp [d1]
  · by_cases h2 : a = argNeverShared
    · subst h2; simp [h1]
    · by_cases h3 : a = argDontDisconnect
      · subst h3; simp [h1, h2, Ne.symm d2, Ne.symm d3]
      · simp [h1, h2, h3]

theorem setFlag_always (cfg : Cfg) (a : String) :
    (setFlag cfg a).always = (cfg.always || a == argAlwaysShared) := by
  obtain ⟨d1, d2, d3⟩ := argNames_distinct
  unfold setFlag
  by_cases h1 : a = argAlwaysShared
  · subst h1; simp
  · by_cases h2 : a = argNeverShared
    · subst h2; simp [h1, Ne.symm d1]
    · by_cases h3 : a = argDontDisconnect
      · subst h3; simp [h1, h2, Ne.symm d2, Ne.symm d3]
      · simp [h1, h2, h3]

theorem setFlag_dont (cfg : Cfg) (a : String) :
    (setFlag cfg a).dont = (cfg.dont || a == argDontDisconnect) := by
  obtain ⟨d1, d2, d3⟩ := argNames_distinct
  unfold setFlag
  by_cases h1 : a = argAlwaysShared
  · subst h1; simp [d2]
  · by_cases h2 : a = argNeverShared
    · subst h2; simp [h1, d3]
    · by_cases h3 : a = argDontDisconnect
      · subst h3; simp [h1, h2]
      · simp [h1, h2, h3]

def isFlag (name : String) : Seg → Bool
  | .flag a => a == name
  | _ => false

theorem foldl_applySeg_never (segs : List Seg) (cfg : Cfg) :
    (segs.foldl applySeg cfg).never = (cfg.never || segs.any (isFlag argNeverShared)) := by
  induction segs generalizing cfg with
  | nil => simp
  | cons s ss ih =>
    rw [List.foldl_cons, ih]
    cases s <;> simp [applySeg, isFlag, setFlag_never, Bool.or_assoc]

theorem foldl_applySeg_always (segs : List Seg) (cfg : Cfg) :
    (segs.foldl applySeg cfg).always = (cfg.always || segs.any (isFlag argAlwaysShared)) := by
  induction segs generalizing cfg with
  | nil => simp
  | cons s ss ih =>
    rw [List.foldl_cons, ih]
    cases s <;> simp [applySeg, isFlag, setFlag_always, Bool.or_assoc]

theorem foldl_applySeg_dont (segs : List Seg) (cfg : Cfg) :
    (segs.foldl applySeg cfg).dont = (cfg.dont || segs.any (isFlag argDontDisconnect)) := by
  induction segs generalizing cfg with
  | nil => simp
  | cons s ss ih =>
    rw [List.foldl_cons, ih]
    cases s <;> simp [applySeg, isFlag, setFlag_dont, Bool.or_assoc]

/-! ### arrivals: where a client record comes from -/

inductive Ev where
  | inbound (id : Nat)            -- accepted on the listening socket (rfbNewClientConnection)
  | reverseOk (id : Nat)          -- rfbReverseConnection succeeded
  | reverseFailed (id : Nat)      -- rfbReverseConnection failed: connect() error or the new-client hook refused
  | init (id : Nat) (shared : Bool)
  | peerClose (id : Nat)
  | reap
  deriving Repr

def Ev.ops : Ev → List Op
  | .inbound id => [.connect id false]
  | .reverseOk id => [.connect id true]
  | .reverseFailed _ => []
  | .init id sh => [.init id sh]
  | .peerClose id => [.peerClose id]
  | .reap => [.reap]

def opsOf (evs : List Ev) : List Op := evs.flatMap Ev.ops

def inboundIds : List Ev → List Nat
  | [] => []
  | .inbound id :: es => id :: inboundIds es
  | _ :: es => inboundIds es

def reverseIds : List Ev → List Nat
  | [] => []
  | .reverseOk id :: es => id :: reverseIds es
  | _ :: es => reverseIds es

theorem reverseIds_append (a b : List Ev) : reverseIds (a ++ b) = reverseIds a ++ reverseIds b := by
  induction a with
  | nil => rfl
  | cons e es ih => cases e <;> simp [reverseIds, ih]

theorem inboundIds_append (a b : List Ev) : inboundIds (a ++ b) = inboundIds a ++ inboundIds b := by
  induction a with
  | nil => rfl
  | cons e es ih => cases e <;> simp [inboundIds, ih]

theorem reverseIds_append_left (a b : List Ev) (i : Nat) (h : i ∈ reverseIds a) : i ∈ reverseIds (a ++ b) := by
  rw [reverseIds_append]; exact List.mem_append_left _ h
theorem reverseIds_append_right (a b : List Ev) (i : Nat) (h : i ∈ reverseIds b) : i ∈ reverseIds (a ++ b) := by
  rw [reverseIds_append]; exact List.mem_append_right _ h
theorem inboundIds_append_left (a b : List Ev) (i : Nat) (h : i ∈ inboundIds a) : i ∈ inboundIds (a ++ b) := by
  rw [inboundIds_append]; exact List.mem_append_left _ h
theorem inboundIds_append_right (a b : List Ev) (i : Nat) (h : i ∈ inboundIds b) : i ∈ inboundIds (a ++ b) := by
  rw [inboundIds_append]; exact List.mem_append_right _ h

/-- every operation maps the old records by a function that keeps `id` and `reverse`, possibly
drops some, and possibly puts ONE new record in front, which only `connect` does -/
theorem clientInit_eq_map (cfg : Cfg) (cs : List Client) (i : Nat) (sh : Bool) :
    ∃ f : Client → Client, (∀ c, (f c).id = c.id ∧ (f c).reverse = c.reverse) ∧
      clientInit cfg cs i sh = cs.map f := by
  unfold clientInit
  split
  · exact ⟨id, by simp, by simp⟩
  · split
    · exact ⟨id, by simp, by simp⟩
    · split
      · split
        · dsimp only
          split
          · refine ⟨fun c => (fun c => if c.id == i then closeClient c else c)
              ((fun c => if c.id == i then { c with st := .normal } else c) c), ?_, by simp [List.map_map]⟩
            intro c; by_cases h : c.id == i <;> simp [h, closeClient]
          · refine ⟨fun c => if c.id == i then { c with st := .normal } else c, ?_, rfl⟩
            intro c; by_cases h : c.id == i <;> simp [h]
        · dsimp only
          refine ⟨fun c => (fun c => if isOtherNormal i c then closeClient c else c)
              ((fun c => if c.id == i then { c with st := .normal } else c) c), ?_, by simp [List.map_map]⟩
          intro c
          by_cases h : c.id == i <;> simp [h, closeClient] <;> split <;> simp
      · refine ⟨fun c => if c.id == i then { c with st := .normal } else c, ?_, rfl⟩
        intro c; by_cases h : c.id == i <;> simp [h]

theorem step_origin (cfg : Cfg) (cs : List Client) (op : Op) (c : Client)
    (hc : c ∈ step cfg cs op) :
    (∃ c0 ∈ cs, c0.id = c.id ∧ c0.reverse = c.reverse) ∨ op = .connect c.id c.reverse := by
  cases op with
  | connect id rev =>
    simp only [step] at hc
    split at hc
    · exact Or.inl ⟨c, hc, rfl, rfl⟩
    · rcases List.mem_cons.mp hc with rfl | h
      · exact Or.inr rfl
      · exact Or.inl ⟨c, h, rfl, rfl⟩
  | init i sh =>
    obtain ⟨f, hf, he⟩ := clientInit_eq_map cfg cs i sh
    simp only [step, he, List.mem_map] at hc
    obtain ⟨c0, h0, rfl⟩ := hc
    exact Or.inl ⟨c0, h0, (hf c0).1.symm, (hf c0).2.symm⟩
  | peerClose id =>
    simp only [step, List.mem_map] at hc
    obtain ⟨c0, h0, rfl⟩ := hc
    refine Or.inl ⟨c0, h0, ?_, ?_⟩ <;> by_cases h : c0.id == id <;> simp [h, closeClient]
  | reap =>
    simp only [step] at hc
    exact Or.inl ⟨c, (List.mem_filter.mp hc).1, rfl, rfl⟩

end VncModel.Policy
