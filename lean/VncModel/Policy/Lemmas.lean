import VncModel.Policy.Model
/-! Helper lemmas for the session-policy model (property statements live in Props/C14.lean). -/
namespace VncModel.Policy

def ids (cs : List Client) : List Nat := cs.map (·.id)

/-- predicate "fully connected inbound client" -/
def served (c : Client) : Bool := c.isOpen && c.st == .normal && !c.reverse

theorem servedInbound_eq (cs : List Client) : servedInbound cs = cs.filter served := rfl

theorem countP_id_le_one (cs : List Client) (i : Nat) (h : (ids cs).Nodup) :
    cs.countP (fun c => c.id == i) ≤ 1 := by
  induction cs with
  | nil => simp
  | cons c cs ih =>
    simp only [ids, List.map_cons, List.nodup_cons] at h
    by_cases hc : c.id = i
    · have : cs.countP (fun c => c.id == i) = 0 := by
        rw [List.countP_eq_zero]
        intro d hd hdi
        have hdi' : d.id = i := by simpa using hdi
        exact h.1 (by rw [hc, ← hdi']; exact List.mem_map_of_mem hd)
      simp [List.countP_cons, hc, this]
    · have := ih h.2
      simp [List.countP_cons, hc]
      exact this

theorem countP_le_of_imp {α} (p q : α → Bool) (l : List α) (h : ∀ a ∈ l, p a = true → q a = true) :
    l.countP p ≤ l.countP q := List.countP_mono_left h

/-- ids are untouched by any map that keeps each client's id -/
theorem ids_map_keep (cs : List Client) (f : Client → Client) (hf : ∀ c, (f c).id = c.id) :
    ids (cs.map f) = ids cs := by
  simp [ids, List.map_map, Function.comp_def, hf]

end VncModel.Policy

namespace VncModel.Policy

theorem eq_of_find_nodup (cs : List Client) (i : Nat) (me : Client) (hn : (ids cs).Nodup)
    (hf : cs.find? (fun c => c.id == i) = some me) : ∀ c ∈ cs, c.id = i → c = me := by
  induction cs with
  | nil => simp
  | cons d cs ih =>
    simp only [ids, List.map_cons, List.nodup_cons] at hn
    intro c hc hci
    by_cases hd : d.id = i
    · have hme : d = me := by simpa [List.find?_cons, hd] using hf
      rcases List.mem_cons.mp hc with rfl | hc'
      · exact hme
      · exact absurd (List.mem_map_of_mem (f := (·.id)) hc') (by rw [hci, ← hd]; exact hn.1)
    · have hf' : cs.find? (fun c => c.id == i) = some me := by
        simpa [List.find?_cons, hd] using hf
      rcases List.mem_cons.mp hc with rfl | hc'
      · exact absurd hci hd
      · exact ih hn.2 hf' c hc' hci

theorem find_mem (cs : List Client) (i : Nat) (me : Client)
    (hf : cs.find? (fun c => c.id == i) = some me) : me ∈ cs ∧ me.id = i := by
  have h1 := List.mem_of_find?_eq_some hf
  have h2 := List.find?_some hf
  exact ⟨h1, by simpa using h2⟩

end VncModel.Policy
