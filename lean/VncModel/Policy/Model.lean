/-
Model of the shared / non-shared session policy: the tail of `rfbProcessClientInitMessage`
(src/libvncserver/rfbserver.c, after `cl->state = RFB_NORMAL`) over the screen's client list,
plus the events around it that decide which clients are "fully connected": connect, peer close,
reaping by `rfbProcessEvents`.

C ↔ model
  rfbClientRec in screen->clientHead list      ↔ `Client` with `inList = true`
  cl->sock != RFB_INVALID_SOCKET               ↔ `isOpen`
  cl->state == RFB_NORMAL                      ↔ `st = .normal`  (all earlier states: `.handshake`)
  cl->reverseConnection                        ↔ `reverse`
  rfbGetClientIterator (skips closed clients)  ↔ the `isOpen` test in `othersNormal`
-/
namespace VncModel.Policy

inductive St where
  | handshake | normal
  deriving DecidableEq, Repr

structure Client where
  id : Nat
  st : St
  reverse : Bool
  isOpen : Bool
  deriving DecidableEq, Repr

structure Cfg where
  always : Bool
  never : Bool
  dont : Bool
  deriving DecidableEq, Repr

/-- the condition guarding the policy block:
`!cl->reverseConnection && (neverShared || (!alwaysShared && !ci.shared))` -/
def exclusive (cfg : Cfg) (c : Client) (shared : Bool) : Bool :=
  !c.reverse && (cfg.never || (!cfg.always && !shared))

/-- a client the iterator yields (`sock >= 0`), other than `i`, in state NORMAL -/
def isOtherNormal (i : Nat) (c : Client) : Bool :=
  c.id != i && c.isOpen && c.st == .normal

def closeClient (c : Client) : Client := { c with isOpen := false }

/-- `rfbProcessClientInitMessage` for client `i` (which must be open and mid-handshake): the
client becomes NORMAL, then the policy block runs. -/
def clientInit (cfg : Cfg) (cs : List Client) (i : Nat) (shared : Bool) : List Client :=
  match cs.find? (fun c => c.id == i) with
  | none => cs
  | some me =>
    if !(me.isOpen && me.st == .handshake) then cs else
    let cs1 := cs.map (fun c => if c.id == i then { c with st := .normal } else c)
    if exclusive cfg me shared then
      if cfg.dont then
        if cs1.any (isOtherNormal i) then
          cs1.map (fun c => if c.id == i then closeClient c else c)
        else cs1
      else
        cs1.map (fun c => if isOtherNormal i c then closeClient c else c)
    else cs1

/-- the three sharing switches of `rfbProcessArguments` (cargs.c): each flag, when present, sets its
field to TRUE; nothing ever clears one -/
def parseArgs (cfg : Cfg) : List String → Cfg
  | [] => cfg
  | a :: rest =>
    let cfg :=
      if a = "-alwaysshared" then { cfg with always := true }
      else if a = "-nevershared" then { cfg with never := true }
      else if a = "-dontdisconnect" then { cfg with dont := true }
      else cfg
    parseArgs cfg rest

inductive Op where
  | connect (id : Nat) (reverse : Bool)
  | init (id : Nat) (shared : Bool)
  | peerClose (id : Nat)
  | reap
  deriving Repr

/-- one event of the application-driven loop. New clients are linked at the list head. -/
def step (cfg : Cfg) (cs : List Client) : Op → List Client
  | .connect id rev =>
    if cs.any (fun c => c.id == id) then cs
    else { id := id, st := .handshake, reverse := rev, isOpen := true } :: cs
  | .init id shared => clientInit cfg cs id shared
  | .peerClose id => cs.map (fun c => if c.id == id then closeClient c else c)
  | .reap => cs.filter (fun c => c.isOpen)

def run (cfg : Cfg) (cs : List Client) (ops : List Op) : List Client :=
  ops.foldl (step cfg) cs

/-- fully connected inbound clients -/
def servedInbound (cs : List Client) : List Client :=
  cs.filter (fun c => c.isOpen && c.st == .normal && !c.reverse)

end VncModel.Policy
