import VncModel.Policy.Model
import VncModel.Gen.C14
/-!
Model of the argument loop of `rfbProcessArguments` (src/libvncserver/cargs.c), the command-line way
of setting the three sharing switches.  The option table (`argHelp`, `argValue`, `argFlag`, the
three sharing flag names) is regenerated from the C text on every run (`VncModel.Gen.C14`,
tools/consts/c14.py), which also checks the text of the loop head, of the extension fallback
(`i+=handled-1`) and of the purge step literally.

C ↔ model
  argv[1..argc-1] still to look at (from `i` on)          ↔ `rest`
  tokens already looked at and left in argv (`argv[1..i1)`) ↔ `kept` (reversed)
  `extension->processArgument(argc-i, argv+i)`              ↔ `ext rest` (0 = "not mine")
  return value                                              ↔ `ok`

Not modelled: what the options other than the three sharing switches store in the screen
(`-listen` can additionally fail on an address that does not resolve: never generated).
-/
namespace VncModel.Policy
open VncModel.Gen.C14

/-- what the registered protocol extensions answer for the remaining arguments: the number of
tokens they consumed (0: not theirs).  An extension must not claim more tokens than there are. -/
abbrev Ext := List String → Nat

def setFlag (cfg : Cfg) (a : String) : Cfg :=
  if a = argAlwaysShared then { cfg with always := true }
  else if a = argNeverShared then { cfg with never := true }
  else if a = argDontDisconnect then { cfg with dont := true }
  else cfg

structure ArgResult where
  cfg : Cfg
  left : List String      -- argv[1..] as the caller finds it afterwards
  ok : Bool
  deriving DecidableEq, Repr

def processArgs (ext : Ext) (cfg : Cfg) (kept : List String) (rest : List String) : ArgResult :=
  match rest with
  | [] => ⟨cfg, kept.reverse, true⟩
  | a :: tl =>
    if a ∈ argHelp then ⟨cfg, kept.reverse ++ a :: tl, false⟩
    else if a ∈ argValue then
      match tl with
      | [] => ⟨cfg, kept.reverse ++ [a], false⟩
      | _ :: tl' => processArgs ext cfg kept tl'
    else if a ∈ argFlag then processArgs ext (setFlag cfg a) kept tl
    else if ext (a :: tl) = 0 then processArgs ext cfg (a :: kept) tl
    else processArgs ext cfg kept ((a :: tl).drop (ext (a :: tl)))
termination_by rest.length
decreasing_by
  all_goals simp_wf
  all_goals omega

/-- the protocol extension the correspondence harness registers (harness/c14.c `ext_arg`) -/
def demoExt : Ext
  | "-chan" :: _ :: _ => 2
  | "-xflag" :: _ => 1
  | "-tri" :: _ :: _ :: _ => 3
  | _ => 0

/-! ### a command line as the user means it: a sequence of segments -/

inductive Seg where
  | flag (a : String)                 -- one of the plain flags
  | value (a v : String)              -- an option of the library with its value
  | ext (a : String) (more : List String)   -- an extension's option with its parameters
  | other (a : String)                -- something nobody knows (left for the application)
  deriving Repr

def Seg.toks : Seg → List String
  | .flag a => [a]
  | .value a v => [a, v]
  | .ext a more => a :: more
  | .other a => [a]

def flatten : List Seg → List String
  | [] => []
  | s :: ss => s.toks ++ flatten ss

def known (a : String) : Prop := a ∈ argHelp ∨ a ∈ argValue ∨ a ∈ argFlag

/-- each segment is what it claims to be, at the position where the loop meets it -/
def SegOk (ext : Ext) (s : Seg) (after : List String) : Prop :=
  match s with
  | .flag a => a ∉ argHelp ∧ a ∉ argValue ∧ a ∈ argFlag
  | .value a _ => a ∉ argHelp ∧ a ∈ argValue
  | .ext a more => ¬ known a ∧ ext (a :: (more ++ after)) = more.length + 1
  | .other a => ¬ known a ∧ ext (a :: after) = 0

def AllOk (ext : Ext) : List Seg → Prop
  | [] => True
  | s :: ss => SegOk ext s (flatten ss) ∧ AllOk ext ss

def applySeg (cfg : Cfg) : Seg → Cfg
  | .flag a => setFlag cfg a
  | _ => cfg

def leftOf : List Seg → List String
  | [] => []
  | .other a :: ss => a :: leftOf ss
  | _ :: ss => leftOf ss

end VncModel.Policy
