import VncModel.Ws.LemmasStep
import VncModel.Ws.LemmasStrictRun
import VncModel.Ws.LemmasEncoder
import VncModel.Ws.LemmasB64Law
import VncModel.Ws.LemmasHandshakeWF
import VncModel.Leaf.EquivWs
/-!
# C09 — WebSocket transport is transparent and strict

Property theorems only; helper lemmas live in `VncModel/Ws/Lemmas*.lean`, the model in
`VncModel/Ws/{Bytes,Base64,Codec,Decoder,Handshake}.lean`, the specification vocabulary
(`Frame`, `ValidSeq`, `expected`, `run`, `Env.FaultFree`, `Env.Safe`) in `VncModel/Ws/Spec.lean`.

**What is modelled.**  The hybi frame decoder `ws_decode.c` *with fixes/C09-ws-header-split.diff and
fixes/C09-control-frame-limits.diff applied* (`decode` = `webSocketsDecodeHybi`, transliterated function by function; the 2062-byte
buffer as explicit offsets; every `readFunc` call goes through the oracle `Env.read`, which answers
with a non-empty prefix of the pending bytes, EAGAIN, end of stream or a hard error and records the
request); the encoder `webSocketsEncodeHybi` and the 32 KiB chunking of `rfbWriteExact`; base64.c;
the upgrade handshake.  Constants (buffer sizes, header lengths, opcodes, encoder thresholds,
UPDATE_BUF_SIZE) come from `VncModel.Gen.C09`, regenerated from the tree on every run.
The model is tied to the code by an exact differential run (harness/c09.c ⇄ Driver/C09.lean):
every call's result, every read request and the whole decoder state are compared.

**What the theorems mean.**
* `decoder_transparent` — the heart: for EVERY valid sequence of masked client frames (any sizes,
  fragmentation with continuation frames, interleaved ping/pong and other non-Close control frames,
  any masks, binary and base64/text messages), EVERY read-oracle schedule without end-of-stream
  (arbitrary chunking, EAGAIN anywhere) and EVERY sequence of caller lengths: no call fails, the
  bytes handed to the caller so far are a prefix of the unmasked (for text: base64-decoded) payload
  stream, what is still owed is exactly the rest, and every read request the decoder issued lies
  inside its buffer with a positive size (memory-safety core, reused by C04).
* `decoder_complete` — if moreover all input is consumed and nothing is buffered, the caller has
  received exactly the whole payload stream.  `decoder_progress` — no stall: every call delivers
  bytes or consumes input unless the transport has nothing to give.
* `strict_*` — unmasked frame, fragmented control frame, continuation without start, reserved
  opcode, control frame longer than 125 bytes, non-minimal length encodings, Close: the call ends with EPROTO / ECONNRESET (decoder reset) and never returns
  payload; quantified over every decoder state and every oracle.
* `header_roundtrip`, `encoder_valid`, `write_chunking_valid` — what the server sends parses (with an
  independent RFC 6455 parser, `parseHeader` / `parseFrames`) as unmasked final frames whose
  payloads concatenate to the data written; `encoder_header_65536_wraps` pins down the off-by-one
  of the encoder's `blen <= 65536` test, `encoder_lengths_below_65536` shows it is unreachable.
* `ws_split_counterexample_unfixed` — the defect of the unpatched tree (DESIGN.md 11-b): a valid frame
  and a fault-free schedule after which the old first-read length `6 - nRead` is -1, i.e.
  `read(buf + 7, (size_t)-1)`.

**Base64.**  Text frames are decoded with the model of base64.c (`pton`/`ntop`, transliterated and
compared with the C routines on every run); its round-trip law `pton (ntop z) = z` is proved
(`base64_roundtrip`), so the text-mode statements carry no assumption.

**Run-level strictness.**  `strict_run`: valid frames, then a violation, then anything: exactly the
payloads before the violation are delivered, then the prescribed error.

**Partial / not covered.**  The handshake theorems cover the byte-wise scanner (bounds for all inputs, exact outcome for
well-formed requests, shape of every acceptance).  TLS (`wss`) and timing (a lone
control frame followed by silence, see docs/C09.md) are outside the model.
-/
namespace VncModel.Props.C09
open VncModel.Ws VncModel.Gen

/-! ## masking -/

/-- XOR masking with a fixed phase is an involution (client masking = server unmasking) -/
theorem mask_involutive (m : Mask) (i : Nat) (bs : List Byte) : xorFrom m i (xorFrom m i bs) = bs :=
  xorFrom_involutive m i bs

example : xorMask ⟨1, 2, 3, 4⟩ (xorMask ⟨1, 2, 3, 4⟩ [10, 20, 30, 40, 50]) = [10, 20, 30, 40, 50] := by decide

/-- the decoder's word-wise unmasking (phase 0 at the chunk start) is correct for every chunk that
starts at a payload offset divisible by four — which the carry discipline guarantees -/
theorem mask_phase_aligned (m : Mask) (a : Nat) (h : a % 4 = 0) (bs : List Byte) :
    xorMask m (xorFrom m a bs) = bs :=
  xorMask_xorFrom_aligned m a h bs

/-! ## base64 -/

/-- the law of base64.c for the model: decoding an encoding returns the original whenever the
target buffer is larger than the data -/
theorem base64_roundtrip (z : List Byte) (ts : Nat) (h : z.length < ts) : pton (ntop z) ts = some z :=
  pton_ntop z ts h

example : pton (ntop [1, 2, 3, 4]) 10 = some [1, 2, 3, 4] := by decide

/-! ## transparency under all schedules -/

/-- **decoder_transparent.**  See the header comment.  (`Inv [] cE lv c pending rest`: the decoder
state `c` with `pending` bytes in the transport still owes exactly `rest`.) -/
theorem decoder_transparent (fs : List Frame) (hv : ValidSeq opInvalid fs)
    (e : Env) (hp : e.pending = wireOf fs) (hff : e.FaultFree) (hs : e.Safe)
    (lens : List Nat) (hl : ∀ l ∈ lens, 0 < l) :
    (∀ o ∈ (run Ctx.init e lens).outs, o.fine = true) ∧
    (∃ rest lv, expected opInvalid fs = delivered (run Ctx.init e lens).outs ++ rest ∧
       Inv [] (endCo opInvalid fs) lv (run Ctx.init e lens).c (run Ctx.init e lens).e.pending rest) ∧
    (run Ctx.init e lens).e.Safe := by
  obtain ⟨lv0, h0⟩ := Inv_init fs hv
  obtain ⟨h1, V', lv', h2, h3, _, h5⟩ :=
    run_inv b64Law (endCo opInvalid fs) lens hl lv0 Ctx.init e (expected opInvalid fs) (hp ▸ h0) hff hs
  exact ⟨h1, ⟨V', lv', h2, h3⟩, h5⟩

/-- the delivered bytes are always a prefix of the payload stream -/
theorem decoder_delivers_prefix (fs : List Frame) (hv : ValidSeq opInvalid fs)
    (e : Env) (hp : e.pending = wireOf fs) (hff : e.FaultFree) (hs : e.Safe)
    (lens : List Nat) (hl : ∀ l ∈ lens, 0 < l) :
    delivered (run Ctx.init e lens).outs <+: expected opInvalid fs := by
  obtain ⟨_, ⟨rest, _, h, _⟩, _⟩ := decoder_transparent fs hv e hp hff hs lens hl
  exact ⟨rest, h.symm⟩

/-- **decoder_complete.**  All input consumed and nothing buffered ⇒ the caller got everything. -/
theorem decoder_complete (fs : List Frame) (hv : ValidSeq opInvalid fs)
    (e : Env) (hp : e.pending = wireOf fs) (hff : e.FaultFree) (hs : e.Safe)
    (lens : List Nat) (hl : ∀ l ∈ lens, 0 < l)
    (hdone : (run Ctx.init e lens).e.pending = []) (hbuf : (run Ctx.init e lens).c.readlen = 0) :
    delivered (run Ctx.init e lens).outs = expected opInvalid fs := by
  obtain ⟨_, ⟨rest, lv, h, hinv⟩, _⟩ := decoder_transparent fs hv e hp hff hs lens hl
  rw [h, Inv_finished _ lv _ _ _ hinv hdone.symm hbuf, List.append_nil]

/-- one call, from any state the invariant describes (inside valid frames that may be followed by
arbitrary bytes `T`): either bytes (at most `len`, the next ones owed) or EAGAIN; never an error,
never an out-of-buffer read; plus the progress clause -/
theorem decoder_step (T : List Byte) (cE : Byte) (lv : Bool) (c : Ctx) (e : Env) (V : List Byte) (len : Nat)
    (hinv : Inv T cE lv c e.pending V) (hT : lv = true ∨ T = []) (hff : e.FaultFree) (hs : e.Safe)
    (hlen : 0 < len) :
    ∃ out V', (decode c e len).2.2 = (if out = [] then Res.again else Res.data out) ∧
      out.length ≤ len ∧ V = out ++ V' ∧
      (∃ lv', Inv T cE lv' (decode c e len).1 (decode c e len).2.1.pending V') ∧
      (decode c e len).2.1.FaultFree ∧ (decode c e len).2.1.Safe ∧
      (out ≠ [] ∨ (decode c e len).2.1.pending.length < e.pending.length ∨ e.Stuck) :=
  decode_step b64Law T cE lv c e V len hinv hT hff hs hlen

/-- **no stall.**  A call returns bytes, or consumes at least one pending byte, unless the transport
itself has nothing to give (its next answer is EAGAIN or nothing is pending).  Since the pending
input and the owed output are finite, every schedule that answers EAGAIN only finitely often
drives the run to the end, where `decoder_complete` applies. -/
theorem decoder_progress (T : List Byte) (cE : Byte) (lv : Bool) (c : Ctx) (e : Env) (V : List Byte) (len : Nat)
    (hinv : Inv T cE lv c e.pending V) (hT : lv = true ∨ T = []) (hff : e.FaultFree) (hs : e.Safe)
    (hlen : 0 < len) :
    (∃ bs, bs ≠ [] ∧ (decode c e len).2.2 = .data bs) ∨
    (decode c e len).2.1.pending.length < e.pending.length ∨ e.Stuck := by
  obtain ⟨out, _, h1, _, _, _, _, _, h⟩ := decode_step b64Law T cE lv c e V len hinv hT hff hs hlen
  rcases h with h | h | h
  · exact Or.inl ⟨out, h, by rw [h1]; simp [h]⟩
  · exact Or.inr (Or.inl h)
  · exact Or.inr (Or.inr h)

-- non-vacuity: a fragmented binary message with a ping inside, then a base64 text frame
private def exFrames : List Frame :=
  [⟨0x02, ⟨1, 2, 3, 4⟩, [1, 2, 3, 4, 5]⟩,          -- binary, FIN clear
   ⟨0x89, ⟨9, 9, 9, 9⟩, [7]⟩,                      -- ping
   ⟨0x80, ⟨0, 0, 0, 0⟩, [6, 7]⟩,                   -- continuation, FIN
   ⟨0x81, ⟨5, 6, 7, 8⟩, ntop [0x52, 0x46, 0x42]⟩]  -- text "UkZC"
example : ValidSeq opInvalid exFrames := by
  refine ⟨⟨by decide, fun h => absurd h (by decide), fun _ => ⟨fun h => absurd h (by decide), Or.inl (by decide)⟩⟩,
          ⟨by decide, fun _ => by decide, fun h => absurd h (by decide)⟩,
          ⟨by decide, fun h => absurd h (by decide), fun _ => ⟨fun _ => by decide, Or.inl (by decide)⟩⟩,
          ⟨by decide, fun h => absurd h (by decide),
            fun _ => ⟨fun h => absurd h (by decide), Or.inr ⟨by decide, _, rfl⟩⟩⟩, trivial⟩
example : ({ pending := wireOf exFrames, sched := [.chunk 0, .eagain, .chunk 4], cycle := [.chunk 2, .eagain] } : Env).FaultFree := by
  simp [Env.FaultFree, Resp.benign]
example : ({ pending := [], sched := [] } : Env).Safe := by intro r hr; cases hr

/-! ## strictness -/

/-- **strict (unmasked).**  As soon as the second header byte is there with the MASK bit clear the
call fails with EPROTO, returns no payload and resets the decoder — for every decoder state in
HEADER_PENDING, every oracle answer `bs` to the header read. -/
theorem strict_unmasked (c : Ctx) (e e1 : Env) (len : Nat) (bs : List Byte) (b0 b1 : Byte) (tl : List Byte)
    (hst : c.st = .headerPending) (hrd : e.read c.nRead (hdrMissing c) = (.data bs, e1))
    (hh : c.hdr ++ bs = b0 :: b1 :: tl) (hm : b1 &&& 0x80 = 0) :
    (decode c e len).2.2 = .err .eproto ∧ (decode c e len).1.st = .headerPending ∧
    (decode c e len).1.hdr = [] ∧ (decode c e len).1.contOp = opInvalid := by
  obtain ⟨c', hp⟩ := parse2_unmasked { c with hdr := c.hdr ++ bs } b0 b1 tl hh hm
  rw [decode_parse2_error c e e1 len bs .eproto c' hst hrd hp]
  exact ⟨rfl, rfl, rfl, rfl⟩

/-- **strict (fragmented control frame).** -/
theorem strict_fragmented_control (c : Ctx) (e e1 : Env) (len : Nat) (bs : List Byte) (b0 b1 : Byte)
    (tl : List Byte) (hst : c.st = .headerPending)
    (hrd : e.read c.nRead (hdrMissing c) = (.data bs, e1)) (hh : c.hdr ++ bs = b0 :: b1 :: tl)
    (hctl : (b0 &&& 0x0f) &&& 0x08 != 0) (hfin : (b0 &&& 0x80) >>> 7 = 0) :
    (decode c e len).2.2 = .err .eproto ∧ (decode c e len).1.hdr = [] := by
  obtain ⟨c', hp⟩ := parse2_fragmented_control { c with hdr := c.hdr ++ bs } b0 b1 tl hh hctl hfin
  rw [decode_parse2_error c e e1 len bs .eproto c' hst hrd hp]
  exact ⟨rfl, rfl⟩

/-- **strict (continuation without start).** -/
theorem strict_continuation_without_start (c : Ctx) (e e1 : Env) (len : Nat) (bs : List Byte)
    (b0 b1 : Byte) (tl : List Byte) (hst : c.st = .headerPending)
    (hrd : e.read c.nRead (hdrMissing c) = (.data bs, e1)) (hh : c.hdr ++ bs = b0 :: b1 :: tl)
    (hnc : ((b0 &&& 0x0f) &&& 0x08 != 0) = false) (hop : b0 &&& 0x0f = opContinuation)
    (hco : c.contOp = opInvalid) :
    (decode c e len).2.2 = .err .eproto ∧ (decode c e len).1.hdr = [] := by
  obtain ⟨c', hp⟩ :=
    parse2_continuation_without_start { c with hdr := c.hdr ++ bs } b0 b1 tl hh hnc hop hco
  rw [decode_parse2_error c e e1 len bs .eproto c' hst hrd hp]
  exact ⟨rfl, rfl⟩

/-- **strict (reserved opcode).**  Opcodes 0x3-0x7 and 0xB-0xF (RFC 6455 5.2) end the call with
EPROTO as soon as the first two header bytes are there: no payload, decoder reset.
(fixes/C09-control-frame-limits.diff; before it such frames were skipped silently and, when longer
than the decode buffer, wedged the decoder.) -/
theorem strict_reserved_opcode (c : Ctx) (e e1 : Env) (len : Nat) (bs : List Byte) (b0 b1 : Byte)
    (tl : List Byte) (hst : c.st = .headerPending)
    (hrd : e.read c.nRead (hdrMissing c) = (.data bs, e1)) (hh : c.hdr ++ bs = b0 :: b1 :: tl)
    (hres : isReservedOp (b0 &&& 0x0f) = true) :
    (decode c e len).2.2 = .err .eproto ∧ (decode c e len).1.st = .headerPending ∧
    (decode c e len).1.hdr = [] ∧ (decode c e len).1.contOp = opInvalid := by
  obtain ⟨c', hp⟩ := parse2_reserved_opcode { c with hdr := c.hdr ++ bs } b0 b1 tl hh hres
  rw [decode_parse2_error c e e1 len bs .eproto c' hst hrd hp]
  exact ⟨rfl, rfl, rfl, rfl⟩

/-- **strict (oversized control frame).**  A control frame (Close, Ping, Pong) whose length byte
announces more than 125 bytes — i.e. any control frame using an extended length form (RFC 6455
5.5) — ends the call with EPROTO as soon as the first two header bytes are there; its payload is
never read into the buffer (this is what removes the pre-authentication wedge: without the check the
write position was never reset for such frames and the decoder stopped reading for ever). -/
theorem strict_oversized_control (c : Ctx) (e e1 : Env) (len : Nat) (bs : List Byte) (b0 b1 : Byte)
    (tl : List Byte) (hst : c.st = .headerPending)
    (hrd : e.read c.nRead (hdrMissing c) = (.data bs, e1)) (hh : c.hdr ++ bs = b0 :: b1 :: tl)
    (hctl : (b0 &&& 0x0f) &&& 0x08 != 0) (hlen : (b1 &&& 0x7f).toNat > 125) :
    (decode c e len).2.2 = .err .eproto ∧ (decode c e len).1.st = .headerPending ∧
    (decode c e len).1.hdr = [] ∧ (decode c e len).1.contOp = opInvalid := by
  obtain ⟨c', hp⟩ := parse2_oversized_control { c with hdr := c.hdr ++ bs } b0 b1 tl hh hctl hlen
  rw [decode_parse2_error c e e1 len bs .eproto c' hst hrd hp]
  exact ⟨rfl, rfl, rfl, rfl⟩

-- non-vacuity: a masked ping announcing a 16-bit length, and a masked frame with opcode 0x3
example : (((0x89 : Byte) &&& 0x0f) &&& 0x08 != 0) = true ∧ ((0xfe : Byte) &&& 0x7f).toNat > 125 := by decide
example : isReservedOp ((0x83 : Byte) &&& 0x0f) = true ∧ isReservedOp ((0x8b : Byte) &&& 0x0f) = true ∧
    isReservedOp 0x02 = false ∧ isReservedOp 0x0a = false := by decide

/-- **strict (non-minimal 16-bit length).**  The complete header of a frame that uses the 16-bit
form for a length below 126 is rejected by the only function that lets a header through
(`finishHeader`, see `strict_header_gate`). -/
theorem strict_nonminimal16 (c : Ctx) (e : Env) (b0 b1 l0 l1 m0 m1 m2 m3 : Byte) (tl : List Byte)
    (hpl : c.payloadLen = 126) (hh : c.hdr = b0 :: b1 :: l0 :: l1 :: m0 :: m1 :: m2 :: m3 :: tl)
    (hlen : beDec [l0, l1] < 126) :
    (finishHeader c e).st = .err ∧ (finishHeader c e).res = .err .eproto ∧
    (finishHeader c e).c.st = .headerPending ∧ (finishHeader c e).c.hdr = [] :=
  finishHeader_nonminimal16 c e b0 b1 l0 l1 m0 m1 m2 m3 tl hpl hh hlen

/-- **strict (non-minimal 64-bit length).** -/
theorem strict_nonminimal64 (c : Ctx) (e : Env)
    (b0 b1 l0 l1 l2 l3 l4 l5 l6 l7 m0 m1 m2 m3 : Byte) (tl : List Byte) (hpl : c.payloadLen = 127)
    (hh : c.hdr = b0 :: b1 :: l0 :: l1 :: l2 :: l3 :: l4 :: l5 :: l6 :: l7 :: m0 :: m1 :: m2 :: m3 :: tl)
    (hlen : beDec [l0, l1, l2, l3, l4, l5, l6, l7] < 65536) :
    (finishHeader c e).st = .err ∧ (finishHeader c e).res = .err .eproto ∧
    (finishHeader c e).c.st = .headerPending ∧ (finishHeader c e).c.hdr = [] :=
  finishHeader_nonminimal64 c e b0 b1 l0 l1 l2 l3 l4 l5 l6 l7 m0 m1 m2 m3 tl hpl hh hlen

/-- a call that starts in HEADER_PENDING and does not get a header through `readHeader` (error or
still incomplete) returns no payload, whatever the state and the oracle -/
theorem strict_header_gate (c : Ctx) (e : Env) (len : Nat) (hst : c.st = .headerPending)
    (h : (readHeader c e).st = .err ∨ (readHeader c e).st = .headerPending) (bs : List Byte) :
    (decode c e len).2.2 ≠ .data bs :=
  decode_header_no_data c e len hst h bs

/-- **strict (Close).**  While a Close frame is being received no call returns payload; the call
that completes it fails with ECONNRESET. -/
theorem strict_close (c : Ctx) (e : Env) (len : Nat) (bs : List Byte)
    (hst : c.st = .dataNeeded ∨ c.st = .closeReasonPending) (hop : c.opcode = opClose) :
    (decode c e len).2.2 ≠ .data bs :=
  decode_close_no_data c e len bs hst hop

theorem strict_close_complete (c : Ctx) (e : Env) (len wpEnd bufsize : Nat) (data : List Byte)
    (hop : c.opcode = opClose) (hrem : c.remaining = 0) :
    (finishChunk c e len wpEnd bufsize data).res = .err .econnreset ∧
    (finishChunk c e len wpEnd bufsize data).st = .frameComplete := by
  refine ⟨by rw [finishChunk_close _ _ _ _ _ _ hop, if_pos hrem], ?_⟩
  unfold finishChunk
  have : (c.payloadLen + 2 ^ 64 - c.nReadPayload) % 2 ^ 64 = 0 := hrem
  simp [hop, Ctx.remaining, this]

-- non-vacuity of the strictness hypotheses: an unmasked text frame header arriving in one read
example : ∃ (e e1 : Env) (bs : List Byte), e.read Ctx.init.nRead (hdrMissing Ctx.init) = (.data bs, e1) ∧
    Ctx.init.hdr ++ bs = 0x81 :: 0x05 :: [0x48, 0x65, 0x6c, 0x6c] ∧ (0x05 : Byte) &&& 0x80 = 0 :=
  ⟨{ pending := [0x81, 0x05, 0x48, 0x65, 0x6c, 0x6c, 0x6f], sched := [] }, _, _, rfl, by decide, by decide⟩

/-! ## strictness of whole runs -/

/-- **strict_run.**  A stream that consists of valid frames `fs` followed by a protocol violation
(`BadTail`: reserved opcode, fragmented control frame, continuation without start, control frame
longer than 125 bytes, unmasked frame, non-minimal length encoding — errno EPROTO; or a Close
frame — errno ECONNRESET) and then arbitrary bytes; every fault-free oracle, every list of positive
caller lengths; the caller stops at the first result that is neither data nor EAGAIN (`runStop`, as
`rfbReadExactTimeout` does).  Then: every result is data, EAGAIN or exactly the prescribed error;
the bytes delivered are a prefix of the payload stream of the frames BEFORE the violation; and when
the error is reported, exactly that payload stream has been delivered — no byte of the violating
frame or of anything behind it ever reaches the caller. -/
theorem strict_run (fs : List Frame) (hv : ValidSeq opInvalid fs) (T : List Byte) (E : Errno)
    (hbt : BadTail (endCo opInvalid fs) T E) (e : Env) (hp : e.pending = wireOf fs ++ T)
    (hff : e.FaultFree) (hs : e.Safe) (lens : List Nat) (hl : ∀ l ∈ lens, 0 < l) :
    (∀ r ∈ runStop Ctx.init e lens, r.fine = true ∨ r = .err E) ∧
    delivered (runStop Ctx.init e lens) <+: expected opInvalid fs ∧
    (∀ r ∈ runStop Ctx.init e lens, r.fine = false →
      delivered (runStop Ctx.init e lens) = expected opInvalid fs) := by
  obtain ⟨lv, h0⟩ := Inv_start T (endCo opInvalid fs) opInvalid fs hv rfl opInvalid 0 0
  have hsi : SI T (endCo opInvalid fs) E Ctx.init e.pending (expected opInvalid fs) := by
    rw [hp]; exact SI_of_inv T _ E hbt lv _ _ _ h0
  obtain ⟨h1, V', h2, h3⟩ := strict_run_aux b64Law T _ E hbt lens hl Ctx.init e _ hsi hff hs
  refine ⟨h1, ⟨V', h2.symm⟩, ?_⟩
  intro r hr hnf
  rw [h2, h3 r hr hnf, List.append_nil]

/-- one call inside the violating frame, from every state `Bad` describes: the prescribed error, or
EAGAIN with the decoder still inside that frame -/
theorem strict_step (co : Byte) (E : Errno) (c : Ctx) (e : Env) (len : Nat) (hbad : Bad co E c e.pending)
    (hff : e.FaultFree) (hs : e.Safe) :
    (decode c e len).2.1.FaultFree ∧ (decode c e len).2.1.Safe ∧
    ((decode c e len).2.2 = .err E ∨
     ((decode c e len).2.2 = .again ∧ Bad co E (decode c e len).1 (decode c e len).2.1.pending)) :=
  bad_step co E c e len hbad hff hs

-- non-vacuity: after the example frames (message closed, nothing open): a reserved opcode, an
-- unmasked frame, an oversized ping, a continuation without start, a 16-bit length of 5, a Close
example : endCo opInvalid exFrames = opInvalid := by decide
example : BadTail opInvalid (0x83 :: 0x80 :: [1, 2, 3]) .eproto := .two _ _ _ (Or.inl (by decide))
example : BadTail opInvalid (0x82 :: 0x05 :: [1, 2, 3, 4, 5]) .eproto :=
  .two _ _ _ (Or.inr (Or.inr (Or.inr (Or.inr (by decide)))))
example : BadTail opInvalid (0x89 :: 0xfe :: [0x0b, 0xb8]) .eproto :=
  .two _ _ _ (Or.inr (Or.inr (Or.inr (Or.inl ⟨by decide, by decide⟩))))
example : BadTail opInvalid (0x80 :: 0x81 :: [0, 0, 0, 0, 7]) .eproto :=
  .two _ _ _ (Or.inr (Or.inr (Or.inl ⟨by decide, by decide, rfl⟩)))
example : BadTail opInvalid (nm16 0x82 0 5 1 2 3 4 ++ [9, 9, 9, 9, 9]) .eproto :=
  .nonmin 0x82 _ _ ⟨by decide, by decide, fun h => absurd h (by decide)⟩
    (Or.inl ⟨0, 5, 1, 2, 3, 4, rfl, by decide⟩)
example : BadTail opInvalid
    ((⟨0x88, ⟨1, 2, 3, 4⟩, [3, 232]⟩ : Frame).header ++
      (xorMask ⟨1, 2, 3, 4⟩ [3, 232] ++ [0x82, 0x81])) .econnreset :=
  .close ⟨0x88, ⟨1, 2, 3, 4⟩, [3, 232]⟩ _
    ⟨by decide, fun _ => ⟨by decide, Or.inl (by decide), by decide⟩, fun h => absurd h (by decide)⟩ (by decide)

/-! ## what the server sends -/

/-- **header_roundtrip.**  The header `webSocketsEncodeHybi` writes for opcode text/binary and payload
length `n`, read back by the RFC 6455 parser: FIN, unmasked, same opcode, same length, for all
lengths (125/126, 65535, > 65536 boundaries included) except exactly 65536. -/
theorem header_roundtrip (op : Byte) (hop : op = opText ∨ op = opBinary) (n : Nat) (hn : n < 2 ^ 64)
    (h65536 : n ≠ 65536) (rest : List Byte) :
    parseHeader (encHeader op n ++ rest) = some ⟨true, op, false, n, (encHeader op n).length⟩ :=
  parseHeader_encHeader op hop n hn h65536 rest

example : parseHeader (encHeader opBinary 125 ++ [1]) = some ⟨true, opBinary, false, 125, 2⟩ := by decide
example : parseHeader (encHeader opBinary 126 ++ [1]) = some ⟨true, opBinary, false, 126, 4⟩ := by decide
example : parseHeader (encHeader opText 65535 ++ []) = some ⟨true, opText, false, 65535, 4⟩ := by decide
example : parseHeader (encHeader opText 65537 ++ []) = some ⟨true, opText, false, 65537, 10⟩ := by decide

/-- the code's `blen <= 65536` (instead of `< 65536`): a 65536-byte payload would be announced as
0 bytes -/
theorem encoder_header_65536_wraps (rest : List Byte) :
    parseHeader (encHeader opBinary 65536 ++ rest) = some ⟨true, opBinary, false, 0, 4⟩ :=
  encHeader_65536 rest

/-- … but the encoder never produces such a frame: its input is limited to UPDATE_BUF_SIZE, so the
(base64) payload stays below 65536 (re-proved against the regenerated constants) -/
theorem encoder_lengths_below_65536 (base64 : Bool) (src : List Byte)
    (hle : src.length ≤ C09.updateBufSize) : (encPayload base64 src).length < 65536 :=
  encodeHybi_lengths base64 src hle

/-- **encoder_valid.**  `webSocketsEncodeHybi` output = exactly one unmasked FIN frame of the mode's
opcode whose payload is the input (binary) resp. its base64 text, which decodes to the input. -/
theorem encoder_valid (base64 : Bool) (src : List Byte) (h0 : src ≠ [])
    (hle : src.length ≤ C09.updateBufSize) :
    ∃ w, encodeHybi base64 src = some w ∧
      parseFrames 1 w = some [(encOp base64, encPayload base64 src)] ∧
      (base64 = false → encPayload base64 src = src) ∧
      (base64 = true → b64Inv (encPayload base64 src) = src) := by
  refine ⟨_, encodeHybi_eq base64 src h0 hle, ?_, ?_, ?_⟩
  · have hl := encodeHybi_lengths base64 src hle
    have := parseFrames_cons (encOp base64) (encOp_cases base64) (encPayload base64 src) []
      (by omega) (by omega) 0 [] (by simp [parseFrames])
    simpa using this
  · intro h; simp [encPayload, h]
  · intro h
    have hl : src.length < (ntop src).length + 1 := by rw [ntop_length]; omega
    simp [encPayload, h, b64Inv, b64Law src _ hl]

example : encodeHybi false [0x52, 0x46, 0x42] = some [0x82, 0x03, 0x52, 0x46, 0x42] := by decide
example : encodeHybi true [0x52, 0x46, 0x42] = some [0x81, 0x04, 0x55, 0x6b, 0x5a, 0x43] := by decide

/-- **write_chunking_valid.**  Everything `rfbWriteExact` puts on the wire for one call on a
WebSocket client: a sequence of unmasked FIN frames of the mode's opcode whose payloads are the
(base64 texts of the) consecutive ≤ 32 KiB chunks of the buffer, in order. -/
theorem write_chunking_valid (base64 : Bool) (buf : List Byte) :
    ∃ w frames, wsWrite base64 buf = some w ∧
      parseFrames (buf.length / C09.updateBufSize + 1) w = some frames ∧
      (∀ fr ∈ frames, fr.1 = encOp base64) ∧
      ∃ chunks : List (List Byte), chunks.flatten = buf ∧
        frames.map Prod.snd = chunks.map (encPayload base64) :=
  wsWriteFuel_valid base64 _ buf (Nat.le_refl _)

/-- binary mode: the payloads concatenate to the buffer -/
theorem write_chunking_binary (buf : List Byte) :
    ∃ w frames, wsWrite false buf = some w ∧
      parseFrames (buf.length / C09.updateBufSize + 1) w = some frames ∧
      (frames.map Prod.snd).flatten = buf := by
  obtain ⟨w, frames, h1, h2, _, chunks, h4, h5⟩ := write_chunking_valid false buf
  refine ⟨w, frames, h1, h2, ?_⟩
  have hid : (fun x : List Byte => encPayload false x) = id := by funext x; simp [encPayload]
  rw [h5, ← h4]
  show (chunks.map (fun x => encPayload false x)).flatten = chunks.flatten
  rw [hid, List.map_id]

/-! ## the defect of the unpatched decoder (DESIGN.md section 11-b) -/

private def cexFrame : Frame := ⟨0x82, ⟨0xaa, 0xbb, 0xcc, 0xdd⟩, List.replicate 128 0x41⟩
private def cexEnv : Env := { pending := cexFrame.wire, sched := [.chunk 5, .chunk 0] }

set_option maxRecDepth 10000 in
/-- A valid 128-byte binary frame whose 8-byte header arrives as 6 + 1 bytes (no EAGAIN, no error):
the first call leaves the decoder in HEADER_PENDING with 7 header bytes (identically in the patched
and the unpatched code: both ask for 6, then for 2 bytes).  On re-entry the unpatched code computes
its read length as `6 - nRead = -1`, i.e. `readFunc(ctx, codeBufDecode + 7, (size_t)-1)`: the
property's "every read request is positive and inside the buffer" fails.  The patched code asks
for `8 - 7 = 1` byte. -/
theorem ws_split_counterexample_unfixed :
    cexFrame.ok opInvalid ∧ cexEnv.FaultFree ∧ cexEnv.pending = wireOf [cexFrame] ∧
    (decode Ctx.init cexEnv 4096).2.2 = .again ∧
    (decode Ctx.init cexEnv 4096).1.st = .headerPending ∧
    (decode Ctx.init cexEnv 4096).1.nRead = 7 ∧
    hdrReadLenUnfixed (decode Ctx.init cexEnv 4096).1 = -1 ∧
    hdrMissing (decode Ctx.init cexEnv 4096).1 = 1 := by
  refine ⟨⟨by simp [cexFrame], fun h => absurd h (by decide), fun _ => ⟨by decide, Or.inl (by decide)⟩⟩,
    by simp [Env.FaultFree, cexEnv, Resp.benign], by simp [cexEnv, wireOf],
    by decide, by decide, by decide, by decide, by decide⟩

/-! ## handshake

Model: `VncModel/Ws/Handshake.lean` — the 4096-byte request buffer with the NUL patches of the code,
header values as offsets into it, every written index recorded (`Scan.writes`); the request is
consumed byte by byte until the empty line, 4095 bytes or the end of what the client sent
(time-out: go on with what is there; closed: fail).  The code modelled is websockets.c with
fixes/C09-handshake-unterminated-value.diff (the buffer is kept NUL-terminated). -/

/-- **buffer bounds**: for EVERY byte sequence (and however it is segmented: the scanner reads one
byte at a time) every index of the 4096-byte request buffer that is written — the received bytes,
the running terminator, the `buf[len-2]` / `buf[len-11]` patches, the 8 Hixie bytes — is below
4096, and the length never exceeds 4095 -/
theorem handshake_buffer_in_bounds (req : List Byte) :
    (scanLoop req {}).1.len < C09.maxHandshakeLen ∧
    ∀ i ∈ (scanLoop req {}).1.writes, i < C09.maxHandshakeLen :=
  scanLoop_bounds req {} (by simp [Scan.len, HSMAX, C09.maxHandshakeLen]) (by intro i hi; cases hi)

/-- **accept key and sub-protocol of every accepted request**: whatever the request bytes, if the
handshake succeeds then the request began with "GET ", carried a non-zero version, a key, a path,
a host and an origin, the 101 response is the code's template filled with
`base64 (sha1 (key ++ GUID))` for exactly the key string the scanner points at, and the sub-protocol
answered is none, or "base64"/"binary" being one of the comma-separated tokens of the client's
Sec-WebSocket-Protocol value (base64 framing iff "base64" is answered) -/
theorem handshake_accept_key (sha1 : List Byte → List Byte) (req : List Byte) (ending : HsEnd)
    (resp path unread : List Byte) (b64 : Bool) (h : handshake sha1 req ending = .ok resp b64 path unread) :
    pGet.isPrefixOf req = true ∧ (scanLoop req {}).1.version = true ∧
    ∃ k, (scanLoop req {}).1.ptr .key = some k ∧
      ∃ proto : List Byte,
        resp = (if proto.length > 0 then
                  fmt2 C09.handshakeFmt (ntop (sha1 ((scanLoop req {}).1.strAt k ++ strBytes C09.guid))) proto
                else fmt2 C09.handshakeFmtNoProto (ntop (sha1 ((scanLoop req {}).1.strAt k ++ strBytes C09.guid))) []) ∧
        ((proto = [] ∧ b64 = false) ∨
         (∃ p, (scanLoop req {}).1.ptr .protocol = some p ∧ proto ∈ offerTokens ((scanLoop req {}).1.strAt p) ∧
            ((proto = bBase64 ∧ b64 = true) ∨ (proto = bBinary ∧ b64 = false)))) := by
  obtain ⟨h1, h2, _, _, _, k, hk, hb, hr⟩ := handshake_ok_shape sha1 req ending resp path unread b64 h
  refine ⟨h1, h2, k, hk, _, hr, ?_⟩
  generalize hO : ((scanLoop req {}).1.ptr .protocol).map (scanLoop req {}).1.strAt = O at hb hr ⊢
  rcases chooseProtocol_spec O with ⟨c1, c2⟩ | ⟨p, c1, c2, c3⟩
  · left; exact ⟨c1, by rw [hb, c2]⟩
  · right
    cases hp : (scanLoop req {}).1.ptr .protocol with
    | none => rw [hp, c1] at hO; simp at hO
    | some po =>
      rw [hp, c1] at hO
      simp only [Option.map_some, Option.some.injEq] at hO
      refine ⟨po, rfl, by rw [hO]; exact c2, ?_⟩
      rw [hb]; exact c3

/-- **refusal**: a request that does not begin with "GET ", or in which the scanner finds no
(non-zero) version or no key line, is refused -/
theorem handshake_refuses (sha1 : List Byte → List Byte) (req : List Byte) (ending : HsEnd)
    (h : pGet.isPrefixOf req = false ∨ (scanLoop req {}).1.version = false ∨
         (scanLoop req {}).1.ptr .key = none) :
    handshake sha1 req ending = .fail := by
  cases hres : handshake sha1 req ending with
  | fail => rfl
  | ok resp b64 path unread =>
    obtain ⟨h1, h2, _, _, _, k, hk, _⟩ := handshake_ok_shape sha1 req ending resp path unread b64 hres
    rcases h with h | h | h
    · rw [h] at h1; cases h1
    · rw [h] at h2; cases h2
    · rw [h] at hk; cases hk

/-- **well-formed requests are read exactly as written**: header lines without LF and NUL, each
terminated by CR LF, the empty line at the end, at most 4095 bytes in total, not a Hixie request:
the outcome of the byte-wise scanner is `specResult` of the value-level reading `specLine` of the
lines, in any order, with duplicates (the last one wins), with any letter case of the header names;
bytes after the request are left for the frame decoder -/
theorem handshake_wellformed_request (sha1 : List Byte → List Byte) (lines : List (List Byte))
    (rest : List Byte) (ending : HsEnd) (hwf : ∀ l ∈ lines, WFLine l)
    (hlen : (wfRequest lines).length ≤ C09.maxHandshakeLen - 1)
    (hget : pGet.isPrefixOf (wfRequest lines ++ rest) = true)
    (hk : ¬ ((lines.foldl specLine {}).key1 = true ∧ (lines.foldl specLine {}).key2 = true)) :
    handshake sha1 (wfRequest lines ++ rest) ending = specResult sha1 (lines.foldl specLine {}) rest :=
  handshake_wellformed sha1 lines rest ending hwf hlen hget hk

/-- what a header line contributes, for the header names in any letter case: its value, verbatim -/
theorem handshake_header_values (F : ReqSpec) (n v : List Byte) :
    (n.map lowerB = pKey → specLine F (n ++ v) = F.set .key v) ∧
    (n.map lowerB = pHost → specLine F (n ++ v) = F.set .host v) ∧
    (n.map lowerB = pOrigin → specLine F (n ++ v) = F.set .origin v) ∧
    (n.map lowerB = pProtocol → specLine F (n ++ v) = F.set .protocol v) ∧
    (n.map lowerB = pSecOrigin → specLine F (n ++ v) = F.set .secOrigin v) :=
  specLine_of_name F n v

/-- **valid request ⇒ RFC answer**: if the value-level reading has a non-zero version, key `k`, a
path, a host and an origin, the answer is 101 with `base64 (sha1 (k ++ GUID))` and the sub-protocol
chosen from the offered value; without key or version the request is refused -/
theorem handshake_valid_request (sha1 : List Byte → List Byte) (F : ReqSpec) (unread k : List Byte)
    (hv : F.version = true) (hk : F.val .key = some k) (hp : (F.val .path).isSome)
    (hh : (F.val .host).isSome) (ho : (F.val .origin).isSome ∨ (F.val .secOrigin).isSome) :
    ∃ resp, specResult sha1 F unread =
        .ok resp (chooseProtocol (F.val .protocol)).1 ((F.val .path).getD []) unread ∧
      resp = (if (chooseProtocol (F.val .protocol)).2.length > 0 then
                fmt2 C09.handshakeFmt (ntop (sha1 (k ++ strBytes C09.guid))) (chooseProtocol (F.val .protocol)).2
              else fmt2 C09.handshakeFmtNoProto (ntop (sha1 (k ++ strBytes C09.guid))) []) := by
  refine ⟨_, ?_, rfl⟩
  unfold specResult
  simp only [hv, Bool.not_true, Bool.false_eq_true, if_false, hk, acceptKey]
  have c : ¬ ((F.val .path).isNone = true ∨ (F.val .host).isNone = true ∨
      ((F.val .origin).isNone = true ∧ (F.val .secOrigin).isNone = true)) := by
    cases h1 : F.val .path <;> cases h2 : F.val .host <;> cases h3 : F.val .origin <;>
      cases h4 : F.val .secOrigin <;> simp_all
  simp only [c, if_false]

theorem handshake_missing_key_or_version (sha1 : List Byte → List Byte) (F : ReqSpec) (unread : List Byte)
    (h : F.version = false ∨ F.val .key = none) : specResult sha1 F unread = .fail := by
  unfold specResult
  rcases h with h | h
  · simp [h]
  · cases hv : F.version <;> simp [h]

/-- Sub-protocol selection: the `Sec-WebSocket-Protocol` value of the answer is absent or exactly
the single word `base64` or `binary` — never a list, never an echo of the offer — and the
connection's base64 flag says which one. -/
theorem protocol_selection_single (offered : Option (List Byte)) :
    ((chooseProtocol offered).2 = [] ∧ (chooseProtocol offered).1 = false) ∨
    ((chooseProtocol offered).2 = bBase64 ∧ (chooseProtocol offered).1 = true) ∨
    ((chooseProtocol offered).2 = bBinary ∧ (chooseProtocol offered).1 = false) := by
  rcases chooseProtocol_spec offered with h | ⟨_, _, _, h | h⟩
  · exact .inl h
  · exact .inr (.inl h)
  · exact .inr (.inr h)

/-- Sub-protocol selection (RFC 6455 §4.2.2): for **every** offer the selected sub-protocol is
**one of the offered tokens or absent** (tokens = the comma-separated elements of the header value
with surrounding blanks and tabs removed).  Model of `webSocketsProtocolOffered`
(`fixes/C09-subprotocol-token-match.diff`). -/
theorem protocol_selection_offered_or_absent (offered : Option (List Byte)) :
    (chooseProtocol offered).2 = [] ∨
    ∃ p, offered = some p ∧ (chooseProtocol offered).2 ∈ offerTokens p := by
  rcases chooseProtocol_spec offered with h | ⟨p, h1, h2, _⟩
  · exact .inl h.1
  · exact .inr ⟨p, h1, h2⟩

/-- Sub-protocol selection is complete and keeps the code's preference: `base64` is answered
whenever it is an offered token, otherwise `binary` whenever it is one, otherwise nothing. -/
theorem protocol_selection_preference (p : List Byte) :
    (bBase64 ∈ offerTokens p → chooseProtocol (some p) = (true, bBase64)) ∧
    (bBase64 ∉ offerTokens p → bBinary ∈ offerTokens p → chooseProtocol (some p) = (false, bBinary)) ∧
    (bBase64 ∉ offerTokens p → bBinary ∉ offerTokens p → chooseProtocol (some p) = (false, [])) :=
  chooseProtocol_complete p

/-- **defect of the code as found** (`strstr` on the whole header value): the offer `superbase64x`
is answered with `base64`, which the client did not offer; the token-wise selection answers
nothing. -/
theorem defect_subprotocol_substring_match_unfixed :
    (chooseProtocolUnfixed (some (strBytes "superbase64x"))).2 = bBase64 ∧
    bBase64 ∉ offerTokens (strBytes "superbase64x") ∧
    (chooseProtocol (some (strBytes "superbase64x"))).2 = [] := by decide

-- the selection on ordinary offers
example : offerTokens (strBytes "chat , binary,mqtt") = [strBytes "chat", bBinary, strBytes "mqtt"] ∧
    chooseProtocol (some (strBytes "chat , binary,mqtt")) = (false, bBinary) ∧
    chooseProtocol (some (strBytes "binary,\t base64")) = (true, bBase64) ∧
    chooseProtocol (some (strBytes "BINARY, xbinary")) = (false, []) := by decide

-- non-vacuity: a small request, header names in mixed case, in "wrong" order
private def exLines : List (List Byte) :=
  [strBytes "GET /vnc HTTP/1.1", strBytes "sec-websocket-KEY: dGhlIHNhbXBsZSBub25jZQ==",
   strBytes "Host: h", strBytes "Sec-WebSocket-Version: 13", strBytes "Origin: o",
   strBytes "Sec-WebSocket-Protocol: binary, base64"]
example : (exLines.foldl specLine {}).val .key = some (strBytes "dGhlIHNhbXBsZSBub25jZQ==") ∧
    (exLines.foldl specLine {}).version = true ∧
    (chooseProtocol ((exLines.foldl specLine {}).val .protocol)) = (true, bBase64) ∧
    (exLines.foldl specLine {}).val .path = some (strBytes "/vnc") := by decide
example : ∀ l ∈ exLines, WFLine l := by unfold WFLine; decide

end VncModel.Props.C09

/-! ## T1: the regenerated C leaf functions are the model's functions

The definitions `VncModel.Gen.Leaf.*` are translated from /repo's current C source by
`tools/c2lean.py` on every run; these theorems are the proof obligations that break when the C
functions change (see docs/T1.md). -/
namespace VncModel.Props.C09.T1

/-- `hybiRemaining` as compiled now = the model's `Ctx.remaining` -/
theorem code_hybiRemaining_eq_model (c : VncModel.Ws.Ctx) (h : c.nReadPayload ≤ 2 ^ 64) :
    VncModel.Gen.Leaf.hybiRemaining c.payloadLen c.nReadPayload = (c.remaining : Nat) :=
  VncModel.Leaf.hybiRemaining_eq c h
end VncModel.Props.C09.T1
