import VncModel.Ws.Decoder
import VncModel.Ws.Codec
import VncModel.Ws.Handshake
namespace VncModel.Props.C09
open VncModel.Ws

theorem placeholder_partial : Ctx.init.st = .headerPending := rfl

end VncModel.Props.C09
