import VncModel.Region.Misc
import VncModel.Region.IterProof
import VncModel.Leaf.EquivRegion
/-!
# C11 — Region algebra behaves as set algebra on pixels

Property theorems only; helper lemmas are in `VncModel/Region/{Basic,And,Sub,Or,Inst,Misc}.lean`.

**What is modelled** (`VncModel/Region/Model.lean`): `rfbregion.c` — a region is a list of y-spans
("bands") each holding a list of x-spans, exactly the C two-level span lists; `sraSpanListOr`,
`sraSpanListAnd`, `sraSpanListSubtract` are transliterated loop by loop on a zipper (including
`sraSpanMergePrevious/Next`, the overridden `s_start`, the code's behaviour of *not* merging on the
append path, i.e. results are not canonical), plus `sraRgnOffset`, `sraRgnBBox` (with its `INT_MAX` /
`1-INT_MAX` seeds), `sraRgnPopRect`, `sraRgnCountRects`, `sraRgnEmpty`, `sraRgnCreateRect`, the
rectangle iterator in its four directions, `sraClipRect`, `sraClipRect2`.  C `int` is `Int`
(arithmetic occurs only in offset/clipRect; overflow there is undefined behaviour in C and excluded).
The model is tied to the code on every run by `harness/c11.c` ⇄ `Driver/C11.lean` (exact comparison).

**Reading**: `Region.den r x y` = "pixel (x,y) is covered by r"; `Region.WF r` = what every region
built by the library satisfies (bands ordered, disjoint, non-empty, with non-empty ordered disjoint
x-span lists; *nothing* about maximal merging).  All theorems quantify over ALL well-formed regions
(unbounded size, unbounded coordinates).  The loops of the model run on fuel; the theorems are about
the functions the driver executes (`Region.or` etc. with their built-in fuel), so they include the
fact that the fuel never runs out on well-formed operands.

**Partial / guarded**: nothing is `_partial`.  `bbox_den` assumes `InRange` = "the coordinates are C
`int`s" (true of every region the code can hold; the model's `Int` is unbounded); `bbox_wf` and
`bbox_empty` have no hypothesis.  (Until /repo 4069cf1 `sraRgnBBox` was wrong for a region ending at
`INT_MIN+1`; fixed, regression case in corpus/C11.)  The iterator has a small-step model (`IterModel.lean`) proved to
refine the sequence `Region.rects` (`iter_refines`); the iterator laws are stated about `rects`.  Section `T1` ties the clippers and
`sraRgnCreateRect`'s guard to the C text itself.
-/
namespace VncModel.Props.C11
open VncModel.Rgn

/-! ## union, intersection, difference -/

/-- `sraRgnOr` computes the union -/
theorem or_den (a b : Region) (ha : a.WF) (hb : b.WF) (x y : Int) :
    (Region.or a b).den x y ↔ (a.den x y ∨ b.den x y) := (rOr_spec a b ha hb).2 x y

/-- … and its result is again well-formed -/
theorem or_wf (a b : Region) (ha : a.WF) (hb : b.WF) : (Region.or a b).WF := (rOr_spec a b ha hb).1

/-- `sraRgnAnd` computes the intersection -/
theorem and_den (a b : Region) (ha : a.WF) (hb : b.WF) (x y : Int) :
    (Region.and a b).1.den x y ↔ (a.den x y ∧ b.den x y) := (rAnd_spec a b ha hb).2.1 x y

theorem and_wf (a b : Region) (ha : a.WF) (hb : b.WF) : (Region.and a b).1.WF :=
  (rAnd_spec a b ha hb).1

/-- the boolean returned by `sraRgnAnd` says whether the result is non-empty (as a pixel set) -/
theorem and_bool (a b : Region) (ha : a.WF) (hb : b.WF) :
    (Region.and a b).2 = true ↔ ∃ x y, a.den x y ∧ b.den x y := by
  rw [(rAnd_spec a b ha hb).2.2]
  simp only [(rAnd_spec a b ha hb).2.1]

/-- the value `sraRgnAnd` returns is `!sraSpanListEmpty(dst)` of the region it leaves in `dst` — for
ALL operands, whatever the number of rectangles (in particular not a truncated count) -/
theorem and_bool_eq (a b : Region) : (Region.and a b).2 = !(Region.and a b).1.isEmpty := rfl

/-- `sraRgnSubtract` computes the set difference -/
theorem sub_den (a b : Region) (ha : a.WF) (hb : b.WF) (x y : Int) :
    (Region.sub a b).1.den x y ↔ (a.den x y ∧ ¬ b.den x y) := (rSub_spec a b ha hb).2.1 x y

theorem sub_wf (a b : Region) (ha : a.WF) (hb : b.WF) : (Region.sub a b).1.WF :=
  (rSub_spec a b ha hb).1

/-- the boolean returned by `sraRgnSubtract` says whether the result is non-empty -/
theorem sub_bool (a b : Region) (ha : a.WF) (hb : b.WF) :
    (Region.sub a b).2 = true ↔ ∃ x y, a.den x y ∧ ¬ b.den x y := by
  rw [(rSub_spec a b ha hb).2.2]
  simp only [(rSub_spec a b ha hb).2.1]

/-- the value `sraRgnSubtract` returns is `!sraSpanListEmpty(dst)` of the region it leaves in `dst` -/
theorem sub_bool_eq (a b : Region) : (Region.sub a b).2 = !(Region.sub a b).1.isEmpty := rfl

/-- hence, for well-formed operands: returned TRUE ⇔ `sraRgnEmpty(dst)` is false ⇔ `dst` covers a pixel -/
theorem and_bool_iff_not_empty (a b : Region) (ha : a.WF) (hb : b.WF) :
    (Region.and a b).2 = true ↔ ∃ x y, (Region.and a b).1.den x y := (rAnd_spec a b ha hb).2.2

theorem sub_bool_iff_not_empty (a b : Region) (ha : a.WF) (hb : b.WF) :
    (Region.sub a b).2 = true ↔ ∃ x y, (Region.sub a b).1.den x y := (rSub_spec a b ha hb).2.2

/-- non-vacuity: two overlapping, non-canonical (touching bands with equal x-lists) operands -/
example : Region.WF [⟨0, 2, [⟨0, 3, ()⟩, ⟨3, 5, ()⟩]⟩, ⟨2, 4, [⟨0, 3, ()⟩, ⟨3, 5, ()⟩]⟩, ⟨7, 9, [⟨-4, 1, ()⟩]⟩] ∧
    Region.WF [⟨1, 8, [⟨2, 4, ()⟩]⟩] := by
  simp [Region.WF, XList.WF, Sorted, SortedFrom]

/-- the example of `rfbregion.c`'s disabled `main()`: (10,10)-(600,300) minus (40,50)-(350,200) -/
example : (Region.sub (Region.rect 10 10 600 300) (Region.rect 40 50 350 200)) =
    ([⟨10, 50, [⟨10, 600, ()⟩]⟩, ⟨50, 200, [⟨10, 40, ()⟩, ⟨350, 600, ()⟩]⟩, ⟨200, 300, [⟨10, 600, ()⟩]⟩],
     true) := by decide

/-- results are not canonical: `[3,5) ∪ [5,7)` stays two rectangles, the mirror image merges -/
example : Region.or (Region.rect 3 0 5 1) (Region.rect 5 0 7 1) = [⟨0, 1, [⟨3, 5, ()⟩, ⟨5, 7, ()⟩]⟩] ∧
    Region.or (Region.rect 5 0 7 1) (Region.rect 3 0 5 1) = [⟨0, 1, [⟨3, 7, ()⟩]⟩] := by decide

example : Region.and (Region.rect 0 0 4 4) (Region.rect 4 0 8 4) = ([], false) := by decide

/-! ## offset, copy, emptiness, creation -/

/-- `sraRgnOffset` translates the pixel set (model: unbounded `Int`; in C the additions must not
overflow, which is undefined behaviour and outside the correspondence run) -/
theorem offset_den (r : Region) (dx dy x y : Int) :
    (Region.offset r dx dy).den x y ↔ r.den (x - dx) (y - dy) := VncModel.Rgn.offset_den r dx dy x y

theorem offset_wf (r : Region) (dx dy : Int) (h : r.WF) : (Region.offset r dx dy).WF :=
  VncModel.Rgn.offset_wf r dx dy h

/-- `sraRgnCreateRgn` (copy) -/
theorem dup_den (r : Region) (x y : Int) : (Region.dup r).den x y ↔ r.den x y := Iff.rfl

/-- `sraRgnEmpty` is true exactly when no pixel is covered -/
theorem isEmpty_iff (r : Region) (h : r.WF) : r.isEmpty = true ↔ ∀ x y, ¬ r.den x y :=
  VncModel.Rgn.isEmpty_iff r h

/-- `sraRgnCreateRect` denotes exactly the pixels of the rectangle — for ALL arguments (an
inverted or empty rectangle gives the empty region) -/
theorem createRect_den (x1 y1 x2 y2 x y : Int) :
    (Region.rect x1 y1 x2 y2).den x y ↔ (x1 ≤ x ∧ x < x2 ∧ y1 ≤ y ∧ y < y2) :=
  rect_den x1 y1 x2 y2 x y

/-- … and is well-formed for ALL arguments -/
theorem createRect_wf (x1 y1 x2 y2 : Int) : (Region.rect x1 y1 x2 y2).WF := rect_wf x1 y1 x2 y2

theorem empty_wf : Region.empty.WF := trivial

theorem empty_den (x y : Int) : ¬ Region.empty.den x y := by simp [Region.empty, Region.den]

/-! ## bounding box -/

/-- `sraRgnBBox` of an empty region is empty -/
theorem bbox_empty : Region.bbox Region.empty = Region.empty := bbox_nil

/-- `sraRgnBBox` of a non-empty region is the single rectangle that is the TIGHT bounding box of
the pixel set: it contains every pixel, and each of its four sides touches the region.
`InRange` only says that the coordinates are C `int`s (`INT_MIN ≤ s`, `e ≤ INT_MAX`) — true of every
region the C code can hold; it is needed because the model computes in unbounded `Int` while the
code starts from the seeds `INT_MAX` / `INT_MIN` (/repo 4069cf1; the former `1-INT_MAX` seed was
wrong for a region ending at `INT_MIN+1`, regression case corpus/C11/bbox_int_min.txt). -/
theorem bbox_den (r : Region) (hwf : r.WF) (hr : InRange r) (hne : r ≠ []) :
    ∃ x1 y1 x2 y2, r.bbox = [⟨y1, y2, [⟨x1, x2, ()⟩]⟩] ∧ x1 < x2 ∧ y1 < y2 ∧
      (∀ x y, r.bbox.den x y ↔ (x1 ≤ x ∧ x < x2 ∧ y1 ≤ y ∧ y < y2)) ∧
      (∀ x y, r.den x y → r.bbox.den x y) ∧
      (∃ y, r.den x1 y) ∧ (∃ y, r.den (x2 - 1) y) ∧ (∃ x, r.den x y1) ∧ (∃ x, r.den x (y2 - 1)) := by
  obtain ⟨x1, y1, x2, y2, he, h1, h2, h3, h4, h5, h6, h7⟩ := bbox_spec r hwf hr hne
  have hd : ∀ x y, r.bbox.den x y ↔ (x1 ≤ x ∧ x < x2 ∧ y1 ≤ y ∧ y < y2) := by
    intro x y; rw [he]; simp [Region.den, XList.den]; omega
  exact ⟨x1, y1, x2, y2, he, h1, h2, hd, fun x y h => (hd x y).mpr (h3 x y h), h4, h5, h6, h7⟩

/-- `sraRgnBBox` covers the region — for EVERY region, no hypothesis -/
theorem bbox_covers (r : Region) (x y : Int) (h : r.den x y) : r.bbox.den x y :=
  VncModel.Rgn.bbox_covers r x y h

/-- the result of `sraRgnBBox` is well-formed — for EVERY argument -/
theorem bbox_wf (r : Region) : r.bbox.WF := bbox_wf_all r

/-- non-vacuity: a well-formed, non-empty region with `int` coordinates, and its box -/
example : Region.bbox [⟨0, 2, [⟨0, 3, ()⟩, ⟨3, 5, ()⟩]⟩, ⟨7, 9, [⟨-4, 1, ()⟩]⟩] = [⟨0, 9, [⟨-4, 5, ()⟩]⟩] := by
  decide

/-- non-vacuity of `InRange`: the whole `int` range is allowed, `INT_MIN` included -/
example : InRange [⟨0, 2, [⟨0, 3, ()⟩, ⟨3, 5, ()⟩]⟩, ⟨7, 9, [⟨-2147483648, 2147483647, ()⟩]⟩] := by
  simp [InRange, intMax]

/-- the former defect's witness: a region ending at `INT_MIN+1` now gets its exact box -/
example : Region.bbox [⟨0, 5, [⟨-2147483648, -2147483647, ()⟩]⟩] = [⟨0, 5, [⟨-2147483648, -2147483647, ()⟩]⟩] := by
  decide

/-! ## iteration: `sraRgnGetIterator` / `sraRgnGetReverseIterator` / `sraRgnIteratorNext`

`r.rects reverseX reverseY` is the sequence of rectangles the iterator yields. -/

/-- **the C iterator's own stepping logic refines `rects`**: `Region.iterAll` runs the small-step
model of `sraRgnGetReverseIterator` + `sraRgnIteratorNext` (`Region/IterModel.lean`: the `sPtrs`
cursors with `ptrPos`, the sentinel comparisons of the two `while` loops, `sraReverse`'s
`(ptrPos&2) && reverseX || !(ptrPos&2) && reverseY`) until it returns 0.  On every well-formed
region, for all four direction pairs, it terminates without a fault (no sentinel dereferenced, no
NULL link followed, the "offset is wrong" branch never taken) and yields exactly `r.rects rx ry` —
so all `iter_*` laws below hold for what the code's state machine produces.  The driver executes
this small-step model for every `iter` op of the correspondence run. -/
theorem iter_refines (r : Region) (h : r.WF) (rx ry : Bool) :
    r.iterAll rx ry = some (r.rects rx ry) :=
  iterAll_eq_rects r (fun b hb => (Sorted.all h b hb).2.2) rx ry

/-- `sraRgnGetIterator(r)` is `sraRgnGetReverseIterator(r, 0, 0)` -/
theorem getIterator_is_forward (r : Region) : getIterator r = getReverseIterator r false false := rfl

example : Region.iterAll [⟨0, 2, [⟨0, 3, ()⟩, ⟨4, 5, ()⟩]⟩, ⟨2, 4, [⟨1, 2, ()⟩]⟩] true false =
    some [⟨4, 0, 5, 2⟩, ⟨0, 0, 3, 2⟩, ⟨1, 2, 2, 4⟩] := by decide

/-- the rectangles yielded are non-empty … -/
theorem iter_nonempty (r : Region) (h : r.WF) (rx ry : Bool) :
    ∀ rc ∈ r.rects rx ry, rc.x1 < rc.x2 ∧ rc.y1 < rc.y2 := rects_nonempty r h rx ry

/-- … pairwise disjoint … -/
theorem iter_disjoint (r : Region) (h : r.WF) (rx ry : Bool) :
    (r.rects rx ry).Pairwise (fun a b => ∀ x y, ¬ (a.den x y ∧ b.den x y)) := rects_disjoint r h rx ry

/-- … their union is exactly the region (for every direction pair) … -/
theorem iter_cover (r : Region) (rx ry : Bool) (x y : Int) :
    r.den x y ↔ ∃ rc ∈ r.rects rx ry, rc.den x y := rects_cover r rx ry x y

/-- … their number is `sraRgnCountRects` … -/
theorem iter_count (r : Region) (rx ry : Bool) : (r.rects rx ry).length = r.countRects :=
  rects_length r rx ry

/-- … and the order is monotone in the requested directions: for ANY rectangle `a` yielded before
`b`, either both lie in the same band and `a` is entirely left of `b` (right if `reverseX`), or
`a`'s band is entirely above `b`'s (below if `reverseY`). -/
theorem iter_monotone (r : Region) (h : r.WF) (rx ry : Bool) :
    (r.rects rx ry).Pairwise (fun a b =>
      (a.y1 = b.y1 ∧ a.y2 = b.y2 ∧ (if rx then b.x2 ≤ a.x1 else a.x2 ≤ b.x1)) ∨
      (if ry then b.y2 ≤ a.y1 else a.y2 ≤ b.y1)) := rects_monotone r h rx ry

example : Region.rects [⟨0, 2, [⟨0, 3, ()⟩, ⟨4, 5, ()⟩]⟩, ⟨2, 4, [⟨1, 2, ()⟩]⟩] true false =
    [⟨4, 0, 5, 2⟩, ⟨0, 0, 3, 2⟩, ⟨1, 2, 2, 4⟩] := by decide

/-! ## the rectangle clippers -/

/-- `sraClipRect` is rectangle intersection: for ALL arguments the output rectangle's pixel set is
the intersection of `[x,x+w)×[y,y+h)` and `[cx,cx+cw)×[cy,cy+ch)`, and the boolean says whether it
is non-empty. -/
theorem clipRect_is_intersection (x y w h cx cy cw ch : Int) :
    let r := clipRect x y w h cx cy cw ch
    (∀ px py, (r.1 ≤ px ∧ px < r.1 + r.2.2.1 ∧ r.2.1 ≤ py ∧ py < r.2.1 + r.2.2.2.1) ↔
      ((x ≤ px ∧ px < x + w ∧ y ≤ py ∧ py < y + h) ∧
       (cx ≤ px ∧ px < cx + cw ∧ cy ≤ py ∧ py < cy + ch))) ∧
    (r.2.2.2.2 = true ↔ ∃ px py, (x ≤ px ∧ px < x + w ∧ y ≤ py ∧ py < y + h) ∧
       (cx ≤ px ∧ px < cx + cw ∧ cy ≤ py ∧ py < cy + ch)) := by
  intro r
  obtain ⟨h1, h2, h3, h4, h5⟩ : r.1 = max x cx ∧ r.2.1 = max y cy ∧
      r.1 + r.2.2.1 = min (x + w) (cx + cw) ∧ r.2.1 + r.2.2.2.1 = min (y + h) (cy + ch) ∧
      (r.2.2.2.2 = true ↔ (r.2.2.1 > 0 ∧ r.2.2.2.1 > 0)) := clipRect_spec x y w h cx cy cw ch
  clear_value r
  have hp : ∀ px py, (r.1 ≤ px ∧ px < r.1 + r.2.2.1 ∧ r.2.1 ≤ py ∧ py < r.2.1 + r.2.2.2.1) ↔
      ((x ≤ px ∧ px < x + w ∧ y ≤ py ∧ py < y + h) ∧
       (cx ≤ px ∧ px < cx + cw ∧ cy ≤ py ∧ py < cy + ch)) := by
    intro px py
    omega
  refine ⟨hp, ?_⟩
  rw [h5]
  constructor
  · intro hpos
    exact ⟨r.1, r.2.1, (hp r.1 r.2.1).mp ⟨Int.le_refl _, by omega, Int.le_refl _, by omega⟩⟩
  · rintro ⟨px, py, hin⟩
    have := (hp px py).mpr hin
    omega

/-- `sraClipRect2` (corner form).  (1) the boolean is `x2' > x' ∧ y2' > y'`; (2) when the two
rectangles intersect, the result is their intersection and the boolean is true; (3) when both are
non-empty, the result is a non-empty rectangle inside the clip rectangle even if they do NOT
intersect (the code clamps instead of intersecting: a rectangle left of the clip area becomes its
first column) — this is the behaviour `rfbDrawCursor`'s caller sees. -/
theorem clipRect2_spec (x y x2 y2 cx cy cx2 cy2 : Int) :
    let r := clipRect2 x y x2 y2 cx cy cx2 cy2
    (r.2.2.2.2 = true ↔ (r.2.2.1 > r.1 ∧ r.2.2.2.1 > r.2.1)) ∧
    ((max x cx < min x2 cx2 ∧ max y cy < min y2 cy2) →
      r = (max x cx, max y cy, min x2 cx2, min y2 cy2, true)) ∧
    ((x < x2 ∧ y < y2 ∧ cx < cx2 ∧ cy < cy2) →
      r.2.2.2.2 = true ∧ cx ≤ r.1 ∧ r.1 < r.2.2.1 ∧ r.2.2.1 ≤ cx2 ∧
      cy ≤ r.2.1 ∧ r.2.1 < r.2.2.2.1 ∧ r.2.2.2.1 ≤ cy2) := by
  intro r
  obtain ⟨h1, h2, h3, h4, h5⟩ := clipRect2_vals x y x2 y2 cx cy cx2 cy2
  refine ⟨h5, ?_, ?_⟩
  · intro hi
    have e1 : r.1 = max x cx := by rw [show r.1 = _ from h1]; split <;> omega
    have e2 : r.2.1 = max y cy := by rw [show r.2.1 = _ from h2]; split <;> omega
    have e3 : r.2.2.1 = min x2 cx2 := by rw [show r.2.2.1 = _ from h3]; split <;> split <;> omega
    have e4 : r.2.2.2.1 = min y2 cy2 := by rw [show r.2.2.2.1 = _ from h4]; split <;> split <;> omega
    have e5 : r.2.2.2.2 = true := (show r.2.2.2.2 = true ↔ _ from h5).mpr (by omega)
    rw [← e1, ← e2, ← e3, ← e4, ← e5]
  · intro hi
    have e1 : cx ≤ r.1 ∧ r.1 ≤ cx2 - 1 ∧ (r.1 ≤ x ∨ r.1 = cx) := by
      rw [show r.1 = _ from h1]; split <;> omega
    have e2 : cy ≤ r.2.1 ∧ r.2.1 ≤ cy2 - 1 ∧ (r.2.1 ≤ y ∨ r.2.1 = cy) := by
      rw [show r.2.1 = _ from h2]; split <;> omega
    have e3 : cx + 1 ≤ r.2.2.1 ∧ r.2.2.1 ≤ cx2 ∧ (x2 ≤ r.2.2.1 ∨ r.2.2.1 = cx2) := by
      rw [show r.2.2.1 = _ from h3]; split <;> split <;> omega
    have e4 : cy + 1 ≤ r.2.2.2.1 ∧ r.2.2.2.1 ≤ cy2 ∧ (y2 ≤ r.2.2.2.1 ∨ r.2.2.2.1 = cy2) := by
      rw [show r.2.2.2.1 = _ from h4]; split <;> split <;> omega
    have hx : r.1 < r.2.2.1 := by omega
    have hy : r.2.1 < r.2.2.2.1 := by omega
    exact ⟨(show r.2.2.2.2 = true ↔ _ from h5).mpr ⟨hx, hy⟩, e1.1, hx, e3.2.1, e2.1, hy, e4.2.1⟩

example : clipRect 0 0 10 10 5 5 10 10 = (5, 5, 5, 5, true) := by decide
example : clipRect2 0 0 3 3 5 5 20 20 = (5, 5, 6, 6, true) := by decide

/-! ## `sraRgnPopRect` -/

/-- `sraRgnPopRect(rgn, &rect, flags)` returns 0 exactly on the empty region (and leaves it alone);
otherwise it removes and returns the FIRST rectangle of the iteration in the directions selected by
`flags` (bit 1: right-to-left, bit 0: bottom-to-top): the rectangle is non-empty and part of the
region, the remaining region is well-formed, iterates as the rest of the sequence, and denotes the
old pixel set minus the rectangle. -/
theorem popRect_none_iff (r : Region) (hwf : r.WF) (flags : Nat) :
    (r.popRect flags).2 = none ↔ r = [] := by
  have hs := popRect_spec r hwf flags
  constructor
  · intro hn
    cases hl : r.rects (flags &&& 2 == 2) (flags &&& 1 == 1) with
    | nil => rw [hl] at hs; exact hs.1
    | cons rc rs => rw [hl] at hs; rw [hs.1] at hn; cases hn
  · rintro rfl
    have : Region.rects [] (flags &&& 2 == 2) (flags &&& 1 == 1) = [] := by
      cases (flags &&& 1 == 1) <;> rfl
    rw [this] at hs
    rw [hs.2]

theorem popRect_some (r : Region) (hwf : r.WF) (flags : Nat) (r' : Region) (rc : Rect)
    (h : r.popRect flags = (r', some rc)) :
    r'.WF ∧
    (r.rects (flags &&& 2 == 2) (flags &&& 1 == 1)).head? = some rc ∧
    r'.rects (flags &&& 2 == 2) (flags &&& 1 == 1)
      = (r.rects (flags &&& 2 == 2) (flags &&& 1 == 1)).tail ∧
    (rc.x1 < rc.x2 ∧ rc.y1 < rc.y2) ∧
    (∀ x y, rc.den x y → r.den x y) ∧
    (∀ x y, r'.den x y ↔ (r.den x y ∧ ¬ rc.den x y)) := popRect_den r hwf flags r' rc h

example : (Region.popRect [⟨0, 2, [⟨0, 3, ()⟩, ⟨4, 5, ()⟩]⟩, ⟨2, 4, [⟨1, 2, ()⟩]⟩] 2).2
    = some ⟨4, 0, 5, 2⟩ := by decide

/-! ## T1: the regenerated C leaf functions are the model's functions

`VncModel.Gen.Leaf.*` is translated from /repo's current C source by `tools/c2lean.py` on every run
(docs/T1.md); these are the proof obligations that stop compiling when `sraClipRect`,
`sraClipRect2` or the guard of `sraRgnCreateRect` change.  Together with `clipRect_is_intersection`,
`clipRect2_spec`, `createRect_den` they make those three statements theorems about the C text. -/
namespace T1

/-- `sraClipRect` as compiled now = `Rgn.clipRect` -/
theorem code_clipRect_eq_model : VncModel.Gen.Leaf.sraClipRect = clipRect :=
  VncModel.Leaf.sraClipRect_eq

/-- `sraClipRect2` as compiled now = `Rgn.clipRect2` -/
theorem code_clipRect2_eq_model : VncModel.Gen.Leaf.sraClipRect2 = clipRect2 :=
  VncModel.Leaf.sraClipRect2_eq

/-- `sraRgnCreateRect` as compiled now: returns the empty region exactly when the model does, and
otherwise builds the one-rectangle region from the unmodified coordinates = `Region.rect` -/
theorem code_createRect_eq_model (x1 y1 x2 y2 : Int) :
    (match VncModel.Gen.Leaf.sraRgnCreateRect_guard x1 y1 x2 y2 with
     | none => ([] : Region)
     | some (a, b, c, d) => [⟨b, d, [⟨a, c, ()⟩]⟩]) = Region.rect x1 y1 x2 y2 :=
  VncModel.Leaf.sraRgnCreateRect_guard_eq x1 y1 x2 y2

/-- hence: the C `sraClipRect` is rectangle intersection (statement about the regenerated code) -/
theorem code_clipRect_is_intersection (x y w h cx cy cw ch : Int) :
    let r := VncModel.Gen.Leaf.sraClipRect x y w h cx cy cw ch
    (∀ px py, (r.1 ≤ px ∧ px < r.1 + r.2.2.1 ∧ r.2.1 ≤ py ∧ py < r.2.1 + r.2.2.2.1) ↔
      ((x ≤ px ∧ px < x + w ∧ y ≤ py ∧ py < y + h) ∧
       (cx ≤ px ∧ px < cx + cw ∧ cy ≤ py ∧ py < cy + ch))) ∧
    (r.2.2.2.2 = true ↔ ∃ px py, (x ≤ px ∧ px < x + w ∧ y ≤ py ∧ py < y + h) ∧
       (cx ≤ px ∧ px < cx + cw ∧ cy ≤ py ∧ py < cy + ch)) := by
  rw [code_clipRect_eq_model]
  exact clipRect_is_intersection x y w h cx cy cw ch

end T1

end VncModel.Props.C11
