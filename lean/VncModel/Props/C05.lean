import VncModel.Auth.Complete
import VncModel.Des.Lemmas
import VncModel.Des.Inverse
/-!
# C05 — Password-protected screens admit exactly the clients that prove the password

Property theorems only.  Helper lemmas: `VncModel/Auth/{Lemmas,Process,Complete}.lean`,
`VncModel/Des/Lemmas.lean`.

**What is modelled** (`VncModel/Auth/Model.lean`): a whole server *process* — a list of screens
(password list with `authPasswdFirstViewOnly` / password file / no password), any number of
connections (inbound or reverse), the process-global list of registered security handlers of auth.c
with the application registering/unregistering handlers at any time, the TightVNC file-transfer
extension's security type 16 (its tunnelling/authentication capability negotiation and its own
challenge/response inside one call), application handlers as parameters (`Env.app`, assumed not to
admit by themselves: `AppOk`), the source of challenges — and the handshake state machine PROTOCOL_VERSION → SECURITY_TYPE → AUTHENTICATION →
INITIALISATION(_SHARED) → NORMAL of rfbserver.c/auth.c for every protocol version (3.3 path, 3.7,
3.8, the 3.889 quirk), with everything the server writes, read time-outs and failing writes.
A trace is any list of events `connect / recv bytes / proc (one rfbProcessClientMessage) / peerClose /
setRand / register h / unregister h`, so every interleaving of any number of connections, every byte string a client can send in
any order (chosen security types 0..255 are just bytes) and every message order is a trace.
`Env` abstracts `rfbEncryptBytes`, the password-file decoder and the `sscanf` of the version
message: **the theorems hold for every such function**; the driver instantiates them with the
executable DES of `VncModel/Des/Des.lean`, which is compared with the compiled crypto back-end on
every run.

The model is of the code **after** `fixes/C05-global-security-handlers.diff`,
`fixes/C05-weak-des-key.diff` (both applied to /repo), `fixes/C05-security-type-list-no-global-swap.diff`
and `fixes/C05-unregister-single-handler.diff` (round 2: connections no longer touch the shared list;
unregister removes one node) (`fixed = true`, `Des.rfbEncryptBytes`).  For the code before the
fixes the property is false; that is documented formally by `auth_bypass_witness_unfixed`,
`auth_sound_fails_unfixed` (global handler list) and `weak_key_echo_unfixed` (DES back-end), whose
witnesses are replayed on the real code from corpus/C05/.

**Theorems**
* `auth_sound` — in every reachable state of every trace, a non-reverse connection to a password
  screen that is in INITIALISATION/NORMAL, or to which SecurityResult-OK or ServerInit was ever
  written, has sent 16 bytes in state AUTHENTICATION that pass the screen's password check against
  the challenge that was written to *this* connection, and its `viewOnly` flag is the checker's
  verdict.  `passwordCheck_list_iff` / `passwordCheck_file_iff` spell the check out:
  response = `enc pw challenge` for a configured `pw`; view-only iff the first matching index is
  `≥ authPasswdFirstViewOnly`; the file form never yields view-only.
* `inbound_never_exempt`, `auth_sound_inbound` — the exemption flag `cl->reverseConnection` is set
  exactly on client records created by a SUCCESSFUL rfbReverseConnection, whatever reverse
  connections were attempted (failed ones, `Ev.reverseFailed`, have no effect at all); hence
  `auth_sound` for every inbound client, stated with the history (`origin`) instead of the flag.
* `offered_only_registered`, `unregistered_type_refused` (with `handlers_follow_history` in
  Auth/Process.lean) — the registered-handler list holds exactly the handlers whose last
  (un)registration in the history is a registration, without duplicates, whatever the order of
  registering, re-registering and unregistering (head/middle/tail); so a type that is not currently
  registered is never in an offered list and choosing it closes the connection.
* `step_sound` — one call of rfbProcessClientMessage with ANY registered handlers (TightVNC type 16,
  application handlers satisfying `AppOk`) admits a connection that has to authenticate only with
  the proof: no path through a registered security type reaches INITIALISATION without it.
* `response_is_own_input` — the response the check is applied to is 16 bytes of the connection's own
  pending input (offset 0 in AUTHENTICATION, offset 5 inside the TightVNC negotiation).
* `auth_complete_tight` — the honest TightVNC client (type 16, auth type VNC, correct response in
  one write) is admitted and gets ServerInit + interaction capabilities, under any interleaving.
* `reach_authentication_38`, `reach_authentication_33` — a client that sends a 3.7+/3.3 version
  message (and chooses VNC authentication) gets its challenge, whatever other connections do in
  between (this is the half that fails before the fix when another connection changes the global list).
* `auth_complete` — from AUTHENTICATION the correct response yields SecurityResult OK, then the
  ClientInit byte yields ServerInit and NORMAL, with the right view-only flag, whatever other
  connections do in between.
* `no_type_skips_auth` — in state SECURITY_TYPE every chosen type 0..255 either is VNC
  authentication (challenge sent, state AUTHENTICATION) or closes the connection.
* `des_decrypt_encrypt`, `password_file_roundtrip`, `file_form_exact` — for the concrete DES of
  `VncModel/Des/Des.lean`: decryption inverts encryption (initial/final permutation inverse to each
  other, Feistel rounds undone by the reversed key schedule); hence what rfbEncryptAndStorePasswd
  writes, rfbDecryptPasswdFromFile reads back, and a screen whose password file was written for `pw`
  accepts exactly the response `rfbEncryptBytes pw challenge` (never view-only).
* DES (cheap facts; the DES model itself is validated differentially): `vncKey_prefix`,
  `rfbEncryptBytes_prefix`, `refused_keys_count`, `refused_keys_halves_period4`,
  `empty_password_key_refused`, `weak_key_echo_unfixed`.

Nothing is `_partial`.  Assumptions of the model are listed in docs/C05.md (no
application-registered security handlers; single-threaded; NORMAL-state messages not modelled).
-/
namespace VncModel.Props.C05
open VncModel.Auth VncModel.Des

/-- the connection has been told that authentication succeeded / has been given the ServerInit -/
def Admitted (c : Conn) : Prop :=
  c.st = .init ∨ c.st = .initShared ∨ c.st = .normal ∨
  Msg.secResult true ∈ c.sent ∨ Msg.serverInit ∈ c.sent

/-- **Soundness.** For every environment (encryption function, password-file decoder, version
parser), every configuration of screens and every trace of events from the initial process state:
a non-reverse connection to a password screen is admitted only if the 16 bytes it sent in state
AUTHENTICATION pass the password check of *its* screen against the challenge written to *it*; its
view-only flag is the verdict of that check. -/
theorem auth_sound (env : Env) (happ : AppOk env) (screens : List Screen) (evs : List Ev) (c : Conn)
    (scr : Screen) (hc : c ∈ (run true env screens {} evs).conns) (hs : screens[c.screen]? = some scr)
    (hpw : scr.pw ≠ .none) (hrev : c.reverse = false) (hadm : Admitted c) :
    ∃ resp vo, c.resp = some resp ∧ Msg.challenge c.challenge ∈ c.sent ∧
      passwordCheck env scr.pw c.challenge resp = some vo ∧ c.viewOnly = vo := by
  have hinv := run_inv env happ screens evs {} (inv_initial env screens) c hc scr hs ⟨hpw, hrev⟩
  rcases hinv with ⟨hp, _⟩ | ⟨⟨hc1, hc2⟩, _, hst, _⟩
  · exact hp
  · exfalso
    rcases hadm with h | h | h | h | h
    · rcases hst with h' | h' | h' <;> rw [h'] at h <;> cases h
    · rcases hst with h' | h' | h' <;> rw [h'] at h <;> cases h
    · rcases hst with h' | h' | h' <;> rw [h'] at h <;> cases h
    · exact hc1 h
    · exact hc2 h

/-- **An inbound client is never exempt from authentication**, whatever the history of
reverse-connection attempts (successful ones, failed ones, on any screen), of other connections and
of handler registrations: in every reachable state the flag the authentication code reads
(`cl->reverseConnection`) is set exactly on the client records created by a successful
rfbReverseConnection.  (Holds for the original code as well: `fixed` is arbitrary.) -/
theorem inbound_never_exempt (fixed : Bool) (env : Env) (screens : List Screen) (evs : List Ev) (c : Conn)
    (hc : c ∈ (run fixed env screens {} evs).conns) :
    (c.origin = .inbound → c.reverse = false) ∧ (c.reverse = true ↔ c.origin = .reverse) := by
  have h : ExemptOk c := run_exempt fixed env screens evs {} (by intro c hc; simp at hc) c hc
  refine ⟨fun hi => ?_, h⟩
  cases hr : c.reverse with
  | false => rfl
  | true => have := h.mp hr; rw [hi] at this; cases this

/-- **Soundness in terms of the history**: `auth_sound` for every client record that was created by an
inbound connection — no hypothesis about the flag. -/
theorem auth_sound_inbound (env : Env) (happ : AppOk env) (screens : List Screen) (evs : List Ev) (c : Conn)
    (scr : Screen) (hc : c ∈ (run true env screens {} evs).conns) (hs : screens[c.screen]? = some scr)
    (hpw : scr.pw ≠ .none) (hin : c.origin = .inbound) (hadm : Admitted c) :
    ∃ resp vo, c.resp = some resp ∧ Msg.challenge c.challenge ∈ c.sent ∧
      passwordCheck env scr.pw c.challenge resp = some vo ∧ c.viewOnly = vo :=
  auth_sound env happ screens evs c scr hc hs hpw
    ((inbound_never_exempt true env screens evs c hc).1 hin) hadm

/-- what the list checker accepts: the response is the encryption of the challenge under a
configured password; the verdict is "view-only" iff the *first* such password sits at an index
`≥ authPasswdFirstViewOnly` -/
theorem passwordCheck_list_iff (env : Env) (pws : List (List UInt8)) (fvo : Int)
    (chal resp : List UInt8) (vo : Bool) :
    passwordCheck env (.list pws fvo) chal resp = some vo ↔
      ∃ i, ∃ h : i < pws.length, env.enc pws[i] chal = resp ∧
        (∀ j, ∀ hj : j < pws.length, j < i → env.enc pws[j] chal ≠ resp) ∧
        vo = decide (fvo ≤ (i : Int)) := by
  simp only [passwordCheck]
  rw [checkList_some_iff]
  simp

/-- what the file checker accepts: the file decodes to a password whose encryption of the challenge
is the response; never view-only -/
theorem passwordCheck_file_iff (env : Env) (content : Option (List UInt8)) (chal resp : List UInt8)
    (vo : Bool) :
    passwordCheck env (.file content) chal resp = some vo ↔
      ∃ bytes pw, content = some bytes ∧ env.decFile bytes = some pw ∧ env.enc pw chal = resp ∧
        vo = false := by
  simp only [passwordCheck, checkFile]
  cases content with
  | none => simp
  | some bytes =>
    cases hd : env.decFile bytes with
    | none => simp [hd]
    | some pw =>
      by_cases he : env.enc pw chal = resp
      · simp [hd, he, eq_comm]
      · simp [hd, he]

/-- a password-less screen's checker accepts nothing (it is never asked) -/
theorem passwordCheck_none (env : Env) (chal resp : List UInt8) :
    passwordCheck env .none chal resp = none := rfl

/-- **The response is the connection's own input**: one call of rfbProcessClientMessage changes the
recorded response only to 16 bytes of this connection's own pending input (offset 0 in state
AUTHENTICATION; offset 5 — after the type byte and the 32-bit auth type — inside the TightVNC
negotiation). -/
theorem response_is_own_input (fixed : Bool) (env : Env) (happ : AppOk env) (scr : Screen)
    (hs : List Handler) (legacy : List Nat) (rand : List UInt8) (c : Conn) :
    (procConn fixed env scr hs legacy rand c).1.resp = c.resp ∨
    (c.isOpen = true ∧ ∃ k, (procConn fixed env scr hs legacy rand c).1.resp =
      some ((c.inbuf.drop k).take Gen.C05.CHALLENGESIZE)) :=
  procConn_resp fixed env happ scr hs legacy rand c

/-- **One step, any registered handlers**: whatever security handlers are registered (the TightVNC
extension's type 16, application handlers satisfying `AppOk`), whatever the process-global state and
the challenge source are: one call of rfbProcessClientMessage on a connection that has to
authenticate and satisfies the invariant (in particular: one that has not been admitted) leaves it
admitted only with the proof.  This is the step lemma behind `auth_sound`, stated here because it
is the precise sense of "no path through a registered security type reaches INITIALISATION
without the DES proof". -/
theorem step_sound (env : Env) (happ : AppOk env) (scr : Screen) (hs : List Handler)
    (legacy : List Nat) (rand : List UInt8) (c : Conn) (hpw : scr.pw ≠ .none) (hrev : c.reverse = false)
    (hclean : Msg.secResult true ∉ c.sent ∧ Msg.serverInit ∉ c.sent) (hv : c.viewOnly = false)
    (hst : c.st = .ver ∨ c.st = .sec)
    (hadm : Admitted (procConn true env scr hs legacy rand c).1) :
    ∃ resp vo, (procConn true env scr hs legacy rand c).1.resp = some resp ∧
      Msg.challenge (procConn true env scr hs legacy rand c).1.challenge ∈
        (procConn true env scr hs legacy rand c).1.sent ∧
      passwordCheck env scr.pw (procConn true env scr hs legacy rand c).1.challenge resp = some vo ∧
      (procConn true env scr hs legacy rand c).1.viewOnly = vo := by
  have hpre : Pre c := ⟨hclean, hv, by rcases hst with h | h <;> simp [h], by
    rcases hst with h | h <;> simp [h]⟩
  have hinv := procConn_inv env happ scr hs legacy rand ⟨hpw, hrev⟩ (Or.inr hpre)
  rcases hinv with ⟨hp, _⟩ | ⟨⟨hc1, hc2⟩, _, hst', _⟩
  · exact hp
  · exfalso
    rcases hadm with h | h | h | h | h
    · rcases hst' with h' | h' | h' <;> rw [h'] at h <;> cases h
    · rcases hst' with h' | h' | h' <;> rw [h'] at h <;> cases h
    · rcases hst' with h' | h' | h' <;> rw [h'] at h <;> cases h
    · exact hc1 h
    · exact hc2 h

/-- **No security type skips the proof**: on a connection that has to authenticate, in state
SECURITY_TYPE: the byte 2 sends the challenge; any byte for which no handler is registered closes the
connection with nothing written (a registered type runs its handler: `step_sound`). -/
theorem no_type_skips_auth (env : Env) (scr : Screen) (hs : List Handler) (legacy : List Nat)
    (rand : List UInt8) (c : Conn)
    (t : UInt8) (rest : List UInt8) (hn : NeedsAuth scr c) (ho : c.isOpen = true)
    (hst : c.st = .sec) (hbuf : c.inbuf = t :: rest)
    (hnone : hs.find? (fun h => h.type == t.toNat) = none) :
    let c' := (procConn true env scr hs legacy rand c).1
    (t = 2 ∧ (c'.st = .auth ∨ c'.isOpen = false) ∧ c'.st ≠ .init ∧ c'.st ≠ .normal ∧
        (c'.sent = c.sent ∨ c'.sent = .challenge rand :: c.sent)) ∨
    (t ≠ 2 ∧ c'.isOpen = false ∧ c'.st = .sec ∧ c'.sent = c.sent) := by
  have h22 : secVncAuth = 2 := by decide
  have hb : ∀ d : Conn, d.reverse = c.reverse → builtinType scr d = secVncAuth :=
    fun d hd => builtinType_needsAuth ⟨hn.1, by rw [hd]; exact hn.2⟩
  have h1 : ¬ (!c.isOpen) = true := by simp [ho]
  have h3 : ¬ c.inbuf.length < need c.st := by rw [hst, need_sec, hbuf]; simp
  simp only [procConn, if_neg h1, hst, dispatch, need_sec, hbuf]
  by_cases ht : t = 2
  · left
    subst ht
    have h22' : (2 : UInt8).toNat = secVncAuth := by decide
    by_cases hp : c.peerClosed = true
    · simp [processSecurityType, hb, h22', runHandler, secVncAuth_ne_secNone, sendChallenge, hp, close]
    · simp [processSecurityType, hb, h22', runHandler, secVncAuth_ne_secNone, sendChallenge, hp, wr]
  · right
    have hne : t.toNat ≠ secVncAuth := by
      rw [h22]
      intro h
      apply ht
      exact UInt8.toNat_inj.mp (by simpa using h)
    simp [processSecurityType, hb, hne, hnone, close, ht]

/-- **The offered types are the built-in one and the currently registered ones**: after any history of
events — handlers registered, registered again, unregistered from the head, middle or tail of the
list, in any order, connections in between — every security type in the list sent to a new 3.7+
client is its built-in type or the type of a handler whose LAST (un)registration in the history is a
registration (`regAfter false h evs`).  A type that was unregistered and not registered since is
never offered. -/
theorem offered_only_registered (env : Env) (screens : List Screen) (evs : List Ev) (t x : Nat)
    (hx : x ∈ offered true (run true env screens {} evs).handlers (run true env screens {} evs).legacy t) :
    x = t ∨ ∃ h : Handler, h.type = x ∧ regAfter false h evs = true := by
  have hist := (handlers_follow_history true env screens evs {} List.nodup_nil).2
  simp only [offered, if_true] at hx
  have hx' := List.mem_of_mem_take hx
  rcases List.mem_cons.mp hx' with h | h
  · exact Or.inl h
  · obtain ⟨hd, hmem, hty⟩ := List.mem_map.mp h
    exact Or.inr ⟨hd, hty, by simpa using (hist hd).mp hmem⟩

/-- … and never accepted: a client in state SECURITY_TYPE that chooses a type which is neither its
built-in type nor the type of a handler registered at that moment (per the history) is closed with
nothing written and stays in SECURITY_TYPE — on any screen, password or not. -/
theorem unregistered_type_refused (env : Env) (screens : List Screen) (evs : List Ev) (scr : Screen)
    (c : Conn) (t : UInt8) (rest : List UInt8) (ho : c.isOpen = true) (hst : c.st = .sec)
    (hbuf : c.inbuf = t :: rest) (hbi : t.toNat ≠ builtinType scr c)
    (hnone : ∀ h : Handler, h.type = t.toNat → regAfter false h evs = false) :
    let s := run true env screens {} evs
    let c' := (procConn true env scr s.handlers s.legacy s.rand c).1
    c'.isOpen = false ∧ c'.st = .sec ∧ c'.sent = c.sent := by
  have hist := (handlers_follow_history true env screens evs {} List.nodup_nil).2
  have hfind : (run true env screens {} evs).handlers.find? (fun h => h.type == t.toNat) = none := by
    rw [List.find?_eq_none]
    intro h hm hty
    have h1 : regAfter false h evs = true := by simpa using (hist h).mp hm
    have h2 := hnone h (by simpa using hty)
    rw [h1] at h2; cases h2
  have h1 : ¬ (!c.isOpen) = true := by simp [ho]
  have h3 : ¬ c.inbuf.length < need c.st := by rw [hst, need_sec, hbuf]; simp
  have hb : ∀ d : Conn, d.reverse = c.reverse → builtinType scr d = builtinType scr c := by
    intro d hd; simp [builtinType, hd]
  simp only [procConn, if_neg h1, hst, dispatch, need_sec, hbuf]
  simp [processSecurityType, hb, hbi, hfind, close]

/-- **Completeness, first half (3.7 and later)**: a new inbound connection `cid` to a password
screen that sends a version message parsed as 3.`minor` with `minor ≥ 7`, then the byte 2, receives
a (non-empty) security-type list and then its challenge and is in state AUTHENTICATION —
whatever events of other connections (`o1 o2 o3`, e.g. connections to password-less screens or
reverse connections that rewrite the process-global handler list) are interleaved. -/
theorem reach_authentication_38 (env : Env) (screens : List Screen) (s : Proc) (cid sid : Nat)
    (scr : Screen) (pv : List UInt8) (minor : Int) (o1 o2 o3 : List Ev)
    (hfresh : s.conns.any (fun c => c.id == cid) = false) (hscr : screens[sid]? = some scr)
    (hpw : scr.pw ≠ .none) (hlen : pv.length = 12) (hparse : env.parseVer pv = some (3, minor))
    (hm : ¬ minor < 7)
    (ho1 : ∀ e ∈ o1, e.foreign cid = true) (ho2 : ∀ e ∈ o2, e.foreign cid = true)
    (ho3 : ∀ e ∈ o3, e.foreign cid = true) :
    ∃ c, getConn (run true env screens s
            ([.connect cid sid false] ++ o1 ++ [.recv cid pv, .proc cid] ++ o2 ++
             [.recv cid [2], .proc cid] ++ o3)) cid = some c ∧
      c.st = .auth ∧ c.isOpen = true ∧ c.peerClosed = false ∧ c.inbuf = [] ∧ c.viewOnly = false ∧
      c.screen = sid ∧ c.reverse = false ∧
      ∃ l, l ≠ [] ∧ c.sent = [.challenge c.challenge, .secTypes l, .version] := by
  simp only [run_append, run_cons, run_nil]
  -- connect
  have e0 : getConn (step true env screens s (.connect cid sid false)) cid =
      some { id := cid, screen := sid, reverse := false, sent := [.version] } := by
    simp [step, hfresh, hscr, getConn]
  -- events of others
  have f1 := (getConn_run_foreign true env screens o1 _ cid ho1).trans e0
  -- version message
  have e2 := getConn_recv_proc true env screens _ cid pv _ _ scr f1 rfl hscr
    (procConn_version_list env scr _ _ _ _ pv minor ⟨hpw, rfl⟩ rfl rfl rfl
      (by simp) hlen hparse hm)
  have f2 := (getConn_run_foreign true env screens o2 _ cid ho2).trans e2
  -- security type 2
  have e4 := getConn_recv_proc true env screens _ cid [2] _ _ scr f2 rfl hscr
    (procConn_choose_vncAuth env scr _ _ _ _ ⟨hpw, rfl⟩ rfl rfl rfl (by simp))
  have f3 := (getConn_run_foreign true env screens o3 _ cid ho3).trans e4
  exact ⟨_, f3, rfl, rfl, rfl, rfl, rfl, rfl, rfl, _, offered_ne_nil _ _ _, rfl⟩

/-- **Completeness, first half (3.3 path)**: version message with `minor < 7` ⇒ type word 2 and the
challenge, state AUTHENTICATION, whatever other connections do. -/
theorem reach_authentication_33 (env : Env) (screens : List Screen) (s : Proc) (cid sid : Nat)
    (scr : Screen) (pv : List UInt8) (minor : Int) (o1 o2 : List Ev)
    (hfresh : s.conns.any (fun c => c.id == cid) = false) (hscr : screens[sid]? = some scr)
    (hpw : scr.pw ≠ .none) (hlen : pv.length = 12) (hparse : env.parseVer pv = some (3, minor))
    (hm : minor < 7)
    (ho1 : ∀ e ∈ o1, e.foreign cid = true) (ho2 : ∀ e ∈ o2, e.foreign cid = true) :
    ∃ c, getConn (run true env screens s
            ([.connect cid sid false] ++ o1 ++ [.recv cid pv, .proc cid] ++ o2)) cid = some c ∧
      c.st = .auth ∧ c.isOpen = true ∧ c.peerClosed = false ∧ c.inbuf = [] ∧ c.viewOnly = false ∧
      c.screen = sid ∧ c.reverse = false ∧
      c.sent = [.challenge c.challenge, .secType33 2, .version] := by
  simp only [run_append, run_cons, run_nil]
  have e0 : getConn (step true env screens s (.connect cid sid false)) cid =
      some { id := cid, screen := sid, reverse := false, sent := [.version] } := by
    simp [step, hfresh, hscr, getConn]
  have f1 := (getConn_run_foreign true env screens o1 _ cid ho1).trans e0
  have e2 := getConn_recv_proc true env screens _ cid pv _ _ scr f1 rfl hscr
    (procConn_version_33 true env scr _ _ _ _ pv minor ⟨hpw, rfl⟩ rfl rfl rfl
      (by simp) hlen hparse hm)
  have f2 := (getConn_run_foreign true env screens o2 _ cid ho2).trans e2
  exact ⟨_, f2, rfl, rfl, rfl, rfl, rfl, rfl, rfl, rfl⟩

/-- **Completeness, second half**: a connection in state AUTHENTICATION (as left by
`reach_authentication_*`) that sends 16 bytes passing its screen's password check is sent
SecurityResult OK; after its ClientInit byte it is sent ServerInit and is in state NORMAL, with the
view-only flag the checker returned — whatever other connections do in between. -/
theorem auth_complete (env : Env) (screens : List Screen) (s : Proc) (cid : Nat) (c : Conn)
    (scr : Screen) (resp : List UInt8) (vo : Bool) (shared : UInt8) (o1 o2 : List Ev)
    (hg : getConn s cid = some c) (hscr : screens[c.screen]? = some scr)
    (ho : c.isOpen = true) (hp : c.peerClosed = false) (hst : c.st = .auth) (hbuf : c.inbuf = [])
    (hv : c.viewOnly = false) (hlen : resp.length = 16)
    (hchk : passwordCheck env scr.pw c.challenge resp = some vo)
    (ho1 : ∀ e ∈ o1, e.foreign cid = true) (ho2 : ∀ e ∈ o2, e.foreign cid = true) :
    ∃ c', getConn (run true env screens s
            ([.recv cid resp, .proc cid] ++ o1 ++ [.recv cid [shared], .proc cid] ++ o2)) cid = some c' ∧
      c'.st = .normal ∧ c'.isOpen = true ∧ c'.viewOnly = vo ∧
      c'.sent = (if c.tight then .tightInteractionCaps :: .serverInit :: .secResult true :: c.sent
                 else .serverInit :: .secResult true :: c.sent) := by
  simp only [run_append, run_cons, run_nil]
  have e2 := getConn_recv_proc true env screens s cid resp c _ scr hg hp hscr
    (procConn_auth_ok env scr _ _ _ _ resp vo ho hp hst (by simp [hbuf]) hlen hv hchk)
  have f1 := (getConn_run_foreign true env screens o1 _ cid ho1).trans e2
  have e4 := getConn_recv_proc true env screens _ cid [shared] _ _ scr f1 hp hscr
    (procConn_init true env scr _ _ _ _ shared ho hp rfl (by simp))
  have f2 := (getConn_run_foreign true env screens o2 _ cid ho2).trans e4
  exact ⟨_, f2, rfl, ho, rfl, rfl⟩

/-- **Completeness through the TightVNC security type**: a connection in state SECURITY_TYPE of a
password screen, while the extension's handler is the registered handler of type 16, that sends in
one go the type byte 16, the auth type "VNC" and the 16 bytes that pass the check against the
challenge the server is about to send, is taken to INITIALISATION in that one call (tunnelling caps,
auth caps, challenge, SecurityResult OK) and after its ClientInit byte gets ServerInit followed by the
extension's interaction capabilities, state NORMAL — whatever other connections and the application
do afterwards. -/
theorem auth_complete_tight (env : Env) (screens : List Screen) (s : Proc) (cid : Nat) (c : Conn)
    (scr : Screen) (resp : List UInt8) (vo : Bool) (shared : UInt8) (o1 o2 : List Ev)
    (hg : getConn s cid = some c) (hscr : screens[c.screen]? = some scr)
    (hpw : scr.pw ≠ .none) (hrev : c.reverse = false)
    (ho : c.isOpen = true) (hp : c.peerClosed = false) (hst : c.st = .sec) (hbuf : c.inbuf = [])
    (hv : c.viewOnly = false) (hlen : resp.length = 16)
    (hreg : s.handlers.find? (fun h => h.type == 16) = some .tight)
    (hchk : passwordCheck env scr.pw s.rand resp = some vo)
    (ho1 : ∀ e ∈ o1, e.foreign cid = true) (ho2 : ∀ e ∈ o2, e.foreign cid = true) :
    ∃ c', getConn (run true env screens s
            ([.recv cid (16 :: 0 :: 0 :: 0 :: 2 :: resp), .proc cid] ++ o1 ++
             [.recv cid [shared], .proc cid] ++ o2)) cid = some c' ∧
      c'.st = .normal ∧ c'.isOpen = true ∧ c'.viewOnly = vo ∧ c'.resp = some resp ∧
      c'.sent = .tightInteractionCaps :: .serverInit :: .secResult true :: .challenge s.rand ::
                .tightAuthCaps 1 :: .tightTunnelCaps :: c.sent := by
  simp only [run_append, run_cons, run_nil]
  have e2 := getConn_recv_proc true env screens s cid (16 :: 0 :: 0 :: 0 :: 2 :: resp) c _ scr hg hp hscr
    (procConn_choose_tight env scr _ _ _ _ resp vo ⟨hpw, hrev⟩ ho hp hst hv (by simp [hbuf]) hlen hreg hchk)
  have f1 := (getConn_run_foreign true env screens o1 _ cid ho1).trans e2
  have e4 := getConn_recv_proc true env screens _ cid [shared] _ _ scr f1 hp hscr
    (procConn_init true env scr _ _ _ _ shared ho hp rfl (by simp))
  have f2 := (getConn_run_foreign true env screens o2 _ cid ho2).trans e4
  exact ⟨_, f2, rfl, ho, rfl, rfl, rfl⟩

/-! ## The code before the fixes: the property is false (documented, replayed from corpus/C05) -/

/-- environment for the witness: any version message is 3.8; encryption is irrelevant -/
def wEnv : Env :=
  { enc := fun _ c => c, decFile := fun _ => none, parseVer := fun _ => some (3, 8), app := fun _ c => appClose c }

/-- screen 0 has a password, screen 1 has none -/
def wScreens : List Screen := [{ pw := .list [[115, 101, 99, 114, 101, 116]] 1 }, { pw := .none }]

/-- X connects to the password screen (is offered VNC authentication), Y connects to the
password-less screen, X chooses security type 1 and sends ClientInit -/
def wTrace : List Ev :=
  [.connect 0 0 false, .recv 0 (List.replicate 12 0), .proc 0,
   .connect 1 1 false, .recv 1 (List.replicate 12 0), .proc 1,
   .recv 0 [1], .proc 0, .recv 0 [1], .proc 0]

/-- **DESIGN §11-c, before the fix**: X is told "authentication succeeded", gets the ServerInit and is
in state NORMAL without ever having been sent a challenge or having sent a response. -/
theorem auth_bypass_witness_unfixed :
    (getConn (run false wEnv wScreens {} wTrace) 0).map (fun c => (c.st, c.isOpen, c.resp, c.sent)) =
      some (.normal, true, none, [.serverInit, .secResult true, .secTypes [2], .version]) := by
  decide

/-- the same trace on the fixed code: X's choice is refused, nothing is written -/
theorem auth_bypass_witness_fixed :
    (getConn (run true wEnv wScreens {} wTrace) 0).map (fun c => (c.st, c.isOpen, c.resp, c.sent)) =
      some (.sec, false, none, [.secTypes [2], .version]) := by
  decide

/-- hence the soundness statement is false for the code before the fix -/
theorem auth_sound_fails_unfixed :
    ¬ (∀ (env : Env) (_ : AppOk env) (screens : List Screen) (evs : List Ev) (c : Conn) (scr : Screen),
        c ∈ (run false env screens {} evs).conns → screens[c.screen]? = some scr →
        scr.pw ≠ .none → c.reverse = false → Admitted c → c.resp ≠ none) := by
  intro h
  have hw := auth_bypass_witness_unfixed
  cases hg : getConn (run false wEnv wScreens {} wTrace) 0 with
  | none => rw [hg] at hw; cases hw
  | some c =>
    rw [hg] at hw
    simp only [Option.map_some, Option.some.injEq, Prod.mk.injEq] at hw
    obtain ⟨h1, _, h3, _⟩ := hw
    have hmem : c ∈ (run false wEnv wScreens {} wTrace).conns := (find_some_mem hg).1
    have hid : c.id = 0 := by simpa using (find_some_mem hg).2
    have hscr : c.screen = 0 := by
      have : ∀ d ∈ (run false wEnv wScreens {} wTrace).conns, d.id = 0 → d.screen = 0 := by decide
      exact this c hmem hid
    have hrev : c.reverse = false := by
      have : ∀ d ∈ (run false wEnv wScreens {} wTrace).conns, d.reverse = false := by decide
      exact this c hmem
    exact h wEnv (appOk_appClose _ _ _) wScreens wTrace c { pw := .list [[115, 101, 99, 114, 101, 116]] 1 } hmem
      (by rw [hscr]; rfl) (by simp) hrev (Or.inr (Or.inr (Or.inl h1))) h3

/-! ## DES: the cheap facts (the DES model itself is validated against the C back-end) -/

/-- only the first eight bytes of a password matter (VNC authentication as defined) -/
theorem vncKey_prefix (pw ext : List UInt8) (h : 8 ≤ pw.length) : vncKey (pw ++ ext) = vncKey pw :=
  Des.vncKey_append pw ext h

theorem rfbEncryptBytes_prefix (pw ext chal : List UInt8) (h : 8 ≤ pw.length) :
    rfbEncryptBytes (pw ++ ext) chal = rfbEncryptBytes pw chal :=
  Des.rfbEncryptBytes_append pw ext chal h

/-- DES decryption undoes DES encryption on every 8-byte block, for every key (model of Des.lean) -/
theorem des_decrypt_encrypt (key block : List UInt8) (h : block.length = 8) :
    decryptBlock key (encryptBlock key block) = block :=
  Des.decryptBlock_encryptBlock key block h

/-- what `rfbEncryptAndStorePasswd` writes for `pw`, `rfbDecryptPasswdFromFile` reads back: the first
eight bytes of `pw` as a C string -/
theorem password_file_roundtrip (fixedKey pw : List UInt8) :
    decryptPasswdFile fixedKey (storePasswd fixedKey pw) = some (cstr (padKey pw)) :=
  Des.decryptPasswdFile_storePasswd fixedKey pw

/-- **the password-file form, exactly**: a screen whose password file was written by
rfbEncryptAndStorePasswd for the C string `pw` accepts the response `resp` to the challenge `chal` iff
`resp` is the VNC encryption of `chal` under `pw`; the session is never view-only. -/
theorem file_form_exact (fixedKey pw chal resp : List UInt8) (vo : Bool) (h : (0 : UInt8) ∉ pw) :
    passwordCheck { enc := Des.rfbEncryptBytes, decFile := decryptPasswdFile fixedKey, parseVer := parseVersion,
                    app := fun _ c => appClose c }
        (.file (some (storePasswd fixedKey pw))) chal resp = some vo ↔
      (resp = rfbEncryptBytes pw chal ∧ vo = false) := by
  rw [passwordCheck_file_iff]
  constructor
  · rintro ⟨bytes, pw', hb, hd, he, hv⟩
    cases hb
    simp only at hd he
    rw [Des.decryptPasswdFile_storePasswd] at hd
    cases hd
    rw [Des.rfbEncryptBytes_cstr_padKey pw chal h] at he
    exact ⟨he.symm, hv⟩
  · rintro ⟨he, hv⟩
    refine ⟨_, _, rfl, Des.decryptPasswdFile_storePasswd fixedKey pw, ?_, hv⟩
    simp only
    rw [Des.rfbEncryptBytes_cstr_padKey pw chal h, he]

/-- libgcrypt refuses 64 keys (4 weak, 12 semi-weak, 48 possibly weak), as T0 found them -/
theorem refused_keys_count : Gen.C05.gcryRefusedKeys.length = 64 := by decide

/-- their key-schedule halves C0, D0 are invariant under rotation by 4, hence they have at most four
different round keys (the reason they are called weak) … -/
theorem refused_keys_halves_period4 :
    ∀ k ∈ Gen.C05.gcryRefusedKeys,
      rotl 4 (keyHalves k).1 = (keyHalves k).1 ∧ rotl 4 (keyHalves k).2 = (keyHalves k).2 :=
  Des.refused_keys_halves_period4

/-- … and the key of the empty password is one of them (a weak key proper: a single round key) -/
theorem empty_password_key_refused :
    gcryRefuses (vncKey []) = true ∧ distinctCount (subkeys (bitsOfBytes (vncKey []))) = 1 :=
  ⟨by decide, Des.empty_password_one_subkey⟩

/-- **DESIGN §11-a, before the fix**: with the libgcrypt back-end refusing the key and
`rfbEncryptBytes` ignoring that, the "encryption" of any challenge under the empty password (or any
password whose key is refused) is the challenge itself — echoing the challenge authenticates. -/
theorem weak_key_echo_unfixed (pw chal : List UInt8) (h : gcryRefuses (vncKey pw) = true) :
    rfbEncryptBytesUnfixed pw chal = chal := by
  simp [rfbEncryptBytesUnfixed, h]

/-! ## Non-vacuity: the hypotheses are satisfiable by non-trivial values -/

/-- a concrete environment with the real DES -/
def exEnv : Env :=
  { enc := Des.rfbEncryptBytes, decFile := Des.decryptPasswdFile Gen.C05.fixedkey, parseVer := parseVersion,
    app := fun _ c => appClose c }

def exScreens : List Screen := [{ pw := .list [[112, 119], [118, 105, 101, 119]] 1 }, { pw := .none }]

/-- `auth_sound`'s hypotheses are met by an admitted connection (so its conclusion is not vacuous):
a 3.8 client authenticates with the second (view-only) password while another client connects to
the password-less screen in between -/
example :
    let ch : List UInt8 := [0, 1, 2, 3, 4, 5, 6, 7, 8, 9, 10, 11, 12, 13, 14, 15]
    let s := run true exEnv exScreens {}
      [.setRand ch, .connect 7 0 false, .recv 7 [82, 70, 66, 32, 48, 48, 51, 46, 48, 48, 56, 10], .proc 7,
       .connect 8 1 false, .recv 8 [82, 70, 66, 32, 48, 48, 51, 46, 48, 48, 55, 10], .proc 8,
       .recv 7 [2], .proc 7, .recv 7 (Des.rfbEncryptBytes [118, 105, 101, 119] ch), .proc 7,
       .recv 7 [0], .proc 7]
    (getConn s 7).map (fun c => (c.st, c.viewOnly, c.reverse, c.sent.length)) = some (.normal, true, false, 5) := by
  decide +kernel

/-- the assumption on application handlers is met by the harness' handler, so `auth_sound` applies to
the environment the driver runs -/
example : AppOk exEnv := appOk_appClose _ _ _

/-- `auth_sound` / `auth_complete_tight` are not vacuous for the TightVNC path: with the extension and
an application handler of type 30 registered, a 3.8 client authenticates through security type 16
with the first password while another client talks to the application handler -/
example :
    let ch : List UInt8 := [9, 8, 7, 6, 5, 4, 3, 2, 1, 0, 15, 14, 13, 12, 11, 10]
    let s := run true exEnv exScreens {}
      [.register .tight, .register (.app 30), .setRand ch,
       .connect 3 0 false, .recv 3 [82, 70, 66, 32, 48, 48, 51, 46, 48, 48, 56, 10], .proc 3,
       .connect 4 0 false, .recv 4 [82, 70, 66, 32, 48, 48, 51, 46, 48, 48, 56, 10, 30], .proc 4, .proc 4,
       .unregister (.app 30),
       .recv 3 (16 :: 0 :: 0 :: 0 :: 2 :: Des.rfbEncryptBytes [112, 119] ch), .proc 3, .recv 3 [1], .proc 3]
    ((getConn s 3).map (fun c => (c.st, c.viewOnly, c.tight, c.sent.length)) = some (.normal, false, true, 8)) ∧
    ((getConn s 4).map (fun c => (c.st, c.isOpen, c.sent)) =
      some (.sec, false, [.appMarker, .secTypes [2, 30, 16], .version])) := by
  decide +kernel

/-- failed and successful reverse connections (on the password-less and on the password screen), then an
inbound viewer of the password screen who chooses security type 1: it is offered VNC authentication
only and is refused; the record made by the successful reverse connection is the only exempt one -/
example :
    let s := run true exEnv exScreens {}
      [.reverseFailed 1, .reverseFailed 0, .connect 5 0 true, .reverseFailed 0,
       .connect 6 0 false, .recv 6 [82, 70, 66, 32, 48, 48, 51, 46, 48, 48, 56, 10, 1, 1], .proc 6, .proc 6, .proc 6,
       .recv 5 [82, 70, 66, 32, 48, 48, 51, 46, 48, 48, 56, 10, 1, 1], .proc 5, .proc 5, .proc 5]
    ((getConn s 6).map (fun c => (c.origin, c.reverse, c.st, c.isOpen, c.sent)) =
      some (.inbound, false, .sec, false, [.secTypes [2], .version])) ∧
    ((getConn s 5).map (fun c => (c.origin, c.reverse, c.st)) = some (.reverse, true, .normal)) := by
  decide

/-- the order of seeded change C19-7: TightVNC registered, an application handler registered after it,
the application handler unregistered, TightVNC unregistered, the application handler registered
again — only the application handler is registered, and a new client is offered [2, 77] -/
example :
    let evs : List Ev := [.register .tight, .register (.app 77), .register (.app 5), .unregister (.app 77),
      .unregister .tight, .register (.app 77), .register (.app 77), .unregister (.app 9)]
    let s := run true exEnv exScreens {} evs
    s.handlers = [.app 77, .app 5] ∧ offered true s.handlers s.legacy 2 = [2, 77, 5] ∧
    regAfter false .tight evs = false ∧ regAfter false (.app 77) evs = true := by
  decide

/-- asking for "no authentication" inside the TightVNC negotiation on a password screen is refused -/
example :
    let c : Conn := { id := 0, screen := 0, reverse := false, st := .sec, inbuf := [16, 0, 0, 0, 1] }
    let c' := (procConn true exEnv { pw := .list [[112]] 1 } [.tight] [] [] c).1
    (c'.isOpen, c'.st, c'.sent) = (false, St.sec, [.tightAuthCaps 1, .tightTunnelCaps]) := by
  decide

/-- the hypotheses of `reach_authentication_38` / `auth_complete` are satisfiable -/
example : exScreens[0]? = some { pw := .list [[112, 119], [118, 105, 101, 119]] 1 } ∧
    parseVersion [82, 70, 66, 32, 48, 48, 51, 46, 48, 48, 56, 10] = some (3, 8) ∧
    (∀ e ∈ [Ev.connect 8 1 false, .proc 8, .setRand []], e.foreign 7 = true) := by
  refine ⟨rfl, by decide, by decide⟩

/-- `no_type_skips_auth` on a concrete state: type 1 on a password screen closes the connection -/
example :
    let c : Conn := { id := 0, screen := 0, reverse := false, st := .sec, inbuf := [1] }
    ((procConn true exEnv { pw := .list [[112]] 1 } [.tight] [1] [] c).1.isOpen,
     (procConn true exEnv { pw := .list [[112]] 1 } [.tight] [1] [] c).1.st) = (false, St.sec) := by
  decide

end VncModel.Props.C05
