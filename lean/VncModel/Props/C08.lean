import VncModel.Client.Guards
/-!
# C08 — No server input can corrupt memory or wedge LibVNCClient  (property theorems)

A theorem cannot speak about C memory; what is modelled and proven is every *guard and index
computation* the anchors name (model: `VncModel/Client/*.lean`, the same model that C07 uses and
that `./check C08` compares with the real library on hostile streams under ASan/UBSan).
The model follows the FIXED code (commits 5d30074 ultrazip-bounds, 0669b47 tight-row-overrun,
9e7946d tight-gradient-width, ca36572 tight-nozlib-length, 519e999 tight-jpeg16-buffer, c577beb
trle-run-buffer, 0bc8fdc zrle-tile-bounds, 543571f cursor-size-overflow).

## Theorems (all for ALL arguments)
* `writes_inside_framebuffer`: `CheckRect` ⇒ every cell written by `FillRectangle`, read/written
  by `CopyRectangleFromRectangle`, and every byte range `memcpy`ed by `CopyRectangle` lies inside
  the `width·height·bytespp` bytes of the framebuffer; `checkRect_int_*`: the guard with C `int`s
  is sound for non-negative arguments (all callers: unsigned wire fields) and NOT for negative ones.
* `rect_too_large_guard`: a pixel rectangle that leaves the framebuffer is rejected before any
  decoder runs (all encodings but UltraZip, whose sub-rectangles go through `CheckRect`), and the
  tiles of the tile loops stay inside the rectangle, so the unchecked direct writes of
  trle.c/zrle.c/tight.c are inside the framebuffer.
* `malloc_framebuffer_no_overflow`, `length_caps`, `corre_subrect_bound`, `buffer_arithmetic`
  (Raw batching, Hextile, TRLE, Tight window/palette/gradient rows), `trle_run_bounded`.
* `ultrazip_walk_in_bounds` (fixed code) and `ultrazip_walk_unfixed_counterexample` (the walk
  before the fix reads beyond the decompressed data — DESIGN §11-j, witness corpus/C08/ultrazip-walk).
* `progress_or_fail`: RRE consumes exactly `n·(bytespp+8)` bytes or fails, every run-length read
  consumes a byte, the Raw loop's fuel is never the reason for stopping; all other modelled loops
  are structural recursions over finite tile lists / counters (Lean's termination checker), and
  `read_buffering_invariant` (C07) gives: fewer bytes than requested ⇒ `ReadFromRFBServer` fails.

## Partial
Memory safety of code outside the modelled guards (zlib/LZO/libjpeg internals, the TLS/SASL/auth
handlers, text chat, extensions) is sampled by the sanitizer run, not proven.  `zrleTile`'s
"consumed ≤ available" is established per sub-encoding by the refinement proofs of C07 for valid
data and by the length checks in the model for hostile data; it is not stated as one theorem.
-/
namespace VncModel.Props.C08
open VncModel.Client
open VncModel.Enc.Spec hiding encRaw encCopyRect encRRE encCoRRE encHextile encZlib encTight encUltra encTRLE encZRLE encZYWRLE encLastRect tightMinToCompress
open VncModel.Gen.C07

/-! ## writes_inside_framebuffer -/

theorem writes_inside_framebuffer (fb : FB) (hwf : fb.WF) :
    (∀ x y w h, checkRect fb x y w h = true → ∀ i ∈ fillIdx fb.w x y w h, i < fb.px.size) ∧
    (∀ sx sy w h dx dy, checkRect fb sx sy w h = true → checkRect fb dx dy w h = true →
      ∀ p ∈ copyPairs fb.w sx sy w h dx dy, p.1 < fb.px.size ∧ p.2 < fb.px.size) ∧
    (∀ x y w h r b, checkRect fb x y w h = true → r < h →
      x * b + (y + r) * (fb.w * b) + w * b ≤ fb.w * fb.h * b) := by
  unfold FB.WF at hwf
  refine ⟨?_, ?_, ?_⟩
  · intro x y w h hc
    simp only [checkRect, Bool.and_eq_true, decide_eq_true_eq] at hc
    rw [hwf]; exact fillIdx_lt hc.1 hc.2
  · intro sx sy w h dx dy hs hd
    simp only [checkRect, Bool.and_eq_true, decide_eq_true_eq] at hs hd
    rw [hwf]; exact copyPairs_lt hs.1 hs.2 hd.1 hd.2
  · intro x y w h r b hc hr
    simp only [checkRect, Bool.and_eq_true, decide_eq_true_eq] at hc
    exact copyRect_row_in_bounds hc.1 hc.2 hr

/-- the model's `FillRectangle` writes exactly the cells of `fillIdx` -/
theorem fillRectangle_writes (cv : Array Pixel) (W x y w h : Nat) (c : Pixel) :
    fillRect cv W x y w h c = (fillIdx W x y w h).foldl (fun a i => a.setIfInBounds i c) cv :=
  fillRect_eq_foldl cv W x y w h c

theorem checkRect_int_sound {W H x y w h : Int} (hx : 0 ≤ x) (hy : 0 ≤ y) (hw : 0 ≤ w) (hh : 0 ≤ h)
    (hc : checkRectI W H x y w h = true) :
    x.toNat + w.toNat ≤ W.toNat ∧ y.toNat + h.toNat ≤ H.toNat :=
  checkRectI_sound hx hy hw hh hc

/-- `CheckRect` alone does not protect against a negative origin: it passes for `x = -5` -/
theorem checkRect_int_negative_unsound : ∃ W H x y w h : Int, checkRectI W H x y w h = true ∧ x < 0 :=
  ⟨10, 10, -5, 0, 3, 3, by decide, by decide⟩

/-! ## rect_too_large_guard -/

/-- the pixel-data encodings (all but UltraZip) are refused when the rectangle leaves the
framebuffer (`rfbclient.c`: "Rect too large") -/
theorem rect_too_large_guard (s : St) (hd : RectHdr) (bs : Bytes)
    (henc : hd.enc = encRaw ∨ hd.enc = encCopyRect ∨ hd.enc = encRRE ∨ hd.enc = encCoRRE ∨ hd.enc = encHextile ∨
      hd.enc = encZlib ∨ hd.enc = encTight ∨ hd.enc = encUltra ∨ hd.enc = encTRLE ∨ hd.enc = encZRLE)
    (hout : hd.x + hd.w > s.fb.w ∨ hd.y + hd.h > s.fb.h) :
    handleRect s hd bs = .no := by
  obtain ⟨x, y, w, h, e⟩ := hd
  simp only at henc hout
  rcases henc with rfl | rfl | rfl | rfl | rfl | rfl | rfl | rfl | rfl | rfl <;>
    simp [handleRect, encRaw, encCopyRect, encRRE, encCoRRE, encHextile, encZlib, encTight, encUltra, encTRLE,
      encZRLE, encXCursor, encRichCursor, encPointerPos, encKeyboardLedState, encNewFBSize, encExtDesktopSize,
      encSupportedMessages, encSupportedEncodings, encServerIdentity, encUltraZip, hout]

/-- … and inside an accepted rectangle every tile of the 16/64 tile loops is inside the framebuffer -/
theorem tiles_inside_framebuffer {T W H rx ry rw rh : Nat} (hT : 0 < T) (hW : rx + rw ≤ W) (hH : ry + rh ≤ H)
    {t : TileRect} (ht : t ∈ tileGrid T ⟨rw, rh⟩) :
    ∀ i ∈ fillIdx W (rx + t.x) (ry + t.y) t.w t.h, i < W * H :=
  tile_cells_in_bounds hT hW hH ht

/-! ## malloc_framebuffer_no_overflow -/

theorem malloc_framebuffer_no_overflow {w h bpp : Nat} (hw : w < 65536) (hh : h < 65536) (hb : bpp ≤ 32) :
    (w * h % 2 ^ 64 * bpp % 2 ^ 64) / 8 = w * h * bpp / 8 ∧ w * h * bpp / 8 < sizeMax :=
  mallocSize_exact hw hh hb

/-! ## length_caps -/

/-- reason, desktop name and cut text: an accepted length is at most the cap (`1<<20`, T0) — the
allocation is `len+1` bytes — for every 32-bit field value, including the "negative" cut-text
lengths of the extended clipboard -/
theorem length_caps :
    (∀ v n, capLen reasonCap v = some n → n ≤ 2 ^ 20) ∧
    (∀ v n, capLen nameCap v = some n → n ≤ 2 ^ 20) ∧
    (∀ v n, cutTextLen v = some n → n ≤ 2 ^ 20) := by
  refine ⟨fun v n h => ?_, fun v n h => ?_, fun v n h => ?_⟩
  · have := (capLen_le h).1; simpa [reasonCap] using this
  · have := (capLen_le h).1; simpa [nameCap] using this
  · have := cutTextLen_le h; simpa [cutTextCap] using this

/-! ## buffer arithmetic -/

theorem corre_subrect_bound {bpp n : Nat} (h : correGuard bpp n = true) : n * (4 + bpp) ≤ rfbBufferSize :=
  correGuard_fits h

theorem buffer_arithmetic :
    (∀ bpl h, min (rfbBufferSize / bpl) h * bpl ≤ rfbBufferSize) ∧
    (∀ bpp w h n, bpp ≤ 4 → w ≤ 16 → h ≤ 16 → n ≤ 255 →
      w * h * bpp ≤ rfbBufferSize ∧ n * (2 + bpp) ≤ rfbBufferSize) ∧
    (∀ bits bpp w k tps, 1 ≤ bits → 1 ≤ bpp → k ≤ 256 → tps ≤ 4 → w * 3 ≤ tightThisRowCells →
      rfbBufferSize * bits / (bits + bpp) / 4 * 4 ≤ rfbBufferSize ∧ k * tps ≤ tightPaletteBytes ∧
      w * 3 * 2 ≤ tightPrevRowBytes) :=
  ⟨raw_batch_fits, fun _ _ _ _ hb hw hh hn => hextile_reads_fit hb hw hh hn,
   fun _ _ _ _ _ h1 h2 h3 h4 h5 => tight_buffers_fit h1 h2 h3 h4 h5⟩

theorem trle_run_bounded (budget acc : Nat) (bs rest : Bytes) (len : Nat)
    (h : trleRunLen budget acc bs = some (len, rest)) :
    rest.length < bs.length ∧ bs.length - rest.length ≤ budget + 1 :=
  trleRunLen_consumes budget acc bs rest len h

/-- the 4-byte loads with which trle.c reads 3-byte CPIXELs stay inside `raw_buffer` (raw tile
`i < w·h ≤ 256`, palette `i < 127`, solid / run `i = 0`); what they pick up beyond the pixel goes to
the unused byte of the framebuffer cell, which every C07 comparison masks -/
theorem trle_cpixel_word_read_in_bounds {i cur : Nat} (hi : i < 256) : 3 * i + 4 ≤ trleRawBuf (.full 3) cur :=
  trle_word_read_in_bounds hi

/-! ## ultrazip_walk_in_bounds -/

theorem ultrazip_walk_in_bounds (bpp len : Nat) (hdr : Nat → Nat × Nat × Bool) (n : Nat)
    (acc : List (Nat × Nat)) (h : uzWalk bpp len hdr n 0 = some acc) : ∀ r ∈ acc, r.1 + r.2 ≤ len :=
  uzWalk_in_bounds bpp len hdr n 0 acc (Nat.zero_le _) h

/-- before the fix: 2 claimed entries over 12 decompressed bytes read at offset 12 -/
theorem ultrazip_walk_unfixed_counterexample :
    ∃ (hdr : Nat → Nat × Nat × Bool) (n len : Nat), ∃ r ∈ uzWalkUnfixed 4 hdr n 0, r.1 + r.2 > len :=
  ⟨fun _ => (0, 0, false), 2, 12, (12, 12), by decide, by decide⟩

/-! ## progress_or_fail -/

theorem progress_or_fail :
    (∀ bpp rx ry n fb fb' bs rest, rreSubs bpp rx ry n fb bs = some (fb', rest) →
      bs.length = n * (bpp + 8) + rest.length) ∧
    (∀ bs rest n, runLenC bs = some (n, rest) → rest.length < bs.length ∧ 1 ≤ n) ∧
    (∀ bpp x w ltr f1 f2 fb y h bs, 1 ≤ ltr → h ≤ f1 → h ≤ f2 →
      rawLoop bpp x w ltr f1 fb y h bs = rawLoop bpp x w ltr f2 fb y h bs) :=
  ⟨fun bpp rx ry n fb fb' bs rest h => rreSubs_consumes bpp rx ry n fb fb' bs rest h,
   fun bs rest n h => runLenC_progress bs rest n h,
   fun bpp x w ltr f1 f2 fb y h bs hl h1 h2 => rawLoop_fuel_irrelevant bpp x w ltr hl f1 f2 fb y h bs h1 h2⟩

/-! ## non-vacuity -/

example : checkRect (FB.blank 8 4) 5 1 3 3 = true ∧ (FB.blank 8 4).WF := by
  refine ⟨by decide, by simp [FB.WF, FB.blank]⟩
example : correGuard 4 38400 = true ∧ correGuard 4 38401 = false := by decide
example : cutTextLen (2 ^ 32 - 5) = some 5 ∧ cutTextLen (2 ^ 20 + 1) = none ∧ cutTextLen (2 ^ 31) = none := by decide
example : uzWalk 4 40 (fun o => if o = 0 then (2, 2, true) else (0, 0, false)) 2 0 =
    some [(0, 12), (12, 16), (28, 12)] := by decide
example : uzWalk 4 39 (fun o => if o = 0 then (2, 2, true) else (0, 0, false)) 2 0 = none := by decide
example : trleRunLen 3 1 [255, 255, 7, 9] = some (518, [9]) := by decide

end VncModel.Props.C08
