import VncModel.Client.Session
/-!
# C08 — No server input can corrupt memory or wedge LibVNCClient  (property theorems)

(under construction: the theorems are added below as they are proved)
-/
namespace VncModel.Props.C08
open VncModel.Client VncModel.Enc.Spec VncModel.Gen.C07

/-- length cap of the cut text, as extracted from the source (`1<<20`) -/
theorem cutTextCap_value : cutTextCap = 2 ^ 20 := by decide

end VncModel.Props.C08
