/-
C19 — File-transfer operations touch the filesystem only when permitted.

WHAT IS MODELLED (VncModel/FileXfer/Model.lean, header has the C ↔ model table): every entry point
of the UltraVNC built-in file transfer of rfbserver.c (rfbProcessFileTransfer with all content types,
rfbSendDirContent, rfbSendFileTransferChunk, rfbSendFileTransferMessage,
rfbProcessFileTransferReadBuffer, rfbFilenameTranslate2UNIX, the rfbFileTransfer case of
rfbProcessClientNormalMessage, rfbCloseClient, rfbClientConnectionGone) and of the TightVNC 1.3
extension (handleMessage gate, ConvertPath, the seven Handle*Request functions), for the code WITH
fixes/C19-ft-fd-leak.diff, fixes/C19-tight-upload-fd-leak.diff,
fixes/C19-tight-path-confinement.diff and fixes/C19-tight-name-size-sign.diff.  The permission callback is a per-call oracle
(`Cfg.cb : Option (Nat → Nat)`, the n-th call returns `f n`); results of libc calls are a script
(`S.env`); the theorems quantify over ALL oracles, scripts, client states and message bytes.
Buffer sizes and protocol numbers are regenerated from /repo on every run (VncModel/Gen/C19.lean).

WHAT THE THEOREMS SAY FOR THE PROPERTY
* `denied_no_effect`, `denied_chunk_no_effect`, `denied_session_no_effect`, `effects_guarded_*`:
  "unless enabled (and the callback agrees) no file-transfer message causes a file or directory to
  be opened, listed, created, written, renamed or deleted, no content or listing is sent, the
  connection is dropped" — for one message of any type/parameters, for every sequence of inputs
  (messages in any order, chunk-sender calls, teardown), and at the granularity of single libc
  calls when the callback changes its answer between calls.
* `effects_on_named_path_only`: when enabled, every libc call names the translated path the client
  named (or `<dir>/<entry>` for a listing).
* `overlong_rejected_not_truncated`, `overlong_no_path_effect`: over-long paths are rejected, the
  translated path is never a truncation and fits its buffer.
* `descriptors_accounted`, `transfer_dies_with_connection`, `dir_handles_released`: over every
  session (UltraVNC and TightVNC clients), each descriptor the file-transfer code opens is recorded
  in the client state or has been closed, after teardown all are closed, and every directory handle
  is closed before its handler returns.
* `tight_name_size_bounded`: the TightVNC name-size field cannot become a negative `short`.
* `refused_upload_leaves_no_name`, `remembered_name_always_accepted`,
  `later_messages_act_on_accepted_paths`: a refused request leaves no usable name in the per-client
  record; whatever follows acts only on paths accepted earlier.
* `tight_gate`, `tight_confined_to_root`: the extension acts only if enabled for the client,
  switched on and the client is not view-only, and every path it hands to libc is below its root.

NOT PROVED (stated in docs/C19.md): that teardown (`cleanup`) calls are made only by
closeClient/reapClient is by construction of the model; lexical confinement assumes a symlink-free
tree below the TightVNC root.
-/
import VncModel.FileXfer.Fds

namespace VncModel.Props.C19
open VncModel.FileXfer VncModel.Gen

/-! ## the numbers the model hard-codes are those of the current headers -/

theorem consts_agree :
    C19.rfbFileTransfer = 7 ∧ C19.sz_rfbFileTransferMsg = 12 ∧
    C19.rfbDirContentRequest = 1 ∧ C19.rfbDirPacket = 2 ∧ C19.rfbFileTransferRequest = 3 ∧
    C19.rfbFileHeader = 4 ∧ C19.rfbFilePacket = 5 ∧ C19.rfbEndOfFile = 6 ∧
    C19.rfbAbortFileTransfer = 7 ∧ C19.rfbFileTransferOffer = 8 ∧ C19.rfbFileAcceptHeader = 9 ∧
    C19.rfbCommand = 10 ∧ C19.rfbCommandReturn = 11 ∧ C19.rfbFileTransferAccess = 14 ∧
    C19.rfbRDirContent = 1 ∧ C19.rfbRDrivesList = 2 ∧ C19.rfbADirectory = 1 ∧ C19.rfbADrivesList = 3 ∧
    C19.rfbADirCreate = 4 ∧ C19.rfbAFileDelete = 7 ∧ C19.rfbAFileRename = 8 ∧
    C19.rfbCDirCreate = 1 ∧ C19.rfbCFileDelete = 4 ∧ C19.rfbCFileRename = 5 ∧
    C19.rfbTRUE = -1 ∧ C19.intMax = 2147483647 ∧
    C19.rfbFileListRequest = 130 ∧ C19.rfbFileDownloadRequest = 131 ∧ C19.rfbFileUploadRequest = 132 ∧
    C19.rfbFileUploadData = 133 ∧ C19.rfbFileDownloadCancel = 134 ∧ C19.rfbFileUploadFailed = 135 ∧
    C19.rfbFileCreateDirRequest = 136 ∧
    C19.sz_rfbFileListRequestMsg = 4 ∧ C19.sz_rfbFileDownloadRequestMsg = 8 ∧
    C19.sz_rfbFileUploadRequestMsg = 8 ∧ C19.sz_rfbFileUploadDataMsg = 6 ∧
    C19.sz_rfbFileDownloadCancelMsg = 4 ∧ C19.sz_rfbFileUploadFailedMsg = 4 ∧
    C19.sz_rfbFileCreateDirRequestMsg = 4 ∧
    C19.filename1Size = C19.MAX_PATH ∧ C19.filename2Size = C19.MAX_PATH ∧ C19.dirPathSize = C19.MAX_PATH ∧
    C19.translateCallSites = 7 ∧ C19.findDataNameOff ≤ C19.findDataFixed := by
  decide

/-! ## (1) not permitted ⇒ no effect, nothing sent, connection dropped -/

/-- **denied_no_effect** (one message).  An UltraVNC file-transfer message — ANY content type, ANY
parameters, ANY following bytes, ANY client state — whose entry test fails (`entryAllowed`: the flag
is off, or the callback's next answer is not TRUE) performs no libc file-system call, sends nothing,
processes no transfer data, leaves the transfer record alone and closes the connection. -/
theorem denied_no_effect (cfg : Cfg) (s : S) (rest : Bytes)
    (hmsg : s.cl.inbuf = 7 :: rest) (hden : entryAllowed cfg s.calls = false) (hq : Quiet s) :
    Quiet (stepMsg cfg s) ∧ (stepMsg cfg s).cl.isOpen = false ∧ (stepMsg cfg s).cl.xf = s.cl.xf := by
  have h7 : isFtType (7 : UInt8).toNat = true := by decide
  have hd := fun s' (h : s'.calls = s.calls) => macroCheck_denied cfg s' (by rw [h]; exact hden)
  have hp := fun ct cp size len s' (h : s'.calls = s.calls) =>
    processFT_denied cfg ct cp size len s' (by rw [h]; exact hden)
  unfold stepMsg
  simp only [emit_cl, hmsg, h7]
  ftsplit [Ev.isNoisy]

/-- non-vacuity: a disabled server (default configuration), a fresh client, a FileTransferRequest -/
example : ∃ (cfg : Cfg) (s : S) (rest : Bytes),
    s.cl.inbuf = 7 :: rest ∧ entryAllowed cfg s.calls = false ∧ Quiet s :=
  ⟨⟨false, none, none, true, []⟩, ⟨{ inbuf := [7, 3, 0, 0, 0, 0, 0, 0, 0, 0, 0, 1, 97] }, 0, [], 0, []⟩, _, rfl, rfl, rfl⟩

/-- **the chunk sender re-checks**: when its test fails it reads nothing and sends nothing (it does
not close the connection; the C comment says so) -/
theorem denied_chunk_no_effect (cfg : Cfg) (s : S) (hden : chunkAllowed cfg s.calls = false) (hq : Quiet s) :
    Quiet (chunkEntry cfg s).2 ∧ (chunkEntry cfg s).2.cl = s.cl := by
  have := chunkCheck_fst cfg (emit .start s)
  unfold chunkEntry chunk
  simp_all [Ev.isNoisy]

/-- **denied_no_effect** (sessions).  Induction over ALL input sequences — client bytes in any
framing and any order of offer/header/packet/abort/command/listing messages, chunk-sender calls,
peer close, teardown: while file transfer cannot be permitted, the whole accumulated trace contains
no libc call, no message to the client and no processed transfer data, and no descriptor is held. -/
theorem denied_session_no_effect (cfg : Cfg) (hn : NeverAllowed cfg) (inputs : List Input) (s : S)
    (h : Idle s) : Idle (runSession cfg s inputs) := by
  induction inputs generalizing s with
  | nil => exact h
  | cons i rest ih => exact ih _ (sessStep_never cfg hn s h i)

example : NeverAllowed ⟨true, some (fun n => if n < 3 then 0 else 2), none, true, []⟩ :=
  Or.inr ⟨_, rfl, fun n => by show (if n < 3 then 0 else 2) ≠ 1; split <;> decide⟩
example : Idle (⟨{}, 0, [], 0, []⟩ : S) := ⟨rfl, rfl, rfl⟩

/-! ## (1') the callback may change its answer between calls: every single effect is guarded -/

/-- **effects_guarded**.  In the trace of any message handler run, every libc call other than a
release of something already open, every message sent and every zlib call on transfer data was made
while the MOST RECENT permission test of that invocation had succeeded (`guardedB`, `lastChk` in
VncModel/FileXfer/Guard.lean) — whatever the callback answers at each of its calls. -/
theorem effects_guarded_message (cfg : Cfg) (s : S) (h : s.evs = []) :
    guardedB (stepMsg cfg s).evs = true :=
  stepMsg_safe cfg s (by simp [Safe, h, guardedB])

theorem effects_guarded_chunk (cfg : Cfg) (s : S) (h : s.evs = []) :
    guardedB (chunkEntry cfg s).2.evs = true :=
  chunkEntry_safe cfg s (by simp [Safe, h, guardedB])

/-- and the same over whole sessions (each invocation starts with `Ev.start`, which resets the
"most recent test") -/
theorem effects_guarded_session (cfg : Cfg) (inputs : List Input) (s : S) (h : Safe s) :
    Safe (runSession cfg s inputs) := by
  induction inputs generalizing s with
  | nil => exact h
  | cons i rest ih => exact ih _ (sessStep_safe cfg s h i)

/-- what "guarded" excludes, on a concrete trace: an `open` right after a failed test -/
example : guardedB [.fs (.open [97] .rd) "#1", .chk false, .q 0, .start] = false := by decide
example : guardedB [.wire (.ft 4 0 0 0 (.raw [])), .chk true, .q 1, .fs (.open [97] .rd) "#1", .chk true, .q 1, .start] = true := by
  decide

/-! ## (2) when permitted: only the translated path the client named -/

/-- the path(s) a message names, per content type: `buffer` is the payload; `translatePure` is the
pure part of rfbFilenameTranslate2UNIX with the size of the destination buffer the C code passes -/
def named (cfg : Cfg) (ct cp : Nat) (buffer : Bytes) (p : Path) : Prop :=
  (ct = 3 ∧ translatePure cfg.home (cstr buffer) C19.filename1Size = some p) ∨
  (ct = 8 ∧ translatePure cfg.home (offerName (cstr buffer)) C19.filename1Size = some p) ∨
  (ct = 10 ∧ (cp = 1 ∨ cp = 4) ∧ translatePure cfg.home (cstr buffer) C19.filename1Size = some p) ∨
  (ct = 10 ∧ cp = 5 ∧ ∃ a b pa pb, splitLast 42 (cstr buffer) = some (a, b) ∧
    translatePure cfg.home a C19.filename1Size = some pa ∧
    translatePure cfg.home b C19.filename2Size = some pb ∧ (p = pa ∨ p = pb)) ∨
  (ct = 1 ∧ cp = 1 ∧ ∃ d, translatePure cfg.home (cstr buffer) C19.dirPathSize = some d ∧
    (p = d ∨ ∃ entry, p = d ++ 47 :: entry))

/-- **effects_on_named_path_only**.  rfbProcessFileTransfer(contentType, contentParam, size, length)
on any client state: every path handed to libc by the handler is a path `named` by the message
whose payload is the next `length` bytes the client sent. -/
theorem effects_on_named_path_only (cfg : Cfg) (ct cp size len : Nat) (s : S)
    (h : PathsFs (named cfg ct cp (s.cl.inbuf.take len)) s) :
    PathsFs (named cfg ct cp (s.cl.inbuf.take len)) (processFT cfg ct cp size len s) := by
  have hb : ∀ b, (readBuffer cfg len (macroCheck cfg s).2).1 = some b → b = s.cl.inbuf.take len := by
    intro b hb
    have := readBuffer_buf cfg len _ b hb
    simpa using this
  have h1 : PathsFs (named cfg ct cp (s.cl.inbuf.take len)) (macroCheck cfg s).2 := by simpa using h
  unfold processFT
  simp only []
  split
  · exact h1
  · split
    · -- rfbDirContentRequest
      split
      · simpa using h1
      · split
        · split
          · simpa using h1
          · rename_i buffer heq
            have hcp : cp = 1 := by assumption
            refine sendDirContent_paths _ cfg len buffer _ ?_ (by simpa using h1)
            intro d hd
            have hbuf := hb buffer heq
            subst hbuf
            exact ⟨Or.inr (Or.inr (Or.inr (Or.inr ⟨rfl, hcp, d, hd, Or.inl rfl⟩))),
              fun name => Or.inr (Or.inr (Or.inr (Or.inr ⟨rfl, hcp, d, hd, Or.inr ⟨name, rfl⟩⟩)))⟩
        · exact h1
    · refine ftRequest_paths _ cfg size len _ ?_ h1
      intro b hbb p hp
      rw [hb b hbb] at hp
      exact Or.inl ⟨rfl, hp⟩
    · exact ftHeader_paths _ cfg size _ h1
    · exact ftPacket_paths _ cfg size len _ h1
    · exact ftEof_paths _ _ h1
    · exact ftAbort_paths _ cfg cp _ h1
    · refine ftOffer_paths _ cfg len _ ?_ h1
      intro b hbb p hp
      rw [hb b hbb] at hp
      exact Or.inr (Or.inl ⟨rfl, hp⟩)
    · refine ftCommand_paths _ cfg cp len _ ?_ ?_ h1
      · intro hcp b hbb p hp
        rw [hb b hbb] at hp
        exact Or.inr (Or.inr (Or.inl ⟨rfl, hcp, hp⟩))
      · intro hcp b hbb x y hxy pa pb hpa hpb
        rw [hb b hbb] at hxy
        exact ⟨Or.inr (Or.inr (Or.inr (Or.inl ⟨rfl, hcp, x, y, pa, pb, hxy, hpa, hpb, Or.inl rfl⟩))),
          Or.inr (Or.inr (Or.inr (Or.inl ⟨rfl, hcp, x, y, pa, pb, hxy, hpa, hpb, Or.inr rfl⟩)))⟩
    · exact h1

/-- messages that name nothing touch no path at all: file header, packet, end of file, abort, and
every content type the server only logs -/
theorem no_name_no_path (cfg : Cfg) (ct cp : Nat) (buffer : Bytes) (p : Path)
    (hct : ct ≠ 3 ∧ ct ≠ 8 ∧ ct ≠ 10 ∧ ct ≠ 1) : ¬ named cfg ct cp buffer p := by
  unfold named
  omega

example : named ⟨true, none, some [47, 104], true, []⟩ 3 0 [97, 92, 98] [47, 104, 47, 97, 47, 98] :=
  Or.inl ⟨rfl, by decide⟩

/-! ## (3) over-long paths are rejected, not truncated -/

/-- **overlong_rejected_not_truncated**, for the buffer sizes of the current source
(`C19.filename1Size` etc. are regenerated from the `char x[MAX_PATH]` declarations):
(a) a name that does not fit (`strlen ≥ size`) is rejected;
(b) with HOME, a relative name with `strlen(name) + strlen(home) + 1 ≥ size` is rejected;
(c) a translated path is the COMPLETE image of the name — "C:" stripped, or `home/name`, or the
    name — with separators converted, never a prefix of it, and it fits the buffer with its NUL. -/
theorem overlong_rejected_not_truncated (home : Option Path) (path : Path) (n : Nat) :
    (n ≤ path.length → translatePure home path n = none) ∧
    (∀ hm, home = some hm → (∀ rest, path ≠ 67 :: 58 :: rest) → n ≤ path.length + hm.length + 1 →
        translatePure home path n = none) ∧
    (∀ r, translatePure home path n = some r →
        r.length + 1 ≤ n ∧
        ((∃ rest, path = 67 :: 58 :: rest ∧ r = bs2s rest) ∨
         (∃ hm, home = some hm ∧ r = bs2s (hm ++ 47 :: path)) ∨
         (home = none ∧ r = bs2s path))) := by
  refine ⟨?_, ?_, ?_⟩
  · intro h
    unfold translatePure
    simp [h]
  · intro hm hh hc hlen
    subst hh
    unfold translatePure
    split
    · rfl
    · split
      · exact absurd rfl (hc _)
      · simp [hlen]
  · intro r hr
    unfold translatePure at hr
    split at hr
    · simp at hr
    · rename_i hlt
      split at hr
      · rename_i rest
        simp only [Option.some.injEq] at hr
        subst hr
        refine ⟨?_, Or.inl ⟨rest, rfl, rfl⟩⟩
        simp only [bs2s_length]
        simp only [List.length_cons] at hlt
        omega
      · split at hr
        · rename_i hm
          split at hr
          · simp at hr
          · rename_i hlt2
            simp only [Option.some.injEq] at hr
            subst hr
            refine ⟨?_, Or.inr (Or.inl ⟨hm, rfl, rfl⟩)⟩
            simp only [bs2s_length, List.length_append, List.length_cons]
            omega
        · simp only [Option.some.injEq] at hr
          subst hr
          refine ⟨?_, Or.inr (Or.inr ⟨rfl, rfl⟩)⟩
          simp only [bs2s_length]
          omega

/- the exact boundary for the current MAX_PATH: 259 bytes are accepted, 260 are not; with a
   22-byte HOME, 236 bytes are accepted and 237 are not -/
set_option maxRecDepth 10000 in
example : (translatePure none (List.replicate (C19.MAX_PATH - 1) 120) C19.filename1Size).isSome = true := by
  decide
set_option maxRecDepth 10000 in
example : translatePure none (List.replicate C19.MAX_PATH 120) C19.filename1Size = none := by decide
set_option maxRecDepth 10000 in
example : translatePure (some (List.replicate 22 104)) (List.replicate (C19.MAX_PATH - 24) 120) C19.filename1Size
    ≠ none := by decide
set_option maxRecDepth 10000 in
example : translatePure (some (List.replicate 22 104)) (List.replicate (C19.MAX_PATH - 23) 120) C19.filename1Size
    = none := by decide

/-- **over-long ⇒ no effect on any path** (in particular not on a truncated one): if the name the
message carries is rejected by the translation, the handler hands NO path to libc -/
theorem overlong_no_path_effect (cfg : Cfg) (ct cp size len : Nat) (s : S)
    (hno : ∀ p, ¬ named cfg ct cp (s.cl.inbuf.take len) p) (h : PathsFs (fun _ => False) s) :
    PathsFs (fun _ => False) (processFT cfg ct cp size len s) := by
  have h' : PathsFs (named cfg ct cp (s.cl.inbuf.take len)) s := by
    intro e r hm p hp
    exact absurd (h e r hm p hp) id
  have := effects_on_named_path_only cfg ct cp size len s h'
  intro e r hm p hp
  exact hno p (this e r hm p hp)

/-- e.g. a FileTransferRequest whose name has MAX_PATH bytes or more names nothing -/
theorem overlong_request_names_nothing (cfg : Cfg) (cp : Nat) (buffer : Bytes)
    (hlong : C19.filename1Size ≤ (cstr buffer).length) (p : Path) : ¬ named cfg 3 cp buffer p := by
  unfold named
  have := (overlong_rejected_not_truncated cfg.home (cstr buffer) C19.filename1Size).1 hlong
  simp [this]

/-! ## (4) a transfer never outlives its connection -/

/-- **descriptors_accounted** (fixed code, UltraVNC transfer AND TightVNC extension).  Started in a
state where every descriptor opened so far is accounted for (`XInv`, e.g. a fresh client, with or
without the extension), at every moment of ANY session — requests and offers in any order and
number, uploads and downloads of the extension, packets, headers, aborts, chunk-sender calls,
permission changes by the callback, peer close, teardown — every descriptor the file-transfer code
ever opened is recorded in the client state (`fileTransfer.fd`, `uploadFD`, `downloadFD`) or has
been closed: no handler forgets or overwrites a descriptor without closing it. -/
theorem descriptors_accounted (cfg : Cfg) (inputs : List Input) (s0 : S) (h0 : XInv s0) :
    ∀ k, Got k (runSession cfg s0 inputs) →
      HeldC k (runSession cfg s0 inputs).cl ∨ Closed k (runSession cfg s0 inputs) :=
  (runSession_xinv cfg inputs s0 h0).1

/-- **transfer_dies_with_connection** (full strength).  After any session followed by the teardown
(peer gone: rfbCloseClient with the extension's close hook, then rfbClientConnectionGone), every
descriptor the file-transfer code ever opened has been closed, and the record is empty. -/
theorem transfer_dies_with_connection (cfg : Cfg) (inputs : List Input) (s0 : S) (h0 : XInv s0) :
    (∀ k, Got k (reapClient (peerGone (runSession cfg s0 inputs))) →
      Closed k (reapClient (peerGone (runSession cfg s0 inputs)))) ∧
    (reapClient (peerGone (runSession cfg s0 inputs))).cl.fds = [] := by
  refine ⟨fun k hk => ?_, ?_⟩
  · have hi := reapClient_xinv _ (peerGone_xinv _ (runSession_xinv cfg inputs s0 h0))
    rcases hi.1 k hk with h1 | h1
    · exact absurd h1 (teardown_not_held _ k)
    · exact h1
  · unfold reapClient peerGone
    have ht : ∀ s : S, (closeClient s).cl.tight = none := closeClient_tight
    simp only [Client.fds]
    split
    · simp [setCl]
    · rename_i hnone
      simp only [emit_cl, ht, hnone]
      rfl

/-- fresh clients satisfy the invariant: without and with the TightVNC extension -/
example : XInv (⟨{}, 0, ["#1", "100"], 0, []⟩ : S) :=
  ⟨fun k hk => by simp [Got] at hk, fun t ht => by cases ht⟩
example : XInv (⟨{ tightExt := true, tight := some {} }, 0, ["#1"], 0, []⟩ : S) :=
  ⟨fun k hk => by simp [Got] at hk,
   fun t ht => by
     cases ht
     refine ⟨?_, ?_⟩ <;> intro k hk <;> simp at hk⟩

/-- **dir_handles_released**.  Directory handles (`DIR*` of rfbSendDirContent and of the TightVNC
file list): over any session the number of handles open according to the trace does not change —
every successful opendir is matched by a closedir before its handler returns, also when sending the
path echo or an entry fails (the closedir of fixes/C19-ft-fd-leak.diff). -/
theorem dir_handles_released (cfg : Cfg) (inputs : List Input) (s0 : S) :
    dirDepth (runSession cfg s0 inputs).evs = dirDepth s0.evs :=
  dd_runSession cfg inputs s0

example : dirDepth [.fs .closedir "", .wire (.ft 2 0 0 0 (.raw [])), .dirOpened, .fs (.opendir [97]) "ok 0"] = 0 := by
  decide

/-- **tight_name_size_bounded** (fixes/C19-tight-name-size-sign.diff).  The name-size field of the
TightVNC requests is an unsigned 16-bit number: what the length-error handlers allocate and read is
at most 65535 bytes (no conversion to a negative `short`, no huge `calloc`), and the handler either
consumes exactly the announced name or closes the connection — the byte stream stays in sync. -/
theorem tight_name_size_bounded (a b : UInt8) (w : Wire) (s : S) :
    be16 a b < 65536 ∧
    ((tLengthError (be16 a b) w s).cl.isOpen = false ∨
     (tLengthError (be16 a b) w s).cl.inbuf = s.cl.inbuf.drop (be16 a b)) := by
  refine ⟨?_, ?_⟩
  · unfold be16
    have ha := a.toNat_lt
    have hb := b.toNat_lt
    omega
  · unfold tLengthError
    simp only []
    split
    · left; simp
    · right
      rename_i hsome
      unfold readExact at hsome ⊢
      simp only [twire_cl]
      split at hsome
      · rename_i hn; simp [hn]
      · rename_i hn
        simp only [hn, if_false] at hsome ⊢
        split at hsome
        · simp at hsome
        · split at hsome
          · simp at hsome
          · rename_i h1 h2
            simp [h1, h2, setCl]

/-! ## (5) the TightVNC extension: gate and confinement -/

/-- **tight_gate**.  A TightVNC file-transfer message (type 130..136) is acted upon only if the
extension is enabled for this client (which requires that it was registered when the client chose
security type 16), file transfer is switched on and the client is not view-only.  Otherwise: no
handler runs, nothing is sent, the connection is dropped. -/
theorem tight_gate (cfg : Cfg) (ty : Nat) (s : S) (hg : tightAllowed cfg s.cl = false) (hq : Quiet s) :
    Quiet (tightMsg cfg ty s) ∧ (tightMsg cfg ty s).cl.isOpen = false :=
  tightMsg_gate cfg ty s hg hq

example : tightAllowed ⟨true, none, none, true, []⟩ { tightExt := true, tight := some {}, viewOnly := true } = false := rfl
example : tightAllowed ⟨true, none, none, false, []⟩ { tightExt := true, tight := some {} } = false := rfl
example : tightAllowed ⟨true, none, none, true, []⟩ { tightExt := false } = false := rfl

/-- **tight_confined_to_root** (for the code with fixes/C19-tight-path-confinement.diff).  Every
path a TightVNC message makes the server hand to libc is `Confined` to the root: the empty string,
root ++ q with q starting with '/' and free of ".." components, or an entry other than "." / ".." of
such a directory; and the upload name the client record remembers (used later by utime / unlink)
stays of that form.  (Lexical confinement: symlink-free file system below the root is assumed.) -/
theorem tight_confined_to_root (cfg : Cfg) (ty : Nat) (s : S)
    (hu : UpOk cfg.root s) (h : PathsFs (Confined cfg.root) s) :
    PathsFs (Confined cfg.root) (tightMsg cfg ty s) ∧ UpOk cfg.root (tightMsg cfg ty s) :=
  tightMsg_confined cfg ty s hu h

/-- **refused_upload_leaves_no_name**.  An upload request whose name ConvertPath refuses — for ANY
reason: empty / leading NUL, too long once the root is prepended, not starting with '/', a ".."
component — leaves NO name in the per-client upload record (not the client's raw name, and not the
name of an upload that was in progress): the later messages that act on the record
(FileUploadData end-of-file → utime, FileUploadFailed / teardown → unlink) get the empty string. -/
theorem refused_upload_leaves_no_name (cfg : Cfg) (s : S) (hdr raw : Bytes)
    (h1 : (readExact 7 s).1 = some hdr)
    (hn : ¬(be16 (hdr.getD 1 0) (hdr.getD 2 0) = 0 ∨ be16 (hdr.getD 1 0) (hdr.getD 2 0) > C19.PATH_MAX - 1))
    (h2 : (readExact (be16 (hdr.getD 1 0) (hdr.getD 2 0)) (readExact 7 s).2).1 = some raw)
    (hrej : convertPath cfg.root (cstr raw) = none) :
    upName (tUpload cfg s) = [] := by
  unfold tUpload
  simp only [h1, hn, h2, hrej, if_false]
  unfold upName
  simp only [twire_cl, setUp_tight]
  cases (readExact (be16 (hdr.getD 1 0) (hdr.getD 2 0)) (readExact 7 s).2).2.cl.tight <;> rfl

/-- every rejection reason is a refusal in the sense of the theorem above -/
example : convertPath [47, 114] [] = none ∧ convertPath [47, 114] (cstr [0, 47, 120]) = none ∧
    convertPath [47, 114] [50, 47, 120] = none ∧ convertPath [47, 114] [47, 46, 47, 46, 46, 47, 120] = none := by
  decide
theorem too_long_is_refused (root q : Path) (h : q.length + root.length > C19.PATH_MAX - 1) :
    convertPath root q = none := by
  unfold convertPath; simp [h]

/-- **remembered_name_always_accepted**.  At every moment of ANY session (messages of both
protocols in any order, refused and accepted requests, chunk calls, teardown) the upload name the
per-client record remembers is empty or a path ConvertPath ACCEPTED for an earlier request
(`Rooted`: `root ++ q`, q starting with '/', free of "..", short enough — `rooted_below`). -/
theorem remembered_name_always_accepted (cfg : Cfg) (inputs : List Input) (s0 : S)
    (h0 : UpOk cfg.root s0) : UpOk cfg.root (runSession cfg s0 inputs) :=
  runSession_upOk cfg inputs s0 h0

/-- **after any refused request, every later message acts only on accepted paths**: in any state a
session can reach, the next TightVNC message — whatever it is — hands to libc only `Confined`
paths: names accepted in that very message, entries of an accepted directory, or the remembered
upload name, which by the theorem above is an earlier ACCEPTED path or empty. -/
theorem later_messages_act_on_accepted_paths (cfg : Cfg) (inputs : List Input) (s0 : S) (ty : Nat)
    (h0 : UpOk cfg.root s0) :
    PathsFs (Confined cfg.root) (tightMsg cfg ty { runSession cfg s0 inputs with evs := [] }) :=
  (tightMsg_confined cfg ty { runSession cfg s0 inputs with evs := [] }
    (show UpOk cfg.root { runSession cfg s0 inputs with evs := [] } from runSession_upOk cfg inputs s0 h0)
    (fun _ _ hm => by simp at hm)).1

example : UpOk [47, 114] (⟨{ tightExt := true, tight := some {} }, 0, [], 0, []⟩ : S) := Or.inl rfl

/-- the names that used to escape are now rejected by ConvertPath -/
example : convertPath [47, 114] [47, 46, 46, 47, 120] = none := by decide           -- "/../x"
example : convertPath [47, 114] [50, 47, 120] = none := by decide                   -- "2/x" (sibling "/r2/x")
example : convertPath [47, 114] [47, 97, 47, 46, 46] = none := by decide            -- "/a/.."
example : convertPath [47, 114] [47, 46, 46, 120] = some [47, 114, 47, 46, 46, 120] := by decide   -- "/..x" is a name

/-- WITHOUT the fix the property fails: the unfixed ConvertPath (root ++ path, no check) maps
"/../x" to a path that is not below the root — the counterexample that motivated the fix -/
theorem unfixed_convertPath_escapes :
    let unfixed := fun (root p : Path) => root ++ p
    ¬ Rooted [47, 114] (unfixed [47, 114] [47, 46, 46, 47, 120]) := by
  intro unfixed h
  obtain ⟨q, hq, he, _⟩ := rooted_below _ _ h
  have : q = [47, 46, 46, 47, 120] := by
    simp only [unfixed] at he
    exact (List.append_cancel_left he).symm
  subst this
  revert hq
  decide

end VncModel.Props.C19
