import VncModel.Translate.Model
/-! placeholder while the tie is brought up -/
namespace VncModel.Props.C10
open VncModel.Translate
theorem scale_id (c m : Nat) (h : 0 < m) : scale c m m = c := by
  unfold scale
  have : c * m + m / 2 = m / 2 + c * m := Nat.add_comm ..
  rw [this, Nat.add_mul_div_right _ _ h]
  have : m / 2 / m = 0 := Nat.div_eq_of_lt (by omega)
  omega
end VncModel.Props.C10
