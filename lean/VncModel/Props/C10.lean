import VncModel.Translate.Lemmas
import VncModel.Leaf.EquivTranslate
/-!
# C10 — Pixel-format translation follows the RFB colour-scaling rule for all formats

Property theorems only (helper lemmas: `VncModel/Translate/Lemmas.lean`).  The model
(`VncModel/Translate/Model.lean`) mirrors translate.c and its templates — scaling expression, table
initialisation for both strategies and for colour-mapped servers, byte swapping, the choice logic
of `rfbSetTranslateFunction`, the pointer walk of the translate functions — and is tied to the
code on every run by the correspondence run `harness/c10.c` ⇄ `Driver/C10.lean` (byte-exact) and by
the regenerated constants `VncModel/Gen/C10.lean` (`BGR233Format`, message constants, byte order).

Quantifiers: ALL pairs of well-formed formats (`WF`: maxima `2^k−1` with `k ≥ 1`, fields inside the
pixel and pairwise disjoint — any bits-per-pixel, any shifts, any byte orders), ALL pixel values,
ALL memories, strides, widths and heights, both machine byte orders.

What each theorem means for the property
* `scale_rounds_to_nearest`, `scale_nearest_unique`: the C expression is THE nearest integer.
* `pixel_components`: for both table strategies the stored pixel, read in the client's byte
  order, is exactly the three rescaled components at the client's shifts, nothing else set.
* `single_eq_rgb`: both strategies give the same pixel.
* `identical_formats_choose_none`, `none_copies_verbatim`: identical formats → verbatim copy.
* `translated_area_rule`: the whole property for a `w×h` area in one statement.
* `area_exact`, `area_length`, `area_reads_only_area`, `area_reads_in_bounds`: a `w×h` area reads
  exactly the `w*h` source pixels at the row stride and writes exactly `w*h` consecutive pixels.
* `cm_pixel_components`, `cmScale_msb`: colour-mapped servers — the table holds the most
  significant bits of the colour-map entries at the client's shifts.
* `colourmap_client_gets_bgr233`, `bgr233_message_rule`: colour-map clients are treated as BGR233
  and are sent the colour map that expands each BGR233 component to 16 bits.
* `server24_uses_rgb_tables`, `translated_area_rule_24bpp_source`: the 3-byte-pixel SERVER
  instantiation (24 → 8/16/32, the only function ever selected for it) stated explicitly: any byte
  stride, the rule of `pixel_components`.
* `tree_validates_channel_fit`, `channel_guard_is_the_code`, `accepted_client_shifts_defined`: the
  tree HAS the guard against client channels that do not fit (T0 behavioural probe), the guard's
  model equals the definition regenerated from the C text (T1), and therefore every accepted
  client shift is `< bpp ≤ 32` — the shifts in the table initialisers are defined.
* `colourmap_update_rebuilds`: palette change mid-session (`rfbSetClientColourMap`).
* `strategy_choice`, `reject_iff`, `single_index_in_table`, `rgb_index_in_table`,
  `single_no_int_overflow`, `rgb_fits_uint32`: the choice logic, and the facts that make the
  `Nat` model adequate for the C arithmetic and every table index in range.

Hypotheses that are guards the C code does not have (run on the real code in the "excluded
points" stream of the check, see docs/C10.md): maxima ≠ 0 and shifts < 32 (both implied by `WF`
with bpp ≤ 32).  Stated assumption: the server format's `bigEndian` flag equals the machine byte
order (`hhost`), as `rfbGetScreen` sets it — the code reads the framebuffer with native loads.
Nothing is `_partial`; not modelled (outside the property's quantifier): the RGB-table functions
for 24 bpp CLIENT formats.
-/
namespace VncModel.Props.C10
open VncModel.Translate

/-! ## (1) the scaling expression rounds to nearest -/

/-- `o = (c*outMax + inMax/2)/inMax` satisfies `2·|o·inMax − c·outMax| ≤ inMax` (written as two
inequalities over `Nat`) and `o ≤ outMax` for every `c ≤ inMax`.  `inMax ≠ 0` is the guard the C
code lacks. -/
theorem scale_rounds_to_nearest (c inMax outMax : Nat) (h : inMax ≠ 0) (hc : c ≤ inMax) :
    2 * (scale c inMax outMax * inMax) ≤ 2 * (c * outMax) + inMax ∧
    2 * (c * outMax) ≤ 2 * (scale c inMax outMax * inMax) + inMax ∧
    scale c inMax outMax ≤ outMax :=
  ⟨(scale_bounds (Nat.pos_of_ne_zero h)).1, (scale_bounds (Nat.pos_of_ne_zero h)).2,
   scale_le (Nat.pos_of_ne_zero h) hc⟩

/-- the same with an absolute value over `Int` -/
theorem scale_rounds_to_nearest_abs (c inMax outMax : Nat) (h : inMax ≠ 0) :
    2 * ((scale c inMax outMax * inMax : Nat) - (c * outMax : Nat) : Int).natAbs ≤ inMax := by
  have := scale_bounds (c := c) (outMax := outMax) (Nat.pos_of_ne_zero h)
  omega

/-- for an odd `inMax` (every `2^k − 1` is odd) no other integer is as near: the code's value is
the unique nearest integer — there are no ties to break -/
theorem scale_nearest_unique (c inMax outMax o' : Nat) (hodd : inMax % 2 = 1)
    (h1 : 2 * (o' * inMax) ≤ 2 * (c * outMax) + inMax)
    (h2 : 2 * (c * outMax) ≤ 2 * (o' * inMax) + inMax) :
    o' = scale c inMax outMax := by
  have hpos : 0 < inMax := by omega
  have ⟨b1, b2⟩ := scale_bounds (c := c) (outMax := outMax) hpos
  rcases Nat.lt_trichotomy o' (scale c inMax outMax) with hlt | heq | hgt
  · have : (o' + 1) * inMax ≤ scale c inMax outMax * inMax := Nat.mul_le_mul_right _ hlt
    rw [Nat.add_mul, Nat.one_mul] at this
    omega
  · exact heq
  · have : (scale c inMax outMax + 1) * inMax ≤ o' * inMax := Nat.mul_le_mul_right _ hgt
    rw [Nat.add_mul, Nat.one_mul] at this
    omega

/-- rescaling to the same maximum is the identity -/
theorem scale_identity (c m : Nat) (h : m ≠ 0) : scale c m m = c := by
  unfold scale
  have hm : 0 < m := Nat.pos_of_ne_zero h
  have : c * m + m / 2 = m / 2 + c * m := Nat.add_comm ..
  rw [this, Nat.add_mul_div_right _ _ hm]
  have : m / 2 / m = 0 := Nat.div_eq_of_lt (by omega)
  omega

example : scale 21 31 255 = 173 ∧ 2 * (173 * 31 - 21 * 255) ≤ 31 := by decide

/-! ## (2) translated pixels -/

/-- **pixel_components**.  For well-formed server format `i` and client format `o` (8, 16 or 32
bits per pixel; 24 behind the single table), either table strategy, every source pixel value `p`:
the pixel the translate function stores (a typed store in machine order `be` of the table entry),
read back in the CLIENT's byte order, is exactly the three source components rescaled with
rounding to nearest, placed at the client's shifts (`specPixel`); each component can be read back
at its shift and maximum; and no bit outside the three fields is set. -/
theorem pixel_components {i o : PixelFormat} {ir ig ib kr kg kb : Nat} (be : Bool)
    (wi : WF i ir ig ib) (wo : WF o kr kg kb) (s : Strategy)
    (hs : (s = .singleTC ∧ (o.bpp = 8 ∨ o.bpp = 16 ∨ o.bpp = 24 ∨ o.bpp = 32)) ∨
          (s = .rgb ∧ (o.bpp = 8 ∨ o.bpp = 16 ∨ o.bpp = 32)))
    (hhost : i.bigEndian = be) (cm : ColourMap) (p : Nat) :
    let v := decode o.bigEndian (encode be (o.bpp / 8) (lookup s i o cm p))
    v = specPixel i o p ∧
    comp v o.redShift o.redMax = scale (comp p i.redShift i.redMax) i.redMax o.redMax ∧
    comp v o.greenShift o.greenMax = scale (comp p i.greenShift i.greenMax) i.greenMax o.greenMax ∧
    comp v o.blueShift o.blueMax = scale (comp p i.blueShift i.blueMax) i.blueMax o.blueMax ∧
    (∀ j, v.testBit j = true →
      (o.redShift ≤ j ∧ j < o.redShift + kr) ∨ (o.greenShift ≤ j ∧ j < o.greenShift + kg) ∨
      (o.blueShift ≤ j ∧ j < o.blueShift + kb)) := by
  intro v
  have hlt := specPixel_lt wi wo p
  have hr := spec_red_lt wi wo p
  have hg := spec_green_lt wi wo p
  have hb := spec_blue_lt wi wo p
  have hv : v = specPixel i o p := by
    have hl : lookup s i o cm p =
        if o.bigEndian != be then swapOut o.bpp (specPixel i o p) else specPixel i o p := by
      rcases hs with ⟨rfl, _⟩ | ⟨rfl, h⟩
      · rw [← hhost]; exact singleEntryTC_eq wi wo p
      · rw [← hhost]; exact rgbLookup_eq wi wo (by omega) p
    show decode o.bigEndian (encode be (o.bpp / 8) (lookup s i o cm p)) = specPixel i o p
    rw [hl]
    have hb' : o.bpp = 8 ∨ o.bpp = 16 ∨ o.bpp = 24 ∨ o.bpp = 32 := by
      rcases hs with ⟨_, h⟩ | ⟨_, h⟩ <;> omega
    rcases hb' with e | e | e | e <;> rw [e] at hlt ⊢
    · exact decode_encode_swap be o.bigEndian 1 (by omega) _ hlt
    · exact decode_encode_swap be o.bigEndian 2 (by omega) _ hlt
    · exact decode_encode_swap be o.bigEndian 3 (by omega) _ hlt
    · exact decode_encode_swap be o.bigEndian 4 (by omega) _ hlt
  rw [hv]
  exact ⟨rfl, place_red wo hr hg hb, place_green wo hr hg hb, place_blue wo hr hg hb,
    fun j hj => place_bits hr hg hb hj⟩

/-- **single_eq_rgb**: wherever both strategies are defined they produce the same pixel (the
economic-translate switch never changes a pixel) -/
theorem single_eq_rgb {i o : PixelFormat} {ir ig ib kr kg kb : Nat}
    (wi : WF i ir ig ib) (wo : WF o kr kg kb) (hb : o.bpp ≤ 32) (cm : ColourMap) (p : Nat) :
    lookup .singleTC i o cm p = lookup .rgb i o cm p := by
  show singleEntryTC i o p = rgbLookup i o p
  rw [singleEntryTC_eq wi wo p, rgbLookup_eq wi wo hb p]

def rgb565 : PixelFormat := ⟨16, 16, false, true, 31, 63, 31, 11, 5, 0⟩
def xbgr8888be : PixelFormat := ⟨32, 24, true, true, 255, 255, 255, 0, 8, 16⟩

example : WF rgb565 5 6 5 := by constructor <;> decide
example : WF xbgr8888be 8 8 8 := by constructor <;> decide
/-- non-vacuity / sanity: white in RGB565 becomes white in big-endian xBGR8888, stored by a
little-endian machine as the bytes 00 ff ff ff -/
example : encode false 4 (lookup .singleTC rgb565 xbgr8888be ⟨false, 0, fun _ => 0⟩ 0xffff)
    = [0, 255, 255, 255] := by decide
example : lookup .rgb rgb565 xbgr8888be ⟨false, 0, fun _ => 0⟩ 0x1234 =
    lookup .singleTC rgb565 xbgr8888be ⟨false, 0, fun _ => 0⟩ 0x1234 := by decide

/-! ## (3) identical formats are copied verbatim -/

/-- a valid true-colour client format identical to the server's selects `rfbTranslateNone` -/
theorem identical_formats_choose_none (econ : Bool) (f : PixelFormat)
    (hv : validBpp f.bpp = true) (htc : f.trueColour = true) (hfit : channelCheck f = true) :
    setTranslate econ f f = ⟨.none, f, false⟩ := by
  simp [setTranslate, hv, htc, hfit, pfEq]

/-- well-formed formats always pass the channel validation (whether or not the tree has it) -/
theorem wf_passes_channel_check {f : PixelFormat} {kr kg kb : Nat} (w : WF f kr kg kb) :
    channelCheck f = true := by
  have fits : ∀ k s, 1 ≤ k → s + k ≤ f.bpp → channelFits (2 ^ k - 1) s f.bpp = true := by
    intro k s hk hs
    have h1 : (2 ^ k - 1) <<< s < 2 ^ f.bpp := shl_lt (by have := Nat.two_pow_pos k; omega) hs
    simp only [channelFits, Bool.and_eq_true, decide_eq_true_eq, beq_iff_eq]
    exact ⟨by omega, by rw [Nat.shiftRight_eq_div_pow]; exact Nat.div_eq_of_lt h1⟩
  simp only [channelCheck, w.rmax, w.gmax, w.bmax, fits _ _ w.kr_pos w.rfit,
    fits _ _ w.kg_pos w.gfit, fits _ _ w.kb_pos w.bfit, Bool.and_self, Bool.or_true]

/-- `PF_EQ` between true-colour formats is field-wise equality, the byte order being ignored for
8 bits per pixel -/
theorem pfEq_iff (x y : PixelFormat) (hx : x.trueColour = true) :
    pfEq x y = true ↔
      (x.bpp = y.bpp ∧ x.depth = y.depth ∧ (x.bigEndian = y.bigEndian ∨ x.bpp = 8) ∧
       y.trueColour = true ∧ x.redMax = y.redMax ∧ x.greenMax = y.greenMax ∧
       x.blueMax = y.blueMax ∧ x.redShift = y.redShift ∧ x.greenShift = y.greenShift ∧
       x.blueShift = y.blueShift) := by
  simp only [pfEq, hx, Bool.and_eq_true, Bool.or_eq_true, beq_iff_eq, Bool.not_true, Bool.false_or]
  constructor
  · rintro ⟨⟨⟨⟨a, b⟩, c⟩, d⟩, ⟨⟨⟨⟨⟨e, f⟩, g⟩, h⟩, i⟩, j⟩⟩
    exact ⟨a, b, c, d.symm, e, f, g, h, i, j⟩
  · rintro ⟨a, b, c, d, e, f, g, h, i, j⟩
    exact ⟨⟨⟨⟨a, b⟩, c⟩, d.symm⟩, ⟨⟨⟨⟨⟨e, f⟩, g⟩, h⟩, i⟩, j⟩⟩

/-- `rfbTranslateNone` copies, for each of the `h` rows, the `w * (bpp/8)` bytes found at the row
stride — verbatim, no byte is altered -/
theorem none_copies_verbatim (be : Bool) (i o : PixelFormat) (cm : ColourMap) (mem : Nat → Nat)
    (stride w h : Nat) :
    translateArea be .none i o cm mem stride w h =
      (List.range h).flatMap fun r => memBytes mem (r * stride) (w * (o.bpp / 8)) := by
  show copyRows mem (w * (o.bpp / 8)) stride 0 h = _
  rw [copyRows_eq]
  simp

example : setTranslate true rgb565 rgb565 = ⟨.none, rgb565, false⟩ := by decide

/-! ## (4) an area translation reads and writes exactly the area -/

/-- **area_exact** (index theorem).  With a stride that is a multiple of the source pixel size (or
any stride for 3-byte pixels) the output is, row by row and pixel by pixel, the stored translation
of the source pixel at byte offset `r * stride + c * pixelSize`; output pixels are consecutive. -/
theorem area_exact (be : Bool) (s : Strategy) (hs : s = .singleTC ∨ s = .singleCM ∨ s = .rgb)
    (i o : PixelFormat) (cm : ColourMap) (mem : Nat → Nat) (stride w h : Nat)
    (hstride : i.bpp / 8 = 3 ∨ (i.bpp / 8) ∣ stride) :
    translateArea be s i o cm mem stride w h =
      (List.range h).flatMap fun r => (List.range w).flatMap fun c =>
        encode be (o.bpp / 8)
          (lookup s i o cm (readPix be mem (r * stride + c * (i.bpp / 8)) (i.bpp / 8))) := by
  have hstep : rowStep (i.bpp / 8) stride = stride := by
    unfold rowStep
    rcases hstride with h3 | hd
    · simp [h3]
    · split
      · rfl
      · exact Nat.div_mul_cancel hd
  have : translateArea be s i o cm mem stride w h =
      (translatePixels be s i o cm mem stride w h).flatMap (encode be (o.bpp / 8)) := by
    rcases hs with rfl | rfl | rfl <;> rfl
  rw [this, translatePixels, rowLoop_eq, hstep, List.flatMap_assoc]
  apply flatMap_congr'
  intro r _
  rw [List.flatMap_map]
  simp

/-- the stride the code really uses when the given one is NOT a multiple of the pixel size: it is
rounded down (`ipextra = bytesBetweenInputLines / sizeof(IN_T) - width`) -/
theorem area_exact_any_stride (be : Bool) (s : Strategy)
    (hs : s = .singleTC ∨ s = .singleCM ∨ s = .rgb)
    (i o : PixelFormat) (cm : ColourMap) (mem : Nat → Nat) (stride w h : Nat) :
    translateArea be s i o cm mem stride w h =
      (List.range h).flatMap fun r => (List.range w).flatMap fun c =>
        encode be (o.bpp / 8)
          (lookup s i o cm
            (readPix be mem (r * rowStep (i.bpp / 8) stride + c * (i.bpp / 8)) (i.bpp / 8))) := by
  have : translateArea be s i o cm mem stride w h =
      (translatePixels be s i o cm mem stride w h).flatMap (encode be (o.bpp / 8)) := by
    rcases hs with rfl | rfl | rfl <;> rfl
  rw [this, translatePixels, rowLoop_eq, List.flatMap_assoc]
  apply flatMap_congr'
  intro r _
  rw [List.flatMap_map]
  simp

/-- exactly `w*h` output pixels are written -/
theorem area_length (be : Bool) (s : Strategy) (hs : s = .singleTC ∨ s = .singleCM ∨ s = .rgb)
    (i o : PixelFormat) (cm : ColourMap) (mem : Nat → Nat) (stride w h : Nat) :
    (translateArea be s i o cm mem stride w h).length = h * w * (o.bpp / 8) := by
  have : translateArea be s i o cm mem stride w h =
      (translatePixels be s i o cm mem stride w h).flatMap (encode be (o.bpp / 8)) := by
    rcases hs with rfl | rfl | rfl <;> rfl
  rw [this, flatMap_encode_length, translatePixels, rowLoop_length]

/-- nothing but the `w*h` source pixels is read: two memories that agree on the bytes of those
pixels give the same output -/
theorem area_reads_only_area (be : Bool) (s : Strategy)
    (hs : s = .singleTC ∨ s = .singleCM ∨ s = .rgb)
    (i o : PixelFormat) (cm : ColourMap) (mem mem' : Nat → Nat) (stride w h : Nat)
    (hstride : i.bpp / 8 = 3 ∨ (i.bpp / 8) ∣ stride)
    (hagree : ∀ r c j, r < h → c < w → j < i.bpp / 8 →
      mem (r * stride + c * (i.bpp / 8) + j) = mem' (r * stride + c * (i.bpp / 8) + j)) :
    translateArea be s i o cm mem stride w h = translateArea be s i o cm mem' stride w h := by
  rw [area_exact be s hs i o cm mem stride w h hstride, area_exact be s hs i o cm mem' stride w h hstride]
  apply flatMap_congr'
  intro r hr
  apply flatMap_congr'
  intro c hc
  have : readPix be mem (r * stride + c * (i.bpp / 8)) (i.bpp / 8) =
      readPix be mem' (r * stride + c * (i.bpp / 8)) (i.bpp / 8) := by
    unfold readPix
    rw [memBytes_congr (fun j hj => hagree r c j (List.mem_range.mp hr) (List.mem_range.mp hc) hj)]
  rw [this]

/-- every byte read lies below `srcNeeded`, i.e. inside `(h−1)*stride + w*pixelSize` -/
theorem area_reads_in_bounds (s : Strategy) (hs : s = .singleTC ∨ s = .singleCM ∨ s = .rgb)
    (i o : PixelFormat) (stride w h r c j : Nat)
    (hstride : i.bpp / 8 = 3 ∨ (i.bpp / 8) ∣ stride)
    (hr : r < h) (hc : c < w) (hj : j < i.bpp / 8) :
    r * stride + c * (i.bpp / 8) + j < srcNeeded s i o stride w h := by
  have hstep : rowStep (i.bpp / 8) stride = stride := by
    unfold rowStep
    rcases hstride with h3 | hd
    · simp [h3]
    · split
      · rfl
      · exact Nat.div_mul_cancel hd
  have e : srcNeeded s i o stride w h = (h - 1) * stride + w * (i.bpp / 8) := by
    unfold srcNeeded
    rw [if_neg (by omega), hstep]
    rcases hs with rfl | rfl | rfl <;> rfl
  rw [e]
  have h1 : r * stride ≤ (h - 1) * stride := Nat.mul_le_mul_right _ (by omega)
  have h2 : (c + 1) * (i.bpp / 8) ≤ w * (i.bpp / 8) := Nat.mul_le_mul_right _ hc
  rw [Nat.add_mul, Nat.one_mul] at h2
  omega

/-- **the property in one statement**: translating a `w×h` area between well-formed formats
writes `w*h` consecutive pixels of `bpp/8` bytes each, and the pixel for row `r`, column `c`, read
in the client's byte order, is `specPixel` — the rounded-to-nearest rescaled components at the
client's shifts, all other bits zero (`pixel_components`) — of the source pixel found at byte offset
`r * stride + c * pixelSize`. -/
theorem translated_area_rule {i o : PixelFormat} {ir ig ib kr kg kb : Nat} (be : Bool)
    (wi : WF i ir ig ib) (wo : WF o kr kg kb) (s : Strategy)
    (hs : (s = .singleTC ∧ (o.bpp = 8 ∨ o.bpp = 16 ∨ o.bpp = 24 ∨ o.bpp = 32)) ∨
          (s = .rgb ∧ (o.bpp = 8 ∨ o.bpp = 16 ∨ o.bpp = 32)))
    (hhost : i.bigEndian = be) (cm : ColourMap) (mem : Nat → Nat) (stride w h : Nat)
    (hstride : i.bpp / 8 = 3 ∨ (i.bpp / 8) ∣ stride) :
    ∃ px : Nat → Nat → List Nat,
      translateArea be s i o cm mem stride w h =
        ((List.range h).flatMap fun r => (List.range w).flatMap fun c => px r c) ∧
      ∀ r c, (px r c).length = o.bpp / 8 ∧
        decode o.bigEndian (px r c) =
          specPixel i o (readPix be mem (r * stride + c * (i.bpp / 8)) (i.bpp / 8)) := by
  refine ⟨fun r c => encode be (o.bpp / 8)
      (lookup s i o cm (readPix be mem (r * stride + c * (i.bpp / 8)) (i.bpp / 8))), ?_, ?_⟩
  · apply area_exact be s _ i o cm mem stride w h hstride
    rcases hs with ⟨rfl, _⟩ | ⟨rfl, _⟩ <;> simp
  · intro r c
    exact ⟨encode_length _ _ _, (pixel_components be wi wo s hs hhost cm _).1⟩

example : translateArea false .singleTC rgb565 xbgr8888be ⟨false, 0, fun _ => 0⟩
    (fun k => [0xff, 0xff, 0xAA, 0xAA, 0x00, 0xf8].getD k 0) 4 1 2 =
    [0, 255, 255, 255, 0, 0, 0, 255] := by decide

/-! ## (5) colour-mapped servers and colour-map (BGR233) clients -/

/-- colour-map scaling for a `2^k − 1` maximum is `c * 2^k / 2^width`, below `2^k` -/
theorem cmScale_lt (cm : ColourMap) (c k : Nat) (hc : c < 2 ^ (if cm.is16 then 16 else 8)) :
    cmScale cm c (2 ^ k - 1) < 2 ^ k := by
  unfold cmScale
  have hk := Nat.two_pow_pos k
  rw [show 1 + (2 ^ k - 1) = 2 ^ k by omega, Nat.shiftRight_eq_div_pow]
  apply Nat.div_lt_of_lt_mul
  exact Nat.mul_lt_mul_of_lt_of_le hc (Nat.le_refl _) hk

/-- … and for `k` not larger than the colour-map width it is the `k` MOST SIGNIFICANT BITS of the
colour-map value -/
theorem cmScale_msb (cm : ColourMap) (c k : Nat) (hk : k ≤ (if cm.is16 then 16 else 8)) :
    cmScale cm c (2 ^ k - 1) = c >>> ((if cm.is16 then 16 else 8) - k) := by
  unfold cmScale
  have hp := Nat.two_pow_pos k
  rw [show 1 + (2 ^ k - 1) = 2 ^ k by omega, Nat.shiftRight_eq_div_pow, Nat.shiftRight_eq_div_pow]
  generalize (if cm.is16 then 16 else 8) = wd at hk
  have : 2 ^ wd = 2 ^ (wd - k) * 2 ^ k := by rw [← Nat.pow_add]; congr 1; omega
  rw [this, Nat.mul_div_mul_right _ _ hp]

/-- **colour-mapped server**: with a colour map whose values fit its width, the table entry for
colour index `p`, stored and read back in the client's byte order, is the three scaled colour-map
components of `p` (zero beyond `count`) at the client's shifts and nothing else. -/
theorem cm_pixel_components {i o : PixelFormat} {kr kg kb : Nat} (be : Bool)
    (wo : WF o kr kg kb) (hbpp : o.bpp = 8 ∨ o.bpp = 16 ∨ o.bpp = 24 ∨ o.bpp = 32)
    (hhost : i.bigEndian = be) (cm : ColourMap)
    (hcm : ∀ k, cm.data k < 2 ^ (if cm.is16 then 16 else 8)) (p : Nat) :
    let v := decode o.bigEndian (encode be (o.bpp / 8) (lookup .singleCM i o cm p))
    v = place o (cmScale cm (cmComp cm p 0) o.redMax) (cmScale cm (cmComp cm p 1) o.greenMax)
          (cmScale cm (cmComp cm p 2) o.blueMax) ∧
    comp v o.redShift o.redMax = cmScale cm (cmComp cm p 0) o.redMax ∧
    comp v o.greenShift o.greenMax = cmScale cm (cmComp cm p 1) o.greenMax ∧
    comp v o.blueShift o.blueMax = cmScale cm (cmComp cm p 2) o.blueMax ∧
    (∀ j, v.testBit j = true →
      (o.redShift ≤ j ∧ j < o.redShift + kr) ∨ (o.greenShift ≤ j ∧ j < o.greenShift + kg) ∨
      (o.blueShift ≤ j ∧ j < o.blueShift + kb)) := by
  intro v
  have hcomp : ∀ j, cmComp cm p j < 2 ^ (if cm.is16 then 16 else 8) := by
    intro j; unfold cmComp; split
    · exact hcm _
    · exact Nat.two_pow_pos _
  have hr : cmScale cm (cmComp cm p 0) o.redMax < 2 ^ kr := by
    rw [wo.rmax]; exact cmScale_lt cm _ _ (hcomp 0)
  have hg : cmScale cm (cmComp cm p 1) o.greenMax < 2 ^ kg := by
    rw [wo.gmax]; exact cmScale_lt cm _ _ (hcomp 1)
  have hb : cmScale cm (cmComp cm p 2) o.blueMax < 2 ^ kb := by
    rw [wo.bmax]; exact cmScale_lt cm _ _ (hcomp 2)
  have hlt := place_lt wo hr hg hb
  have hv : v = place o (cmScale cm (cmComp cm p 0) o.redMax)
      (cmScale cm (cmComp cm p 1) o.greenMax) (cmScale cm (cmComp cm p 2) o.blueMax) := by
    have hl : lookup .singleCM i o cm p =
        if o.bigEndian != be then swapOut o.bpp (place o (cmScale cm (cmComp cm p 0) o.redMax)
          (cmScale cm (cmComp cm p 1) o.greenMax) (cmScale cm (cmComp cm p 2) o.blueMax))
        else place o (cmScale cm (cmComp cm p 0) o.redMax)
          (cmScale cm (cmComp cm p 1) o.greenMax) (cmScale cm (cmComp cm p 2) o.blueMax) := by
      have h' := hlt
      unfold place at h'
      rw [← hhost]
      simp only [lookup, singleEntryCM, place, Nat.mod_eq_of_lt h']
    show decode o.bigEndian (encode be (o.bpp / 8) (lookup .singleCM i o cm p)) = _
    rw [hl]
    rcases hbpp with e | e | e | e <;> rw [e] at hlt ⊢
    · exact decode_encode_swap be o.bigEndian 1 (by omega) _ hlt
    · exact decode_encode_swap be o.bigEndian 2 (by omega) _ hlt
    · exact decode_encode_swap be o.bigEndian 3 (by omega) _ hlt
    · exact decode_encode_swap be o.bigEndian 4 (by omega) _ hlt
  rw [hv]
  exact ⟨rfl, place_red wo hr hg hb, place_green wo hr hg hb, place_blue wo hr hg hb,
    fun j hj => place_bits hr hg hb hj⟩

/-- **colour-map client**: an 8-bit client without true colour is accepted, is sent a colour map,
and is from then on treated as the true-colour format `BGR233Format` (T0 constant) -/
theorem colourmap_client_gets_bgr233 (econ : Bool) (srv cli : PixelFormat)
    (hs : validBpp srv.bpp = true) (htc : cli.trueColour = false) (h8 : cli.bpp = 8) :
    (setTranslate econ srv cli).fmt = bgr233Format ∧ (setTranslate econ srv cli).sentCMap = true ∧
    (setTranslate econ srv cli).strat ≠ .reject := by
  have hv : validBpp 8 = true := by decide
  have hc : channelCheck cli = true := by simp [channelCheck, htc]
  simp only [setTranslate, hs, htc, h8, hv, hc]
  refine ⟨?_, ?_, ?_⟩ <;> (repeat' split) <;> simp_all

example : (setTranslate false rgb565 ⟨8, 8, false, false, 0, 0, 0, 0, 0, 0⟩).fmt = bgr233Format := by
  decide
example : cmScale ⟨true, 1, fun _ => 0xffff⟩ 0xffff 31 = 31 ∧
    cmScale ⟨false, 1, fun _ => 0x80⟩ 0x80 7 = 4 := by decide

/-- the 16-bit expansion of component `c` with maximum `m`, as the code computes it -/
def expand16 (c m : Nat) : Nat := c * 65535 / m

set_option maxRecDepth 100000 in
/-- **BGR233 colour map**: the SetColourMapEntries message is the 6-byte header (type, pad,
first colour 0, 256 colours) followed, for every pixel value `p = 0 … 255` in order, by the
big-endian 16-bit expansions of the red, green and blue components of `p` under `BGR233Format` —
so the client displays pixel `p` as exactly the colour the translation tables meant. -/
theorem bgr233_message_rule :
    bgr233Message =
      [Gen.C10.msgSetColourMapEntries, 0, 0, 0, 1, 0] ++
      (List.range 256).flatMap fun p =>
        be16 (expand16 (comp p bgr233Format.redShift bgr233Format.redMax) bgr233Format.redMax) ++
        be16 (expand16 (comp p bgr233Format.greenShift bgr233Format.greenMax) bgr233Format.greenMax) ++
        be16 (expand16 (comp p bgr233Format.blueShift bgr233Format.blueMax) bgr233Format.blueMax) := by
  decide

/-- `BGR233Format` is a well-formed format with 3, 3 and 2 bits (tie to the T0 constants) -/
theorem bgr233_wf : WF bgr233Format 3 3 2 := by constructor <;> decide

/-- `rfbEndianTest` (used by the 24-bit code and `Swap16IfLE`) agrees with the machine -/
theorem endian_test_consistent : Gen.C10.rfbEndianTestLE = Gen.C10.hostLittleEndian := by decide

/-- **palette change mid-session**: after the application changes the colour map and calls
`rfbSetClientColourMap(s)`, the table of a client that has sent SetPixelFormat is the table of the
NEW colour map (so `cm_pixel_components` holds for the new map); a true-colour server, or a client
that never sent SetPixelFormat, is left alone. -/
theorem colourmap_update_rebuilds (ready : Bool) (srv : PixelFormat) (old new : ColourMap) :
    setClientColourMap ready srv old new =
      if srv.trueColour = false ∧ ready = true then new else old := by
  cases h1 : srv.trueColour <;> cases ready <;> simp [setClientColourMap, h1]

/-! ## (6) choice logic, table bounds, adequacy of the arithmetic -/

/-- exactly which requests are refused (the client is closed) -/
theorem reject_iff (econ : Bool) (srv cli : PixelFormat) :
    (setTranslate econ srv cli).strat = .reject ↔
      (validBpp srv.bpp = false ∨ validBpp cli.bpp = false ∨
       (cli.trueColour = false ∧ cli.bpp ≠ 8) ∨ channelCheck cli = false) := by
  unfold setTranslate
  cases hs : validBpp srv.bpp <;> cases hc : validBpp cli.bpp <;> cases ht : cli.trueColour <;>
    cases hf : channelCheck cli <;>
    by_cases h8 : cli.bpp = 8 <;> simp [h8] <;> (repeat' split) <;> simp_all

/-- which table strategy is chosen for a true-colour client whose format differs from the
server's: the single table for an 8 bpp server and for a 16 bpp server that is colour-mapped or not
"economic"; three tables otherwise -/
theorem strategy_choice (econ : Bool) (srv cli : PixelFormat)
    (hs : validBpp srv.bpp = true) (hc : validBpp cli.bpp = true) (htc : cli.trueColour = true)
    (hfit : channelCheck cli = true) (hne : pfEq cli srv = false) :
    (setTranslate econ srv cli).strat =
      if srv.bpp < 16 ∨ ((srv.trueColour = false ∨ econ = false) ∧ srv.bpp = 16)
      then (if srv.trueColour then .singleTC else .singleCM) else .rgb := by
  simp only [setTranslate, hs, hc, htc, hfit]
  cases srv.trueColour <;> cases econ <;> simp [hne] <;> split <;> rfl

/-- a component never exceeds its mask, so every index into a channel table of `max+1` entries
is in range; the three channel tables occupy `rmax+gmax+bmax+3` entries = `tableBytes` -/
theorem rgb_index_in_table (p shift max : Nat) : comp p shift max < max + 1 := by
  unfold comp
  exact Nat.lt_succ_of_le Nat.and_le_right

theorem rgb_table_size (i o : PixelFormat) (h : o.bpp ≠ 24) :
    tableBytes .rgb i o = ((i.redMax + 1) + (i.greenMax + 1) + (i.blueMax + 1)) * (o.bpp / 8) := by
  simp only [tableBytes, h, if_false]
  congr 1; omega

/-- a source pixel read from `bpp/8` bytes indexes inside the single table of `2^bpp` entries -/
theorem single_index_in_table (be : Bool) (mem : Nat → Nat) (hm : ∀ k, mem k < 256) (off : Nat)
    (i : PixelFormat) (h : i.bpp = 8 ∨ i.bpp = 16) :
    readPix be mem off (i.bpp / 8) < 2 ^ i.bpp := by
  rcases h with e | e <;> rw [e] <;> cases be <;>
    simp [readPix, decode, memBytes, List.range, List.range.loop, valLE]
  · exact hm _
  · exact hm _
  · have := hm off; have := hm (off + 1); omega
  · have := hm off; have := hm (off + 1); omega

/-- single table: the C `int` expression `inRed * out->redMax + in->redMax / 2` cannot overflow for
a well-formed server format of at most 16 bits per pixel -/
theorem single_no_int_overflow {i : PixelFormat} {ir ig ib : Nat} (wi : WF i ir ig ib)
    (hb : i.bpp ≤ 16) (c outMax : Nat) (hc : c ≤ i.redMax) (ho : outMax ≤ 65535) :
    c * outMax + i.redMax / 2 < 2 ^ 31 := by
  have hk : ir ≤ 14 := by
    have := wi.rg; have := wi.rb; have := wi.gb
    have := wi.rfit; have := wi.gfit; have := wi.bfit
    have := wi.kg_pos; have := wi.kb_pos
    omega
  have h1 : 2 ^ ir ≤ 2 ^ 14 := Nat.pow_le_pow_right (by decide) hk
  have h2 := wi.rmax
  have h3 : c * outMax ≤ 16383 * 65535 := Nat.mul_le_mul (by omega) ho
  omega

/-- three tables (fixed code: unsigned arithmetic): `i * outMax + inMax / 2` fits 32 bits for all
16-bit maxima -/
theorem rgb_fits_uint32 (c inMax outMax : Nat) (hc : c ≤ inMax) (hi : inMax ≤ 65535)
    (ho : outMax ≤ 65535) : c * outMax + inMax / 2 < 2 ^ 32 := by
  have : c * outMax ≤ 65535 * 65535 := Nat.mul_le_mul (by omega) ho
  omega

/-! ## (7) 3-byte source pixels; the channel guard -/

/-- a 24 bpp server whose format differs from the client's always gets the three-table function
(`rfbTranslateWithRGBTables24toOUT`); the single table never applies to it -/
theorem server24_uses_rgb_tables (econ : Bool) (srv cli : PixelFormat) (h24 : srv.bpp = 24)
    (hc : validBpp cli.bpp = true) (htc : cli.trueColour = true)
    (hfit : channelCheck cli = true) (hne : pfEq cli srv = false) :
    (setTranslate econ srv cli).strat = .rgb := by
  have hs : validBpp srv.bpp = true := by rw [h24]; decide
  rw [strategy_choice econ srv cli hs hc htc hfit hne, h24]
  simp

/-- **24 bpp source, explicitly**: for a well-formed 24 bpp server format and a well-formed 8, 16
or 32 bpp client format, ANY row stride in bytes (3-byte pixels need no alignment), the area
translation writes `w*h` consecutive client pixels and pixel `(r,c)`, read in the client's byte
order, is `specPixel` (the `pixel_components` rule) of the 3 source bytes at `r*stride + c*3`. -/
theorem translated_area_rule_24bpp_source {i o : PixelFormat} {ir ig ib kr kg kb : Nat} (be : Bool)
    (wi : WF i ir ig ib) (wo : WF o kr kg kb) (h24 : i.bpp = 24)
    (ho : o.bpp = 8 ∨ o.bpp = 16 ∨ o.bpp = 32)
    (hhost : i.bigEndian = be) (cm : ColourMap) (mem : Nat → Nat) (stride w h : Nat) :
    ∃ px : Nat → Nat → List Nat,
      translateArea be .rgb i o cm mem stride w h =
        ((List.range h).flatMap fun r => (List.range w).flatMap fun c => px r c) ∧
      ∀ r c, (px r c).length = o.bpp / 8 ∧
        decode o.bigEndian (px r c) = specPixel i o (readPix be mem (r * stride + c * 3) 3) := by
  have h3 : i.bpp / 8 = 3 := by rw [h24]
  have := translated_area_rule be wi wo .rgb (Or.inr ⟨rfl, ho⟩) hhost cm mem stride w h (Or.inl h3)
  rw [h3] at this
  exact this

def rgb888_24 : PixelFormat := ⟨24, 24, false, true, 255, 255, 255, 16, 8, 0⟩
example : WF rgb888_24 8 8 8 := by constructor <;> decide
/-- non-vacuity: 2×2 area, stride 7 (≡ 1 mod 3), 24 bpp → RGB565 little endian -/
example : translateArea false .rgb rgb888_24 rgb565 ⟨false, 0, fun _ => 0⟩
    (fun k => [0xff, 0, 0, 0, 0xff, 0, 0xEE, 0, 0, 0xff, 0xff, 0xff, 0xff].getD k 0) 7 2 2 =
    [0x1f, 0x00, 0xe0, 0x07, 0x00, 0xf8, 0xff, 0xff] := by decide

/-- **the tree has the channel guard** (T0 behavioural probe on the current tree: a true-colour
client format with red max 255 at shift 31 of 32 bits is refused).  Removing the guard from
`rfbSetTranslateFunction` flips the regenerated constant and this theorem no longer compiles. -/
theorem tree_validates_channel_fit : Gen.C10.validatesChannelFit = true := by decide

/-- the guard's model is the definition regenerated from the C text of `rfbChannelFitsPixel` (T1) -/
theorem channel_guard_is_the_code (max shift bpp : Nat) (hm : max < 65536) (hb : bpp ≤ 32) :
    channelFits max shift bpp = Gen.Leaf.rfbChannelFitsPixel max shift bpp :=
  (Leaf.rfbChannelFitsPixel_eq max shift bpp hm hb).symm

/-- every true-colour client format that is not refused has all three shifts below its
bits-per-pixel (≤ 32) and every shifted maximum inside the pixel: the `<< shift` of the table
initialisers (and of the encoders) is defined for every accepted format — the "shift ≥ 32"
excluded point is not reachable by a client any more. -/
theorem accepted_client_shifts_defined (econ : Bool) (srv cli : PixelFormat)
    (hacc : (setTranslate econ srv cli).strat ≠ .reject) (htc : cli.trueColour = true) :
    cli.bpp ≤ 32 ∧
    cli.redShift < cli.bpp ∧ cli.greenShift < cli.bpp ∧ cli.blueShift < cli.bpp ∧
    cli.redMax <<< cli.redShift < 2 ^ cli.bpp ∧ cli.greenMax <<< cli.greenShift < 2 ^ cli.bpp ∧
    cli.blueMax <<< cli.blueShift < 2 ^ cli.bpp := by
  have hr : ¬ _ := fun h => hacc ((reject_iff econ srv cli).mpr h)
  have hv : validBpp cli.bpp = true := by
    cases h : validBpp cli.bpp
    · exact absurd (Or.inr (Or.inl h)) hr
    · rfl
  have hc : channelCheck cli = true := by
    cases h : channelCheck cli
    · exact absurd (Or.inr (Or.inr (Or.inr h))) hr
    · rfl
  have hb : cli.bpp ≤ 32 := by
    simp only [validBpp, Bool.or_eq_true, Bool.and_eq_true, beq_iff_eq] at hv
    omega
  have fits : ∀ m s, channelFits m s cli.bpp = true → s < cli.bpp ∧ m <<< s < 2 ^ cli.bpp := by
    intro m s h
    simp only [channelFits, Bool.and_eq_true, decide_eq_true_eq, beq_iff_eq,
      Nat.shiftRight_eq_div_pow] at h
    refine ⟨h.1, ?_⟩
    have := (Nat.div_eq_zero_iff).mp h.2
    have hp := Nat.two_pow_pos cli.bpp
    omega
  simp only [channelCheck, tree_validates_channel_fit, htc, Bool.not_true, Bool.false_or,
    Bool.and_eq_true] at hc
  obtain ⟨⟨h1, h2⟩, h3⟩ := hc
  exact ⟨hb, (fits _ _ h1).1, (fits _ _ h2).1, (fits _ _ h3).1, (fits _ _ h1).2, (fits _ _ h2).2,
    (fits _ _ h3).2⟩

end VncModel.Props.C10
