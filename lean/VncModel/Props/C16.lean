import VncModel.Resize.Teardown
/-!
# C16 — Replacing the framebuffer is safe and every client resynchronises

Property theorems only; helper lemmas live in `VncModel/Resize/*.lean`.

**What is modelled** (`VncModel/Resize/Model.lean`, executable, compared exactly with the real server
on every run by `harness/c16.c` ⇄ `Driver/C16.lean`): rfbNewFramebuffer (per-client region reset,
`newFBSizePending`, translation refresh, cursor clamp, scaled versions), the size short-circuit of
rfbSendFramebufferUpdate with rfbSendNewFBSize / rfbSendExtDesktopSize (reason / status and their
reset), SetEncodings flags, the non-incremental-request rule, the rfbSetDesktopSize message and the
application's hook, SetPixelFormat, SetScale, PointerEvent, on top of the C02 update model and the
C11 region model.  Framebuffers and pixel formats are abstract tokens; every modelled access of the
library to framebuffer memory carries the token it touches.  The model follows the code WITH
`fixes/C16-newfb-scaled-screens.diff` (and the state-neutral `fixes/C16-sds-iterator-leak.diff`);
`unfixed_scaled_client_keeps_old_buffer` is the counter-example for the unfixed code.

**Quantifiers**: every state, every history (`List Op`, unbounded) of connections, SetEncodings,
SetPixelFormat, SetScale, pointer events, marks, copies, requests, SetDesktopSize with any hook
behaviour, replacements, updates; every client.  Hypotheses that restrict the APPLICATION
(`Op.avoids`: a freed buffer is not installed again under the same token; `Op.sane`: a replacement
has ≥ 1 pixel, copy regions are well-formed and inside the screen) are spelled out.

**Theorems ↔ property**
* `old_buffer_never_read` — after rfbNewFramebuffer returns no access uses the old buffer, in every
  later state of every history.
* `replacement_schedules_everything`, `size_message_first`, `resync_converges`,
  `full_request_completes` — "first told the new size … then receives the complete new contents".
* `rects_inside_new_size`, `reachable_states_good` — later rectangles stay inside the new size,
  whatever (stale) region is still requested.
* `translation_follows_depth`.
* `setdesktopsize_answer`, `setdesktopsize_refused_without_hook`, `answer_delivered`,
  `others_told_other_client`, `reason_status_reset` — the client's own request is answered with the
  hook's code; other clients learn "other client"; the fields are reset once sent.
* `no_spontaneous_resize`.
* `pointer_inside_after_replacement` — the cursor position is inside the new area.
* `ext_message_fits_update_buffer`, `setdesktopsize_payload_bound` — on the regenerated constants.

* `converges_in_every_history`, `invariant_means_current`, `invariant_starts_full` — C02's
  convergence invariant in EVERY state of EVERY history of this model, across any number of
  replacements (composition with C02's refinement `Update/Refine.lean`; ghost pixels `fb`, `pic`).
* `torn_down_client_is_silent`, `failed_size_write_closes` — a client that does not resynchronise
  because its connection is gone is torn down and never served again.
* `emitters_stay_inside_buffer`, `size_shortcircuit_never_flushes`, `ext_message_limit` — the flush
  rule of rfbSendNewFBSize / rfbSendExtDesktopSize on the regenerated constants.

**Partial / not proved here**: scaled clients: only the upper bound `x2 ≤ sw ∧ y2 ≤ sh` is proved for
their rectangles (the lower part depends on the floating-point arithmetic of rfbScaledCorrection,
C17), and for them `pic` in the convergence theorems denotes the picture mapped back to screen
coordinates.  Clients WITHOUT resize support: the code sends them rectangles of the new geometry
without telling them; the property only demands that those rectangles stay inside the new size,
which `rects_inside_new_size` gives for every client.  History theorems about ONE client's messages
(`size_message_first`, `answer_delivered`) assume its connection is not lost and the application's
screen hook does not fail meanwhile (`Op.noFailure`); the failure arms themselves are modelled
(`updateFail`, `updateExtFail`, `drop`) and covered by `torn_down_client_is_silent`.
-/
namespace VncModel.Props.C16
open VncModel.Resize VncModel.Rgn

/-! ## 1. the old buffer is never touched again -/

/-- **old_buffer_never_read**: let the application replace the framebuffer `old := st.scr.fb` by a
different one.  Then in every later history that does not install a buffer called `old` again, no
step's access log contains `old`, and no part of the state refers to it. -/
theorem old_buffer_never_read (st : State) (w h bpp : Int) (tok : Nat) (ops : List Op)
    (hne : tok ≠ st.scr.fb) (hav : ∀ op ∈ ops, op.avoids st.scr.fb) :
    (∀ o ∈ (run (newFramebuffer st w h bpp tok) ops).2, st.scr.fb ∉ o.acc) ∧
    NoTok st.scr.fb (run (newFramebuffer st w h bpp tok) ops).1 :=
  let r := noTok_run st.scr.fb ops _ (noTok_newFramebuffer st.scr.fb st w h bpp tok hne) hav
  ⟨r.2, r.1⟩

/-- the same for any buffer `old` no part of the state refers to, when the replacement happens inside
the application's SetDesktopSize hook (or not at all) -/
theorem old_buffer_never_read_via_hook (old : Nat) (st : State) (id : Nat) (w h ns : Int) (hook : Hook)
    (ops : List Op) (hs : NoTok old st) (hav1 : (Op.setDesktopSize id w h ns hook).avoids old)
    (hav : ∀ op ∈ ops, op.avoids old) :
    ∀ o ∈ (run (step st (.setDesktopSize id w h ns hook)).1 ops).2, old ∉ o.acc :=
  (noTok_run old ops _ (noTok_step old st _ hs hav1) hav).2

/-- counter-example for the UNFIXED code (§11-m): a scaled client keeps reading a scaled version
rendered from the old buffer, with the old geometry — even one larger than the new screen -/
theorem unfixed_scaled_client_keeps_old_buffer (s : Screen) (w h bpp : Int) (tok : Nat) (c : Client)
    (hs : c.scaled = true) :
    readToken { s with fb := tok } (newFbClientUnfixed s w h bpp tok c) = c.ssrc ∧
    (newFbClientUnfixed s w h bpp tok c).sw = c.sw ∧ (newFbClientUnfixed s w h bpp tok c).sh = c.sh := by
  unfold newFbClientUnfixed readToken
  cases ho : c.base.isOpen <;> simp [hs, ho]

/-! ## 2. size first, then the complete new contents -/

/-- **replacement_schedules_everything**: right after the call every open client has the whole new
screen scheduled, no copy pending, and — if it announced NewFBSize or ExtendedDesktopSize — the size
message pending; its reason / status fields are untouched. -/
theorem replacement_schedules_everything (st : State) (w h bpp : Int) (tok : Nat) (d : Client)
    (hd : d ∈ (newFramebuffer st w h bpp tok).clients) (ho : d.base.isOpen = true) :
    d.base.M = Region.rect 0 0 w h ∧ d.base.C = Region.empty ∧ d.base.dx = 0 ∧ d.base.dy = 0 ∧
    (d.useNewFBSize = true → d.pending = true) ∧
    (d.scaled = false → d.sw = w ∧ d.sh = h) := by
  obtain ⟨c, _, h⟩ := mem_newFramebuffer hd
  have hco : c.base.isOpen = true := by rw [← h.2.2.1]; exact ho
  obtain ⟨_, hM, hC, hdx, hdy, _, hp⟩ := h.2.2.2.2.2.2.2.2.2.2.2.1 hco
  refine ⟨hM, hC, hdx, hdy, ?_, ?_⟩
  · intro hn
    rw [h.2.2.2.2.2.1] at hn
    rw [hp, if_pos (by simp [hn])]
  · intro hs
    rw [h.2.2.2.1] at hs
    rw [h.2.2.2.2.2.2.2.2.2.1, h.2.2.2.2.2.2.2.2.2.2.1]
    simp [hs]

/-- with fixes/C16-late-setencodings-size.diff (`pendingForAll`, regenerated from main.c) the flag is
raised for EVERY open client, so a viewer that announces resize support only after the replacement
(SetEncodings arriving late) is still told the new size first (`size_message_first` applies as soon as
it has sent its SetEncodings) -/
theorem replacement_raises_pending_for_all (hflag : VncModel.Gen.C16.pendingForAll = true)
    (st : State) (w h bpp : Int) (tok : Nat) (d : Client)
    (hd : d ∈ (newFramebuffer st w h bpp tok).clients) (ho : d.base.isOpen = true) :
    d.pending = true := by
  obtain ⟨c, _, h⟩ := mem_newFramebuffer hd
  have hco : c.base.isOpen = true := by rw [← h.2.2.1]; exact ho
  obtain ⟨_, _, _, _, _, _, hp⟩ := h.2.2.2.2.2.2.2.2.2.2.2.1 hco
  rw [hp, if_pos (by simp [hflag])]

/-- **size_message_first**: a client that announced resize support and has a size change pending
(by `replacement_schedules_everything`: every such client after a replacement) receives, as the
FIRST message of any later history, the size message carrying its current geometry `tw × th` —
in the extended form with the reason / status fields — before any pixel data; as long as it keeps
the capability and its scale and the application does not resize again (then the same theorem
applies from that later point). -/
theorem size_message_first (id : Nat) (tw th : Int) (ops : List Op) (st : State) (c0 : Client)
    (hu : Uniq id st c0) (hnf : c0.useNewFBSize = true) (hp : c0.pending = true)
    (hw : c0.sw = tw) (hh : c0.sh = th)
    (hA : ∀ op ∈ ops, op.appResize = false ∧ op.keepsCap id ∧ op.noRescale id ∧ op.noFailure id) :
    ∀ m, (msgsTo id (run st ops).2).head? = some m →
      m = .size tw th ∨ ∃ r s, m = .ext r s tw th [(1, 0, 0, tw, th, 0)] :=
  size_first id tw th ops st c0 hu ⟨hnf, hp, hw, hh⟩ hA

/-- the pending size message is all an update sends, and it clears the flag without touching the
regions: pixel data can only follow in a later update -/
theorem pending_update_sends_only_size (s : Screen) (c : Client) (hnf : c.useNewFBSize = true)
    (hp : c.pending = true) :
    (sendUpdate s c).2.msgs = [(c.id, (sizeMessage c).2)] ∧ (sendUpdate s c).1.base = c.base ∧
    (sendUpdate s c).1.pending = false ∧ (sendUpdate s c).2.acc = [] := by
  unfold sendUpdate
  simp [hnf, hp, (sizeMessage_state c).2.1, (sizeMessage_state c).1]

open VncModel.USpec in
/-- **resync_converges**: right after the replacement the convergence invariant of C02 holds for the
NEW framebuffer and ANY client picture (the stale one) — although the requested region is stale —
and therefore in every state of every later interleaving of the set-level specification; whenever
nothing is scheduled any more, the client's picture equals the new framebuffer on the whole new
screen. -/
theorem resync_converges {V : Type} (st : State) (w h bpp : Int) (tok : Nat) (d : Client)
    (hd : d ∈ (newFramebuffer st w h bpp tok).clients) (ho : d.base.isOpen = true)
    (fb pic : Pix → V) (t : SState V)
    (hr : Reach (screenSet w h) (toSpec fb pic d.base) t) :
    Inv (screenSet w h) t ∧
    ((∀ p, screenSet w h p → ¬ t.M p) → (∀ p, ¬ t.C p) → ∀ p, screenSet w h p → t.pic p = t.fb p) := by
  have hM := (replacement_schedules_everything st w h bpp tok d hd ho).1
  have hI : Inv (screenSet w h) t := by
    refine Inv_reach _ _ t (Inv_init _ _ ?_) hr
    intro p hS
    show d.base.M.den p.1 p.2
    rw [hM]
    exact (rect_den 0 0 w h p.1 p.2).mpr hS
  exact ⟨hI, fun h1 h2 p hS => ((hI p hS (h1 p hS)).2 (h2 p)).symm⟩

open VncModel.USpec in
/-- **full_request_completes**: from any state satisfying the invariant, a non-incremental request
covering the screen followed by one update leaves the client with exactly the (new) framebuffer on
the whole screen. -/
theorem full_request_completes {V : Type} (S : PSet) (s : SState V) (hI : Inv S s) (r : PSet)
    (hr : ∀ p, S p → r p) :
    ∃ t, Reach S s t ∧ (∀ p, S p → t.pic p = t.fb p) ∧ t.fb = s.fb :=
  VncModel.Resize.full_request_completes S s hI r hr

open VncModel.USpec VncModel.Update.Refine in
/-- **converges_in_every_history**: the convergence invariant of C02 (a screen pixel that is not
scheduled as modified equals the client's picture there, or at the copy source while a copy is
pending) holds for client `id` in EVERY state of EVERY history of the model — framebuffer
replacements (by the application or inside its SetDesktopSize hook), failed updates and lost
connections included — for every evolution of the framebuffer contents the application is allowed
(`FbOk`) and the picture the client keeps (`PicOk`).  Composition of `cinv_step` (each operation is
one of C02's refined operations, leaves the abstraction alone, or is a replacement, which restarts
the invariant for ANY new contents and ANY stale picture) with C02's `Inv_reach`. -/
theorem converges_in_every_history {V : Type} (id : Nat) (st st' : State)
    (fb pic fb' pic' : Pix → V) (ops : List Op)
    (h : GRun id st fb pic ops st' fb' pic') (hI : CInv id st fb pic) :
    CInv id st' fb' pic' ∧ st' = (run st ops).1 :=
  ⟨cinv_run h hI, h.state⟩

open VncModel.USpec VncModel.Update.Refine in
/-- **invariant_means_current**: what the invariant says in a state — pixels of the CURRENT screen
outside the modified / copy regions are correct in the client's picture; a client with nothing
scheduled holds the whole current framebuffer -/
theorem invariant_means_current {V : Type} (id : Nat) (st : State) (fb pic : Pix → V)
    (h : CInv id st fb pic) :
    ∃ c0, Uniq id st c0 ∧ (c0.base.isOpen = true →
      (∀ p, VncModel.Update.Refine.S st.scr.base p → ¬ dset c0.base.M p → ¬ dset c0.base.C p → pic p = fb p) ∧
      (c0.base.M.isEmpty = true → c0.base.C.isEmpty = true →
        ∀ p, VncModel.Update.Refine.S st.scr.base p → pic p = fb p)) :=
  cinv_current h

open VncModel.USpec VncModel.Update.Refine in
/-- **invariant_starts_full**: the invariant holds whenever the whole screen is scheduled — a fresh
connection, and (by `replacement_schedules_everything`) every client right after a replacement -/
theorem invariant_starts_full {V : Type} (id : Nat) (st : State) (c0 : Client) (hu : Uniq id st c0)
    (hw : WFc c0.base) (hM : ∀ p, VncModel.Update.Refine.S st.scr.base p → dset c0.base.M p) (fb pic : Pix → V) :
    CInv id st fb pic :=
  cinv_of_full id st c0 hu hw hM fb pic

/-! ## 2b. a client that cannot resynchronise is torn down -/

/-- **failed_size_write_closes**: when the pending size message (or any update) cannot be written
because the peer is gone, the connection is closed -/
theorem failed_size_write_closes (s : Screen) (c : Client) (hp : updatePending s c = true)
    (hnf : c.useNewFBSize = true) (hpe : c.pending = true) :
    (updateClientFail s c).base.isOpen = false :=
  updateFail_closes s c (pending_size_is_written s c hp hnf hpe)

/-- **torn_down_client_is_silent**: a closed client record receives nothing in any later history
(replacements included) and stays closed until it is reaped -/
theorem torn_down_client_is_silent (id : Nat) (ops : List Op) (st : State) (c0 : Client)
    (hu : Uniq id st c0) (hc : c0.base.isOpen = false) (hA : ∀ op ∈ ops, op.notFrom id) :
    msgsTo id (run st ops).2 = [] ∧ ∃ c1, Uniq id (run st ops).1 c1 ∧ c1.base.isOpen = false :=
  closed_client_never_served id ops st c0 hu hc hA

/-- the screen hook failing: the extended size message is dropped, the fields are reset all the
same, the client stays connected (code as it is; the application's fault) -/
theorem ext_hook_failure_drops_message (st : State) (id : Nat) (c : Client)
    (hg : getClient st id = some c) (hx : extFails c = true) :
    (step st (.updateExtFail id)).2.msgs = [] := by
  simp [step, hg, hx]

/-! ## 3. later rectangles stay inside the new size -/

/-- **reachable_states_good**: the region invariant (modified and copy region well-formed and inside
the CURRENT screen; requested region well-formed but possibly stale) holds in every state of every
history in which the application is sane. -/
theorem reachable_states_good (ops : List Op) (st : State) (hg : GoodSt st)
    (hs : ∀ (pre : List Op) (op : Op) (post : List Op), ops = pre ++ op :: post →
      op.sane (run st pre).1) : GoodSt (run st ops).1 :=
  goodSt_run ops st hg hs

/-- a replacement establishes the invariant for the new size from the invariant for the old one -/
theorem replacement_keeps_good (st : State) (w h bpp : Int) (tok : Nat) (hg : GoodSt st)
    (hw : 1 ≤ w) (hh : 1 ≤ h) : GoodSt (newFramebuffer st w h bpp tok) :=
  goodSt_newFramebuffer st w h bpp tok hg hw hh

/-- **rects_inside_new_size**: in a good state every update of every open client — whatever its
requested region is, in particular one left over from a larger framebuffer — consists only of
non-empty pixel rectangles and CopyRect destinations inside the current screen; on the wire an
unscaled client sees exactly those, a scaled client rectangles that end inside its scaled size. -/
theorem rects_inside_new_size (st : State) (hg : GoodSt st) (c : Client) (hc : c ∈ st.clients)
    (ho : c.base.isOpen = true) (cs : Bool) (cp : List VncModel.Update.CopyRectMsg) (rs : List Rect)
    (hm : (c.id, Msg.fbu cs cp rs) ∈ (updateClient st.scr c).2.msgs) :
    (∀ k ∈ cp, CopyIn st.scr.base.width st.scr.base.height k) ∧
    (c.scaled = false → ∀ q ∈ rs, RectIn st.scr.base.width st.scr.base.height q) ∧
    (c.scaled = true → ∀ q ∈ rs, q.x2 ≤ c.sw.toNat ∧ q.y2 ≤ c.sh.toNat) := by
  have hG := hg.2 c hc ho
  obtain ⟨_, hsent⟩ := good_sendUpdate hg.1.1 hg.1.2.1 hg.1.2.2.1 hg.1.2.2.2 hG
  unfold updateClient at hm
  split at hm
  · unfold sendUpdate at hm
    split at hm
    · -- size message only
      simp only [List.mem_singleton, Prod.mk.injEq] at hm
      have := hm.2
      rw [sizeMessage_msg] at this
      split at this <;> simp at this
    · split at hm
      · simp at hm
      · rename_i m hmm
        obtain ⟨hraw, hcop⟩ := hsent m hmm
        simp only [List.mem_singleton, Prod.mk.injEq, Msg.fbu.injEq] at hm
        obtain ⟨_, _, rfl, rfl⟩ := hm
        refine ⟨hcop, ?_, ?_⟩
        · intro hsc q hq
          simp only [List.mem_map] at hq
          obtain ⟨q0, hq0, rfl⟩ := hq
          have hin := hraw q0 hq0
          simp only [wireRect, hsc, Bool.not_false, VncModel.Scale.corr, if_true]
          simp only [RectIn] at hin ⊢
          omega
        · intro hsc q hq
          simp only [List.mem_map] at hq
          obtain ⟨q0, _, rfl⟩ := hq
          simp only [wireRect, hsc, Bool.not_true, VncModel.Scale.corr, Bool.false_eq_true, if_false,
            VncModel.Scale.corr1, VncModel.Scale.corrFix]
          constructor <;> (split <;> omega)
  · simp at hm

/-! ## 4. pixel translation follows a depth change -/

/-- **translation_follows_depth**: in every state of every history, the translation function
installed for every open client was built for (the CURRENT server format, the client's format) —
given that this held initially (a fresh connection: `newClient`). -/
theorem translation_follows_depth (ops : List Op) (st : State) (h : XlateOk st) :
    ∀ c ∈ (run st ops).1.clients, c.base.isOpen = true →
      c.xlate = ((run st ops).1.scr.bpp, c.fmt) := by
  intro c hc ho
  exact xlateOk_run ops st h (admin c) (List.mem_map.mpr ⟨c, hc, rfl⟩) ho

/-- in particular directly after a replacement that changes the format -/
theorem translation_refreshed_by_replacement (st : State) (w h bpp : Int) (tok : Nat) (hx : XlateOk st)
    (d : Client) (hd : d ∈ (newFramebuffer st w h bpp tok).clients) (ho : d.base.isOpen = true) :
    d.xlate = (bpp, d.fmt) :=
  xlateOk_newFramebuffer st w h bpp tok hx (admin d) (List.mem_map.mpr ⟨d, hd, rfl⟩) ho

/-! ## 5. SetDesktopSize is answered with the application's code -/

/-- **setdesktopsize_answer**: after a SetDesktopSize (≥ 1 screen) of client `id` its record holds
reason "requested by this client" and exactly the status the application's hook returned; on a
refusal the size message is forced.  (Also when the hook replaced the framebuffer itself.) -/
theorem setdesktopsize_answer (st : State) (id : Nat) (w h ns : Int) (hook : Hook) (c0 : Client)
    (hu : Uniq id st c0) (hns : ns ≠ 0) :
    ∃ d, Uniq id (step st (.setDesktopSize id w h ns hook)).1 d ∧
      d.reqChange = VncModel.Gen.C16.reasonClient ∧ d.lastErr = hookCode hook ∧
      d.useExt = c0.useExt ∧ (hookCode hook ≠ 0 → d.pending = true) :=
  ⟨_, uniq_step _ hu, sds_requester st id w h ns hook c0 hu.1 hu.2.1 hns⟩

/-- without an application hook the request is refused ("resize prohibited", the library default) -/
theorem setdesktopsize_refused_without_hook :
    hookCode none = VncModel.Gen.C16.statusProhibited ∧ hookCode none ≠ VncModel.Gen.C16.statusSuccess := by
  decide

/-- a request that names no screen is ignored altogether (the code's choice) -/
theorem setdesktopsize_without_screens_ignored (st : State) (id : Nat) (w h : Int) (hook : Hook) :
    (step st (.setDesktopSize id w h 0 hook)).1 = st := by
  simp only [step]
  split <;> simp [setDesktopSize]

/-- **answer_delivered**: once reason `r` / status `s` are recorded for an ExtendedDesktopSize
client (by `setdesktopsize_answer`: `r` = "this client", `s` = the hook's code), the first size
message it receives in any later history without further SetDesktopSize messages is the extended
one with exactly these two values. -/
theorem answer_delivered (id : Nat) (r s : Int) (ops : List Op) (st : State) (c0 : Client)
    (hu : Uniq id st c0) (hext : c0.useExt = true) (hr : c0.reqChange = r) (hs : c0.lastErr = s)
    (hA : ∀ op ∈ ops, op.keepsExt id ∧ op.noSds ∧ op.noFailure id) :
    ∀ m, (msgsTo id (run st ops).2).find? Msg.isSize = some m → ∃ w h l, m = .ext r s w h l :=
  ext_fields_delivered id r s ops st c0 hu ⟨hext, hr, hs⟩ hA

/-- **others_told_other_client**: after a successful request of client `id` every other open client's
record says "requested by another client" (and keeps its own status field) -/
theorem others_told_other_client (st : State) (id : Nat) (w h ns : Int) (hook : Hook) (c : Client)
    (hg : (getClient st id).isSome = true) (hid : c.id ≠ id) (hns : ns ≠ 0)
    (ho : c.base.isOpen = true) (hcode : hookCode hook = 0) :
    (stepClient st (.setDesktopSize id w h ns hook) c).reqChange = VncModel.Gen.C16.reasonOther ∧
    (stepClient st (.setDesktopSize id w h ns hook) c).lastErr = c.lastErr :=
  let r := sds_others st id w h ns hook c hg hid hns ho hcode
  ⟨r.1, r.2.1⟩

/-- **reason_status_reset**: sending the extended size message clears both fields, so the following
size messages say "no particular reason, success" until the next SetDesktopSize -/
theorem reason_status_reset (c : Client) (hext : c.useExt = true) :
    (sizeMessage c).1.reqChange = 0 ∧ (sizeMessage c).1.lastErr = 0 ∧
    (sizeMessage c).2 = .ext c.reqChange c.lastErr c.sw c.sh [(1, 0, 0, c.sw, c.sh, 0)] := by
  refine ⟨((sizeMessage_state c).2.2.2.2.1 hext).1, ((sizeMessage_state c).2.2.2.2.1 hext).2, ?_⟩
  rw [sizeMessage_msg, if_pos hext]

/-! ## 6. no size change unless the application performs it -/

/-- **no_spontaneous_resize**: width, height, pixel format and buffer of the screen are the same
after any history that contains no rfbNewFramebuffer call of the application (directly or inside
its SetDesktopSize hook) — in particular no client message changes them. -/
theorem no_spontaneous_resize (ops : List Op) (st : State) (h : ∀ op ∈ ops, op.appResize = false) :
    geometry (run st ops).1 = geometry st :=
  geometry_run ops st h

/-- and when the application does call it, the screen gets exactly what the application chose -/
theorem resize_is_the_applications (st : State) (w h bpp : Int) (tok : Nat) :
    geometry (step st (.newFramebuffer w h bpp tok)).1 = ⟨w, h, bpp, tok⟩ := rfl

/-! ## 7. the pointer position is inside the new area -/

theorem pointer_inside_after_replacement (st : State) (w h bpp : Int) (tok : Nat)
    (hw : 1 ≤ w) (hh : 1 ≤ h) (hx : 0 ≤ st.scr.base.cursorX) (hy : 0 ≤ st.scr.base.cursorY) :
    0 ≤ (newFramebuffer st w h bpp tok).scr.base.cursorX ∧
    (newFramebuffer st w h bpp tok).scr.base.cursorX < w ∧
    0 ≤ (newFramebuffer st w h bpp tok).scr.base.cursorY ∧
    (newFramebuffer st w h bpp tok).scr.base.cursorY < h := by
  simp only [newFramebuffer]
  refine ⟨?_, ?_, ?_, ?_⟩ <;> split <;> omega

/-! ## 8. facts about the regenerated constants -/

/-- the extended size message (header + screen count + the single screen of the default layout)
always fits the update buffer after the 4-byte FramebufferUpdate header -/
theorem ext_message_fits_update_buffer :
    VncModel.Gen.C16.sz_rfbFramebufferUpdateMsg + VncModel.Gen.C16.sz_rfbFramebufferUpdateRectHeader +
      VncModel.Gen.C16.sz_rfbExtDesktopSizeMsg + VncModel.Gen.C16.sz_rfbExtDesktopScreen
      ≤ VncModel.Gen.C16.UPDATE_BUF_SIZE := by decide

/-- a SetDesktopSize message makes the server allocate at most 255 × 16 bytes -/
theorem setdesktopsize_payload_bound (n : Nat) (h : n ≤ VncModel.Gen.C16.maxScreensInRequest) :
    n * VncModel.Gen.C16.sz_rfbExtDesktopScreen ≤ 4080 := by
  have h1 : VncModel.Gen.C16.maxScreensInRequest = 255 := by decide
  have h2 : VncModel.Gen.C16.sz_rfbExtDesktopScreen = 16 := by decide
  rw [h1] at h
  rw [h2]
  omega

/-- **emitters_stay_inside_buffer**: the flush rule of rfbSendNewFBSize / rfbSendExtDesktopSize keeps
`ublen` within the update buffer for every rectangle that fits a buffer at all -/
theorem emitters_stay_inside_buffer (ublen need : Nat) (hn : need ≤ VncModel.Gen.C16.UPDATE_BUF_SIZE) :
    (emit ublen need).2 ≤ VncModel.Gen.C16.UPDATE_BUF_SIZE :=
  emit_inside ublen need hn

/-- **size_shortcircuit_never_flushes**: where the emitters are really called (after the 4-byte
FramebufferUpdate header) the flush branch is dead for every screen count the wire can carry -/
theorem size_shortcircuit_never_flushes (n : Nat) (h : n ≤ VncModel.Gen.C16.maxScreensInRequest) :
    (emit VncModel.Gen.C16.sz_rfbFramebufferUpdateMsg (needExt n)).1 = 0 ∧
    (emit VncModel.Gen.C16.sz_rfbFramebufferUpdateMsg needNewFB).1 = 0 :=
  shortcircuit_never_flushes n h

/-- **ext_message_limit**: the extended rectangle fits the update buffer iff the application reports
at most 2047 screens (beyond that `updateBuf` is overrun: the rule flushes, it never splits) -/
theorem ext_message_limit (n : Nat) : needExt n ≤ VncModel.Gen.C16.UPDATE_BUF_SIZE ↔ n ≤ 2047 :=
  ext_fits_iff n

/-! ## Non-vacuity -/

/-- a concrete state: 8×6 screen, 32 bpp, buffer 0, one ExtendedDesktopSize client -/
def exState : State :=
  (run (initState 8 6 4 0) [.newClient 0, .setEncodings 0 true true false true,
                            .request 0 false 0 0 8 6]).1

example : (exState.clients.map (·.id)) = [0] := by decide
example : XlateOk exState := by
  intro a ha ho
  simp only [admins, exState] at ha
  revert a
  decide
example : ScrOk exState.scr := by unfold ScrOk; decide

/-- hypotheses of `old_buffer_never_read` hold for a real history, and the history does access the
new buffer (so the statement is not vacuous) -/
example : (1 : Nat) ≠ exState.scr.fb ∧
    (∀ op ∈ [Op.update 0, Op.update 0], op.avoids exState.scr.fb) := by
  refine ⟨by decide, ?_⟩
  intro op hop
  simp only [List.mem_cons, List.mem_nil_iff, or_false] at hop
  rcases hop with rfl | rfl | h <;> trivial

/-- a hand-made state with one ExtendedDesktopSize client -/
def exClient : Client :=
  { newClient (initState 8 6 4 0).scr 0 with useNewFBSize := true, useExt := true }
def exSt : State := { scr := (initState 8 6 4 0).scr, clients := [exClient] }

/-- `Uniq`, pending size message: the hypotheses of `size_message_first` hold after a replacement -/
example : Uniq 0 (newFramebuffer exSt 5 4 2 1) (newFbClient exSt.scr 5 4 2 1 exClient) ∧
    (newFbClient exSt.scr 5 4 2 1 exClient).useNewFBSize = true ∧
    (newFbClient exSt.scr 5 4 2 1 exClient).pending = true ∧
    (newFbClient exSt.scr 5 4 2 1 exClient).sw = 5 ∧ (newFbClient exSt.scr 5 4 2 1 exClient).sh = 4 := by
  refine ⟨⟨by simp [newFramebuffer, exSt], rfl, ?_⟩, rfl, rfl, rfl, rfl⟩
  intro c hc _
  simpa [newFramebuffer, exSt] using hc

/-- the hypotheses of `setdesktopsize_answer` / `answer_delivered` -/
example : Uniq 0 exSt exClient ∧ exClient.useExt = true :=
  ⟨⟨by simp [exSt], rfl, fun c hc _ => by simpa [exSt] using hc⟩, rfl⟩

/-- the hook codes of the property: refusal codes are non-zero -/
example : hookCode (some (3, none)) = 3 ∧ hookCode (some (0, some (5, 4, 4, 7))) = 0 := by decide

/-- `GoodSt` holds initially and for `exState`'s screen constants -/
example : GoodSt (initState 8 6 4 0) :=
  ⟨by unfold ScrOk; decide, fun c hc => by simp [initState] at hc⟩

/-- `CInv` is satisfiable and `GRun` has real members: a replacement followed by a request and an
update of client 0 -/
example : CInv (V := Nat) 0 exSt (fun _ => 1) (fun _ => 0) :=
  invariant_starts_full 0 exSt exClient
    ⟨by simp [exSt], rfl, fun c hc _ => by simpa [exSt] using hc⟩
    ⟨show (Region.rect 0 0 8 6).WF from rect_wf _ _ _ _, trivial, trivial⟩
    (fun p hp => show (Region.rect 0 0 8 6).den p.1 p.2 from (rect_den 0 0 8 6 p.1 p.2).mpr hp) _ _

example : ∃ st' fb' pic', GRun (V := Nat) 0 exSt (fun _ => 1) (fun _ => 0)
    [.newFramebuffer 5 4 2 1, .request 0 false 0 0 5 4] st' fb' pic' :=
  ⟨_, _, _, GRun.cons (fb1 := fun _ => 2) (pic1 := fun _ => 0) trivial trivial
    (GRun.cons (fb1 := fun _ => 2) (pic1 := fun _ => 0) rfl rfl (GRun.nil _ _ _))⟩

/-- a closed record (hypothesis of `torn_down_client_is_silent`) arises from a failed size write -/
example : (closeClient exClient).base.isOpen = false := rfl

end VncModel.Props.C16
