import VncModel.Clip.Model
namespace VncModel.Props.C18
open VncModel.Clip VncModel.Gen.C18

theorem placeholder_partial : neg32 0 = 0 := by decide

end VncModel.Props.C18
